(* GenTie.v — the generated definitions (Gen/*.v, regenerated from /repo on every run)
   are the hand model (Model/*.v).  Every theorem about the model is thereby re-checked
   against what the source says now. *)
From BB Require Import Model.Merges Model.Mem Gen.NumpySem Gen.GSim Gen.GMerges Gen.GMem.
From Coq Require Import Lia.
Open Scope Z_scope.

Lemma Zs2f_nonneg z : 0 <= z -> Zs2f z = Z2f z.
Proof. intros H. unfold Zs2f. destruct (z <? 0) eqn:E; [lia|reflexivity]. Qed.

Lemma tie_centroid_vals ls n : GSim.centroid_from_sum ls n false = centroid_vals ls n.
Proof.
  unfold GSim.centroid_from_sum, centroid_vals.
  destruct (n <=? 1) eqn:E; [reflexivity|].
  unfold np_view_u8, np_ge_arr_f. rewrite map_map.
  rewrite Zs2f_nonneg by lia. reflexivity.
Qed.

Lemma tie_centroid_packed ls n : GSim.centroid_from_sum ls n true = centroid_packed ls n.
Proof.
  pose proof (tie_centroid_vals ls n) as H.
  unfold GSim.centroid_from_sum in *. unfold centroid_packed, centroid_fpv. rewrite <- H.
  destruct (n <=? 1); reflexivity.
Qed.

Lemma tie_isim ls n : GSim.jt_isim_from_sum ls n = isim_f ls n.
Proof. reflexivity. Qed.

Lemma tie_radius_compl ls n : GSim.jt_isim_radius_compl_from_sum ls n = radius_compl_f ls n.
Proof.
  unfold GSim.jt_isim_radius_compl_from_sum, radius_compl_f.
  rewrite tie_centroid_vals. reflexivity.
Qed.

Lemma tie_radius ls n :
  GSim.jt_isim_radius_from_sum ls n = (1 - radius_compl_f ls n)%float.
Proof. unfold GSim.jt_isim_radius_from_sum. rewrite tie_radius_compl. reflexivity. Qed.

Lemma tie_diameter ls n :
  GSim.jt_isim_diameter_from_sum ls n = (1 - isim_f ls n)%float.
Proof. reflexivity. Qed.

Section Merges.
Variable fexp : float -> float.

Lemma tie_tol_init tol :
  GMerges.tol_init fexp tol 1000 tol_decay true = (tol, tol_decay, tol_offset fexp).
Proof. reflexivity. Qed.

(* the six criteria: the hand model's [accept] is the generated __call__ of each class *)
Lemma tie_accept c thr nl nn ol ml on mn :
  accept fexp c thr nl nn ol ml on mn =
  match c with
  | CRadius => GMerges.radius_call thr nl nn ol ml on mn
  | CDiameter => GMerges.diameter_call thr nl nn ol ml on mn
  | CTolDiameter t d o => GMerges.tol_diameter_call fexp t d o thr nl nn ol ml on mn
  | CTolRadius t d o => GMerges.tol_radius_call fexp t d o thr nl nn ol ml on mn
  | CTolLegacy t => GMerges.tol_legacy_call t thr nl nn ol ml on mn
  | CNever _ _ _ => GMerges.never_call thr nl nn ol ml on mn
  end.
Proof.
  destruct c; cbn [accept];
    unfold GMerges.radius_call, GMerges.diameter_call, GMerges.tol_diameter_call,
           GMerges.tol_radius_call, GMerges.tol_legacy_call, GMerges.never_call;
    rewrite ?tie_radius_compl; try reflexivity.
Qed.
End Merges.

(* _ArrayMemPagesManager: the two methods the fit loop calls *)
Lemma tie_should_release m i :
  GMem.should_release_curr_page (pagesizex m) (iters m) (addr m) i = should_release m i.
Proof. reflexivity. Qed.
Lemma tie_release m :
  GMem.release_curr_page_and_update_addr (pagesizex m) (iters m) (addr m) =
  ([fst (release m)], addr (snd (release m))).
Proof. reflexivity. Qed.
