(* MrSched.v — property C06: schedule independence of the multi-round workflow.
   S0  string facts (str_ltb strict total order; decimal rendering str_of_Z; zfill; names)
   S1  directory algebra (dir_wf, dir_put_wf, dir_get_put, dir_put_comm, dir_ext)
   S2  writes of different tasks commute (run_tasks_perm, interleave_puts)
   S3  no two tasks of a round write the same file
   S4  schedule independence of run_multiround
   S5  frame lemmas: reading during the round = reading at round start *)
From BB Require Import Model.Multiround.
From Coq Require Import String Ascii Lia Permutation Sorted.
Open Scope Z_scope.

(* ====================================================================== *)
(** * S0. Strings *)
(* ====================================================================== *)

(** ** generic facts on [append] / [length] *)
Lemma sapp_assoc (a b c : string) : ((a ++ b) ++ c)%string = (a ++ (b ++ c))%string.
Proof. induction a; simpl; congruence. Qed.

Lemma sapp_nil_r (a : string) : (a ++ "")%string = a.
Proof. induction a; simpl; congruence. Qed.

Lemma slen_app (a b : string) :
  String.length (a ++ b) = (String.length a + String.length b)%nat.
Proof. induction a; simpl; congruence. Qed.

(* splitting an equation between appends at equal lengths of the heads *)
Lemma sapp_inv_len (a b c e : string) :
  String.length a = String.length c -> (a ++ b)%string = (c ++ e)%string -> a = c /\ b = e.
Proof.
  revert c; induction a as [|x a IH]; intros [|y c]; simpl; intros Hl He; try discriminate.
  - auto.
  - injection He as -> He. injection Hl as Hl. destruct (IH _ Hl He) as [-> ->]. auto.
Qed.

(* ... or at equal lengths of the tails *)
Lemma sapp_inv_len_r (a b c e : string) :
  String.length b = String.length e -> (a ++ b)%string = (c ++ e)%string -> a = c /\ b = e.
Proof.
  intros Hl He. apply sapp_inv_len; auto.
  apply (f_equal String.length) in He. rewrite !slen_app in He. lia.
Qed.

Lemma sapp_inv_head (a b c : string) : (a ++ b)%string = (a ++ c)%string -> b = c.
Proof. intros H. apply sapp_inv_len in H; tauto. Qed.

Lemma prefix_app (a b : string) :
  String.prefix a b = true -> exists c, b = (a ++ c)%string.
Proof.
  revert b; induction a as [|x a IH]; intros b H.
  - exists b; reflexivity.
  - destruct b as [|y b]; simpl in H; try discriminate.
    destruct (ascii_dec x y) as [->|]; try discriminate.
    destruct (IH _ H) as [c ->]. exists c; reflexivity.
Qed.

(** ** [str_ltb] is a strict total order *)
Lemma nat_of_ascii_inj (x y : ascii) : nat_of_ascii x = nat_of_ascii y -> x = y.
Proof.
  intros H. rewrite <- (ascii_nat_embedding x), <- (ascii_nat_embedding y), H. reflexivity.
Qed.

Lemma str_ltb_irrefl (s : string) : str_ltb s s = false.
Proof. induction s; simpl; auto. rewrite Nat.ltb_irrefl. auto. Qed.

Lemma str_ltb_trans (a b c : string) :
  str_ltb a b = true -> str_ltb b c = true -> str_ltb a c = true.
Proof.
  revert b c; induction a as [|x a IH]; intros [|y b] [|z c]; simpl; try congruence.
  destruct (Nat.ltb_spec (nat_of_ascii x) (nat_of_ascii y));
  destruct (Nat.ltb_spec (nat_of_ascii y) (nat_of_ascii x));
  destruct (Nat.ltb_spec (nat_of_ascii y) (nat_of_ascii z));
  destruct (Nat.ltb_spec (nat_of_ascii z) (nat_of_ascii y));
  destruct (Nat.ltb_spec (nat_of_ascii x) (nat_of_ascii z));
  destruct (Nat.ltb_spec (nat_of_ascii z) (nat_of_ascii x));
  try lia; try congruence; eauto.
Qed.

(* trichotomy: neither below the other -> equal *)
Lemma str_ltb_trich (a b : string) :
  str_ltb a b = false -> str_ltb b a = false -> a = b.
Proof.
  revert b; induction a as [|x a IH]; intros [|y b]; simpl; try congruence.
  destruct (Nat.ltb_spec (nat_of_ascii x) (nat_of_ascii y));
  destruct (Nat.ltb_spec (nat_of_ascii y) (nat_of_ascii x)); try congruence; try lia.
  intros H1 H2. assert (x = y) by (apply nat_of_ascii_inj; lia). subst.
  f_equal; auto.
Qed.

Lemma str_ltb_asym (a b : string) : str_ltb a b = true -> str_ltb b a = false.
Proof.
  intros H. destruct (str_ltb b a) eqn:E; auto.
  pose proof (str_ltb_trans _ _ _ H E) as K. rewrite str_ltb_irrefl in K. discriminate.
Qed.

Lemma str_ltb_neq (a b : string) : str_ltb a b = true -> a <> b.
Proof. intros H ->. rewrite str_ltb_irrefl in H. discriminate. Qed.

(* trichotomy with String.eqb *)
Lemma str_ltb_total (a b : string) :
  str_ltb a b = true \/ String.eqb a b = true \/ str_ltb b a = true.
Proof.
  destruct (str_ltb a b) eqn:E1; auto. destruct (str_ltb b a) eqn:E2; auto.
  right; left. apply String.eqb_eq. apply str_ltb_trich; auto.
Qed.

(** ** decimal rendering *)
Definition suff (f : nat) (z : Z) : Prop := 0 <= z < 10 ^ Z.of_nat f /\ (1 <= f)%nat.

Lemma suff_div f z : suff (S f) z -> 10 <= z -> suff f (z / 10).
Proof.
  intros [[H0 H1] _] H10. rewrite Nat2Z.inj_succ, Z.pow_succ_r in H1 by lia.
  assert (Hd : z / 10 < 10 ^ Z.of_nat f) by (apply Z.div_lt_upper_bound; lia).
  refine (conj (conj _ Hd) _).
  - apply Z.div_pos; lia.
  - destruct f; [|lia]. simpl in Hd. assert (1 <= z / 10) by (apply Z.div_le_lower_bound; lia). lia.
Qed.

(* the result does not depend on the fuel once there is enough of it *)
Lemma pos_fuel_indep f1 : forall f2 z acc, suff f1 z -> suff f2 z ->
  str_of_pos_fuel f1 z acc = str_of_pos_fuel f2 z acc.
Proof.
  induction f1 as [|a IH]; intros f2 z acc H1 H2.
  - destruct H1 as [_ H1]; lia.
  - destruct f2 as [|b]; [destruct H2 as [_ H2]; lia|].
    simpl. destruct (Z.ltb_spec z 10); auto.
    apply IH; apply suff_div; auto.
Qed.

Lemma pos_fuel_acc f : forall z acc, suff f z ->
  str_of_pos_fuel f z acc = (str_of_pos_fuel f z "" ++ acc)%string.
Proof.
  induction f as [|a IH]; intros z acc H.
  - destruct H as [_ H]; lia.
  - simpl. destruct (Z.ltb_spec z 10); auto.
    rewrite IH by (apply suff_div; auto).
    rewrite (IH _ (String _ "")) by (apply suff_div; auto).
    rewrite sapp_assoc. reflexivity.
Qed.

Lemma suff_log2 z k : 0 <= z -> suff (Z.to_nat (Z.log2 z) + 1 + k) z.
Proof.
  intros Hz. split; [|lia]. split; auto.
  rewrite !Nat2Z.inj_add, Z2Nat.id by apply Z.log2_nonneg.
  assert (Hk : 0 <= Z.of_nat k) by lia. remember (Z.of_nat k) as kk. clear Heqkk.
  assert (H10 : 10 ^ (Z.log2 z + Z.of_nat 1) <= 10 ^ (Z.log2 z + Z.of_nat 1 + kk)).
  { pose proof (Z.log2_nonneg z). apply Z.pow_le_mono_r; lia. }
  eapply Z.lt_le_trans; [|exact H10]. change (Z.of_nat 1) with 1.
  destruct (Z.eq_dec z 0) as [->|Hn].
  - change (Z.log2 0) with 0. simpl. lia.
  - pose proof (Z.log2_spec z ltac:(lia)) as [_ Hs].
    eapply Z.lt_le_trans; [exact Hs|]. unfold Z.succ.
    apply Z.pow_le_mono_l. pose proof (Z.log2_nonneg z). lia.
Qed.

Definition dstr (d : Z) : string := String (digit_of d) "".

(* the clean characterisation of [str_of_Z] on non-negative integers *)
Lemma str_of_Z_small z : 0 <= z < 10 -> str_of_Z z = dstr z.
Proof.
  intros H. unfold str_of_Z. destruct (Z.ltb_spec z 0); [lia|].
  replace (Z.to_nat (Z.log2 z) + 2)%nat with (S (Z.to_nat (Z.log2 z) + 1)) by lia.
  simpl. destruct (Z.ltb_spec z 10); [reflexivity|lia].
Qed.

Lemma str_of_Z_step z : 10 <= z ->
  str_of_Z z = (str_of_Z (z / 10) ++ dstr (z mod 10))%string.
Proof.
  intros H. unfold str_of_Z.
  assert (H0 : 0 <= z / 10) by (apply Z.div_pos; lia).
  destruct (Z.ltb_spec z 0); [lia|]. destruct (Z.ltb_spec (z / 10) 0); [lia|].
  replace (Z.to_nat (Z.log2 z) + 2)%nat with (S (Z.to_nat (Z.log2 z) + 1 + 0)) by lia.
  assert (Hs : suff (Z.to_nat (Z.log2 z) + 1 + 0) (z / 10)).
  { apply suff_div; auto. replace (S (Z.to_nat (Z.log2 z) + 1 + 0)) with (Z.to_nat (Z.log2 z) + 1 + 1)%nat by lia.
    apply suff_log2; lia. }
  cbn [str_of_pos_fuel]. destruct (Z.ltb_spec z 10); [lia|].
  rewrite pos_fuel_acc by exact Hs. unfold dstr. f_equal.
  apply pos_fuel_indep; auto.
  replace (Z.to_nat (Z.log2 (z / 10)) + 2)%nat with (Z.to_nat (Z.log2 (z / 10)) + 1 + 1)%nat by lia.
  apply suff_log2; auto.
Qed.

(* induction principle following the characterisation *)
Lemma dec_ind (P : Z -> Prop) :
  (forall z, 0 <= z < 10 -> P z) ->
  (forall z, 10 <= z -> P (z / 10) -> P z) ->
  forall z, 0 <= z -> P z.
Proof.
  intros Hb Hs z Hz. pattern z. apply Zlt_0_ind; auto.
  intros x IH Hx. destruct (Z_lt_dec x 10); [apply Hb; lia|].
  apply Hs; [lia|]. apply IH. split; [apply Z.div_pos; lia|apply Z.div_lt; lia].
Qed.

(** digits *)
Definition is_digit (c : ascii) : Prop := (48 <= nat_of_ascii c <= 57)%nat.
Fixpoint all_digits (s : string) : Prop :=
  match s with EmptyString => True | String c tl => is_digit c /\ all_digits tl end.
Fixpoint no_dash (s : string) : Prop :=
  match s with EmptyString => True | String c tl => c <> "-"%char /\ no_dash tl end.

Lemma digit_of_nat d : 0 <= d < 10 -> nat_of_ascii (digit_of d) = (48 + Z.to_nat d)%nat.
Proof. intros H. unfold digit_of. apply nat_ascii_embedding. lia. Qed.

Lemma digit_of_is_digit d : 0 <= d < 10 -> is_digit (digit_of d).
Proof. intros H. unfold is_digit. rewrite digit_of_nat by auto. lia. Qed.

Lemma all_digits_app a b : all_digits a -> all_digits b -> all_digits (a ++ b).
Proof. induction a; simpl; tauto. Qed.

Lemma all_digits_no_dash s : all_digits s -> no_dash s.
Proof.
  induction s as [|c s IH]; simpl; auto. intros [Hc Hs]. split; auto.
  intros ->. unfold is_digit in Hc.
  assert (E : nat_of_ascii "-" = 45%nat) by reflexivity. rewrite E in Hc. lia.
Qed.

Lemma str_of_Z_digits z : 0 <= z -> all_digits (str_of_Z z).
Proof.
  intros Hz. pattern z. apply dec_ind; auto; clear z Hz.
  - intros z H. rewrite str_of_Z_small by auto. simpl. split; auto. apply digit_of_is_digit; auto.
  - intros z H IH. rewrite str_of_Z_step by auto. apply all_digits_app; auto.
    simpl. split; auto. apply digit_of_is_digit. apply Z.mod_pos_bound. lia.
Qed.

(* the rendering of a non-negative integer never contains "-" *)
Lemma str_of_Z_no_dash z : 0 <= z -> no_dash (str_of_Z z).
Proof. intros H. apply all_digits_no_dash, str_of_Z_digits, H. Qed.

(** value of a digit string (Horner) — the left inverse of [str_of_Z] *)
Fixpoint val_acc (acc : Z) (s : string) : Z :=
  match s with
  | EmptyString => acc
  | String c tl => val_acc (10 * acc + (Z.of_nat (nat_of_ascii c) - 48)) tl
  end.
Definition sval (s : string) : Z := val_acc 0 s.

Lemma val_acc_app a s t : val_acc a (s ++ t) = val_acc (val_acc a s) t.
Proof. revert a; induction s; simpl; auto. Qed.

Lemma sval_str_of_Z z : 0 <= z -> sval (str_of_Z z) = z.
Proof.
  intros Hz. pattern z. apply dec_ind; auto; clear z Hz.
  - intros z H. rewrite str_of_Z_small by auto. unfold sval, dstr. cbn [val_acc].
    rewrite digit_of_nat by auto. lia.
  - intros z H IH. rewrite str_of_Z_step by auto. unfold sval in *.
    rewrite val_acc_app, IH. unfold dstr. cbn [val_acc].
    assert (Hm : 0 <= z mod 10 < 10) by (apply Z.mod_pos_bound; lia).
    rewrite digit_of_nat by auto. pose proof (Z.div_mod z 10 ltac:(lia)). lia.
Qed.

Lemma str_of_Z_inj a b : 0 <= a -> 0 <= b -> str_of_Z a = str_of_Z b -> a = b.
Proof.
  intros Ha Hb H. rewrite <- (sval_str_of_Z a), <- (sval_str_of_Z b), H; auto.
Qed.

Lemma str_of_Z_len_pos z : 0 <= z -> (1 <= String.length (str_of_Z z))%nat.
Proof.
  intros Hz. pattern z. apply dec_ind; auto; clear z Hz.
  - intros z H. rewrite str_of_Z_small by auto. simpl. lia.
  - intros z H IH. rewrite str_of_Z_step by auto. rewrite slen_app. lia.
Qed.

(* the number of digits is monotone *)
Lemma str_of_Z_len_mono n : 0 <= n -> forall i, 0 <= i <= n ->
  (String.length (str_of_Z i) <= String.length (str_of_Z n))%nat.
Proof.
  intros Hn. pattern n. apply dec_ind; auto; clear n Hn.
  - intros n H i Hi. rewrite !str_of_Z_small by lia. simpl. lia.
  - intros n H IH i Hi. rewrite (str_of_Z_step n) by auto. rewrite slen_app. simpl.
    destruct (Z_lt_dec i 10).
    + rewrite str_of_Z_small by lia. simpl. lia.
    + rewrite (str_of_Z_step i) by lia. rewrite slen_app. simpl.
      assert (String.length (str_of_Z (i / 10)) <= String.length (str_of_Z (n / 10)))%nat; [|lia].
      apply IH. split; [apply Z.div_pos; lia|apply Z.div_le_mono; lia].
Qed.

(** ** zfill *)
Lemma slen_repeat c n : String.length (str_repeat c n) = n.
Proof. induction n; simpl; congruence. Qed.

Lemma zfill_len s w : (String.length s <= Z.to_nat w)%nat ->
  String.length (zfill s w) = Z.to_nat w.
Proof. intros H. unfold zfill. rewrite slen_app, slen_repeat. lia. Qed.

Lemma sval_zfill s w : sval (zfill s w) = sval s.
Proof.
  unfold zfill, sval. rewrite val_acc_app. f_equal.
  induction (Z.to_nat w - String.length s)%nat; simpl; auto.
Qed.

Lemma zfill_str_inj a b w : 0 <= a -> 0 <= b ->
  zfill (str_of_Z a) w = zfill (str_of_Z b) w -> a = b.
Proof.
  intros Ha Hb H. apply (f_equal sval) in H. rewrite !sval_zfill, !sval_str_of_Z in H; auto.
Qed.

(* ====================================================================== *)
(** * S1. Directory algebra *)
(* ====================================================================== *)
Definition slt (a b : string) : Prop := str_ltb a b = true.
Definition elt (a b : string * content) : Prop := slt (fst a) (fst b).

(* sorted strictly by [str_ltb] (hence duplicate-free) *)
Definition dir_wf (d : dir) : Prop := StronglySorted elt d.

Lemma dir_wf_nil : dir_wf [].
Proof. constructor. Qed.

Lemma dir_wf_cons_inv e d : dir_wf (e :: d) -> dir_wf d /\ Forall (elt e) d.
Proof. intros H. inversion H; auto. Qed.

Lemma dir_wf_NoDup d : dir_wf d -> NoDup (dir_names d).
Proof.
  induction d as [|e d IH]; intros H; simpl; constructor.
  - apply dir_wf_cons_inv in H as [_ H]. intros Hin. apply in_map_iff in Hin as [e' [He Hin]].
    rewrite Forall_forall in H. specialize (H _ Hin). unfold elt, slt in H. rewrite He in H.
    rewrite str_ltb_irrefl in H. discriminate.
  - apply IH. apply dir_wf_cons_inv in H; tauto.
Qed.

Lemma dir_get_put d n c m :
  dir_get (dir_put d n c) m = if String.eqb m n then Some c else dir_get d m.
Proof.
  induction d as [|[k x] tl IH]; simpl.
  - rewrite (String.eqb_sym n m). reflexivity.
  - destruct (String.eqb_spec k n) as [->|Hkn].
    + simpl. rewrite (String.eqb_sym n m). destruct (String.eqb m n); reflexivity.
    + destruct (str_ltb n k); simpl.
      * rewrite (String.eqb_sym n m). reflexivity.
      * rewrite IH. destruct (String.eqb_spec k m) as [->|Hkm]; auto.
        destruct (String.eqb_spec m n); congruence.
Qed.

Lemma dir_get_put_same d n c : dir_get (dir_put d n c) n = Some c.
Proof. rewrite dir_get_put, String.eqb_refl. reflexivity. Qed.

Lemma dir_get_put_other d n c m : m <> n -> dir_get (dir_put d n c) m = dir_get d m.
Proof. intros H. rewrite dir_get_put. apply String.eqb_neq in H. rewrite H. reflexivity. Qed.

(* the names after a put: the old ones and the new one *)
Lemma dir_put_names_in d n c m :
  In m (dir_names (dir_put d n c)) -> m = n \/ In m (dir_names d).
Proof.
  induction d as [|[k x] tl IH]; simpl.
  - intros [H|[]]; auto.
  - destruct (String.eqb_spec k n) as [->|Hkn]; simpl.
    + intros [H|H]; auto.
    + destruct (str_ltb n k); simpl.
      * intros [H|[H|H]]; auto.
      * intros [H|H]; auto. apply IH in H. tauto.
Qed.

Lemma dir_put_wf d n c : dir_wf d -> dir_wf (dir_put d n c).
Proof.
  induction d as [|[k x] tl IH]; simpl; intros H.
  - repeat constructor.
  - apply dir_wf_cons_inv in H as [Htl Hk].
    destruct (String.eqb_spec k n) as [->|Hkn].
    + constructor; auto.
    + destruct (str_ltb n k) eqn:Hlt.
      * constructor; [constructor; auto|]. constructor; [exact Hlt|].
        rewrite Forall_forall in *. intros e He. specialize (Hk _ He). unfold elt, slt in *.
        simpl in *. eapply str_ltb_trans; eauto.
      * constructor; [apply IH; exact Htl|].
        assert (Hkn' : str_ltb k n = true).
        { destruct (str_ltb k n) eqn:E; auto. exfalso. apply Hkn. apply str_ltb_trich; auto. }
        rewrite Forall_forall in *. intros [m y] He.
        assert (Hm : In m (dir_names (dir_put tl n c))) by (apply in_map_iff; exists (m, y); auto).
        apply dir_put_names_in in Hm as [->|Hm]; [exact Hkn'|].
        apply in_map_iff in Hm as [e' [<- He']]. apply (Hk _ He').
Qed.

Lemma dir_get_none_lt d n : Forall (fun e => slt n (fst e)) d -> dir_get d n = None.
Proof.
  induction d as [|[k x] tl IH]; simpl; auto. intros H. inversion H; subst.
  simpl in *. destruct (String.eqb_spec k n) as [->|]; auto.
  unfold slt in *. rewrite str_ltb_irrefl in *. discriminate.
Qed.

Lemma dir_get_in d n x : dir_get d n = Some x -> In (n, x) d.
Proof.
  induction d as [|[k y] tl IH]; simpl; try discriminate.
  destruct (String.eqb_spec k n) as [->|]; auto. intros H. injection H as ->. auto.
Qed.

Lemma dir_get_in_names d n : In n (dir_names d) <-> dir_get d n <> None.
Proof.
  induction d as [|[k y] tl IH]; simpl; [tauto|].
  destruct (String.eqb_spec k n) as [->|Hn].
  - split; [discriminate|auto].
  - rewrite <- IH. tauto.
Qed.

Lemma dir_in_get d n x : dir_wf d -> In (n, x) d -> dir_get d n = Some x.
Proof.
  induction d as [|[k y] tl IH]; simpl; [tauto|]. intros H Hin.
  apply dir_wf_cons_inv in H as [Htl Hk]. destruct Hin as [E|Hin].
  - injection E as -> ->. rewrite String.eqb_refl. reflexivity.
  - destruct (String.eqb_spec k n) as [->|]; auto.
    rewrite Forall_forall in Hk. specialize (Hk _ Hin). unfold elt, slt in Hk. simpl in Hk.
    rewrite str_ltb_irrefl in Hk. discriminate.
Qed.

(* extensionality: the representation is canonical *)
Lemma dir_ext d d' : dir_wf d -> dir_wf d' -> (forall n, dir_get d n = dir_get d' n) -> d = d'.
Proof.
  revert d'; induction d as [|[k x] tl IH]; intros [|[k' x'] tl'] Hw Hw' H.
  - reflexivity.
  - specialize (H k'). simpl in H. rewrite String.eqb_refl in H. discriminate.
  - specialize (H k). simpl in H. rewrite String.eqb_refl in H. discriminate.
  - apply dir_wf_cons_inv in Hw as [Htl Hk]. apply dir_wf_cons_inv in Hw' as [Htl' Hk'].
    assert (Hkk : k = k').
    { apply str_ltb_trich.
      - destruct (str_ltb k k') eqn:E; auto. exfalso.
        pose proof (H k) as Hg. simpl in Hg. rewrite String.eqb_refl in Hg.
        destruct (String.eqb_spec k' k) as [->|]; [rewrite str_ltb_irrefl in E; discriminate|].
        rewrite dir_get_none_lt in Hg; [discriminate|].
        rewrite Forall_forall in *. intros e He. specialize (Hk' _ He). unfold elt, slt in *.
        simpl in *. eapply str_ltb_trans; eauto.
      - destruct (str_ltb k' k) eqn:E; auto. exfalso.
        pose proof (H k') as Hg. simpl in Hg. rewrite String.eqb_refl in Hg.
        destruct (String.eqb_spec k k') as [->|]; [rewrite str_ltb_irrefl in E; discriminate|].
        rewrite dir_get_none_lt in Hg; [discriminate|].
        rewrite Forall_forall in *. intros e He. specialize (Hk _ He). unfold elt, slt in *.
        simpl in *. eapply str_ltb_trans; eauto. }
    subst k'. pose proof (H k) as Hg. simpl in Hg. rewrite String.eqb_refl in Hg.
    injection Hg as ->. f_equal. apply IH; auto.
    intros n. specialize (H n). simpl in H.
    destruct (String.eqb_spec k n) as [->|]; auto.
    rewrite !dir_get_none_lt; auto.
Qed.

Lemma dir_put_comm d n1 c1 n2 c2 : dir_wf d -> n1 <> n2 ->
  dir_put (dir_put d n1 c1) n2 c2 = dir_put (dir_put d n2 c2) n1 c1.
Proof.
  intros Hw Hn. apply dir_ext; try (apply dir_put_wf, dir_put_wf, Hw).
  intros m. rewrite !dir_get_put.
  destruct (String.eqb_spec m n2), (String.eqb_spec m n1); congruence.
Qed.

(* writing the same content twice / overwriting *)
Lemma dir_put_put d n c1 c2 : dir_wf d -> dir_put (dir_put d n c1) n c2 = dir_put d n c2.
Proof.
  intros Hw. apply dir_ext; try (repeat apply dir_put_wf; exact Hw).
  intros m. rewrite !dir_get_put. destruct (String.eqb m n); auto.
Qed.

(** [dir_puts] and [dir_remove] *)
Lemma dir_puts_wf ws : forall d, dir_wf d -> dir_wf (dir_puts d ws).
Proof.
  unfold dir_puts. induction ws as [|e ws IH]; simpl; auto. intros d H. apply IH, dir_put_wf, H.
Qed.

Lemma dir_puts_app d ws1 ws2 : dir_puts d (ws1 ++ ws2) = dir_puts (dir_puts d ws1) ws2.
Proof. unfold dir_puts. apply fold_left_app. Qed.

Lemma dir_puts_cons d e ws : dir_puts d (e :: ws) = dir_puts (dir_put d (fst e) (snd e)) ws.
Proof. reflexivity. Qed.

Lemma Forall_filter {A} (P : A -> Prop) f l : Forall P l -> Forall P (filter f l).
Proof.
  rewrite !Forall_forall. intros H x Hx. apply filter_In in Hx as [Hx _]. auto.
Qed.

Lemma dir_remove_wf d p : dir_wf d -> dir_wf (dir_remove d p).
Proof.
  unfold dir_remove. induction d as [|e d IH]; simpl; intros H; [constructor|].
  apply dir_wf_cons_inv in H as [Hd He].
  destruct (negb (p (fst e))); [|apply IH; exact Hd].
  constructor; [apply IH; exact Hd|]. apply Forall_filter, He.
Qed.

(* a name that is not written keeps its content *)
Lemma dir_get_puts_other ws : forall d n, ~ In n (map fst ws) ->
  dir_get (dir_puts d ws) n = dir_get d n.
Proof.
  induction ws as [|e ws IH]; intros d n Hn; auto.
  rewrite dir_puts_cons, IH by (simpl in Hn; tauto).
  apply dir_get_put_other. simpl in Hn. intros ->. tauto.
Qed.

(* ====================================================================== *)
(** * S2. Writes of different tasks commute *)
(* ====================================================================== *)
Definition wlist := list (string * content).
Definition disj (a b : wlist) : Prop := forall n, In n (map fst a) -> In n (map fst b) -> False.

Fixpoint pairwise {A} (R : A -> A -> Prop) (l : list A) : Prop :=
  match l with [] => True | x :: tl => Forall (R x) tl /\ pairwise R tl end.

Definition tdisj (t1 t2 : task_result) : Prop :=
  match t1, t2 with Some a, Some b => disj a b | _, _ => True end.
(* the write sets of the tasks that succeeded are pairwise disjoint *)
Definition pairwise_disjoint_names (ts : list task_result) : Prop := pairwise tdisj ts.

Lemma disj_sym a b : disj a b -> disj b a.
Proof. unfold disj; eauto. Qed.
Lemma tdisj_sym a b : tdisj a b -> tdisj b a.
Proof. destruct a, b; simpl; auto using disj_sym. Qed.

Lemma pairwise_perm {A} (R : A -> A -> Prop) (l l' : list A) :
  (forall a b, R a b -> R b a) -> Permutation l l' -> pairwise R l -> pairwise R l'.
Proof.
  intros Hs Hp. induction Hp; simpl.
  - auto.
  - intros [H1 H2]. split; auto. eapply Permutation_Forall; eauto.
  - intros [H1 [H2 H3]]. inversion H1; subst. refine (conj _ (conj _ H3)); auto.
  - auto.
Qed.

Lemma pairwise_app_l {A} (R : A -> A -> Prop) l1 a l2 :
  pairwise R (l1 ++ a :: l2) -> Forall (fun b => R b a) l1.
Proof.
  induction l1 as [|b l1 IH]; simpl; auto. intros [H1 H2]. constructor; auto.
  apply Forall_app in H1 as [_ H1]. inversion H1; auto.
Qed.

Lemma pairwise_replace {A} (R : A -> A -> Prop) l1 a a' l2 :
  (forall b, R b a -> R b a') -> (forall b, R a b -> R a' b) ->
  pairwise R (l1 ++ a :: l2) -> pairwise R (l1 ++ a' :: l2).
Proof.
  intros Hl Hr. induction l1 as [|b l1 IH]; simpl.
  - intros [H1 H2]. split; auto. eapply Forall_impl; [|exact H1]. auto.
  - intros [H1 H2]. split; auto.
    apply Forall_app in H1 as [H1 H1']. apply Forall_app. split; auto.
    inversion H1'; subst. constructor; auto.
Qed.

(** puts commute *)
Lemma dir_puts_put_comm ws : forall d n c, dir_wf d -> ~ In n (map fst ws) ->
  dir_puts (dir_put d n c) ws = dir_put (dir_puts d ws) n c.
Proof.
  induction ws as [|e ws IH]; intros d n c Hw Hn; auto.
  rewrite !dir_puts_cons. simpl in Hn.
  rewrite dir_put_comm by (auto; intros ->; tauto).
  apply IH; [apply dir_put_wf, Hw|tauto].
Qed.

Lemma dir_puts_comm ws1 : forall d ws2, dir_wf d -> disj ws1 ws2 ->
  dir_puts (dir_puts d ws1) ws2 = dir_puts (dir_puts d ws2) ws1.
Proof.
  induction ws1 as [|e ws1 IH]; intros d ws2 Hw Hd; auto.
  rewrite !dir_puts_cons.
  rewrite IH; [|apply dir_put_wf, Hw|intros n H1 H2; apply (Hd n); simpl; auto].
  f_equal. apply dir_puts_put_comm; auto. intros H. apply (Hd (fst e)); simpl; auto.
Qed.

(** task lists *)
Definition run_from (acc : option dir) (ts : list task_result) : option dir :=
  fold_left (fun acc t => match acc, t with
                          | Some d', Some ws => Some (dir_puts d' ws)
                          | _, _ => None end) ts acc.

Lemma run_tasks_from d ts : run_tasks d ts = run_from (Some d) ts.
Proof. reflexivity. Qed.

Lemma run_from_none ts : run_from None ts = None.
Proof. induction ts; simpl; auto. Qed.

Lemma run_tasks_cons d t ts :
  run_tasks d (t :: ts) = match t with Some ws => run_tasks (dir_puts d ws) ts | None => None end.
Proof.
  rewrite !run_tasks_from. simpl. destruct t; auto. apply run_from_none.
Qed.

Lemma run_tasks_nil d : run_tasks d [] = Some d.
Proof. reflexivity. Qed.

Lemma run_tasks_wf ts : forall d d', dir_wf d -> run_tasks d ts = Some d' -> dir_wf d'.
Proof.
  induction ts as [|t ts IH]; intros d d' Hw H.
  - injection H as <-. exact Hw.
  - rewrite run_tasks_cons in H. destruct t as [ws|]; [|discriminate].
    eapply IH; [|exact H]. apply dir_puts_wf, Hw.
Qed.

(* the order in which the tasks of a round complete does not matter *)
Lemma run_tasks_perm d ts ts' :
  dir_wf d -> Permutation ts ts' -> pairwise_disjoint_names ts ->
  run_tasks d ts = run_tasks d ts'.
Proof.
  intros Hw Hp. revert d Hw. induction Hp; intros d Hw Hd.
  - reflexivity.
  - rewrite !run_tasks_cons. destruct x as [ws|]; auto.
    apply IHHp; [apply dir_puts_wf, Hw|]. destruct Hd; auto.
  - destruct x as [wx|], y as [wy|]; repeat rewrite run_tasks_cons; auto.
    f_equal. apply dir_puts_comm; auto.
    destruct Hd as [Hd _]. inversion Hd; auto.
  - rewrite IHHp1 by auto. apply IHHp2; auto.
    eapply pairwise_perm; [exact tdisj_sym|exact Hp1|exact Hd].
Qed.

(* if any task failed, so does the round — in every order *)
Lemma run_tasks_fail d ts : In None ts -> run_tasks d ts = None.
Proof.
  revert d; induction ts as [|t ts IH]; intros d H; [destruct H|].
  rewrite run_tasks_cons. destruct H as [H|H].
  - subst; auto.
  - destruct t; auto.
Qed.

(* all succeeded: the round is the serial application of the concatenated writes *)
Lemma run_tasks_all_some wss : forall d,
  run_tasks d (map Some wss) = Some (dir_puts d (List.concat wss)).
Proof.
  induction wss as [|ws wss IH]; intros d; auto.
  simpl map. rewrite run_tasks_cons, IH. simpl List.concat. rewrite dir_puts_app. reflexivity.
Qed.

(** interleavings of the individual writes *)
Inductive interleave {A} : list (list A) -> list A -> Prop :=
| il_nil : forall wss, Forall (fun l => l = []) wss -> interleave wss []
| il_cons : forall l1 x xs l2 s,
    interleave (l1 ++ xs :: l2) s -> interleave (l1 ++ (x :: xs) :: l2) (x :: s).

Lemma concat_all_nil {A} (wss : list (list A)) :
  Forall (fun l => l = []) wss -> List.concat wss = [].
Proof. induction 1; simpl; subst; auto. Qed.

Lemma in_map_fst_concat (wss : list wlist) n :
  In n (map fst (List.concat wss)) <-> exists ws, In ws wss /\ In n (map fst ws).
Proof.
  split.
  - intros H. apply in_map_iff in H as [e [<- He]]. apply in_concat in He as [ws [H1 H2]].
    exists ws. split; auto. apply in_map; auto.
  - intros [ws [H1 H2]]. apply in_map_iff in H2 as [e [<- He]]. apply in_map.
    apply in_concat. eauto.
Qed.

(* strong form: only the names of DIFFERENT sequences need to be distinct *)
Lemma interleave_puts_disj wss sched : forall d,
  dir_wf d -> interleave wss sched -> pairwise disj wss ->
  dir_puts d sched = dir_puts d (List.concat wss).
Proof.
  intros d Hw Hi. revert d Hw. induction Hi as [wss Hn|l1 x xs l2 s Hi IH]; intros d Hw Hd.
  - rewrite concat_all_nil by auto. reflexivity.
  - rewrite dir_puts_cons.
    rewrite IH; [|apply dir_put_wf, Hw|].
    + rewrite !concat_app. simpl List.concat. rewrite !dir_puts_app.
      rewrite dir_puts_put_comm; auto.
      { change ((x :: xs) ++ List.concat l2)%list with (x :: (xs ++ List.concat l2))%list.
        rewrite dir_puts_cons, dir_puts_app. reflexivity. }
      pose proof (pairwise_app_l _ _ _ _ Hd) as Hl. rewrite Forall_forall in Hl.
      intros Hin. apply in_map_fst_concat in Hin as [ws [H1 H2]].
      apply (Hl _ H1 (fst x)); simpl; auto.
    + revert Hd. apply pairwise_replace; unfold disj; intros b Hb n H1 H2;
        apply (Hb n); simpl; auto.
Qed.

Lemma NoDup_app_inv {A} (l1 l2 : list A) :
  NoDup (l1 ++ l2) -> NoDup l1 /\ NoDup l2 /\ (forall x, In x l1 -> In x l2 -> False).
Proof.
  induction l1 as [|a l1 IH]; simpl; intros H.
  - refine (conj _ (conj H _)); [constructor|tauto].
  - inversion H; subst. destruct (IH H3) as [H4 [H5 H6]].
    refine (conj _ (conj H5 _)).
    + constructor; auto. intros Hin. apply H2, in_or_app; auto.
    + intros x [->|Hx] Hx2; [apply H2, in_or_app; auto|eauto].
Qed.

Lemma NoDup_app_intro {A} (l1 l2 : list A) :
  NoDup l1 -> NoDup l2 -> (forall x, In x l1 -> In x l2 -> False) -> NoDup (l1 ++ l2).
Proof.
  induction l1 as [|a l1 IH]; simpl; intros H1 H2 H; auto.
  inversion H1; subst. constructor.
  - intros Hin. apply in_app_or in Hin as [Hin|Hin]; eauto.
  - apply IH; eauto.
Qed.

Lemma nodup_concat_pairwise (wss : list wlist) :
  NoDup (map fst (List.concat wss)) -> pairwise disj wss.
Proof.
  induction wss as [|ws wss IH]; simpl; auto. rewrite map_app. intros H.
  apply NoDup_app_inv in H as [_ [H2 H3]]. split; auto.
  apply Forall_forall. intros b Hb n H4 H5. apply (H3 n H4).
  apply in_map_fst_concat. eauto.
Qed.

(* requested form: all names of [concat wss] pairwise distinct *)
Lemma interleave_puts d wss sched :
  dir_wf d -> interleave wss sched -> NoDup (map fst (List.concat wss)) ->
  dir_puts d sched = dir_puts d (List.concat wss).
Proof.
  intros Hw Hi Hn. apply interleave_puts_disj; auto. apply nodup_concat_pairwise, Hn.
Qed.

(* ====================================================================== *)
(** * S3. No two tasks of a round write the same file *)
(* ====================================================================== *)

(** ** (a) names *)
Definition dt_name (w : width) : string := str_replace (dtype_name w) "8" "08".

Lemma dt_name_inj w1 w2 x y :
  (dt_name w1 ++ x)%string = (dt_name w2 ++ y)%string ->
  String.length x = String.length y -> w1 = w2.
Proof.
  intros H Hl. apply sapp_inv_len_r in H; auto. destruct H as [H _].
  destruct w1, w2; auto; vm_compute in H; discriminate.
Qed.

Lemma file_suffix_inj l1 w1 l2 w2 x :
  String.length l1 = String.length l2 ->
  (file_suffix l1 w1 ++ x)%string = (file_suffix l2 w2 ++ x)%string -> l1 = l2 /\ w1 = w2.
Proof.
  intros Hl H. unfold file_suffix in H. fold (dt_name w1) in H. fold (dt_name w2) in H.
  rewrite !sapp_assoc in H. apply sapp_inv_head in H.
  apply sapp_inv_len in H; auto. destruct H as [-> H]. split; auto.
  apply sapp_inv_head in H.
  eapply dt_name_inj; eauto.
Qed.

Lemma bufs_name_inj r l1 w1 l2 w2 :
  String.length l1 = String.length l2 ->
  bufs_name r l1 w1 = bufs_name r l2 w2 -> l1 = l2 /\ w1 = w2.
Proof.
  intros Hl H. unfold bufs_name in H.
  do 3 apply sapp_inv_head in H. eapply file_suffix_inj; eauto.
Qed.

Lemma idxs_name_inj r l1 w1 l2 w2 :
  String.length l1 = String.length l2 ->
  idxs_name r l1 w1 = idxs_name r l2 w2 -> l1 = l2 /\ w1 = w2.
Proof.
  intros Hl H. unfold idxs_name in H.
  do 3 apply sapp_inv_head in H. eapply file_suffix_inj; eauto.
Qed.

Lemma bufs_name_npy r l w : exists x, bufs_name r l w = (x ++ ".npy")%string.
Proof.
  unfold bufs_name. eexists. rewrite <- !sapp_assoc. reflexivity.
Qed.

Lemma idxs_name_pkl r l w : exists x, idxs_name r l w = (x ++ ".pkl")%string.
Proof.
  unfold idxs_name. eexists. rewrite <- !sapp_assoc. reflexivity.
Qed.

(* a buffer file and an index file never share their name (whatever round, label, dtype) *)
Lemma bufs_idxs_neq r l w r' l' w' : bufs_name r l w <> idxs_name r' l' w'.
Proof.
  intros H. destruct (bufs_name_npy r l w) as [x Hx]. destruct (idxs_name_pkl r' l' w') as [y Hy].
  rewrite Hx, Hy in H. apply sapp_inv_len_r in H; [|reflexivity]. destruct H; discriminate.
Qed.

(** ** (b) labels *)
Lemma zseq_in s n i : In i (zseq s n) <-> s <= i < s + Z.of_nat n.
Proof.
  revert s; induction n as [|n IH]; intros s; simpl zseq.
  - simpl. lia.
  - simpl In. rewrite IH. lia.
Qed.

Lemma zseq_NoDup s n : NoDup (zseq s n).
Proof.
  revert s; induction n as [|n IH]; intros s; simpl; constructor; auto.
  rewrite zseq_in. lia.
Qed.

Lemma NoDup_map_inj {A B} (f : A -> B) l :
  (forall x y, In x l -> In y l -> f x = f y -> x = y) -> NoDup l -> NoDup (map f l).
Proof.
  induction l as [|a l IH]; simpl; intros Hf Hn; constructor; inversion Hn; subst.
  - intros Hin. apply in_map_iff in Hin as [b [Hb Hin]].
    assert (b = a) by (apply Hf; auto). subst. auto.
  - apply IH; auto.
Qed.

Lemma file_labels_in n l : In l (file_labels n) ->
  exists i, 0 <= i < Z.of_nat n /\
            l = zfill (str_of_Z i) (Z.of_nat (String.length (str_of_Z (Z.of_nat n)))).
Proof.
  unfold file_labels. intros H. apply in_map_iff in H as [i [<- Hi]].
  apply zseq_in in Hi. exists i. split; [lia|reflexivity].
Qed.

(* the labels of a round are pairwise distinct ... *)
Lemma file_labels_NoDup n : NoDup (file_labels n).
Proof.
  unfold file_labels. apply NoDup_map_inj; [|apply zseq_NoDup].
  intros x y Hx Hy H. apply zseq_in in Hx. apply zseq_in in Hy.
  eapply zfill_str_inj; eauto; lia.
Qed.

(* ... and all of the same length: the number of digits of [n] *)
Lemma file_labels_len n l : In l (file_labels n) ->
  String.length l = String.length (str_of_Z (Z.of_nat n)).
Proof.
  intros H. apply file_labels_in in H as [i [Hi ->]].
  rewrite zfill_len; rewrite Nat2Z.id; auto.
  apply str_of_Z_len_mono; lia.
Qed.

Lemma file_labels_length n : List.length (file_labels n) = n.
Proof.
  unfold file_labels. rewrite map_length. generalize 0. induction n; intros; simpl; auto.
Qed.

Lemma with_idxs_fst {A} (bs : list (list A)) : forall i,
  map fst (with_idxs i bs) = zseq i (List.length bs).
Proof. induction bs as [|b bs IH]; intros i; simpl; auto. rewrite IH. reflexivity. Qed.

(* the labels of the batches of a merging round are [file_labels] of the number of batches *)
Lemma batches_labels d r bin :
  map fst (batches d r bin) = file_labels (List.length (batched bin (prev_pairs d r))).
Proof.
  unfold batches, file_labels. rewrite map_map. simpl fst.
  rewrite <- (with_idxs_fst (batched bin (prev_pairs d r)) 0), map_map. reflexivity.
Qed.

(** ** (c) what a task writes *)
Lemma save_groups_names r label gs :
  map fst (save_groups r label gs) =
  flat_map (fun g => [bufs_name r label (fst g); idxs_name r label (fst g)]) gs.
Proof.
  unfold save_groups. induction gs as [|[w l] gs IH]; simpl; auto. rewrite IH. reflexivity.
Qed.

Lemma save_groups_names_in r label gs n :
  In n (map fst (save_groups r label gs)) ->
  exists w, In w (map fst gs) /\ (n = bufs_name r label w \/ n = idxs_name r label w).
Proof.
  rewrite save_groups_names. intros H. apply in_flat_map in H as [g [Hg H]].
  exists (fst g). split; [apply in_map; auto|]. simpl in H. intuition.
Qed.

(* within a task: distinct dtypes give distinct files *)
Lemma save_groups_NoDup r label gs :
  NoDup (map fst gs) -> NoDup (map fst (save_groups r label gs)).
Proof.
  rewrite save_groups_names. induction gs as [|[w l] gs IH]; simpl; intros H; [constructor|].
  inversion H; subst. specialize (IH H3).
  assert (Hfresh : forall n, In n (flat_map (fun g => [bufs_name r label (fst g); idxs_name r label (fst g)]) gs) ->
                     exists w', In w' (map fst gs) /\ (n = bufs_name r label w' \/ n = idxs_name r label w')).
  { intros n Hn. apply in_flat_map in Hn as [g [Hg Hn]]. exists (fst g).
    split; [apply in_map; auto|]. simpl in Hn. intuition. }
  constructor; [|constructor; auto].
  - intros [Hin|Hin]; [symmetry in Hin; revert Hin; apply bufs_idxs_neq|].
    apply Hfresh in Hin as [w' [Hw' [E|E]]].
    + apply bufs_name_inj in E as [_ ->]; auto.
    + revert E; apply bufs_idxs_neq.
  - intros Hin. apply Hfresh in Hin as [w' [Hw' [E|E]]].
    + symmetry in E; revert E; apply bufs_idxs_neq.
    + apply idxs_name_inj in E as [_ ->]; auto.
Qed.

(** dtype groups have pairwise distinct dtypes *)
Lemma width_eqb_eq a b : width_eqb a b = true <-> a = b.
Proof. destruct a, b; simpl; split; intros; congruence. Qed.

Lemma group_add_in w x gs u :
  In u (map fst (group_add w x gs)) -> u = w \/ In u (map fst gs).
Proof.
  induction gs as [|[w' l] gs IH]; simpl.
  - intros [H|[]]; auto.
  - destruct (width_eqb w w'); simpl; intros [H|H]; auto. apply IH in H. tauto.
Qed.

Lemma group_add_NoDup w x gs : NoDup (map fst gs) -> NoDup (map fst (group_add w x gs)).
Proof.
  induction gs as [|[w' l] gs IH]; simpl; intros H.
  - repeat constructor. simpl. tauto.
  - inversion H; subst. destruct (width_eqb w w') eqn:E; simpl.
    + constructor; auto.
    + constructor; auto. intros Hin. apply group_add_in in Hin as [->|Hin]; auto.
      assert (width_eqb w w = true) by (apply width_eqb_eq; auto). congruence.
Qed.

Lemma fold_group_add_NoDup (f : Tree.sub -> width) l : forall gs,
  NoDup (map fst gs) ->
  NoDup (map fst (fold_left (fun gs b => group_add (f b) b gs) l gs)).
Proof.
  induction l as [|b l IH]; simpl; auto. intros gs H. apply IH, group_add_NoDup, H.
Qed.

Lemma prepare_groups_NoDup bfs : NoDup (map fst (prepare_groups bfs)).
Proof. unfold prepare_groups. apply fold_group_add_NoDup. constructor. Qed.

Lemma refine_groups_NoDup st X im nl gs :
  refine_groups st X im nl = Some gs -> NoDup (map fst gs).
Proof.
  unfold refine_groups. destruct (nl =? 0).
  - intros H. injection H as <-. apply prepare_groups_NoDup.
  - destruct (nl <? 1); [discriminate|].
    destruct (firstn (Z.to_nat nl) (sorted_leaves st)); [discriminate|].
    destruct (explode_all X im (s :: l)); [|discriminate].
    intros H. injection H as <-.
    apply (fold_group_add_NoDup (fun _ => W8)), prepare_groups_NoDup.
Qed.

Lemma refine_groups_seq_NoDup st X gs :
  refine_groups_seq st X = Some gs -> NoDup (map fst gs).
Proof.
  unfold refine_groups_seq. destruct (sorted_leaves st) as [|big rest]; [discriminate|].
  destruct (explode X 0 (sort_asc_z (sids big))); [|discriminate].
  intros H. injection H as <-.
  apply (fold_group_add_NoDup (fun _ => W8)), prepare_groups_NoDup.
Qed.

(* the shape of a task result: the files of ITS label in round [r], one pair per dtype *)
Definition task_shape (r : Z) (label : string) (t : task_result) : Prop :=
  match t with
  | None => True
  | Some ws => exists gs, ws = save_groups r label gs /\ NoDup (map fst gs)
  end.

Section Tasks.
Variable fexp : float -> float.

Lemma initial_task_shape c label rows start :
  task_shape 1 label (initial_task fexp c label rows start).
Proof.
  unfold initial_task, leaf_groups.
  destruct (ctor fexp None (m_thr c) (m_bf c) (AName (m_init_crit c)) None) as [cf|]; cbn [task_shape]; auto.
  destruct (do_fit fexp (init cf) (map Some rows) (Some (zseq start (List.length rows)))) as [st out].
  destruct out; cbn [task_shape]; auto.
  destruct (m_refine c).
  - destruct (refine_groups (fst (delete_internal st)) rows start 1) as [gs|] eqn:E; cbn [task_shape]; auto.
    match goal with |- context [set_merge ?a ?b ?c ?d ?e ?f ?g] =>
      destruct (set_merge a b c d e f g) as [cf2|] end; cbn [task_shape]; auto.
    match goal with |- context [fit_groups ?a ?b ?c] =>
      destruct (fit_groups a b c) as [st4 [|]] end; cbn [task_shape]; auto.
    eexists; split; [reflexivity|apply prepare_groups_NoDup].
  - destruct (refine_groups (fst (delete_internal st)) rows start 1) as [gs|] eqn:E; cbn [task_shape]; auto.
    eexists; split; [reflexivity|]. eapply refine_groups_NoDup; eauto.
  - eexists; split; [reflexivity|apply prepare_groups_NoDup].
Qed.

Lemma merging_task_shape c r label pairs all_rows :
  task_shape r label (merging_task fexp c r label pairs all_rows).
Proof.
  unfold merging_task, leaf_groups.
  destruct (tree_cfg fexp c (m_mid_crit c)) as [cf|]; cbn [task_shape]; auto.
  destruct (fit_pairs fexp (init cf) pairs) as [st [|]]; cbn [task_shape]; auto.
  destruct (m_split_after c).
  - destruct (refine_groups_seq (fst (delete_internal st)) all_rows) as [gs|] eqn:E; cbn [task_shape]; auto.
    eexists; split; [reflexivity|]. eapply refine_groups_seq_NoDup; eauto.
  - eexists; split; [reflexivity|apply prepare_groups_NoDup].
Qed.
End Tasks.

(* a successful task never writes the same file twice *)
Lemma task_shape_NoDup r label ws : task_shape r label (Some ws) -> NoDup (map fst ws).
Proof. intros [gs [-> H]]. apply save_groups_NoDup, H. Qed.

(* tasks with different labels (of equal length) write different files *)
Lemma task_shape_disj r l1 l2 t1 t2 :
  String.length l1 = String.length l2 -> l1 <> l2 ->
  task_shape r l1 t1 -> task_shape r l2 t2 -> tdisj t1 t2.
Proof.
  intros Hl Hne H1 H2. destruct t1 as [ws1|], t2 as [ws2|]; simpl; auto.
  destruct H1 as [g1 [-> _]]. destruct H2 as [g2 [-> _]].
  intros n Hn1 Hn2.
  apply save_groups_names_in in Hn1 as [w1 [_ E1]].
  apply save_groups_names_in in Hn2 as [w2 [_ E2]].
  destruct E1 as [-> | ->], E2 as [E|E].
  - apply bufs_name_inj in E; tauto.
  - revert E; apply bufs_idxs_neq.
  - symmetry in E; revert E; apply bufs_idxs_neq.
  - apply idxs_name_inj in E; tauto.
Qed.

Lemma pairwise_map_key {A B} (R : B -> B -> Prop) (f : A -> B) (key : A -> string) l :
  NoDup (map key l) ->
  (forall x y, In x l -> In y l -> key x <> key y -> R (f x) (f y)) ->
  pairwise R (map f l).
Proof.
  induction l as [|a l IH]; simpl; auto. intros Hn H. inversion Hn; subst. split.
  - apply Forall_forall. intros b Hb. apply in_map_iff in Hb as [y [<- Hy]].
    apply H; auto. intros E. apply H2. rewrite E. apply in_map; auto.
  - apply IH; auto.
Qed.

(* a round whose tasks are keyed by labels from [file_labels n] *)
Lemma labelled_round_disjoint {A} r n (f : A -> task_result) (key : A -> string) l :
  NoDup (map key l) -> (forall x, In x l -> In (key x) (file_labels n)) ->
  (forall x, In x l -> task_shape r (key x) (f x)) ->
  pairwise_disjoint_names (map f l).
Proof.
  intros Hn Hk Hs. apply pairwise_map_key with (key := key); auto.
  intros x y Hx Hy Hne. apply task_shape_disj with (r := r) (l1 := key x) (l2 := key y); auto.
  rewrite (file_labels_len n (key x)), (file_labels_len n (key y)); auto.
Qed.

Lemma combine_fst_incl {A B} (l1 : list A) (l2 : list B) : incl (map fst (combine l1 l2)) l1.
Proof.
  intros a H. apply in_map_iff in H as [[x y] [<- H]]. apply in_combine_l in H. auto.
Qed.

Lemma NoDup_map_combine {A B C} (g : A -> C) (l1 : list A) : forall (l2 : list B),
  NoDup (map g l1) -> NoDup (map g (map fst (combine l1 l2))).
Proof.
  induction l1 as [|a l1 IH]; intros [|b l2] H; simpl; try constructor; inversion H; subst.
  - intros Hin. apply H2. apply in_map_iff in Hin as [x [Hx Hin]].
    apply combine_fst_incl in Hin. rewrite <- Hx. apply in_map; auto.
  - apply IH; auto.
Qed.

Section Rounds.
Variable fexp : float -> float.

Theorem initial_writes_disjoint c files :
  pairwise_disjoint_names (initial_tasks fexp c files).
Proof.
  unfold initial_tasks.
  apply labelled_round_disjoint with (r := 1) (n := List.length files)
                                     (key := fun t : string * list fpv * Z => fst (fst t)).
  - rewrite <- (map_map fst fst). apply NoDup_map_combine.
    rewrite <- (map_id (map fst (combine _ files))).
    apply (NoDup_map_combine (fun x : string => x)). rewrite map_id. apply file_labels_NoDup.
  - intros [[l rows] s] H. simpl. apply in_combine_l in H. apply in_combine_l in H. exact H.
  - intros [[l rows] s] H. simpl. apply initial_task_shape.
Qed.

Theorem merging_writes_disjoint c d r rows :
  pairwise_disjoint_names (merging_tasks fexp c d r rows).
Proof.
  unfold merging_tasks.
  apply labelled_round_disjoint
    with (r := r) (n := List.length (batched (m_bin c) (prev_pairs d (r - 1)))) (key := fst).
  - rewrite batches_labels. apply file_labels_NoDup.
  - intros x H. rewrite <- batches_labels. apply in_map; auto.
  - intros x H. apply merging_task_shape.
Qed.

(* every successful task of either kind of round writes each of its files once *)
Lemma initial_tasks_NoDup c files ws :
  In (Some ws) (initial_tasks fexp c files) -> NoDup (map fst ws).
Proof.
  unfold initial_tasks. intros H. apply in_map_iff in H as [[[l rows] s] [E _]].
  apply (task_shape_NoDup 1 l). rewrite <- E. apply initial_task_shape.
Qed.

Lemma merging_tasks_NoDup c d r rows ws :
  In (Some ws) (merging_tasks fexp c d r rows) -> NoDup (map fst ws).
Proof.
  unfold merging_tasks. intros H. apply in_map_iff in H as [b [E _]].
  apply (task_shape_NoDup r (fst b)). rewrite <- E. apply merging_task_shape.
Qed.
End Rounds.

(* ====================================================================== *)
(** * S4. Schedule independence of the whole workflow *)
(* ====================================================================== *)
Section Sched.
Variable fexp : float -> float.
(* the completion order of the tasks of round [r]: an arbitrary permutation per round,
   which may depend on the round number and on the task results themselves *)
Variable perm : Z -> forall A : Type, list A -> list A.
Hypothesis perm_ok : forall r A (l : list A), Permutation (perm r A l) l.

Fixpoint mid_rounds_sched (c : mr_cfg) (all_rows : list fpv) (k : nat) (r : Z) (d : dir)
  : option dir :=
  match k with
  | O => Some d
  | S k' =>
      match run_tasks d (perm r _ (merging_tasks fexp c d r all_rows)) with
      | None => None
      | Some d' => mid_rounds_sched c all_rows k' (r + 1) d'
      end
  end.

Definition run_multiround_sched (c : mr_cfg) (files : list (list fpv)) (d0 : dir) : option dir :=
  let d1 := dir_remove d0 is_purged in
  match run_tasks d1 (perm 1 _ (initial_tasks fexp c files)) with
  | None => None
  | Some d2 =>
      let all_rows := List.concat files in
      match mid_rounds_sched c all_rows (m_rounds c) 2 d2 with
      | None => None
      | Some d3 =>
          let rf := 2 + Z.of_nat (m_rounds c) in
          match final_task fexp c (read_pairs d3 (prev_pairs d3 (rf - 1))) with
          | None => None
          | Some ws =>
              let d4 := dir_puts d3 ws in
              Some (if m_cleanup c then dir_remove d4 is_round_file else d4)
          end
      end
  end.

(* one round: any completion order gives the directory of the serial order *)
Lemma initial_round_sched c files d :
  dir_wf d ->
  run_tasks d (perm 1 _ (initial_tasks fexp c files)) = run_tasks d (initial_tasks fexp c files).
Proof.
  intros Hw. symmetry. apply run_tasks_perm; auto.
  - apply Permutation_sym, perm_ok.
  - apply initial_writes_disjoint.
Qed.

Lemma merging_round_sched c d r rows :
  dir_wf d ->
  run_tasks d (perm r _ (merging_tasks fexp c d r rows)) = run_tasks d (merging_tasks fexp c d r rows).
Proof.
  intros Hw. symmetry. apply run_tasks_perm; auto.
  - apply Permutation_sym, perm_ok.
  - apply merging_writes_disjoint.
Qed.

Lemma mid_rounds_sched_eq c rows k : forall r d,
  dir_wf d -> mid_rounds_sched c rows k r d = mid_rounds fexp c rows k r d.
Proof.
  induction k as [|k IH]; intros r d Hw; simpl; auto.
  rewrite merging_round_sched by auto.
  destruct (run_tasks d (merging_tasks fexp c d r rows)) as [d'|] eqn:E; auto.
  apply IH. eapply run_tasks_wf; eauto.
Qed.

Lemma mid_rounds_wf c rows k : forall r d d',
  dir_wf d -> mid_rounds fexp c rows k r d = Some d' -> dir_wf d'.
Proof.
  induction k as [|k IH]; intros r d d' Hw; simpl.
  - intros H. injection H as <-. auto.
  - destruct (run_tasks d (merging_tasks fexp c d r rows)) as [d1|] eqn:E; [|discriminate].
    apply IH. eapply run_tasks_wf; eauto.
Qed.

(* C06: the final directory (hence clusters.pkl and the centroids file) is the same for every
   completion order of the tasks inside each round, and equals that of the serial execution *)
Theorem sched_independent c files d0 :
  dir_wf d0 -> run_multiround_sched c files d0 = run_multiround fexp c files d0.
Proof.
  intros Hw. unfold run_multiround_sched, run_multiround.
  assert (Hw1 : dir_wf (dir_remove d0 is_purged)) by (apply dir_remove_wf, Hw).
  rewrite initial_round_sched by auto.
  destruct (run_tasks (dir_remove d0 is_purged) (initial_tasks fexp c files)) as [d2|] eqn:E; auto.
  rewrite mid_rounds_sched_eq; [reflexivity|]. eapply run_tasks_wf; eauto.
Qed.

(* the result directory of a successful run is well-formed *)
Lemma run_multiround_wf c files d0 d :
  dir_wf d0 -> run_multiround fexp c files d0 = Some d -> dir_wf d.
Proof.
  intros Hw. unfold run_multiround.
  assert (Hw1 : dir_wf (dir_remove d0 is_purged)) by (apply dir_remove_wf, Hw).
  destruct (run_tasks _ (initial_tasks fexp c files)) as [d2|] eqn:E; [|discriminate].
  assert (Hw2 : dir_wf d2) by (eapply run_tasks_wf; eauto).
  destruct (mid_rounds fexp c (List.concat files) (m_rounds c) 2 d2) as [d3|] eqn:E3; [|discriminate].
  assert (Hw3 : dir_wf d3) by (eapply mid_rounds_wf; eauto).
  destruct (final_task fexp c _) as [ws|]; [|discriminate].
  intros H. injection H as <-.
  destruct (m_cleanup c); [apply dir_remove_wf|]; apply dir_puts_wf, Hw3.
Qed.

(* in particular the observable outputs coincide *)
Corollary sched_independent_outputs c files d0 :
  dir_wf d0 ->
  option_map (fun d => (dir_get d "clusters.pkl"%string,
                        dir_get d "cluster-centroids-packed.pkl"%string))
             (run_multiround_sched c files d0) =
  option_map (fun d => (dir_get d "clusters.pkl"%string,
                        dir_get d "cluster-centroids-packed.pkl"%string))
             (run_multiround fexp c files d0).
Proof. intros Hw. rewrite sched_independent by auto. reflexivity. Qed.
End Sched.

(** finer grain: a round whose tasks all succeed may be executed as ANY interleaving of the
    individual file writes of its tasks *)
Lemma pairwise_some (wss : list wlist) :
  pairwise_disjoint_names (map Some wss) <-> pairwise disj wss.
Proof.
  unfold pairwise_disjoint_names. induction wss as [|ws wss IH]; simpl; [tauto|].
  rewrite IH, Forall_map. simpl. tauto.
Qed.

Lemma round_interleave d wss sched :
  dir_wf d -> pairwise_disjoint_names (map Some wss) -> interleave wss sched ->
  run_tasks d (map Some wss) = Some (dir_puts d sched).
Proof.
  intros Hw Hd Hi. rewrite run_tasks_all_some. f_equal. symmetry.
  apply interleave_puts_disj; auto. apply pairwise_some, Hd.
Qed.

Lemma all_some_or_none (ts : list task_result) :
  In None ts \/ exists wss, ts = map Some wss.
Proof.
  induction ts as [|[ws|] ts IH]; simpl; auto.
  - right. exists []; auto.
  - destruct IH as [H|[wss ->]]; auto. right. exists (ws :: wss); auto.
Qed.

Section Interleaved.
Variable fexp : float -> float.

(* initial round, write-level: if all tasks succeed, every interleaving of their writes gives
   the directory of the serial round (and otherwise the round fails in every order) *)
Theorem initial_round_interleave c files d wss sched :
  dir_wf d -> initial_tasks fexp c files = map Some wss -> interleave wss sched ->
  run_tasks d (initial_tasks fexp c files) = Some (dir_puts d sched).
Proof.
  intros Hw E Hi. rewrite E. apply round_interleave; auto.
  rewrite <- E. apply initial_writes_disjoint.
Qed.

Theorem merging_round_interleave c d r rows wss sched :
  dir_wf d -> merging_tasks fexp c d r rows = map Some wss -> interleave wss sched ->
  run_tasks d (merging_tasks fexp c d r rows) = Some (dir_puts d sched).
Proof.
  intros Hw E Hi. rewrite E. apply round_interleave; auto.
  rewrite <- E. apply merging_writes_disjoint.
Qed.

(* all the files written in a round are pairwise distinct (across AND within tasks) *)
Lemma pairwise_nodup_concat (wss : list wlist) :
  pairwise disj wss -> Forall (fun ws => NoDup (map fst ws)) wss ->
  NoDup (map fst (List.concat wss)).
Proof.
  induction wss as [|ws wss IH]; simpl; intros Hp Hn; [constructor|].
  destruct Hp as [Hp1 Hp2]. inversion Hn; subst. rewrite map_app.
  apply NoDup_app_intro; auto.
  intros n Hn1 Hn2. apply in_map_fst_concat in Hn2 as [ws' [Hn3 Hn4]].
  rewrite Forall_forall in Hp1. apply (Hp1 _ Hn3 n); auto.
Qed.

Theorem initial_round_names_NoDup c files wss :
  initial_tasks fexp c files = map Some wss -> NoDup (map fst (List.concat wss)).
Proof.
  intros E. apply pairwise_nodup_concat.
  - apply pairwise_some. pose proof (initial_writes_disjoint fexp c files) as H.
    rewrite E in H. exact H.
  - apply Forall_forall. intros ws H. apply (initial_tasks_NoDup fexp c files).
    rewrite E. apply in_map; auto.
Qed.

Theorem merging_round_names_NoDup c d r rows wss :
  merging_tasks fexp c d r rows = map Some wss -> NoDup (map fst (List.concat wss)).
Proof.
  intros E. apply pairwise_nodup_concat.
  - apply pairwise_some. pose proof (merging_writes_disjoint fexp c d r rows) as H.
    rewrite E in H. exact H.
  - apply Forall_forall. intros ws H. apply (merging_tasks_NoDup fexp c d r rows).
    rewrite E. apply in_map; auto.
Qed.
End Interleaved.

(* ====================================================================== *)
(** * S5. Reading during the round = reading at round start *)
(* ====================================================================== *)

(** round prefixes "round-<r>-" are prefix-free *)
Lemma no_dash_split u : forall v x y, no_dash u -> no_dash v ->
  (u ++ String "-" x)%string = (v ++ String "-" y)%string -> u = v.
Proof.
  induction u as [|a u IH]; intros [|b v] x y Hu Hv H; simpl in *.
  - reflexivity.
  - injection H as H _. destruct Hv as [Hv _]. congruence.
  - injection H as H _. destruct Hu as [Hu _]. congruence.
  - injection H as -> H. f_equal. eapply IH; eauto; tauto.
Qed.

Lemma round_prefix_inj r r' x y : 0 <= r -> 0 <= r' ->
  String.prefix ("round-" ++ str_of_Z r' ++ String "-" x)
                ("round-" ++ str_of_Z r ++ String "-" y) = true -> r = r'.
Proof.
  intros Hr Hr' H. apply prefix_app in H as [c H].
  rewrite !sapp_assoc in H. apply sapp_inv_head in H.
  change (String "-" x ++ c)%string with (String "-" (x ++ c)) in H.
  apply no_dash_split in H; try (apply str_of_Z_no_dash; auto).
  apply str_of_Z_inj; auto.
Qed.

Lemma round_names_differ r r' l w : r <> r' -> 0 <= r -> 0 <= r' ->
  is_bufs_of r' (bufs_name r l w) = false /\ is_idxs_of r' (idxs_name r l w) = false /\
  is_bufs_of r' (idxs_name r l w) = false /\ is_idxs_of r' (bufs_name r l w) = false.
Proof.
  intros Hne Hr Hr'. unfold is_bufs_of, is_idxs_of, bufs_name, idxs_name.
  refine (conj _ (conj _ (conj _ _)));
    match goal with |- (?p && _)%bool = false => destruct p eqn:E; auto end;
    exfalso; apply Hne;
    change ("-bufs")%string with (String "-" "bufs") in E;
    change ("-idxs")%string with (String "-" "idxs") in E;
    cbn [append] in E;
    match type of E with
      String.prefix _ (String "r" (String "o" (String "u" (String "n" (String "d" (String "-" ?t)))))) = true =>
        change (String "r" (String "o" (String "u" (String "n" (String "d" (String "-" t))))))
          with ("round-" ++ t)%string in E
    end.
  all: try (eapply round_prefix_inj; [| |exact E]; auto).
Qed.

(** frames *)
Lemma read_pairs_frame d ws ps :
  (forall p, In p ps -> ~ In (fst p) (map fst ws) /\ ~ In (snd p) (map fst ws)) ->
  read_pairs (dir_puts d ws) ps = read_pairs d ps.
Proof.
  unfold read_pairs. induction ps as [|p ps IH]; intros H; simpl; auto.
  destruct (H p (or_introl eq_refl)) as [H1 H2].
  rewrite !dir_get_puts_other by auto. f_equal. apply IH. intros q Hq. apply H. right; auto.
Qed.

Definition prev_name (r : Z) (n : string) : bool := is_bufs_of r n || is_idxs_of r n.

(* a task of round r writes no round-(r-1) name and reads only such names *)
Lemma read_frame d ws r ps :
  (forall n, In n (map fst ws) -> is_bufs_of (r - 1) n = false /\ is_idxs_of (r - 1) n = false) ->
  (forall p, In p ps -> prev_name (r - 1) (fst p) = true /\ prev_name (r - 1) (snd p) = true) ->
  read_pairs (dir_puts d ws) ps = read_pairs d ps.
Proof.
  intros Hws Hps. apply read_pairs_frame. intros p Hp. destruct (Hps p Hp) as [H1 H2].
  unfold prev_name in *.
  split; intros Hin; apply Hws in Hin as [E1 E2]; rewrite E1, E2 in *; discriminate.
Qed.

Lemma filter_put_names p d n c : p n = false ->
  filter p (dir_names (dir_put d n c)) = filter p (dir_names d).
Proof.
  intros Hp. unfold dir_names. induction d as [|[k x] tl IH]; simpl.
  - rewrite Hp. reflexivity.
  - destruct (String.eqb_spec k n) as [->|Hkn]; simpl.
    + rewrite Hp. reflexivity.
    + destruct (str_ltb n k); simpl.
      * rewrite Hp. reflexivity.
      * rewrite IH. reflexivity.
Qed.

Lemma filter_puts_names p ws : forall d,
  (forall n, In n (map fst ws) -> p n = false) ->
  filter p (dir_names (dir_puts d ws)) = filter p (dir_names d).
Proof.
  induction ws as [|e ws IH]; intros d H; auto.
  rewrite dir_puts_cons, IH by (intros n Hn; apply H; simpl; auto).
  apply filter_put_names. apply H. simpl; auto.
Qed.

(* the glob of the previous round's files is not affected by this round's writes
   ([dir_wf] is not even needed) *)
Lemma prev_pairs_frame d ws r :
  dir_wf d ->
  (forall n, In n (map fst ws) -> is_bufs_of (r - 1) n = false /\ is_idxs_of (r - 1) n = false) ->
  prev_pairs (dir_puts d ws) (r - 1) = prev_pairs d (r - 1).
Proof.
  intros _ H. unfold prev_pairs.
  rewrite !filter_puts_names; auto; intros n Hn; apply H in Hn; tauto.
Qed.

(* what [prev_pairs] returns satisfies the read hypothesis of [read_frame] *)
Lemma prev_pairs_prev_name d r p :
  In p (prev_pairs d r) -> prev_name r (fst p) = true /\ prev_name r (snd p) = true.
Proof.
  unfold prev_pairs, prev_name. destruct p as [a b]. intros H.
  pose proof (in_combine_l _ _ _ _ H) as Ha. pose proof (in_combine_r _ _ _ _ H) as Hb.
  apply filter_In in Ha as [_ Ha]. apply filter_In in Hb as [_ Hb]. simpl.
  rewrite Ha, Hb, Bool.orb_true_r. auto.
Qed.

(* the files written by a round-r task are not round-(r-1) files *)
Lemma task_shape_frame r label ws n : 1 <= r ->
  task_shape r label (Some ws) -> In n (map fst ws) ->
  is_bufs_of (r - 1) n = false /\ is_idxs_of (r - 1) n = false.
Proof.
  intros Hr [gs [-> _]] Hn. apply save_groups_names_in in Hn as [w [_ E]].
  destruct (round_names_differ r (r - 1) label w) as [H1 [H2 [H3 H4]]]; try lia.
  destruct E as [-> | ->]; auto.
Qed.

Section Frame.
Variable fexp : float -> float.

(* so a merging task of round r reads the same pairs whether it looks at the directory at the
   start of the round or after any other tasks of the round have written their files *)
Theorem merging_task_reads_frame c d r rows ws : 2 <= r ->
  dir_wf d -> In (Some ws) (merging_tasks fexp c d r rows) ->
  prev_pairs (dir_puts d ws) (r - 1) = prev_pairs d (r - 1) /\
  (forall ps, (forall p, In p ps -> In p (prev_pairs d (r - 1))) ->
              read_pairs (dir_puts d ws) ps = read_pairs d ps).
Proof.
  intros Hr Hw Hin.
  assert (Hf : forall n, In n (map fst ws) ->
                 is_bufs_of (r - 1) n = false /\ is_idxs_of (r - 1) n = false).
  { unfold merging_tasks in Hin. apply in_map_iff in Hin as [b [E _]].
    intros n Hn. apply (task_shape_frame r (fst b) ws n); auto; [lia|].
    rewrite <- E. apply merging_task_shape. }
  refine (conj _ _).
  - apply prev_pairs_frame; auto.
  - intros ps Hps. apply read_frame with (r := r); auto.
    intros p Hp. apply prev_pairs_prev_name with (d := d). auto.
Qed.
End Frame.

(** ** the round with LIVE reads: every task reads the directory as it is when the task runs
    (after the writes of the tasks that completed before it), in any completion order *)
Lemma in_firstn_in {A} n (l : list A) x : In x (firstn n l) -> In x l.
Proof. intros H. rewrite <- (firstn_skipn n l). apply in_or_app; auto. Qed.
Lemma in_skipn_in {A} n (l : list A) x : In x (skipn n l) -> In x l.
Proof. intros H. rewrite <- (firstn_skipn n l). apply in_or_app; auto. Qed.

Lemma batched_fuel_incl {A} f n : forall (l b : list A) x,
  In b (batched_fuel f n l) -> In x b -> In x l.
Proof.
  induction f as [|f IH]; intros l b x Hb Hx; simpl in Hb; [tauto|].
  destruct l as [|a l]; [destruct Hb|]. destruct Hb as [<-|Hb].
  - eapply in_firstn_in; eauto.
  - eapply in_skipn_in. eapply IH; eauto.
Qed.

Lemma with_idxs_in {A} (bs : list (list A)) : forall i k b, In (k, b) (with_idxs i bs) -> In b bs.
Proof.
  induction bs as [|b0 bs IH]; intros i k b; simpl; [tauto|].
  intros [H|H]; [injection H as _ ->; auto|right; eapply IH; eauto].
Qed.

Lemma ins_bits_in d x l p : In p (ins_bits d x l) -> p = x \/ In p l.
Proof.
  induction l as [|y l IH]; simpl.
  - intros [H|[]]; auto.
  - destruct (name_bits d (fst y) <=? name_bits d (fst x)); simpl.
    + intros [H|[H|H]]; auto.
    + intros [H|H]; auto. apply IH in H. tauto.
Qed.

Lemma sort_batch_in d l p : In p (sort_batch d l) -> In p l.
Proof.
  unfold sort_batch. induction l as [|x l IH]; simpl; auto.
  intros H. apply ins_bits_in in H as [->|H]; auto.
Qed.

(* every pair a batch refers to is a pair of previous-round file names *)
Lemma batches_pairs d r bin b p :
  In b (batches d r bin) -> In p (snd b) -> In p (prev_pairs d r).
Proof.
  unfold batches. intros Hb Hp. apply in_map_iff in Hb as [[k b0] [<- Hb]]. simpl in *.
  apply sort_batch_in in Hp. apply with_idxs_in in Hb.
  unfold batched in Hb. eapply batched_fuel_incl; eauto.
Qed.

Section Live.
Variable fexp : float -> float.

Fixpoint run_live (c : mr_cfg) (r : Z) (rows : list fpv)
         (bs : list (string * list (string * string))) (d : dir) : option dir :=
  match bs with
  | [] => Some d
  | b :: tl =>
      match merging_task fexp c r (fst b) (read_pairs d (snd b)) rows with
      | None => None
      | Some ws => run_live c r rows tl (dir_puts d ws)
      end
  end.

Lemma run_live_eq c r rows d0 : 2 <= r -> forall bs acc,
  (forall b p, In b bs -> In p (snd b) ->
               prev_name (r - 1) (fst p) = true /\ prev_name (r - 1) (snd p) = true) ->
  (forall n, In n (map fst acc) -> is_bufs_of (r - 1) n = false /\ is_idxs_of (r - 1) n = false) ->
  run_live c r rows bs (dir_puts d0 acc) =
  run_tasks (dir_puts d0 acc)
            (map (fun b => merging_task fexp c r (fst b) (read_pairs d0 (snd b)) rows) bs).
Proof.
  intros Hr. induction bs as [|b bs IH]; intros acc Hbs Hacc; [reflexivity|].
  simpl map. rewrite run_tasks_cons. simpl run_live.
  rewrite (read_frame d0 acc r (snd b)); auto; [|intros p Hp; apply (Hbs b p); simpl; auto].
  destruct (merging_task fexp c r (fst b) (read_pairs d0 (snd b)) rows) as [ws|] eqn:E; auto.
  rewrite <- dir_puts_app. apply IH.
  - intros b' p Hb' Hp. apply (Hbs b' p); simpl; auto.
  - intros n Hn. rewrite map_app in Hn. apply in_app_or in Hn as [Hn|Hn]; auto.
    apply (task_shape_frame r (fst b) ws n); auto; [lia|].
    rewrite <- E. apply merging_task_shape.
Qed.

(* the batches of the round processed in ANY order [bs'], every task reading the directory as
   it is at that moment: same result as the model's round (all tasks computed at round start,
   applied in serial order) *)
Theorem merging_round_live c d0 r rows bs' : 2 <= r -> dir_wf d0 ->
  Permutation bs' (batches d0 (r - 1) (m_bin c)) ->
  run_live c r rows bs' d0 = run_tasks d0 (merging_tasks fexp c d0 r rows).
Proof.
  intros Hr Hw Hp.
  pose proof (run_live_eq c r rows d0 Hr bs' []) as H. simpl in H. rewrite H; clear H.
  - symmetry. apply run_tasks_perm; auto.
    + unfold merging_tasks. apply Permutation_map, Permutation_sym, Hp.
    + apply merging_writes_disjoint.
  - intros b p Hb Hpp. apply prev_pairs_prev_name with (d := d0).
    eapply batches_pairs; [|exact Hpp]. eapply Permutation_in; eauto.
  - intros n [].
Qed.
End Live.

(** ** the whole workflow with live reads and an arbitrary completion order per round *)
Section LiveSched.
Variable fexp : float -> float.
Variable perm : Z -> forall A : Type, list A -> list A.
Hypothesis perm_ok : forall r A (l : list A), Permutation (perm r A l) l.

Fixpoint mid_rounds_live (c : mr_cfg) (all_rows : list fpv) (k : nat) (r : Z) (d : dir)
  : option dir :=
  match k with
  | O => Some d
  | S k' =>
      match run_live fexp c r all_rows (perm r _ (batches d (r - 1) (m_bin c))) d with
      | None => None
      | Some d' => mid_rounds_live c all_rows k' (r + 1) d'
      end
  end.

Definition run_multiround_live (c : mr_cfg) (files : list (list fpv)) (d0 : dir) : option dir :=
  let d1 := dir_remove d0 is_purged in
  match run_tasks d1 (perm 1 _ (initial_tasks fexp c files)) with
  | None => None
  | Some d2 =>
      let all_rows := List.concat files in
      match mid_rounds_live c all_rows (m_rounds c) 2 d2 with
      | None => None
      | Some d3 =>
          let rf := 2 + Z.of_nat (m_rounds c) in
          match final_task fexp c (read_pairs d3 (prev_pairs d3 (rf - 1))) with
          | None => None
          | Some ws =>
              let d4 := dir_puts d3 ws in
              Some (if m_cleanup c then dir_remove d4 is_round_file else d4)
          end
      end
  end.

Lemma mid_rounds_live_eq c rows k : forall r d, 2 <= r ->
  dir_wf d -> mid_rounds_live c rows k r d = mid_rounds fexp c rows k r d.
Proof.
  induction k as [|k IH]; intros r d Hr Hw; simpl; auto.
  rewrite merging_round_live by (auto; apply perm_ok).
  destruct (run_tasks d (merging_tasks fexp c d r rows)) as [d'|] eqn:E; auto.
  apply IH; [lia|]. eapply run_tasks_wf; eauto.
Qed.

Theorem live_sched_independent c files d0 :
  dir_wf d0 -> run_multiround_live c files d0 = run_multiround fexp c files d0.
Proof.
  intros Hw. unfold run_multiround_live, run_multiround.
  assert (Hw1 : dir_wf (dir_remove d0 is_purged)) by (apply dir_remove_wf, Hw).
  rewrite (initial_round_sched fexp perm perm_ok) by auto.
  destruct (run_tasks (dir_remove d0 is_purged) (initial_tasks fexp c files)) as [d2|] eqn:E; auto.
  rewrite mid_rounds_live_eq; [reflexivity|lia|]. eapply run_tasks_wf; eauto.
Qed.
End LiveSched.

(* ====================================================================== *)
