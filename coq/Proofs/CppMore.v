(* CppMore.v — the remaining exported kernels of bblean/csrc/similarity.cpp:
   add_rows<uint8_t>, jt_isim_unpacked_u8, jt_isim_packed_u8 (Model/Cpp.v) against their Python
   fallback (np.sum(axis=0, dtype=uint64) / jt_isim_unpacked / jt_isim_packed). *)
From BB Require Import Model.Sim Model.Cpp Model.ObsCpp.
From BB Require Import Proofs.ListFacts Proofs.BitsFacts Proofs.IsimFacts Proofs.CppFacts.
From Coq Require Import ZArith List Bool Lia.
Import ListNotations.
Open Scope Z_scope.

(* ------------------------------------------------------------------ *)
(* helpers                                                              *)
(* ------------------------------------------------------------------ *)

Lemma wrap64_range : forall x, 0 <= wrap64 x < 2 ^ 64.
Proof. intros x. unfold wrap64. apply Z.mod_pos_bound. reflexivity. Qed.

Lemma wrap64_idem : forall x, wrap64 (wrap64 x) = wrap64 x.
Proof. intros x. unfold wrap64. apply Zmod_mod. Qed.

Lemma wrap64_add_idemp_l : forall a b, wrap64 (wrap64 a + b) = wrap64 (a + b).
Proof. intros. unfold wrap64. apply Zplus_mod_idemp_l. Qed.

Lemma Forall_map_wrap64 : forall l, Forall (fun k => 0 <= k < 2 ^ 64) (map wrap64 l).
Proof. intros l. apply Forall_map, Forall_forall. intros x _. apply wrap64_range. Qed.

Lemma map_wrap64_idem : forall l, map wrap64 (map wrap64 l) = map wrap64 l.
Proof. intros l. apply map_wrap64_small, Forall_map_wrap64. Qed.

(* isim_f reads its sums as uint64 values *)
Lemma isim_f_wrap : forall ls n, isim_f (map wrap64 ls) n = isim_f ls n.
Proof. intros ls n. unfold isim_f. rewrite map_wrap64_idem. reflexivity. Qed.

(* one row of the double loop: the uint64 accumulator is the wrapped exact accumulator *)
Lemma map2_wrap_step : forall acc r,
  map2 (fun a b => wrap64 (a + b)) (map wrap64 acc) r = map wrap64 (map2 Z.add acc r).
Proof.
  induction acc as [|a acc IH]; intros [|b r]; cbn [map map2]; try reflexivity.
  rewrite wrap64_add_idemp_l, IH. reflexivity.
Qed.

Lemma add_rows_fold : forall X acc,
  fold_left (fun acc r => map2 (fun a b => wrap64 (a + b)) acc r) X (map wrap64 acc)
  = map wrap64 (fold_left (fun acc r => map2 Z.add acc r) X acc).
Proof.
  induction X as [|r X IH]; intros acc; cbn [fold_left]; [reflexivity|].
  rewrite map2_wrap_step. apply IH.
Qed.

Lemma map_wrap64_repeat0 : forall w, map wrap64 (repeat 0 w) = repeat 0 w.
Proof. intros w. induction w as [|w IH]; cbn [repeat map]; [reflexivity|]. now rewrite IH. Qed.

(* exact sums of byte rows stay below 255 * (number of rows) *)
Lemma map2_add_bytes : forall m acc r, Forall (fun k => 0 <= k <= m) acc -> bytes r ->
  Forall (fun k => 0 <= k <= m + 255) (map2 Z.add acc r).
Proof.
  intros m acc r Hacc. revert r.
  induction Hacc as [|a acc Ha _ IH]; intros [|b r] Hr; cbn [map2]; try constructor.
  - inversion Hr; subst. lia.
  - inversion Hr; subst. now apply IH.
Qed.

Lemma zcolsum_fold_bound : forall X m acc, Forall (fun k => 0 <= k <= m) acc -> Forall bytes X ->
  Forall (fun k => 0 <= k <= m + 255 * zlen X) (fold_left (fun acc r => map2 Z.add acc r) X acc).
Proof.
  induction X as [|r X IH]; intros m acc Hacc HX; cbn [fold_left].
  - eapply Forall_impl; [|exact Hacc]. cbv beta. unfold zlen. cbn [length]. lia.
  - inversion HX as [|? ? Hr HX']; subst.
    pose proof (IH (m + 255) _ (map2_add_bytes m acc r Hacc Hr) HX') as F.
    eapply Forall_impl; [|exact F]. cbv beta. unfold zlen. cbn [length]. lia.
Qed.

Lemma zcolsum_bound : forall w X, Forall bytes X ->
  Forall (fun k => 0 <= k <= 255 * zlen X) (zcolsum w X).
Proof.
  intros w X HX. unfold zcolsum.
  apply (zcolsum_fold_bound X 0 (repeat 0 w)); [|exact HX].
  apply Forall_repeat. lia.
Qed.

Lemma zcolsum_length : forall w X, Forall (fun r => length r = w) X -> length (zcolsum w X) = w.
Proof.
  intros w X H. unfold zcolsum. rewrite colsum_len; rewrite repeat_length; [reflexivity|exact H].
Qed.

(* bit rows: the integer column sums are those of Sim.colsum *)
Lemma zcolsum_fold_bits : forall rows acc,
  fold_left (fun acc r => map2 Z.add acc r) (map (map b2z) rows) acc
  = fold_left (fun acc f => map2 Z.add acc (map b2z f)) rows acc.
Proof.
  induction rows as [|r rows IH]; intros acc; cbn [map fold_left]; [reflexivity|]. apply IH.
Qed.

Lemma zcolsum_bits : forall nf rows, zcolsum nf (map (map b2z) rows) = colsum nf rows.
Proof. intros. unfold zcolsum, colsum. apply zcolsum_fold_bits. Qed.

Lemma bytes_b2z : forall r, bytes (map b2z r).
Proof.
  intros r. apply Forall_map, Forall_forall. intros [|] _; cbn [b2z]; lia.
Qed.

Lemma map2_add_bits : forall m acc r, Forall (fun k => 0 <= k <= m) acc ->
  Forall (fun k => 0 <= k <= m + 1) (map2 Z.add acc (map b2z r)).
Proof.
  intros m acc r Hacc. revert r.
  induction Hacc as [|a acc Ha _ IH]; intros [|b r]; cbn [map map2]; try constructor.
  - destruct b; cbn [b2z]; lia.
  - apply IH.
Qed.

Lemma colsum_fold_bound : forall rows m acc, Forall (fun k => 0 <= k <= m) acc ->
  Forall (fun k => 0 <= k <= m + zlen rows)
         (fold_left (fun acc f => map2 Z.add acc (map b2z f)) rows acc).
Proof.
  induction rows as [|r rows IH]; intros m acc Hacc; cbn [fold_left].
  - eapply Forall_impl; [|exact Hacc]. cbv beta. unfold zlen. cbn [length]. lia.
  - pose proof (IH (m + 1) _ (map2_add_bits m acc r Hacc)) as F.
    eapply Forall_impl; [|exact F]. cbv beta. unfold zlen. cbn [length]. lia.
Qed.

Lemma colsum_bound : forall nf rows, Forall (fun k => 0 <= k <= zlen rows) (colsum nf rows).
Proof.
  intros nf rows. unfold colsum.
  apply (colsum_fold_bound rows 0 (repeat 0 nf)). apply Forall_repeat. lia.
Qed.

(* ------------------------------------------------------------------ *)
(* K5'. add_rows                                                        *)
(* ------------------------------------------------------------------ *)

(* any rows, any number of them: the uint64 accumulators hold the exact column sums mod 2^64,
   which is np.sum(axis=0, dtype=uint64) *)
Theorem K5_add_rows_wrap : forall w X, cpp_add_rows w X = map wrap64 (zcolsum w X).
Proof.
  intros w X. unfold cpp_add_rows, zcolsum.
  rewrite <- (map_wrap64_repeat0 w) at 1. apply add_rows_fold.
Qed.

Theorem K5_add_rows_py : forall w X, cpp_add_rows w X = py_add_rows w X.
Proof. exact K5_add_rows_wrap. Qed.

(* byte rows, fewer than 2^56 of them: no accumulator wraps (255 * 2^56 < 2^64), both sides are
   the exact column sums *)
Theorem K5_add_rows : forall w X, Forall bytes X -> zlen X < 2 ^ 56 ->
  cpp_add_rows w X = zcolsum w X /\ py_add_rows w X = zcolsum w X /\
  Forall (fun k => 0 <= k <= 255 * zlen X) (zcolsum w X).
Proof.
  intros w X HX Hn. pose proof (zcolsum_bound w X HX) as B.
  assert (E : map wrap64 (zcolsum w X) = zcolsum w X).
  { apply map_wrap64_small. eapply Forall_impl; [|exact B]. cbv beta.
    change (2 ^ 56) with 72057594037927936 in Hn.
    change (2 ^ 64) with 18446744073709551616. lia. }
  split; [|split].
  - rewrite K5_add_rows_wrap. exact E.
  - exact E.
  - exact B.
Qed.

(* bit rows (unpacked fingerprints): the sums are those of Sim.colsum, for fewer than 2^64 rows *)
Theorem K5_add_rows_bits : forall nf rows, zlen rows < 2 ^ 64 ->
  cpp_add_rows nf (map (map b2z) rows) = colsum nf rows.
Proof.
  intros nf rows Hn. rewrite K5_add_rows_wrap, zcolsum_bits.
  apply map_wrap64_small. eapply Forall_impl; [|apply colsum_bound]. cbv beta.
  intros a Ha. split; [apply Ha|]. eapply Z.le_lt_trans; [apply Ha|exact Hn].
Qed.

(* ------------------------------------------------------------------ *)
(* K5'. jt_isim_unpacked_u8                                             *)
(* ------------------------------------------------------------------ *)

Lemma cpp_isim_add_rows : forall w X n, 0 <= n < 2 ^ 63 ->
  cpp_isim (cpp_add_rows w X) n = isim_f (py_add_rows w X) n.
Proof.
  intros w X n Hn. rewrite K5_add_rows_py. apply K4_isim; [exact Hn|].
  unfold py_add_rows. apply Forall_map_wrap64.
Qed.

Lemma zlen_range63 : forall (A : Type) (X : list A), zlen X < 2 ^ 63 -> 0 <= zlen X < 2 ^ 63.
Proof. intros A X H. split; [unfold zlen; lia|exact H]. Qed.

(* the hypotheses of K4_isim hold by construction: the sums are uint64 values; no hypothesis on
   the entries of the rows *)
Theorem K5_isim_unpacked : forall w X, Forall (fun r => length r = w) X -> zlen X < 2 ^ 63 ->
  cpp_isim_unpacked w X = py_isim_unpacked X.
Proof.
  intros w X HX Hn. unfold cpp_isim_unpacked, py_isim_unpacked.
  rewrite cpp_isim_add_rows by (apply zlen_range63; exact Hn).
  destruct X as [|r X].
  - reflexivity.                                   (* n = 0: NaN on both sides *)
  - inversion HX; subst. reflexivity.
Qed.

(* the restatement on byte rows of one width (the inputs of the kernel) *)
Corollary K5_isim_unpacked_rows : forall w X, rows_ok w X -> zlen X < 2 ^ 63 ->
  cpp_isim_unpacked w X = py_isim_unpacked X.
Proof.
  intros w X HX. apply K5_isim_unpacked.
  eapply Forall_impl; [|exact HX]. cbv beta. intros r [_ L]. exact L.
Qed.

(* bit rows: the iSIM of C11 on the column sums; no width hypothesis *)
Theorem K5_isim_unpacked_bits : forall nf rows, zlen rows < 2 ^ 63 ->
  cpp_isim_unpacked nf (map (map b2z) rows) = isim_f (colsum nf rows) (zlen rows).
Proof.
  intros nf rows Hn. unfold cpp_isim_unpacked.
  assert (Z : zlen (map (map b2z) rows) = zlen rows) by (unfold zlen; now rewrite map_length).
  rewrite Z, cpp_isim_add_rows by (apply zlen_range63; exact Hn).
  unfold py_add_rows. rewrite isim_f_wrap, zcolsum_bits. reflexivity.
Qed.

(* ------------------------------------------------------------------ *)
(* K5'. jt_isim_packed_u8                                               *)
(* ------------------------------------------------------------------ *)

(* every count >= 0 (and None): the kernel has no shape check, zero padding / truncation as in
   np.unpackbits(count=n_features); no hypothesis on the bytes or the row widths *)
Theorem K5_isim_packed_any : forall nf X,
  match nf with Some n => 0 <= n | None => True end -> zlen X < 2 ^ 63 ->
  cpp_isim_packed nf X = Some (py_isim_packed nf X).
Proof.
  intros nf X Hnf Hn. unfold cpp_isim_packed, py_isim_packed, py_isim_unpacked.
  rewrite (K2_unpack_2d nf X Hnf). unfold unpack_rows. cbv zeta.
  assert (Z : zlen (map (fun r => map b2z (unpack nf r)) X) = zlen X)
    by (unfold zlen; now rewrite map_length).
  rewrite Z, cpp_isim_add_rows by (apply zlen_range63; exact Hn). reflexivity.
Qed.

Theorem K5_isim_packed : forall nf (w : nat) X, rows_ok w X -> nf_ok w nf -> zlen X < 2 ^ 63 ->
  cpp_isim_packed nf X = Some (py_isim_packed nf X).
Proof.
  intros nf w X _ Hnf Hn. apply K5_isim_packed_any; [|exact Hn]. now apply (nf_ok_nonneg w).
Qed.

(* None exactly when the unpack kernel throws; a negative count does *)
Theorem K5_isim_packed_none : forall nf X,
  cpp_isim_packed nf X = None <-> cpp_unpack_2d nf X = None.
Proof.
  intros nf X. unfold cpp_isim_packed. destruct (cpp_unpack_2d nf X); split; congruence.
Qed.

Theorem K5_isim_packed_negative : forall n X, n < 0 -> X <> [] ->
  cpp_isim_packed (Some n) X = None.
Proof. intros n X Hn Hne. apply K5_isim_packed_none. now apply K2_unpack_2d_undefined. Qed.

(* the packed route is the iSIM of C11 on the unpacked fingerprints *)
Theorem K5_isim_packed_colsum : forall nf (w : nat) X,
  Forall (fun r => length r = w) X ->
  match nf with Some n => 0 <= n | None => True end -> zlen X < 2 ^ 63 ->
  cpp_isim_packed nf X
  = Some (isim_f (colsum (unpacked_width w nf) (map (unpack nf) X)) (zlen X)).
Proof.
  intros nf w X HX Hnf Hn. rewrite (K5_isim_packed_any nf X Hnf Hn). f_equal.
  unfold py_isim_packed, py_isim_unpacked.
  assert (Z : zlen (map (fun r => map b2z (unpack nf r)) X) = zlen X)
    by (unfold zlen; now rewrite map_length).
  rewrite Z. unfold py_add_rows. rewrite isim_f_wrap.
  destruct X as [|r X].
  - reflexivity.
  - inversion HX as [|? ? L _]; subst. cbn [map].
    rewrite map_length, (unpack_length nf (length r) r eq_refl).
    change (map b2z (unpack nf r) :: map (fun r0 => map b2z (unpack nf r0)) X)
      with (map (fun r0 => map b2z (unpack nf r0)) (r :: X)).
    rewrite <- (map_map (unpack nf) (map b2z)), zcolsum_bits. reflexivity.
Qed.

(* ------------------------------------------------------------------ *)
(* executed instances                                                   *)
(* ------------------------------------------------------------------ *)

Module Demo.

(* add_rows, 3 rows of width 5, values up to 255 *)
Example add_rows_3x5 :
  cpp_add_rows 5 [[255;0;1;255;7]; [255;1;0;255;8]; [255;0;0;0;9]] = [765;1;1;510;24] /\
  py_add_rows 5 [[255;0;1;255;7]; [255;1;0;255;8]; [255;0;0;0;9]] = [765;1;1;510;24].
Proof. vm_compute. split; reflexivity. Qed.

(* no rows: shape (0, 5) gives five zeros *)
Example add_rows_0x5 : cpp_add_rows 5 [] = [0;0;0;0;0] /\ py_add_rows 5 [] = [0;0;0;0;0].
Proof. vm_compute. split; reflexivity. Qed.

(* the accumulator is uint64: it wraps *)
Example add_rows_wraps :
  fold_left (fun acc r => map2 (fun a b => wrap64 (a + b)) acc r) [[255]] [2 ^ 64 - 1] = [254].
Proof. vm_compute. reflexivity. Qed.

Definition bit_rows : list fpv :=
  [[true;true;false;true;false]; [true;false;false;true;true]; [true;true;false;false;false]].

(* iSIM of 3 bit rows, unpacked route: sums [3;2;0;2;1], sum 8, squares 18: 5 / (5 + 24 - 18) *)
Example isim_unpacked_bits :
  colsum 5 bit_rows = [3;2;0;2;1] /\
  feq_bits (cpp_isim_unpacked 5 (map (map b2z) bit_rows)) (isim_f (colsum 5 bit_rows) 3) = true /\
  feq_bits (cpp_isim_unpacked 5 (map (map b2z) bit_rows))
           (py_isim_unpacked (map (map b2z) bit_rows)) = true /\
  feq_bits (cpp_isim_unpacked 5 (map (map b2z) bit_rows)) (5 / 11)%float = true.
Proof. vm_compute. repeat split; reflexivity. Qed.

(* ... and the packed route on the same rows (one byte per row, n_features = 5) *)
Example isim_packed_bits :
  map pack bit_rows = [[208]; [152]; [192]] /\
  opt_eqb feq_bits (cpp_isim_packed (Some 5) (map pack bit_rows))
          (Some (cpp_isim_unpacked 5 (map (map b2z) bit_rows))) = true /\
  opt_eqb feq_bits (cpp_isim_packed (Some 5) (map pack bit_rows))
          (Some (py_isim_packed (Some 5) (map pack bit_rows))) = true.
Proof. vm_compute. repeat split; reflexivity. Qed.

(* packed route, n_features = 13 (two bytes per row; the last three bits are dropped) *)
Definition packed_rows : list (list Z) := [[255;255]; [170;8]; [15;248]].
Example isim_packed_13 :
  cpp_unpack_2d (Some 13) packed_rows
  = Some [[1;1;1;1;1;1;1;1;1;1;1;1;1]; [1;0;1;0;1;0;1;0;0;0;0;0;1]; [0;0;0;0;1;1;1;1;1;1;1;1;1]] /\
  opt_eqb feq_bits (cpp_isim_packed (Some 13) packed_rows)
          (Some (py_isim_packed (Some 13) packed_rows)) = true /\
  opt_eqb feq_bits (cpp_isim_packed (Some 13) packed_rows)
          (Some (isim_f [2;1;2;1;3;2;3;2;2;2;2;2;3] 3)) = true /\
  cpp_isim_packed (Some (-1)) packed_rows = None /\
  nf_ok 2 (Some 13).
Proof.
  refine (conj _ (conj _ (conj _ (conj _ _)))); try (vm_compute; reflexivity).
  right. exists 13. split; [reflexivity|split; [discriminate|reflexivity]].
Qed.

(* fewer than two rows: NaN on both sides *)
Example isim_one_row :
  feq_bits (cpp_isim_unpacked 3 [[1;0;1]]) nan = true /\
  feq_bits (py_isim_unpacked [[1;0;1]]) nan = true.
Proof. vm_compute. split; reflexivity. Qed.

(* the checkers of Model/ObsCpp.v accept the model's own values and reject others *)
Example checkers :
  chk_add_rows 5 [[255;0;1;255;7]; [255;1;0;255;8]; [255;0;0;0;9]] [765;1;1;510;24] = true /\
  chk_add_rows 5 [[255;0;1;255;7]; [255;1;0;255;8]; [255;0;0;0;9]] [765;1;1;510;25] = false /\
  chk_isim_unpacked 5 (map (map b2z) bit_rows) (5 / 11)%float = true /\
  chk_isim_unpacked 3 [[1;0;1]] nan = true /\
  chk_isim_packed (Some 5) (map pack bit_rows) (Some (5 / 11)%float) = true /\
  chk_isim_packed (Some 5) (map pack bit_rows) None = false /\
  chk_isim_packed (Some (-1)) packed_rows None = true.
Proof. vm_compute. repeat split; reflexivity. Qed.

End Demo.
