(* TreeDefs.v — reading functions over the tree used in statements, and the
   specification of _split_node's redistribution. *)
From BB Require Import Model.Tree Proofs.ListFacts.
From Coq Require Import Lia Permutation.
Open Scope Z_scope.

Fixpoint lsubs (nd : node) : list sub :=
  match nd with
  | Leaf _ _ es _ => es
  | Inner _ es _ => lsubs_e es
  end
with lsubs_e (es : ents) : list sub :=
  match es with ENil => [] | ECons _ ch tl => lsubs ch ++ lsubs_e tl end.

Fixpoint lids (nd : node) : list nat :=
  match nd with
  | Leaf id _ _ _ => [id]
  | Inner _ es _ => lids_e es
  end
with lids_e (es : ents) : list nat :=
  match es with ENil => [] | ECons _ ch tl => lids ch ++ lids_e tl end.

Definition blocks (nd : node) : list (list Z) := map sids (lsubs nd).
Definition blocks_e (es : ents) : list (list Z) := map sids (lsubs_e es).
Definition members (nd : node) : list Z := concat (blocks nd).

(* ents <-> list *)
Fixpoint elist (e : ents) : list (sub * node) :=
  match e with ENil => [] | ECons s ch tl => (s, ch) :: elist tl end.
Fixpoint eof (l : list (sub * node)) : ents :=
  match l with [] => ENil | (s, ch) :: tl => ECons s ch (eof tl) end.

Lemma eof_elist e : eof (elist e) = e.
Proof. induction e as [|s ch tl IH]; cbn; congruence. Qed.
Lemma elist_eof l : elist (eof l) = l.
Proof. induction l as [|[s ch] l IH]; cbn; congruence. Qed.
Lemma elist_app1 e s ch : elist (ents_app1 e s ch) = elist e ++ [(s, ch)].
Proof. induction e as [|s' c' tl IH]; cbn; congruence. Qed.
Lemma ents_len_elist e : ents_len e = length (elist e).
Proof. induction e; cbn; congruence. Qed.
Lemma ents_subs_elist e : ents_subs e = map fst (elist e).
Proof. induction e; cbn; congruence. Qed.
Lemma lsubs_e_elist e : lsubs_e e = flat_map (fun p => lsubs (snd p)) (elist e).
Proof. induction e; cbn; congruence. Qed.
Lemma lids_e_elist e : lids_e e = flat_map (fun p => lids (snd p)) (elist e).
Proof. induction e; cbn; congruence. Qed.
Lemma lsubs_e_app1 e s ch : lsubs_e (ents_app1 e s ch) = lsubs_e e ++ lsubs ch.
Proof. induction e as [|s' c' tl IH]; cbn; [now rewrite app_nil_r|]. now rewrite IH, app_assoc. Qed.
Lemma lids_e_app1 e s ch : lids_e (ents_app1 e s ch) = lids_e e ++ lids ch.
Proof. induction e as [|s' c' tl IH]; cbn; [now rewrite app_nil_r|]. now rewrite IH, app_assoc. Qed.
Lemma ents_subs_app1 e s ch : ents_subs (ents_app1 e s ch) = ents_subs e ++ [s].
Proof. induction e as [|s' c' tl IH]; cbn; congruence. Qed.
Lemma ents_len_app1 e s ch : ents_len (ents_app1 e s ch) = S (ents_len e).
Proof. induction e as [|s' c' tl IH]; cbn; congruence. Qed.

Section SplitSpec.
Variable nf : nat.

Lemma part_leaf_spec m : forall es a1 a2 c1 c2 t1 t2,
  part_leaf m es a1 a2 c1 c2 t1 t2 =
  (a1 ++ sel true m es, a2 ++ sel false m es,
   c1 ++ map scent (sel true m es), c2 ++ map scent (sel false m es),
   fold_left upd_sub (sel true m es) t1, fold_left upd_sub (sel false m es) t2).
Proof.
  induction m as [|b m IH]; intros es a1 a2 c1 c2 t1 t2.
  - destruct es; cbn; now rewrite !app_nil_r.
  - destruct es as [|s es]; cbn [part_leaf sel]; [now rewrite !app_nil_r|].
    destruct b; cbn [Bool.eqb]; rewrite IH; cbn [map fold_left]; now rewrite <- !app_assoc.
Qed.

Definition upd_fst (t : sub) (p : sub * node) : sub := upd_sub t (fst p).

Lemma part_inner_spec m : forall es a1 a2 c1 c2 t1 t2,
  part_inner m es a1 a2 c1 c2 t1 t2 =
  (eof (elist a1 ++ sel true m (elist es)), eof (elist a2 ++ sel false m (elist es)),
   c1 ++ map (fun p => scent (fst p)) (sel true m (elist es)),
   c2 ++ map (fun p => scent (fst p)) (sel false m (elist es)),
   fold_left upd_fst (sel true m (elist es)) t1,
   fold_left upd_fst (sel false m (elist es)) t2).
Proof.
  induction m as [|b m IH]; intros es a1 a2 c1 c2 t1 t2.
  - destruct es; cbn; now rewrite !app_nil_r, !eof_elist.
  - destruct es as [|s ch es]; cbn [part_inner sel elist];
      [now rewrite !app_nil_r, !eof_elist|].
    destruct b; cbn [Bool.eqb]; rewrite IH, elist_app1; cbn [map fold_left fst upd_fst];
      now rewrite <- !app_assoc.
Qed.

(* the mask *)
Lemma split_mask_length f1 : forall s1 s2 i,
  length (split_mask i f1 s1 s2) = Nat.min (length s1) (length s2).
Proof. induction s1 as [|a s1 IH]; intros [|b s2] i; cbn; auto. Qed.

Lemma split_mask_nth f1 : forall s1 s2 i j,
  (j < length s1)%nat -> (j < length s2)%nat ->
  nth j (split_mask i f1 s1 s2) false =
  Nat.eqb (i + j) f1 || fgt (nth j s1 0%float) (nth j s2 0%float).
Proof.
  induction s1 as [|a s1 IH]; intros [|b s2] i j H1 H2; cbn in *; try lia.
  destruct j as [|j].
  - now rewrite Nat.add_0_r.
  - rewrite IH by lia. now replace (S i + j)%nat with (i + S j)%nat by lia.
Qed.
End SplitSpec.
