(* TreeBal.v — height balance (all leaves at the same depth) and occupancy bounds
   (every non-root node has between 1 and bf entries; the root at most bf). *)
From BB Require Import Model.Tree Proofs.ListFacts Proofs.TreeDefs Proofs.TreeRel Proofs.TreeShape.
From Coq Require Import Lia Permutation.
Open Scope Z_scope.

(* all leaves of nd are at depth d *)
Fixpoint depth_is (d : nat) (nd : node) : Prop :=
  match nd with
  | Leaf _ _ _ _ => d = O
  | Inner _ es _ => match d with O => False | S d' => depth_is_e d' es end
  end
with depth_is_e (d : nat) (es : ents) : Prop :=
  match es with ENil => True | ECons _ ch tl => depth_is d ch /\ depth_is_e d tl end.

(* occupancy: every node strictly below the top has between 1 and bf entries *)
Fixpoint occ_ok (nd : node) : Prop :=        (* nd itself: 1 <= entries <= bf *)
  match nd with
  | Leaf _ bf es _ => (1 <= length es)%nat /\ Z.of_nat (length es) <= bf
  | Inner bf es _ => (1 <= ents_len es)%nat /\ Z.of_nat (ents_len es) <= bf /\ occ_ok_e es
  end
with occ_ok_e (es : ents) : Prop :=
  match es with ENil => True | ECons _ ch tl => occ_ok ch /\ occ_ok_e tl end.
(* the children of nd are fine, nd itself may be anything *)
Definition occ_below (nd : node) : Prop :=
  match nd with Leaf _ _ _ _ => True | Inner _ es _ => occ_ok_e es end.
(* the root: may be an empty leaf; otherwise at most bf entries, children fine *)
Definition occ_root (nd : node) : Prop :=
  Z.of_nat (n_entries nd) <= node_bf nd /\ occ_below nd.

(* ---------- list views ---------- *)
Lemma depth_is_e_elist d es :
  depth_is_e d es <-> Forall (fun p => depth_is d (snd p)) (elist es).
Proof.
  induction es as [|e ch tl IH]; cbn [depth_is depth_is_e elist].
  - split; auto.
  - rewrite IH. split.
    + intros [A B]. constructor; auto.
    + intros H. inversion H as [|? ? H1 H2]; subst. cbn [snd] in H1. split; assumption.
Qed.

Lemma occ_ok_e_elist es :
  occ_ok_e es <-> Forall (fun p => occ_ok (snd p)) (elist es).
Proof.
  induction es as [|e ch tl IH]; cbn [occ_ok occ_ok_e elist].
  - split; auto.
  - rewrite IH. split.
    + intros [A B]. constructor; auto.
    + intros H. inversion H as [|? ? H1 H2]; subst. cbn [snd] in H1. split; assumption.
Qed.

Lemma occ_ok_iff nd :
  occ_ok nd <->
  (1 <= n_entries nd)%nat /\ Z.of_nat (n_entries nd) <= node_bf nd /\ occ_below nd.
Proof.
  destruct nd as [id bf es cache|bf es cache]; cbn [occ_ok n_entries node_bf occ_below]; tauto.
Qed.

(* what a split does to capacity, depth and the occupancy of the children:
   no hypothesis needed, the halves are selections of the entries of nd *)
Lemma split_node_facts nf nd ax t1 n1 t2 n2 ax' :
  split_node nf nd ax = ((t1, n1), (t2, n2), ax') ->
  node_bf n1 = node_bf nd /\ node_bf n2 = node_bf nd /\
  (forall d, depth_is d nd -> depth_is d n1 /\ depth_is d n2) /\
  (occ_below nd -> occ_below n1 /\ occ_below n2).
Proof.
  destruct nd as [id bf es cache|bf es cache]; cbn [split_node]; intros Hs.
  - destruct (most_dissimilar nf cache) as [[[f1 f2] s1] s2].
    rewrite part_leaf_spec in Hs. cbn [app] in Hs.
    inversion Hs; subst t1 n1 t2 n2 ax'; clear Hs.
    cbn [node_bf depth_is occ_below].
    refine (conj eq_refl (conj eq_refl (conj _ _))); auto.
  - destruct (most_dissimilar nf cache) as [[[f1 f2] s1] s2].
    rewrite part_inner_spec in Hs. cbn [app elist] in Hs.
    inversion Hs; subst t1 n1 t2 n2 ax'; clear Hs.
    cbn [node_bf depth_is occ_below].
    refine (conj eq_refl (conj eq_refl (conj _ _))).
    + intros [|d] Hd; [contradiction|].
      rewrite !depth_is_e_elist, !elist_eof. rewrite depth_is_e_elist in Hd.
      split; apply Forall_sel; exact Hd.
    + intros Ho. rewrite !occ_ok_e_elist, !elist_eof. rewrite occ_ok_e_elist in Ho.
      split; apply Forall_sel; exact Ho.
Qed.

Lemma depth_is_e_app1 d tl t n :
  depth_is_e d tl -> depth_is d n -> depth_is_e d (ents_app1 tl t n).
Proof.
  intros A B. apply depth_is_e_elist. rewrite elist_app1. apply Forall_app. split.
  - now apply depth_is_e_elist.
  - constructor; [exact B|constructor].
Qed.

Lemma occ_ok_e_app1 tl t n :
  occ_ok_e tl -> occ_ok n -> occ_ok_e (ents_app1 tl t n).
Proof.
  intros A B. apply occ_ok_e_elist. rewrite elist_app1. apply Forall_app. split.
  - now apply occ_ok_e_elist.
  - constructor; [exact B|constructor].
Qed.

Section Bal.
Variable fexp : float -> float.
Variable nf : nat.
Variable c : crit.
Variable thr : float.
Hypothesis Hsim : forall a b : fpv,
    length a = nf -> length b = nf -> (sim a a <? sim a b)%float = false.

Notation shape := (shape nf).
Notation shape_e := (shape_e nf).
Notation sub_len := (sub_len nf).

(* ================= depth ================= *)
Lemma split_depth nd ax t1 n1 t2 n2 ax' d :
  shape nd -> (2 <= n_entries nd)%nat -> depth_is d nd ->
  split_node nf nd ax = ((t1, n1), (t2, n2), ax') ->
  depth_is d n1 /\ depth_is d n2.
Proof.
  intros _ _ Hd Hs.
  destruct (split_node_facts _ _ _ _ _ _ _ _ Hs) as (_ & _ & HD & _). exact (HD d Hd).
Qed.

(* the shape hypotheses are not needed for depth preservation *)
Lemma Ins_depth_mut :
  (forall nd s ax nd' sp ax',
      Ins fexp nf c thr nd s ax nd' sp ax' -> forall d, depth_is d nd -> depth_is d nd') /\
  (forall es k s cache ax es' cache' ax',
      InsE fexp nf c thr es k s cache ax es' cache' ax' ->
      forall d, depth_is_e d es -> depth_is_e d es').
Proof.
  apply Ins_mutind.
  - (* leaf empty *) intros id bf cache s ax d Hd. exact Hd.
  - (* leaf merge *) intros id bf es cache s ax m _ _ d Hd. exact Hd.
  - (* leaf append *) intros id bf es cache s ax _ _ d Hd. exact Hd.
  - (* inner *)
    intros bf es cache s ax es' cache' ax' _ IH d Hd.
    destruct d as [|d]; [exact Hd|]. cbn [depth_is] in *. apply IH. exact Hd.
  - (* nil *) intros k s cache ax d Hd. exact Hd.
  - (* skip *)
    intros e ch tl k s cache ax tl' ctl' ax' _ IH d [A B].
    split; [exact A|apply IH; exact B].
  - (* split *)
    intros e ch tl s cache ax ch' ax1 t1 n1 t2 n2 ax2 _ IH Hsp d [A B].
    destruct (split_node_facts _ _ _ _ _ _ _ _ Hsp) as (_ & _ & HD & _).
    destruct (HD d (IH d A)) as [D1 D2].
    split; [exact D1|]. apply depth_is_e_app1; assumption.
  - (* nosplit *)
    intros e ch tl s cache ax ch' ax1 _ IH d [A B].
    split; [apply IH; exact A|exact B].
Qed.

Lemma Ins_depth nd s ax nd' sp ax' d :
  Ins fexp nf c thr nd s ax nd' sp ax' -> shape nd -> sub_len s ->
  depth_is d nd -> depth_is d nd'.
Proof. intros H _ _ Hd. exact (proj1 Ins_depth_mut _ _ _ _ _ _ H d Hd). Qed.

Lemma InsE_depth es k s cache ax es' cache' ax' d :
  InsE fexp nf c thr es k s cache ax es' cache' ax' ->
  shape_e es -> cache = map scent (ents_subs es) ->
  depth_is_e d es -> depth_is_e d es'.
Proof. intros H _ _ Hd. exact (proj2 Ins_depth_mut _ _ _ _ _ _ _ _ H d Hd). Qed.

Lemma insert_root_depth bf root s ax root' ax' d :
  1 <= bf -> shape root -> sub_len s -> depth_is d root ->
  insert_root fexp nf c thr bf root s ax = (root', ax') ->
  depth_is d root' \/ depth_is (S d) root'.
Proof.
  intros Hbf Hr Hs Hd. unfold insert_root.
  destruct (insert fexp nf c thr root s ax) as [[r sp] ax1] eqn:Hi.
  apply insert_Ins in Hi. pose proof (Ins_depth _ _ _ _ _ _ d Hi Hr Hs Hd) as Hd'.
  destruct sp.
  - destruct (split_node nf r ax1) as [[[t1 n1] [t2 n2]] ax2] eqn:Hsp.
    destruct (split_node_facts _ _ _ _ _ _ _ _ Hsp) as (_ & _ & HD & _).
    destruct (HD d Hd') as [D1 D2].
    intros E. inversion E; subst. right. cbn [depth_is depth_is_e].
    exact (conj D1 (conj D2 I)).
  - intros E. inversion E; subst. left. exact Hd'.
Qed.

(* ================= occupancy ================= *)
Lemma shape_bf_pos nd : shape nd -> 1 <= node_bf nd.
Proof.
  destruct nd as [id bf es cache|bf es cache]; cbn [TreeShape.shape node_bf];
    intros [H _]; exact H.
Qed.

Lemma split_occ nd ax t1 n1 t2 n2 ax' :
  shape nd -> occ_below nd -> Z.of_nat (n_entries nd) = node_bf nd + 1 ->
  split_node nf nd ax = ((t1, n1), (t2, n2), ax') ->
  occ_ok n1 /\ occ_ok n2.
Proof.
  intros Hsh Ho Hn Hs.
  pose proof (shape_bf_pos _ Hsh) as Hbf.
  assert (H2 : (2 <= n_entries nd)%nat) by lia.
  destruct (split_shape fexp nf thr Hsim _ _ _ _ _ _ _ Hsh H2 Hs)
    as (_ & _ & _ & _ & L1 & L2 & L3).
  destruct (split_node_facts _ _ _ _ _ _ _ _ Hs) as (F1 & F2 & _ & F4).
  destruct (F4 Ho) as [G1 G2].
  split; apply occ_ok_iff; (refine (conj _ (conj _ _)); [assumption|lia|assumption]).
Qed.

Lemma Ins_occ_mut :
  (forall nd s ax nd' sp ax',
      Ins fexp nf c thr nd s ax nd' sp ax' ->
      shape nd -> sub_len s -> Z.of_nat (n_entries nd) <= node_bf nd -> occ_below nd ->
      occ_below nd' /\ node_bf nd' = node_bf nd /\
      (sp = false -> Z.of_nat (n_entries nd') <= node_bf nd' /\ (1 <= n_entries nd')%nat) /\
      (sp = true -> Z.of_nat (n_entries nd') = node_bf nd' + 1)) /\
  (forall es k s cache ax es' cache' ax',
      InsE fexp nf c thr es k s cache ax es' cache' ax' ->
      shape_e es -> cache = map scent (ents_subs es) -> sub_len s -> occ_ok_e es ->
      occ_ok_e es' /\ (ents_len es <= ents_len es' <= S (ents_len es))%nat).
Proof.
  apply Ins_mutind.
  - (* leaf empty *)
    intros id bf cache s ax (Hbf & _) Hs _ _.
    cbn [occ_below node_bf n_entries length].
    refine (conj I (conj eq_refl (conj _ _))).
    + intros _. split; lia.
    + discriminate.
  - (* leaf merge *)
    intros id bf es cache s ax m Hne Hm (Hbf & Hc & Hes) Hs Hn _.
    cbn [occ_below node_bf n_entries] in *. rewrite upd_length.
    refine (conj I (conj eq_refl (conj _ _))).
    + intros _. split; [exact Hn|]. destruct es; [congruence|cbn [length]; lia].
    + discriminate.
  - (* leaf append *)
    intros id bf es cache s ax Hne Hm (Hbf & _) Hs Hn _.
    cbn [occ_below node_bf n_entries] in *. rewrite app_length. cbn [length].
    refine (conj I (conj eq_refl (conj _ _))).
    + intros E. apply Z.ltb_ge in E. split; lia.
    + intros E. apply Z.ltb_lt in E. lia.
  - (* inner *)
    intros bf es cache s ax es' cache' ax' _ IH (Hbf & Hc & Hne & Hes) Hs Hn Ho.
    cbn [occ_below node_bf n_entries] in *.
    destruct (IH Hes Hc Hs Ho) as (A & B).
    refine (conj A (conj eq_refl (conj _ _))).
    + intros E. apply Z.ltb_ge in E. split; [exact E|].
      destruct es; [congruence|cbn [ents_len] in B; lia].
    + intros E. apply Z.ltb_lt in E. lia.
  - (* nil *)
    intros k s cache ax _ _ _ Ho. split; [exact Ho|lia].
  - (* skip *)
    intros e ch tl k s cache ax tl' ctl' ax' _ IH (He & Hch & Htl) Hc Hs [O1 O2].
    cbn [ents_subs map] in Hc. subst cache. cbn [List.tl] in IH.
    destruct (IH Htl eq_refl Hs O2) as [A B].
    cbn [occ_ok occ_ok_e ents_len]. split; [split; assumption|lia].
  - (* split *)
    intros e ch tl s cache ax ch' ax1 t1 n1 t2 n2 ax2 HI IH Hsp (He & Hch & Htl) Hc Hs [O1 O2].
    apply occ_ok_iff in O1. destruct O1 as (N1 & N2 & N3).
    destruct (IH Hch Hs N2 N3) as (B1 & B2 & _ & B4). specialize (B4 eq_refl).
    pose proof (Ins_shape fexp nf c thr Hsim _ _ _ _ _ _ HI Hch Hs) as Sh'.
    destruct (split_occ _ _ _ _ _ _ _ Sh' B1 B4 Hsp) as [K1 K2].
    cbn [occ_ok occ_ok_e ents_len]. rewrite ents_len_app1.
    split; [split; [exact K1|]|lia]. apply occ_ok_e_app1; assumption.
  - (* nosplit *)
    intros e ch tl s cache ax ch' ax1 HI IH (He & Hch & Htl) Hc Hs [O1 O2].
    apply occ_ok_iff in O1. destruct O1 as (N1 & N2 & N3).
    destruct (IH Hch Hs N2 N3) as (B1 & B2 & B3 & _). destruct (B3 eq_refl) as [C1 C2].
    cbn [occ_ok occ_ok_e ents_len].
    split; [split; [|exact O2]|lia]. apply occ_ok_iff. auto.
Qed.

Lemma Ins_occ nd s ax nd' sp ax' :
  Ins fexp nf c thr nd s ax nd' sp ax' -> shape nd -> sub_len s ->
  Z.of_nat (n_entries nd) <= node_bf nd -> occ_below nd ->
  occ_below nd' /\ node_bf nd' = node_bf nd /\
  (sp = false -> Z.of_nat (n_entries nd') <= node_bf nd' /\ (1 <= n_entries nd')%nat) /\
  (sp = true -> Z.of_nat (n_entries nd') = node_bf nd' + 1).
Proof. exact (proj1 Ins_occ_mut nd s ax nd' sp ax'). Qed.

Lemma InsE_occ es k s cache ax es' cache' ax' :
  InsE fexp nf c thr es k s cache ax es' cache' ax' ->
  shape_e es -> cache = map scent (ents_subs es) -> sub_len s -> occ_ok_e es ->
  occ_ok_e es' /\ (ents_len es <= ents_len es' <= S (ents_len es))%nat.
Proof. exact (proj2 Ins_occ_mut es k s cache ax es' cache' ax'). Qed.

(* NOTE: the statement with [1 <= bf] is false: take bf = 1 and a root
   [Leaf 0 1 [s0] [scent s0]]; when merge_sub refuses, the leaf gets 2 > 1 entries, is
   split, and the new root [Inner 1 (n1, n2)] has 2 entries but capacity 1, so
   [occ_root root'] fails.  The new root needs [2 <= bf]. *)
Lemma insert_root_occ bf root s ax root' ax' :
  2 <= bf -> shape root -> sub_len s -> occ_root root ->
  insert_root fexp nf c thr bf root s ax = (root', ax') ->
  occ_root root' /\ (1 <= n_entries root')%nat.
Proof.
  intros Hbf Hr Hs [Hn Ho]. unfold insert_root.
  destruct (insert fexp nf c thr root s ax) as [[r sp] ax1] eqn:Hi.
  apply insert_Ins in Hi.
  pose proof (Ins_shape fexp nf c thr Hsim _ _ _ _ _ _ Hi Hr Hs) as Hr'.
  destruct (Ins_occ _ _ _ _ _ _ Hi Hr Hs Hn Ho) as (B1 & B2 & B3 & B4).
  destruct sp.
  - specialize (B4 eq_refl).
    destruct (split_node nf r ax1) as [[[t1 n1] [t2 n2]] ax2] eqn:Hsp.
    destruct (split_occ _ _ _ _ _ _ _ Hr' B1 B4 Hsp) as [K1 K2].
    intros E. inversion E; subst. unfold occ_root.
    cbn [n_entries node_bf occ_below occ_ok_e ents_len].
    refine (conj (conj _ (conj K1 (conj K2 I))) _); lia.
  - destruct (B3 eq_refl) as [C1 C2].
    intros E. inversion E; subst. exact (conj (conj C1 B1) C2).
Qed.

Lemma occ_root_init bf : 0 <= bf -> occ_root (Leaf 0 bf [] []) /\ depth_is 0 (Leaf 0 bf [] []).
Proof.
  intros Hbf. unfold occ_root. cbn [n_entries node_bf occ_below depth_is length].
  refine (conj (conj _ I) eq_refl). lia.
Qed.

End Bal.

Print Assumptions split_depth.
Print Assumptions Ins_depth.
Print Assumptions InsE_depth.
Print Assumptions insert_root_depth.
Print Assumptions split_occ.
Print Assumptions Ins_occ.
Print Assumptions insert_root_occ.
Print Assumptions occ_root_init.
