(* GenTieFit.v — the skeleton of the two insertion loops of the estimator, extracted from
   BitBirch.fit / BitBirch._fit_buffers on every run of the translator (Gen/GFit.v), is the expected
   plan of Model/FitPlan.v; and the meaning of that plan (FitPlan.run_fit_body, run_fit_buffers_body,
   run_fit_mem, run_guards) is one step of the hand model: fit_rows / fit_bufs (Birch.v) for the tree,
   fit_releases (Mem.v) for the page releases, the guards of do_fit / do_fit_buffers before the loop. *)
From BB Require Import Model.FitPlan Gen.GFit Gen.GMem.
Open Scope Z_scope.

(* ---------- meaning of the expected plans = one step of the model ---------- *)
Section Meaning.
Variable fexp : float -> float.

Lemma run_fit_body_expected : forall cf st fp l,
  run_fit_body fexp expected_fit_loop_body cf st fp l = insert_st fexp cf st (singleton fp l) 1.
Proof.
  intros cf st fp l. unfold run_fit_body, insert_st, frame_of, state_of, insert_root.
  destruct (root st) as [r|]; [|reflexivity].
  cbn [expected_fit_loop_body run_steps fit_step1 t_root t_sub t_ax t_nfit t_split t_new with_sub
       with_nfit].
  destruct (insert fexp (nfeat st) (c_crit cf) (c_thr cf) r (singleton fp l) (sax st))
    as [[r' sp] ax1].
  cbn [t_root t_sub t_ax t_nfit t_split t_new with_sub with_nfit].
  destruct sp; [|reflexivity].
  cbn [expected_split_block run_split split_step1 t_root t_sub t_ax t_nfit t_split t_new].
  destruct (split_node (nfeat st) r' ax1) as [[[t1 n1] [t2 n2]] ax2].
  reflexivity.
Qed.

Lemma run_fit_buffers_body_expected : forall cf st w b,
  run_fit_buffers_body fexp expected_fit_buffers_loop_body cf st w b true =
  if zlen (sids b) =? sn b
  then (insert_st fexp cf st (sub_of_buffer w (sls b) (sn b) (sids b)) (zlen (sids b)), Ok)
  else (st, Err).
Proof.
  intros cf st w b. unfold run_fit_buffers_body, insert_st, frame_of, state_of, insert_root.
  cbn [expected_fit_buffers_loop_body run_steps fit_step1 andb].
  destruct (zlen (sids b) =? sn b); cbn [negb].
  2:{ destruct st; reflexivity. }
  cbn [t_root t_sub t_ax t_nfit t_split t_new with_sub with_nfit].
  destruct (root st) as [r|]; [|reflexivity].
  destruct (insert fexp (nfeat st) (c_crit cf) (c_thr cf) r
                   (sub_of_buffer w (sls b) (sn b) (sids b)) (sax st)) as [[r' sp] ax1].
  cbn [t_root t_sub t_ax t_nfit t_split t_new with_sub with_nfit].
  destruct sp; [|reflexivity].
  cbn [expected_split_block run_split split_step1 t_root t_sub t_ax t_nfit t_split t_new].
  destruct (split_node (nfeat st) r' ax1) as [[[t1 n1] [t2 n2]] ax2].
  reflexivity.
Qed.
End Meaning.

(* page releases: the count is advanced BEFORE the test, the test is on the rows consumed by this
   call, the release follows *)
Lemma run_fit_mem_expected : forall m k i,
  fit_releases m (S k) i =
  let f := run_fit_mem expected_fit_loop_body m i in
  m_rel f ++ fit_releases (m_mm f) k (m_idx f).
Proof.
  intros m k i. unfold run_fit_mem. cbn [expected_fit_loop_body fold_left mem_step1 m_idx m_mm m_rel fit_releases].
  destruct (can_release m && should_release m (i + 1)); reflexivity.
Qed.

Lemma run_fit_mem_buffers_same : forall m i,
  run_fit_mem expected_fit_buffers_loop_body m i = run_fit_mem expected_fit_loop_body m i.
Proof. reflexivity. Qed.

(* the guards before the loop: released tree -> error with nothing inserted; then initialisation *)
Lemma do_fit_expected_guards : forall fexp st r0 tl labels,
  do_fit fexp st (r0 :: tl) labels =
  let nf := match r0 with Some fp => length fp | None => nfeat st end in
  match run_guards expected_fit_pre_loop st nf with
  | (st1, Ok) =>
      fit_rows fexp (cfg st1) st1 (r0 :: tl)
        (fit_labels (expected_fit_label_source (match labels with None => true | Some _ => false end))
                    st1 (length (r0 :: tl)) (match labels with Some l => l | None => [] end))
  | (_, Err) => (st, Err)
  end.
Proof.
  intros. unfold do_fit. cbn [expected_fit_pre_loop run_guards].
  destruct (released st); [reflexivity|].
  destruct labels; reflexivity.
Qed.

Lemma do_fit_buffers_expected_guards : forall fexp st w b0 g,
  do_fit_buffers fexp st w (b0 :: g) =
  match run_guards expected_fit_buffers_pre_loop st (length (sls b0)) with
  | (st1, Ok) => fit_bufs fexp (cfg st1) st1 w (b0 :: g)
  | (_, Err) => (st, Err)
  end.
Proof.
  intros. unfold do_fit_buffers. cbn [expected_fit_buffers_pre_loop run_guards].
  destruct (released st); reflexivity.
Qed.

(* ---------- the tie: extracted = expected ---------- *)
Lemma tie_fit_loop : GFit.fit_loop_body = expected_fit_loop_body.
Proof. reflexivity. Qed.
Lemma tie_fit_buffers_loop : GFit.fit_buffers_loop_body = expected_fit_buffers_loop_body.
Proof. reflexivity. Qed.
Lemma tie_fit_pre_loop : GFit.fit_pre_loop = expected_fit_pre_loop.
Proof. reflexivity. Qed.
Lemma tie_fit_buffers_pre_loop : GFit.fit_buffers_pre_loop = expected_fit_buffers_pre_loop.
Proof. reflexivity. Qed.
Lemma tie_fit_locals :
  GFit.fit_locals_read_once = expected_locals_read_once /\
  GFit.fit_buffers_locals_read_once = expected_locals_read_once.
Proof. split; reflexivity. Qed.
Lemma tie_fit_label_source : forall b, GFit.fit_label_source b = expected_fit_label_source b.
Proof. reflexivity. Qed.
Lemma tie_fit_buffers_index_source : forall b,
  GFit.fit_buffers_index_source b = expected_fit_buffers_index_source b.
Proof. reflexivity. Qed.
Lemma tie_fit_arr_idx_init : GFit.fit_arr_idx_init = 0 /\ GFit.fit_buffers_arr_idx_init = 0.
Proof. split; reflexivity. Qed.
Lemma tie_fit_buffers_pairing : GFit.fit_buffers_pairing = ZipIndexSeqsRows.
Proof. reflexivity. Qed.

(* ---------- corollaries: the extracted loops are the model's loops ---------- *)
Corollary fit_rows_step_gen : forall fexp cf st fp rows l labels,
  fit_rows fexp cf st (Some fp :: rows) (l :: labels) =
  fit_rows fexp cf (run_fit_body fexp GFit.fit_loop_body cf st fp l) rows labels.
Proof. intros. rewrite tie_fit_loop, run_fit_body_expected. reflexivity. Qed.

Corollary fit_bufs_step_gen : forall fexp cf st w b g,
  fit_bufs fexp cf st w (b :: g) =
  match run_fit_buffers_body fexp GFit.fit_buffers_loop_body cf st w b
          (index_source_check (GFit.fit_buffers_index_source false)) with
  | (st', Ok) => fit_bufs fexp cf st' w g
  | (st', Err) => (st', Err)
  end.
Proof.
  intros. rewrite tie_fit_buffers_loop.
  change (index_source_check (GFit.fit_buffers_index_source false)) with true.
  rewrite run_fit_buffers_body_expected. cbn [fit_bufs].
  destruct (zlen (sids b) =? sn b); reflexivity.
Qed.

Corollary fit_releases_step_gen : forall m k,
  fit_releases m (S k) GFit.fit_arr_idx_init =
  let f := run_fit_mem GFit.fit_loop_body m GFit.fit_arr_idx_init in
  m_rel f ++ fit_releases (m_mm f) k (m_idx f).
Proof. intros. rewrite tie_fit_loop. apply run_fit_mem_expected. Qed.

Corollary do_fit_guards_gen : forall fexp st r0 tl labels,
  do_fit fexp st (r0 :: tl) labels =
  let nf := match r0 with Some fp => length fp | None => nfeat st end in
  match run_guards GFit.fit_pre_loop st nf with
  | (st1, Ok) =>
      fit_rows fexp (cfg st1) st1 (r0 :: tl)
        (fit_labels (GFit.fit_label_source (match labels with None => true | Some _ => false end))
                    st1 (length (r0 :: tl)) (match labels with Some l => l | None => [] end))
  | (_, Err) => (st, Err)
  end.
Proof. intros. apply do_fit_expected_guards. Qed.

(* ---------- position of the release check in the extracted bodies ---------- *)
Lemma release_check_position :
  once_before SInsertRoot SReleaseCheck GFit.fit_loop_body = true /\
  once_before SCountOne SReleaseCheck GFit.fit_loop_body = true /\
  once_before SArrIdxInc SReleaseCheck GFit.fit_loop_body = true /\
  once_before SInsertRoot SCountOne GFit.fit_loop_body = true /\
  once_before SInsertRoot SReleaseCheck GFit.fit_buffers_loop_body = true /\
  once_before SCountMembers SReleaseCheck GFit.fit_buffers_loop_body = true /\
  once_before SArrIdxInc SReleaseCheck GFit.fit_buffers_loop_body = true.
Proof. vm_compute. repeat split. Qed.

(* the manager of an array input (not a path) is built with can_release = False: whatever the
   array is, it never releases (Gen/GMem.from_bb_input is the translated classmethod) *)
Lemma array_input_never_releases : forall for_path for_array rest,
  GFit.fit_pre_loop = PManager for_path for_array :: rest ->
  forall is_memmap ndim cols offset data pagesize,
    fst (fst (fst (GMem.from_bb_input is_memmap ndim cols offset data pagesize
                                      (mm_ctor_arg for_array)))) = false.
Proof.
  intros fp fa rest H. injection H as _ Hfa _. subst fa. intros.
  unfold GMem.from_bb_input, mm_ctor_arg.
  destruct (_ && _ && _ && _); reflexivity.
Qed.
