(* LabelFacts.v — property C18: the assignment vector gives every fitted fingerprint the
   1-based rank of its cluster in the size-sorted cluster list, and is refused (None) rather
   than returned with unlabeled (0) entries.  Also: Jaccard basics for the sklearn wrapper. *)
From BB Require Import Model.Labels Proofs.ListFacts Proofs.FloatFacts Proofs.BirchDefs
     Proofs.BirchInv Proofs.BirchRebuild.
From Coq Require Import ZArith List Bool Lia Permutation Sorted.
Import ListNotations.
Open Scope Z_scope.

(* ---------- 1. the two nested loops of [assignments], as top-level functions ---------- *)

(* [put_all k] is literally the local fixpoint [put] of [assignments] (closed over [k]) *)
Definition put_all (k : Z) : list Z -> list Z -> option (list Z) :=
  fix put (ids : list Z) (a : list Z) : option (list Z) :=
    match ids with
    | [] => Some a
    | i :: r =>
        if (0 <=? i) && (i <? Z.of_nat (length a))
        then put r (upd (Z.to_nat i) k a) else None
    end.

Fixpoint assign_all (k : Z) (cls : list (list Z)) (a : list Z) : option (list Z) :=
  match cls with
  | [] => Some a
  | ids :: tl =>
      match put_all k ids a with Some a' => assign_all (k + 1) tl a' | None => None end
  end.

Lemma put_all_nil k a : put_all k [] a = Some a.
Proof. reflexivity. Qed.
Lemma put_all_cons k i r a :
  put_all k (i :: r) a =
  if (0 <=? i) && (i <? Z.of_nat (length a)) then put_all k r (upd (Z.to_nat i) k a) else None.
Proof. reflexivity. Qed.

Lemma assignments_unfold st :
  assignments st =
  match assign_all 1 (clusters st) (repeat 0 (Z.to_nat (nfit st))) with
  | Some a => if existsb (fun x => x =? 0) a then None else Some a
  | None => None
  end.
Proof. reflexivity. Qed.

(* ---------- list helpers ---------- *)

Lemma nth_upd {A} (i j : nat) (x d : A) (l : list A) :
  nth j (upd i x l) d = if (Nat.eqb j i && Nat.ltb i (length l))%bool then x else nth j l d.
Proof.
  revert i j; induction l as [|y l IH]; intros [|i] [|j]; cbn [upd nth length]; try reflexivity.
  - destruct (Nat.eqb (S j) (S i)); reflexivity.
  - rewrite IH. cbn [Nat.eqb].
    change (Nat.ltb (S i) (S (length l))) with (Nat.ltb i (length l)). reflexivity.
Qed.

Lemma existsb_eqb_In i (c : list Z) : existsb (Z.eqb i) c = true <-> In i c.
Proof.
  rewrite existsb_exists. split.
  - intros (x & Hx & E). apply Z.eqb_eq in E. now subst.
  - intros H. exists i. split; [exact H|apply Z.eqb_refl].
Qed.

Lemma existsb_eqb_false i (c : list Z) : existsb (Z.eqb i) c = false <-> ~ In i c.
Proof.
  rewrite <- existsb_eqb_In. destruct (existsb (Z.eqb i) c); split; intros H; congruence.
Qed.

Lemma NoDup_app_split {A} (a b : list A) :
  NoDup (a ++ b) -> NoDup b /\ forall x, In x a -> ~ In x b.
Proof.
  induction a as [|y a IH]; cbn [app]; intros H; [split; [exact H|contradiction]|].
  inversion H as [|? ? Hy H']; subst. destruct (IH H') as (N & D). split; [exact N|].
  intros x [->|Hx]; [intros C; apply Hy, in_or_app; now right|auto].
Qed.

(* ---------- facts about [rank_of] ---------- *)

Lemma rank_of_none i cls k : ~ In i (concat cls) -> rank_of i cls k = None.
Proof.
  revert k; induction cls as [|c tl IH]; intros k H; cbn [rank_of]; [reflexivity|].
  cbn [concat] in H. rewrite in_app_iff in H.
  assert (E : existsb (Z.eqb i) c = false) by (apply existsb_eqb_false; tauto).
  rewrite E. apply IH. tauto.
Qed.

Lemma rank_of_some i cls k : In i (concat cls) -> exists r, rank_of i cls k = Some r.
Proof.
  revert k; induction cls as [|c tl IH]; intros k H; cbn [rank_of concat] in *; [contradiction|].
  destruct (existsb (Z.eqb i) c) eqn:E; [eauto|].
  apply existsb_eqb_false in E. rewrite in_app_iff in H. apply IH. tauto.
Qed.

Lemma rank_of_range i cls k r : rank_of i cls k = Some r -> k <= r < k + zlen cls.
Proof.
  revert k; induction cls as [|c tl IH]; intros k H; cbn [rank_of] in H; [discriminate|].
  unfold zlen in *. cbn [length]. destruct (existsb (Z.eqb i) c).
  - inversion H. lia.
  - specialize (IH _ H). lia.
Qed.

Lemma rank_of_In i cls k r : rank_of i cls k = Some r -> In i (concat cls).
Proof.
  revert k; induction cls as [|c tl IH]; intros k H; cbn [rank_of concat] in *; [discriminate|].
  rewrite in_app_iff. destruct (existsb (Z.eqb i) c) eqn:E.
  - left. now apply existsb_eqb_In.
  - right. eauto.
Qed.

(* the rank found is the position (counted from [k]) of the FIRST cluster containing [i] *)
Lemma rank_of_first i cls k r :
  rank_of i cls k = Some r ->
  exists c, nth_error cls (Z.to_nat (r - k)) = Some c /\ In i c /\
            forall j c', (j < Z.to_nat (r - k))%nat -> nth_error cls j = Some c' -> ~ In i c'.
Proof.
  revert k; induction cls as [|c tl IH]; intros k H; cbn [rank_of] in H; [discriminate|].
  destruct (existsb (Z.eqb i) c) eqn:E.
  - inversion H; subst r. rewrite Z.sub_diag. exists c. cbn.
    refine (conj eq_refl (conj _ _)); [now apply existsb_eqb_In|]. intros j c' Hj. lia.
  - pose proof (rank_of_range _ _ _ _ H) as Hr.
    destruct (IH _ H) as (c0 & N & I0 & F).
    replace (Z.to_nat (r - k)) with (S (Z.to_nat (r - (k + 1)))) by lia.
    exists c0. cbn [nth_error]. refine (conj N (conj I0 _)).
    intros [|j] c' Hj Hn; cbn [nth_error] in Hn.
    + inversion Hn; subst c'. now apply existsb_eqb_false.
    + apply (F j c'); [lia|exact Hn].
Qed.

(* ---------- 2. the specification of the loops ---------- *)

(* inner loop: succeeds iff every label is a valid index; writes [k] exactly at the labels *)
Lemma put_all_spec k ids a :
  (forall j, In j ids -> 0 <= j < Z.of_nat (length a)) ->
  exists a', put_all k ids a = Some a' /\ length a' = length a /\
    forall i, 0 <= i ->
      nth (Z.to_nat i) a' 0 = if existsb (Z.eqb i) ids then k else nth (Z.to_nat i) a 0.
Proof.
  revert a; induction ids as [|j r IH]; intros a H.
  - exists a. rewrite put_all_nil. cbn [existsb]. auto.
  - rewrite put_all_cons.
    pose proof (H j (or_introl eq_refl)) as Hj.
    replace ((0 <=? j) && (j <? Z.of_nat (length a)))%bool with true
      by (symmetry; apply andb_true_iff; split; [apply Z.leb_le|apply Z.ltb_lt]; lia).
    destruct (IH (upd (Z.to_nat j) k a)) as (a' & E & L & N).
    { intros x Hx. rewrite upd_length. apply H. now right. }
    exists a'. refine (conj E (conj _ _)).
    + now rewrite L, upd_length.
    + intros i Hi. rewrite (N i Hi). cbn [existsb].
      destruct (existsb (Z.eqb i) r) eqn:Er.
      * now rewrite orb_true_r.
      * rewrite orb_false_r, nth_upd.
        destruct (Z.eqb_spec i j) as [->|Ne].
        -- rewrite Nat.eqb_refl.
           replace (Nat.ltb (Z.to_nat j) (length a)) with true
             by (symmetry; apply Nat.ltb_lt; lia). reflexivity.
        -- replace (Nat.eqb (Z.to_nat i) (Z.to_nat j)) with false
             by (symmetry; apply Nat.eqb_neq; lia). reflexivity.
Qed.

(* when the inner loop fails, some label is out of range (IndexError) *)
Lemma put_all_none k ids a :
  put_all k ids a = None -> exists j, In j ids /\ ~ (0 <= j < Z.of_nat (length a)).
Proof.
  revert a; induction ids as [|j r IH]; intros a; [rewrite put_all_nil; discriminate|].
  rewrite put_all_cons.
  destruct ((0 <=? j) && (j <? Z.of_nat (length a)))%bool eqn:E.
  - intros H. destruct (IH _ H) as (x & Hx & Nx). rewrite upd_length in Nx.
    exists x. split; [now right|exact Nx].
  - intros _. exists j. split; [now left|]. intros (A & B).
    apply andb_false_iff in E. destruct E as [E|E];
      [apply Z.leb_gt in E|apply Z.ltb_ge in E]; lia.
Qed.

(* whatever the clusters are, the loops never change the length, and a position that is in
   no cluster keeps its value *)
Lemma put_all_untouched k ids a a' :
  put_all k ids a = Some a' ->
  length a' = length a /\
  forall i, 0 <= i -> ~ In i ids -> nth (Z.to_nat i) a' 0 = nth (Z.to_nat i) a 0.
Proof.
  revert a; induction ids as [|j r IH]; intros a.
  - rewrite put_all_nil. intros H; inversion H; subst. auto.
  - rewrite put_all_cons.
    destruct ((0 <=? j) && (j <? Z.of_nat (length a)))%bool eqn:E; [|discriminate].
    intros H. destruct (IH _ H) as (L & N). rewrite upd_length in L.
    refine (conj L _). intros i Hi Ni. cbn [In] in Ni.
    rewrite N by tauto. rewrite nth_upd.
    apply andb_true_iff in E. destruct E as (E1 & E2). apply Z.leb_le in E1.
    replace (Nat.eqb (Z.to_nat i) (Z.to_nat j)) with false; [reflexivity|].
    symmetry. apply Nat.eqb_neq. intros C. apply Ni. left. lia.
Qed.

Lemma assign_all_untouched cls : forall k a a',
  assign_all k cls a = Some a' ->
  length a' = length a /\
  forall i, 0 <= i -> ~ In i (concat cls) -> nth (Z.to_nat i) a' 0 = nth (Z.to_nat i) a 0.
Proof.
  induction cls as [|c tl IH]; intros k a a'; cbn [assign_all concat].
  - intros H; inversion H; subst. auto.
  - destruct (put_all k c a) as [a1|] eqn:E; [|discriminate]. intros H.
    destruct (put_all_untouched _ _ _ _ E) as (L1 & N1).
    destruct (IH _ _ _ H) as (L2 & N2).
    refine (conj _ _); [congruence|]. intros i Hi Ni. rewrite in_app_iff in Ni.
    rewrite N2 by tauto. apply N1; tauto.
Qed.

(* outer loop, general form: any starting rank [k], any current vector [a] *)
Lemma assign_all_spec_gen cls : forall k a,
  NoDup (concat cls) ->
  (forall j, In j (concat cls) -> 0 <= j < Z.of_nat (length a)) ->
  exists a', assign_all k cls a = Some a' /\ length a' = length a /\
    forall i, 0 <= i ->
      nth (Z.to_nat i) a' 0 =
      match rank_of i cls k with Some r => r | None => nth (Z.to_nat i) a 0 end.
Proof.
  induction cls as [|c tl IH]; intros k a ND R; cbn [assign_all rank_of concat] in *.
  - exists a. auto.
  - destruct (put_all_spec k c a) as (a1 & E1 & L1 & N1).
    { intros j Hj. apply R, in_or_app. now left. }
    rewrite E1.
    destruct (IH (k + 1) a1) as (a2 & E2 & L2 & N2).
    { exact (proj1 (NoDup_app_split _ _ ND)). }
    { intros j Hj. rewrite L1. apply R, in_or_app. now right. }
    exists a2. refine (conj E2 (conj _ _)); [congruence|].
    intros i Hi. rewrite (N2 i Hi), (N1 i Hi).
    destruct (existsb (Z.eqb i) c) eqn:Ec; [|reflexivity].
    rewrite rank_of_none; [reflexivity|].
    apply existsb_eqb_In in Ec.
    (* i occurs both in c and in a later cluster: impossible by NoDup *)
    exact (proj2 (NoDup_app_split _ _ ND) i Ec).
Qed.

Lemma nth_repeat_0 (n j : nat) : nth j (repeat 0 n) 0 = 0.
Proof. revert j; induction n as [|n IH]; intros [|j]; cbn; auto. Qed.

Lemma assign_all_spec cls n :
  NoDup (concat cls) ->
  (forall i, In i (concat cls) -> 0 <= i < Z.of_nat n) ->
  exists a, assign_all 1 cls (repeat 0 n) = Some a /\ length a = n /\
    forall i, 0 <= i < Z.of_nat n ->
      nth (Z.to_nat i) a 0 = match rank_of i cls 1 with Some k => k | None => 0 end.
Proof.
  intros ND R.
  destruct (assign_all_spec_gen cls 1 (repeat 0 n) ND) as (a & E & L & N).
  { now rewrite repeat_length. }
  exists a. rewrite repeat_length in L. refine (conj E (conj L _)).
  intros i Hi. rewrite N by lia. now rewrite nth_repeat_0.
Qed.

(* converse direction of the error path: the loops fail only on an out-of-range label *)
Lemma assign_all_none cls : forall k a,
  assign_all k cls a = None ->
  exists j, In j (concat cls) /\ ~ (0 <= j < Z.of_nat (length a)).
Proof.
  induction cls as [|c tl IH]; intros k a; cbn [assign_all concat]; [discriminate|].
  destruct (put_all k c a) as [a1|] eqn:E.
  - intros H. destruct (IH _ _ H) as (j & Hj & Nj).
    destruct (put_all_untouched _ _ _ _ E) as (L & _). rewrite L in Nj.
    exists j. split; [apply in_or_app; now right|exact Nj].
  - intros _. destruct (put_all_none _ _ _ E) as (j & Hj & Nj).
    exists j. split; [apply in_or_app; now left|exact Nj].
Qed.

(* ---------- 3. the estimator-level theorem ---------- *)

Lemma existsb_zero_false (a : list Z) :
  (forall j, (j < length a)%nat -> nth j a 0 <> 0) -> existsb (fun x => x =? 0) a = false.
Proof.
  intros H. destruct (existsb (fun x => x =? 0) a) eqn:E; [|reflexivity]. exfalso.
  apply existsb_exists in E. destruct E as (x & Hx & Ex). apply Z.eqb_eq in Ex. subst x.
  destruct (In_nth _ _ 0 Hx) as (j & Hj & Nj). exact (H j Hj Nj).
Qed.

(* [root st <> None] is not needed (an uninitialised state has [nfit = 0] and gets the empty
   vector); the real API raises "not fitted" there, so the requested form keeps it. *)
Theorem assignments_spec_strong st :
  st_inv st -> numbered st ->
  exists v, assignments st = Some v /\ length v = Z.to_nat (nfit st) /\
    forall i, 0 <= i < nfit st ->
      exists k, rank_of i (clusters st) 1 = Some k /\ nth (Z.to_nat i) v 0 = k /\
                1 <= k <= zlen (clusters st).
Proof.
  intros Hinv Hnum.
  destruct (numbered_clusters st Hinv Hnum) as (P & ND & Hn).
  set (n := Z.to_nat (nfit st)) in *.
  assert (Hn0 : 0 <= nfit st) by (rewrite Hn; unfold zlen; lia).
  assert (Hzn : Z.of_nat n = nfit st) by (unfold n; lia).
  assert (Hin : forall i, In i (concat (clusters st)) <-> 0 <= i < Z.of_nat n).
  { intros i. split; intros H.
    - apply (Permutation_in _ P), In_zseq in H. lia.
    - apply (Permutation_in _ (Permutation_sym P)), In_zseq. lia. }
  destruct (assign_all_spec (clusters st) n ND) as (a & E & L & N).
  { intros i Hi. now apply Hin. }
  assert (K : forall i, 0 <= i < Z.of_nat n ->
            exists k, rank_of i (clusters st) 1 = Some k /\ nth (Z.to_nat i) a 0 = k /\
                      1 <= k <= zlen (clusters st)).
  { intros i Hi. destruct (rank_of_some i (clusters st) 1) as (k & Ek); [now apply Hin|].
    exists k. refine (conj Ek (conj _ _)).
    - now rewrite (N i Hi), Ek.
    - pose proof (rank_of_range _ _ _ _ Ek). lia. }
  exists a. rewrite assignments_unfold. fold n. rewrite E.
  rewrite existsb_zero_false.
  - refine (conj eq_refl (conj L _)). intros i Hi. apply K. lia.
  - intros j Hj. destruct (K (Z.of_nat j)) as (k & _ & Nk & Rk); [lia|].
    rewrite Nat2Z.id in Nk. lia.
Qed.

Theorem assignments_spec st :
  st_inv st -> numbered st -> root st <> None ->
  exists v, assignments st = Some v /\ length v = Z.to_nat (nfit st) /\
    forall i, 0 <= i < nfit st ->
      exists k, rank_of i (clusters st) 1 = Some k /\ nth (Z.to_nat i) v 0 = k /\
                1 <= k <= zlen (clusters st).
Proof. intros Hinv Hnum _. now apply assignments_spec_strong. Qed.

(* the labels handed to the sklearn wrapper *)
Corollary sk_labels_spec st :
  st_inv st -> numbered st -> root st <> None ->
  exists v, sk_labels st = Some v /\ length v = Z.to_nat (nfit st) /\
    Forall (fun k => 1 <= k <= zlen (clusters st)) v.
Proof.
  intros Hinv Hnum Hr. destruct (assignments_spec st Hinv Hnum Hr) as (v & E & L & N).
  exists v. refine (conj E (conj L _)). apply Forall_forall. intros x Hx.
  destruct (In_nth _ _ 0 Hx) as (j & Hj & Nj).
  pose proof (proj1 (numbered_clusters st Hinv Hnum)) as _.
  destruct (N (Z.of_nat j)) as (k & _ & Nk & Rk); [lia|].
  rewrite Nat2Z.id in Nk. congruence.
Qed.

(* two fitted fingerprints get the same label iff they are in the same cluster *)
Corollary assignments_same_cluster st v i j :
  st_inv st -> numbered st -> assignments st = Some v ->
  0 <= i < nfit st -> 0 <= j < nfit st ->
  (nth (Z.to_nat i) v 0 = nth (Z.to_nat j) v 0 <-> together (clusters st) i j).
Proof.
  intros Hinv Hnum Ev Hi Hj.
  destruct (assignments_spec_strong st Hinv Hnum) as (v' & E & _ & N).
  rewrite Ev in E. inversion E; subst v'; clear E.
  destruct (numbered_clusters st Hinv Hnum) as (_ & ND & _).
  destruct (N i Hi) as (ki & Ri & Ni & Bi). destruct (N j Hj) as (kj & Rj & Nj & Bj).
  rewrite Ni, Nj.
  destruct (rank_of_first _ _ _ _ Ri) as (ci & Ei & Ii & _).
  destruct (rank_of_first _ _ _ _ Rj) as (cj & Ej & Ij & _).
  split.
  - intros ->. rewrite Ei in Ej. inversion Ej; subst cj.
    exists ci. refine (conj _ (conj Ii Ij)). eapply nth_error_In; exact Ei.
  - intros (b & Hb & Ib & Jb).
    (* by NoDup of the concatenation, a label occurs in one position of the list only *)
    assert (U : forall (cls : list (list Z)) x p q cp cq, NoDup (concat cls) ->
              nth_error cls p = Some cp -> nth_error cls q = Some cq ->
              In x cp -> In x cq -> p = q).
    { clear. induction cls as [|c tl IH]; intros x p q cp cq ND Hp Hq Ip Iq.
      - destruct p; discriminate.
      - cbn [concat] in ND.
        assert (Hd : forall y, In y c -> forall m cm, nth_error tl m = Some cm -> ~ In y cm).
        { intros y Hy m cm Hm Hc.
          assert (Hy' : In y (concat tl)).
          { apply in_concat. exists cm. split; [eapply nth_error_In; exact Hm|exact Hc]. }
          exact (proj2 (NoDup_app_split _ _ ND) y Hy Hy'). }
        destruct p as [|p], q as [|q]; cbn [nth_error] in *.
        + reflexivity.
        + inversion Hp; subst cp. exfalso. exact (Hd x Ip q cq Hq Iq).
        + inversion Hq; subst cq. exfalso. exact (Hd x Iq p cp Hp Ip).
        + f_equal. eapply IH; eauto. exact (proj1 (NoDup_app_split _ _ ND)). }
    destruct (In_nth_error _ _ Hb) as (m & Hm).
    pose proof (U _ _ _ _ _ _ ND Ei Hm Ii Ib) as E1.
    pose proof (U _ _ _ _ _ _ ND Ej Hm Ij Jb) as E2.
    pose proof (rank_of_range _ _ _ _ Ri). pose proof (rank_of_range _ _ _ _ Rj). lia.
Qed.

(* ---------- 4. an unlabeled entry is detected ---------- *)

Theorem assignments_refused_strong cls n i :
  0 <= i < Z.of_nat n -> (forall c, In c cls -> ~ In i c) ->
  match assign_all 1 cls (repeat 0 n) with
  | Some a => existsb (fun x => x =? 0) a = true
  | None => True
  end.
Proof.
  intros Hi Hc. destruct (assign_all 1 cls (repeat 0 n)) as [a|] eqn:E; [|exact I].
  destruct (assign_all_untouched _ _ _ _ E) as (L & N). rewrite repeat_length in L.
  apply existsb_exists. exists (nth (Z.to_nat i) a 0). split.
  - apply nth_In. lia.
  - rewrite N; [now rewrite nth_repeat_0|lia|].
    intros H. apply in_concat in H. destruct H as (c & Hc1 & Hc2). exact (Hc c Hc1 Hc2).
Qed.

Theorem assignments_refused cls n i :
  0 <= i < Z.of_nat n -> (forall c, In c cls -> ~ In i c) ->
  (forall j, In j (concat cls) -> 0 <= j < Z.of_nat n) ->
  match assign_all 1 cls (repeat 0 n) with
  | Some a => existsb (fun x => x =? 0) a = true
  | None => True
  end.
Proof. intros Hi Hc _. exact (assignments_refused_strong cls n i Hi Hc). Qed.

(* state-level reading: [assignments] never returns a vector with a 0 entry, and never a
   vector of the wrong length — for ANY state, invariant or not *)
Theorem assignments_sound st v :
  assignments st = Some v ->
  length v = Z.to_nat (nfit st) /\ Forall (fun x => x <> 0) v.
Proof.
  rewrite assignments_unfold.
  destruct (assign_all 1 (clusters st) (repeat 0 (Z.to_nat (nfit st)))) as [a|] eqn:E;
    [|discriminate].
  destruct (existsb (fun x => x =? 0) a) eqn:Z0; [discriminate|].
  intros H; inversion H; subst v; clear H.
  destruct (assign_all_untouched _ _ _ _ E) as (L & _). rewrite repeat_length in L.
  refine (conj L _). apply Forall_forall. intros x Hx Ex.
  assert (existsb (fun x => x =? 0) a = true); [|congruence].
  apply existsb_exists. exists x. split; [exact Hx|now apply Z.eqb_eq].
Qed.

(* a fitted label that is in no cluster makes the call fail *)
Corollary assignments_refused_st st i :
  0 <= i < nfit st -> (forall c, In c (clusters st) -> ~ In i c) -> assignments st = None.
Proof.
  intros Hi Hc. rewrite assignments_unfold.
  pose proof (assignments_refused_strong (clusters st) (Z.to_nat (nfit st)) i ltac:(lia) Hc) as H.
  destruct (assign_all 1 (clusters st) (repeat 0 (Z.to_nat (nfit st)))); [|reflexivity].
  now rewrite H.
Qed.

(* ---------- 5. ranks in the size-sorted list ---------- *)

(* general form: the rank is the 1-based position of the first cluster containing [i] *)
Lemma rank_of_sorted_gen i cls k :
  rank_of i cls 1 = Some k ->
  exists c, nth_error cls (Z.to_nat (k - 1)) = Some c /\ In i c /\
            forall j c', (j < Z.to_nat (k - 1))%nat -> nth_error cls j = Some c' -> ~ In i c'.
Proof. intros H. exact (rank_of_first i _ 1 k H). Qed.

Lemma rank_of_sorted st i k :
  rank_of i (clusters st) 1 = Some k ->
  exists c, nth_error (clusters st) (Z.to_nat (k - 1)) = Some c /\ In i c /\
            forall j c', (j < Z.to_nat (k - 1))%nat -> nth_error (clusters st) j = Some c' ->
                         ~ In i c'.
Proof. intros H. exact (rank_of_first i _ 1 k H). Qed.

(* [sort_desc] really sorts: descending by stored count *)
Definition ge_n (x y : sub) : Prop := sn y <= sn x.

Lemma ins_desc_In x y l : In y (ins_desc x l) -> y = x \/ In y l.
Proof.
  induction l as [|z l IH]; cbn [ins_desc]; intros H.
  - destruct H as [<-|[]]. now left.
  - destruct (sn z <=? sn x).
    + destruct H as [<-|H]; auto.
    + destruct H as [<-|H]; [right; now left|]. destruct (IH H); auto. right; now right.
Qed.

Lemma ins_desc_sorted x l : StronglySorted ge_n l -> StronglySorted ge_n (ins_desc x l).
Proof.
  induction l as [|z l IH]; intros S; cbn [ins_desc].
  - constructor; constructor.
  - inversion S as [|? ? S' F]; subst. destruct (sn z <=? sn x) eqn:E.
    + apply Z.leb_le in E. constructor; [exact S|]. constructor; [exact E|].
      rewrite Forall_forall in *. intros y Hy. specialize (F y Hy). unfold ge_n in *. lia.
    + apply Z.leb_gt in E. constructor; [auto|].
      rewrite Forall_forall in *. intros y Hy. destruct (ins_desc_In _ _ _ Hy) as [->|Hy'].
      * unfold ge_n. lia.
      * auto.
Qed.

Lemma sort_desc_sorted l : StronglySorted ge_n (sort_desc l).
Proof.
  unfold sort_desc. induction l as [|x l IH]; cbn [fold_right]; [constructor|].
  now apply ins_desc_sorted.
Qed.

(* under the invariant the stored counts are the cluster sizes, so the cluster list is sorted
   by size, largest first: rank 1 is a largest cluster *)
Definition ge_len (c d : list Z) : Prop := zlen d <= zlen c.

Lemma clusters_sorted st : st_inv st -> StronglySorted ge_len (clusters st).
Proof.
  intros Hinv. pose proof (sorted_leaves_good st Hinv) as G.
  unfold clusters. pose proof (sort_desc_sorted (leaves_of st)) as S.
  fold (sorted_leaves st) in S.
  induction S as [|x l S IH F]; cbn [map]; [constructor|].
  inversion G as [|? ? Gx Gl]; subst. constructor; [auto|].
  rewrite Forall_forall in *. intros d Hd. apply in_map_iff in Hd.
  destruct Hd as (y & <- & Hy). specialize (F y Hy). specialize (Gl y Hy).
  destruct Gx as (_ & _ & Cx). destruct Gl as (_ & _ & Cy).
  unfold ge_len, ge_n, cnt_ok in *. lia.
Qed.

(* ---------- 6. Jaccard basics ---------- *)

Lemma xorv_comm (a b : fpv) : xorv a b = xorv b a.
Proof.
  unfold xorv. revert b; induction a as [|x a IH]; intros [|y b]; cbn [map2]; try reflexivity.
  now rewrite (IH b), xorb_comm.
Qed.

Lemma orv_comm (a b : fpv) : orv a b = orv b a.
Proof.
  unfold orv. revert b; induction a as [|x a IH]; intros [|y b]; cbn [map2]; try reflexivity.
  now rewrite (IH b), orb_comm.
Qed.

Lemma card_xorv_self (a : fpv) : card (xorv a a) = 0.
Proof.
  unfold xorv. induction a as [|x a IH]; [reflexivity|]. cbn [map2].
  change (card (xorb x x :: map2 xorb a a)) with (b2z (xorb x x) + card (map2 xorb a a)).
  rewrite IH, xorb_nilpotent. reflexivity.
Qed.

Lemma orv_self (a : fpv) : orv a a = a.
Proof.
  unfold orv. induction a as [|x a IH]; [reflexivity|]. cbn [map2].
  now rewrite IH, orb_diag.
Qed.

Lemma jaccard_sym a b : jaccard_f a b = jaccard_f b a.
Proof. unfold jaccard_f. now rewrite (xorv_comm a b), (orv_comm a b). Qed.

Lemma jaccard_self a : Z.of_nat (length a) < 2 ^ 53 -> jaccard_f a a = 0%float.
Proof.
  intros H. unfold jaccard_f. cbv zeta. rewrite orv_self, card_xorv_self.
  destruct (Z.eqb_spec (card a) 0) as [E|NE]; [reflexivity|].
  pose proof (card_range a). apply zero_div. lia.
Qed.

(* every row of [sk_transform] has one distance per centroid, and the distance of a centroid
   to itself is 0 *)
Lemma sk_transform_shape st Q :
  length (sk_transform st Q) = length Q /\
  Forall (fun row => length row = length (centroids st)) (sk_transform st Q).
Proof.
  unfold sk_transform, sk_centers. rewrite map_length. split; [reflexivity|].
  apply Forall_forall. intros row Hr. apply in_map_iff in Hr. destruct Hr as (q & <- & _).
  now rewrite map_length.
Qed.

Print Assumptions assignments_unfold.
Print Assumptions assign_all_spec.
Print Assumptions assignments_spec.
Print Assumptions assignments_spec_strong.
Print Assumptions sk_labels_spec.
Print Assumptions assignments_same_cluster.
Print Assumptions assignments_refused.
Print Assumptions assignments_sound.
Print Assumptions assignments_refused_st.
Print Assumptions rank_of_sorted.
Print Assumptions clusters_sorted.
Print Assumptions jaccard_self.
Print Assumptions jaccard_sym.
Print Assumptions sk_transform_shape.
