(* PropsGlue.v — small lemmas relating the invariants to the API-level observations. *)
From BB Require Import Model.Birch Proofs.ListFacts Proofs.TreeDefs Proofs.TreeRel
     Proofs.TreeShape Proofs.TreeBlocks Proofs.TreeChain Proofs.TreeSums Proofs.TreeBal
     Proofs.BirchDefs Proofs.BirchInv Proofs.BirchRebuild.
From Coq Require Import Lia Permutation.
Open Scope Z_scope.

Lemma together_perm B B' i j : Permutation B B' -> together B i j -> together B' i j.
Proof.
  intros P (b & Hb & Hi & Hj). exists b. split; [|auto].
  eapply Permutation_in; eauto.
Qed.

Lemma together_clusters st i j : st_inv st ->
  (together (clusters st) i j <-> together (st_blocks st) i j).
Proof.
  intros H. pose proof (clusters_perm st H) as P. split; apply together_perm; auto.
  now apply Permutation_sym.
Qed.

(* what [st_inv] says, spelled out (C08) *)
Lemma st_inv_unfold st r : st_inv st -> root st = Some r ->
  let nf := nfeat st in
  shape nf r                                  (* caches = entries' centroids; rows of width nf;
                                                 inner nodes non-empty; capacities >= 1 *)
  /\ chain_ok r (sax st)                      (* leaf chain = leaves of the tree, once each *)
  /\ sums_ok nf r                             (* inner entries = exact totals of their subtree;
                                                 every entry in its minimal counter width *)
  /\ occ_root r                               (* every node holds 1..capacity entries *)
  /\ (exists d, depth_is d r)                 (* all leaves at the same depth *)
  /\ Forall cnt_ok (lsubs r)                  (* stored count = number of member labels *)
  /\ nfit st = tot_n (lsubs r).
Proof.
  intros (Hbf & H) E. rewrite E in H. destruct H as (Hnf & (A & B & C & D & F & G) & Hn & Hb).
  cbv zeta. exact (conj A (conj B (conj C (conj D (conj F (conj G Hn)))))).
Qed.

Lemma run_step_split fexp cfg0 ops o :
  run fexp cfg0 (ops ++ [o]) = fst (step fexp (run fexp cfg0 ops) o).
Proof. unfold run. rewrite fold_left_app. reflexivity. Qed.
