(* SimMax.v — re-export of the one float fact the tree lemmas need, without opening
   the real-number scopes of FloatFacts. *)
From BB Require Import Model.Sim.
From BB Require Proofs.FloatFacts.
From Coq Require Import ZArith List Lia.
Open Scope Z_scope.

Lemma sim_max_nf (nf : nat) :
  Z.of_nat nf < 2 ^ 52 ->
  forall a b : fpv, length a = nf -> length b = nf ->
    PrimFloat.ltb (sim a a) (sim a b) = false.
Proof.
  intros H a b Ha Hb. apply FloatFacts.sim_self_max; lia.
Qed.
