(* MonitorFacts.v — safety of the temp-file + rename protocol for the peak-memory file,
   monotonicity of the published values, and refutation of the old in-place protocol. *)
From BB Require Import Model.Base Model.Monitor.
From Coq Require Import Lia Sorted FloatAxioms.
Open Scope Z_scope.

(* ------------------------------------------------------------------ *)
(* 1. the invariant                                                    *)
(* ------------------------------------------------------------------ *)

Section Inv.
Variable P : float -> Prop.

(* the peak file is absent, or holds a complete value satisfying P *)
Definition peak_ok (s : fs) : Prop :=
  match peak s with
  | None => True
  | Some (CVal v) => P v
  | Some CEmpty => False
  end.

(* a writer program: a concatenation of complete updates with P-values *)
Inductive wlist : list wop -> Prop :=
| wl_nil : wlist []
| wl_cons v W : P v -> wlist W -> wlist (update_ops v ++ W).

(* the writer's position inside an update, with what the file system must satisfy there *)
Inductive pos : list wop -> fs -> Prop :=
| pos_idle W s : wlist W -> pos W s
| pos_opened v W s : P v -> wlist W ->
    pos (WWrite v :: WFlush :: WFsync :: WClose :: WReplace :: W) s
| pos_written v W s : P v -> wlist W -> wbuf s = Some v ->
    pos (WFlush :: WFsync :: WClose :: WReplace :: W) s
| pos_flushed v W s : P v -> wlist W -> tmp s = Some (CVal v) ->
    pos (WFsync :: WClose :: WReplace :: W) s
| pos_synced v W s : P v -> wlist W -> tmp s = Some (CVal v) ->
    pos (WClose :: WReplace :: W) s
| pos_closed v W s : P v -> wlist W -> tmp s = Some (CVal v) ->
    pos (WReplace :: W) s.

Definition inv (ws : list wop) (s : fs) : Prop := peak_ok s /\ pos ws s.

Lemma wlist_head_inv : forall o ws, wlist (o :: ws) ->
  exists v W, P v /\ wlist W /\ o = WOpen /\
              ws = WWrite v :: WFlush :: WFsync :: WClose :: WReplace :: W.
Proof.
  intros o ws H. remember (o :: ws) as l eqn:El.
  destruct H as [|v W Hv HW]; [discriminate|].
  simpl in El. inversion El; subst. exists v, W. auto.
Qed.

Lemma inv_step : forall o ws s, inv (o :: ws) s -> inv ws (wstep s o).
Proof.
  intros o ws s [Hp Hpos]. unfold inv, peak_ok in *.
  inversion Hpos as [W s' HW | v W s' Hv HW | v W s' Hv HW Hb | v W s' Hv HW Ht
                    | v W s' Hv HW Ht | v W s' Hv HW Ht]; subst.
  - destruct (wlist_head_inv _ _ HW) as (v & W & Hv & HW' & -> & ->).
    simpl. split; [exact Hp|]. now apply pos_opened.
  - simpl. split; [exact Hp|]. now apply pos_written with v.
  - simpl. rewrite Hb. simpl. split; [exact Hp|]. now apply pos_flushed with v.
  - simpl. split; [exact Hp|]. now apply pos_synced with v.
  - simpl. split; [exact Hp|]. now apply pos_closed with v.
  - simpl. rewrite Ht. split; [exact Hv|]. now apply pos_idle.
Qed.

Lemma inv_peak : forall ws s, inv ws s -> peak_ok s.
Proof. intros ws s [H _]; exact H. Qed.

Lemma inv_nil_any : forall s s', inv [] s -> peak_ok s' -> inv [] s'.
Proof. intros s s' _ H. split; [exact H|]. apply pos_idle. constructor. Qed.

(* what the reader may hold *)
Definition rok (r : rstate) : Prop :=
  match r with
  | RStart => True
  | ROpened (CVal v) => P v
  | ROpened CEmpty => False
  | RDone RError => False
  | RDone (RSome v) => P v
  | RDone RNone => True
  end.

Lemma rok_step : forall s r, peak_ok s -> rok r -> rok (rstep s r).
Proof.
  intros s r Hp Hr. unfold peak_ok in Hp. destruct r as [|c|x]; simpl.
  - destruct (peak s) as [[|v]|]; simpl; auto.
  - destruct c; simpl in *; auto.
  - exact Hr.
Qed.

Lemma exec_safe : forall sched ws s r, inv ws s -> rok r ->
  peak_ok (fst (exec sched ws s r)) /\ rok (snd (exec sched ws s r)).
Proof.
  induction sched as [|b tl IH]; intros ws s r Hi Hr; simpl.
  - split; [eapply inv_peak; eauto | exact Hr].
  - destruct b.
    + destruct ws as [|o ws'].
      * apply IH; auto.
      * apply IH; auto. now apply inv_step.
    + apply IH; auto. apply rok_step; auto. eapply inv_peak; eauto.
Qed.

(* the writer's states: peak_ok after every operation *)
Lemma after_each_inv : forall ws s, inv ws s -> Forall (fun r => r <> RError) (after_each ws s).
Proof.
  induction ws as [|o tl IH]; intros s Hi; simpl.
  - constructor.
  - pose proof (inv_step _ _ _ Hi) as Hi'. constructor.
    + pose proof (inv_peak _ _ Hi') as Hp. unfold peak_ok in Hp.
      simpl. destruct (peak (wstep s o)) as [[|v]|]; simpl; try discriminate. contradiction.
    + apply IH; exact Hi'.
Qed.

End Inv.

Lemma wlist_writer : forall (P : float -> Prop) samples mx,
  (forall v, In v (running_maxes samples mx) -> P v) -> wlist P (writer samples mx).
Proof.
  intros P samples. induction samples as [|x tl IH]; intros mx H; simpl in *.
  - constructor.
  - destruct (PrimFloat.ltb mx x).
    + apply wl_cons.
      * apply H. now left.
      * apply IH. intros v Hv. apply H. now right.
    + apply IH; exact H.
Qed.

Lemma inv_writer0 : forall samples mx0,
  inv (fun v => In v (running_maxes samples mx0)) (writer samples mx0) fs0.
Proof.
  intros. split.
  - exact I.
  - apply pos_idle. apply wlist_writer. auto.
Qed.

Theorem reader_safe : forall samples mx0 sched,
  let '(s, r) := exec sched (writer samples mx0) fs0 RStart in
  match r with
  | RDone RError => False
  | RDone (RSome v) => In v (running_maxes samples mx0)
  | _ => True
  end.
Proof.
  intros samples mx0 sched.
  pose proof (exec_safe (fun v => In v (running_maxes samples mx0)) sched
                (writer samples mx0) fs0 RStart (inv_writer0 samples mx0) I) as [_ Hr].
  destruct (exec sched (writer samples mx0) fs0 RStart) as [s r]. simpl in Hr.
  destruct r as [|c|[|v|]]; simpl in Hr; auto.
Qed.

(* a little more than asked: the reader never even *holds* an empty file *)
Theorem reader_never_opens_empty : forall samples mx0 sched,
  snd (exec sched (writer samples mx0) fs0 RStart) <> ROpened CEmpty.
Proof.
  intros samples mx0 sched.
  pose proof (exec_safe (fun v => In v (running_maxes samples mx0)) sched
                (writer samples mx0) fs0 RStart (inv_writer0 samples mx0) I) as [_ Hr].
  intros E. rewrite E in Hr. exact Hr.
Qed.

(* ------------------------------------------------------------------ *)
(* 4. a reader running to completion after any writer operation        *)
(* ------------------------------------------------------------------ *)

Theorem after_each_ok : forall samples mx0,
  Forall (fun r => r <> RError) (after_each (writer samples mx0) fs0).
Proof.
  intros. eapply after_each_inv. apply inv_writer0.
Qed.

(* ------------------------------------------------------------------ *)
(* 2. the published values increase                                    *)
(* ------------------------------------------------------------------ *)

Lemma SFltb_trans : forall x y z, SFltb x y = true -> SFltb y z = true -> SFltb x z = true.
Proof.
  unfold SFltb.
  intros x y z.
  destruct x as [sx|sx| |sx mx ex], y as [sy|sy| |sy my ey], z as [sz|sz| |sz mz ez];
    simpl;
    try destruct sx; try destruct sy; try destruct sz; simpl;
    try discriminate; try reflexivity; intros H1 H2.
  all: destruct (Z.compare_spec ex ey) as [E1|E1|E1];
    destruct (Z.compare_spec ey ez) as [E2|E2|E2]; try discriminate; subst.
  all: match goal with |- context [Z.compare ?a ?b] => destruct (Z.compare_spec a b) end;
    try lia; try reflexivity.
  all: change (Pos.compare_cont Eq) with Pos.compare in *.
  all: destruct (Pos.compare_spec mx my); try discriminate;
    destruct (Pos.compare_spec my mz); try discriminate;
    destruct (Pos.compare_spec mx mz); try reflexivity; lia.
Qed.

Lemma ltb_trans : forall a b c : float,
  PrimFloat.ltb a b = true -> PrimFloat.ltb b c = true -> PrimFloat.ltb a c = true.
Proof.
  intros a b c. rewrite !ltb_spec. apply SFltb_trans.
Qed.

Lemma running_maxes_above : forall samples mx,
  Forall (fun b => PrimFloat.ltb mx b = true) (running_maxes samples mx).
Proof.
  induction samples as [|x tl IH]; intros mx; simpl.
  - constructor.
  - destruct (PrimFloat.ltb mx x) eqn:E.
    + constructor; [exact E|].
      eapply Forall_impl; [|apply IH]. intros b Hb. simpl in Hb. eapply ltb_trans; eauto.
    + apply IH.
Qed.

Theorem published_increasing : forall samples mx0,
  StronglySorted (fun a b => PrimFloat.ltb a b = true) (running_maxes samples mx0).
Proof.
  induction samples as [|x tl IH]; intros mx; simpl.
  - constructor.
  - destruct (PrimFloat.ltb mx x).
    + constructor; [apply IH | apply running_maxes_above].
    + apply IH.
Qed.

(* the first published value exceeds the initial maximum as well *)
Theorem published_above_initial : forall samples mx0,
  StronglySorted (fun a b => PrimFloat.ltb a b = true) (mx0 :: running_maxes samples mx0).
Proof.
  intros. constructor; [apply published_increasing | apply running_maxes_above].
Qed.

(* ------------------------------------------------------------------ *)
(* 3. the final contents of the peak file                              *)
(* ------------------------------------------------------------------ *)

Lemma exec_all_true_app : forall ws1 ws2 s r,
  exec (repeat true (length (ws1 ++ ws2))) (ws1 ++ ws2) s r =
  exec (repeat true (length ws2)) ws2 (fst (exec (repeat true (length ws1)) ws1 s r)) r.
Proof.
  induction ws1 as [|o tl IH]; intros ws2 s r; simpl.
  - reflexivity.
  - apply IH.
Qed.

Lemma exec_all_true_r : forall ws s r,
  snd (exec (repeat true (length ws)) ws s r) = r.
Proof. induction ws as [|o tl IH]; intros; simpl; auto. Qed.

Lemma writer_run : forall samples mx s,
  peak (fst (exec (repeat true (length (writer samples mx))) (writer samples mx) s RStart)) =
  match running_maxes samples mx with
  | [] => peak s
  | _ => Some (CVal (last (running_maxes samples mx) mx))
  end.
Proof.
  induction samples as [|x tl IH]; intros mx s.
  - reflexivity.
  - cbn [writer running_maxes]. destruct (PrimFloat.ltb mx x).
    + rewrite exec_all_true_app. rewrite IH.
      destruct (running_maxes tl x) as [|y l] eqn:E.
      * reflexivity.
      * change (last (x :: y :: l) mx) with (last (y :: l) mx).
        f_equal. f_equal. clear. revert y. induction l as [|z l IHl]; intros y.
        -- reflexivity.
        -- change (last (y :: z :: l) x) with (last (z :: l) x).
           change (last (y :: z :: l) mx) with (last (z :: l) mx). apply IHl.
    + apply IH.
Qed.

Theorem writer_result : forall samples mx0,
  running_maxes samples mx0 <> [] ->
  peak (fst (exec (repeat true (length (writer samples mx0))) (writer samples mx0) fs0 RStart)) =
  Some (CVal (last (running_maxes samples mx0) mx0)).
Proof.
  intros samples mx0 H. rewrite writer_run.
  destruct (running_maxes samples mx0); [contradiction|reflexivity].
Qed.

(* ------------------------------------------------------------------ *)
(* 5. the old in-place protocol is refuted                             *)
(* ------------------------------------------------------------------ *)

(* first update completes (6 ops); reader sees the file; second update's open truncates it;
   the reader opens the (now empty) file and fails to parse it. *)
Theorem inplace_refuted : exists samples mx0 sched,
  snd (exec_inplace sched (writer samples mx0) fs0 RStart) = RDone RError.
Proof.
  exists [1%float; 2%float], 0%float,
    [true; true; true; true; true; true; true; false; false].
  vm_compute. reflexivity.
Qed.

(* the same schedule is harmless under the new protocol *)
Example inplace_schedule_new_protocol :
  snd (exec [true; true; true; true; true; true; true; false; false]
         (writer [1%float; 2%float] 0%float) fs0 RStart) = RDone (RSome 1%float).
Proof. vm_compute. reflexivity. Qed.

Print Assumptions reader_safe.
Print Assumptions published_increasing.
Print Assumptions writer_result.
Print Assumptions after_each_ok.
Print Assumptions inplace_refuted.
