(* GenTieSim.v — the generated definitions (Gen/GSim.v, regenerated from /repo on every run) are the
   hand model.  Every theorem about the model is thereby re-checked against what the source
   says now. *)
From BB Require Import Model.Sim Gen.NumpySem Gen.GSim.
From Coq Require Import Lia.
Open Scope Z_scope.

Lemma Zs2f_nonneg z : 0 <= z -> Zs2f z = Z2f z.
Proof. intros H. unfold Zs2f. destruct (z <? 0) eqn:E; [lia|reflexivity]. Qed.

Lemma tie_centroid_vals ls n : GSim.centroid_from_sum ls n false = centroid_vals ls n.
Proof.
  unfold GSim.centroid_from_sum, centroid_vals.
  destruct (n <=? 1) eqn:E; [reflexivity|].
  unfold np_view_u8, np_ge_arr_f. rewrite map_map.
  rewrite Zs2f_nonneg by lia. reflexivity.
Qed.

Lemma tie_centroid_packed ls n : GSim.centroid_from_sum ls n true = centroid_packed ls n.
Proof.
  pose proof (tie_centroid_vals ls n) as H.
  unfold GSim.centroid_from_sum in *. unfold centroid_packed, centroid_fpv. rewrite <- H.
  destruct (n <=? 1); reflexivity.
Qed.

Lemma tie_isim ls n : GSim.jt_isim_from_sum ls n = isim_f ls n.
Proof. reflexivity. Qed.

Lemma tie_radius_compl ls n : GSim.jt_isim_radius_compl_from_sum ls n = radius_compl_f ls n.
Proof.
  unfold GSim.jt_isim_radius_compl_from_sum, radius_compl_f.
  rewrite tie_centroid_vals. reflexivity.
Qed.

Lemma tie_radius ls n :
  GSim.jt_isim_radius_from_sum ls n = (1 - radius_compl_f ls n)%float.
Proof. unfold GSim.jt_isim_radius_from_sum. rewrite tie_radius_compl. reflexivity. Qed.

Lemma tie_diameter ls n :
  GSim.jt_isim_diameter_from_sum ls n = (1 - isim_f ls n)%float.
Proof. reflexivity. Qed.

