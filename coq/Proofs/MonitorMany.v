(* MonitorMany.v — C20 with ANY number of readers of the finer kind (file.exists() and
   open(file) are separate steps), started at arbitrary times and interleaved arbitrarily with
   the writer and with each other.  A schedule is a list of agent indices: 0 = the writer
   performs its next file operation, k+1 = reader k takes its next step.  An index whose agent
   has finished (writer program exhausted, reader in R3Done) or does not exist is a no-op.
   Readers only read; only the writer changes the file system.

   - many_readers_safe      : no reader ever ends in an error, every value read is a running max
   - many_readers_monotone  : a reader that starts after another one has finished with a value
                              does not read a smaller value ...
   - many_readers_never_disappears : ... and does not find the file missing
   - execN_one_reader       : with one reader, execN is exec3 of Model/Monitor.v
   - Demo                   : three readers, three different maxima; and overlapping readers are
                              NOT ordered (the hypothesis "i finished before j started" is needed) *)
From BB Require Import Model.Base Model.Monitor Proofs.MonitorFacts Proofs.MonitorMono
  Proofs.MonitorFine.
From Coq Require Import Lia Sorted List Arith.
Import ListNotations.
Open Scope Z_scope.

(* ------------------------------------------------------------------ *)
(* 1. the model: N finer readers                                       *)
(* ------------------------------------------------------------------ *)

(* reader k of the list takes one step; out of range = nothing happens *)
Fixpoint step_nth (s : fs) (k : nat) (rs : list rstate3) {struct rs} : list rstate3 :=
  match rs with
  | [] => []
  | r :: tl => match k with
               | O => rstep3 s r :: tl
               | S k' => r :: step_nth s k' tl
               end
  end.

Fixpoint execN (sched : list nat) (ws : list wop) (s : fs) (rs : list rstate3)
  : fs * list rstate3 :=
  match sched with
  | [] => (s, rs)
  | O :: tl => match ws with
               | o :: ws' => execN tl ws' (wstep s o) rs
               | [] => execN tl [] s rs
               end
  | S k :: tl => execN tl ws s (step_nth s k rs)
  end.

(* the writer operations still to do after a schedule *)
Fixpoint wrest (sched : list nat) (ws : list wop) : list wop :=
  match sched with
  | [] => ws
  | O :: tl => wrest tl (List.tl ws)
  | S _ :: tl => wrest tl ws
  end.

(* ------------------------------------------------------------------ *)
(* 2. structural facts                                                 *)
(* ------------------------------------------------------------------ *)

Lemma step_nth_length : forall s k rs, length (step_nth s k rs) = length rs.
Proof.
  intros s k rs. revert k. induction rs as [|r tl IH]; intros k; simpl; [reflexivity|].
  destruct k; simpl; [reflexivity|]. now rewrite IH.
Qed.

Lemma nth_error_step_nth : forall s k rs j,
  nth_error (step_nth s k rs) j =
  if Nat.eqb k j then option_map (rstep3 s) (nth_error rs j) else nth_error rs j.
Proof.
  intros s k rs. revert k. induction rs as [|r tl IH]; intros k j; simpl.
  - destruct (Nat.eqb k j); destruct j; reflexivity.
  - destruct k as [|k], j as [|j]; simpl; try reflexivity. apply IH.
Qed.

Lemma Forall_step_nth : forall (Q : rstate3 -> Prop) s k rs,
  (forall r, Q r -> Q (rstep3 s r)) -> Forall Q rs -> Forall Q (step_nth s k rs).
Proof.
  intros Q s k rs Hq. revert k. induction rs as [|r tl IH]; intros k H; simpl.
  - constructor.
  - inversion H; subst. destruct k; constructor; auto.
Qed.

Lemma execN_length : forall sched ws s rs, length (snd (execN sched ws s rs)) = length rs.
Proof.
  induction sched as [|[|k] tl IH]; intros ws s rs; simpl.
  - reflexivity.
  - destruct ws; apply IH.
  - rewrite IH. apply step_nth_length.
Qed.

Lemma execN_app : forall s1 s2 ws s rs,
  execN (s1 ++ s2) ws s rs =
  execN s2 (wrest s1 ws) (fst (execN s1 ws s rs)) (snd (execN s1 ws s rs)).
Proof.
  induction s1 as [|[|k] tl IH]; intros s2 ws s rs; simpl.
  - reflexivity.
  - destruct ws as [|o ws']; apply IH.
  - apply IH.
Qed.

(* a reader that is not scheduled does not move *)
Lemma execN_untouched : forall sched ws s rs j, ~ In (S j) sched ->
  nth_error (snd (execN sched ws s rs)) j = nth_error rs j.
Proof.
  induction sched as [|[|k] tl IH]; intros ws s rs j Hn; simpl.
  - reflexivity.
  - destruct ws; apply IH; intros H; apply Hn; now right.
  - rewrite IH by (intros H; apply Hn; now right).
    rewrite nth_error_step_nth. destruct (Nat.eqb k j) eqn:E; [|reflexivity].
    apply Nat.eqb_eq in E. subst. exfalso. apply Hn. now left.
Qed.

(* a finished reader stays as it is *)
Lemma execN_done_stays : forall sched ws s rs j x, nth_error rs j = Some (R3Done x) ->
  nth_error (snd (execN sched ws s rs)) j = Some (R3Done x).
Proof.
  induction sched as [|[|k] tl IH]; intros ws s rs j x H; simpl.
  - exact H.
  - destruct ws; apply IH; exact H.
  - apply IH. rewrite nth_error_step_nth. destruct (Nat.eqb k j); [|exact H].
    rewrite H. reflexivity.
Qed.

Lemma nth_error_repeat_start : forall n j r,
  nth_error (repeat R3Start n) j = Some r -> r = R3Start.
Proof.
  intros n j r H. apply nth_error_In in H. now apply repeat_spec in H.
Qed.

(* ------------------------------------------------------------------ *)
(* 3. safety: no error, only running maxima                            *)
(* ------------------------------------------------------------------ *)

Section Safe.
Variable P : float -> Prop.

Lemma execN_safe : forall sched ws s rs, inv P ws s -> Forall (rok3 P s) rs ->
  inv P (wrest sched ws) (fst (execN sched ws s rs)) /\
  Forall (rok3 P (fst (execN sched ws s rs))) (snd (execN sched ws s rs)).
Proof.
  induction sched as [|[|k] tl IH]; intros ws s rs Hi Hr; simpl.
  - split; assumption.
  - destruct ws as [|o ws'].
    + apply IH; assumption.
    + apply IH; [now apply inv_step|].
      eapply Forall_impl; [|exact Hr]. intros r. eapply rok3_wstep; eauto.
  - apply IH; [exact Hi|]. apply Forall_step_nth; [|exact Hr].
    intros r. apply rok3_rstep. eapply inv_peak; eauto.
Qed.
End Safe.

Definition rsafe (samples : list float) (mx0 : float) (r : rstate3) : Prop :=
  match r with
  | R3Done RError => False
  | R3Done (RSome v) => In v (running_maxes samples mx0)
  | _ => True
  end.

Theorem many_readers_safe : forall samples mx0 n sched,
  Forall (rsafe samples mx0)
    (snd (execN sched (writer samples mx0) fs0 (repeat R3Start n))).
Proof.
  intros samples mx0 n sched.
  destruct (execN_safe (fun v => In v (running_maxes samples mx0)) sched
              (writer samples mx0) fs0 (repeat R3Start n) (inv_writer0 samples mx0))
    as [_ H].
  { apply Forall_forall. intros r Hr. apply repeat_spec in Hr. subst. exact I. }
  eapply Forall_impl; [|exact H]. intros r Hr. unfold rsafe.
  destruct r as [| |c|[|v|]]; simpl in Hr; auto.
Qed.

(* the same, reader by reader *)
Corollary many_readers_safe_nth : forall samples mx0 n sched k r,
  nth_error (snd (execN sched (writer samples mx0) fs0 (repeat R3Start n))) k = Some r ->
  r <> R3Done RError /\
  (forall v, r = R3Done (RSome v) -> In v (running_maxes samples mx0)).
Proof.
  intros samples mx0 n sched k r H. apply nth_error_In in H.
  pose proof (many_readers_safe samples mx0 n sched) as F.
  rewrite Forall_forall in F. specialize (F r H). split.
  - intros ->. exact F.
  - intros v ->. exact F.
Qed.

(* no reader ever holds an empty inode, and open() after exists() finds the file *)
Theorem many_readers_exists_then_opens : forall samples mx0 n sched k r,
  nth_error (snd (execN sched (writer samples mx0) fs0 (repeat R3Start n))) k = Some r ->
  r <> R3Opened CEmpty /\
  (r = R3Exists ->
   peak (fst (execN sched (writer samples mx0) fs0 (repeat R3Start n))) <> None).
Proof.
  intros samples mx0 n sched k r H. apply nth_error_In in H.
  destruct (execN_safe (fun v => In v (running_maxes samples mx0)) sched
              (writer samples mx0) fs0 (repeat R3Start n) (inv_writer0 samples mx0))
    as [_ F].
  { apply Forall_forall. intros r' Hr. apply repeat_spec in Hr. subst. exact I. }
  rewrite Forall_forall in F. specialize (F r H). split; intros ->; exact F.
Qed.

Theorem many_readers_count : forall sched ws s n,
  length (snd (execN sched ws s (repeat R3Start n))) = n.
Proof. intros. rewrite execN_length. apply repeat_length. Qed.

(* ------------------------------------------------------------------ *)
(* 4. the ordering invariant                                           *)
(* ------------------------------------------------------------------ *)

(* the value a reader holds (inode content seen at open time) or has returned *)
Definition rval3 (r : rstate3) : option float :=
  match r with
  | R3Opened (CVal v) => Some v
  | R3Done (RSome v) => Some v
  | _ => None
  end.

(* whatever a reader holds is not above the current content of the peak file *)
Definition below3 (pk : option cont) (r : rstate3) : Prop :=
  forall v, rval3 r = Some v -> exists p, pk = Some (CVal p) /\ fle v p.

Lemma below3_next : forall pk pk' r, pk_next pk pk' -> below3 pk r -> below3 pk' r.
Proof.
  intros pk pk' r [->|(w & -> & Hw)] H; [exact H|].
  intros v Hv. destruct (H v Hv) as (p & -> & Hp).
  exists w. split; [reflexivity|]. eapply fle_lt; eauto.
Qed.

Lemma below3_step : forall s r, below3 (peak s) r -> below3 (peak s) (rstep3 s r).
Proof.
  intros s r H v Hv. destruct r as [| |c|x]; simpl in Hv.
  - destruct (peak s); simpl in Hv; discriminate.
  - destruct (peak s) as [[|p]|]; simpl in Hv; try discriminate.
    inversion Hv; subst. exists v. split; [reflexivity|apply fle_refl].
  - destruct c as [|w]; simpl in Hv; try discriminate. apply H. exact Hv.
  - apply H. exact Hv.
Qed.

Definition invN (ws : list wop) (s : fs) (rs : list rstate3) : Prop :=
  exists R, pos2 ws s R /\ pk_sorted (peak s) R /\ Forall (below3 (peak s)) rs.

Lemma execN_invN : forall sched ws s rs, invN ws s rs ->
  invN (wrest sched ws) (fst (execN sched ws s rs)) (snd (execN sched ws s rs)).
Proof.
  induction sched as [|[|k] tl IH]; intros ws s rs (R & Hpos & Hs & Hr); simpl.
  - exists R. auto.
  - destruct ws as [|o ws'].
    + apply IH. exists R. auto.
    + destruct (wstep_inv _ _ _ _ Hpos Hs) as (R' & Hpos' & Hs' & Hn).
      apply IH. exists R'. split; [exact Hpos'|]. split; [exact Hs'|].
      eapply Forall_impl; [|exact Hr]. intros r. now apply below3_next.
  - apply IH. exists R. split; [exact Hpos|]. split; [exact Hs|].
    apply Forall_step_nth; [|exact Hr]. intros r. apply below3_step.
Qed.

Lemma invN_init : forall samples mx0 n, invN (writer samples mx0) fs0 (repeat R3Start n).
Proof.
  intros samples mx0 n. exists (running_maxes samples mx0). split; [|split].
  - left. apply writer_wprog.
  - simpl. apply published_increasing.
  - apply Forall_forall. intros r Hr. apply repeat_spec in Hr. subst. intros v H. discriminate.
Qed.

(* every value held or returned by any reader is at most the present content of the file *)
Theorem many_readers_below_peak : forall samples mx0 n sched k r v,
  nth_error (snd (execN sched (writer samples mx0) fs0 (repeat R3Start n))) k = Some r ->
  rval3 r = Some v ->
  exists p, peak (fst (execN sched (writer samples mx0) fs0 (repeat R3Start n))) = Some (CVal p) /\
            (v = p \/ PrimFloat.ltb v p = true).
Proof.
  intros samples mx0 n sched k r v H Hv.
  destruct (execN_invN sched _ _ _ (invN_init samples mx0 n)) as (R & _ & _ & F).
  rewrite Forall_forall in F. apply nth_error_In in H. exact (F r H v Hv).
Qed.

(* --- second phase: the file holds at least L; a reader that has not started, or that holds
   at least L, can only end with a value that is at least L --- *)

Definition peak_lb (L : float) (pk : option cont) : Prop :=
  exists p, pk = Some (CVal p) /\ fle L p.

Definition lb_ok (L : float) (r : rstate3) : Prop :=
  match r with
  | R3Start => True
  | R3Exists => True
  | R3Opened (CVal v) => fle L v
  | R3Opened CEmpty => False
  | R3Done (RSome v) => fle L v
  | R3Done RNone => False
  | R3Done RError => False
  end.

Lemma peak_lb_next : forall L pk pk', pk_next pk pk' -> peak_lb L pk -> peak_lb L pk'.
Proof.
  intros L pk pk' [->|(w & -> & Hw)] H; [exact H|].
  destruct H as (p & -> & Hp). exists w. split; [reflexivity|]. eapply fle_lt; eauto.
Qed.

Lemma lb_ok_step : forall L s r, peak_lb L (peak s) -> lb_ok L r -> lb_ok L (rstep3 s r).
Proof.
  intros L s r (p & Ep & Hp) H. destruct r as [| |c|x]; simpl.
  - rewrite Ep. exact I.
  - rewrite Ep. exact Hp.
  - destruct c; simpl in *; auto.
  - exact H.
Qed.

Lemma execN_lb : forall sched ws s rs R j L,
  pos2 ws s R -> pk_sorted (peak s) R -> peak_lb L (peak s) ->
  (forall r, nth_error rs j = Some r -> lb_ok L r) ->
  forall r, nth_error (snd (execN sched ws s rs)) j = Some r -> lb_ok L r.
Proof.
  induction sched as [|[|k] tl IH]; intros ws s rs R j L Hpos Hs Hlb Hj; simpl.
  - exact Hj.
  - destruct ws as [|o ws'].
    + eapply IH; eauto.
    + destruct (wstep_inv _ _ _ _ Hpos Hs) as (R' & Hpos' & Hs' & Hn).
      eapply IH; eauto. eapply peak_lb_next; eauto.
  - eapply IH; eauto. intros r. rewrite nth_error_step_nth.
    destruct (Nat.eqb k j); [|apply Hj].
    destruct (nth_error rs j) as [r0|]; simpl; [|discriminate].
    intros E. inversion E; subst. apply lb_ok_step; auto.
Qed.

(* the key statement: reader i has finished with vi after s1, reader j takes no step in s1;
   then whatever state reader j is in after s1 ++ s2, it is "at least vi" *)
Lemma many_readers_after : forall samples mx0 n s1 s2 i j vi,
  ~ In (S j) s1 ->
  nth_error (snd (execN s1 (writer samples mx0) fs0 (repeat R3Start n))) i
    = Some (R3Done (RSome vi)) ->
  forall r,
  nth_error (snd (execN (s1 ++ s2) (writer samples mx0) fs0 (repeat R3Start n))) j = Some r ->
  lb_ok vi r.
Proof.
  intros samples mx0 n s1 s2 i j vi Hnj Hi r.
  rewrite execN_app.
  destruct (execN_invN s1 _ _ _ (invN_init samples mx0 n)) as (R & Hpos & Hs & F).
  eapply execN_lb; eauto.
  - rewrite Forall_forall in F. apply (F _ (nth_error_In _ _ Hi) vi eq_refl).
  - intros r0. rewrite execN_untouched by exact Hnj. intros E.
    apply nth_error_repeat_start in E. subst. exact I.
Qed.

(* ------------------------------------------------------------------ *)
(* 5. the theorems                                                     *)
(* ------------------------------------------------------------------ *)

(* reader i finished with vi during s1, reader j took its first step after s1 (it does not
   occur in s1), and finished with vj: then vi <= vj *)
Theorem many_readers_monotone : forall samples mx0 n s1 s2 i j vi vj,
  ~ In (S j) s1 ->
  nth_error (snd (execN s1 (writer samples mx0) fs0 (repeat R3Start n))) i
    = Some (R3Done (RSome vi)) ->
  nth_error (snd (execN (s1 ++ s2) (writer samples mx0) fs0 (repeat R3Start n))) j
    = Some (R3Done (RSome vj)) ->
  vi = vj \/ PrimFloat.ltb vi vj = true.
Proof.
  intros samples mx0 n s1 s2 i j vi vj Hnj Hi Hj.
  exact (many_readers_after samples mx0 n s1 s2 i j vi Hnj Hi _ Hj).
Qed.

(* published never disappears: such a reader j does not find the file missing *)
Theorem many_readers_never_disappears : forall samples mx0 n s1 s2 i j vi,
  ~ In (S j) s1 ->
  nth_error (snd (execN s1 (writer samples mx0) fs0 (repeat R3Start n))) i
    = Some (R3Done (RSome vi)) ->
  nth_error (snd (execN (s1 ++ s2) (writer samples mx0) fs0 (repeat R3Start n))) j
    <> Some (R3Done RNone).
Proof.
  intros samples mx0 n s1 s2 i j vi Hnj Hi Hj.
  exact (many_readers_after samples mx0 n s1 s2 i j vi Hnj Hi _ Hj).
Qed.

(* together: if reader j has finished at all, it has returned a value, and that is >= vi *)
Corollary many_readers_later_sees_value : forall samples mx0 n s1 s2 i j vi x,
  ~ In (S j) s1 ->
  nth_error (snd (execN s1 (writer samples mx0) fs0 (repeat R3Start n))) i
    = Some (R3Done (RSome vi)) ->
  nth_error (snd (execN (s1 ++ s2) (writer samples mx0) fs0 (repeat R3Start n))) j
    = Some (R3Done x) ->
  exists vj, x = RSome vj /\ (vi = vj \/ PrimFloat.ltb vi vj = true).
Proof.
  intros samples mx0 n s1 s2 i j vi x Hnj Hi Hj.
  pose proof (many_readers_after samples mx0 n s1 s2 i j vi Hnj Hi _ Hj) as H.
  destruct x as [|vj|]; simpl in H; try contradiction. exists vj. auto.
Qed.

(* reader i keeps its result in the longer run, so both results can be read off one run *)
Corollary many_readers_monotone_one_run : forall samples mx0 n s1 s2 i j vi vj st rs,
  ~ In (S j) s1 ->
  nth_error (snd (execN s1 (writer samples mx0) fs0 (repeat R3Start n))) i
    = Some (R3Done (RSome vi)) ->
  execN (s1 ++ s2) (writer samples mx0) fs0 (repeat R3Start n) = (st, rs) ->
  nth_error rs i = Some (R3Done (RSome vi)) /\
  (nth_error rs j = Some (R3Done (RSome vj)) -> vi = vj \/ PrimFloat.ltb vi vj = true) /\
  nth_error rs j <> Some (R3Done RNone) /\
  nth_error rs j <> Some (R3Done RError).
Proof.
  intros samples mx0 n s1 s2 i j vi vj st rs Hnj Hi E.
  assert (Ers : rs = snd (execN (s1 ++ s2) (writer samples mx0) fs0 (repeat R3Start n)))
    by (rewrite E; reflexivity).
  subst rs. split; [|split; [|split]].
  - rewrite execN_app. apply execN_done_stays. exact Hi.
  - intros Hj. eapply many_readers_monotone; eauto.
  - eapply many_readers_never_disappears; eauto.
  - intros Hj. exact (many_readers_after samples mx0 n s1 s2 i j vi Hnj Hi _ Hj).
Qed.

(* ------------------------------------------------------------------ *)
(* 6. one reader: execN is exec3                                       *)
(* ------------------------------------------------------------------ *)

Definition idx_of_bool (b : bool) : nat := if b then 0%nat else 1%nat.

Theorem execN_one_reader : forall sched ws s r,
  execN (map idx_of_bool sched) ws s [r] =
  (fst (exec3 sched ws s r), [snd (exec3 sched ws s r)]).
Proof.
  induction sched as [|b tl IH]; intros ws s r; simpl.
  - reflexivity.
  - destruct b; simpl.
    + destruct ws as [|o ws']; apply IH.
    + apply IH.
Qed.

(* conversely, an index schedule over one reader is a boolean schedule: indices >= 2 name no
   reader and are dropped *)
Fixpoint bools_of_idx (sched : list nat) : list bool :=
  match sched with
  | [] => []
  | O :: tl => true :: bools_of_idx tl
  | S O :: tl => false :: bools_of_idx tl
  | _ :: tl => bools_of_idx tl
  end.

Theorem execN_one_reader_conv : forall sched ws s r,
  execN sched ws s [r] =
  (fst (exec3 (bools_of_idx sched) ws s r), [snd (exec3 (bools_of_idx sched) ws s r)]).
Proof.
  induction sched as [|[|[|k]] tl IH]; intros ws s r; simpl.
  - reflexivity.
  - destruct ws as [|o ws']; apply IH.
  - apply IH.
  - apply IH.
Qed.

Corollary execN_one_reader_start : forall samples mx0 sched,
  execN (map idx_of_bool sched) (writer samples mx0) fs0 (repeat R3Start 1) =
  (fst (exec3 sched (writer samples mx0) fs0 R3Start),
   [snd (exec3 sched (writer samples mx0) fs0 R3Start)]).
Proof. intros. apply execN_one_reader. Qed.

(* ------------------------------------------------------------------ *)
(* 7. examples                                                         *)
(* ------------------------------------------------------------------ *)

Module Demo.

Definition samples : list float := [1%float; 2%float; 3%float].
Definition upd : list nat := [0;0;0;0;0;0]%nat.       (* one complete update by the writer *)

(* three readers, three different running maxima, in non-decreasing order.  Reader 0 does
   exists() and open() while the file holds 1.0; the writer publishes 2.0; reader 1 does
   exists(), then the writer starts the third update and gets as far as the rename, reader 1
   opens (still 2.0), the rename happens, reader 0 finally reads its old inode (1.0), reader 1
   reads 2.0, reader 2 runs and reads 3.0. *)
Definition sched3 : list nat :=
  (upd ++ [1;1] ++ upd ++ [2] ++ [0;0;0;0;0] ++ [2] ++ [0] ++ [1] ++ [2] ++ [3;3;3])%nat.

Example three_readers_three_values :
  snd (execN sched3 (writer samples 0%float) fs0 (repeat R3Start 3)) =
    [R3Done (RSome 1%float); R3Done (RSome 2%float); R3Done (RSome 3%float)] /\
  running_maxes samples 0%float = [1%float; 2%float; 3%float] /\
  PrimFloat.ltb 1%float 2%float = true /\ PrimFloat.ltb 2%float 3%float = true.
Proof. vm_compute. repeat split. Qed.

(* the hypotheses of many_readers_monotone hold for readers 1 and 2 of that run: sched3 splits
   into s1 (reader 2 does not occur, reader 1 is done with 2.0) and s2 *)
Definition s1 : list nat :=
  (upd ++ [1;1] ++ upd ++ [2] ++ [0;0;0;0;0] ++ [2] ++ [0] ++ [1] ++ [2])%nat.
Definition s2 : list nat := [3;3;3]%nat.

Example sched3_split :
  sched3 = s1 ++ s2 /\ ~ In 3%nat s1 /\
  nth_error (snd (execN s1 (writer samples 0%float) fs0 (repeat R3Start 3))) 1
    = Some (R3Done (RSome 2%float)).
Proof.
  split; [reflexivity|]. split; [|vm_compute; reflexivity].
  vm_compute. intros H. repeat (destruct H as [H|H]; [discriminate|]). exact H.
Qed.

(* a late reader started when the file does not exist yet gets None; the index 7 names no
   reader, the surplus 0s after the writer's program no operation *)
Example noops_and_none :
  snd (execN ([3; 7] ++ upd ++ [3] ++ upd ++ upd ++ [0;0;0; 1;1;1; 7; 2;2;2])%nat
         (writer samples 0%float) fs0 (repeat R3Start 3)) =
    [R3Done (RSome 3%float); R3Done (RSome 3%float); R3Done RNone].
Proof. vm_compute. reflexivity. Qed.

(* OVERLAPPING readers are not ordered: reader 0 opens the file holding 1.0, reader 1 starts
   later, runs to completion and returns 2.0, and only then reader 0 returns — 1.0.  So in
   many_readers_monotone the hypothesis that j has not started (~ In (S j) s1) cannot be
   dropped: here i = 1 is done with 2.0 after s1, and j = 0, which occurs in s1, ends with a
   smaller value. *)
Example overlapping_readers_monotone_refuted :
  let s1 := (upd ++ [1;1] ++ upd ++ [2;2;2])%nat in
  let s2 := [1]%nat in
  nth_error (snd (execN s1 (writer samples 0%float) fs0 (repeat R3Start 2))) 1
    = Some (R3Done (RSome 2%float)) /\
  nth_error (snd (execN (s1 ++ s2) (writer samples 0%float) fs0 (repeat R3Start 2))) 0
    = Some (R3Done (RSome 1%float)) /\
  ~ (2%float = 1%float \/ PrimFloat.ltb 2%float 1%float = true).
Proof.
  split; [vm_compute; reflexivity|]. split; [vm_compute; reflexivity|].
  intros [H|H]; [|vm_compute in H; discriminate].
  assert (E : PrimFloat.ltb 1%float 2%float = PrimFloat.ltb 1%float 1%float) by (rewrite H; reflexivity).
  vm_compute in E. discriminate.
Qed.

End Demo.
