(* MrTotal.v — totality of the multi-round workflow: for well-formed inputs the modelled run
   does not fail.  All other theorems about the workflow have the success of the run as a
   hypothesis; this file provides the converse direction, with hypotheses on the inputs only
   (the configuration [c] and the list of input files).

   Layout:  0. small facts (tasks, names, explode, reading pairs)
            1. per task: [initial_task_some], [merging_task_some], [final_task_some]
            2. the rounds: [initial_round_succeeds], [merging_round_succeeds],
               [mid_rounds_succeed], [final_task_succeeds], [multiround_succeeds_gen]
            3. the statement, the necessity of the hypotheses, a concrete instance. *)
From Coq Require Import String.
From BB Require Import Model.Multiround Proofs.ListFacts Proofs.TreeDefs Proofs.TreeBlocks
     Proofs.TreeChain Proofs.TreeSums
     Proofs.BirchDefs Proofs.BirchInv Proofs.BirchRebuild Proofs.BirchData
     Proofs.ConfigFacts Proofs.FpsFacts
     Proofs.MrTasks Proofs.MrStrings Proofs.MrDir Proofs.MrPartition Proofs.MrBound.
From Coq Require Import Lia Permutation Sorted.
Open Scope Z_scope.

(* ================= 0. small facts ================= *)
(* a round whose tasks all return succeeds *)
Lemma run_tasks_all_some tasks :
  Forall (fun t : task_result => t <> None) tasks ->
  forall d, exists d', run_tasks d tasks = Some d'.
Proof.
  unfold run_tasks. induction 1 as [|t tasks Ht _ IH]; intros d; cbn [fold_left].
  - eauto.
  - destruct t as [ws|]; [|congruence]. apply IH.
Qed.

(* ---------- fetching the members of a cluster ---------- *)
Lemma explode_some (X : list fpv) im ids :
  (forall i, In i ids -> py_nth X (i - im) <> None) -> exists r, explode X im ids = Some r.
Proof.
  induction ids as [|i ids IH]; intros H; cbn [explode]; [eauto|].
  destruct (py_nth X (i - im)) as [fp|] eqn:E; [|exfalso; exact (H i (or_introl eq_refl) E)].
  destruct IH as (r & ->); [intros j Hj; apply H; now right|]. eauto.
Qed.

Lemma explode_all_some (X : list fpv) im bfs :
  (forall i, In i (concat (map sids bfs)) -> py_nth X (i - im) <> None) ->
  exists r, explode_all X im bfs = Some r.
Proof.
  induction bfs as [|b bfs IH]; intros H; cbn [explode_all]; [eauto|].
  cbn [map concat] in H.
  destruct (explode_some X im (sids b)) as (a & ->);
    [intros i Hi; apply H, in_or_app; now left|].
  destruct IH as (r & ->); [intros i Hi; apply H, in_or_app; now right|]. eauto.
Qed.

Lemma py_nth_in_range {A} (X : list A) i : 0 <= i < zlen X -> py_nth X i <> None.
Proof.
  intros H. unfold py_nth.
  destruct (Z.leb_spec 0 i); [|lia]. destruct (Z.ltb_spec i (zlen X)); [|lia]. cbn [andb].
  intros E. apply nth_error_None in E. unfold zlen in *. lia.
Qed.

(* splitting the largest cluster of a non-empty tree whose members can all be fetched *)
Lemma refine_groups_one_some st (X : list fpv) im :
  sorted_leaves st <> [] ->
  (forall i, In i (concat (map sids (sorted_leaves st))) -> py_nth X (i - im) <> None) ->
  exists gs, refine_groups st X im 1 = Some gs.
Proof.
  intros Hne H. unfold refine_groups.
  change (1 =? 0) with false. change (1 <? 1) with false. change (Z.to_nat 1) with 1%nat.
  cbv iota.
  destruct (sorted_leaves st) as [|b l] eqn:E; [congruence|]. cbn [firstn skipn].
  destruct (explode_all_some X im [b]) as (r & ->); [|eauto].
  intros i Hi. apply H. cbn [map concat] in *. rewrite app_nil_r in Hi.
  apply in_or_app. now left.
Qed.

Lemma refine_groups_seq_some st (X : list fpv) :
  sorted_leaves st <> [] ->
  (forall i, In i (concat (map sids (sorted_leaves st))) -> py_nth X (i - 0) <> None) ->
  exists gs, refine_groups_seq st X = Some gs.
Proof.
  intros Hne H. unfold refine_groups_seq.
  destruct (sorted_leaves st) as [|big rest] eqn:E; [congruence|].
  destruct (explode_some X 0 (sort_asc_z (sids big))) as (r & ->); [|eauto].
  intros i Hi. apply H. cbn [map concat]. apply in_or_app. left.
  apply (Permutation_in _ (sort_asc_z_perm (sids big))). exact Hi.
Qed.

(* ---------- reading pairs back ---------- *)
Definition resolves (d : dir) (q : string * string) : Prop :=
  dir_get d (fst q) <> None /\ dir_get d (snd q) <> None.

Lemma read_pairs_len_le d l : (List.length (read_pairs d l) <= List.length l)%nat.
Proof.
  unfold read_pairs. induction l as [|q l IH]; cbn [flat_map List.length]; [lia|].
  rewrite app_length.
  destruct (dir_get d (fst q)); [destruct (dir_get d (snd q))|]; cbn [List.length]; lia.
Qed.

Lemma read_pairs_full d l :
  List.length (read_pairs d l) = List.length l -> Forall (resolves d) l.
Proof.
  induction l as [|q l IH]; intros H; [constructor|].
  pose proof (read_pairs_len_le d l) as Hle.
  unfold read_pairs in *. cbn [flat_map List.length] in H. rewrite app_length in H.
  unfold resolves.
  destruct (dir_get d (fst q)) eqn:E1; [destruct (dir_get d (snd q)) eqn:E2|];
    cbn [List.length] in H; try lia.
  constructor; [rewrite E1, E2; split; discriminate|]. apply IH. lia.
Qed.

Lemma read_pairs_resolved d l :
  Forall (resolves d) l -> List.length (read_pairs d l) = List.length l.
Proof.
  unfold read_pairs. induction 1 as [|q l (H1 & H2) _ IH]; [reflexivity|].
  cbn [flat_map List.length]. rewrite app_length, IH.
  destruct (dir_get d (fst q)); [|congruence]. destruct (dir_get d (snd q)); [|congruence].
  reflexivity.
Qed.

Lemma read_pairs_incl d l l' : incl l l' -> incl (read_pairs d l) (read_pairs d l').
Proof.
  intros H p Hp. unfold read_pairs in *. apply in_flat_map in Hp. destruct Hp as (q & Hq & Hp).
  apply in_flat_map. exists q. split; [apply H, Hq|exact Hp].
Qed.

Lemma ids_of_incl ps ps' : incl ps ps' -> incl (ids_of ps) (ids_of ps').
Proof.
  intros H i Hi. unfold ids_of in *. apply in_concat in Hi. destruct Hi as (x & Hx & Hi).
  apply in_map_iff in Hx. destruct Hx as (p & <- & Hp).
  apply in_concat. eexists. split; [apply in_map, H, Hp|exact Hi].
Qed.

Lemma concat_nonempty {A} (l : list (list A)) :
  l <> [] -> Forall (fun x => x <> []) l -> concat l <> [].
Proof.
  intros Hl F. destruct l as [|x l]; [congruence|]. pose proof (Forall_inv F) as Hx.
  cbn [concat]. destruct x; [congruence|]. discriminate.
Qed.

(* ================= 1. per task ================= *)
Section Tasks.
Variable fexp : float -> float.

(* ---------- the criterion names resolve ---------- *)
Lemma gmaf_some nm tol : nm <> NUnknown -> exists k, get_merge_accept_fn fexp nm tol = Some k.
Proof. intros H. destruct nm; try (eexists; reflexivity). congruence. Qed.

Lemma ctor_name_some thr bf nm tol :
  nm <> NUnknown -> exists cf, ctor fexp None thr bf (AName nm) tol = Some cf.
Proof. intros H. unfold ctor. destruct (gmaf_some nm (opt_tol tol) H) as (k & ->). eauto. Qed.

Lemma set_merge_name_some cf nm tol thr bf :
  nm <> NUnknown -> exists cf', set_merge fexp None cf (AName nm) (Some tol) thr bf = Some cf'.
Proof. intros H. unfold set_merge. destruct (gmaf_some nm tol H) as (k & ->). eauto. Qed.

Variable G : Z -> fpv.
Variable nf : nat.
Hypothesis Hnf : Z.of_nat nf < 2 ^ 52.

(* [fit_pairs_spec], and the tree is not empty when at least one pair was read *)
Lemma fit_pairs_total pairs st :
  st_inv st -> released st = false -> init_for nf st ->
  Forall (ok_pair G nf) pairs -> nfit st + zlen (ids_of pairs) < 2 ^ 64 ->
  leaves_data G st -> pairs <> [] ->
  exists st', fit_pairs fexp st pairs = (st', Ok) /\
    st_inv st' /\ cfg st' = cfg st /\ released st' = false /\ init_for nf st' /\
    Permutation (mem_ids st') (mem_ids st ++ ids_of pairs) /\
    leaves_data G st' /\ root st' <> None /\ sorted_leaves st' <> [].
Proof.
  intros Hinv Hrel Hinit Hp Hb HL Hne.
  destruct (fit_pairs_spec fexp G nf Hnf pairs st Hinv Hrel Hinit Hp Hb HL)
    as (st' & F & K1 & K2 & K3 & K4 & K5 & K6 & K7).
  exists st'. refine (conj F (conj K1 (conj K2 (conj K3 (conj K4 (conj K6 (conj K7 _))))))).
  destruct (pairs_groups G nf pairs Hp) as (gs & F2 & Gk & Gd & Gi).
  rewrite (fit_pairs_groups fexp pairs gs st F2) in F.
  assert (Ht : tot_n (gsubs gs) = zlen (ids_of pairs)).
  { rewrite <- Gi. apply tot_n_cnt, (groups_ok_cnt nf), Gk. }
  destruct (fit_groups_inv fexp nf gs st Hinv Hrel Hinit Hnf Gk ltac:(rewrite Ht; exact Hb))
    as (st'' & F' & _ & _ & _ & _ & _ & _ & _ & _ & _ & K10).
  rewrite F' in F. injection F as ->.
  assert (Hex : exists b, In b (gsubs gs)).
  { destruct gs as [|[w g] gs']; [inversion F2; subst; congruence|].
    pose proof (Forall_inv Gk) as (Hg & _). cbn [snd] in Hg.
    destruct g as [|b g]; [congruence|]. exists b. unfold gsubs. cbn [map snd concat app].
    now left. }
  destruct Hex as (b & Hb').
  destruct (K10 b Hb') as (blk & Hblk & _).
  assert (Hroot : root st' <> None).
  { intros E. unfold st_blocks in Hblk. rewrite E in Hblk. destruct Hblk. }
  split; [exact Hroot|].
  destruct (block_is_leaf st' blk K1 Hblk) as (x & Hx & _).
  intros E. rewrite E in Hx. destruct Hx.
Qed.

(* ---------- (b) a tree-merging task ---------- *)
Lemma merging_task_some c r label pairs (all_rows : list fpv) :
  2 <= m_bf c -> Forall (ok_pair G nf) pairs -> zlen (ids_of pairs) < 2 ^ 64 ->
  pairs <> [] -> m_mid_crit c <> NUnknown ->
  (m_split_after c = true -> forall i, In i (ids_of pairs) -> 0 <= i < zlen all_rows) ->
  exists ws, merging_task fexp c r label pairs all_rows = Some ws.
Proof.
  intros Hbf Hp Hb Hne Hcm HX. unfold merging_task, tree_cfg.
  destruct (ctor_name_some (m_thr c + m_change c)%float (m_bf c) (m_mid_crit c)
              (Some (m_tol c)) Hcm) as (cf & Ecf).
  rewrite Ecf. pose proof (ctor_name_bf fexp _ _ _ _ _ Ecf) as Ebf.
  destruct (init_facts G nf cf ltac:(lia)) as (I1 & I2 & I3 & I4 & I5 & I6).
  destruct (fit_pairs_total pairs (init cf) I1 I2 I3 Hp ltac:(rewrite I5; lia) I4 Hne)
    as (st & F & K1 & K2 & K3 & K4 & K6 & K7 & K8 & K9).
  rewrite F. rewrite I6 in K6. cbn [app] in K6.
  destruct (m_split_after c) eqn:Es; [|eauto].
  destruct (delete_internal_views G nf st K1) as (V1 & _ & _ & _ & _ & V6 & V7 & _).
  destruct (refine_groups_seq_some (fst (delete_internal st)) all_rows) as (gs & ->); [..|eauto].
  - rewrite V6. exact K9.
  - rewrite V6. intros i Hi.
    apply (Permutation_in _ (sorted_leaves_ids st K1)) in Hi. apply (Permutation_in _ K6) in Hi.
    rewrite Z.sub_0_r. apply py_nth_in_range. exact (HX eq_refl i Hi).
Qed.

(* ---------- (c) the final task ---------- *)
Definition final_crit (c : mr_cfg) : cname :=
  match m_final_crit c with Some x => x | None => m_mid_crit c end.

Lemma final_task_some c pairs :
  2 <= m_bf c -> Forall (ok_pair G nf) pairs -> zlen (ids_of pairs) < 2 ^ 64 ->
  pairs <> [] -> final_crit c <> NUnknown ->
  exists ws, final_task fexp c pairs = Some ws.
Proof.
  intros Hbf Hp Hb Hne Hcf. unfold final_task, tree_cfg. fold (final_crit c).
  destruct (ctor_name_some (m_thr c + m_change c)%float (m_bf c) (final_crit c)
              (Some (m_tol c)) Hcf) as (cf & Ecf).
  rewrite Ecf. pose proof (ctor_name_bf fexp _ _ _ _ _ Ecf) as Ebf.
  destruct (init_facts G nf cf ltac:(lia)) as (I1 & I2 & I3 & I4 & I5 & I6).
  destruct (fit_pairs_total pairs (init cf) I1 I2 I3 Hp ltac:(rewrite I5; lia) I4 Hne)
    as (st & F & K1 & K2 & K3 & K4 & K6 & K7 & K8 & K9).
  rewrite F.
  assert (Ei : is_init st = true) by (unfold is_init; destruct (root st); congruence).
  rewrite Ei. destruct (m_save_centroids c); eauto.
Qed.

End Tasks.

(* ---------- (a) an initial task ---------- *)
Section Initial.
Variable fexp : float -> float.
Variable nf : nat.
Hypothesis Hnf : Z.of_nat nf < 2 ^ 52.

Lemma initial_task_some c label (rows : list fpv) start :
  2 <= m_bf c -> Forall (fun fp : fpv => List.length fp = nf) rows -> zlen rows < 2 ^ 64 ->
  rows <> [] -> m_init_crit c <> NUnknown ->
  (m_refine c = RFull -> m_mid_crit c <> NUnknown) ->
  exists ws, initial_task fexp c label rows start = Some ws.
Proof.
  intros Hbf Hrows Hb Hne Hci Hcm. unfold initial_task.
  destruct (ctor_name_some fexp (m_thr c) (m_bf c) (m_init_crit c) None Hci) as (cf & Ecf).
  rewrite Ecf. apply ctor_name_bf in Ecf.
  (* the data map of this file *)
  pose (G := fun i : Z => nth (Z.to_nat (i - start)) rows (repeat false nf)).
  assert (HG : forall k fp, nth_error rows k = Some fp -> G (start + Z.of_nat k) = fp).
  { intros k fp Hk. unfold G. replace (Z.to_nat (start + Z.of_nat k - start)) with k by lia.
    apply nth_error_nth, Hk. }
  destruct (init_facts G nf cf ltac:(lia)) as (I1 & I2 & I3 & I4 & I5 & I6).
  destruct rows as [|fp0 rows']; [congruence|].
  rewrite do_fit_init.
  assert (Hfp0 : List.length fp0 = nf) by exact (Forall_inv Hrows).
  remember (fp0 :: rows') as rows eqn:Erows.
  rewrite Hfp0.
  pose proof (initialize_inv (init cf) nf I1 eq_refl Hnf) as J1.
  remember (initialize (init cf) nf) as st0 eqn:Est0.
  assert (E1 : nfit st0 = 0) by (subst st0; reflexivity).
  assert (E2 : nfeat st0 = nf) by (subst st0; reflexivity).
  assert (E3 : root st0 <> None) by (subst st0; discriminate).
  assert (E4 : mem_ids st0 = []) by (subst st0; reflexivity).
  assert (E5 : cfg st0 = cf) by (subst st0; reflexivity).
  assert (E6 : released st0 = false) by (subst st0; reflexivity).
  assert (HL0 : leaves_data G st0) by (subst st0; unfold leaves_data; cbn; constructor).
  assert (Hro : Forall (row_ok (nfeat st0)) (map Some rows)).
  { rewrite E2. apply Forall_forall. intros x Hx. apply in_map_iff in Hx.
    destruct Hx as (fp & <- & Hfp). cbn [row_ok]. rewrite Forall_forall in Hrows. auto. }
  assert (Hbz : nfit st0 + zlen (map Some rows) < 2 ^ 64).
  { rewrite E1. unfold zlen in *. rewrite map_length. lia. }
  assert (Hbf0 : 2 <= c_bf cf) by lia.
  destruct (fit_rows fexp cf st0 (map Some rows) (zseq start (List.length rows)))
    as [st out] eqn:Hf.
  destruct (fit_rows_inv fexp cf (map Some rows) st0 _ J1 E3 Hbf0 Hro Hbz st out Hf)
    as (K1 & K2 & K3 & K4 & K5 & _ & k & L1 & L2 & L3 & L4 & L5).
  pose proof (fit_rows_data fexp G cf (map Some rows) st0
                (zseq start (List.length rows)) J1 E3 Hbf0 Hro Hbz HL0) as HLs.
  rewrite Hf in HLs. cbn [fst] in HLs.
  assert (HL : leaves_data G st).
  { apply HLs. intros j fp l H1 H2. apply nth_error_zseq in H2. subst l.
    rewrite nth_error_map in H1. destruct (nth_error rows j) as [fp'|] eqn:En; [|discriminate].
    cbn in H1. injection H1 as <-. apply HG, En. }
  destruct L5 as (-> & ->).
  { apply Forall_forall. intros x Hx. apply in_map_iff in Hx. destruct Hx as (? & <- & _).
    discriminate. }
  { now rewrite zseq_length, map_length. }
  rewrite map_length in L4. rewrite E4 in L4. cbn [app] in L4.
  rewrite <- (zseq_length start (List.length rows)) in L4 at 1. rewrite firstn_all in L4.
  assert (Hinit : init_for nf st) by (right; split; [exact K5|congruence]).
  assert (Hcfg : cfg st = cf) by congruence.
  destruct (delete_internal_views G nf st K1) as (V1 & V2 & V3 & V4 & V5 & V6 & V7 & V8 & V9).
  remember (fst (delete_internal st)) as st1 eqn:Est1.
  assert (HDX : forall i, In i (mem_ids st1) -> py_nth rows (i - start) = Some (G i)).
  { intros i Hi. rewrite V7 in Hi. apply (Permutation_in _ L4) in Hi. apply In_zseq in Hi.
    unfold py_nth. destruct (Z.leb_spec 0 (i - start)); [|lia].
    destruct (Z.ltb_spec (i - start) (zlen rows)); [|unfold zlen in *; lia]. cbn [andb].
    destruct (nth_error rows (Z.to_nat (i - start))) as [fp|] eqn:En.
    - f_equal. symmetry. replace i with (start + Z.of_nat (Z.to_nat (i - start))) by lia.
      apply HG, En.
    - apply nth_error_None in En. lia. }
  (* the tree is not empty, so its largest cluster can be split *)
  assert (Hleaves : sorted_leaves st1 <> []).
  { rewrite V6. intros E. pose proof (sorted_leaves_ids st K1) as P. rewrite E in P.
    cbn [map concat] in P. apply Permutation_nil in P. rewrite P in L4.
    apply Permutation_nil in L4. subst rows. discriminate L4. }
  assert (Hrg : exists gs, refine_groups st1 rows start 1 = Some gs).
  { apply refine_groups_one_some; [exact Hleaves|]. intros i Hi.
    apply (Permutation_in _ (sorted_leaves_ids st1 V1)) in Hi. rewrite (HDX i Hi). discriminate. }
  destruct (m_refine c) eqn:Erf.
  - (* RFull *)
    destruct Hrg as (gs & Er). rewrite Er.
    destruct (refine_groups_spec G nf Hnf st1 rows start 1 gs V1 (V8 Hinit) (V9 HL) Hrows HDX Er)
      as ((W & N & Gg & Gd) & B).
    destruct (set_merge_name_some fexp (cfg (reset_st st1)) (m_mid_crit c) (m_tol c)
                (Some (m_thr c + m_change c)%float) None (Hcm eq_refl)) as (cf2 & Es).
    rewrite Es.
    apply set_merge_frame in Es. destruct Es as (_ & Es & _). specialize (Es eq_refl).
    cbn [reset_st cfg] in Es.
    match goal with |- context [fit_groups fexp ?S gs] => remember S as st3 eqn:Est3 end.
    cbn [reset_st root sax nfit released nfeat] in Est3.
    assert (T1 : st_inv st3).
    { subst st3. unfold st_inv. cbn [cfg root nfit released]. split; [|auto].
      rewrite Es, V2, Hcfg. lia. }
    assert (T2 : released st3 = false) by (subst st3; reflexivity).
    assert (T3 : init_for nf st3) by (subst st3; left; reflexivity).
    assert (T4 : nfit st3 = 0) by (subst st3; reflexivity).
    pose proof (groups_wf_ok nf gs W Gg) as Gk.
    assert (Ht : tot_n (gsubs gs) = zlen rows).
    { rewrite (tot_n_cnt _ (groups_ok_cnt nf gs Gk)). unfold zlen.
      rewrite (Permutation_length B), V7, (Permutation_length L4), zseq_length. reflexivity. }
    assert (Hb3 : nfit st3 + tot_n (gsubs gs) < 2 ^ 64) by (rewrite T4, Ht; lia).
    destruct (fit_groups_inv fexp nf gs st3 T1 T2 T3 Hnf Gk Hb3) as (st4 & F4 & _).
    rewrite F4. eauto.
  - (* RSplit *)
    destruct Hrg as (gs & ->). eauto.
  - (* RNone *)
    eauto.
Qed.
End Initial.

(* ================= 2. the rounds ================= *)
Section Rounds.
Variable fexp : float -> float.
Variable nf : nat.
Variable files : list (list fpv).
Variable c : mr_cfg.
Hypothesis Hnf : Z.of_nat nf < 2 ^ 52.
Hypothesis Hrows : Forall (Forall (fun fp : fpv => List.length fp = nf)) files.
Hypothesis HN : zlen (concat files) < 2 ^ 64.
Hypothesis Hbf : 2 <= m_bf c.
Hypothesis Hbin : (1 <= m_bin c)%nat.

(* ---------- (a) the initial round ---------- *)
Lemma initial_round_succeeds :
  Forall (fun f : list fpv => f <> []) files ->
  m_init_crit c <> NUnknown -> (m_refine c = RFull -> m_mid_crit c <> NUnknown) ->
  exists d2, run_tasks [] (initial_tasks fexp c files) = Some d2.
Proof.
  intros Hne Hci Hcm. apply run_tasks_all_some. unfold initial_tasks.
  apply Forall_forall. intros t Ht. apply in_map_iff in Ht.
  destruct Ht as ([[l rows] st] & <- & Hin).
  assert (Hr : In rows files) by (apply in_combine_l, in_combine_r in Hin; exact Hin).
  destruct (initial_task_some fexp nf Hnf c l rows st Hbf) as (ws & ->);
    try assumption; [| | |discriminate].
  - rewrite Forall_forall in Hrows. apply Hrows, Hr.
  - pose proof (length_concat_le rows files Hr) as Hle. unfold zlen in *. lia.
  - rewrite Forall_forall in Hne. apply Hne, Hr.
Qed.

(* ---------- (b) a tree-merging round ---------- *)
(* every batch of round R reads at least one pair, and only pairs stored in round R-1 *)
Lemma batch_reads d R :
  2 <= R -> rinv nf files d (R - 1) ->
  forall b, In b (batches d (R - 1) (m_bin c)) ->
    read_pairs d (snd b) <> [] /\
    incl (read_pairs d (snd b)) (read_pairs d (prev_pairs d (R - 1))).
Proof.
  intros HR Hi b Hin.
  destruct (prev_pairs_matched nf files d (R - 1) ltac:(lia) Hi)
    as (E0 & ks & _ & _ & PP & RP).
  assert (Hall : Forall (resolves d) (prev_pairs d (R - 1))).
  { apply read_pairs_full. rewrite RP, PP, !map_length. reflexivity. }
  destruct (batches_spec d (R - 1) (m_bin c)) as (_ & B2). cbv zeta in B2.
  assert (Hs : In (snd b) (map (sort_batch d) (batched (m_bin c) (prev_pairs d (R - 1))))).
  { rewrite <- B2. apply in_map, Hin. }
  apply in_map_iff in Hs. destruct Hs as (x & Ex & Hx).
  pose proof (sort_batch_perm d x) as PS. rewrite Ex in PS.
  assert (Hsub : incl (snd b) (prev_pairs d (R - 1))).
  { intros q Hq. apply (Permutation_in _ PS) in Hq.
    rewrite <- (MrPartition.batched_concat (m_bin c) (prev_pairs d (R - 1)) Hbin).
    apply in_concat. eauto. }
  split; [|apply read_pairs_incl, Hsub].
  assert (Hlen : List.length (read_pairs d (snd b)) = List.length (snd b)).
  { apply read_pairs_resolved. rewrite Forall_forall in *. intros q Hq. apply Hall, Hsub, Hq. }
  pose proof (batched_sizes (m_bin c) (prev_pairs d (R - 1)) ltac:(lia)) as Hsz.
  rewrite Forall_forall in Hsz. specialize (Hsz x Hx).
  rewrite (Permutation_length PS) in Hlen. intros E. rewrite E in Hlen. cbn in Hlen. lia.
Qed.

Lemma merging_round_succeeds d R :
  2 <= R -> rinv nf files d (R - 1) -> m_mid_crit c <> NUnknown ->
  exists d', run_tasks d (merging_tasks fexp c d R (concat files)) = Some d'.
Proof.
  intros HR Hi Hcm. apply run_tasks_all_some. unfold merging_tasks.
  apply Forall_forall. intros t Ht. apply in_map_iff in Ht. destruct Ht as (b & <- & Hin).
  destruct (batch_inputs_ok nf files c HN Hbin d R HR Hi b Hin) as (Hok & Hbd).
  destruct (batch_reads d R HR Hi b Hin) as (Hne & Hsub).
  destruct (handed_over_ok nf files d (R - 1) ltac:(lia) Hi) as (_ & Hids).
  destruct (merging_task_some fexp (Gmap nf files) nf Hnf c R (fst b) (read_pairs d (snd b))
              (concat files) Hbf Hok Hbd Hne Hcm) as (ws & ->); [|discriminate].
  intros _ i Hi'. apply (ids_of_incl _ _ Hsub) in Hi'. apply (Permutation_in _ Hids) in Hi'.
  apply In_zseq in Hi'. pose proof (N_nat files). unfold zlen in *. lia.
Qed.

Lemma mid_rounds_succeed k : forall R d,
  2 <= R -> rinv nf files d (R - 1) -> ((1 <= k)%nat -> m_mid_crit c <> NUnknown) ->
  exists d', mid_rounds fexp c (concat files) k R d = Some d' /\
             rinv nf files d' (R - 1 + Z.of_nat k).
Proof.
  induction k as [|k IH]; intros R d HR Hi Hcm; cbn [mid_rounds].
  - exists d. split; [reflexivity|]. now rewrite Z.add_0_r.
  - assert (Hc1 : m_mid_crit c <> NUnknown) by (apply Hcm; lia).
    destruct (merging_round_succeeds d R HR Hi Hc1) as (d1 & E1). rewrite E1.
    pose proof (merging_round fexp nf files c Hnf Hrows HN Hbf Hbin d R d1 HR Hi E1) as Hi1.
    destruct (IH (R + 1) d1 ltac:(lia)) as (d' & E' & Hi').
    + now replace (R + 1 - 1) with R by lia.
    + intros _. exact Hc1.
    + exists d'. split; [exact E'|].
      now replace (R - 1 + Z.of_nat (S k)) with (R + 1 - 1 + Z.of_nat k) by lia.
Qed.

(* ---------- (c) the final task ---------- *)
Lemma final_task_succeeds d r :
  1 <= r -> rinv nf files d r -> concat files <> [] -> final_crit c <> NUnknown ->
  exists ws, final_task fexp c (read_pairs d (prev_pairs d r)) = Some ws.
Proof.
  intros Hr Hi Hne Hcf.
  destruct (handed_over_ok nf files d r Hr Hi) as (Hok & Hids).
  pose proof (N_nat files) as NN.
  apply (final_task_some fexp (Gmap nf files) nf Hnf c _ Hbf Hok); [| |exact Hcf].
  - unfold zlen. rewrite (Permutation_length Hids), zseq_length. unfold zlen in *. lia.
  - intros E. rewrite E in Hids. cbn in Hids. apply Permutation_nil in Hids.
    rewrite NN in Hids. destruct (concat files); [congruence|discriminate Hids].
Qed.

(* ---------- (d) the run ---------- *)
Theorem multiround_succeeds_gen :
  files <> [] -> Forall (fun f : list fpv => f <> []) files ->
  m_init_crit c <> NUnknown ->
  (m_refine c = RFull \/ (1 <= m_rounds c)%nat -> m_mid_crit c <> NUnknown) ->
  final_crit c <> NUnknown ->
  exists d, run_multiround fexp c files [] = Some d.
Proof.
  intros Hf Hne Hci Hcm Hcf. unfold run_multiround.
  change (dir_remove [] is_purged) with (@nil (string * content)).
  destruct (initial_round_succeeds Hne Hci ltac:(auto)) as (d2 & E2). rewrite E2.
  pose proof (initial_round fexp nf files c Hnf Hrows HN Hbf Hbin d2 E2) as I1.
  destruct (mid_rounds_succeed (m_rounds c) 2 d2 ltac:(lia) I1 ltac:(auto)) as (d3 & E3 & I3).
  rewrite E3.
  replace (2 + Z.of_nat (m_rounds c) - 1) with (2 - 1 + Z.of_nat (m_rounds c)) by lia.
  destruct (final_task_succeeds d3 (2 - 1 + Z.of_nat (m_rounds c)) ltac:(lia) I3
              (concat_nonempty files Hf Hne) Hcf) as (ws & ->).
  eauto.
Qed.
End Rounds.

(* ================= 3. the statement ================= *)
(* sharp form: the midsection criterion only has to resolve when it is used (full refinement
   in the initial round, at least one midsection round, or no separate final criterion) *)
Theorem multiround_succeeds_sharp fexp nf (c : mr_cfg) (files : list (list fpv)) :
  Z.of_nat nf < 2 ^ 52 ->
  Forall (Forall (fun fp : fpv => List.length fp = nf)) files ->
  zlen (List.concat files) < 2 ^ 64 ->
  2 <= m_bf c -> (1 <= m_bin c)%nat ->
  files <> [] -> Forall (fun f : list fpv => f <> []) files ->
  m_init_crit c <> NUnknown ->
  (m_refine c = RFull \/ (1 <= m_rounds c)%nat \/ m_final_crit c = None ->
   m_mid_crit c <> NUnknown) ->
  m_final_crit c <> Some NUnknown ->
  exists d, run_multiround fexp c files [] = Some d.
Proof.
  intros Hnf Hrows HN Hbf Hbin Hf Hne Hci Hcm Hcf.
  apply (multiround_succeeds_gen fexp nf files c Hnf Hrows HN Hbf Hbin Hf Hne Hci).
  - intros [H|H]; apply Hcm; tauto.
  - unfold final_crit. destruct (m_final_crit c) as [x|] eqn:E; [congruence|].
    apply Hcm. tauto.
Qed.

Theorem multiround_succeeds fexp nf (c : mr_cfg) (files : list (list fpv)) :
  Z.of_nat nf < 2 ^ 52 ->
  Forall (Forall (fun fp : fpv => List.length fp = nf)) files ->
  zlen (List.concat files) < 2 ^ 64 ->
  2 <= m_bf c -> (1 <= m_bin c)%nat ->
  files <> [] -> Forall (fun f : list fpv => f <> []) files ->
  m_init_crit c <> NUnknown -> m_mid_crit c <> NUnknown -> m_final_crit c <> Some NUnknown ->
  exists d, run_multiround fexp c files [] = Some d.
Proof.
  intros Hnf Hrows HN Hbf Hbin Hf Hne Hci Hcm Hcf.
  apply (multiround_succeeds_sharp fexp nf c files); auto.
Qed.

(* the hypotheses on the criterion names, said with the model's own functions *)
Corollary multiround_succeeds_cfg fexp nf (c : mr_cfg) (files : list (list fpv)) :
  Z.of_nat nf < 2 ^ 52 ->
  Forall (Forall (fun fp : fpv => List.length fp = nf)) files ->
  zlen (List.concat files) < 2 ^ 64 ->
  2 <= m_bf c -> (1 <= m_bin c)%nat ->
  files <> [] -> Forall (fun f : list fpv => f <> []) files ->
  ctor fexp None (m_thr c) (m_bf c) (AName (m_init_crit c)) None <> None ->
  tree_cfg fexp c (m_mid_crit c) <> None ->
  tree_cfg fexp c (final_crit c) <> None ->
  exists d, run_multiround fexp c files [] = Some d.
Proof.
  intros Hnf Hrows HN Hbf Hbin Hf Hne Hci Hcm Hcf.
  apply (multiround_succeeds_gen fexp nf files c Hnf Hrows HN Hbf Hbin Hf Hne).
  - intros E. rewrite E in Hci. apply Hci. reflexivity.
  - intros _ E. rewrite E in Hcm. apply Hcm. reflexivity.
  - intros E. rewrite E in Hcf. apply Hcf. reflexivity.
Qed.

(* ================= 4. a concrete instance; the hypotheses are needed ================= *)
Module Demo.
Import MrBound.Demo.

(* the hypotheses of [multiround_succeeds] hold of the demo input of MrBound (two files, full
   refinement, one tree-merging round with splitting), so the theorem is not vacuous *)
Example multiround_succeeds_nonvacuous :
  exists d, run_multiround fid c files [] = Some d.
Proof.
  apply (multiround_succeeds fid 8 c files).
  - vm_compute. reflexivity.
  - repeat constructor.
  - vm_compute. reflexivity.
  - vm_compute. discriminate.
  - vm_compute. lia.
  - discriminate.
  - repeat constructor; discriminate.
  - discriminate.
  - discriminate.
  - discriminate.
Qed.

(* ... and the run it promises is the one that evaluation finds *)
Example multiround_succeeds_agrees :
  exists d, run_multiround fid c files [] = Some d /\
            dir_get d "clusters.pkl" = Some (CClusters [[0; 1; 4]; [2; 3]]).
Proof. eexists. split; vm_compute; reflexivity. Qed.

(* Dropping a hypothesis on the shape of the input makes the modelled run fail, as the real
   workflow does: no input file; an empty input file; a criterion name that does not
   resolve; bin_size = 0 with a midsection round. *)
Definition r0 : fpv := [true;true;false;false;true;false;false;false].

Example no_files_fails : run_multiround fid c [] [] = None.
Proof. vm_compute. reflexivity. Qed.

Example empty_file_fails : run_multiround fid c [[r0]; []] [] = None.
Proof. vm_compute. reflexivity. Qed.

Example unknown_init_crit_fails :
  run_multiround fid (mkMr 3 0.5 0 0.0625 NUnknown NDiameter None 1 2 RFull true true false)
                 files [] = None.
Proof. vm_compute. reflexivity. Qed.

Example unknown_mid_crit_fails :
  run_multiround fid (mkMr 3 0.5 0 0.0625 NDiameter NUnknown None 1 2 RFull true true false)
                 files [] = None.
Proof. vm_compute. reflexivity. Qed.

Example unknown_final_crit_fails :
  run_multiround fid (mkMr 3 0.5 0 0.0625 NDiameter NDiameter (Some NUnknown) 1 2 RFull
                           true true false) files [] = None.
Proof. vm_compute. reflexivity. Qed.

Example zero_bin_fails :
  run_multiround fid (mkMr 3 0.5 0 0.0625 NDiameter NDiameter None 1 0 RFull false true false)
                 files [] = None.
Proof. vm_compute. reflexivity. Qed.

(* an unused midsection criterion need not resolve ([multiround_succeeds_sharp]) *)
Example unused_mid_crit :
  exists d,
    run_multiround fid (mkMr 3 0.5 0 0.0625 NDiameter NUnknown (Some NRadius) 0 2 RSplit
                             true true false) files [] = Some d.
Proof.
  apply (multiround_succeeds_sharp fid 8 _ files).
  - vm_compute. reflexivity.
  - repeat constructor.
  - vm_compute. reflexivity.
  - vm_compute. discriminate.
  - vm_compute. lia.
  - discriminate.
  - repeat constructor; discriminate.
  - discriminate.
  - cbn. intros [H|[H|H]]; [discriminate H|lia|discriminate H].
  - discriminate.
Qed.
End Demo.
