(* GenTieMonOps.v — the file operations of one update of the peak file, extracted from
   monitor_rss_process on every run (Gen/GMonOps.v), are the model writer's [update_ops], in the same
   order; the temporary file is a sibling of the peak file with the model's names; and the reader
   (get_peak_memory_gib) tests, opens and parses exactly the file the writer publishes. *)
From BB Require Import Model.Monitor Gen.GMonOps.
From Coq Require Import String List.
Import ListNotations.

Lemma tie_monitor_update_ops : forall v, GMonOps.monitor_update_ops v = Monitor.update_ops v.
Proof. reflexivity. Qed.

Lemma tie_monitor_names :
  GMonOps.monitor_peak_name = "max-rss.txt"%string /\
  GMonOps.monitor_tmp_name = "max-rss.txt.tmp"%string /\
  GMonOps.reader_file_name = GMonOps.monitor_peak_name /\
  GMonOps.reader_steps = ["exists"%string; "open"%string; "read"%string].
Proof. repeat split; reflexivity. Qed.
