(* TreeBlocks.v — how the leaf blocks (member-label lists of the leaf sub-clusters)
   evolve under insertion: exactly one coarsening step per inserted sub-cluster. *)
From BB Require Import Model.Tree Proofs.ListFacts Proofs.TreeDefs Proofs.TreeRel Proofs.TreeShape.
From Coq Require Import Lia Permutation.
Open Scope Z_scope.

(* the leaf blocks (member-label lists) change by exactly one "coarsening step" when a
   sub-cluster with labels x is inserted: either x becomes a new block, or it is appended
   to exactly one existing block; everything else is untouched (up to order) *)
Definition BlockStep (B : list (list Z)) (x : list Z) (B' : list (list Z)) : Prop :=
  Permutation B' (x :: B) \/
  exists b R, Permutation B (b :: R) /\ Permutation B' ((b ++ x) :: R).

(* ---------- closure lemmas ---------- *)
Lemma BlockStep_perm B1 B1' B2 B2' x :
  Permutation B1 B2 -> Permutation B1' B2' -> BlockStep B1 x B1' -> BlockStep B2 x B2'.
Proof.
  intros P P' [H | (b & R & H1 & H2)].
  - left. etransitivity; [apply Permutation_sym; exact P'|].
    etransitivity; [exact H|]. now constructor.
  - right. exists b, R. split.
    + etransitivity; [apply Permutation_sym; exact P|exact H1].
    + etransitivity; [apply Permutation_sym; exact P'|exact H2].
Qed.

Lemma BlockStep_frame B x B' P Q :
  BlockStep B x B' -> BlockStep (P ++ B ++ Q) x (P ++ B' ++ Q).
Proof.
  intros [H | (b & R & H1 & H2)].
  - left.
    etransitivity; [apply Permutation_app_swap_mid|].
    etransitivity; [apply Permutation_app_tail; exact H|].
    cbn [app]. constructor. apply Permutation_app_swap_mid.
  - right. exists b, (R ++ P ++ Q). split.
    + etransitivity; [apply Permutation_app_swap_mid|].
      etransitivity; [apply Permutation_app_tail; exact H1|].
      cbn [app]. reflexivity.
    + etransitivity; [apply Permutation_app_swap_mid|].
      etransitivity; [apply Permutation_app_tail; exact H2|].
      cbn [app]. reflexivity.
Qed.

Lemma BlockStep_frame_l B x B' P :
  BlockStep B x B' -> BlockStep (P ++ B) x (P ++ B').
Proof.
  intros H. pose proof (BlockStep_frame B x B' P [] H) as F.
  now rewrite !app_nil_r in F.
Qed.

Lemma BlockStep_frame_r B x B' Q :
  BlockStep B x B' -> BlockStep (B ++ Q) x (B' ++ Q).
Proof. intros H. exact (BlockStep_frame B x B' [] Q H). Qed.

Lemma concat_perm {A} (B B' : list (list A)) :
  Permutation B B' -> Permutation (concat B) (concat B').
Proof.
  induction 1; cbn; auto.
  - now apply Permutation_app_head.
  - apply Permutation_app_swap_mid.
  - etransitivity; eauto.
Qed.

(* 5 *)
Lemma BlockStep_members B x B' : BlockStep B x B' -> Permutation (concat B') (concat B ++ x).
Proof.
  intros [H | (b & R & H1 & H2)].
  - etransitivity; [apply concat_perm; exact H|]. cbn [concat].
    apply Permutation_app_comm.
  - etransitivity; [apply concat_perm; exact H2|].
    etransitivity; [|apply Permutation_app_tail, Permutation_sym, concat_perm; exact H1].
    cbn [concat]. rewrite <- !app_assoc. apply Permutation_app_head, Permutation_app_comm.
Qed.

(* 6 *)
Lemma BlockStep_together B x B' i j :
  BlockStep B x B' ->
  (exists b, In b B /\ In i b /\ In j b) ->
  (exists b', In b' B' /\ In i b' /\ In j b').
Proof.
  intros [H | (b & R & H1 & H2)] (b0 & Hb & Hi & Hj).
  - exists b0. refine (conj _ (conj Hi Hj)).
    apply (Permutation_in _ (Permutation_sym H)). now right.
  - apply (Permutation_in _ H1) in Hb. destruct Hb as [<- | Hb].
    + exists (b ++ x). refine (conj _ (conj _ _)).
      * apply (Permutation_in _ (Permutation_sym H2)). now left.
      * apply in_or_app. now left.
      * apply in_or_app. now left.
    + exists b0. refine (conj _ (conj Hi Hj)).
      apply (Permutation_in _ (Permutation_sym H2)). now right.
Qed.

Section BlocksPres.
Variable fexp : float -> float.
Variable nf : nat.
Variable c : crit.
Variable thr : float.
Hypothesis Hsim : forall a b : fpv,
    length a = nf -> length b = nf -> (sim a a <? sim a b)%float = false.

Notation shape := (shape nf).
Notation shape_e := (shape_e nf).
Notation sub_len := (sub_len nf).
Notation ls_len := (ls_len nf).

(* 1 *)
Lemma merge_sub_ids s t m : merge_sub fexp c thr s t = Some m -> sids m = sids s ++ sids t.
Proof.
  unfold merge_sub. intros H.
  destruct (accept _ _ _ _ _ _ _ _ _); [|discriminate]. injection H as <-. reflexivity.
Qed.

Lemma blocks_e_cons e ch tl : blocks_e (ECons e ch tl) = blocks ch ++ blocks_e tl.
Proof. unfold blocks_e, blocks. cbn [lsubs_e]. apply map_app. Qed.

Lemma blocks_e_app1 tl t ch : blocks_e (ents_app1 tl t ch) = blocks_e tl ++ blocks ch.
Proof. unfold blocks_e, blocks. rewrite lsubs_e_app1. apply map_app. Qed.

(* 2 *)
Lemma split_blocks nd ax t1 n1 t2 n2 ax' :
  shape nd -> (2 <= n_entries nd)%nat ->
  split_node nf nd ax = ((t1, n1), (t2, n2), ax') ->
  Permutation (blocks n1 ++ blocks n2) (blocks nd).
Proof.
  destruct nd as [id bf es cache | bf es cache]; cbn [shape n_entries split_node].
  - intros (Hbf & Hc & Hes) Hn Hs.
    assert (HY : Forall (fun y => length y = nf) cache).
    { subst cache. rewrite Forall_map. eapply Forall_impl; [|exact Hes]. now intros s [_ H]. }
    assert (HL : (2 <= length cache)%nat) by (subst cache; now rewrite map_length).
    pose proof (most_dissimilar_mask nf Hsim cache HY HL) as HM.
    destruct (most_dissimilar nf cache) as [[[f1 f2] s1] s2].
    cbv zeta in HM. destruct HM as (Lm & Ht & Hf).
    assert (Lm' : length (split_mask 0 f1 s1 s2) = length es)
      by (rewrite Lm; subst cache; apply map_length).
    rewrite part_leaf_spec in Hs. cbn [app] in Hs. inversion Hs; subst t1 n1 t2 n2 ax'; clear Hs.
    unfold blocks. cbn [lsubs]. rewrite <- map_app.
    apply Permutation_map, sel_perm. exact Lm'.
  - intros (Hbf & Hc & Hne & Hes) Hn Hs.
    change (shape_e es) in Hes.
    rewrite (shape_e_elist fexp nf thr) in Hes.
    assert (HY : Forall (fun y => length y = nf) cache).
    { subst cache. rewrite ents_subs_elist, map_map, Forall_map.
      eapply Forall_impl; [|exact Hes]. now intros p [[_ H] _]. }
    assert (HL : (2 <= length cache)%nat).
    { subst cache. rewrite map_length, ents_subs_elist, map_length, <- ents_len_elist. exact Hn. }
    pose proof (most_dissimilar_mask nf Hsim cache HY HL) as HM.
    destruct (most_dissimilar nf cache) as [[[f1 f2] s1] s2].
    cbv zeta in HM. destruct HM as (Lm & Ht & Hf).
    assert (Lm' : length (split_mask 0 f1 s1 s2) = length (elist es)).
    { rewrite Lm. subst cache. now rewrite map_length, ents_subs_elist, map_length. }
    rewrite part_inner_spec in Hs. cbn [app elist] in Hs.
    inversion Hs; subst t1 n1 t2 n2 ax'; clear Hs.
    unfold blocks. cbn [lsubs]. rewrite <- map_app. apply Permutation_map.
    rewrite !lsubs_e_elist, !elist_eof, <- flat_map_app.
    apply flat_map_perm, sel_perm. exact Lm'.
Qed.

(* 3 *)
Lemma Ins_blocks_mut :
  (forall nd s ax nd' sp ax',
      Ins fexp nf c thr nd s ax nd' sp ax' -> shape nd -> sub_len s ->
      BlockStep (blocks nd) (sids s) (blocks nd')) /\
  (forall es k s cache ax es' cache' ax',
      InsE fexp nf c thr es k s cache ax es' cache' ax' ->
      shape_e es -> cache = map scent (ents_subs es) -> (k < ents_len es)%nat -> sub_len s ->
      BlockStep (blocks_e es) (sids s) (blocks_e es')).
Proof.
  apply Ins_mutind.
  - (* leaf empty *)
    intros id bf cache s ax _ _. left. unfold blocks. cbn. reflexivity.
  - (* leaf merge *)
    intros id bf es cache s ax m Hne Hm (Hbf & Hc & Hes) Hs. subst cache.
    assert (Hr : (route (map scent es) s < length es)%nat).
    { rewrite <- (map_length scent). apply route_lt. destruct es; [congruence|discriminate]. }
    destruct (upd_split (route (map scent es) s) m s es Hr) as (l1 & l2 & E1 & E2 & _).
    apply merge_sub_ids in Hm.
    unfold blocks. cbn [lsubs]. rewrite E2. rewrite E1 at 1.
    rewrite !map_app. cbn [map]. rewrite Hm.
    right. exists (sids (nth (route (map scent es) s) es s)), (map sids l1 ++ map sids l2).
    split; apply Permutation_sym, Permutation_middle.
  - (* leaf append *)
    intros id bf es cache s ax Hne Hm _ _. left.
    unfold blocks. cbn [lsubs]. rewrite map_app. cbn [map].
    apply Permutation_sym, Permutation_cons_append.
  - (* inner *)
    intros bf es cache s ax es' cache' ax' _ IH (Hbf & Hc & Hne & Hes) Hs.
    unfold blocks. cbn [lsubs]. apply (IH Hes Hc); [|exact Hs].
    assert (Hl : length cache = ents_len es).
    { subst cache. rewrite map_length, ents_subs_elist, map_length. now rewrite ents_len_elist. }
    rewrite <- Hl. apply route_lt. intros E. rewrite E in Hl. cbn in Hl.
    destruct es; [congruence|discriminate].
  - (* nil *)
    intros k s cache ax _ _ Hk _. cbn in Hk. lia.
  - (* skip *)
    intros e ch tl k s cache ax tl' ctl' ax' _ IH (He & Hch & Htl) Hc Hk Hs.
    cbn [ents_subs map] in Hc. subst cache. cbn [List.tl] in IH. cbn [ents_len] in Hk.
    rewrite !blocks_e_cons. apply BlockStep_frame_l.
    apply (IH Htl eq_refl); [lia|exact Hs].
  - (* split *)
    intros e ch tl s cache ax ch' ax1 t1 n1 t2 n2 ax2 HI IH Hsp (He & Hch & Htl) Hc Hk Hs.
    specialize (IH Hch Hs).
    pose proof (Ins_shape fexp nf c thr Hsim _ _ _ _ _ _ HI Hch Hs) as Hch'.
    pose proof (shape_entries_pos fexp nf c thr _ _ _ _ _ _ HI eq_refl Hch') as H2.
    pose proof (split_blocks _ _ _ _ _ _ _ Hch' H2 Hsp) as PB.
    rewrite !blocks_e_cons, blocks_e_app1.
    apply (BlockStep_perm (blocks ch ++ blocks_e tl) (blocks ch' ++ blocks_e tl)).
    + reflexivity.
    + etransitivity; [apply Permutation_app_tail, Permutation_sym; exact PB|].
      rewrite <- app_assoc. apply Permutation_app_head, Permutation_app_comm.
    + apply BlockStep_frame_r. exact IH.
  - (* nosplit *)
    intros e ch tl s cache ax ch' ax1 HI IH (He & Hch & Htl) Hc Hk Hs.
    rewrite !blocks_e_cons. apply BlockStep_frame_r. exact (IH Hch Hs).
Qed.

Lemma Ins_blocks nd s ax nd' sp ax' :
  Ins fexp nf c thr nd s ax nd' sp ax' -> shape nd -> sub_len s ->
  BlockStep (blocks nd) (sids s) (blocks nd').
Proof. exact (proj1 Ins_blocks_mut nd s ax nd' sp ax'). Qed.

(* 4 *)
Lemma insert_root_blocks bf root s ax root' ax' :
  1 <= bf -> shape root -> sub_len s ->
  insert_root fexp nf c thr bf root s ax = (root', ax') ->
  BlockStep (blocks root) (sids s) (blocks root').
Proof.
  intros Hbf Hr Hs. unfold insert_root.
  destruct (insert fexp nf c thr root s ax) as [[r sp] ax1] eqn:Hi.
  apply insert_Ins in Hi.
  pose proof (Ins_shape fexp nf c thr Hsim _ _ _ _ _ _ Hi Hr Hs) as Hr'.
  pose proof (Ins_blocks _ _ _ _ _ _ Hi Hr Hs) as HB.
  destruct sp.
  - pose proof (shape_entries_pos fexp nf c thr _ _ _ _ _ _ Hi eq_refl Hr') as H2.
    destruct (split_node nf r ax1) as [[[t1 n1] [t2 n2]] ax2] eqn:Hsp.
    pose proof (split_blocks _ _ _ _ _ _ _ Hr' H2 Hsp) as PB.
    intros E. inversion E; subst.
    apply (BlockStep_perm (blocks root) (blocks r)); [reflexivity| |exact HB].
    apply Permutation_sym.
    change (blocks (Inner bf (ECons t1 n1 (ECons t2 n2 ENil)) [scent t1; scent t2]))
      with (blocks_e (ECons t1 n1 (ECons t2 n2 ENil))).
    rewrite !blocks_e_cons. unfold blocks_e at 1. cbn [lsubs_e map]. rewrite app_nil_r.
    exact PB.
  - intros E. inversion E; subst. exact HB.
Qed.

End BlocksPres.

Print Assumptions merge_sub_ids.
Print Assumptions split_blocks.
Print Assumptions Ins_blocks.
Print Assumptions insert_root_blocks.
Print Assumptions BlockStep_members.
Print Assumptions BlockStep_together.
