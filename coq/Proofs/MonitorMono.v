(* MonitorMono.v — two successive readers of the peak-memory file: neither ever fails, the
   second never reads a smaller value than the first, and once a value has been read the
   file is never found missing again. *)
From BB Require Import Model.Base Model.Monitor Proofs.MonitorFacts.
From Coq Require Import Lia Sorted.
Open Scope Z_scope.

Definition flt (a b : float) : Prop := PrimFloat.ltb a b = true.
Definition fle (a b : float) : Prop := a = b \/ flt a b.

Lemma fle_refl : forall a, fle a a.
Proof. intros; now left. Qed.

Lemma fle_lt : forall a b c, fle a b -> flt b c -> fle a c.
Proof.
  intros a b c [->|H] H'; right; [exact H'|]. unfold flt in *. eapply ltb_trans; eauto.
Qed.

Lemma fle_trans : forall a b c, fle a b -> fle b c -> fle a c.
Proof.
  intros a b c H [<-|H']; [exact H|]. eapply fle_lt; eauto.
Qed.

(* ------------------------------------------------------------------ *)
(* the writer's program as a function of the values still to publish    *)
(* ------------------------------------------------------------------ *)

Definition wprog (R : list float) : list wop := flat_map update_ops R.

Lemma writer_wprog : forall samples mx, writer samples mx = wprog (running_maxes samples mx).
Proof.
  induction samples as [|x tl IH]; intros mx; simpl; [reflexivity|].
  destruct (PrimFloat.ltb mx x); [|apply IH].
  unfold wprog. simpl. now rewrite IH.
Qed.

(* position of the writer; R = the values not yet renamed into place, in order *)
Definition pos2 (ws : list wop) (s : fs) (R : list float) : Prop :=
  ws = wprog R \/
  exists v R', R = v :: R' /\
    (ws = WWrite v :: WFlush :: WFsync :: WClose :: WReplace :: wprog R' \/
     (ws = WFlush :: WFsync :: WClose :: WReplace :: wprog R' /\ wbuf s = Some v) \/
     (ws = WFsync :: WClose :: WReplace :: wprog R' /\ tmp s = Some (CVal v)) \/
     (ws = WClose :: WReplace :: wprog R' /\ tmp s = Some (CVal v)) \/
     (ws = WReplace :: wprog R' /\ tmp s = Some (CVal v))).

(* the peak file holds a complete value below everything still to be published *)
Definition pk_sorted (pk : option cont) (R : list float) : Prop :=
  match pk with
  | None => StronglySorted flt R
  | Some (CVal p) => StronglySorted flt (p :: R)
  | Some CEmpty => False
  end.

(* how the peak file may change in one writer operation *)
Definition pk_next (pk pk' : option cont) : Prop :=
  pk' = pk \/
  exists v, pk' = Some (CVal v) /\
            match pk with None => True | Some (CVal p) => flt p v | Some CEmpty => False end.

Lemma wstep_inv : forall o ws s R, pos2 (o :: ws) s R -> pk_sorted (peak s) R ->
  exists R', pos2 ws (wstep s o) R' /\ pk_sorted (peak (wstep s o)) R' /\
             pk_next (peak s) (peak (wstep s o)).
Proof.
  intros o ws s R Hpos Hs.
  destruct Hpos as [E | (v & R' & -> & [E | [[E Hb] | [[E Ht] | [[E Ht] | [E Ht]]]]])].
  - destruct R as [|v R']; [discriminate|]. unfold wprog in E; simpl in E.
    inversion E; subst. exists (v :: R'). simpl. split; [|split; [exact Hs | now left]].
    right. exists v, R'. split; [reflexivity|]. now left.
  - inversion E; subst. exists (v :: R'). simpl. split; [|split; [exact Hs | now left]].
    right. exists v, R'. split; [reflexivity|]. right; left. split; reflexivity.
  - inversion E; subst. exists (v :: R'). simpl. rewrite Hb. simpl.
    split; [|split; [exact Hs | now left]].
    right. exists v, R'. split; [reflexivity|]. right; right; left. split; reflexivity.
  - inversion E; subst. exists (v :: R'). simpl. split; [|split; [exact Hs | now left]].
    right. exists v, R'. split; [reflexivity|]. right; right; right; left. now split.
  - inversion E; subst. exists (v :: R'). simpl. split; [|split; [exact Hs | now left]].
    right. exists v, R'. split; [reflexivity|]. right; right; right; right. now split.
  - inversion E; subst. exists R'. simpl. rewrite Ht. split; [now left|].
    unfold pk_sorted in Hs. destruct (peak s) as [[|p]|].
    + contradiction.
    + inversion Hs as [|? ? Hs' Hf]; subst. split; [exact Hs'|].
      right. exists v. split; [reflexivity|]. inversion Hf; subst. assumption.
    + split; [exact Hs|]. right. exists v. split; [reflexivity|exact I].
Qed.

(* ------------------------------------------------------------------ *)
(* the readers                                                         *)
(* ------------------------------------------------------------------ *)

Definition rval (r : rstate) : option float :=
  match r with
  | ROpened (CVal v) => Some v
  | RDone (RSome v) => Some v
  | _ => None
  end.
Definition rgood (r : rstate) : Prop := r <> ROpened CEmpty /\ r <> RDone RError.

Definition below_peak (pk : option cont) (r : rstate) : Prop :=
  forall v, rval r = Some v -> exists p, pk = Some (CVal p) /\ fle v p.

Record rinv (pk : option cont) (r1 r2 : rstate) : Prop := mkRinv {
  ri_good1 : rgood r1;
  ri_good2 : rgood r2;
  ri_below1 : below_peak pk r1;
  ri_below2 : below_peak pk r2;
  ri_seq : r2 <> RStart -> rdone r1 = true;
  ri_mono : forall v1 v2, rval r1 = Some v1 -> rval r2 = Some v2 -> fle v1 v2;
  ri_keep : forall v1, rval r1 = Some v1 -> r2 <> RDone RNone
}.

Lemma below_peak_next : forall pk pk' r, pk_next pk pk' -> below_peak pk r -> below_peak pk' r.
Proof.
  intros pk pk' r [->|(w & -> & Hw)] H; [exact H|].
  intros v Hv. destruct (H v Hv) as (p & -> & Hp).
  exists w. split; [reflexivity|]. eapply fle_lt; eauto.
Qed.

Lemma rinv_next : forall pk pk' r1 r2, pk_next pk pk' -> rinv pk r1 r2 -> rinv pk' r1 r2.
Proof.
  intros pk pk' r1 r2 Hn [G1 G2 B1 B2 Sq Mo Ke].
  constructor; auto; eapply below_peak_next; eauto.
Qed.

Lemma below_peak_step : forall s r, below_peak (peak s) r -> below_peak (peak s) (rstep s r).
Proof.
  intros s r H v Hv. destruct r as [|c|x]; simpl in Hv.
  - destruct (peak s) as [[|p]|]; simpl in Hv; try discriminate.
    inversion Hv; subst. exists v. split; [reflexivity|apply fle_refl].
  - destruct c as [|w]; simpl in Hv; try discriminate. apply H. exact Hv.
  - apply H. exact Hv.
Qed.

Lemma rgood_step : forall s r, peak s <> Some CEmpty -> rgood r -> rgood (rstep s r).
Proof.
  intros s r Hp [G1 G2]. destruct r as [|c|x]; simpl.
  - destruct (peak s) as [[|p]|]; split; try discriminate. contradiction.
  - destruct c; [contradiction|]. split; discriminate.
  - split; assumption.
Qed.

Lemma rval_step_opened : forall s r, r <> RStart -> rgood r -> rval (rstep s r) = rval r.
Proof.
  intros s r Hr [G1 G2]. destruct r as [|[|v]|x]; simpl; try reflexivity; contradiction.
Qed.

Lemma rinv_step1 : forall s r1 r2, peak s <> Some CEmpty ->
  rinv (peak s) r1 r2 -> rinv (peak s) (rstep s r1) r2.
Proof.
  intros s r1 r2 Hp [G1 G2 B1 B2 Sq Mo Ke].
  destruct r1 as [|c|x].
  - (* reader 1 starts: reader 2 has not started *)
    assert (E2 : r2 = RStart).
    { destruct r2 as [|c2|x2]; [reflexivity| |]; (assert (H : false = true) by (apply Sq; discriminate));
        discriminate. }
    subst r2. constructor; auto.
    + apply rgood_step; auto.
    + apply below_peak_step; auto.
    + intros v1 v2 _ H; discriminate.
    + intros; discriminate.
  - assert (Ev : rval (rstep s (ROpened c)) = rval (ROpened c))
      by (apply rval_step_opened; [discriminate|exact G1]).
    constructor; auto.
    + apply rgood_step; auto.
    + apply below_peak_step; auto.
    + intros _. destruct c; reflexivity.
    + intros v1 v2 H1 H2. rewrite Ev in H1. eauto.
    + intros v1 H1. rewrite Ev in H1. eauto.
  - simpl. constructor; auto.
Qed.

Lemma rinv_step2 : forall s r1 r2, peak s <> Some CEmpty -> rdone r1 = true ->
  rinv (peak s) r1 r2 -> rinv (peak s) r1 (rstep s r2).
Proof.
  intros s r1 r2 Hp Hd [G1 G2 B1 B2 Sq Mo Ke].
  destruct r2 as [|c|x].
  - constructor; auto.
    + apply rgood_step; auto.
    + apply below_peak_step; auto.
    + intros v1 v2 H1 H2. destruct (B1 v1 H1) as (p & Ep & Hle).
      simpl in H2. rewrite Ep in H2. simpl in H2. inversion H2; subst. exact Hle.
    + intros v1 H1. destruct (B1 v1 H1) as (p & Ep & Hle). simpl. rewrite Ep. discriminate.
  - assert (Ev : rval (rstep s (ROpened c)) = rval (ROpened c))
      by (apply rval_step_opened; [discriminate|exact G2]).
    constructor; auto.
    + apply rgood_step; auto.
    + apply below_peak_step; auto.
    + intros v1 v2 H1 H2. rewrite Ev in H2. eauto.
    + intros v1 H1. destruct c as [|w]; simpl; discriminate.
  - simpl. constructor; auto.
Qed.

(* ------------------------------------------------------------------ *)
(* the combined invariant is preserved by every schedule               *)
(* ------------------------------------------------------------------ *)

Definition inv2 (ws : list wop) (s : fs) (r1 r2 : rstate) : Prop :=
  exists R, pos2 ws s R /\ pk_sorted (peak s) R /\ rinv (peak s) r1 r2.

Lemma pk_sorted_nonempty : forall pk R, pk_sorted pk R -> pk <> Some CEmpty.
Proof. intros pk R H E. subst. exact H. Qed.

Lemma exec2_inv : forall sched ws s r1 r2, inv2 ws s r1 r2 ->
  let '(s', r1', r2') := exec2 sched ws s r1 r2 in rinv (peak s') r1' r2'.
Proof.
  induction sched as [|n tl IH]; intros ws s r1 r2 (R & Hpos & Hs & Hr).
  - simpl. exact Hr.
  - pose proof (pk_sorted_nonempty _ _ Hs) as Hne.
    destruct n as [|[|n]]; simpl.
    + destruct ws as [|o ws'].
      * apply IH. exists R. auto.
      * destruct (wstep_inv _ _ _ _ Hpos Hs) as (R' & Hpos' & Hs' & Hn).
        apply IH. exists R'. split; [exact Hpos'|]. split; [exact Hs'|].
        eapply rinv_next; eauto.
    + apply IH. exists R. split; [exact Hpos|]. split; [exact Hs|]. now apply rinv_step1.
    + destruct (rdone r1) eqn:Ed.
      * apply IH. exists R. split; [exact Hpos|]. split; [exact Hs|]. now apply rinv_step2.
      * apply IH. exists R. auto.
Qed.

Lemma inv2_init : forall samples mx0, inv2 (writer samples mx0) fs0 RStart RStart.
Proof.
  intros samples mx0. exists (running_maxes samples mx0). split; [|split].
  - left. apply writer_wprog.
  - simpl. apply published_increasing.
  - constructor; try (split; discriminate); try (intros v H; discriminate);
      try (intros H; contradiction); intros v1 v2 H; discriminate.
Qed.

Lemma two_readers_inv : forall samples mx0 sched,
  let '(s, r1, r2) := exec2 sched (writer samples mx0) fs0 RStart RStart in
  rinv (peak s) r1 r2.
Proof. intros. apply exec2_inv. apply inv2_init. Qed.

(* ------------------------------------------------------------------ *)
(* the theorems                                                        *)
(* ------------------------------------------------------------------ *)

(* A1 *)
Theorem two_readers_safe : forall samples mx0 sched,
  let '(s, r1, r2) := exec2 sched (writer samples mx0) fs0 RStart RStart in
  r1 <> RDone RError /\ r2 <> RDone RError.
Proof.
  intros samples mx0 sched. pose proof (two_readers_inv samples mx0 sched) as H.
  destruct (exec2 sched (writer samples mx0) fs0 RStart RStart) as [[s r1] r2].
  destruct H as [[_ G1] [_ G2] _ _ _ _ _]. split; assumption.
Qed.

(* neither reader ever holds an empty inode either *)
Theorem two_readers_never_open_empty : forall samples mx0 sched,
  let '(s, r1, r2) := exec2 sched (writer samples mx0) fs0 RStart RStart in
  r1 <> ROpened CEmpty /\ r2 <> ROpened CEmpty.
Proof.
  intros samples mx0 sched. pose proof (two_readers_inv samples mx0 sched) as H.
  destruct (exec2 sched (writer samples mx0) fs0 RStart RStart) as [[s r1] r2].
  destruct H as [[G1 _] [G2 _] _ _ _ _ _]. split; assumption.
Qed.

(* A2 *)
Theorem two_readers_monotone : forall samples mx0 sched s v1 v2,
  exec2 sched (writer samples mx0) fs0 RStart RStart = (s, RDone (RSome v1), RDone (RSome v2)) ->
  v1 = v2 \/ PrimFloat.ltb v1 v2 = true.
Proof.
  intros samples mx0 sched s v1 v2 E.
  pose proof (two_readers_inv samples mx0 sched) as H. rewrite E in H.
  exact (ri_mono _ _ _ H v1 v2 eq_refl eq_refl).
Qed.

(* A3 *)
Theorem published_never_disappears : forall samples mx0 sched s r1 r2 v1,
  exec2 sched (writer samples mx0) fs0 RStart RStart = (s, r1, r2) ->
  r1 = RDone (RSome v1) -> rdone r2 = true -> r2 <> RDone RNone.
Proof.
  intros samples mx0 sched s r1 r2 v1 E E1 _.
  pose proof (two_readers_inv samples mx0 sched) as H. rewrite E in H. subst r1.
  exact (ri_keep _ _ _ H v1 eq_refl).
Qed.

(* with A1: a completed second reader then returns a value, and it is not below v1 *)
Corollary second_reader_sees_value : forall samples mx0 sched s r2 v1,
  exec2 sched (writer samples mx0) fs0 RStart RStart = (s, RDone (RSome v1), r2) ->
  rdone r2 = true ->
  exists v2, r2 = RDone (RSome v2) /\ (v1 = v2 \/ PrimFloat.ltb v1 v2 = true).
Proof.
  intros samples mx0 sched s r2 v1 E Hd.
  pose proof (two_readers_inv samples mx0 sched) as H. rewrite E in H.
  destruct r2 as [|c|[|v2|]]; try discriminate.
  - exfalso. exact (ri_keep _ _ _ H v1 eq_refl eq_refl).
  - exists v2. split; [reflexivity|]. exact (ri_mono _ _ _ H v1 v2 eq_refl eq_refl).
  - exfalso. destruct (ri_good2 _ _ _ H) as [_ G]. now apply G.
Qed.

(* the read values are published running maxima, and the file still holds at least v2 *)
Theorem two_readers_below_final : forall samples mx0 sched s v1 v2,
  exec2 sched (writer samples mx0) fs0 RStart RStart = (s, RDone (RSome v1), RDone (RSome v2)) ->
  exists p, peak s = Some (CVal p) /\ (v2 = p \/ PrimFloat.ltb v2 p = true).
Proof.
  intros samples mx0 sched s v1 v2 E.
  pose proof (two_readers_inv samples mx0 sched) as H. rewrite E in H.
  exact (ri_below2 _ _ _ H v2 eq_refl).
Qed.

(* non-vacuity: both readers complete with different values.  6 writer ops publish 1.0,
   reader 1 reads it (2 steps), 6 more ops publish 2.0, reader 2 reads that. *)
Example two_readers_monotone_nonvacuous :
  exists s,
    exec2 [0;0;0;0;0;0; 1;1; 0;0;0;0;0;0; 2;2]%nat (writer [1%float; 2%float] 0%float)
          fs0 RStart RStart
    = (s, RDone (RSome 1%float), RDone (RSome 2%float)) /\
    PrimFloat.ltb 1%float 2%float = true /\ PrimFloat.eqb 1%float 2%float = false.
Proof. eexists. vm_compute. split; [reflexivity|split; reflexivity]. Qed.

(* reader 2 is held back until reader 1 is done: its early steps are ignored, and reader 1,
   having opened the old inode before the second rename, still reads the old value *)
Example two_readers_overlap :
  exists s,
    exec2 [0;0;0;0;0;0; 1; 2;2; 0;0;0;0;0;0; 1; 2;2]%nat (writer [1%float; 2%float] 0%float)
          fs0 RStart RStart
    = (s, RDone (RSome 1%float), RDone (RSome 2%float)).
Proof. eexists. vm_compute. reflexivity. Qed.
