(* TreeSums.v — counters never wrap: the width is chosen from the new count and every
   per-bit sum is bounded by the count; inner entries are the exact totals of the
   sub-tree beneath them. *)
From BB Require Import Model.Tree Proofs.ListFacts Proofs.TreeDefs Proofs.TreeRel Proofs.TreeShape.
From Coq Require Import Lia Permutation.
Open Scope Z_scope.

Definition vadd (a b : list Z) : list Z := map2 Z.add a b.
Definition sub_exact (s : sub) : Prop :=
  0 <= sn s < 2^64 /\ Forall (fun k => 0 <= k <= sn s) (sls s) /\
  sw s = minw (sn s) /\ scent s = centroid_fpv (sls s) (sn s).
(* the same without the cached centroid (holds of [empty_sub]) *)
Definition sub_exact0 (s : sub) : Prop :=
  0 <= sn s < 2^64 /\ Forall (fun k => 0 <= k <= sn s) (sls s) /\ sw s = minw (sn s).
Definition tot_n (l : list sub) : Z := fold_right (fun s acc => sn s + acc) 0 l.
Definition tot_ls (nf : nat) (l : list sub) : list Z :=
  fold_right (fun s acc => vadd (sls s) acc) (repeat 0 nf) l.
(* every entry of an inner node summarises exactly the leaves below it *)
Fixpoint sums_ok (nf : nat) (nd : node) : Prop :=
  match nd with
  | Leaf _ _ es _ => Forall sub_exact es
  | Inner _ es _ => sums_ok_e nf es
  end
with sums_ok_e (nf : nat) (es : ents) : Prop :=
  match es with
  | ENil => True
  | ECons e ch tl =>
      sub_exact e /\ sn e = tot_n (lsubs ch) /\ sls e = tot_ls nf (lsubs ch) /\
      Permutation (sids e) (concat (map sids (lsubs ch))) /\
      sums_ok nf ch /\ sums_ok_e nf tl
  end.

(* ================= 1. widths ================= *)
Lemma two64 : 2^64 = 18446744073709551616.
Proof. reflexivity. Qed.

Lemma minw_holds n : 0 <= n < 2^64 -> n <= wmax (minw n).
Proof.
  rewrite two64. intros H. unfold minw, np_min_scalar_type.
  destruct (n <=? 255) eqn:E1.
  { apply Z.leb_le in E1. change (wmax W8) with 255. exact E1. }
  destruct (n <=? 65535) eqn:E2.
  { apply Z.leb_le in E2. change (wmax W16) with 65535. exact E2. }
  destruct (n <=? 4294967295) eqn:E3.
  { apply Z.leb_le in E3. change (wmax W32) with 4294967295. exact E3. }
  destruct (n <=? 18446744073709551615) eqn:E4.
  { apply Z.leb_le in E4. change (wmax W64) with 18446744073709551615. exact E4. }
  change (wmax W64) with 18446744073709551615. lia.
Qed.

Lemma wbits_pos w : 0 < 2 ^ wbits w.
Proof. destruct w; reflexivity. Qed.

Lemma wrap_small w x : 0 <= x <= wmax w -> wrap w x = x.
Proof.
  unfold wrap, wmax. intros H. pose proof (wbits_pos w) as P.
  apply Z.mod_small. lia.
Qed.

Lemma sub_exact_0 s : sub_exact s -> sub_exact0 s.
Proof. intros (A & B & C & _). exact (conj A (conj B C)). Qed.

(* ================= map2 helpers ================= *)
Lemma map2_ext_Forall {A B C} (P : A -> Prop) (Q : B -> Prop) (f g : A -> B -> C) a b :
  Forall P a -> Forall Q b -> (forall x y, P x -> Q y -> f x y = g x y) ->
  map2 f a b = map2 g a b.
Proof.
  intros Ha; revert b; induction Ha as [|x a Hx Ha IH]; intros b Hb Hfg; cbn [map2]; [reflexivity|].
  destruct Hb as [|y b Hy Hb]; [reflexivity|].
  rewrite (Hfg x y Hx Hy). f_equal. apply IH; assumption.
Qed.

Lemma map2_Forall {A B C} (P : A -> Prop) (Q : B -> Prop) (R : C -> Prop) (f : A -> B -> C) a b :
  Forall P a -> Forall Q b -> (forall x y, P x -> Q y -> R (f x y)) -> Forall R (map2 f a b).
Proof.
  intros Ha; revert b; induction Ha as [|x a Hx Ha IH]; intros b Hb Hf; cbn [map2]; [constructor|].
  destruct Hb as [|y b Hy Hb]; [constructor|].
  constructor; [apply Hf; assumption|apply IH; assumption].
Qed.

(* ================= vadd ================= *)
Lemma vadd_comm a b : vadd a b = vadd b a.
Proof.
  unfold vadd. revert b; induction a as [|x a IH]; intros [|y b]; cbn [map2]; auto.
  rewrite IH. f_equal. lia.
Qed.
Lemma vadd_assoc a b d : vadd a (vadd b d) = vadd (vadd a b) d.
Proof.
  unfold vadd. revert b d; induction a as [|x a IH]; intros [|y b] [|z d]; cbn [map2]; auto.
  rewrite IH. f_equal. lia.
Qed.
Lemma vadd_swap_r a b d : vadd (vadd a b) d = vadd (vadd a d) b.
Proof. rewrite <- !vadd_assoc. f_equal. apply vadd_comm. Qed.
Lemma vadd_0_r nf x : length x = nf -> vadd x (repeat 0 nf) = x.
Proof.
  unfold vadd. intros <-. induction x as [|a x IH]; cbn [map2 length repeat]; auto.
  rewrite IH. f_equal. lia.
Qed.
Lemma vadd_0_l nf x : length x = nf -> vadd (repeat 0 nf) x = x.
Proof. intros H. rewrite vadd_comm. now apply vadd_0_r. Qed.
Lemma vadd_length a b : length (vadd a b) = Nat.min (length a) (length b).
Proof. apply map2_length. Qed.

(* ================= 2. update never wraps ================= *)
Lemma upd_sub_exact0 s t :
  sub_exact0 s -> sub_exact0 t -> sn s + sn t < 2^64 ->
  sub_exact (upd_sub s t) /\ sn (upd_sub s t) = sn s + sn t /\
  sls (upd_sub s t) = vadd (sls s) (sls t) /\ sids (upd_sub s t) = sids s ++ sids t.
Proof.
  intros (Hn1 & Hl1 & _) (Hn2 & Hl2 & _) Hb.
  unfold upd_sub, sub_exact. cbv zeta. cbn [sn sls sw scent sids].
  remember (sn s + sn t) as n eqn:En.
  assert (Hw : n <= wmax (minw n)) by (apply minw_holds; lia).
  assert (Hwn : wrap (minw n) n = n) by (apply wrap_small; lia).
  assert (Hls : map2 (fun a b => wrap (minw n) (wrap (minw n) a + b)) (sls s) (sls t)
                = vadd (sls s) (sls t)).
  { unfold vadd.
    apply (map2_ext_Forall (fun k => 0 <= k <= sn s) (fun k => 0 <= k <= sn t)); auto.
    intros x y Hx Hy. rewrite (wrap_small _ x) by lia. apply wrap_small. lia. }
  rewrite Hls, Hwn.
  refine (conj (conj _ (conj _ (conj eq_refl eq_refl))) (conj eq_refl (conj eq_refl eq_refl))).
  - lia.
  - unfold vadd.
    apply (map2_Forall (fun k => 0 <= k <= sn s) (fun k => 0 <= k <= sn t)); auto.
    intros x y Hx Hy. lia.
Qed.

Lemma upd_sub_exact s t :
  length (sls s) = length (sls t) -> sub_exact s -> sub_exact t -> sn s + sn t < 2^64 ->
  sub_exact (upd_sub s t) /\ sn (upd_sub s t) = sn s + sn t /\
  sls (upd_sub s t) = vadd (sls s) (sls t) /\ sids (upd_sub s t) = sids s ++ sids t.
Proof.
  intros _ Hs Ht Hb. apply upd_sub_exact0; auto using sub_exact_0.
Qed.

(* the variant for a tracking entry that starts from [empty_sub] *)
Lemma upd_sub_exact_from0 s t :
  length (sls s) = length (sls t) -> sub_exact0 s -> sub_exact t -> sn s + sn t < 2^64 ->
  sub_exact (upd_sub s t) /\ sn (upd_sub s t) = sn s + sn t /\
  sls (upd_sub s t) = vadd (sls s) (sls t) /\ sids (upd_sub s t) = sids s ++ sids t.
Proof.
  intros _ Hs Ht Hb. apply upd_sub_exact0; auto using sub_exact_0.
Qed.

Lemma empty_sub_exact0 nf : sub_exact0 (empty_sub nf).
Proof.
  unfold sub_exact0, empty_sub. cbn [sn sls sw].
  refine (conj _ (conj _ eq_refl)).
  - rewrite two64. lia.
  - apply Forall_forall. intros k Hk. apply repeat_spec in Hk. lia.
Qed.

(* ================= 3. merge never wraps ================= *)
Section Merge.
Variable fexp : float -> float.
Variable c : crit.
Variable thr : float.

Lemma merge_sub_exact s t m :
  length (sls s) = length (sls t) -> sub_exact s -> sub_exact t -> sn s + sn t < 2^64 ->
  merge_sub fexp c thr s t = Some m ->
  sub_exact m /\ sn m = sn s + sn t /\ sls m = vadd (sls s) (sls t) /\
  sids m = sids s ++ sids t.
Proof.
  intros _ (Hn1 & Hl1 & _) (Hn2 & Hl2 & _) Hb. unfold merge_sub. cbv zeta.
  remember (sn s + sn t) as n eqn:En.
  assert (Hw : n <= wmax (minw n)) by (apply minw_holds; lia).
  assert (Hwn : wrap (minw n) n = n) by (apply wrap_small; lia).
  assert (Hls : map2 (fun a b => wrap (minw n) (wrap (minw n) a + wrap (minw n) b)) (sls s) (sls t)
                = vadd (sls s) (sls t)).
  { unfold vadd.
    apply (map2_ext_Forall (fun k => 0 <= k <= sn s) (fun k => 0 <= k <= sn t)); auto.
    intros x y Hx Hy. rewrite (wrap_small _ x), (wrap_small _ y) by lia. apply wrap_small. lia. }
  assert (Hbd : Forall (fun k => 0 <= k <= n) (vadd (sls s) (sls t))).
  { unfold vadd.
    apply (map2_Forall (fun k => 0 <= k <= sn s) (fun k => 0 <= k <= sn t)); auto.
    intros x y Hx Hy. lia. }
  assert (Hmw : map (wrap (minw n)) (vadd (sls s) (sls t)) = vadd (sls s) (sls t)).
  { rewrite <- (map_id (vadd (sls s) (sls t))) at 2. apply map_ext_Forall.
    eapply Forall_impl; [|exact Hbd]. cbv beta. intros k Hk. apply wrap_small. lia. }
  rewrite Hls, Hwn, Hmw.
  destruct (accept fexp c thr (vadd (sls s) (sls t)) n (sls s) (sls t) (sn s) (sn t));
    [|discriminate].
  intros E. injection E as <-. unfold sub_exact. cbn [sn sls sw scent sids].
  refine (conj (conj _ (conj Hbd (conj eq_refl eq_refl))) (conj eq_refl (conj eq_refl eq_refl))).
  lia.
Qed.
End Merge.

(* ================= 4. the width choice matters ================= *)
Example width_matters : wrap W8 (wrap W8 200 + 100) <> 300.
Proof. vm_compute. discriminate. Qed.

(* ================= 9. singletons ================= *)
Lemma centroid_singleton (fp : list bool) : centroid_fpv (map b2z fp) 1 = fp.
Proof.
  unfold centroid_fpv, centroid_vals. change (1 <=? 1) with true. cbv iota.
  rewrite !map_map. induction fp as [|b fp IH]; cbn [map]; [reflexivity|].
  rewrite IH. f_equal. destruct b; reflexivity.
Qed.

Lemma singleton_exact fp id : sub_exact (singleton fp id).
Proof.
  unfold sub_exact, singleton. cbn [sn sls sw scent].
  refine (conj _ (conj _ (conj eq_refl _))).
  - rewrite two64. lia.
  - apply Forall_forall. intros k Hk. apply in_map_iff in Hk. destruct Hk as (b & <- & _).
    destruct b; cbn; lia.
  - symmetry. apply centroid_singleton.
Qed.

(* ================= 5. totals ================= *)
Lemma tot_n_cons x l : tot_n (x :: l) = sn x + tot_n l.
Proof. reflexivity. Qed.
Lemma tot_ls_cons nf x l : tot_ls nf (x :: l) = vadd (sls x) (tot_ls nf l).
Proof. reflexivity. Qed.
Lemma tot_n_nil : tot_n [] = 0.
Proof. reflexivity. Qed.
Lemma tot_ls_nil nf : tot_ls nf [] = repeat 0 nf.
Proof. reflexivity. Qed.

Lemma tot_n_app a b : tot_n (a ++ b) = tot_n a + tot_n b.
Proof.
  induction a as [|x a IH]; [reflexivity|].
  cbn [app]. rewrite !tot_n_cons, IH. lia.
Qed.

Lemma tot_ls_length nf l : Forall (ls_len nf) l -> length (tot_ls nf l) = nf.
Proof.
  induction 1 as [|x l Hx Hl IH].
  - apply repeat_length.
  - rewrite tot_ls_cons, vadd_length, IH. unfold ls_len in Hx. rewrite Hx. apply Nat.min_id.
Qed.

(* only the rows of the right operand matter *)
Lemma tot_ls_app nf a b :
  Forall (ls_len nf) b -> tot_ls nf (a ++ b) = vadd (tot_ls nf a) (tot_ls nf b).
Proof.
  intros Hb. induction a as [|x a IH].
  - cbn [app]. rewrite tot_ls_nil. symmetry. apply vadd_0_l. now apply tot_ls_length.
  - cbn [app]. rewrite !tot_ls_cons, IH. apply vadd_assoc.
Qed.

Lemma tot_n_perm a b : Permutation a b -> tot_n a = tot_n b.
Proof.
  induction 1 as [|x l l' _ IH|x y l|l l' l'' _ IH1 _ IH2]; rewrite ?tot_n_cons; lia.
Qed.

Lemma tot_ls_perm nf a b : Permutation a b -> tot_ls nf a = tot_ls nf b.
Proof.
  induction 1 as [|x l l' _ IH|x y l|l l' l'' _ IH1 _ IH2]; rewrite ?tot_ls_cons.
  - reflexivity.
  - now rewrite IH.
  - rewrite !vadd_assoc. f_equal. apply vadd_comm.
  - congruence.
Qed.

Lemma tot_n_nonneg l : Forall sub_exact l -> 0 <= tot_n l.
Proof.
  induction 1 as [|x l Hx Hl IH]; [reflexivity|].
  rewrite tot_n_cons. destruct Hx as (Hx & _). lia.
Qed.

Lemma tot_n_sel_le b m l : Forall sub_exact l -> tot_n (sel b m l) <= tot_n l.
Proof.
  revert l; induction m as [|mb m IH]; intros [|x l] H; cbn [sel]; try reflexivity.
  - apply tot_n_nonneg in H. exact H.
  - inversion H as [|? ? Hx Hl]; subst. specialize (IH l Hl). destruct Hx as (Hx & _).
    destruct (Bool.eqb mb b); rewrite ?tot_n_cons; lia.
Qed.

(* member labels *)
Lemma mem_app (a b : list sub) :
  concat (map sids (a ++ b)) = concat (map sids a) ++ concat (map sids b).
Proof. now rewrite map_app, concat_app. Qed.
Lemma mem_perm (a b : list sub) :
  Permutation a b -> Permutation (concat (map sids a)) (concat (map sids b)).
Proof. intros H. rewrite <- !flat_map_concat_map. now apply flat_map_perm. Qed.

(* ================= folding [upd_sub] over a list ================= *)
Lemma sub_len_ls_Forall nf l : Forall (sub_len nf) l -> Forall (ls_len nf) l.
Proof. apply Forall_impl. intros s. apply sub_len_ls. Qed.

Lemma fold_upd_exact nf l : forall t,
  sub_exact0 t -> ls_len nf t -> Forall sub_exact l -> Forall (ls_len nf) l ->
  sn t + tot_n l < 2^64 ->
  sub_exact0 (fold_left upd_sub l t) /\
  sn (fold_left upd_sub l t) = sn t + tot_n l /\
  sls (fold_left upd_sub l t) = vadd (sls t) (tot_ls nf l) /\
  sids (fold_left upd_sub l t) = sids t ++ concat (map sids l) /\
  (l <> [] -> sub_exact (fold_left upd_sub l t)).
Proof.
  induction l as [|x l IH]; intros t Ht Lt Hl Ll Hb.
  - cbn [fold_left map concat]. rewrite tot_n_nil, tot_ls_nil, app_nil_r.
    refine (conj Ht (conj _ (conj _ (conj eq_refl _)))).
    + lia.
    + symmetry. apply vadd_0_r. exact Lt.
    + congruence.
  - inversion Hl as [|? ? Hx Hl']; subst. inversion Ll as [|? ? Lx Ll']; subst.
    rewrite tot_n_cons in Hb. pose proof (tot_n_nonneg l Hl') as Hnn.
    assert (Hb1 : sn t + sn x < 2^64) by lia.
    destruct (upd_sub_exact0 t x Ht (sub_exact_0 x Hx) Hb1) as (U1 & U2 & U3 & U4).
    pose proof (sub_len_ls nf _ (upd_sub_ls_len nf t x Lt Lx)) as Lu.
    assert (Hb2 : sn (upd_sub t x) + tot_n l < 2^64) by lia.
    destruct (IH (upd_sub t x) (sub_exact_0 _ U1) Lu Hl' Ll' Hb2) as (I1 & I2 & I3 & I4 & I5).
    cbn [fold_left map concat]. rewrite tot_n_cons, tot_ls_cons.
    refine (conj I1 (conj _ (conj _ (conj _ _)))).
    + rewrite I2, U2. lia.
    + rewrite I3, U3. symmetry. apply vadd_assoc.
    + rewrite I4, U4. now rewrite <- app_assoc.
    + intros _. destruct l as [|y l]; [exact U1|]. apply I5. discriminate.
Qed.

Lemma fold_empty_exact nf l :
  l <> [] -> Forall sub_exact l -> Forall (ls_len nf) l -> tot_n l < 2^64 ->
  sub_exact (fold_left upd_sub l (empty_sub nf)) /\
  sn (fold_left upd_sub l (empty_sub nf)) = tot_n l /\
  sls (fold_left upd_sub l (empty_sub nf)) = tot_ls nf l /\
  sids (fold_left upd_sub l (empty_sub nf)) = concat (map sids l).
Proof.
  intros Hne Hl Ll Hb.
  assert (Hb' : sn (empty_sub nf) + tot_n l < 2^64) by (cbn [empty_sub sn]; lia).
  destruct (fold_upd_exact nf l (empty_sub nf) (empty_sub_exact0 nf) (empty_sub_ls_len nf) Hl Ll Hb')
    as (_ & I2 & I3 & I4 & I5).
  refine (conj (I5 Hne) (conj _ (conj _ _))).
  - rewrite I2. cbn [empty_sub sn]. lia.
  - rewrite I3. cbn [empty_sub sls]. apply vadd_0_l. now apply tot_ls_length.
  - rewrite I4. reflexivity.
Qed.

(* ================= reading shape / sums off the leaves ================= *)
Lemma shape_lsubs_mut nf :
  (forall nd, shape nf nd -> Forall (sub_len nf) (lsubs nd)) /\
  (forall es, shape_e nf es -> Forall (sub_len nf) (lsubs_e es)).
Proof.
  apply node_mutind.
  - intros id bf es cache (_ & _ & H). exact H.
  - intros bf es IH cache (_ & _ & _ & H). cbn [lsubs]. apply IH, H.
  - intros _. constructor.
  - intros e ch IHch tl IHtl (_ & Hch & Htl). cbn [lsubs_e].
    apply Forall_app. split; [apply IHch, Hch|apply IHtl, Htl].
Qed.
Lemma shape_lsubs nf nd : shape nf nd -> Forall (ls_len nf) (lsubs nd).
Proof. intros H. apply sub_len_ls_Forall. now apply (proj1 (shape_lsubs_mut nf)). Qed.
Lemma shape_lsubs_e nf es : shape_e nf es -> Forall (ls_len nf) (lsubs_e es).
Proof. intros H. apply sub_len_ls_Forall. now apply (proj2 (shape_lsubs_mut nf)). Qed.

Lemma sums_lsubs_mut nf :
  (forall nd, sums_ok nf nd -> Forall sub_exact (lsubs nd)) /\
  (forall es, sums_ok_e nf es -> Forall sub_exact (lsubs_e es)).
Proof.
  apply node_mutind.
  - intros id bf es cache H. exact H.
  - intros bf es IH cache H. cbn [lsubs]. apply IH, H.
  - intros _. constructor.
  - intros e ch IHch tl IHtl (_ & _ & _ & _ & Hch & Htl). cbn [lsubs_e].
    apply Forall_app. split; [apply IHch, Hch|apply IHtl, Htl].
Qed.
Lemma sums_lsubs nf nd : sums_ok nf nd -> Forall sub_exact (lsubs nd).
Proof. apply (proj1 (sums_lsubs_mut nf)). Qed.
Lemma sums_lsubs_e nf es : sums_ok_e nf es -> Forall sub_exact (lsubs_e es).
Proof. apply (proj2 (sums_lsubs_mut nf)). Qed.

Lemma ents_subs_length es : length (ents_subs es) = ents_len es.
Proof. induction es as [|e ch tl IH]; cbn; congruence. Qed.

(* an entry summarises a node *)
Definition summ (nf : nat) (t : sub) (n : node) : Prop :=
  sub_exact t /\ sn t = tot_n (lsubs n) /\ sls t = tot_ls nf (lsubs n) /\
  Permutation (sids t) (concat (map sids (lsubs n))).
Definition ent_ok (nf : nat) (p : sub * node) : Prop :=
  summ nf (fst p) (snd p) /\ sums_ok nf (snd p).

Lemma sums_ok_e_elist nf es : sums_ok_e nf es <-> Forall (ent_ok nf) (elist es).
Proof.
  induction es as [|e ch tl IH]; cbn [sums_ok_e elist].
  - split; auto.
  - rewrite IH. unfold ent_ok at 1, summ. cbn [fst snd]. split.
    + intros (A & B & C & D & E & F). constructor; [|exact F].
      unfold ent_ok, summ. cbn [fst snd]. tauto.
    + intros H. inversion H as [|? ? Hp Hl]; subst.
      unfold ent_ok, summ in Hp. cbn [fst snd] in Hp. tauto.
Qed.

(* totals of the entries of an inner node = totals of the leaves below *)
Lemma ents_totals nf (l : list (sub * node)) :
  Forall (ent_ok nf) l -> Forall (fun p => Forall (ls_len nf) (lsubs (snd p))) l ->
  tot_n (map fst l) = tot_n (flat_map (fun p => lsubs (snd p)) l) /\
  tot_ls nf (map fst l) = tot_ls nf (flat_map (fun p => lsubs (snd p)) l) /\
  Permutation (concat (map sids (map fst l)))
              (concat (map sids (flat_map (fun p => lsubs (snd p)) l))).
Proof.
  induction 1 as [|p l Hp Hl IH]; intros HL.
  - cbn. auto.
  - inversion HL as [|? ? Lp Ll]; subst. destruct (IH Ll) as (I1 & I2 & I3).
    destruct Hp as ((_ & P1 & P2 & P3) & _).
    assert (Lrest : Forall (ls_len nf) (flat_map (fun p => lsubs (snd p)) l)).
    { clear -Ll. induction Ll as [|q l Hq _ IHl]; cbn [flat_map]; [constructor|].
      apply Forall_app. split; assumption. }
    cbn [map flat_map concat]. rewrite tot_n_cons, tot_ls_cons, tot_n_app, tot_ls_app, mem_app by exact Lrest.
    refine (conj _ (conj _ _)).
    + rewrite P1, I1. reflexivity.
    + rewrite P2, I2. reflexivity.
    + apply Permutation_app; assumption.
Qed.

(* ================= 6-8. split and insertion ================= *)
Section Sums.
Variable fexp : float -> float.
Variable nf : nat.
Variable c : crit.
Variable thr : float.
Hypothesis Hsim : forall a b : fpv,
    length a = nf -> length b = nf -> (sim a a <? sim a b)%float = false.

Notation shape := (shape nf).
Notation shape_e := (shape_e nf).
Notation sub_len := (sub_len nf).
Notation ls_len := (ls_len nf).

(* list-level core of the redistribution: one half of a leaf *)
Lemma half_leaf b m es :
  Forall sub_exact es -> Forall sub_len es -> tot_n es < 2^64 -> sel b m es <> [] ->
  Forall sub_exact (sel b m es) /\
  summ nf (fold_left upd_sub (sel b m es) (empty_sub nf))
       (Leaf O 1 (sel b m es) []).
Proof.
  intros He Le Hb Hne.
  pose proof (Forall_sel sub_exact b m es He) as F.
  pose proof (sub_len_ls_Forall nf _ (Forall_sel sub_len b m es Le)) as L.
  pose proof (tot_n_sel_le b m es He) as Hle.
  destruct (fold_empty_exact nf (sel b m es) Hne F L ltac:(lia)) as (A & B & C & D).
  split; [exact F|]. unfold summ. cbn [lsubs].
  refine (conj A (conj B (conj C _))). rewrite D. apply Permutation_refl.
Qed.

(* one half of an inner node *)
Lemma half_inner b m (l : list (sub * node)) :
  Forall (ent_ok nf) l -> Forall (fun p => sub_len (fst p) /\ shape (snd p)) l ->
  tot_n (flat_map (fun p => lsubs (snd p)) l) < 2^64 -> sel b m l <> [] ->
  Forall (ent_ok nf) (sel b m l) /\
  summ nf (fold_left upd_fst (sel b m l) (empty_sub nf))
       (Inner 1 (eof (sel b m l)) []).
Proof.
  intros He Le Hb Hne.
  assert (LL : forall l0, Forall (fun p => sub_len (fst p) /\ shape (snd p)) l0 ->
                          Forall (fun p => Forall ls_len (lsubs (snd p))) l0).
  { intros l0. apply Forall_impl. intros p [_ Hp]. now apply shape_lsubs. }
  assert (LF : forall l0, Forall (fun p => sub_len (fst p) /\ shape (snd p)) l0 ->
                          Forall ls_len (map fst l0)).
  { intros l0 H0. rewrite Forall_map. eapply Forall_impl; [|exact H0].
    intros p [Hp _]. now apply sub_len_ls. }
  assert (EF : forall l0, Forall (ent_ok nf) l0 -> Forall sub_exact (map fst l0)).
  { intros l0 H0. rewrite Forall_map. eapply Forall_impl; [|exact H0].
    intros p [[Hp _] _]. exact Hp. }
  pose proof (Forall_sel _ b m l He) as F.
  pose proof (Forall_sel _ b m l Le) as L.
  destruct (ents_totals nf l He (LL _ Le)) as (T1 & _ & _).
  destruct (ents_totals nf (sel b m l) F (LL _ L)) as (S1 & S2 & S3).
  pose proof (tot_n_sel_le b m (map fst l) (EF _ He)) as Hle.
  rewrite sel_map in Hle.
  rewrite fold_upd_fst_eq.
  assert (Hne' : map fst (sel b m l) <> []).
  { intros E. apply map_eq_nil in E. congruence. }
  destruct (fold_empty_exact nf (map fst (sel b m l)) Hne' (EF _ F) (LF _ L) ltac:(lia))
    as (A & B & C & D).
  split; [exact F|]. unfold summ. cbn [lsubs]. rewrite lsubs_e_elist, elist_eof.
  refine (conj A (conj _ (conj _ _))).
  - rewrite B. exact S1.
  - rewrite C. exact S2.
  - rewrite D. exact S3.
Qed.

Lemma split_sums_full nd ax t1 n1 t2 n2 ax' :
  shape nd -> sums_ok nf nd -> (2 <= n_entries nd)%nat -> tot_n (lsubs nd) < 2^64 ->
  split_node nf nd ax = ((t1, n1), (t2, n2), ax') ->
  sums_ok nf n1 /\ sums_ok nf n2 /\ summ nf t1 n1 /\ summ nf t2 n2 /\
  Permutation (lsubs n1 ++ lsubs n2) (lsubs nd).
Proof.
  destruct nd as [id bf es cache | bf es cache]; cbn [TreeShape.shape n_entries split_node sums_ok lsubs].
  - intros (Hbf & Hc & Hes) Hok Hn Hb Hs.
    assert (HY : Forall (fun y => length y = nf) cache).
    { subst cache. rewrite Forall_map. eapply Forall_impl; [|exact Hes]. now intros s [_ H]. }
    assert (HL : (2 <= length cache)%nat) by (subst cache; now rewrite map_length).
    pose proof (most_dissimilar_mask nf Hsim cache HY HL) as HM.
    destruct (most_dissimilar nf cache) as [[[f1 f2] s1] s2].
    cbv zeta in HM. destruct HM as (Lm & Ht & Hf).
    assert (Lm' : length (split_mask 0 f1 s1 s2) = length es)
      by (rewrite Lm; subst cache; apply map_length).
    rewrite part_leaf_spec in Hs. cbn [app] in Hs. inversion Hs; subst t1 n1 t2 n2 ax'; clear Hs.
    remember (split_mask 0 f1 s1 s2) as m eqn:Em.
    pose proof (sel_nonempty true m es Lm' Ht) as N1.
    pose proof (sel_nonempty false m es Lm' Hf) as N2.
    destruct (half_leaf true m es Hok Hes Hb N1) as (A1 & B1).
    destruct (half_leaf false m es Hok Hes Hb N2) as (A2 & B2).
    cbn [sums_ok lsubs]. unfold summ in *. cbn [lsubs] in *.
    refine (conj A1 (conj A2 (conj B1 (conj B2 _)))).
    apply sel_perm. exact Lm'.
  - intros (Hbf & Hc & Hne & Hes) Hok Hn Hb Hs.
    change (shape_e es) in Hes. rewrite (shape_e_elist fexp nf thr) in Hes. rewrite sums_ok_e_elist in Hok.
    rewrite lsubs_e_elist in Hb.
    assert (HY : Forall (fun y => length y = nf) cache).
    { subst cache. rewrite ents_subs_elist, map_map, Forall_map.
      eapply Forall_impl; [|exact Hes]. now intros p [[_ H] _]. }
    assert (HL : (2 <= length cache)%nat).
    { subst cache. rewrite map_length, ents_subs_elist, map_length, <- ents_len_elist. exact Hn. }
    pose proof (most_dissimilar_mask nf Hsim cache HY HL) as HM.
    destruct (most_dissimilar nf cache) as [[[f1 f2] s1] s2].
    cbv zeta in HM. destruct HM as (Lm & Ht & Hf).
    assert (Lm' : length (split_mask 0 f1 s1 s2) = length (elist es)).
    { rewrite Lm. subst cache. now rewrite map_length, ents_subs_elist, map_length. }
    rewrite part_inner_spec in Hs. cbn [app elist] in Hs.
    inversion Hs; subst t1 n1 t2 n2 ax'; clear Hs.
    remember (split_mask 0 f1 s1 s2) as m eqn:Em.
    pose proof (sel_nonempty true m _ Lm' Ht) as N1.
    pose proof (sel_nonempty false m _ Lm' Hf) as N2.
    destruct (half_inner true m (elist es) Hok Hes Hb N1) as (A1 & B1).
    destruct (half_inner false m (elist es) Hok Hes Hb N2) as (A2 & B2).
    cbn [sums_ok lsubs]. unfold summ in *. cbn [lsubs] in *.
    rewrite !sums_ok_e_elist, !elist_eof.
    refine (conj A1 (conj A2 (conj B1 (conj B2 _)))).
    rewrite !lsubs_e_elist, !elist_eof, <- flat_map_app.
    apply flat_map_perm, sel_perm. exact Lm'.
Qed.

Lemma split_sums nd ax t1 n1 t2 n2 ax' :
  shape nd -> sums_ok nf nd -> (2 <= n_entries nd)%nat -> tot_n (lsubs nd) < 2^64 ->
  split_node nf nd ax = ((t1,n1),(t2,n2),ax') ->
  sums_ok nf n1 /\ sums_ok nf n2 /\ sub_exact t1 /\ sub_exact t2 /\
  sn t1 = tot_n (lsubs n1) /\ sls t1 = tot_ls nf (lsubs n1) /\
  Permutation (sids t1) (concat (map sids (lsubs n1))) /\
  sn t2 = tot_n (lsubs n2) /\ sls t2 = tot_ls nf (lsubs n2) /\
  Permutation (sids t2) (concat (map sids (lsubs n2))).
Proof.
  intros H1 H2 H3 H4 H5.
  destruct (split_sums_full nd ax t1 n1 t2 n2 ax' H1 H2 H3 H4 H5)
    as (A & B & (C1 & C2 & C3 & C4) & (D1 & D2 & D3 & D4) & _).
  tauto.
Qed.

(* ---------- the effect of one insertion on the totals of a list of leaves ---------- *)
Definition step_ok (l l' : list sub) (s : sub) : Prop :=
  tot_n l' = tot_n l + sn s /\
  tot_ls nf l' = vadd (tot_ls nf l) (sls s) /\
  Permutation (concat (map sids l')) (concat (map sids l) ++ sids s).

Lemma step_ok_perm l1 l1' l2 l2' s :
  Permutation l1 l2 -> Permutation l1' l2' -> step_ok l1 l1' s -> step_ok l2 l2' s.
Proof.
  intros P P' (A & B & C). unfold step_ok.
  rewrite <- (tot_n_perm _ _ P), <- (tot_n_perm _ _ P'),
          <- (tot_ls_perm nf _ _ P), <- (tot_ls_perm nf _ _ P').
  refine (conj A (conj B _)).
  rewrite <- (mem_perm _ _ P), <- (mem_perm _ _ P'). exact C.
Qed.

Lemma step_ok_app A A' B s :
  Forall ls_len B -> step_ok A A' s -> step_ok (A ++ B) (A' ++ B) s.
Proof.
  intros LB (H1 & H2 & H3). unfold step_ok.
  rewrite !tot_n_app, !(tot_ls_app nf _ B LB), !mem_app.
  refine (conj _ (conj _ _)).
  - lia.
  - rewrite H2. apply vadd_swap_r.
  - rewrite H3. rewrite <- !app_assoc. apply Permutation_app_head, Permutation_app_comm.
Qed.

Lemma step_ok_new s : step_ok [] [s] s.
Proof.
  unfold step_ok. rewrite tot_n_cons, tot_ls_cons, tot_n_nil, tot_ls_nil.
  cbn [map concat app]. refine (conj _ (conj _ _)).
  - lia.
  - apply vadd_comm.
  - rewrite app_nil_r. apply Permutation_refl.
Qed.

Lemma step_ok_one x m s :
  ls_len x -> ls_len m ->
  sn m = sn x + sn s -> sls m = vadd (sls x) (sls s) -> sids m = sids x ++ sids s ->
  step_ok [x] [m] s.
Proof.
  intros Lx Lm H1 H2 H3. unfold step_ok.
  rewrite !tot_n_cons, !tot_ls_cons, tot_n_nil, tot_ls_nil.
  rewrite (vadd_0_r nf (sls x) Lx), (vadd_0_r nf (sls m) Lm).
  cbn [map concat]. rewrite !app_nil_r, H3.
  refine (conj _ (conj H2 (Permutation_refl _))). lia.
Qed.

Lemma Ins_sums_mut :
  (forall nd s ax nd' sp ax',
      Ins fexp nf c thr nd s ax nd' sp ax' ->
      shape nd -> sub_len s -> sums_ok nf nd -> sub_exact s ->
      tot_n (lsubs nd) + sn s < 2^64 ->
      sums_ok nf nd' /\ step_ok (lsubs nd) (lsubs nd') s) /\
  (forall es k s cache ax es' cache' ax',
      InsE fexp nf c thr es k s cache ax es' cache' ax' ->
      shape_e es -> cache = map scent (ents_subs es) -> (k < ents_len es)%nat ->
      sub_len s -> sums_ok_e nf es -> sub_exact s ->
      tot_n (lsubs_e es) + sn s < 2^64 ->
      sums_ok_e nf es' /\ step_ok (lsubs_e es) (lsubs_e es') s).
Proof.
  apply Ins_mutind.
  - (* leaf empty *)
    intros id bf cache s ax _ Hs _ He _. cbn [sums_ok lsubs].
    split; [constructor; [exact He|constructor]|apply step_ok_new].
  - (* leaf merge *)
    intros id bf es cache s ax m Hne Hm (Hbf & Hc & Hes) Hs Hok He Hb.
    cbn [sums_ok lsubs] in *. subst cache.
    assert (Hr : (route (map scent es) s < length es)%nat).
    { rewrite <- (map_length scent). apply route_lt. destruct es; [congruence|discriminate]. }
    destruct (upd_split (route (map scent es) s) m s es Hr) as (l1 & l2 & E1 & E2 & _).
    rewrite E2. clear E2 Hr Hne. revert Hm E1.
    generalize (nth (route (map scent es) s) es s). intros x Hm E1. subst es.
    apply Forall_app in Hes. destruct Hes as [L1 L2x].
    inversion L2x as [|? ? Lx L2]; subst.
    apply Forall_app in Hok. destruct Hok as [O1 O2x].
    inversion O2x as [|? ? Ox O2]; subst.
    rewrite tot_n_app, tot_n_cons in Hb.
    pose proof (tot_n_nonneg _ O1) as N1. pose proof (tot_n_nonneg _ O2) as N2.
    assert (Hb' : sn x + sn s < 2^64) by lia.
    assert (Hlen : length (sls x) = length (sls s)).
    { destruct Lx as [Lx _]. destruct Hs as [Hs _]. congruence. }
    destruct (merge_sub_exact fexp c thr x s m Hlen Ox He Hb' Hm) as (M1 & M2 & M3 & M4).
    pose proof (merge_sub_len fexp nf c thr x s m Hm (sub_len_ls nf _ Lx) (sub_len_ls nf _ Hs)) as Lm.
    split.
    + apply Forall_app. split; [exact O1|]. constructor; assumption.
    + apply (step_ok_perm ([x] ++ (l1 ++ l2)) ([m] ++ (l1 ++ l2))).
      * cbn [app]. apply Permutation_middle.
      * cbn [app]. apply Permutation_middle.
      * apply step_ok_app.
        -- apply sub_len_ls_Forall. apply Forall_app. split; assumption.
        -- apply step_ok_one; auto using sub_len_ls.
  - (* leaf append *)
    intros id bf es cache s ax Hne Hm (Hbf & Hc & Hes) Hs Hok He Hb.
    cbn [sums_ok lsubs] in *.
    split.
    + apply Forall_app. split; [exact Hok|]. constructor; [exact He|constructor].
    + apply (step_ok_perm ([] ++ es) ([s] ++ es)).
      * apply Permutation_refl.
      * cbn [app]. apply Permutation_cons_append.
      * apply step_ok_app; [now apply sub_len_ls_Forall|apply step_ok_new].
  - (* inner *)
    intros bf es cache s ax es' cache' ax' _ IH (Hbf & Hc & Hne & Hes) Hs Hok He Hb.
    change (shape_e es) in Hes. cbn [sums_ok lsubs] in *.
    apply (IH Hes Hc); auto.
    assert (Hcn : cache <> []).
    { subst cache. destruct es; [congruence|discriminate]. }
    pose proof (route_lt cache s Hcn) as Hr.
    subst cache. rewrite map_length, ents_subs_length in Hr. exact Hr.
  - (* nil *)
    intros k s cache ax _ _ Hk. cbn in Hk. lia.
  - (* skip *)
    intros e ch tl k s cache ax tl' ctl' ax' HI IH (Le & Hch & Htl) Hc Hk Hs Hok He Hb.
    change (shape_e tl) in Htl. change (shape ch) in Hch.
    destruct Hok as (O1 & O2 & O3 & O4 & O5 & O6).
    cbn [ents_subs map] in Hc. subst cache. cbn [List.tl firstn] in *.
    cbn [lsubs_e] in *. cbn [ents_len] in Hk.
    pose proof (tot_n_nonneg _ (sums_lsubs nf _ O5)) as N1.
    rewrite tot_n_app in Hb.
    destruct (IH Htl eq_refl ltac:(lia) Hs O6 He ltac:(lia)) as (I1 & I2).
    destruct (proj2 (Ins_shape_mut fexp nf c thr Hsim) _ _ _ _ _ _ _ _ HI Htl eq_refl Hs) as (Stl' & _).
    split.
    + cbn [sums_ok_e]. tauto.
    + apply (step_ok_perm (lsubs_e tl ++ lsubs ch) (lsubs_e tl' ++ lsubs ch)).
      * apply Permutation_app_comm.
      * apply Permutation_app_comm.
      * apply step_ok_app; [now apply shape_lsubs|exact I2].
  - (* split *)
    intros e ch tl s cache ax ch' ax1 t1 n1 t2 n2 ax2 HI IH Hsp (Le & Hch & Htl) Hc Hk Hs Hok He Hb.
    change (shape_e tl) in Htl. change (shape ch) in Hch.
    destruct Hok as (O1 & O2 & O3 & O4 & O5 & O6).
    cbn [lsubs_e] in *.
    pose proof (tot_n_nonneg _ (sums_lsubs_e nf _ O6)) as N2.
    rewrite tot_n_app in Hb.
    destruct (IH Hch Hs O5 He ltac:(lia)) as (I1 & I2).
    pose proof (Ins_shape fexp nf c thr Hsim _ _ _ _ _ _ HI Hch Hs) as Sch'.
    pose proof (shape_entries_pos _ _ _ _ _ _ _ _ _ _ HI eq_refl Sch') as H2.
    assert (Hb2 : tot_n (lsubs ch') < 2^64) by (destruct I2 as (I2 & _); lia).
    destruct (split_sums_full _ _ _ _ _ _ _ Sch' I1 H2 Hb2 Hsp)
      as (S1 & S2 & (A1 & A2 & A3 & A4) & (B1 & B2 & B3 & B4) & PP).
    split.
    + cbn [sums_ok_e]. refine (conj A1 (conj A2 (conj A3 (conj A4 (conj S1 _))))).
      apply sums_ok_e_elist. rewrite elist_app1. apply Forall_app. split.
      * now apply sums_ok_e_elist.
      * constructor; [|constructor]. unfold ent_ok, summ. cbn [fst snd]. tauto.
    + rewrite lsubs_e_app1.
      apply (step_ok_perm (lsubs ch ++ lsubs_e tl) (lsubs ch' ++ lsubs_e tl)).
      * apply Permutation_refl.
      * rewrite <- PP. rewrite <- !app_assoc. apply Permutation_app_head, Permutation_app_comm.
      * apply step_ok_app; [now apply shape_lsubs_e|exact I2].
  - (* nosplit *)
    intros e ch tl s cache ax ch' ax1 HI IH (Le & Hch & Htl) Hc Hk Hs Hok He Hb.
    change (shape_e tl) in Htl. change (shape ch) in Hch.
    destruct Hok as (O1 & O2 & O3 & O4 & O5 & O6).
    cbn [lsubs_e] in *.
    pose proof (tot_n_nonneg _ (sums_lsubs_e nf _ O6)) as N2.
    rewrite tot_n_app in Hb.
    destruct (IH Hch Hs O5 He ltac:(lia)) as (I1 & I2 & I3 & I4).
    assert (Hlen : length (sls e) = length (sls s)).
    { destruct Le as [Le _]. destruct Hs as [Hs' _]. congruence. }
    destruct (upd_sub_exact e s Hlen O1 He ltac:(lia)) as (U1 & U2 & U3 & U4).
    split.
    + cbn [sums_ok_e]. refine (conj U1 (conj _ (conj _ (conj _ (conj I1 O6))))).
      * rewrite U2, I2, O2. reflexivity.
      * rewrite U3, I3, O3. reflexivity.
      * rewrite U4, I4, O4. apply Permutation_refl.
    + apply step_ok_app; [now apply shape_lsubs_e|]. exact (conj I2 (conj I3 I4)).
Qed.

Lemma Ins_sums nd s ax nd' sp ax' :
  Ins fexp nf c thr nd s ax nd' sp ax' ->
  shape nd -> sub_len s -> sums_ok nf nd -> sub_exact s ->
  tot_n (lsubs nd) + sn s < 2^64 ->
  sums_ok nf nd' /\ tot_n (lsubs nd') = tot_n (lsubs nd) + sn s /\
  tot_ls nf (lsubs nd') = vadd (tot_ls nf (lsubs nd)) (sls s) /\
  Permutation (concat (map sids (lsubs nd'))) (concat (map sids (lsubs nd)) ++ sids s).
Proof.
  intros HI H1 H2 H3 H4 H5.
  destruct (proj1 Ins_sums_mut nd s ax nd' sp ax' HI H1 H2 H3 H4 H5) as (A & B & C & D).
  exact (conj A (conj B (conj C D))).
Qed.

Lemma InsE_sums es k s cache ax es' cache' ax' :
  InsE fexp nf c thr es k s cache ax es' cache' ax' ->
  shape_e es -> cache = map scent (ents_subs es) -> (k < ents_len es)%nat ->
  sub_len s -> sums_ok_e nf es -> sub_exact s ->
  tot_n (lsubs_e es) + sn s < 2^64 ->
  sums_ok_e nf es' /\ tot_n (lsubs_e es') = tot_n (lsubs_e es) + sn s /\
  tot_ls nf (lsubs_e es') = vadd (tot_ls nf (lsubs_e es)) (sls s) /\
  Permutation (concat (map sids (lsubs_e es'))) (concat (map sids (lsubs_e es)) ++ sids s).
Proof.
  intros HI H1 H2 H3 H4 H5 H6 H7.
  destruct (proj2 Ins_sums_mut es k s cache ax es' cache' ax' HI H1 H2 H3 H4 H5 H6 H7)
    as (A & B & C & D).
  exact (conj A (conj B (conj C D))).
Qed.

(* the root step; the strengthened form also gives the sums and the labels *)
Lemma insert_root_sums_full bf root s ax root' ax' :
  1 <= bf -> shape root -> sub_len s -> sums_ok nf root -> sub_exact s ->
  tot_n (lsubs root) + sn s < 2^64 ->
  insert_root fexp nf c thr bf root s ax = (root', ax') ->
  sums_ok nf root' /\ tot_n (lsubs root') = tot_n (lsubs root) + sn s /\
  tot_ls nf (lsubs root') = vadd (tot_ls nf (lsubs root)) (sls s) /\
  Permutation (concat (map sids (lsubs root'))) (concat (map sids (lsubs root)) ++ sids s).
Proof.
  intros Hbf Hr Hs Hok He Hb. unfold insert_root.
  destruct (insert fexp nf c thr root s ax) as [[r sp] ax1] eqn:Hi.
  apply insert_Ins in Hi.
  pose proof (Ins_shape fexp nf c thr Hsim _ _ _ _ _ _ Hi Hr Hs) as Hr'.
  destruct (proj1 Ins_sums_mut _ _ _ _ _ _ Hi Hr Hs Hok He Hb) as (I1 & I2).
  destruct sp.
  - pose proof (shape_entries_pos _ _ _ _ _ _ _ _ _ _ Hi eq_refl Hr') as H2.
    destruct (split_node nf r ax1) as [[[t1 n1] [t2 n2]] ax2] eqn:Hsp.
    assert (Hb2 : tot_n (lsubs r) < 2^64) by (destruct I2 as (I2 & _); lia).
    destruct (split_sums_full _ _ _ _ _ _ _ Hr' I1 H2 Hb2 Hsp)
      as (S1 & S2 & (A1 & A2 & A3 & A4) & (B1 & B2 & B3 & B4) & PP).
    intros E. inversion E; subst root' ax'. cbn [sums_ok sums_ok_e lsubs lsubs_e].
    rewrite app_nil_r.
    assert (Q : step_ok (lsubs root) (lsubs n1 ++ lsubs n2) s).
    { apply (step_ok_perm (lsubs root) (lsubs r)); [apply Permutation_refl| |exact I2].
      symmetry. exact PP. }
    destruct Q as (Q1 & Q2 & Q3).
    refine (conj _ (conj Q1 (conj Q2 Q3))). tauto.
  - intros E. inversion E; subst root' ax'. destruct I2 as (Q1 & Q2 & Q3).
    exact (conj I1 (conj Q1 (conj Q2 Q3))).
Qed.

Lemma insert_root_sums bf root s ax root' ax' :
  1 <= bf -> shape root -> sub_len s -> sums_ok nf root -> sub_exact s ->
  tot_n (lsubs root) + sn s < 2^64 ->
  insert_root fexp nf c thr bf root s ax = (root', ax') ->
  sums_ok nf root' /\ tot_n (lsubs root') = tot_n (lsubs root) + sn s.
Proof.
  intros H1 H2 H3 H4 H5 H6 H7.
  destruct (insert_root_sums_full bf root s ax root' ax' H1 H2 H3 H4 H5 H6 H7) as (A & B & _).
  exact (conj A B).
Qed.
End Sums.

Print Assumptions minw_holds.
Print Assumptions wrap_small.
Print Assumptions upd_sub_exact.
Print Assumptions upd_sub_exact_from0.
Print Assumptions merge_sub_exact.
Print Assumptions width_matters.
Print Assumptions tot_n_app.
Print Assumptions tot_ls_app.
Print Assumptions tot_n_perm.
Print Assumptions tot_ls_perm.
Print Assumptions split_sums.
Print Assumptions Ins_sums.
Print Assumptions insert_root_sums.
Print Assumptions singleton_exact.
