(* TreeRel.v — insertion as an inductive relation; every invariant proof is a rule
   induction over it.  [insert_Ins] ties the executable fixpoint to the relation. *)
From BB Require Import Model.Tree.
From Coq Require Import Lia.
Open Scope Z_scope.

Section Rel.
Variable fexp : float -> float.
Variable nf : nat.
Variable c : crit.
Variable thr : float.

Definition route (cache : list fpv) (s : sub) : nat :=
  argmax_f (map (fun cv => sim cv (scent s)) cache).

Inductive Ins : node -> sub -> aux -> node -> bool -> aux -> Prop :=
| Ins_leaf_empty : forall id bf cache s ax,
    Ins (Leaf id bf [] cache) s ax (Leaf id bf [s] [scent s]) false ax
| Ins_leaf_merge : forall id bf es cache s ax m,
    es <> [] ->
    merge_sub fexp c thr (nth (route cache s) es s) s = Some m ->
    Ins (Leaf id bf es cache) s ax
        (Leaf id bf (upd (route cache s) m es) (upd (route cache s) (scent m) cache)) false ax
| Ins_leaf_append : forall id bf es cache s ax,
    es <> [] ->
    merge_sub fexp c thr (nth (route cache s) es s) s = None ->
    Ins (Leaf id bf es cache) s ax
        (Leaf id bf (es ++ [s]) (cache ++ [scent s])) (bf <? Z.of_nat (S (length es))) ax
| Ins_inner : forall bf es cache s ax es' cache' ax',
    InsE es (route cache s) s cache ax es' cache' ax' ->
    Ins (Inner bf es cache) s ax (Inner bf es' cache') (bf <? Z.of_nat (ents_len es')) ax'
with InsE : ents -> nat -> sub -> list fpv -> aux -> ents -> list fpv -> aux -> Prop :=
| InsE_nil : forall k s cache ax, InsE ENil k s cache ax ENil cache ax
| InsE_skip : forall e ch tl k s cache ax tl' ctl' ax',
    InsE tl k s (List.tl cache) ax tl' ctl' ax' ->
    InsE (ECons e ch tl) (S k) s cache ax (ECons e ch tl') (firstn 1 cache ++ ctl') ax'
| InsE_split : forall e ch tl s cache ax ch' ax1 t1 n1 t2 n2 ax2,
    Ins ch s ax ch' true ax1 ->
    split_node nf ch' ax1 = ((t1, n1), (t2, n2), ax2) ->
    InsE (ECons e ch tl) O s cache ax
         (ECons t1 n1 (ents_app1 tl t2 n2)) (scent t1 :: (List.tl cache ++ [scent t2])) ax2
| InsE_nosplit : forall e ch tl s cache ax ch' ax1,
    Ins ch s ax ch' false ax1 ->
    InsE (ECons e ch tl) O s cache ax
         (ECons (upd_sub e s) ch' tl) (scent (upd_sub e s) :: List.tl cache) ax1.

Scheme Ins_ind2 := Minimality for Ins Sort Prop
  with InsE_ind2 := Minimality for InsE Sort Prop.
Combined Scheme Ins_mutind from Ins_ind2, InsE_ind2.

Scheme node_ind2 := Induction for node Sort Prop
  with ents_ind2 := Induction for ents Sort Prop.
Combined Scheme node_mutind from node_ind2, ents_ind2.

Lemma insert_leaf_nil_eq : forall id bf cache s ax,
    insert fexp nf c thr (Leaf id bf [] cache) s ax = (Leaf id bf [s] [scent s], false, ax).
Proof. reflexivity. Qed.
Lemma insert_leaf_cons_eq : forall id bf e0 es0 cache s ax,
    insert fexp nf c thr (Leaf id bf (e0 :: es0) cache) s ax =
    match merge_sub fexp c thr (nth (route cache s) (e0 :: es0) s) s with
    | Some m => (Leaf id bf (upd (route cache s) m (e0 :: es0))
                      (upd (route cache s) (scent m) cache), false, ax)
    | None => (Leaf id bf ((e0 :: es0) ++ [s]) (cache ++ [scent s]),
               bf <? Z.of_nat (S (length (e0 :: es0))), ax)
    end.
Proof. reflexivity. Qed.
Lemma insert_inner_eq : forall bf es cache s ax,
    insert fexp nf c thr (Inner bf es cache) s ax =
    let '(es', cache', ax') :=
      insert_ents fexp nf c thr es (route cache s) s cache ax in
    (Inner bf es' cache', bf <? Z.of_nat (ents_len es'), ax').
Proof. reflexivity. Qed.
Lemma insert_ents_nil_eq : forall k s cache ax,
    insert_ents fexp nf c thr ENil k s cache ax = (ENil, cache, ax).
Proof. reflexivity. Qed.
Lemma insert_ents_S_eq : forall e ch tl k s cache ax,
    insert_ents fexp nf c thr (ECons e ch tl) (S k) s cache ax =
    let '(tl', ctl', ax') := insert_ents fexp nf c thr tl k s (List.tl cache) ax in
    (ECons e ch tl', firstn 1 cache ++ ctl', ax').
Proof. reflexivity. Qed.
Lemma insert_ents_O_eq : forall e ch tl s cache ax,
    insert_ents fexp nf c thr (ECons e ch tl) O s cache ax =
    let '(ch', sp, ax1) := insert fexp nf c thr ch s ax in
    if sp then
      let '((t1, n1), (t2, n2), ax2) := split_node nf ch' ax1 in
      (ECons t1 n1 (ents_app1 tl t2 n2), scent t1 :: (List.tl cache ++ [scent t2]), ax2)
    else
      let e' := upd_sub e s in
      (ECons e' ch' tl, scent e' :: List.tl cache, ax1).
Proof. reflexivity. Qed.

Lemma insert_Ins_mut :
  (forall nd s ax nd' sp ax',
      insert fexp nf c thr nd s ax = (nd', sp, ax') -> Ins nd s ax nd' sp ax') /\
  (forall es k s cache ax es' cache' ax',
      insert_ents fexp nf c thr es k s cache ax = (es', cache', ax') ->
      InsE es k s cache ax es' cache' ax').
Proof.
  apply node_mutind.
  - (* Leaf *)
    intros id bf es cache s ax nd' sp ax' H.
    destruct es as [|e0 es0].
    + rewrite insert_leaf_nil_eq in H. inversion H; subst. constructor.
    + rewrite insert_leaf_cons_eq in H.
      destruct (merge_sub fexp c thr (nth (route cache s) (e0 :: es0) s) s) as [m|] eqn:Hm.
      * inversion H; subst. apply Ins_leaf_merge; [discriminate|assumption].
      * inversion H; subst. apply Ins_leaf_append; [discriminate|assumption].
  - (* Inner *)
    intros bf es IH cache s ax nd' sp ax' H.
    rewrite insert_inner_eq in H.
    destruct (insert_ents fexp nf c thr es (route cache s) s cache ax)
      as [[es' cache'] ax''] eqn:He.
    inversion H; subst. constructor. apply IH. assumption.
  - (* ENil *)
    intros k s cache ax es' cache' ax' H. rewrite insert_ents_nil_eq in H.
    inversion H; subst. constructor.
  - (* ECons *)
    intros e ch IHch tl IHtl k s cache ax es' cache' ax' H.
    destruct k as [|k'].
    + rewrite insert_ents_O_eq in H.
      destruct (insert fexp nf c thr ch s ax) as [[ch' sp] ax1] eqn:Hi.
      destruct sp.
      * destruct (split_node nf ch' ax1) as [[[t1 n1] [t2 n2]] ax2] eqn:Hs.
        inversion H; subst. eapply InsE_split; eauto.
      * inversion H; subst. eapply InsE_nosplit; eauto.
    + rewrite insert_ents_S_eq in H.
      destruct (insert_ents fexp nf c thr tl k' s (List.tl cache) ax) as [[tl' cache''] ax''] eqn:He.
      inversion H; subst. constructor. apply IHtl. assumption.
Qed.

Lemma insert_Ins : forall nd s ax nd' sp ax',
    insert fexp nf c thr nd s ax = (nd', sp, ax') -> Ins nd s ax nd' sp ax'.
Proof. exact (proj1 insert_Ins_mut). Qed.

End Rel.
