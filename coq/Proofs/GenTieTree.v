(* GenTieTree.v — the skeleton of the node operations of the CF-tree, extracted from bblean/bitbirch.py on
   every run of the translator (Gen/GTree.v), is the expected plan of Model/TreePlan.v; and the meaning of
   that plan is the hand model of Model/Tree.v: upd_sub, merge_sub, the entry / cache rebuilding of
   insert_ents, insert, split_mask / part_leaf / part_inner, chain_ins_before. *)
From BB Require Import Model.TreePlan Gen.GTree Proofs.ListFacts.
From Coq Require Import Lia.
Open Scope Z_scope.

(* =====================================================================================
   Stage A — sub-cluster arithmetic
   ===================================================================================== *)
Lemma map2_map_l {A A' B C} (f : A' -> B -> C) (g : A -> A') a b :
  map2 f (map g a) b = map2 (fun x y => f (g x) y) a b.
Proof. revert b; induction a as [|x a IH]; intros [|y b]; cbn; auto. now rewrite IH. Qed.

(* update: cast to min_safe_uint(new_n) FIRST, add in that width, store the count in that width,
   centroid from the new sums and the un-wrapped python int, then the member lists *)
Lemma run_update_expected : forall s t,
  run_update expected_add_to expected_update s t = Some (upd_sub s t).
Proof.
  intros s t. unfold upd_sub.
  cbn [expected_update run_update upd_step1 call_buf expected_add_to run_buf buf_step1 nval lval
       with_self b_self b_n b_ls b_newn sw sn sls scent sids extend_ids].
  rewrite map2_map_l. reflexivity.
Qed.

Section MergeMeaning.
Variable fexp : float -> float.

(* merge_subcluster: Some m <-> returned True with self = m; None <-> returned False, self unchanged *)
Lemma run_merge_expected : forall c thr s t,
  run_merge fexp c thr expected_replace t expected_merge s =
  Some (match merge_sub fexp c thr s t with Some m => (m, true) | None => (s, false) end).
Proof.
  intros c thr s t. unfold run_merge, merge_sub.
  cbn [expected_merge run_merge_steps bind1 bind_n bind_l m_self m_n m_l m_f mvar_eqb mvar_tag
       Nat.eqb expected_accept_args eval_accept np_add_w].
  destruct (accept fexp c thr _ _ _ _ _ _); [|reflexivity].
  cbn [run_acc m_self m_n m_l mvar_eqb mvar_tag Nat.eqb call_buf expected_replace run_buf buf_step1
       nval lval with_self b_self b_n b_ls b_newn sw sn sls scent sids extend_ids].
  reflexivity.
Qed.
End MergeMeaning.

(* what moving the cast after the add would mean: the add happens in the OLD width *)
Definition add_to_cast_late : list buf_step :=
  [BBindNewN; BAddInPlace LParam; BCastMinSafe NNewN; BStoreN NNewN; BCentroid LBuffer NNewN].
Lemma cast_late_differs :
  call_buf add_to_cast_late (mkSub W8 255 [255] [true] [0]) 1 [1] <>
  call_buf expected_add_to (mkSub W8 255 [255] [true] [0]) 1 [1].
Proof. vm_compute. discriminate. Qed.

(* ---------- the tie: extracted = expected ---------- *)
Lemma tie_add_to : GTree.add_to_body = expected_add_to.
Proof. reflexivity. Qed.
Lemma tie_replace : GTree.replace_body = expected_replace.
Proof. reflexivity. Qed.
Lemma tie_update : GTree.update_body = expected_update.
Proof. reflexivity. Qed.
Lemma tie_merge : GTree.merge_body = expected_merge.
Proof. reflexivity. Qed.

Corollary upd_sub_gen : forall s t,
  run_update GTree.add_to_body GTree.update_body s t = Some (upd_sub s t).
Proof. intros. rewrite tie_add_to, tie_update. apply run_update_expected. Qed.

Corollary merge_sub_gen : forall fexp c thr s t,
  run_merge fexp c thr GTree.replace_body t GTree.merge_body s =
  Some (match merge_sub fexp c thr s t with Some m => (m, true) | None => (s, false) end).
Proof. intros. rewrite tie_replace, tie_merge. apply run_merge_expected. Qed.

(* =====================================================================================
   Stage B — append_subcluster / update_split_subclusters
   ===================================================================================== *)
Section NodeMeaning.
Context {E : Type}.
Variable cent : E -> fpv.

Lemma call_append_expected : forall x es rows,
  length rows = length es ->
  call_append_plan cent expected_append x (es, rows) = Some (es ++ [x], rows ++ [cent x]).
Proof.
  intros x es rows H. unfold call_append_plan, run_node.
  cbn [expected_append run_node_steps node_step1 fst snd n_es n_rows n_oldlen n_idx eval ival].
  unfold set_row. rewrite <- H, Nat.ltb_irrefl, Nat.eqb_refl.
  cbn [n_es n_rows]. rewrite !app_length, H, Nat.eqb_refl. reflexivity.
Qed.

Lemma call_update_split_expected : forall k x1 x2 es rows,
  length rows = length es -> (k < length es)%nat ->
  call_update_split_plan cent expected_append expected_update_split k x1 x2 (es, rows) =
  Some (upd k x1 es ++ [x2], upd k (cent x1) rows ++ [cent x2]).
Proof.
  intros k x1 x2 es rows H Hk. unfold call_update_split_plan, run_node.
  cbn [expected_update_split run_node_steps node_step1 fst snd n_es n_rows n_oldlen n_idx eval ival].
  apply Nat.ltb_lt in Hk. rewrite Hk.
  cbn [n_es n_rows n_oldlen n_idx]. rewrite Hk.
  cbn [n_es n_rows n_oldlen n_idx]. unfold set_row. rewrite H, Hk.
  cbn [n_es n_rows n_oldlen n_idx].
  rewrite call_append_expected by (now rewrite !upd_length).
  cbn [n_es n_rows]. rewrite !app_length, !upd_length, H, Nat.eqb_refl. reflexivity.
Qed.
End NodeMeaning.

(* how insert_ents rebuilds the entries and the cache in the split case *)
Lemma ents_of_list_app1 : forall l s ch,
  ents_of_list (l ++ [(s, ch)]) = ents_app1 (ents_of_list l) s ch.
Proof. induction l as [|[s' c'] l IH]; intros; cbn; [reflexivity|]. now rewrite IH. Qed.
Lemma ents_of_list_list : forall e, ents_of_list (ents_list e) = e.
Proof. induction e as [|s ch tl IH]; cbn; [reflexivity|]. now rewrite IH. Qed.
Lemma ents_list_length : forall e, length (ents_list e) = ents_len e.
Proof. induction e as [|s ch tl IH]; cbn; auto. Qed.

Lemma update_split_is_insert_ents_rebuild : forall e ch tl c0 ctl t1 n1 t2 n2,
  length ctl = ents_len tl ->
  match call_update_split_plan (fun x => scent (fst x)) expected_append expected_update_split 0
          (t1, n1) (t2, n2) (ents_list (ECons e ch tl), c0 :: ctl) with
  | Some (es, rows) => Some (ents_of_list es, rows)
  | None => None
  end = Some (ECons t1 n1 (ents_app1 tl t2 n2), scent t1 :: (List.tl (c0 :: ctl) ++ [scent t2])).
Proof.
  intros. rewrite call_update_split_expected.
  - cbn [ents_list upd app ents_of_list fst List.tl]. rewrite ents_of_list_app1, ents_of_list_list.
    reflexivity.
  - cbn [ents_list length]. now rewrite ents_list_length, H.
  - cbn. lia.
Qed.

Lemma tie_append : GTree.append_body = expected_append.
Proof. reflexivity. Qed.
Lemma tie_update_split : GTree.update_split_body = expected_update_split.
Proof. reflexivity. Qed.

Corollary append_gen : forall (x : sub) es rows,
  length rows = length es ->
  call_append_plan scent GTree.append_body x (es, rows) = Some (es ++ [x], rows ++ [scent x]).
Proof. intros. rewrite tie_append. now apply call_append_expected. Qed.

Corollary update_split_gen : forall k (x1 x2 : sub * node) es rows,
  length rows = length es -> (k < length es)%nat ->
  call_update_split_plan (fun x => scent (fst x)) GTree.append_body GTree.update_split_body k x1 x2
                         (es, rows) =
  Some (upd k x1 es ++ [x2], upd k (scent (fst x1)) rows ++ [scent (fst x2)]).
Proof.
  intros. rewrite tie_append, tie_update_split.
  now apply (call_update_split_expected (fun x : sub * node => scent (fst x))).
Qed.

(* =====================================================================================
   Stage C (data level) — insert_bf_subcluster: extracted = expected, and position facts
   ===================================================================================== *)
Lemma tie_insert : GTree.insert_body = expected_insert.
Proof. reflexivity. Qed.

Lemma insert_call_arguments :
  In (IBindMerged [GSub; GThreshold; GAcceptFn]) (ins_flat_all GTree.insert_body) /\
  In (IBindChildSplit [GSub; GAcceptFn; GThreshold]) (ins_flat_all GTree.insert_body).
Proof. vm_compute. tauto. Qed.

(* the child's insert happens before the split / before the tracking entry is updated; the update uses
   the INSERTED sub-cluster; the merge is attempted before the append; the rows refreshed are rows
   closest_idx (the only row a refresh statement can name), each after the mutation it follows *)
Lemma insert_positions :
  ins_once_before (IBindChildSplit []) (IUpdateClosest UInserted) GTree.insert_body = true /\
  ins_once_before (IBindChildSplit []) ISplitClosestNode GTree.insert_body = true /\
  ins_once_before ISplitClosestNode IUpdateSplit GTree.insert_body = true /\
  ins_once_before IBindClosestIdx IBindClosestSub GTree.insert_body = true /\
  ins_once_before (IBindMerged []) (IIfNotMerged []) GTree.insert_body = true /\
  ins_once_before (IIfNoChild []) (IBindChildSplit []) GTree.insert_body = true /\
  ins_positions (ins_tag (IUpdateClosest UInserted)) 0 (ins_flat_all GTree.insert_body) = [19%nat] /\
  nth 19 (ins_flat_all GTree.insert_body) IAppendArg = IUpdateClosest UInserted /\
  nth 20 (ins_flat_all GTree.insert_body) IAppendArg = IRefreshClosestRow RowOfEntryAtClosestIdx /\
  ins_positions (ins_tag (IRefreshClosestRow RowOfClosestSub)) 0 (ins_flat_all GTree.insert_body)
    = [12%nat; 20%nat] /\
  ins_positions (ins_tag (IBindMerged [])) 0 (ins_flat_all GTree.insert_body) = [8%nat].
Proof. vm_compute. repeat split. Qed.

(* =====================================================================================
   Stage D — _split_node
   ===================================================================================== *)
Lemma tie_split_node : GTree.split_node_body = expected_split_node.
Proof. reflexivity. Qed.

(* the new node gets the branching factor of the split node; the splice is in the leaf-only branch *)
Lemma split_node_data :
  In (DBindBf BfOfSplitNode) GTree.split_node_body /\
  In (DIfLeaf expected_chain_splice) GTree.split_node_body /\
  In (DMask CGt) GTree.split_node_body /\
  In (DLoop [LAppendTo W1; LUpdateTracking W1] [LAppendTo W2; LUpdateTracking W2])
     GTree.split_node_body.
Proof. vm_compute. tauto. Qed.

(* node1_closer = s1 > s2 ; node1_closer[i1] = True   is   split_mask 0 i1 s1 s2 *)
Lemma split_mask_past : forall s1 s2 i f1, (f1 < i)%nat -> split_mask i f1 s1 s2 = map2 fgt s1 s2.
Proof.
  induction s1 as [|a s1 IH]; intros [|b s2] i f1 H; cbn; try reflexivity.
  replace (Nat.eqb i f1) with false by (symmetry; apply Nat.eqb_neq; lia).
  cbn. f_equal. apply IH. lia.
Qed.
Lemma split_mask_upd : forall s1 s2 i k,
  split_mask i (i + k) s1 s2 = upd k true (map2 fgt s1 s2).
Proof.
  induction s1 as [|a s1 IH]; intros [|b s2] i k; cbn; try (destruct k; reflexivity).
  destruct k as [|k].
  - rewrite Nat.add_0_r, Nat.eqb_refl. cbn. f_equal. apply split_mask_past. lia.
  - replace (Nat.eqb i (i + S k)) with false by (symmetry; apply Nat.eqb_neq; lia).
    cbn. f_equal. replace (i + S k)%nat with (S i + k)%nat by lia. apply IH.
Qed.
Lemma mask_expected : forall i1 s1 s2,
  force_true i1 (mask_of CGt s1 s2) = split_mask 0 i1 s1 s2.
Proof. intros. unfold force_true, mask_of. symmetry. apply (split_mask_upd s1 s2 0 i1). Qed.

(* the redistribution loop is part_leaf / part_inner *)
Definition expected_part1 : list part_step := [LAppendTo W1; LUpdateTracking W1].
Definition expected_part2 : list part_step := [LAppendTo W2; LUpdateTracking W2].

Lemma part_loop_leaf : forall m es a1 a2 c1 c2 t1 t2,
  length c1 = length a1 -> length c2 = length a2 ->
  match run_part_loop (fun x : sub => x) expected_update expected_add_to expected_append
          expected_part1 expected_part2 m es (mkPf (a1, c1) (a2, c2) t1 t2) with
  | Some f => Some (fst (p_n1 f), fst (p_n2 f), snd (p_n1 f), snd (p_n2 f), p_t1 f, p_t2 f)
  | None => None
  end = Some (part_leaf m es a1 a2 c1 c2 t1 t2).
Proof.
  induction m as [|b m IH]; intros [|s es] a1 a2 c1 c2 t1 t2 H1 H2; try reflexivity.
  cbn [run_part_loop part_leaf].
  destruct b; cbn [expected_part1 expected_part2 run_part_body part_step1 p_n1 p_n2 p_t1 p_t2].
  - rewrite (call_append_expected (fun x : sub => scent x)) by exact H1.
    cbn [p_n1 p_n2 p_t1 p_t2]. rewrite run_update_expected.
    apply IH; [now rewrite !app_length, H1 | exact H2].
  - rewrite (call_append_expected (fun x : sub => scent x)) by exact H2.
    cbn [p_n1 p_n2 p_t1 p_t2]. rewrite run_update_expected.
    apply IH; [exact H1 | now rewrite !app_length, H2].
Qed.

Lemma part_loop_inner : forall m es a1 a2 c1 c2 t1 t2,
  length c1 = length a1 -> length c2 = length a2 ->
  match run_part_loop (fun x : sub * node => fst x) expected_update expected_add_to expected_append
          expected_part1 expected_part2 m es (mkPf (a1, c1) (a2, c2) t1 t2) with
  | Some f => Some (ents_of_list (fst (p_n1 f)), ents_of_list (fst (p_n2 f)),
                    snd (p_n1 f), snd (p_n2 f), p_t1 f, p_t2 f)
  | None => None
  end = Some (part_inner m (ents_of_list es) (ents_of_list a1) (ents_of_list a2) c1 c2 t1 t2).
Proof.
  induction m as [|b m IH]; intros [|[s ch] es] a1 a2 c1 c2 t1 t2 H1 H2; try reflexivity.
  cbn [run_part_loop ents_of_list part_inner].
  destruct b; cbn [expected_part1 expected_part2 run_part_body part_step1 p_n1 p_n2 p_t1 p_t2].
  - rewrite (call_append_expected (fun x : sub * node => scent (fst x))) by exact H1.
    cbn [p_n1 p_n2 p_t1 p_t2 fst]. rewrite run_update_expected.
    rewrite <- ents_of_list_app1. apply IH; [now rewrite !app_length, H1 | exact H2].
  - rewrite (call_append_expected (fun x : sub * node => scent (fst x))) by exact H2.
    cbn [p_n1 p_n2 p_t1 p_t2 fst]. rewrite run_update_expected.
    rewrite <- ents_of_list_app1. apply IH; [exact H1 | now rewrite !app_length, H2].
Qed.

(* with the extracted bodies *)
Corollary part_loop_leaf_gen : forall a b m es,
  In (DLoop a b) GTree.split_node_body ->
  match run_part_loop (fun x : sub => x) GTree.update_body GTree.add_to_body GTree.append_body
          a b m es (mkPf ([], []) ([], []) (empty_sub 0) (empty_sub 0)) with
  | Some f => Some (fst (p_n1 f), fst (p_n2 f), snd (p_n1 f), snd (p_n2 f), p_t1 f, p_t2 f)
  | None => None
  end = Some (part_leaf m es [] [] [] [] (empty_sub 0) (empty_sub 0)).
Proof.
  intros a b m es H.
  assert (a = expected_part1 /\ b = expected_part2) as [-> ->].
  { vm_compute in H. repeat (destruct H as [H|H]; try discriminate H); try contradiction.
    injection H as <- <-. split; reflexivity. }
  rewrite tie_update, tie_add_to, tie_append. now apply part_loop_leaf.
Qed.

(* the leaf-chain splice: node1 (id n1, new) goes right BEFORE node2 (id n2, the split leaf) *)
Lemma chain_splice_expected : forall n1 n2 p l,
  lk_prev l n2 = Some p -> n1 <> n2 -> n1 <> p ->
  exists l', run_chain n1 n2 expected_chain_splice l = Some l' /\
    lk_prev l' n1 = Some p /\ lk_next l' p = Some n1 /\
    lk_next l' n1 = Some n2 /\ lk_prev l' n2 = Some n1 /\
    (forall j, j <> n1 -> j <> n2 -> lk_prev l' j = lk_prev l j) /\
    (forall j, j <> n1 -> j <> p -> lk_next l' j = lk_next l j).
Proof.
  intros n1 n2 p l Hp H12 H1p.
  assert (E21 : Nat.eqb n2 n1 = false) by (apply Nat.eqb_neq; congruence).
  assert (Ep1 : Nat.eqb p n1 = false) by (apply Nat.eqb_neq; congruence).
  assert (E12 : Nat.eqb n1 n2 = false) by (apply Nat.eqb_neq; congruence).
  eexists. split.
  - cbn [expected_chain_splice run_chain chain_step1 lk_prev lk_next].
    unfold set_at at 1. rewrite E21, Hp. reflexivity.
  - cbn [lk_prev lk_next]. unfold set_at.
    rewrite !Nat.eqb_refl, ?E21, ?Ep1, ?E12, ?Hp. repeat split; try reflexivity.
    + intros j A B. apply Nat.eqb_neq in A, B. now rewrite A, B.
    + intros j A B. apply Nat.eqb_neq in A, B. now rewrite A, B.
Qed.

(* on a concrete chain: walking _next_leaf after the splice is chain_ins_before *)
Example chain_splice_walk :
  let l := mkLk (fun j => match j with 1 => Some 0 | 2 => Some 1 | 3 => Some 2 | _ => None end%nat)
                (fun j => match j with 0 => Some 1 | 1 => Some 2 | 2 => Some 3 | _ => None end%nat) in
  match run_chain 7 2 expected_chain_splice l with
  | Some l' => walk_next l' 10 0
  | None => []
  end = chain_ins_before 2 7 [0; 1; 2; 3]%nat.
Proof. vm_compute. reflexivity. Qed.

(* =====================================================================================
   Stage C (interpreter level) — the meaning of the insert skeleton is Tree.insert
   ===================================================================================== *)
From BB Require Import Proofs.TreeRel.

Lemma upd_nth_same {A} : forall (l : list A) i d, upd i (nth i l d) l = l.
Proof. induction l as [|x l IH]; intros [|i] d; cbn; try reflexivity. now rewrite IH. Qed.
Lemma nth_upd_same {A} : forall (l : list A) i x d, (i < length l)%nat -> nth i (upd i x l) d = x.
Proof.
  induction l as [|y l IH]; intros [|i] x d H; cbn in *; try lia; try reflexivity.
  apply IH. lia.
Qed.
Lemma upd_upd {A} : forall (l : list A) k x y, upd k x (upd k y l) = upd k x l.
Proof. induction l as [|z l IH]; intros [|k] x y; cbn; try reflexivity. now rewrite IH. Qed.
Lemma ents_nth_lt : forall es k, (k < ents_len es)%nat -> exists e ch, ents_nth es k = Some (e, ch).
Proof.
  induction es as [|e ch tl IH]; intros k H; cbn in H; [lia|].
  destruct k as [|k]; cbn; [eauto|]. apply IH. lia.
Qed.
Lemma ents_nth_upd : forall es k e ch,
  (k < ents_len es)%nat -> ents_nth (ents_upd k e ch es) k = Some (e, ch).
Proof.
  induction es as [|e0 c0 tl IH]; intros k e ch H; cbn in H; [lia|].
  destruct k as [|k]; cbn; [reflexivity|]. apply IH. lia.
Qed.
Lemma ents_list_upd : forall es k e ch, ents_list (ents_upd k e ch es) = upd k (e, ch) (ents_list es).
Proof.
  induction es as [|e0 c0 tl IH]; intros [|k] e ch; cbn; try reflexivity. now rewrite IH.
Qed.
Lemma ents_upd_upd : forall es k e ch e' ch',
  ents_upd k e ch (ents_upd k e' ch' es) = ents_upd k e ch es.
Proof.
  induction es as [|e0 c0 tl IH]; intros [|k] e ch e' ch'; cbn; try reflexivity. now rewrite IH.
Qed.
Lemma ents_len_upd : forall es k e ch, ents_len (ents_upd k e ch es) = ents_len es.
Proof. induction es as [|e0 c0 tl IH]; intros [|k] e ch; cbn; try reflexivity. now rewrite IH. Qed.

Section InsertMeaning.
Variable fexp : float -> float.
Variable nf : nat.
Variable c : crit.
Variable thr : float.
Variable s : sub.

(* insert_ents, in the vocabulary of the statements: the entry at k and its cache row are rewritten in
   place; on a split the second tracking sub-cluster and its row are appended at the end *)
Lemma insert_ents_char : forall es k cache ax e ch,
  ents_nth es k = Some (e, ch) -> (k < length cache)%nat ->
  insert_ents fexp nf c thr es k s cache ax =
  let '(ch', sp, ax1) := insert fexp nf c thr ch s ax in
  if sp then
    let '((t1, n1), (t2, n2), ax2) := split_node nf ch' ax1 in
    (ents_of_list (upd k (t1, n1) (ents_list es) ++ [(t2, n2)]),
     upd k (scent t1) cache ++ [scent t2], ax2)
  else (ents_upd k (upd_sub e s) ch' es, upd k (scent (upd_sub e s)) cache, ax1).
Proof.
  induction es as [|e0 c0 tl IH]; intros k cache ax e ch Hn Hk; [discriminate|].
  destruct cache as [|r0 rows]; [cbn in Hk; lia|].
  destruct k as [|k].
  - cbn in Hn. injection Hn as -> ->. rewrite insert_ents_O_eq.
    destruct (insert fexp nf c thr ch s ax) as [[ch' sp] ax1]. destruct sp; [|reflexivity].
    destruct (split_node nf ch' ax1) as [[[t1 n1] [t2 n2]] ax2].
    cbn [ents_list upd app ents_of_list List.tl]. now rewrite ents_of_list_app1, ents_of_list_list.
  - cbn in Hn. rewrite insert_ents_S_eq. cbn [List.tl].
    rewrite (IH k rows ax e ch Hn) by (cbn in Hk; lia).
    destruct (insert fexp nf c thr ch s ax) as [[ch' sp] ax1]. destruct sp; [|reflexivity].
    destruct (split_node nf ch' ax1) as [[[t1 n1] [t2 n2]] ax2]. reflexivity.
Qed.

(* the cache has one row per entry; an inner node is not empty and, before the insertion, not over-full
   (the model returns bf < len where the source returns False when the child was not split: the two
   agree exactly because the node was not over-full) *)
Definition node_ok (nd : node) : Prop :=
  length (node_cache nd) = node_len nd /\
  match nd with
  | Inner bf es _ => es <> ENil /\ Z.of_nat (ents_len es) <= bf
  | Leaf _ _ _ _ => True
  end.

Local Arguments insert : simpl never.
Local Arguments insert_ents : simpl never.
Local Arguments split_node : simpl never.
Local Arguments merge_sub : simpl never.
Local Arguments upd_sub : simpl never.
Local Arguments argmax_f : simpl never.
Local Arguments sim : simpl never.
Local Arguments run_merge : simpl never.
Local Arguments run_update : simpl never.
Local Arguments call_append_plan : simpl never.
Local Arguments call_update_split_plan : simpl never.
Local Arguments Z.of_nat : simpl never.
Local Arguments Z.ltb : simpl never.
Local Arguments nth : simpl never.
Local Arguments upd : simpl never.
Local Arguments Nat.ltb : simpl never.

Notation run_insert_exp :=
  (run_insert fexp nf c thr expected_add_to expected_replace expected_update expected_merge
              expected_append expected_update_split (insert fexp nf c thr) s expected_insert).

Theorem run_insert_expected : forall nd ax,
  node_ok nd -> run_insert_exp nd ax = Some (insert fexp nf c thr nd s ax).
Proof.
  intros nd ax [Hlen Hne]. unfold run_insert. destruct nd as [id bf es cache|bf es cache].
  - (* leaf *)
    cbn [node_cache node_len] in Hlen.
    destruct es as [|e0 es0].
    + destruct cache; [|discriminate]. cbn. rewrite call_append_expected by reflexivity.
      cbn. reflexivity.
    + rewrite insert_leaf_cons_eq. fold (route cache s).
      assert (Hi : (route cache s < length (e0 :: es0))%nat).
      { unfold route. rewrite <- Hlen.
        rewrite <- (map_length (fun cv => sim cv (scent s)) cache). apply argmax_f_lt.
        destruct cache; discriminate. }
      assert (Hz : Nat.eqb (length (e0 :: es0)) 0 = false) by reflexivity.
      remember (e0 :: es0) as es eqn:Ees. clear Ees.
      cbn. rewrite Hz. cbn. fold (route cache s).
      apply Nat.ltb_lt in Hi. rewrite Hi. cbn.
      rewrite run_merge_expected.
      destruct (merge_sub fexp c thr (nth (route cache s) es s) s) as [m|]; cbn.
      * rewrite nth_upd_same by (now apply Nat.ltb_lt). reflexivity.
      * rewrite upd_nth_same. rewrite call_append_expected by exact Hlen.
        cbn. rewrite app_length, Nat.add_1_r. reflexivity.
  - (* inner *)
    cbn [node_cache node_len] in Hlen.
    rewrite insert_inner_eq. fold (route cache s).
    assert (Hi : (route cache s < ents_len es)%nat).
    { unfold route. rewrite <- Hlen.
      rewrite <- (map_length (fun cv => sim cv (scent s)) cache). apply argmax_f_lt.
      destruct cache; [|discriminate]. destruct es; [now destruct Hne|discriminate]. }
    destruct (ents_nth_lt es _ Hi) as (e & ch & Hn).
    rewrite (insert_ents_char es _ cache ax e ch Hn) by (now rewrite Hlen).
    assert (Hz : Nat.eqb (ents_len es) 0 = false) by (apply Nat.eqb_neq; lia).
    cbn. rewrite Hz. cbn. fold (route cache s).
    pose proof Hi as Hi'. apply Nat.ltb_lt in Hi'. rewrite Hi'. cbn. rewrite Hn.
    destruct (insert fexp nf c thr ch s ax) as [[ch' sp] ax1]. destruct sp; cbn.
    + rewrite ents_nth_upd by (rewrite ?ents_len_upd; exact Hi).
      destruct (split_node nf ch' ax1) as [[[t1 n1] [t2 n2]] ax2]. cbn.
      rewrite (call_update_split_expected (fun x : sub * node => scent (fst x)))
        by (rewrite ?ents_list_length, ?ents_len_upd; auto).
      cbn. rewrite ents_list_upd, upd_upd. reflexivity.
    + rewrite ents_nth_upd by (rewrite ?ents_len_upd; exact Hi). rewrite run_update_expected. cbn.
      rewrite ents_nth_upd by (rewrite ?ents_len_upd; exact Hi). rewrite ents_upd_upd.
      rewrite ents_len_upd. replace (bf <? Z.of_nat (ents_len es)) with false
        by (symmetry; apply Z.ltb_ge; tauto). reflexivity.
Qed.
End InsertMeaning.

(* with the extracted bodies: one unfolding of Tree.insert *)
Corollary insert_gen : forall fexp nf c thr s nd ax,
  node_ok nd ->
  run_insert fexp nf c thr GTree.add_to_body GTree.replace_body GTree.update_body GTree.merge_body
             GTree.append_body GTree.update_split_body (insert fexp nf c thr) s GTree.insert_body nd ax
  = Some (insert fexp nf c thr nd s ax).
Proof.
  intros. rewrite tie_add_to, tie_replace, tie_update, tie_merge, tie_append, tie_update_split,
    tie_insert. now apply run_insert_expected.
Qed.

(* =====================================================================================
   Stage D (interpreter level) — the meaning of the _split_node skeleton is Tree.split_node
   ===================================================================================== *)
Section SplitNodeMeaning.
Local Arguments most_dissimilar : simpl never.
Local Arguments run_part_loop : simpl never.
Local Arguments part_leaf : simpl never.
Local Arguments part_inner : simpl never.
Local Arguments chain_ins_before : simpl never.
Local Arguments mask_of : simpl never.
Local Arguments force_true : simpl never.
Local Arguments split_mask : simpl never.
Local Arguments empty_sub : simpl never.

Theorem run_split_node_leaf : forall nf id bf es cache ax,
  match run_split_node (fun x : sub => x) expected_update expected_add_to expected_append nf (Some id)
          bf (nid ax) expected_split_node es cache (chain ax) with
  | Some ((t1, (b1, (a1, c1))), (t2, (b2, (a2, c2))), ch) =>
      Some ((t1, Leaf (nid ax) b1 a1 c1), (t2, Leaf id b2 a2 c2), mkAux (S (nid ax)) ch)
  | None => None
  end = Some (split_node nf (Leaf id bf es cache) ax).
Proof.
  intros. unfold run_split_node, split_node.
  lazy -[most_dissimilar run_part_loop part_leaf part_inner chain_ins_before mask_of force_true split_mask empty_sub expected_update expected_add_to expected_append ents_of_list ents_list].
  destruct (most_dissimilar nf cache) as [[[f1 f2] s1] s2].
  rewrite mask_expected.
  pose proof (part_loop_leaf (split_mask 0 f1 s1 s2) es [] [] [] [] (empty_sub nf) (empty_sub nf)
                             eq_refl eq_refl) as P.
  unfold expected_part1, expected_part2 in P.
  destruct (run_part_loop _ _ _ _ _ _ _ _ _) as [r|]; [|discriminate P].
  injection P as P. destruct r as [[a1 c1] [a2 c2] t1 t2]. cbn [fst snd p_n1 p_n2 p_t1 p_t2] in P.
  match goal with |- context [part_leaf ?a ?b ?c ?d ?e ?f ?g ?h] =>
    replace (part_leaf a b c d e f g h) with (a1, a2, c1, c2, t1, t2) by exact P end.
  destruct ax. reflexivity.
Qed.

Theorem run_split_node_inner : forall nf bf es cache ax,
  match run_split_node (fun x : sub * node => fst x) expected_update expected_add_to expected_append nf
          None bf (nid ax) expected_split_node (ents_list es) cache (chain ax) with
  | Some ((t1, (b1, (a1, c1))), (t2, (b2, (a2, c2))), ch) =>
      Some ((t1, Inner b1 (ents_of_list a1) c1), (t2, Inner b2 (ents_of_list a2) c2),
            mkAux (nid ax) ch)
  | None => None
  end = Some (split_node nf (Inner bf es cache) ax).
Proof.
  intros. unfold run_split_node, split_node.
  lazy -[most_dissimilar run_part_loop part_leaf part_inner chain_ins_before mask_of force_true split_mask empty_sub expected_update expected_add_to expected_append ents_of_list ents_list].
  destruct (most_dissimilar nf cache) as [[[f1 f2] s1] s2].
  rewrite mask_expected.
  pose proof (part_loop_inner (split_mask 0 f1 s1 s2) (ents_list es) [] [] [] [] (empty_sub nf)
                              (empty_sub nf) eq_refl eq_refl) as P.
  unfold expected_part1, expected_part2 in P. rewrite ents_of_list_list in P.
  change (ents_of_list []) with ENil in P.
  destruct (run_part_loop _ _ _ _ _ _ _ _ _) as [r|]; [|discriminate P].
  injection P as P. destruct r as [[a1 c1] [a2 c2] t1 t2]. cbn [fst snd p_n1 p_n2 p_t1 p_t2] in P.
  match goal with |- context [part_inner ?a ?b ?c ?d ?e ?f ?g ?h] =>
    replace (part_inner a b c d e f g h) with (ents_of_list a1, ents_of_list a2, c1, c2, t1, t2)
      by exact P end.
  destruct ax. reflexivity.
Qed.
End SplitNodeMeaning.

Corollary split_node_leaf_gen : forall nf id bf es cache ax,
  match run_split_node (fun x : sub => x) GTree.update_body GTree.add_to_body GTree.append_body nf
          (Some id) bf (nid ax) GTree.split_node_body es cache (chain ax) with
  | Some ((t1, (b1, (a1, c1))), (t2, (b2, (a2, c2))), ch) =>
      Some ((t1, Leaf (nid ax) b1 a1 c1), (t2, Leaf id b2 a2 c2), mkAux (S (nid ax)) ch)
  | None => None
  end = Some (split_node nf (Leaf id bf es cache) ax).
Proof.
  intros. rewrite tie_update, tie_add_to, tie_append, tie_split_node. apply run_split_node_leaf.
Qed.
Corollary split_node_inner_gen : forall nf bf es cache ax,
  match run_split_node (fun x : sub * node => fst x) GTree.update_body GTree.add_to_body
          GTree.append_body nf None bf (nid ax) GTree.split_node_body (ents_list es) cache (chain ax) with
  | Some ((t1, (b1, (a1, c1))), (t2, (b2, (a2, c2))), ch) =>
      Some ((t1, Inner b1 (ents_of_list a1) c1), (t2, Inner b2 (ents_of_list a2) c2),
            mkAux (nid ax) ch)
  | None => None
  end = Some (split_node nf (Inner bf es cache) ax).
Proof.
  intros. rewrite tie_update, tie_add_to, tie_append, tie_split_node. apply run_split_node_inner.
Qed.
