(* MrPartition.v — property C05: for any list of input files and any combination of workflow
   options, the final clusters written by the multi-round workflow partition the global
   indices 0..N-1, the saved centroid list is aligned with the cluster list and equals the
   majority-vote centroid of each cluster's members, and the buffer / index files handed from
   one round to the next always pair each buffer with its own member list.

   Layout:  MrTasks.v    per-task guarantees (P1, P2)
            MrStrings.v  file-name facts
            MrDir.v      the directory as a finite map
            this file    rounds, directory pairing (P3) and the end-to-end theorem (P4). *)
From Coq Require Import String.
From BB Require Import Model.Multiround Proofs.ListFacts Proofs.TreeDefs Proofs.TreeBlocks
     Proofs.TreeChain Proofs.TreeSums
     Proofs.BirchDefs Proofs.BirchInv Proofs.BirchRebuild Proofs.BirchData
     Proofs.MrTasks Proofs.MrStrings Proofs.MrDir.
From Coq Require Import Lia Permutation Sorted.
Open Scope Z_scope.

(* ================= 0. list facts ================= *)
Lemma NoDup_app_intro {A} (a b : list A) :
  NoDup a -> NoDup b -> (forall x, In x a -> ~ In x b) -> NoDup (a ++ b).
Proof.
  induction 1 as [|x a Hx Ha IH]; intros Hb Hd; cbn [app]; [exact Hb|].
  constructor.
  - rewrite in_app_iff. intros [H|H]; [auto|]. apply (Hd x); [now left|exact H].
  - apply IH; [exact Hb|]. intros y Hy. apply Hd. now right.
Qed.

Lemma Forall2_impl_in {A B} (P Q : A -> B -> Prop) l1 l2 :
  Forall2 P l1 l2 -> (forall a b, In a l1 -> In b l2 -> P a b -> Q a b) -> Forall2 Q l1 l2.
Proof.
  induction 1 as [|a b l1 l2 H _ IH]; intros HQ; constructor.
  - apply HQ; [now left|now left|exact H].
  - apply IH. intros x y Hx Hy. apply HQ; now right.
Qed.

Lemma map_eq_Forall2 {A B} (f : A -> option B) l : forall l',
  map f l = map Some l' -> Forall2 (fun a b => f a = Some b) l l'.
Proof.
  induction l as [|a l IH]; intros [|b l'] H; cbn [map] in H; try discriminate; constructor.
  - now injection H.
  - apply IH. now injection H.
Qed.

Lemma concat_map_perm {A B} (f g : A -> list B) l :
  (forall x, In x l -> Permutation (f x) (g x)) ->
  Permutation (concat (map f l)) (concat (map g l)).
Proof.
  induction l as [|x l IH]; intros H; cbn [map concat]; [reflexivity|].
  apply Permutation_app; [apply H; now left|]. apply IH. intros y Hy. apply H. now right.
Qed.

Lemma length_concat_le {A} (x : list A) l : In x l -> (List.length x <= List.length (concat l))%nat.
Proof.
  induction l as [|y l IH]; intros H; [destruct H|]. cbn [concat]. rewrite app_length.
  destruct H as [->|H]; [lia|]. specialize (IH H). lia.
Qed.

Lemma in_concat_of {A} (x : list A) l a : In x l -> In a x -> In a (concat l).
Proof. intros H1 H2. apply in_concat. eauto. Qed.

(* ---------- batching ---------- *)
Lemma batched_fuel_concat {A} n : (1 <= n)%nat -> forall f (l : list A),
  (List.length l <= f)%nat -> concat (batched_fuel f n l) = l.
Proof.
  intros Hn. induction f as [|f IH]; intros l H.
  - destruct l; [reflexivity|cbn in H; lia].
  - destruct l as [|x l]; [reflexivity|].
    cbn [batched_fuel concat]. rewrite IH; [apply firstn_skipn|].
    rewrite skipn_length. cbn [List.length] in *. lia.
Qed.

Lemma batched_concat {A} n (l : list A) : (1 <= n)%nat -> concat (batched n l) = l.
Proof. intros H. apply batched_fuel_concat; [exact H|lia]. Qed.

Lemma with_idxs_fst {A} (bs : list (list A)) : forall i,
  map fst (with_idxs i bs) = zseq i (List.length bs).
Proof. induction bs as [|b bs IH]; intros i; cbn [with_idxs map fst zseq List.length]; [reflexivity|]. now rewrite IH. Qed.
Lemma with_idxs_snd {A} (bs : list (list A)) : forall i, map snd (with_idxs i bs) = bs.
Proof. induction bs as [|b bs IH]; intros i; cbn [with_idxs map snd]; [reflexivity|]. now rewrite IH. Qed.

Lemma ins_bits_perm d x l : Permutation (ins_bits d x l) (x :: l).
Proof.
  induction l as [|y l IH]; cbn [ins_bits]; [reflexivity|].
  destruct (name_bits d (fst y) <=? name_bits d (fst x)); [reflexivity|].
  etransitivity; [apply perm_skip, IH|]. apply perm_swap.
Qed.
Lemma sort_batch_perm d b : Permutation (sort_batch d b) b.
Proof.
  unfold sort_batch. induction b as [|x b IH]; cbn [fold_right]; [reflexivity|].
  etransitivity; [apply ins_bits_perm|]. now constructor.
Qed.

Lemma read_pairs_concat d bs : read_pairs d (concat bs) = concat (map (read_pairs d) bs).
Proof.
  unfold read_pairs. induction bs as [|b bs IH]; cbn [concat map]; [reflexivity|].
  now rewrite flat_map_app, IH.
Qed.

(* ---------- running the tasks of a round ---------- *)
Lemma run_tasks_none tasks :
  fold_left (fun acc (t : task_result) => match acc, t with
                          | Some d', Some ws => Some (dir_puts d' ws)
                          | _, _ => None end) tasks None = None.
Proof. induction tasks as [|t tasks IH]; cbn [fold_left]; [reflexivity|exact IH]. Qed.

Lemma run_tasks_some tasks : forall d d',
  run_tasks d tasks = Some d' ->
  exists wss, tasks = map Some wss /\ d' = dir_puts d (concat wss).
Proof.
  unfold run_tasks. induction tasks as [|t tasks IH]; intros d d' H; cbn [fold_left] in H.
  - injection H as <-. exists []. split; reflexivity.
  - destruct t as [ws|]; [|rewrite run_tasks_none in H; discriminate H].
    destruct (IH _ _ H) as (wss & -> & ->). exists (ws :: wss). split; [reflexivity|].
    cbn [concat]. now rewrite dir_puts_app.
Qed.

(* ================= 1. the entries of a round ================= *)
(* one stored (buffer file, index file) pair: label, dtype, contents *)
Definition entry := (string * width * (content * content))%type.
Definition elabel (e : entry) : string := fst (fst e).
Definition ewidth (e : entry) : width := snd (fst e).
Definition ekey (e : entry) : string * width := fst e.
Definition epair (e : entry) : content * content := snd e.
Definition ebufs (r : Z) (e : entry) : string := bufs_name r (elabel e) (ewidth e).
Definition eidxs (r : Z) (e : entry) : string := idxs_name r (elabel e) (ewidth e).
Definition ewrites (r : Z) (e : entry) : list (string * content) :=
  [(ebufs r e, fst (epair e)); (eidxs r e, snd (epair e))].

Definition task_entries (label : string) (gs : list (width * list Tree.sub)) : list entry :=
  map (fun wg => (label, fst wg, group_pair wg)) gs.

Lemma save_groups_entries r label gs :
  save_groups r label gs = flat_map (ewrites r) (task_entries label gs).
Proof.
  rewrite save_groups_eq. unfold task_entries.
  induction gs as [|wg gs IH]; cbn [flat_map map]; [reflexivity|]. now rewrite IH.
Qed.

Lemma ids_of_app a b : ids_of (a ++ b) = (ids_of a ++ ids_of b)%list.
Proof. unfold ids_of. now rewrite map_app, concat_app. Qed.
Lemma ids_of_concat l : ids_of (concat l) = concat (map ids_of l).
Proof.
  induction l as [|x l IH]; cbn [concat map]; [reflexivity|]. now rewrite ids_of_app, IH.
Qed.
Lemma ids_of_perm a b : Permutation a b -> Permutation (ids_of a) (ids_of b).
Proof. intros H. unfold ids_of. apply concat_perm, Permutation_map, H. Qed.

Section Rounds.
Variable fexp : float -> float.
Variable nf : nat.
Variable files : list (list fpv).
Variable c : mr_cfg.
Hypothesis Hnf : Z.of_nat nf < 2 ^ 52.
Hypothesis Hrows : Forall (Forall (fun fp : fpv => List.length fp = nf)) files.
Let all_rows : list fpv := List.concat files.
Let N : Z := zlen all_rows.
Hypothesis HN : N < 2 ^ 64.
Hypothesis Hbf : 2 <= m_bf c.
Hypothesis Hbin : (1 <= m_bin c)%nat.
Definition Gmap (nf : nat) (files : list (list fpv)) (i : Z) : fpv :=
  nth (Z.to_nat i) (List.concat files) (repeat false nf).
Let G : Z -> fpv := Gmap nf files.

Lemma all_rows_len : Forall (fun fp : fpv => List.length fp = nf) all_rows.
Proof.
  unfold all_rows. generalize files Hrows. clear. intros fs H.
  induction fs as [|f fs IH]; cbn [concat]; [constructor|].
  inversion H; subst. apply Forall_app. split; auto.
Qed.

Lemma G_nth i : 0 <= i < N -> nth_error all_rows (Z.to_nat i) = Some (G i).
Proof.
  intros H. unfold G, Gmap. apply nth_error_nth'. unfold N, zlen in H. fold all_rows. lia.
Qed.

(* what one round leaves behind: distinct (label, dtype) keys, labels of one length, good
   and aligned pairs, and the ids 0..N-1 each stored exactly once *)
Definition round_ok (E : list entry) : Prop :=
  NoDup (map ekey E) /\
  (forall a b, In a E -> In b E -> slen (elabel a) = slen (elabel b)) /\
  Forall (fun e => ok_pair G nf (epair e)) E /\
  Permutation (ids_of (map epair E)) (zseq 0 (Z.to_nat N)).

(* the tasks of one round, abstractly: inputs with a label and the ids they are responsible
   for; every task hands over what [task_out] says *)
Lemma round_from_tasks {A} (lab : A -> string) (ids : A -> list Z) R (inputs : list A) :
  forall wss,
  Forall2 (fun a ws => task_out G nf R (lab a) ws (ids a)) inputs wss ->
  NoDup (map lab inputs) ->
  exists E, concat wss = flat_map (ewrites R) E /\
    NoDup (map ekey E) /\ (forall e, In e E -> In (elabel e) (map lab inputs)) /\
    Forall (fun e => ok_pair G nf (epair e)) E /\
    Permutation (ids_of (map epair E)) (concat (map ids inputs)).
Proof.
  induction inputs as [|a inputs IH]; intros wss F ND; inversion F as [|? ws ? wss' Ha F']; subst.
  - exists []. cbn. refine (conj eq_refl (conj (NoDup_nil _) (conj _ (conj (Forall_nil _) _)))); [tauto|].
    reflexivity.
  - cbn [map] in ND. inversion ND as [|? ? Hnin ND']; subst.
    destruct (IH wss' F' ND') as (E & E1 & E2 & E3 & E4 & E5).
    destruct Ha as (gs & -> & G1 & G2 & G3).
    exists (task_entries (lab a) gs ++ E)%list.
    assert (Hlab : forall e, In e (task_entries (lab a) gs) -> elabel e = lab a).
    { intros e He. unfold task_entries in He. apply in_map_iff in He.
      destruct He as (wg & <- & _). reflexivity. }
    refine (conj _ (conj _ (conj _ (conj _ _)))).
    + cbn [concat]. now rewrite flat_map_app, E1, save_groups_entries.
    + rewrite map_app. apply NoDup_app_intro; [|exact E2|].
      * unfold task_entries. rewrite map_map. cbn [ekey fst].
        rewrite <- (map_map fst (fun w => (lab a, w))).
        apply NoDup_map_inj_in; [exact G1|]. intros x y _ _ H. now injection H.
      * intros k Hk Hk'. apply in_map_iff in Hk. destruct Hk as (e & <- & He).
        apply in_map_iff in Hk'. destruct Hk' as (e' & Ek & He').
        apply Hnin. rewrite <- (Hlab e He).
        replace (elabel e) with (elabel e') by (unfold elabel, ekey in *; now rewrite Ek).
        apply E3, He'.
    + intros e He. apply in_app_or in He. destruct He as [He|He].
      * rewrite (Hlab e He). now left.
      * right. apply E3, He.
    + apply Forall_app. split; [|exact E4].
      unfold task_entries. rewrite Forall_map. cbn [epair snd].
      unfold out_pairs in G2. rewrite Forall_map in G2. exact G2.
    + rewrite map_app, ids_of_app. cbn [map concat]. apply Permutation_app; [|exact E5].
      unfold task_entries. rewrite map_map. cbn [epair snd]. exact G3.
Qed.


(* ================= 2. the directory as the history of its writes ================= *)
Definition hentry := (Z * entry)%type.            (* (round, entry) *)
Definition hkey (re : hentry) : Z * (string * width) := (fst re, ekey (snd re)).
Definition hwrites (H : list hentry) : list (string * content) :=
  flat_map (fun re => ewrites (fst re) (snd re)) H.
Definition entries_of (r : Z) (H : list hentry) : list entry :=
  map snd (filter (fun re => fst re =? r) H).

Definition hist_pre (r : Z) (H : list hentry) : Prop :=
  Forall (fun re => 1 <= fst re <= r /\ ok_pair G nf (epair (snd re))) H /\ NoDup (map hkey H).

(* the state of the directory after round r *)
Definition rinv (d : dir) (r : Z) : Prop :=
  exists H, dir_is d (hwrites H) /\ hist_pre r H /\ round_ok (entries_of r H).

Lemma In_hwrites n x H :
  In (n, x) (hwrites H) <->
  exists re, In re H /\ ((ebufs (fst re) (snd re), fst (epair (snd re))) = (n, x) \/
                         (eidxs (fst re) (snd re), snd (epair (snd re))) = (n, x)).
Proof.
  unfold hwrites. rewrite in_flat_map. cbn [ewrites In].
  split; intros (re & Hre & Hx); exists re; (split; [exact Hre|tauto]).
Qed.

Lemma hkey_eq (re re' : hentry) :
  fst re = fst re' -> elabel (snd re) = elabel (snd re') -> ewidth (snd re) = ewidth (snd re') ->
  hkey re = hkey re'.
Proof.
  destruct re as [r [[l w] p]], re' as [r' [[l' w'] p']]. unfold hkey, ekey, elabel, ewidth.
  cbn [fst snd]. congruence.
Qed.

Lemma hwrites_app H1 H2 : hwrites (H1 ++ H2) = (hwrites H1 ++ hwrites H2)%list.
Proof. unfold hwrites. apply flat_map_app. Qed.
Lemma hwrites_round R E : hwrites (map (pair R) E) = flat_map (ewrites R) E.
Proof.
  unfold hwrites. induction E as [|e E IH]; cbn [map flat_map fst snd]; [reflexivity|]. now rewrite IH.
Qed.

Lemma hwrites_names_nodup H :
  Forall (fun re => 0 <= fst re) H -> NoDup (map hkey H) -> NoDup (map fst (hwrites H)).
Proof.
  induction H as [|re H IH]; intros F ND; [constructor|].
  pose proof (Forall_inv F) as Hr. pose proof (Forall_inv_tail F) as F'.
  cbn [map] in ND. inversion ND as [|? ? Nk N']; subst.
  assert (Hold : forall n, In n (map fst (hwrites H)) ->
                   exists re', In re' H /\ 0 <= fst re' /\
                     (n = ebufs (fst re') (snd re') \/ n = eidxs (fst re') (snd re'))).
  { intros n Hn. apply in_map_iff in Hn. destruct Hn as ([n' x] & <- & Hx).
    apply In_hwrites in Hx. destruct Hx as (re' & Hre' & Hx). exists re'.
    rewrite Forall_forall in F'. refine (conj Hre' (conj (F' _ Hre') _)).
    destruct Hx as [E|E]; injection E as <- _; auto. }
  unfold hwrites. cbn [flat_map ewrites app map fst]. fold (hwrites H).
  constructor; [|constructor; [|apply IH; assumption]].
  - intros [E|Hin].
    + symmetry in E. revert E. apply bufs_idxs_neq; assumption.
    + destruct (Hold _ Hin) as (re' & Hre' & Hr' & [E|E]).
      * apply bufs_name_inj in E; try assumption. destruct E as (E1 & E2 & E3).
        apply Nk. rewrite (hkey_eq re re' E1 E2 E3). now apply in_map.
      * revert E. apply bufs_idxs_neq; assumption.
  - intros Hin. destruct (Hold _ Hin) as (re' & Hre' & Hr' & [E|E]).
    + symmetry in E. revert E. apply bufs_idxs_neq; assumption.
    + apply idxs_name_inj in E; try assumption. destruct E as (E1 & E2 & E3).
      apply Nk. rewrite (hkey_eq re re' E1 E2 E3). now apply in_map.
Qed.

Lemma entries_of_app r H1 H2 : entries_of r (H1 ++ H2) = (entries_of r H1 ++ entries_of r H2)%list.
Proof. unfold entries_of. now rewrite filter_app, map_app. Qed.
Lemma entries_of_round R E : entries_of R (map (pair R) E) = E.
Proof.
  unfold entries_of. induction E as [|e E IH]; cbn [map filter fst]; [reflexivity|].
  rewrite Z.eqb_refl. cbn [map snd]. now rewrite IH.
Qed.
Lemma entries_of_old r R H :
  Forall (fun re : hentry => fst re <= r) H -> r < R -> entries_of R H = [].
Proof.
  intros F L. unfold entries_of. induction F as [|re H Hre _ IH]; cbn [filter]; [reflexivity|].
  destruct (Z.eqb_spec (fst re) R); [lia|exact IH].
Qed.
Lemma In_entries_of e r H : In e (entries_of r H) <-> In (r, e) H.
Proof.
  unfold entries_of. rewrite in_map_iff. split.
  - intros ([r' e'] & <- & Hre). apply filter_In in Hre. destruct Hre as (Hre & E).
    cbn [fst snd] in *. apply Z.eqb_eq in E. now subst.
  - intros Hre. exists (r, e). split; [reflexivity|]. apply filter_In. split; [exact Hre|].
    cbn [fst]. apply Z.eqb_refl.
Qed.

(* one more round of writes *)
Lemma rinv_step d r H R E :
  dir_is d (hwrites H) -> hist_pre r H -> r < R -> 1 <= R -> round_ok E ->
  rinv (dir_puts d (flat_map (ewrites R) E)) R.
Proof.
  intros Hd (HF & HN') Hr HR HE. exists (H ++ map (pair R) E)%list.
  assert (P : hist_pre R (H ++ map (pair R) E)).
  { split.
    - apply Forall_app. split.
      + eapply Forall_impl; [|exact HF]. cbv beta. intros re (A & B). split; [lia|exact B].
      + destruct HE as (_ & _ & HE & _). rewrite Forall_map. cbn [fst snd].
        eapply Forall_impl; [|exact HE]. cbv beta. intros e He. split; [lia|exact He].
    - rewrite map_app. apply NoDup_app_intro; [exact HN'| |].
      + destruct HE as (HE & _). rewrite map_map. unfold hkey. cbn [fst snd].
        rewrite <- (map_map ekey (fun k => (R, k))).
        apply NoDup_map_inj_in; [exact HE|]. intros a b _ _ E0. now injection E0.
      + intros k Hk Hk'. apply in_map_iff in Hk. destruct Hk as (re & <- & Hre).
        apply in_map_iff in Hk'. destruct Hk' as (re' & E0 & Hre').
        apply in_map_iff in Hre'. destruct Hre' as (e & <- & _).
        rewrite Forall_forall in HF. destruct (HF re Hre) as ((_ & A) & _).
        unfold hkey in E0. cbn [fst snd] in E0. injection E0 as E0 _. lia. }
  refine (conj _ (conj P _)).
  - rewrite hwrites_app, hwrites_round. apply dir_is_puts; [exact Hd|].
    rewrite <- hwrites_round, <- hwrites_app. destruct P as (PF & PN).
    apply hwrites_names_nodup; [|exact PN].
    eapply Forall_impl; [|exact PF]. cbv beta. intros re ((A & _) & _). lia.
  - rewrite entries_of_app, entries_of_round, (entries_of_old r R H); [exact HE| |exact Hr].
    eapply Forall_impl; [|exact HF]. cbv beta. intros re ((_ & A) & _). exact A.
Qed.

(* ================= 3. P3: collecting the previous round ================= *)
Lemma combine_map_same {A B C} (f : A -> B) (g : A -> C) l :
  combine (map f l) (map g l) = map (fun x => (f x, g x)) l.
Proof. induction l as [|x l IH]; cbn [map combine]; [reflexivity|now rewrite IH]. Qed.

(* the names matching the two globs of round r are exactly the names written in round r *)
Lemma round_globs d r H :
  0 <= r -> dir_is d (hwrites H) -> Forall (fun re : hentry => 0 <= fst re) H ->
  (forall n, In n (filter (is_bufs_of r) (dir_names d)) <->
             exists e, In e (entries_of r H) /\ n = ebufs r e) /\
  (forall n, In n (filter (is_idxs_of r) (dir_names d)) <->
             exists e, In e (entries_of r H) /\ n = eidxs r e) /\
  (forall e, In e (entries_of r H) ->
     dir_get d (ebufs r e) = Some (fst (epair e)) /\ dir_get d (eidxs r e) = Some (snd (epair e))).
Proof.
  intros Hr (_ & _ & Hget) HF.
  assert (Hw : forall e, In e (entries_of r H) ->
     dir_get d (ebufs r e) = Some (fst (epair e)) /\ dir_get d (eidxs r e) = Some (snd (epair e))).
  { intros e He. apply In_entries_of in He. split; apply Hget, In_hwrites; exists (r, e);
      (split; [exact He|]); cbn [fst snd]; auto. }
  rewrite Forall_forall in HF.
  refine (conj _ (conj _ Hw)); intros n; rewrite filter_In, dir_get_names; split.
  - intros ((x & Hx) & Hg). apply Hget, In_hwrites in Hx. destruct Hx as (re & Hre & [E|E]);
      injection E as <- _; unfold ebufs, eidxs in Hg.
    + rewrite bufs_name_rname in Hg.
      apply is_bufs_of_rname in Hg; [|exact Hr|apply HF, Hre|reflexivity].
      destruct Hg as (Hg & _). exists (snd re). split; [|now rewrite Hg].
      apply In_entries_of. rewrite <- Hg. now destruct re.
    + rewrite idxs_name_rname in Hg.
      apply is_bufs_of_rname in Hg; [|exact Hr|apply HF, Hre|reflexivity].
      destruct Hg as (_ & Hg). discriminate Hg.
  - intros (e & He & ->). split; [exists (fst (epair e)); apply Hw, He|apply is_bufs_of_bufs].
  - intros ((x & Hx) & Hg). apply Hget, In_hwrites in Hx. destruct Hx as (re & Hre & [E|E]);
      injection E as <- _; unfold ebufs, eidxs in Hg.
    + rewrite bufs_name_rname in Hg.
      apply is_idxs_of_rname in Hg; [|exact Hr|apply HF, Hre|reflexivity].
      destruct Hg as (_ & Hg). discriminate Hg.
    + rewrite idxs_name_rname in Hg.
      apply is_idxs_of_rname in Hg; [|exact Hr|apply HF, Hre|reflexivity].
      destruct Hg as (Hg & _). exists (snd re). split; [|now rewrite Hg].
      apply In_entries_of. rewrite <- Hg. now destruct re.
  - intros (e & He & ->). split; [exists (snd (epair e)); apply Hw, He|apply is_idxs_of_idxs].
Qed.

(* P3: [prev_pairs] pairs every buffer file of the round with the index file of the same
   (label, dtype); what is read back are exactly the pairs stored in that round *)
Lemma prev_pairs_matched d r :
  1 <= r -> rinv d r ->
  exists E ks, round_ok E /\ Permutation ks E /\
    prev_pairs d r = map (fun e => (ebufs r e, eidxs r e)) ks /\
    read_pairs d (prev_pairs d r) = map epair ks.
Proof.
  clear Hbin Hbf. intros Hr (H & Hd & (HF & HN') & HE).
  assert (HF0 : Forall (fun re : hentry => 0 <= fst re) H).
  { eapply Forall_impl; [|exact HF]. cbv beta. intros re ((A & _) & _). lia. }
  destruct (round_globs d r H ltac:(lia) Hd HF0) as (GB & GI & GW).
  remember (entries_of r H) as E eqn:EE.
  destruct HE as (E1 & E2 & E3 & E4).
  destruct (pair_sorted (ebufs r) (eidxs r) E) with
    (B := filter (is_bufs_of r) (dir_names d)) (I := filter (is_idxs_of r) (dir_names d))
    as (ks & P & HB & HI).
  - intros a b Ha Hb. apply names_same_order, E2; assumption.
  - intros a b Ha Hb E0. apply bufs_name_inj in E0; try lia.
    apply (NoDup_map_eq ekey E); try assumption.
    destruct E0 as (_ & A & B). destruct a as [[la wa] pa], b as [[lb wb] pb].
    unfold ekey, elabel, ewidth in *. cbn [fst snd] in *. congruence.
  - eapply NoDup_map_inv; exact E1.
  - apply ssorted_filter. exact (proj1 Hd).
  - apply ssorted_filter. exact (proj1 Hd).
  - exact GB.
  - exact GI.
  - exists E, ks. refine (conj (conj E1 (conj E2 (conj E3 E4))) (conj P _)).
    assert (PP : prev_pairs d r = map (fun e => (ebufs r e, eidxs r e)) ks).
    { unfold prev_pairs. rewrite HB, HI. apply combine_map_same. }
    split; [exact PP|]. rewrite PP.
    assert (Hin : forall k, In k ks -> In k E) by (intros k; apply Permutation_in, P).
    clear -Hin GW. unfold read_pairs.
    induction ks as [|k ks IH]; cbn [map flat_map]; [reflexivity|].
    destruct (GW k (Hin k (or_introl eq_refl))) as (A & B). cbn [fst snd]. rewrite A, B.
    cbn [app]. rewrite IH by (intros x Hx; apply Hin; now right).
    f_equal. now destruct (epair k).
Qed.

(* what is handed from round r to round r+1 *)
Lemma handed_over_ok d r :
  1 <= r -> rinv d r ->
  Forall (ok_pair G nf) (read_pairs d (prev_pairs d r)) /\
  Permutation (ids_of (read_pairs d (prev_pairs d r))) (zseq 0 (Z.to_nat N)).
Proof.
  clear Hbin Hbf.
  intros Hr Hi. destruct (prev_pairs_matched d r Hr Hi) as (E & ks & (E1 & E2 & E3 & E4) & P & _ & R).
  rewrite R. split.
  - rewrite Forall_map. apply (Forall_perm _ E); [symmetry; exact P|exact E3].
  - etransitivity; [apply ids_of_perm, Permutation_map; exact P|exact E4].
Qed.


(* ================= 4. the rounds ================= *)
(* ---------- labels ---------- *)
Lemma idx_labels_facts n :
  NoDup (map (idx_label n) (zseq 0 n)) /\
  forall l, In l (map (idx_label n) (zseq 0 n)) -> slen l = slen (str_of_Z (Z.of_nat n)).
Proof.
  split.
  - apply NoDup_map_inj_in; [apply NoDup_zseq|].
    intros a b Ha Hb. apply In_zseq in Ha, Hb. apply idx_label_inj; lia.
  - intros l Hl. apply in_map_iff in Hl. destruct Hl as (i & <- & Hi). apply In_zseq in Hi.
    apply idx_label_len. lia.
Qed.

Lemma file_labels_eq n : file_labels n = map (idx_label n) (zseq 0 n).
Proof. reflexivity. Qed.

Lemma map_fst_combine {A B} (a : list A) : forall (b : list B),
  List.length a = List.length b -> map fst (combine a b) = a.
Proof. induction a as [|x a IH]; intros [|y b] H; cbn in *; try discriminate; [reflexivity|]. f_equal. apply IH. lia. Qed.

Lemma starts_length fs : forall s, List.length (starts fs s) = List.length fs.
Proof. induction fs as [|f fs IH]; intros s; cbn [starts List.length]; [reflexivity|]. now rewrite IH. Qed.

(* ---------- the inputs of the initial round ---------- *)
Definition init_inputs (L : list string) (fs : list (list fpv)) (s : Z) :=
  combine (combine L fs) (starts fs s).

Lemma init_inputs_spec fs : forall (pre : list fpv) L,
  List.length L = List.length fs ->
  Forall (fun t : string * list fpv * Z => forall k fp, nth_error (snd (fst t)) k = Some fp ->
            nth_error (pre ++ concat fs) (Z.to_nat (snd t + Z.of_nat k)) = Some fp)
         (init_inputs L fs (zlen pre)).
Proof.
  unfold init_inputs. induction fs as [|f fs IH]; intros pre [|l L] HL; cbn in HL; try discriminate.
  - constructor.
  - cbn [starts combine concat]. constructor.
    + cbn [fst snd]. intros k fp Hk. unfold zlen.
      replace (Z.to_nat (Z.of_nat (List.length pre) + Z.of_nat k)) with (List.length pre + k)%nat by lia.
      rewrite nth_error_app2 by lia. replace (List.length pre + k - List.length pre)%nat with k by lia.
      rewrite nth_error_app1; [exact Hk|]. apply nth_error_Some. congruence.
    + replace (zlen pre + zlen f) with (zlen (pre ++ f)) by (unfold zlen; rewrite app_length; lia).
      rewrite app_assoc. apply IH. lia.
Qed.

Lemma init_inputs_ids fs : forall L s,
  List.length L = List.length fs ->
  concat (map (fun t : string * list fpv * Z => zseq (snd t) (List.length (snd (fst t))))
              (init_inputs L fs s)) = zseq s (List.length (concat fs)).
Proof.
  unfold init_inputs. induction fs as [|f fs IH]; intros [|l L] s HL; cbn in HL; try discriminate.
  - reflexivity.
  - cbn [starts combine map concat fst snd]. rewrite app_length, zseq_app. f_equal.
    rewrite IH by lia. reflexivity.
Qed.

Lemma init_inputs_rows L fs s t : In t (init_inputs L fs s) -> In (snd (fst t)) fs.
Proof.
  unfold init_inputs. destruct t as [[l rows] st]. intros H.
  apply in_combine_l, in_combine_r in H. exact H.
Qed.

Lemma init_inputs_labels L fs s :
  List.length L = List.length fs ->
  map (fun t : string * list fpv * Z => fst (fst t)) (init_inputs L fs s) = L.
Proof.
  intros HL. unfold init_inputs. rewrite <- (map_map fst fst).
  rewrite map_fst_combine by (rewrite combine_length, starts_length; lia).
  apply map_fst_combine, HL.
Qed.

Lemma N_nat : Z.to_nat N = List.length all_rows.
Proof. unfold N, zlen. apply Nat2Z.id. Qed.

Lemma round_ok_intro E (L : list string) (n : nat) :
  NoDup (map ekey E) -> (forall e, In e E -> In (elabel e) L) ->
  (forall l, In l L -> slen l = n) ->
  Forall (fun e => ok_pair G nf (epair e)) E ->
  Permutation (ids_of (map epair E)) (zseq 0 (Z.to_nat N)) -> round_ok E.
Proof.
  intros A B C D F. refine (conj A (conj _ (conj D F))).
  intros a b Ha Hb. rewrite (C _ (B a Ha)), (C _ (B b Hb)). reflexivity.
Qed.

Lemma initial_round d :
  run_tasks [] (initial_tasks fexp c files) = Some d -> rinv d 1.
Proof.
  intros Hrun. apply run_tasks_some in Hrun. destruct Hrun as (wss & Emap & ->).
  unfold initial_tasks in Emap. apply map_eq_Forall2 in Emap.
  fold (init_inputs (file_labels (List.length files)) files 0) in Emap.
  remember (List.length files) as n eqn:En.
  assert (HL : List.length (file_labels n) = List.length files).
  { rewrite file_labels_eq, map_length, zseq_length. exact En. }
  remember (init_inputs (file_labels n) files 0) as inputs eqn:Ei.
  pose (lab := fun t : string * list fpv * Z => fst (fst t)).
  pose (ids := fun t : string * list fpv * Z => zseq (snd t) (List.length (snd (fst t)))).
  pose proof (init_inputs_spec files [] (file_labels n) HL) as Hspec.
  change (zlen []) with 0 in Hspec. rewrite <- Ei in Hspec. cbn [app] in Hspec.
  assert (F : Forall2 (fun t ws => task_out G nf 1 (lab t) ws (ids t)) inputs wss).
  { eapply Forall2_impl_in; [exact Emap|]. intros [[l rows] st] ws Hin _ Hf.
    cbv beta iota in Hf. unfold lab, ids. cbn [fst snd].
    assert (Hr : In rows files) by (subst inputs; apply init_inputs_rows in Hin; exact Hin).
    rewrite Forall_forall in Hspec. specialize (Hspec _ Hin). cbn [fst snd] in Hspec.
    apply (initial_task_ok fexp G nf Hnf) in Hf; [exact (proj2 Hf)|exact Hbf| | |].
    - rewrite Forall_forall in Hrows. apply Hrows, Hr.
    - pose proof (length_concat_le rows files Hr) as Hle. unfold N, all_rows, zlen in *. lia.
    - intros k fp Hk. unfold G, Gmap. apply nth_error_nth, Hspec, Hk. }
  assert (Hlab : map lab inputs = file_labels n).
  { subst inputs. apply init_inputs_labels, HL. }
  destruct (idx_labels_facts n) as (LN & LL). rewrite <- file_labels_eq in LN, LL.
  destruct (round_from_tasks lab ids 1 inputs wss F ltac:(rewrite Hlab; exact LN))
    as (E & E1 & E2 & E3 & E4 & E5).
  rewrite E1.
  apply (rinv_step [] 0 [] 1 E); [exact dir_is_nil|split; constructor|lia|lia|].
  apply (round_ok_intro E (file_labels n) (slen (str_of_Z (Z.of_nat n)))); try assumption.
  - intros e He. rewrite <- Hlab. apply E3, He.
  - etransitivity; [exact E5|]. subst inputs. unfold ids.
    rewrite init_inputs_ids by exact HL. rewrite N_nat. reflexivity.
Qed.

(* ---------- a tree-merging round ---------- *)
Lemma batches_spec d r bin :
  let bs := batched bin (prev_pairs d r) in
  map fst (batches d r bin) = map (idx_label (List.length bs)) (zseq 0 (List.length bs)) /\
  map snd (batches d r bin) = map (sort_batch d) bs.
Proof.
  cbv zeta. unfold batches. remember (batched bin (prev_pairs d r)) as bs. rewrite !map_map.
  cbn [fst snd]. split.
  - rewrite <- (with_idxs_fst bs 0), map_map. reflexivity.
  - rewrite <- (with_idxs_snd bs 0) at 2. rewrite map_map. reflexivity.
Qed.

Lemma read_pairs_perm d a b : Permutation a b -> Permutation (read_pairs d a) (read_pairs d b).
Proof. intros H. unfold read_pairs. apply flat_map_perm, H. Qed.

Lemma merging_round d R d' :
  2 <= R -> rinv d (R - 1) ->
  run_tasks d (merging_tasks fexp c d R all_rows) = Some d' -> rinv d' R.
Proof.
  intros HR Hi Hrun. apply run_tasks_some in Hrun. destruct Hrun as (wss & Emap & ->).
  unfold merging_tasks in Emap. apply map_eq_Forall2 in Emap.
  destruct (prev_pairs_matched d (R - 1) ltac:(lia) Hi) as (E0 & ks & (A1 & A2 & A3 & A4) & P & _ & RP).
  destruct (batches_spec d (R - 1) (m_bin c)) as (B1 & B2).
  remember (batched (m_bin c) (prev_pairs d (R - 1))) as bs eqn:Ebs.
  remember (batches d (R - 1) (m_bin c)) as inputs eqn:Ei.
  pose (ids := fun b : string * list (string * string) => ids_of (read_pairs d (snd b))).
  (* all the pairs read by the tasks, together *)
  assert (PJ : Permutation (concat (map (fun b => read_pairs d (snd b)) inputs)) (map epair E0)).
  { rewrite <- (map_map snd (read_pairs d)), B2, map_map.
    etransitivity; [apply concat_map_perm; intros x _; apply read_pairs_perm, sort_batch_perm|].
    rewrite <- read_pairs_concat, Ebs, batched_concat by exact Hbin. rewrite RP.
    apply Permutation_map, P. }
  assert (IDS : Permutation (concat (map ids inputs)) (zseq 0 (Z.to_nat N))).
  { unfold ids. rewrite <- (map_map (fun b => read_pairs d (snd b)) ids_of), <- ids_of_concat.
    etransitivity; [apply ids_of_perm; exact PJ|exact A4]. }
  assert (F : Forall2 (fun b ws => task_out G nf R (fst b) ws (ids b)) inputs wss).
  { eapply Forall2_impl_in; [exact Emap|]. intros b ws Hin _ Hf. cbv beta in Hf.
    assert (Hsub : forall i, In i (ids b) -> In i (zseq 0 (Z.to_nat N))).
    { intros i Hi'. apply (Permutation_in _ IDS). eapply in_concat_of; [|exact Hi'].
      apply in_map. exact Hin. }
    apply (merging_task_ok fexp G nf Hnf) in Hf; [exact Hf|exact Hbf| | |].
    - apply Forall_forall. intros p Hp.
      assert (Hp' : In p (map epair E0)).
      { apply (Permutation_in _ PJ). eapply in_concat_of; [|exact Hp].
        apply (in_map (fun b => read_pairs d (snd b))). exact Hin. }
      apply in_map_iff in Hp'. destruct Hp' as (e & <- & He). rewrite Forall_forall in A3. auto.
    - assert (Hle : (List.length (ids b) <= List.length (concat (map ids inputs)))%nat).
      { apply length_concat_le. apply in_map. exact Hin. }
      rewrite (Permutation_length IDS), zseq_length in Hle. fold (ids b).
      unfold zlen. pose proof N_nat as NN. unfold N, zlen in *. lia.
    - intros _. split; [exact all_rows_len|]. intros i Hi'. fold (ids b) in Hi'.
      apply Hsub, In_zseq in Hi'.
      assert (Hr : 0 <= i < N) by (pose proof N_nat; unfold N, zlen in *; lia).
      split; [exact Hr|apply G_nth, Hr]. }
  destruct (idx_labels_facts (List.length bs)) as (LN & LL).
  destruct (round_from_tasks fst ids R inputs wss F ltac:(rewrite B1; exact LN))
    as (E & E1 & E2 & E3 & E4 & E5).
  rewrite E1. destruct Hi as (H & Hd & HP & _).
  apply (rinv_step d (R - 1) H R E); [exact Hd|exact HP|lia|lia|].
  apply (round_ok_intro E (map fst inputs) (slen (str_of_Z (Z.of_nat (List.length bs)))));
    try assumption.
  - rewrite B1. exact LL.
  - etransitivity; [exact E5|exact IDS].
Qed.

Lemma mid_rounds_inv k : forall R d d',
  2 <= R -> rinv d (R - 1) ->
  mid_rounds fexp c all_rows k R d = Some d' -> rinv d' (R - 1 + Z.of_nat k).
Proof.
  induction k as [|k IH]; intros R d d' HR Hi Hm; cbn [mid_rounds] in Hm.
  - injection Hm as <-. now rewrite Z.add_0_r.
  - destruct (run_tasks d (merging_tasks fexp c d R all_rows)) as [d1|] eqn:E1; [|discriminate].
    pose proof (merging_round d R d1 HR Hi E1) as Hi1.
    replace (R - 1 + Z.of_nat (S k)) with (R + 1 - 1 + Z.of_nat k) by lia.
    apply (IH (R + 1) d1 d'); [lia| |exact Hm]. now replace (R + 1 - 1) with R by lia.
Qed.

(* ================= 5. P4: end to end ================= *)
Lemma final_dir d3 (sc : bool) cs cl :
  let ws := ((if sc then [("cluster-centroids-packed.pkl"%string, CCentroids cs)] else []) ++
             [("clusters.pkl"%string, CClusters cl)])%list in
  let d4 := dir_puts d3 ws in
  dir_get d4 "clusters.pkl" = Some (CClusters cl) /\
  (sc = true -> dir_get d4 "cluster-centroids-packed.pkl" = Some (CCentroids cs)) /\
  (forall n, n <> "clusters.pkl"%string -> n <> "cluster-centroids-packed.pkl"%string ->
             dir_get d4 n = dir_get d3 n).
Proof.
  cbv zeta. destruct sc; cbn [app dir_puts fold_left fst snd]; rewrite ?dir_get_put.
  - refine (conj eq_refl (conj (fun _ => eq_refl) _)). intros n N1 N2. rewrite !dir_get_put.
    destruct (String.eqb_spec n "clusters.pkl"); [congruence|].
    destruct (String.eqb_spec n "cluster-centroids-packed.pkl"); [congruence|reflexivity].
  - refine (conj eq_refl (conj _ _)); [discriminate|]. intros n N1 N2. rewrite !dir_get_put.
    destruct (String.eqb_spec n "clusters.pkl"); [congruence|reflexivity].
Qed.

(* the run, opened up: the directory before the final task satisfies the round invariant,
   and the final task has written the two result files *)
Lemma run_multiround_open d :
  run_multiround fexp c files [] = Some d ->
  exists d3 ws,
    rinv d3 (1 + Z.of_nat (m_rounds c)) /\
    final_task fexp c (read_pairs d3 (prev_pairs d3 (1 + Z.of_nat (m_rounds c)))) = Some ws /\
    d = (if m_cleanup c then dir_remove (dir_puts d3 ws) is_round_file else dir_puts d3 ws).
Proof.
  unfold run_multiround. change (dir_remove [] is_purged) with (@nil (string * content)).
  destruct (run_tasks [] (initial_tasks fexp c files)) as [d2|] eqn:E2; [|discriminate].
  fold all_rows.
  destruct (mid_rounds fexp c all_rows (m_rounds c) 2 d2) as [d3|] eqn:E3; [|discriminate].
  replace (2 + Z.of_nat (m_rounds c) - 1) with (1 + Z.of_nat (m_rounds c)) by lia.
  destruct (final_task fexp c _) as [ws|] eqn:E4; [|discriminate].
  intros E. injection E as <-. exists d3, ws. refine (conj _ (conj E4 eq_refl)).
  pose proof (initial_round d2 E2) as I1.
  pose proof (mid_rounds_inv (m_rounds c) 2 d2 d3 ltac:(lia) I1 E3) as I3.
  now replace (2 - 1 + Z.of_nat (m_rounds c)) with (1 + Z.of_nat (m_rounds c)) in I3 by lia.
Qed.

Theorem multiround_partition_gen d :
  run_multiround fexp c files [] = Some d ->
  exists cl,
    dir_get d "clusters.pkl" = Some (CClusters cl) /\
    Permutation (List.concat cl) (zseq 0 (Z.to_nat N)) /\
    NoDup (List.concat cl) /\
    (m_save_centroids c = true ->
     exists cs, dir_get d "cluster-centroids-packed.pkl" = Some (CCentroids cs) /\
       List.length cs = List.length cl /\
       Forall2 (fun cen ids => cen = centroid_fpv (colsum nf (map G ids)) (zlen ids)) cs cl).
Proof.
  intros Hrun. destruct (run_multiround_open d Hrun) as (d3 & ws & I3 & E4 & ->).
  destruct (handed_over_ok d3 (1 + Z.of_nat (m_rounds c)) ltac:(lia) I3) as (Hok & Hids).
  apply (final_task_ok fexp G nf Hnf) in E4; [|exact Hbf|exact Hok|].
  2:{ unfold zlen. rewrite (Permutation_length Hids), zseq_length.
      pose proof N_nat. unfold N, zlen in *. lia. }
  destruct E4 as (cl & cs & -> & P1 & P2 & P3).
  destruct (final_dir d3 (m_save_centroids c) cs cl) as (F1 & F2 & _). cbv zeta in F1, F2.
  assert (PP : Permutation (concat cl) (zseq 0 (Z.to_nat N))) by (etransitivity; eassumption).
  exists cl. refine (conj _ (conj PP (conj _ _))).
  - destruct (m_cleanup c); [rewrite dir_get_remove, clusters_not_round|]; exact F1.
  - eapply Permutation_NoDup; [symmetry; exact PP|apply NoDup_zseq].
  - intros Hs. exists cs. refine (conj _ (conj P2 P3)).
    destruct (m_cleanup c); [rewrite dir_get_remove, centroids_not_round|]; exact (F2 Hs).
Qed.

(* with the intermediate files kept, every (buffer file, index file) pair present in the final
   directory pairs each buffer with its own member list *)
Theorem multiround_pairs_aligned d :
  m_cleanup c = false -> run_multiround fexp c files [] = Some d ->
  forall r l w b i,
    dir_get d (bufs_name r l w) = Some b -> dir_get d (idxs_name r l w) = Some i ->
    pair_aligned G nf b i /\ good_pair nf b i.
Proof.
  intros Hc Hrun r l w b i Hb Hi'.
  destruct (run_multiround_open d Hrun) as (d3 & ws & I3 & E4 & ->). rewrite Hc in Hb, Hi'.
  destruct (handed_over_ok d3 (1 + Z.of_nat (m_rounds c)) ltac:(lia) I3) as (Hok & Hids).
  apply (final_task_ok fexp G nf Hnf) in E4; [|exact Hbf|exact Hok|].
  2:{ unfold zlen. rewrite (Permutation_length Hids), zseq_length.
      pose proof N_nat. unfold N, zlen in *. lia. }
  destruct E4 as (cl & cs & -> & _).
  destruct (final_dir d3 (m_save_centroids c) cs cl) as (_ & _ & F3). cbv zeta in F3.
  rewrite F3 in Hb, Hi'; try (rewrite ?bufs_name_rname, ?idxs_name_rname;
    first [apply rname_not_clusters|apply rname_not_centroids]).
  destruct I3 as (H & (_ & _ & Hget) & (HF & HN') & _).
  apply Hget, In_hwrites in Hb. apply Hget, In_hwrites in Hi'.
  destruct Hb as (re & Hre & Eb). destruct Hi' as (re' & Hre' & Ei).
  rewrite Forall_forall in HF.
  destruct (HF re Hre) as ((R1 & _) & Ok1). destruct (HF re' Hre') as ((R1' & _) & _).
  assert (Hr : 0 <= r).
  { destruct (Z_lt_le_dec r 0) as [Hneg|]; [exfalso|assumption].
    destruct Eb as [E0|E0]; pose proof (f_equal fst E0) as E; cbn [fst] in E;
      unfold ebufs, eidxs in E; symmetry in E; rewrite ?bufs_name_rname, ?idxs_name_rname in E;
      revert E; apply rname_neg_neq; lia. }
  assert (K1 : fst re = r /\ elabel (snd re) = l /\ ewidth (snd re) = w /\ fst (epair (snd re)) = b).
  { destruct Eb as [E0|E0]; pose proof (f_equal fst E0) as E; pose proof (f_equal snd E0) as E';
      cbn [fst snd] in E, E'; unfold ebufs, eidxs in E.
    - apply bufs_name_inj in E; try lia. tauto.
    - symmetry in E. apply bufs_idxs_neq in E; [destruct E|lia|lia]. }
  assert (K2 : fst re' = r /\ elabel (snd re') = l /\ ewidth (snd re') = w /\ snd (epair (snd re')) = i).
  { destruct Ei as [E0|E0]; pose proof (f_equal fst E0) as E; pose proof (f_equal snd E0) as E';
      cbn [fst snd] in E, E'; unfold ebufs, eidxs in E.
    - apply bufs_idxs_neq in E; [destruct E|lia|lia].
    - apply idxs_name_inj in E; try lia. tauto. }
  assert (Ere : re = re').
  { apply (NoDup_map_eq hkey H); try assumption. apply hkey_eq; intuition congruence. }
  subst re'. destruct K1 as (_ & _ & _ & <-). destruct K2 as (_ & _ & _ & <-).
  destruct Ok1 as (O1 & O2). split; assumption.
Qed.

End Rounds.

(* ================= the statement as requested ================= *)
Theorem multiround_partition fexp nf (c : mr_cfg) (files : list (list fpv)) d :
  Z.of_nat nf < 2 ^ 52 ->
  Forall (Forall (fun fp : fpv => List.length fp = nf)) files ->
  zlen (List.concat files) < 2 ^ 64 ->
  2 <= m_bf c -> (1 <= m_bin c)%nat ->
  files <> [] ->
  run_multiround fexp c files [] = Some d ->
  let G := Gmap nf files in
  let N := zlen (List.concat files) in
  exists cl,
    dir_get d "clusters.pkl" = Some (CClusters cl) /\
    Permutation (List.concat cl) (zseq 0 (Z.to_nat N)) /\
    NoDup (List.concat cl) /\
    (m_save_centroids c = true ->
     exists cs, dir_get d "cluster-centroids-packed.pkl" = Some (CCentroids cs) /\
       Forall2 (fun cen ids => cen = centroid_fpv (colsum nf (map G ids)) (zlen ids)) cs cl).
Proof.
  intros Hnf Hrows HN Hbf Hbin _ Hrun. cbv zeta.
  destruct (multiround_partition_gen fexp nf files c Hnf Hrows HN Hbf Hbin d Hrun)
    as (cl & A & B & C & D).
  exists cl. refine (conj A (conj B (conj C _))).
  intros Hs. destruct (D Hs) as (cs & D1 & _ & D3). exists cs. split; assumption.
Qed.

