(* SimMore.v — further facts about the similarity primitives of Model/Sim.v and the
   scikit-learn wrappers of Model/Labels.v: the poles of the most-dissimilar search, the
   medoid on short inputs and with NaNs, the complementary similarity as a leave-one-out
   iSIM, centroids of one row / of rows, and the Jaccard distances of transform/predict. *)
From BB Require Import Model.Sim Model.Labels.
From BB Require Import Proofs.ListFacts Proofs.BitsFacts Proofs.FloatFacts Proofs.KernelFacts
     Proofs.OrderFacts Proofs.TreeSums Proofs.BirchData Proofs.LabelFacts.
From Coq Require Import ZArith List Bool Reals Lia Lra.
From Flocq Require Import Core BinarySingleNaN.
From Flocq Require Import IEEE754.PrimFloat.
Import ListNotations.
Open Scope Z_scope.

#[local] Existing Instance Hprec.
#[local] Existing Instance Hmax.

(* ------------------------------------------------------------------ *)
(* 0. helpers                                                          *)
(* ------------------------------------------------------------------ *)

Lemma nth_map_in {A B : Type} (f : A -> B) (l : list A) (i : nat) (d : B) (d' : A) :
  (i < length l)%nat -> nth i (map f l) d = f (nth i l d').
Proof.
  intros H. rewrite (nth_indep _ d (f d')) by (rewrite map_length; exact H).
  apply map_nth.
Qed.

(* the first minimum of a mapped list: index in range always; a first minimiser when the
   list has no NaN *)
Lemma argmin_map_spec {A : Type} (f : A -> PrimFloat.float) (Y : list A) : Y <> [] ->
  let sc := map f Y in
  let i := argmin_f sc in
  (i < length Y)%nat /\
  (no_nan sc ->
   (forall j, (j < length Y)%nat ->
      PrimFloat.ltb (nth j sc 0%float) (nth i sc 0%float) = false) /\
   (forall j, (j < i)%nat ->
      PrimFloat.ltb (nth i sc 0%float) (nth j sc 0%float) = true)).
Proof.
  intros HY. cbv zeta.
  assert (Hne : map f Y <> []) by (apply map_nonnil, HY).
  split.
  - rewrite <- (map_length f Y). apply argmin_f_lt, Hne.
  - intros NN. destruct (argmin_f_min _ Hne NN) as (_ & H2 & H3).
    rewrite map_length in H2. split; assumption.
Qed.

Lemma centroid_fpv_length ls n : length (centroid_fpv ls n) = length ls.
Proof.
  unfold centroid_fpv, centroid_vals. destruct (n <=? 1); rewrite !map_length; reflexivity.
Qed.

Lemma sim_list_no_nan (Y : list fpv) (c : fpv) :
  Forall (fun y : fpv => Z.of_nat (length y) < 2 ^ 52) Y -> Z.of_nat (length c) < 2 ^ 52 ->
  no_nan (map (fun y => sim y c) Y).
Proof.
  intros HY Hc. unfold no_nan. rewrite Forall_forall. intros v Hv.
  apply in_map_iff in Hv. destruct Hv as (y & <- & Hin).
  rewrite Forall_forall in HY. apply sim_range; [ apply HY, Hin | exact Hc ].
Qed.

(* ------------------------------------------------------------------ *)
(* A. most-dissimilar search                                           *)
(* ------------------------------------------------------------------ *)

(* 1. the first pole is a row least similar to the majority centroid of all rows, the first
   such row *)
Lemma most_dissimilar_first_pole nf Y f1 f2 s1 s2 : Y <> [] ->
  most_dissimilar nf Y = (f1, f2, s1, s2) ->
  let sc := map (fun y => sim y (centroid_fpv (colsum nf Y) (zlen Y))) Y in
  f1 = argmin_f sc /\
  (f1 < length Y)%nat /\
  (no_nan sc ->
   (forall j, (j < length Y)%nat ->
      PrimFloat.ltb (nth j sc 0%float) (nth f1 sc 0%float) = false) /\
   (forall j, (j < f1)%nat ->
      PrimFloat.ltb (nth f1 sc 0%float) (nth j sc 0%float) = true)).
Proof.
  intros HY E. cbv zeta.
  assert (F1 : f1 = argmin_f (map (fun y => sim y (centroid_fpv (colsum nf Y) (zlen Y))) Y)).
  { unfold most_dissimilar in E. cbv zeta in E. injection E as E1 _ _ _.
    symmetry. exact E1. }
  split; [ exact F1 | ].
  rewrite F1.
  exact (argmin_map_spec (fun y => sim y (centroid_fpv (colsum nf Y) (zlen Y))) Y HY).
Qed.

(* the NaN-freeness is automatic for realistic sizes *)
Lemma most_dissimilar_sc_no_nan nf (Y : list fpv) :
  Forall (fun y : fpv => Z.of_nat (length y) < 2 ^ 52) Y -> Z.of_nat nf < 2 ^ 52 ->
  no_nan (map (fun y => sim y (centroid_fpv (colsum nf Y) (zlen Y))) Y).
Proof.
  intros HY Hnf. apply sim_list_no_nan; [ exact HY | ].
  rewrite centroid_fpv_length. pose proof (colsum_length_le nf Y). lia.
Qed.

Lemma most_dissimilar_first_pole_bounded nf Y f1 f2 s1 s2 : Y <> [] ->
  Forall (fun y : fpv => Z.of_nat (length y) < 2 ^ 52) Y -> Z.of_nat nf < 2 ^ 52 ->
  most_dissimilar nf Y = (f1, f2, s1, s2) ->
  let sc := map (fun y => sim y (centroid_fpv (colsum nf Y) (zlen Y))) Y in
  (f1 < length Y)%nat /\
  (forall j, (j < length Y)%nat ->
     PrimFloat.ltb (nth j sc 0%float) (nth f1 sc 0%float) = false) /\
  (forall j, (j < f1)%nat ->
     PrimFloat.ltb (nth f1 sc 0%float) (nth j sc 0%float) = true).
Proof.
  intros HY HL Hnf E. cbv zeta.
  destruct (most_dissimilar_first_pole nf Y f1 f2 s1 s2 HY E) as (_ & H1 & H2).
  destruct (H2 (most_dissimilar_sc_no_nan nf Y HL Hnf)) as (H3 & H4).
  split; [ exact H1 | split; assumption ].
Qed.

(* 2. the second pole is a row least similar to the first pole, the first such row *)
Lemma most_dissimilar_second_pole nf Y f1 f2 s1 s2 : Y <> [] ->
  most_dissimilar nf Y = (f1, f2, s1, s2) ->
  s1 = map (fun y => sim y (nth f1 Y [])) Y /\
  f2 = argmin_f s1 /\
  (f2 < length Y)%nat /\
  (no_nan s1 ->
   (forall j, (j < length Y)%nat ->
      PrimFloat.ltb (nth j s1 0%float) (nth f2 s1 0%float) = false) /\
   (forall j, (j < f2)%nat ->
      PrimFloat.ltb (nth f2 s1 0%float) (nth j s1 0%float) = true)).
Proof.
  intros HY E.
  destruct (most_dissimilar_spec nf Y f1 f2 s1 s2 HY E) as (_ & _ & S1 & _ & F2).
  split; [ exact S1 | split; [ exact F2 | ] ].
  rewrite F2. rewrite S1.
  exact (argmin_map_spec (fun y => sim y (nth f1 Y [])) Y HY).
Qed.

Lemma most_dissimilar_second_pole_bounded nf Y f1 f2 s1 s2 : Y <> [] ->
  Forall (fun y : fpv => Z.of_nat (length y) < 2 ^ 52) Y ->
  most_dissimilar nf Y = (f1, f2, s1, s2) ->
  (f2 < length Y)%nat /\
  (forall j, (j < length Y)%nat ->
     PrimFloat.ltb (nth j s1 0%float) (nth f2 s1 0%float) = false) /\
  (forall j, (j < f2)%nat ->
     PrimFloat.ltb (nth f2 s1 0%float) (nth j s1 0%float) = true).
Proof.
  intros HY HL E.
  destruct (most_dissimilar_spec nf Y f1 f2 s1 s2 HY E) as (B1 & _ & S1 & _ & _).
  destruct (most_dissimilar_second_pole nf Y f1 f2 s1 s2 HY E) as (_ & _ & H1 & H2).
  assert (NN : no_nan s1).
  { rewrite S1. apply sim_list_no_nan; [ exact HL | ].
    rewrite Forall_forall in HL. apply HL, nth_In, B1. }
  destruct (H2 NN) as (H3 & H4).
  split; [ exact H1 | split; assumption ].
Qed.

(* the two poles in exact integer terms (no floats): with sim a b = I a b / U a b, where
   I = |a and b| and U = max (|a| + |b| - |a and b|) 1, the pole minimises the exact
   quotient and is the first row doing so — for fingerprints shorter than 2^25 bits, where
   float64 comparisons of Tanimoto values are faithful *)
Lemma argmin_sim_faithful (Y : list fpv) (c : fpv) : Y <> [] ->
  Forall (fun y : fpv => Z.of_nat (length y) < 2 ^ 25) Y -> Z.of_nat (length c) < 2 ^ 25 ->
  let i := argmin_f (map (fun y => sim y c) Y) in
  let r k := nth k Y [] in
  (i < length Y)%nat /\
  (forall j, (j < length Y)%nat -> I (r i) c * U (r j) c <= I (r j) c * U (r i) c) /\
  (forall j, (j < i)%nat -> I (r i) c * U (r j) c < I (r j) c * U (r i) c).
Proof.
  intros Hne HY Hc. cbv zeta.
  assert (Hlen : forall k, (k < length Y)%nat -> Z.of_nat (length (nth k Y [])) < 2 ^ 25).
  { intros k Hk. rewrite Forall_forall in HY. apply HY, nth_In, Hk. }
  assert (NN : no_nan (map (fun y => sim y c) Y)).
  { apply sim_list_no_nan.
    - eapply Forall_impl; [ | exact HY ]. intros y Hy. cbv beta in Hy.
      eapply Z.lt_trans; [ exact Hy | reflexivity ].
    - eapply Z.lt_trans; [ exact Hc | reflexivity ]. }
  pose proof (argmin_map_spec (fun y => sim y c) Y Hne) as HA. cbv zeta in HA.
  destruct HA as (A1 & A23). destruct (A23 NN) as (A2 & A3). clear A23.
  remember (argmin_f (map (fun y => sim y c) Y)) as i eqn:Ei.
  split; [ exact A1 | split ].
  - intros j Hj. specialize (A2 j Hj).
    rewrite !nth_map_sim in A2 by assumption.
    rewrite sim_lt_faithful in A2 by auto.
    apply Z.ltb_ge in A2. lia.
  - intros j Hj. specialize (A3 j Hj).
    rewrite !nth_map_sim in A3 by lia.
    rewrite sim_lt_faithful in A3 by (auto; apply Hlen; lia).
    apply Z.ltb_lt in A3. lia.
Qed.

Lemma most_dissimilar_poles_exact nf Y f1 f2 s1 s2 : Y <> [] ->
  Forall (fun y : fpv => Z.of_nat (length y) < 2 ^ 25) Y -> Z.of_nat nf < 2 ^ 25 ->
  most_dissimilar nf Y = (f1, f2, s1, s2) ->
  let c := centroid_fpv (colsum nf Y) (zlen Y) in
  let r k := nth k Y [] in
  (forall j, (j < length Y)%nat -> I (r f1) c * U (r j) c <= I (r j) c * U (r f1) c) /\
  (forall j, (j < f1)%nat -> I (r f1) c * U (r j) c < I (r j) c * U (r f1) c) /\
  (forall j, (j < length Y)%nat ->
     I (r f2) (r f1) * U (r j) (r f1) <= I (r j) (r f1) * U (r f2) (r f1)) /\
  (forall j, (j < f2)%nat ->
     I (r f2) (r f1) * U (r j) (r f1) < I (r j) (r f1) * U (r f2) (r f1)).
Proof.
  intros HY HL Hnf E. cbv zeta.
  destruct (most_dissimilar_first_pole nf Y f1 f2 s1 s2 HY E) as (F1 & B1 & _).
  destruct (most_dissimilar_second_pole nf Y f1 f2 s1 s2 HY E) as (S1 & F2 & _ & _).
  assert (Hc : Z.of_nat (length (centroid_fpv (colsum nf Y) (zlen Y))) < 2 ^ 25).
  { rewrite centroid_fpv_length. pose proof (colsum_length_le nf Y). lia. }
  assert (H1 : Z.of_nat (length (nth f1 Y [])) < 2 ^ 25).
  { rewrite Forall_forall in HL. apply HL, nth_In, B1. }
  pose proof (argmin_sim_faithful Y _ HY HL Hc) as P1. cbv zeta in P1.
  rewrite <- F1 in P1. destruct P1 as (_ & P1a & P1b).
  pose proof (argmin_sim_faithful Y _ HY HL H1) as P2. cbv zeta in P2.
  rewrite <- S1, <- F2 in P2. destruct P2 as (_ & P2a & P2b).
  repeat split; assumption.
Qed.

(* 3. similarity of a row to itself *)
Lemma sim_self_one (y : fpv) : 0 < card y -> Z.of_nat (length y) < 2 ^ 53 ->
  sim y y = 1%float.
Proof.
  intros Hc Hl. unfold sim, tanimoto_f. rewrite card_andv_self.
  replace (card y + card y - card y) with (card y) by lia.
  rewrite Z.max_l by lia.
  apply div_self_one. pose proof (card_range y). lia.
Qed.

Lemma sim_self_zero (y : fpv) : card y = 0 -> sim y y = 0%float.
Proof.
  intros Hc. unfold sim. rewrite card_andv_self, Hc. apply tanimoto_empty.
Qed.

Lemma most_dissimilar_self_sim nf Y f1 f2 s1 s2 : Y <> [] ->
  most_dissimilar nf Y = (f1, f2, s1, s2) ->
  let y1 := nth f1 Y [] in
  let y2 := nth f2 Y [] in
  (0 < card y1 -> Z.of_nat (length y1) < 2 ^ 53 -> nth f1 s1 0%float = 1%float) /\
  (card y1 = 0 -> nth f1 s1 0%float = 0%float) /\
  (0 < card y2 -> Z.of_nat (length y2) < 2 ^ 53 -> nth f2 s2 0%float = 1%float) /\
  (card y2 = 0 -> nth f2 s2 0%float = 0%float).
Proof.
  intros HY E. cbv zeta.
  destruct (most_dissimilar_spec nf Y f1 f2 s1 s2 HY E) as (B1 & B2 & S1 & S2 & _).
  assert (N1 : nth f1 s1 0%float = sim (nth f1 Y []) (nth f1 Y [])).
  { rewrite S1 at 1. apply (nth_map_in (fun y => sim y (nth f1 Y []))). exact B1. }
  assert (N2 : nth f2 s2 0%float = sim (nth f2 Y []) (nth f2 Y [])).
  { rewrite S2 at 1. apply (nth_map_in (fun y => sim y (nth f2 Y []))). exact B2. }
  rewrite N1, N2.
  split; [ apply sim_self_one | ].
  split; [ apply sim_self_zero | ].
  split; [ apply sim_self_one | apply sim_self_zero ].
Qed.

(* ------------------------------------------------------------------ *)
(* B. medoid                                                           *)
(* ------------------------------------------------------------------ *)

(* how the first-extremum search treats NaN: a NaN incumbent is never replaced, and a NaN
   candidate replaces every non-NaN incumbent — so the result is the FIRST NaN if any *)
Lemma argbest_min_nan_stays : forall tl i best bv, is_nan_f bv = true ->
  argbest (fun x b => negb (is_nan_f b) && (is_nan_f x || PrimFloat.ltb x b)) tl i best bv
  = best.
Proof.
  induction tl as [|x tl IH]; intros i best bv H; cbn [argbest]; [ reflexivity | ].
  rewrite H. cbn [negb andb]. apply IH. exact H.
Qed.

Lemma argbest_min_first_nan : forall tl i best bv k,
  is_nan_f bv = false -> (k < length tl)%nat ->
  (forall j, (j < k)%nat -> is_nan_f (nth j tl 0%float) = false) ->
  is_nan_f (nth k tl 0%float) = true ->
  argbest (fun x b => negb (is_nan_f b) && (is_nan_f x || PrimFloat.ltb x b)) tl i best bv
  = (i + k)%nat.
Proof.
  induction tl as [|x tl IH]; intros i best bv k Hbv Hk Hpre Hnan.
  - cbn [length] in Hk. lia.
  - cbn [argbest]. rewrite Hbv. cbn [negb andb].
    destruct k as [|k].
    + cbn [nth] in Hnan. rewrite Hnan. cbn [orb].
      rewrite argbest_min_nan_stays by exact Hnan. lia.
    + assert (Nx : is_nan_f x = false) by (apply (Hpre O); lia).
      assert (Hpre' : forall j, (j < k)%nat -> is_nan_f (nth j tl 0%float) = false).
      { intros j Hj. apply (Hpre (S j)). lia. }
      cbn [length] in Hk. cbn [nth] in Hnan.
      rewrite Nx. cbn [orb].
      destruct (PrimFloat.ltb x bv).
      * rewrite (IH (S i) i x k) by (try assumption; lia). lia.
      * rewrite (IH (S i) best bv k) by (try assumption; lia). lia.
Qed.

Lemma argmin_f_first_nan (l : list PrimFloat.float) (k : nat) : (k < length l)%nat ->
  (forall j, (j < k)%nat -> is_nan_f (nth j l 0%float) = false) ->
  is_nan_f (nth k l 0%float) = true ->
  argmin_f l = k.
Proof.
  intros Hk Hpre Hnan. destruct l as [|x tl]; [ cbn [length] in Hk; lia | ].
  unfold argmin_f. destruct k as [|k].
  - cbn [nth] in Hnan. apply argbest_min_nan_stays. exact Hnan.
  - rewrite (argbest_min_first_nan tl 1%nat O x k).
    + reflexivity.
    + apply (Hpre O). lia.
    + cbn [length] in Hk. lia.
    + intros j Hj. apply (Hpre (S j)). lia.
    + exact Hnan.
Qed.

(* 4. fewer than three rows: every complementary similarity is NaN, the medoid is row 0 *)
Lemma medoid_small nf rows : (length rows < 3)%nat ->
  medoid_index nf rows = O /\ compl_isim nf rows = map (fun _ => nan) rows.
Proof.
  intros H. split.
  - apply KernelFacts.medoid_small. exact H.
  - unfold compl_isim. destruct (zlen rows - 1 <? 2) eqn:E; [ reflexivity | ].
    apply Z.ltb_ge in E. unfold zlen in E. lia.
Qed.

(* 5. the medoid index is always in range, NaN or not *)
Lemma medoid_in_range_always nf rows : rows <> [] ->
  (medoid_index nf rows < length rows)%nat.
Proof.
  intros Hne. unfold medoid_index.
  destruct (zlen rows <? 3).
  - destruct rows; [ congruence | cbn [length]; lia ].
  - rewrite <- (compl_isim_length nf rows). apply argmin_f_lt.
    intros H0. apply (f_equal (@length _)) in H0. rewrite compl_isim_length in H0.
    destruct rows; [ congruence | discriminate ].
Qed.

(* with a NaN among the complementary similarities the medoid is the first such row
   (numpy's argmin) *)
Lemma medoid_first_nan nf rows k : (3 <= length rows)%nat -> (k < length rows)%nat ->
  (forall j, (j < k)%nat -> is_nan_f (nth j (compl_isim nf rows) 0%float) = false) ->
  is_nan_f (nth k (compl_isim nf rows) 0%float) = true ->
  medoid_index nf rows = k.
Proof.
  intros H3 Hk Hpre Hnan. unfold medoid_index.
  destruct (zlen rows <? 3) eqn:E.
  - apply Z.ltb_lt in E. unfold zlen in E. lia.
  - apply argmin_f_first_nan; try assumption. rewrite compl_isim_length. exact Hk.
Qed.

(* 6. complementary similarity = iSIM of the other rows *)
Definition remove_nth {A : Type} (i : nat) (l : list A) : list A :=
  firstn i l ++ skipn (S i) l.

Lemma split_nth {A : Type} (l : list A) (i : nat) (d : A) : (i < length l)%nat ->
  l = firstn i l ++ nth i l d :: skipn (S i) l.
Proof.
  revert i. induction l as [|x l IH]; intros i H; [ cbn [length] in H; lia | ].
  destruct i as [|i].
  - reflexivity.
  - cbn [firstn nth skipn app]. f_equal. apply IH. cbn [length] in H. lia.
Qed.

Lemma remove_nth_length {A : Type} (l : list A) (i : nat) : (i < length l)%nat ->
  length (remove_nth i l) = (length l - 1)%nat.
Proof.
  intros H. unfold remove_nth. rewrite app_length, firstn_length, skipn_length. lia.
Qed.

Lemma remove_nth_zlen {A : Type} (l : list A) (i : nat) : (i < length l)%nat ->
  zlen (remove_nth i l) = zlen l - 1.
Proof. intros H. unfold zlen. rewrite remove_nth_length by exact H. lia. Qed.

Lemma remove_nth_Forall {A : Type} (P : A -> Prop) (l : list A) (i : nat) :
  Forall P l -> Forall P (remove_nth i l).
Proof.
  intros H. unfold remove_nth. apply Forall_app. split.
  - apply Forall_firstn, H.
  - apply Forall_skipn, H.
Qed.

Lemma colsum_len nf (rows : list fpv) :
  Forall (fun r : fpv => length r = nf) rows -> length (colsum nf rows) = nf.
Proof.
  intros H. unfold colsum.
  assert (G : forall acc, length acc = nf ->
    length (fold_left (fun acc f => map2 Z.add acc (map b2z f)) rows acc) = nf).
  { induction H as [|r rows Hr _ IH]; intros acc Ha; cbn [fold_left]; [ exact Ha | ].
    apply IH. rewrite map2_length, map_length, Ha, Hr. apply Nat.min_id. }
  apply G, repeat_length.
Qed.

(* column sums = column sums of the other rows + the row *)
Lemma colsum_split_nth nf (rows : list fpv) (i : nat) :
  Forall (fun r : fpv => length r = nf) rows -> (i < length rows)%nat ->
  colsum nf rows = map2 Z.add (colsum nf (remove_nth i rows)) (map b2z (nth i rows [])).
Proof.
  intros HF Hi.
  assert (Hr : length (nth i rows []) = nf).
  { rewrite Forall_forall in HF. apply HF, nth_In, Hi. }
  rewrite (split_nth rows i [] Hi) at 1.
  unfold remove_nth.
  change (nth i rows [] :: skipn (S i) rows) with ([nth i rows []] ++ skipn (S i) rows).
  rewrite !colsum_app_gen. rewrite (colsum_single nf _ Hr).
  rewrite (vadd_comm (map b2z (nth i rows []))), vadd_assoc. reflexivity.
Qed.

Lemma map2_sub_add (a r : list Z) : length a = length r ->
  map2 Z.sub (map2 Z.add a r) r = a.
Proof.
  revert r. induction a as [|x a IH]; intros [|y r] H; try discriminate; [ reflexivity | ].
  cbn [map2]. f_equal; [ lia | ]. apply IH. cbn [length] in H. lia.
Qed.

Lemma colsum_sub_row nf (rows : list fpv) (i : nat) :
  Forall (fun r : fpv => length r = nf) rows -> (i < length rows)%nat ->
  map2 Z.sub (colsum nf rows) (map b2z (nth i rows [])) = colsum nf (remove_nth i rows).
Proof.
  intros HF Hi.
  rewrite (colsum_split_nth nf rows i HF Hi) at 1.
  apply map2_sub_add.
  rewrite colsum_len by (apply remove_nth_Forall, HF).
  rewrite map_length. symmetry.
  rewrite Forall_forall in HF. apply HF, nth_In, Hi.
Qed.

Lemma compl_isim_is_leave_one_out nf (rows : list fpv) (i : nat) (d : PrimFloat.float) :
  (3 <= length rows)%nat -> Forall (fun r : fpv => length r = nf) rows ->
  (i < length rows)%nat ->
  nth i (compl_isim nf rows) d = isim_f (colsum nf (remove_nth i rows)) (zlen rows - 1) /\
  zlen (remove_nth i rows) = zlen rows - 1.
Proof.
  intros H3 HF Hi. split; [ | apply remove_nth_zlen, Hi ].
  unfold compl_isim.
  destruct (zlen rows - 1 <? 2) eqn:E.
  - apply Z.ltb_lt in E. unfold zlen in E. lia.
  - rewrite (nth_map_in
               (fun r => isim_f (map2 Z.sub (colsum nf rows) (map b2z r)) (zlen rows - 1))
               rows i d []) by exact Hi.
    rewrite colsum_sub_row by assumption. reflexivity.
Qed.

(* ------------------------------------------------------------------ *)
(* C. centroid                                                         *)
(* ------------------------------------------------------------------ *)

(* the n <= 1 branch of the model: uint8 cast of the sums, then "non-zero" *)
Lemma centroid_fpv_le1 ls n : n <= 1 ->
  centroid_fpv ls n = map (fun k => negb (k mod 256 =? 0)) ls.
Proof.
  intros Hn. unfold centroid_fpv, centroid_vals.
  destruct (n <=? 1) eqn:E; [ | apply Z.leb_gt in E; lia ].
  rewrite map_map. reflexivity.
Qed.

(* 7. the centroid of a single fingerprint is the fingerprint *)
Lemma centroid_single ls : Forall (fun k => k = 0 \/ k = 1) ls ->
  centroid_fpv ls 1 = map (fun k => k =? 1) ls.
Proof.
  intros H. rewrite centroid_fpv_le1 by lia.
  apply map_ext_in. intros k Hk. rewrite Forall_forall in H.
  destruct (H k Hk) as [-> | ->]; reflexivity.
Qed.

Lemma map_b2z_eqb1 (r : fpv) : map (fun k => k =? 1) (map b2z r) = r.
Proof.
  induction r as [|b r IH]; [ reflexivity | ].
  cbn [map]. rewrite IH. destruct b; reflexivity.
Qed.

Lemma centroid_single_row nf (r : fpv) : length r = nf ->
  centroid_fpv (colsum nf [r]) 1 = r.
Proof.
  intros H. rewrite (colsum_single nf r H).
  rewrite centroid_single.
  - apply map_b2z_eqb1.
  - apply Forall_forall. intros k Hk. apply in_map_iff in Hk.
    destruct Hk as (b & <- & _). destruct b; cbn [b2z]; auto.
Qed.

(* column sums of binary rows are between 0 and the number of rows *)
Lemma colsum_between nf (rows : list fpv) :
  Forall (fun k => 0 <= k <= zlen rows) (colsum nf rows).
Proof.
  unfold colsum.
  assert (G : forall (rs : list fpv) acc m, Forall (fun k => 0 <= k <= m) acc ->
    Forall (fun k => 0 <= k <= m + zlen rs)
           (fold_left (fun acc f => map2 Z.add acc (map b2z f)) rs acc)).
  { induction rs as [|r rs IH]; intros acc m H; cbn [fold_left].
    - unfold zlen. cbn [length]. replace (m + Z.of_nat 0) with m by lia. exact H.
    - replace (m + zlen (r :: rs)) with ((m + 1) + zlen rs)
        by (unfold zlen; cbn [length]; lia).
      apply IH. clear IH. revert r. induction H as [|a acc Ha _ IHa]; intros r.
      + destruct r; constructor.
      + destruct r as [|b r]; cbn [map map2]; constructor.
        * destruct b; cbn [b2z]; lia.
        * apply IHa. }
  replace (zlen rows) with (0 + zlen rows) by lia.
  apply G. apply Forall_forall. intros k Hk. apply repeat_spec in Hk. lia.
Qed.

(* 8. the centroid of rows is the per-column majority, ties set *)
Lemma centroid_of_rows nf (rows : list fpv) : 2 <= zlen rows < 2 ^ 53 ->
  centroid_fpv (colsum nf rows) (zlen rows) =
  map (fun k => zlen rows <=? 2 * k) (colsum nf rows).
Proof.
  intros Hn. apply centroid_majority; [ exact Hn | apply colsum_between ].
Qed.

(* the same from one row on: for a single row the majority map is the row itself *)
Lemma centroid_of_rows1 nf (rows : list fpv) : 1 <= zlen rows < 2 ^ 53 ->
  centroid_fpv (colsum nf rows) (zlen rows) =
  map (fun k => zlen rows <=? 2 * k) (colsum nf rows).
Proof.
  intros Hn. destruct (Z.eq_dec (zlen rows) 1) as [E | NE].
  - rewrite E. rewrite centroid_fpv_le1 by lia.
    apply map_ext_in. intros k Hk.
    pose proof (colsum_between nf rows) as HB. rewrite Forall_forall in HB.
    specialize (HB k Hk). rewrite E in HB.
    assert (Hk' : k = 0 \/ k = 1) by lia. destruct Hk' as [-> | ->]; reflexivity.
  - apply centroid_of_rows. lia.
Qed.

(* ------------------------------------------------------------------ *)
(* D. scikit-learn wrapper                                             *)
(* ------------------------------------------------------------------ *)

(* 9. shape and entries of transform *)
Lemma sk_transform_shape st Q :
  length (sk_transform st Q) = length Q /\
  Forall (fun row => length row = length (sk_centers st)) (sk_transform st Q).
Proof. exact (LabelFacts.sk_transform_shape st Q). Qed.

Lemma sk_transform_entry st Q i k :
  (i < length Q)%nat -> (k < length (sk_centers st))%nat ->
  nth k (nth i (sk_transform st Q) []) 0%float =
  jaccard_f (nth i Q []) (nth k (sk_centers st) []).
Proof.
  intros Hi Hk. unfold sk_transform.
  rewrite (nth_map_in (fun q => map (fun c => jaccard_f q c) (sk_centers st)) Q i [] [])
    by exact Hi.
  apply (nth_map_in (fun c => jaccard_f (nth i Q []) c)). exact Hk.
Qed.

(* 10. |a xor b| = |a or b| - |a and b|, and the distance is the correctly rounded
   quotient, i.e. the rounded 1 - Tanimoto of exact arithmetic *)
Lemma card_xor (a b : fpv) : card (xorv a b) = card (orv a b) - card (andv a b).
Proof.
  unfold xorv, orv, andv. revert b.
  induction a as [|x a IH]; intros [|y b]; cbn [map2 card]; try lia.
  specialize (IH b). destruct x, y; cbn [xorb orb andb b2z]; lia.
Qed.

Lemma card_orv_le (a b : fpv) :
  0 <= card (orv a b) <= Z.of_nat (Nat.min (length a) (length b)).
Proof.
  pose proof (card_range (orv a b)) as H. unfold orv in H at 3.
  rewrite map2_length in H. exact H.
Qed.

Lemma jaccard_is_one_minus_tanimoto_exact (a b : fpv) :
  length a = length b -> Z.of_nat (length a) < 2 ^ 52 -> 0 < card (orv a b) ->
  card (xorv a b) = card (orv a b) - card (andv a b) /\
  is_finite (Prim2B (jaccard_f a b)) = true /\
  B2R (Prim2B (jaccard_f a b)) =
    rnd64 (IZR (card (xorv a b)) / IZR (card (orv a b)))%R /\
  (IZR (card (xorv a b)) / IZR (card (orv a b)) =
   1 - IZR (card (andv a b)) / IZR (card (orv a b)))%R.
Proof.
  intros HL Hn Hpos.
  pose proof (card_xor a b) as HX.
  pose proof (card_orv_le a b) as HO.
  pose proof (card_andv_nonneg a b) as HA.
  pose proof (card_range (xorv a b)) as HXr.
  change (2 ^ 52) with 4503599627370496 in Hn.
  split; [ exact HX | ].
  assert (B : card (orv a b) < 2 ^ 53)
    by (change (2 ^ 53) with 9007199254740992; lia).
  unfold jaccard_f. cbv zeta.
  destruct (Z.eqb_spec (card (orv a b)) 0) as [E0 | NE]; [ lia | ].
  destruct (div_spec_int (card (xorv a b)) (card (orv a b))) as (F & R & _);
    [ lia | lia | ].
  split; [ exact F | split; [ exact R | ] ].
  rewrite HX, minus_IZR. field. apply not_0_IZR. lia.
Qed.

(* 11. range of the distance *)
Lemma jaccard_tanimoto (a b : fpv) : card (orv a b) <> 0 ->
  jaccard_f a b = tanimoto_f (card (xorv a b)) (card (orv a b)) (card (xorv a b)).
Proof.
  intros NE. unfold jaccard_f, tanimoto_f. cbv zeta.
  destruct (Z.eqb_spec (card (orv a b)) 0) as [E0 | _]; [ contradiction | ].
  pose proof (card_orv_le a b) as HO.
  replace (card (orv a b) + card (xorv a b) - card (xorv a b)) with (card (orv a b)) by lia.
  rewrite Z.max_l by lia. reflexivity.
Qed.

Lemma jaccard_range_min (a b : fpv) :
  Z.of_nat (Nat.min (length a) (length b)) < 2 ^ 52 ->
  is_nan_f (jaccard_f a b) = false /\
  PrimFloat.leb 0 (jaccard_f a b) = true /\ PrimFloat.leb (jaccard_f a b) 1 = true.
Proof.
  intros Hn.
  destruct (Z.eq_dec (card (orv a b)) 0) as [E0 | NE].
  - unfold jaccard_f. cbv zeta. rewrite E0. cbn [Z.eqb].
    repeat split; vm_compute; reflexivity.
  - rewrite jaccard_tanimoto by exact NE.
    pose proof (card_xor a b) as HX.
    pose proof (card_orv_le a b) as HO.
    pose proof (card_andv_nonneg a b) as HA.
    pose proof (card_range (xorv a b)) as HXr.
    change (2 ^ 52) with 4503599627370496 in Hn.
    apply tanimoto_range; [ lia | lia | lia | ].
    change (2 ^ 53) with 9007199254740992. lia.
Qed.

Lemma jaccard_range (a b : fpv) :
  Z.of_nat (length a) < 2 ^ 52 -> Z.of_nat (length b) < 2 ^ 52 ->
  is_nan_f (jaccard_f a b) = false /\
  PrimFloat.leb 0 (jaccard_f a b) = true /\ PrimFloat.leb (jaccard_f a b) 1 = true.
Proof.
  intros Ha Hb. apply jaccard_range_min. lia.
Qed.

(* 12. predicted labels are ranks of existing centroids *)
Lemma sk_predict_range st Q : sk_centers st <> [] ->
  length (sk_predict st Q) = length Q /\
  Forall (fun l => 1 <= l <= zlen (sk_centers st)) (sk_predict st Q).
Proof.
  intros Hne. unfold sk_predict. split.
  - rewrite map_length. apply (proj1 (sk_transform_shape st Q)).
  - apply Forall_forall. intros l Hl. apply in_map_iff in Hl.
    destruct Hl as (row & <- & Hrow).
    unfold sk_transform in Hrow. apply in_map_iff in Hrow.
    destruct Hrow as (q & <- & _).
    pose proof (argmin_f_lt (map (fun c => jaccard_f q c) (sk_centers st))
                  (map_nonnil _ _ _ _ Hne)) as HA.
    rewrite map_length in HA. unfold zlen. lia.
Qed.

(* ------------------------------------------------------------------ *)
(* Demo: the statements on small concrete inputs                       *)
(* ------------------------------------------------------------------ *)
Module Demo.
  Definition r0 : fpv := [true; true; false; false].
  Definition r1 : fpv := [true; true; true; false].
  Definition r2 : fpv := [false; false; false; true].
  Definition r3 : fpv := [true; false; true; false].
  Definition Y : list fpv := [r0; r1; r2; r3].

  (* item 1: the majority centroid is 1110; row 2 (0001) is the least similar to it *)
  Example demo_centroid : centroid_fpv (colsum 4 Y) (zlen Y) = [true; true; true; false].
  Proof. vm_compute. reflexivity. Qed.
  Example demo_first_pole :
    fst (fst (fst (most_dissimilar 4 Y))) = 2%nat /\
    argmin_f (map (fun y => sim y (centroid_fpv (colsum 4 Y) (zlen Y))) Y) = 2%nat /\
    map (fun y => sim y (centroid_fpv (colsum 4 Y) (zlen Y))) Y
      = [(2 / 3)%float; 1%float; 0%float; (2 / 3)%float].
  Proof. vm_compute. repeat split. Qed.
  (* item 3: the similarity list of the pole has 1 at the pole *)
  Example demo_self_sim :
    let '(f1, f2, s1, s2) := most_dissimilar 4 Y in
    nth f1 s1 0%float = 1%float /\ nth f2 s2 0%float = 1%float.
  Proof. vm_compute. split; reflexivity. Qed.

  (* item 4: two rows *)
  Example demo_medoid_small :
    medoid_index 4 [r0; r1] = O /\ map is_nan_f (compl_isim 4 [r0; r1]) = [true; true].
  Proof. vm_compute. split; reflexivity. Qed.

  (* item 6: leave-one-out *)
  Example demo_leave_one_out :
    nth 1 (compl_isim 4 Y) 0%float = isim_f (colsum 4 [r0; r2; r3]) 3 /\
    remove_nth 1 Y = [r0; r2; r3] /\
    colsum 4 Y = map2 Z.add (colsum 4 (remove_nth 1 Y)) (map b2z r1) /\
    is_nan_f (nth 1 (compl_isim 4 Y) 0%float) = false.
  Proof. vm_compute. repeat split. Qed.
  Example demo_medoid : medoid_index 4 Y = 1%nat.
  Proof. vm_compute. reflexivity. Qed.

  (* item 7: one fingerprint *)
  Example demo_centroid_single :
    centroid_fpv [1; 0; 1; 1] 1 = [true; false; true; true] /\
    centroid_fpv (colsum 4 [r3]) 1 = r3.
  Proof. vm_compute. split; reflexivity. Qed.
  (* the n <= 1 branch goes through a uint8 cast: a sum of 256 reads as 0 *)
  Example demo_centroid_le1_wrap : centroid_fpv [256; 255] 1 = [false; true].
  Proof. vm_compute. reflexivity. Qed.

  (* items 10, 11 *)
  Example demo_jaccard : jaccard_f r0 r3 = (2 / 3)%float /\ jaccard_f r2 r2 = 0%float.
  Proof. vm_compute. split; reflexivity. Qed.

  (* a NaN among the values: the first NaN wins *)
  Example demo_argmin_nan : argmin_f [0.5%float; nan; 0.25%float; nan] = 1%nat.
  Proof. vm_compute. reflexivity. Qed.
End Demo.

