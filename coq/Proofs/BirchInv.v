(* BirchInv.v — estimator-level invariants: one insertion, fit, leaves as read by the API. *)
From BB Require Import Model.Birch Proofs.ListFacts Proofs.TreeDefs Proofs.TreeRel
     Proofs.TreeShape Proofs.TreeBlocks Proofs.TreeChain Proofs.TreeSums Proofs.TreeBal
     Proofs.BirchDefs Proofs.SimMax.
From Coq Require Import Lia Permutation.
Open Scope Z_scope.

Section WithExp.
Variable fexp : float -> float.

(* ================= PART A ================= *)
Section A1.
Variable nf : nat.
Variable c : crit.
Variable thr : float.
Hypothesis Hsim : forall a b : fpv,
    length a = nf -> length b = nf -> (sim a a <? sim a b)%float = false.

Lemma cnt_ok_merge s t m :
  length (sls s) = length (sls t) -> sub_exact s -> sub_exact t -> sn s + sn t < 2^64 ->
  cnt_ok s -> cnt_ok t ->
  merge_sub fexp c thr s t = Some m -> cnt_ok m.
Proof.
  intros Hl Es Et Hb Cs Ct Hm.
  destruct (merge_sub_exact fexp c thr s t m Hl Es Et Hb Hm) as (_ & M2 & _ & M4).
  unfold cnt_ok in *. rewrite M2, M4, Cs, Ct. unfold zlen. rewrite app_length. lia.
Qed.

Lemma Ins_cnt_mut :
  (forall nd s ax nd' sp ax',
      Ins fexp nf c thr nd s ax nd' sp ax' ->
      shape nf nd -> sub_len nf s -> sums_ok nf nd -> sub_exact s ->
      tot_n (lsubs nd) + sn s < 2^64 ->
      Forall cnt_ok (lsubs nd) -> cnt_ok s -> Forall cnt_ok (lsubs nd')) /\
  (forall es k s cache ax es' cache' ax',
      InsE fexp nf c thr es k s cache ax es' cache' ax' ->
      shape_e nf es -> cache = map scent (ents_subs es) -> (k < ents_len es)%nat ->
      sub_len nf s -> sums_ok_e nf es -> sub_exact s ->
      tot_n (lsubs_e es) + sn s < 2^64 ->
      Forall cnt_ok (lsubs_e es) -> cnt_ok s -> Forall cnt_ok (lsubs_e es')).
Proof.
  apply Ins_mutind.
  - (* leaf empty *)
    intros id bf cache s ax _ _ _ _ _ _ Cs. cbn [lsubs]. constructor; [exact Cs|constructor].
  - (* leaf merge *)
    intros id bf es cache s ax m Hne Hm (Hbf & Hc & Hes) Hs Hok He Hb HC Cs.
    cbn [sums_ok lsubs] in *. subst cache.
    assert (Hr : (route (map scent es) s < length es)%nat).
    { rewrite <- (map_length scent). apply (route_lt). destruct es; [congruence|discriminate]. }
    destruct (upd_split (route (map scent es) s) m s es Hr) as (l1 & l2 & E1 & E2 & _).
    rewrite E2. clear E2 Hr Hne. revert Hm E1.
    generalize (nth (route (map scent es) s) es s). intros x Hm E1. subst es.
    apply Forall_app in Hes. destruct Hes as [L1 L2x].
    inversion L2x as [|? ? Lx L2]; subst.
    apply Forall_app in Hok. destruct Hok as [O1 O2x].
    inversion O2x as [|? ? Ox O2]; subst.
    apply Forall_app in HC. destruct HC as [C1 C2x].
    inversion C2x as [|? ? Cx C2]; subst.
    rewrite tot_n_app, tot_n_cons in Hb.
    pose proof (tot_n_nonneg _ O1) as N1. pose proof (tot_n_nonneg _ O2) as N2.
    assert (Hb' : sn x + sn s < 2^64) by lia.
    assert (Hlen : length (sls x) = length (sls s)).
    { destruct Lx as [Lx _]. destruct Hs as [Hs _]. congruence. }
    apply Forall_app. split; [exact C1|]. constructor; [|exact C2].
    eapply cnt_ok_merge; eauto.
  - (* leaf append *)
    intros id bf es cache s ax Hne Hm _ _ _ _ _ HC Cs. cbn [lsubs] in *.
    apply Forall_app. split; [exact HC|]. constructor; [exact Cs|constructor].
  - (* inner *)
    intros bf es cache s ax es' cache' ax' _ IH (Hbf & Hc & Hne & Hes) Hs Hok He Hb HC Cs.
    change (shape_e nf es) in Hes. cbn [sums_ok lsubs] in *.
    apply (IH Hes Hc); auto.
    assert (Hcn : cache <> []).
    { subst cache. destruct es; [congruence|discriminate]. }
    pose proof (route_lt cache s Hcn) as Hr.
    subst cache. rewrite map_length, ents_subs_length in Hr. exact Hr.
  - (* nil *)
    intros k s cache ax _ _ Hk. cbn in Hk. lia.
  - (* skip *)
    intros e ch tl k s cache ax tl' ctl' ax' HI IH (Le & Hch & Htl) Hc Hk Hs Hok He Hb HC Cs.
    change (shape_e nf tl) in Htl. change (shape nf ch) in Hch.
    destruct Hok as (O1 & O2 & O3 & O4 & O5 & O6).
    cbn [ents_subs map] in Hc. subst cache. cbn [List.tl firstn] in *.
    cbn [lsubs_e] in *. cbn [ents_len] in Hk.
    pose proof (tot_n_nonneg _ (sums_lsubs nf _ O5)) as N1.
    rewrite tot_n_app in Hb.
    apply Forall_app in HC. destruct HC as [C1 C2].
    apply Forall_app. split; [exact C1|].
    apply (IH Htl eq_refl ltac:(lia) Hs O6 He ltac:(lia) C2 Cs).
  - (* split *)
    intros e ch tl s cache ax ch' ax1 t1 n1 t2 n2 ax2 HI IH Hsp (Le & Hch & Htl) Hc Hk Hs Hok He Hb HC Cs.
    change (shape_e nf tl) in Htl. change (shape nf ch) in Hch.
    destruct Hok as (O1 & O2 & O3 & O4 & O5 & O6).
    cbn [lsubs_e] in *.
    pose proof (tot_n_nonneg _ (sums_lsubs_e nf _ O6)) as N2.
    rewrite tot_n_app in Hb.
    apply Forall_app in HC. destruct HC as [C1 C2].
    pose proof (IH Hch Hs O5 He ltac:(lia) C1 Cs) as I0.
    destruct (Ins_sums fexp nf c thr Hsim _ _ _ _ _ _ HI Hch Hs O5 He ltac:(lia)) as (I1 & I2 & _).
    pose proof (Ins_shape fexp nf c thr Hsim _ _ _ _ _ _ HI Hch Hs) as Sch'.
    pose proof (shape_entries_pos _ _ _ _ _ _ _ _ _ _ HI eq_refl Sch') as H2.
    assert (Hb2 : tot_n (lsubs ch') < 2^64) by lia.
    destruct (split_sums_full fexp nf thr Hsim _ _ _ _ _ _ _ Sch' I1 H2 Hb2 Hsp)
      as (_ & _ & _ & _ & PP).
    rewrite lsubs_e_app1.
    apply (Forall_perm _ (lsubs ch' ++ lsubs_e tl)).
    + rewrite <- PP. rewrite <- !app_assoc. apply Permutation_app_head, Permutation_app_comm.
    + apply Forall_app. split; assumption.
  - (* nosplit *)
    intros e ch tl s cache ax ch' ax1 HI IH (Le & Hch & Htl) Hc Hk Hs Hok He Hb HC Cs.
    change (shape_e nf tl) in Htl. change (shape nf ch) in Hch.
    destruct Hok as (O1 & O2 & O3 & O4 & O5 & O6).
    cbn [lsubs_e] in *.
    pose proof (tot_n_nonneg _ (sums_lsubs_e nf _ O6)) as N2.
    rewrite tot_n_app in Hb.
    apply Forall_app in HC. destruct HC as [C1 C2].
    apply Forall_app. split; [|exact C2].
    apply (IH Hch Hs O5 He ltac:(lia) C1 Cs).
Qed.

Lemma insert_root_cnt bf root s ax root' ax' :
  1 <= bf -> shape nf root -> sums_ok nf root -> Forall cnt_ok (lsubs root) ->
  sub_len nf s -> sub_exact s -> cnt_ok s ->
  tot_n (lsubs root) + sn s < 2^64 ->
  insert_root fexp nf c thr bf root s ax = (root', ax') ->
  Forall cnt_ok (lsubs root').
Proof.
  intros Hbf Hr Hok HC Hs He Cs Hb. unfold insert_root.
  destruct (insert fexp nf c thr root s ax) as [[r sp] ax1] eqn:Hi.
  apply insert_Ins in Hi.
  pose proof (Ins_shape fexp nf c thr Hsim _ _ _ _ _ _ Hi Hr Hs) as Hr'.
  pose proof (proj1 Ins_cnt_mut _ _ _ _ _ _ Hi Hr Hs Hok He Hb HC Cs) as I0.
  destruct (Ins_sums fexp nf c thr Hsim _ _ _ _ _ _ Hi Hr Hs Hok He Hb) as (I1 & I2 & _).
  destruct sp.
  - pose proof (shape_entries_pos _ _ _ _ _ _ _ _ _ _ Hi eq_refl Hr') as H2.
    destruct (split_node nf r ax1) as [[[t1 n1] [t2 n2]] ax2] eqn:Hsp.
    assert (Hb2 : tot_n (lsubs r) < 2^64) by lia.
    destruct (split_sums_full fexp nf thr Hsim _ _ _ _ _ _ _ Hr' I1 H2 Hb2 Hsp)
      as (_ & _ & _ & _ & PP).
    intros E. inversion E; subst root' ax'. cbn [lsubs lsubs_e]. rewrite app_nil_r.
    apply (Forall_perm _ (lsubs r)); [symmetry; exact PP|exact I0].
  - intros E. inversion E; subst root' ax'. exact I0.
Qed.
End A1.

(* ---------- A2: one insertion at state level ---------- *)
Lemma tree_inv_insert nf cf r ax s r' ax' :
  Z.of_nat nf < 2 ^ 52 -> 2 <= c_bf cf ->
  tree_inv nf r ax -> sub_len nf s -> sub_exact s -> cnt_ok s ->
  tot_n (lsubs r) + sn s < 2 ^ 64 ->
  insert_root fexp nf (c_crit cf) (c_thr cf) (c_bf cf) r s ax = (r', ax') ->
  tree_inv nf r' ax' /\ tot_n (lsubs r') = tot_n (lsubs r) + sn s /\
  BlockStep (blocks r) (sids s) (blocks r').
Proof.
  intros Hnf Hbf (Hsh & Hch & Hsu & Hoc & (d & Hd) & Hcn) Ls Es Cs Hb Hi.
  pose proof (sim_max_nf nf Hnf) as Hsim.
  assert (Hbf1 : 1 <= c_bf cf) by lia.
  pose proof (insert_root_shape fexp nf _ _ Hsim _ _ _ _ _ _ Hbf1 Hsh Ls Hi) as S'.
  pose proof (insert_root_chain fexp nf _ _ Hsim _ _ _ _ _ _ Hbf1 Hsh Ls Hch Hi) as C'.
  destruct (insert_root_sums_full fexp nf _ _ Hsim _ _ _ _ _ _ Hbf1 Hsh Ls Hsu Es Hb Hi)
    as (U' & T' & _).
  destruct (insert_root_occ fexp nf _ _ Hsim _ _ _ _ _ _ Hbf Hsh Ls Hoc Hi) as (O' & _).
  pose proof (insert_root_depth fexp nf _ _ _ _ _ _ _ _ d Hbf1 Hsh Ls Hd Hi) as D'.
  pose proof (insert_root_cnt nf _ _ Hsim _ _ _ _ _ _ Hbf1 Hsh Hsu Hcn Ls Es Cs Hb Hi) as N'.
  pose proof (insert_root_blocks fexp nf _ _ Hsim _ _ _ _ _ _ Hbf1 Hsh Ls Hi) as B'.
  refine (conj (conj S' (conj C' (conj U' (conj O' (conj _ N'))))) (conj T' B')).
  destruct D' as [D'|D']; eauto.
Qed.

Lemma insert_st_inv st cf s dn r :
  st_inv st -> root st = Some r -> 2 <= c_bf cf ->
  sub_len (nfeat st) s -> sub_exact s -> cnt_ok s -> dn = sn s -> nfit st + dn < 2 ^ 64 ->
  let st' := insert_st fexp cf st s dn in
  st_inv st' /\ cfg st' = cfg st /\ nfeat st' = nfeat st /\ released st' = released st /\
  root st' <> None /\ nfit st' = nfit st + dn /\
  BlockStep (st_blocks st) (sids s) (st_blocks st').
Proof.
  intros Hinv Hr Hbf Ls Es Cs Hdn Hb. cbv zeta.
  unfold insert_st, st_blocks. rewrite Hr.
  destruct Hinv as (Hc & Hinv). rewrite Hr in Hinv.
  destruct Hinv as (Hnf & Ht & Hn & Hn0).
  destruct (insert_root fexp (nfeat st) (c_crit cf) (c_thr cf) (c_bf cf) r s (sax st))
    as [r' ax'] eqn:Hi.
  subst dn. rewrite Hn in Hb.
  destruct (tree_inv_insert _ _ _ _ _ _ _ Hnf Hbf Ht Ls Es Cs Hb Hi) as (T' & N' & B').
  cbn [cfg nfeat released root nfit sax]. unfold st_inv. cbn [cfg nfeat released root nfit sax].
  destruct Es as ((Es0 & _) & _).
  refine (conj (conj Hc (conj Hnf (conj T' (conj _ _)))) (conj eq_refl (conj eq_refl
           (conj eq_refl (conj _ (conj eq_refl B')))))).
  - rewrite N', Hn. reflexivity.
  - rewrite Hn. lia.
  - discriminate.
Qed.

(* ================= PART B: fit ================= *)
Lemma mem_ids_blocks st : mem_ids st = concat (st_blocks st).
Proof. unfold mem_ids, st_blocks. destruct (root st); reflexivity. Qed.

Lemma together_step B x B' i j : BlockStep B x B' -> together B i j -> together B' i j.
Proof. intros H T. exact (BlockStep_together B x B' i j H T). Qed.

Lemma singleton_good nf fp l : length fp = nf ->
  sub_len nf (singleton fp l) /\ sub_exact (singleton fp l) /\ cnt_ok (singleton fp l).
Proof.
  intros H. refine (conj _ (conj (singleton_exact fp l) eq_refl)).
  unfold sub_len, singleton. cbn [sls scent]. now rewrite map_length.
Qed.

Lemma zlen_cons {A} (x : A) l : zlen (x :: l) = 1 + zlen l.
Proof. unfold zlen. cbn [length]. lia. Qed.
Lemma zlen_nonneg {A} (l : list A) : 0 <= zlen l.
Proof. unfold zlen. lia. Qed.

Lemma fit_rows_inv cf rows : forall st labs,
  st_inv st -> root st <> None -> 2 <= c_bf cf ->
  Forall (row_ok (nfeat st)) rows -> nfit st + zlen rows < 2 ^ 64 ->
  forall st' out, fit_rows fexp cf st rows labs = (st', out) ->
  st_inv st' /\ cfg st' = cfg st /\ nfeat st' = nfeat st /\ released st' = released st /\
  root st' <> None /\
  (forall i j, together (st_blocks st) i j -> together (st_blocks st') i j) /\
  exists k, (k <= length rows)%nat /\ (k <= length labs)%nat /\
    nfit st' = nfit st + Z.of_nat k /\
    Permutation (mem_ids st') (mem_ids st ++ firstn k labs) /\
    (Forall (fun r => r <> None) rows -> length labs = length rows ->
     k = length rows /\ out = Ok).
Proof.
  induction rows as [|row rows IH]; intros st labs Hinv Hr Hbf Hrows Hb st' out Hf.
  - cbn [fit_rows] in Hf. injection Hf as <- <-.
    refine (conj Hinv (conj eq_refl (conj eq_refl (conj eq_refl (conj Hr (conj _ _)))))); [auto|].
    exists O. cbn [firstn length]. rewrite app_nil_r.
    refine (conj (le_n _) (conj (Nat.le_0_l _) (conj _ (conj (Permutation_refl _) _)))); [lia|auto].
  - inversion Hrows as [|? ? Hrow Hrows']; subst.
    rewrite zlen_cons in Hb. pose proof (zlen_nonneg rows) as Hz.
    destruct row as [fp|]; destruct labs as [|l labs]; cbn [fit_rows] in Hf.
    + (* Some, no label *)
      injection Hf as <- <-.
      refine (conj Hinv (conj eq_refl (conj eq_refl (conj eq_refl (conj Hr (conj _ _)))))); [auto|].
      exists O. cbn [firstn length]. rewrite app_nil_r.
      refine (conj (Nat.le_0_l _) (conj (le_n _) (conj _ (conj (Permutation_refl _) _)))); [lia|].
      intros _ E. discriminate E.
    + (* Some, label *)
      destruct (root st) as [r|] eqn:Er; [|congruence].
      cbn [row_ok] in Hrow.
      destruct (singleton_good (nfeat st) fp l Hrow) as (G1 & G2 & G3).
      destruct (insert_st_inv st cf (singleton fp l) 1 r Hinv Er Hbf G1 G2 G3 eq_refl ltac:(lia))
        as (I1 & I2 & I3 & I4 & I5 & I6 & I7).
      remember (insert_st fexp cf st (singleton fp l) 1) as st1 eqn:Est1.
      rewrite <- I3 in Hrows'.
      destruct (IH st1 labs I1 I5 Hbf Hrows' ltac:(lia) st' out Hf)
        as (J1 & J2 & J3 & J4 & J5 & J6 & k & K1 & K2 & K3 & K4 & K5).
      refine (conj J1 (conj _ (conj _ (conj _ (conj J5 (conj _ _)))))); try congruence.
      * intros i j T. apply J6. eapply together_step; [exact I7|exact T].
      * exists (S k). cbn [length firstn].
        refine (conj _ (conj _ (conj _ (conj _ _)))); try lia.
        -- etransitivity; [exact K4|].
           rewrite (mem_ids_blocks st1), (mem_ids_blocks st).
           etransitivity; [apply Permutation_app_tail, (BlockStep_members _ _ _ I7)|].
           cbn [singleton sids]. rewrite <- app_assoc. reflexivity.
        -- intros F E. inversion F; subst. injection E as E.
           destruct (K5 ltac:(assumption) E) as [-> ->]. split; reflexivity.
    + (* None, no label *)
      injection Hf as <- <-.
      refine (conj Hinv (conj eq_refl (conj eq_refl (conj eq_refl (conj Hr (conj _ _)))))); [auto|].
      exists O. cbn [firstn length]. rewrite app_nil_r.
      refine (conj (Nat.le_0_l _) (conj (le_n _) (conj _ (conj (Permutation_refl _) _)))); [lia|].
      intros _ E. discriminate E.
    + (* None, label *)
      injection Hf as <- <-.
      refine (conj Hinv (conj eq_refl (conj eq_refl (conj eq_refl (conj Hr (conj _ _)))))); [auto|].
      exists O. cbn [firstn length]. rewrite app_nil_r.
      refine (conj (Nat.le_0_l _) (conj (Nat.le_0_l _) (conj _ (conj (Permutation_refl _) _)))); [lia|].
      intros F _. inversion F; subst. congruence.
Qed.

(* ---------- B2: default numbering ---------- *)
Lemma zseq_length s n : length (zseq s n) = n.
Proof. revert s; induction n as [|n IH]; intros s; cbn [zseq length]; [reflexivity|]. now rewrite IH. Qed.

Lemma zseq_app s n k : zseq s (n + k) = zseq s n ++ zseq (s + Z.of_nat n) k.
Proof.
  revert s; induction n as [|n IH]; intros s.
  - cbn [Nat.add zseq app]. now rewrite Z.add_0_r.
  - cbn [Nat.add zseq app]. rewrite IH. do 3 f_equal. lia.
Qed.

Lemma firstn_zseq s n k : (k <= n)%nat -> firstn k (zseq s n) = zseq s k.
Proof.
  intros H. replace n with (k + (n - k))%nat by lia. rewrite zseq_app.
  rewrite firstn_app, zseq_length, Nat.sub_diag. cbn [firstn]. rewrite app_nil_r.
  rewrite <- (zseq_length s k) at 1. apply firstn_all.
Qed.

Lemma In_zseq x s n : In x (zseq s n) <-> s <= x < s + Z.of_nat n.
Proof.
  revert s; induction n as [|n IH]; intros s; cbn [zseq In].
  - split; [tauto|lia].
  - rewrite IH. lia.
Qed.

Lemma NoDup_zseq s n : NoDup (zseq s n).
Proof.
  revert s; induction n as [|n IH]; intros s; cbn [zseq]; constructor; [|apply IH].
  rewrite In_zseq. lia.
Qed.

Definition numbered (st : state) : Prop :=
  Permutation (mem_ids st) (zseq 0 (Z.to_nat (nfit st))).
(* the feature count never leaves the range in which the float facts hold; for an
   uninitialised tree this is NOT part of [st_inv] (see do_fit_numbered_alt) *)
Definition nf_ok (st : state) : Prop := Z.of_nat (nfeat st) < 2 ^ 52.

Lemma st_inv_nfit_nonneg st : st_inv st -> 0 <= nfit st.
Proof.
  intros (_ & H). destruct (root st); [|lia]. lia.
Qed.

Lemma numbered_extend st st' k :
  0 <= nfit st -> numbered st -> nfit st' = nfit st + Z.of_nat k ->
  Permutation (mem_ids st') (mem_ids st ++ zseq (nfit st) k) -> numbered st'.
Proof.
  intros H0 Hn Hk Hp. unfold numbered in *. rewrite Hk.
  replace (Z.to_nat (nfit st + Z.of_nat k)) with (Z.to_nat (nfit st) + k)%nat by lia.
  rewrite zseq_app. rewrite Z2Nat.id by exact H0. rewrite Z.add_0_l.
  etransitivity; [exact Hp|]. apply Permutation_app_tail. exact Hn.
Qed.

Lemma initialize_inv st nf :
  st_inv st -> root st = None -> Z.of_nat nf < 2 ^ 52 -> st_inv (initialize st nf).
Proof.
  intros (Hbf & H) Hr Hnf. rewrite Hr in H. destruct H as (H0 & Hrel).
  unfold st_inv, initialize. cbn [cfg root nfeat nfit sax].
  refine (conj Hbf (conj Hnf (conj _ (conj _ _)))).
  - unfold tree_inv. cbn [shape sums_ok lsubs].
    destruct (occ_root_init (c_bf (cfg st)) ltac:(lia)) as (O1 & O2).
    refine (conj (conj _ (conj eq_refl (Forall_nil _)))
           (conj (chain_ok_init _) (conj (Forall_nil _) (conj O1 (conj _ (Forall_nil _))))));
      [lia|eauto].
  - rewrite H0. reflexivity.
  - rewrite H0. lia.
Qed.

(* NOTE.  [do_fit_numbered] as literally requested (hypotheses [st_inv st], [numbered st],
   [op_wf st (OFit rows None)] only) is false by a technicality: [st_inv] does not bound
   [nfeat st] when [root st = None], and a fit whose FIRST row is a bad row ([None])
   initialises the tree with [nfeat st] features before failing; with
   [nfeat st >= 2^52] the resulting state violates [st_inv].  Reachable states have
   [nfeat st = 0] whenever the tree is uninitialised, so we carry [nf_ok]. *)
Lemma do_fit_numbered_alt st rows :
  st_inv st -> nf_ok st -> numbered st -> op_wf st (OFit rows None) ->
  let st' := fst (do_fit fexp st rows None) in
  st_inv st' /\ nf_ok st' /\ numbered st' /\
  (forall i j, together (st_blocks st) i j -> together (st_blocks st') i j).
Proof.
  intros Hinv Hnf Hnum (_ & Hrows & Hb). cbv zeta. unfold do_fit.
  destruct rows as [|r0 rows]; [cbn [fst]; auto|].
  destruct (released st) eqn:Erel; [cbn [fst]; auto|].
  pose proof (st_inv_nfit_nonneg st Hinv) as H0.
  unfold is_init.
  destruct (root st) as [r|] eqn:Er.
  - (* initialised *)
    destruct (fit_rows fexp (cfg st) st (r0 :: rows) (zseq (nfit st) (length (r0 :: rows))))
      as [st' out] eqn:Hf. cbn [fst].
    assert (Hr : root st <> None) by congruence.
    destruct (fit_rows_inv (cfg st) (r0 :: rows) st _ Hinv Hr (proj1 Hinv) Hrows Hb st' out Hf)
      as (J1 & J2 & J3 & J4 & J5 & J6 & k & K1 & K2 & K3 & K4 & K5).
    refine (conj J1 (conj _ (conj _ J6))).
    + unfold nf_ok. rewrite J3. exact Hnf.
    + rewrite firstn_zseq in K4 by exact K1.
      eapply numbered_extend; eauto.
  - (* not initialised *)
    destruct Hinv as (Hbf & Hinv'). pose proof Hinv' as Hinv''. rewrite Er in Hinv''.
    destruct Hinv'' as (Hn0 & _).
    assert (Hinv : st_inv st) by (split; assumption).
    destruct r0 as [fp|].
    + destruct Hrows as (Hrows & Hfp).
      pose proof (initialize_inv st (length fp) Hinv Er Hfp) as I1.
      remember (initialize st (length fp)) as st1 eqn:Est1.
      assert (E1 : nfit st1 = nfit st) by (subst st1; reflexivity).
      assert (E2 : nfeat st1 = length fp) by (subst st1; reflexivity).
      assert (E3 : root st1 <> None) by (subst st1; discriminate).
      assert (E4 : mem_ids st1 = []) by (subst st1; reflexivity).
      assert (E5 : cfg st1 = cfg st) by (subst st1; reflexivity).
      destruct (fit_rows fexp (cfg st1) st1 (Some fp :: rows)
                         (zseq (nfit st1) (length (Some fp :: rows)))) as [st' out] eqn:Hf.
      cbn [fst]. rewrite <- E2 in Hrows. rewrite <- E1 in Hb.
      assert (Hbf1 : 2 <= c_bf (cfg st1)) by (rewrite E5; exact Hbf).
      destruct (fit_rows_inv (cfg st1) (Some fp :: rows) st1 _ I1 E3 Hbf1 Hrows Hb st' out Hf)
        as (J1 & J2 & J3 & J4 & J5 & J6 & k & K1 & K2 & K3 & K4 & K5).
      refine (conj J1 (conj _ (conj _ _))).
      * unfold nf_ok. rewrite J3, E2. exact Hfp.
      * rewrite firstn_zseq in K4 by exact K1.
        eapply (numbered_extend st1); eauto; [lia|].
        unfold numbered. rewrite E4, E1, Hn0. reflexivity.
      * intros i j (b & Hb' & _). unfold st_blocks in Hb'. rewrite Er in Hb'. destruct Hb'.
    + pose proof (initialize_inv st (nfeat st) Hinv Er Hnf) as I1.
      cbn [length zseq fit_rows fst].
      refine (conj I1 (conj Hnf (conj _ _))).
      * unfold numbered, initialize, mem_ids. cbn [root nfit]. rewrite Hn0. reflexivity.
      * intros i j (b & Hb' & _). unfold st_blocks in Hb'. rewrite Er in Hb'. destruct Hb'.
Qed.

(* the literal statement fails: formal counter-example *)
Lemma do_fit_numbered_false cf :
  2 <= c_bf cf ->
  exists st rows,
    st_inv st /\ numbered st /\ op_wf st (OFit rows None) /\
    ~ st_inv (fst (do_fit fexp st rows None)).
Proof.
  intros Hbf.
  assert (HN : exists N : nat, Z.of_nat N = 2 ^ 52).
  { exists (Z.to_nat (2 ^ 52)). apply Z2Nat.id. apply Z.pow_nonneg. lia. }
  destruct HN as (N & HN).
  exists (mkSt cf None (mkAux 0 []) 0 false N), [None].
  refine (conj _ (conj _ (conj _ _))).
  - unfold st_inv. cbn [cfg root nfit released]. auto.
  - unfold numbered, mem_ids. cbn [root nfit]. reflexivity.
  - cbn [op_wf root nfit]. refine (conj eq_refl (conj I _)). reflexivity.
  - unfold do_fit, is_init. cbn [released root]. cbn [length zseq fit_rows fst].
    unfold st_inv, initialize. cbn [cfg root nfeat]. intros (_ & H & _). lia.
Qed.

End WithExp.

Print Assumptions insert_root_cnt.
Print Assumptions insert_st_inv.
Print Assumptions fit_rows_inv.
Print Assumptions do_fit_numbered_alt.
Print Assumptions do_fit_numbered_false.
