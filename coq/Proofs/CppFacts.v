(* CppFacts.v — the C++ kernel models of Model/Cpp.v return exactly the values of the
   Python kernel models of Model/Sim.v, on every input where both are defined. *)
From BB Require Import Model.Sim Model.Cpp.
From BB Require Import Proofs.ListFacts Proofs.BitsFacts Proofs.FloatFacts
                       Proofs.KernelFacts Proofs.IsimFacts.
From Coq Require Import ZArith List Bool Reals Lia Lra ZifyBool ZifyNat.
From Flocq Require Import Core BinarySingleNaN.
From Flocq Require Import IEEE754.PrimFloat.
Import ListNotations.
Open Scope Z_scope.

#[local] Existing Instance Hprec.
#[local] Existing Instance Hmax.

Ltac Zify.zify_post_hook ::= Z.to_euclidean_division_equations.

Definition bytes (l : list Z) : Prop := Forall (fun b => 0 <= b < 256) l.

(* ------------------------------------------------------------------ *)
(* generic helpers                                                      *)
(* ------------------------------------------------------------------ *)

Lemma wrap_0 : forall w, wrap w 0 = 0.
Proof. intros []; reflexivity. Qed.

Lemma wrap_add_idemp_l : forall w a b, wrap w (wrap w a + b) = wrap w (a + b).
Proof. intros. unfold wrap. apply Zplus_mod_idemp_l. Qed.

Lemma fold_wrap_sum : forall (A : Type) w (f : A -> Z) l a,
  fold_left (fun acc x => wrap w (acc + f x)) l (wrap w a)
  = wrap w (a + zsum (map f l)).
Proof.
  induction l as [|x l IH]; intros a; cbn [fold_left map].
  - rewrite zsum_nil, Z.add_0_r. reflexivity.
  - rewrite wrap_add_idemp_l, IH, zsum_cons. f_equal. lia.
Qed.

Lemma fold_wrap_sum0 : forall (A : Type) w (f : A -> Z) l,
  fold_left (fun acc x => wrap w (acc + f x)) l 0 = wrap w (zsum (map f l)).
Proof.
  intros. pose proof (fold_wrap_sum A w f l 0) as H.
  rewrite wrap_0, Z.add_0_l in H. exact H.
Qed.

Lemma map_combine_map2 : forall (A B C : Type) (f : A -> B -> C) a b,
  map (fun p => f (fst p) (snd p)) (combine a b) = map2 f a b.
Proof.
  induction a as [|x a IH]; intros [|y b]; cbn [combine map map2 fst snd];
    try reflexivity. now rewrite IH.
Qed.

Lemma map_map2 : forall (A B C D : Type) (g : C -> D) (f : A -> B -> C) a b,
  map g (map2 f a b) = map2 (fun x y => g (f x y)) a b.
Proof.
  induction a as [|x a IH]; intros [|y b]; cbn [map map2]; try reflexivity.
  now rewrite IH.
Qed.

Lemma map2_map_r : forall (A B C : Type) (f : A -> B -> C) (g : A -> B) a,
  map2 f a (map g a) = map (fun x => f x (g x)) a.
Proof.
  induction a as [|x a IH]; cbn [map map2]; [reflexivity|]. now rewrite IH.
Qed.

Lemma map2_ext_Forall : forall (A B C : Type) (P : A -> Prop) (f g : A -> B -> C) a b,
  Forall P a -> (forall x y, P x -> f x y = g x y) -> map2 f a b = map2 g a b.
Proof.
  intros A B C P f g a b H E. revert b.
  induction H as [|x a Hx _ IH]; intros [|y b]; cbn [map2]; try reflexivity.
  rewrite IH, E by exact Hx. reflexivity.
Qed.

(* ------------------------------------------------------------------ *)
(* K1. popcount                                                         *)
(* ------------------------------------------------------------------ *)

Lemma popcount_bytes_path : forall bs, bytes bs ->
  popcount bs = wrap W32 (popcount_bytes bs).
Proof.
  intros bs H. unfold popcount.
  rewrite popcount_words_bytes_gen by exact H. now destruct (_ =? _).
Qed.

Theorem K1_popcount_1d : forall aligned bs, bytes bs ->
  cpp_popcount_1d aligned bs = popcount bs.
Proof.
  intros aligned bs H. rewrite popcount_bytes_path by exact H.
  unfold cpp_popcount_1d.
  destruct (aligned && (zlen bs mod 64 =? 0)); rewrite fold_wrap_sum0.
  - fold (popcount_words bs). now rewrite popcount_words_bytes_gen.
  - reflexivity.
Qed.

Theorem K1_popcount_2d : forall aligned X, Forall bytes X ->
  cpp_popcount_2d aligned X = map popcount X.
Proof.
  intros aligned X H. unfold cpp_popcount_2d.
  apply map_ext_in. intros r Hr. apply K1_popcount_1d.
  rewrite Forall_forall in H. now apply H.
Qed.

(* ------------------------------------------------------------------ *)
(* K2. unpack                                                           *)
(* ------------------------------------------------------------------ *)

Lemma unpack_all_length : forall bs, length (unpack_all bs) = (8 * length bs)%nat.
Proof.
  unfold unpack_all. induction bs as [|b bs IH]; [reflexivity|].
  cbn [flat_map]. rewrite app_length, IH.
  change (length (byte_bits b)) with 8%nat. cbn [length]. lia.
Qed.

Lemma map_repeat_ : forall (A B : Type) (f : A -> B) x n,
  map f (repeat x n) = repeat (f x) n.
Proof. induction n; cbn [repeat map]; [reflexivity|]. now rewrite IHn. Qed.

Lemma firstn_min_len : forall (A : Type) k (l : list A),
  firstn k l = firstn (Nat.min k (length l)) l.
Proof.
  intros A k l. destruct (le_lt_dec k (length l)) as [L|L].
  - now rewrite Nat.min_l by exact L.
  - rewrite Nat.min_r by lia. rewrite !firstn_all2 by lia. reflexivity.
Qed.

(* the copy loop: min(8, n) values per input byte, zeros once the input is exhausted,
   is np.unpackbits(count = n) *)
Lemma cpp_unpack_loop_spec : forall fuel n bs, n <= Z.of_nat fuel ->
  cpp_unpack_loop fuel n bs = map b2z (unpack (Some n) bs).
Proof.
  induction fuel as [|f IH]; intros n bs H.
  - cbn [cpp_unpack_loop]. unfold unpack. replace (Z.to_nat n) with O by lia. reflexivity.
  - cbn [cpp_unpack_loop]. destruct (Z.leb_spec n 0) as [L|L].
    + unfold unpack. replace (Z.to_nat n) with O by lia. reflexivity.
    + rewrite IH by lia. unfold unpack.
      replace (Z.to_nat (n - 8)) with (Z.to_nat n - 8)%nat by lia.
      replace (Z.to_nat (Z.min 8 n)) with (Nat.min (Z.to_nat n) 8) by lia.
      set (k := Z.to_nat n).
      destruct bs as [|b t].
      * cbn [tl unpack_all flat_map length].
        rewrite !firstn_nil, !Nat.sub_0_r. cbn [app].
        rewrite !map_repeat_, firstn_repeat_min, <- repeat_app. cbn [b2z].
        f_equal. lia.
      * cbn [tl]. change (unpack_all (b :: t)) with (byte_bits b ++ unpack_all t).
        rewrite firstn_app, app_length. change (length (byte_bits b)) with 8%nat.
        replace (k - (8 + length (unpack_all t)))%nat
          with (k - 8 - length (unpack_all t))%nat by lia.
        rewrite <- app_assoc, (map_app b2z (firstn k (byte_bits b))), firstn_map.
        f_equal. f_equal. rewrite (firstn_min_len _ k). reflexivity.
Qed.

Theorem K2_unpack_1d : forall nf bs,
  match nf with Some n => 0 <= n | None => True end ->
  cpp_unpack_1d nf bs = Some (map b2z (unpack nf bs)).
Proof.
  intros [n|] bs H; unfold cpp_unpack_1d.
  - destruct (Z.ltb_spec n 0) as [L|L]; [lia|].
    rewrite cpp_unpack_loop_spec by lia. reflexivity.
  - destruct (Z.ltb_spec (8 * zlen bs) 0) as [L|L]; [unfold zlen in L; lia|].
    rewrite cpp_unpack_loop_spec by lia. f_equal. f_equal.
    unfold unpack. rewrite firstn_all2 by (rewrite unpack_all_length; unfold zlen; lia).
    replace (_ - _)%nat with O by (rewrite unpack_all_length; unfold zlen; lia).
    apply app_nil_r.
Qed.

(* a negative feature count: the allocation throws *)
Theorem K2_unpack_1d_undefined : forall n bs, n < 0 -> cpp_unpack_1d (Some n) bs = None.
Proof.
  intros n bs H. unfold cpp_unpack_1d. destruct (Z.ltb_spec n 0); [reflexivity|lia].
Qed.

Definition unpack_rows (nf : option Z) (X : list (list Z)) : list (list Z) :=
  map (fun r => map b2z (unpack nf r)) X.

Theorem K2_unpack_2d : forall nf X,
  match nf with Some n => 0 <= n | None => True end ->
  cpp_unpack_2d nf X = Some (unpack_rows nf X).
Proof.
  intros nf X H. induction X as [|r X IH]; [reflexivity|].
  cbn [cpp_unpack_2d fold_right]. fold (cpp_unpack_2d nf X).
  rewrite (K2_unpack_1d nf r H), IH. reflexivity.
Qed.

Theorem K2_unpack_2d_undefined : forall n X, n < 0 -> X <> [] ->
  cpp_unpack_2d (Some n) X = None.
Proof.
  intros n [|r X] H Hne; [congruence|].
  cbn [cpp_unpack_2d fold_right]. now rewrite K2_unpack_1d_undefined.
Qed.

(* ------------------------------------------------------------------ *)
(* K3. centroid                                                         *)
(* ------------------------------------------------------------------ *)

Definition okls (n : Z) (ls : list Z) : Prop := Forall (fun k => 0 <= k <= Z.max n 1) ls.
Definition is01 (v : Z) : Prop := v = 0 \/ v = 1.
Definition nz (v : Z) : bool := negb (v =? 0).

Lemma Zs2f_nonneg : forall n, 0 <= n -> Zs2f n = Z2f n.
Proof.
  intros n H. unfold Zs2f. destruct (Z.ltb_spec n 0); [lia|reflexivity].
Qed.

Lemma cpp_centroid_vals : forall ls n, 0 <= n ->
  cpp_centroid ls n false = Some (centroid_vals ls n).
Proof.
  intros ls n H. unfold cpp_centroid, centroid_vals. cbn [negb].
  rewrite Zs2f_nonneg by exact H. reflexivity.
Qed.

Theorem K3a_centroid_unpacked : forall ls n, 0 <= n < 2 ^ 63 ->
  Forall (fun k => 0 <= k < 2 ^ 64) ls ->
  cpp_centroid ls n false = Some (centroid_vals ls n).
Proof. intros ls n [H _] _. now apply cpp_centroid_vals. Qed.

Lemma lor_even_01 : forall a v, is01 v -> Z.lor (a * 2) v = 2 * a + v.
Proof.
  intros a v [-> | ->].
  - rewrite Z.lor_0_r. lia.
  - assert (E : Z.land (a * 2) 1 = 0).
    { change 1 with (Z.ones 1). rewrite Z.land_ones by lia.
      change (2 ^ 1) with 2. apply Z_mod_mult. }
    rewrite <- Z.lxor_lor, <- Z.add_nocarry_lxor by exact E. lia.
Qed.

Lemma b2z_nz_01 : forall v, is01 v -> b2z (nz v) = v.
Proof. intros v [-> | ->]; reflexivity. Qed.

Lemma wrap8_small : forall x, 0 <= x < 256 -> wrap W8 x = x.
Proof. intros x H. unfold wrap, wbits. apply Z.mod_small. exact H. Qed.

(* the shift-or loop never overflows the byte within 8 steps *)
Lemma cpp_pack_fold : forall l (k : nat) acc, Forall is01 l ->
  (k + length l <= 8)%nat -> 0 <= acc < 2 ^ Z.of_nat k ->
  fold_left (fun acc v => wrap W8 (Z.lor (wrap W8 (acc * 2)) v)) l acc
  = fold_left (fun acc b => 2 * acc + b2z b) (map nz l) acc.
Proof.
  induction l as [|v l IH]; intros k acc Hl Hk Ha; [reflexivity|].
  inversion Hl as [|? ? Hv Hl']; subst.
  cbn [fold_left map length] in *.
  assert (P : 2 ^ Z.of_nat (S k) <= 2 ^ 8) by (apply Z.pow_le_mono_r; lia).
  assert (Q : 2 ^ Z.of_nat (S k) = 2 * 2 ^ Z.of_nat k)
    by (rewrite Nat2Z.inj_succ, Z.pow_succ_r by lia; reflexivity).
  change (2 ^ 8) with 256 in P.
  assert (Hv' : 0 <= v <= 1) by (destruct Hv; lia).
  rewrite (wrap8_small (acc * 2)) by lia.
  rewrite lor_even_01 by exact Hv.
  rewrite wrap8_small by lia.
  rewrite b2z_nz_01 by exact Hv.
  apply (IH (S k)); [exact Hl'|lia|lia].
Qed.

Lemma Forall_is01_b2z : forall bl, Forall is01 (map b2z bl).
Proof.
  intros bl. apply Forall_map, Forall_forall. intros b _. unfold is01.
  destruct b; cbn [b2z]; lia.
Qed.

Lemma map_nz_b2z : forall bl, map nz (map b2z bl) = bl.
Proof.
  induction bl as [|b bl IH]; [reflexivity|]. cbn [map]. rewrite IH. now destruct b.
Qed.

Lemma firstn_firstn_app : forall (A : Type) k (x r : list A),
  firstn k (firstn k x ++ r) = firstn k (x ++ r).
Proof.
  intros A k x r. rewrite !firstn_app, firstn_firstn, Nat.min_id, firstn_length.
  destruct (le_lt_dec k (length x)) as [L|L].
  - rewrite Nat.min_l by exact L. replace (k - length x)%nat with O by lia.
    now rewrite Nat.sub_diag.
  - now rewrite Nat.min_r by lia.
Qed.

(* one output byte: 8 x (shift, or in (value != 0)), zeros past the end = numpy's byte *)
Lemma cpp_pack_byte_byte_of : forall l, cpp_pack_byte (firstn 8 l) = byte_of (map nz l).
Proof.
  intros l. unfold cpp_pack_byte, byte_of, bits_val.
  set (bl := firstn 8 (map nz l ++ repeat false 8)).
  assert (E : firstn 8 (map (fun v => b2z (negb (v =? 0))) (firstn 8 l) ++ repeat 0 8)
              = map b2z bl).
  { unfold bl. rewrite <- (firstn_map b2z), map_app, map_map, map_repeat_. cbn [b2z].
    change (fun x => b2z (nz x)) with (fun v => b2z (negb (v =? 0))).
    rewrite <- (firstn_map (fun v => b2z (negb (v =? 0))) 8 l). apply firstn_firstn_app. }
  rewrite E.
  rewrite (cpp_pack_fold (map b2z bl) 0 0).
  - now rewrite map_nz_b2z.
  - apply Forall_is01_b2z.
  - rewrite map_length. unfold bl. rewrite byte_chunk_length. lia.
  - change (2 ^ Z.of_nat 0) with 1. lia.
Qed.

Lemma cpp_pack_loop_aux : forall f vals,
  cpp_pack_loop f vals = pack_aux f (map nz vals).
Proof.
  induction f as [|f IH]; intros vals; [reflexivity|].
  destruct vals as [|v t]; [reflexivity|].
  set (l := v :: t).
  assert (E1 : cpp_pack_loop (S f) l
               = cpp_pack_byte (firstn 8 l) :: cpp_pack_loop f (skipn 8 l))
    by reflexivity.
  assert (E2 : pack_aux (S f) (map nz l)
               = byte_of (map nz l) :: pack_aux f (skipn 8 (map nz l)))
    by reflexivity.
  rewrite E1, E2. clearbody l.
  rewrite cpp_pack_byte_byte_of, skipn_map, IH. reflexivity.
Qed.

(* core lemma: the C++ packing loop is np.packbits, for any values and any length *)
Lemma cpp_pack_loop_pack : forall vals,
  cpp_pack_loop (length vals) vals = pack (map nz vals).
Proof. intros vals. unfold pack. rewrite map_length. apply cpp_pack_loop_aux. Qed.

(* no hypothesis at all is needed: the [n <= 1] branch does not look at [n], and above it
   [n] is positive *)
Lemma cpp_centroid_packed_total : forall ls n,
  cpp_centroid ls n true = Some (centroid_packed ls n).
Proof.
  intros ls n. unfold cpp_centroid, centroid_packed, centroid_fpv, centroid_vals.
  cbn [negb]. f_equal.
  destruct (Z.leb_spec n 1) as [L|L].
  - apply cpp_pack_loop_pack.
  - rewrite Zs2f_nonneg by lia. apply cpp_pack_loop_pack.
Qed.

Theorem K3b_centroid_packed : forall ls n, 0 <= n < 2 ^ 63 ->
  Forall (fun k => 0 <= k < 2 ^ 64) ls ->
  cpp_centroid ls n true = Some (centroid_packed ls n).
Proof. intros ls n _ _. apply cpp_centroid_packed_total. Qed.

(* the former counterexamples (a non-binary sum with n <= 1; a length that is not a multiple
   of 8) now agree *)
Example K3b_centroid_packed_nonbinary :
  cpp_centroid [2;0;0;0;0;0;0;0] 1 true = Some (centroid_packed [2;0;0;0;0;0;0;0] 1) /\
  centroid_packed [2;0;0;0;0;0;0;0] 1 = [128].
Proof. vm_compute. split; reflexivity. Qed.

Example K3b_centroid_packed_len5 :
  cpp_centroid [3;0;1;0;7] 1 true = Some (centroid_packed [3;0;1;0;7] 1) /\
  centroid_packed [3;0;1;0;7] 1 = [168] /\
  cpp_centroid [3;0;1;0;3] 4 true = Some (centroid_packed [3;0;1;0;3] 4) /\
  centroid_packed [3;0;1;0;3] 4 = [136].
Proof. vm_compute. repeat split; reflexivity. Qed.

(* ------------------------------------------------------------------ *)
(* K4. isim                                                             *)
(* ------------------------------------------------------------------ *)

Lemma fold_wrap64_sum : forall (f : Z -> Z) l a,
  fold_left (fun acc k => wrap64 (acc + f k)) l (wrap64 a)
  = wrap64 (a + zsum (map f l)).
Proof. intros. exact (fold_wrap_sum Z W64 f l a). Qed.

Lemma fold_wrap64_sum0 : forall (f : Z -> Z) l,
  fold_left (fun acc k => wrap64 (acc + f k)) l 0 = wrap64 (zsum (map f l)).
Proof. intros. exact (fold_wrap_sum0 Z W64 f l). Qed.

Lemma wrap64_add_idemp_r : forall a b, wrap64 (a + wrap64 b) = wrap64 (a + b).
Proof. intros. unfold wrap64. apply Zplus_mod_idemp_r. Qed.

Lemma fold_wrap64_sq : forall l a,
  fold_left (fun acc k => wrap64 (acc + wrap64 (k * k))) l a
  = fold_left (fun acc k => wrap64 (acc + k * k)) l a.
Proof.
  induction l as [|x l IH]; intros a; cbn [fold_left]; [reflexivity|].
  rewrite wrap64_add_idemp_r. apply IH.
Qed.

Theorem K4_isim : forall ls n, 0 <= n < 2 ^ 63 ->
  Forall (fun k => 0 <= k < 2 ^ 64) ls ->
  cpp_isim ls n = isim_f ls n.
Proof.
  intros ls n Hn Hls. unfold cpp_isim, isim_f.
  rewrite map_wrap64_small by exact Hls.
  rewrite fold_wrap64_sq, (fold_wrap64_sum0 (fun k => k * k)), <- zdot_self_sum.
  pose proof (fold_wrap64_sum0 (fun k => k) ls) as E. rewrite map_id in E.
  rewrite E.
  rewrite (wrap64_small n)
    by (change (2 ^ 63) with 9223372036854775808 in Hn;
        change (2 ^ 64) with 18446744073709551616; lia).
  reflexivity.
Qed.

(* ------------------------------------------------------------------ *)
(* K5. array-vs-vector Tanimoto                                         *)
(* ------------------------------------------------------------------ *)

Lemma land_byte : forall a b, 0 <= a < 256 -> 0 <= b -> 0 <= Z.land a b < 256.
Proof.
  intros a b Ha Hb. split; [apply Z.land_nonneg; lia|].
  replace a with (Z.land a (Z.ones 8))
    by (rewrite Z.land_ones by lia; apply Z.mod_small; change (2 ^ 8) with 256; lia).
  rewrite <- Z.land_assoc, (Z.land_comm (Z.ones 8)), Z.land_assoc, Z.land_ones by lia.
  apply Z.mod_pos_bound. reflexivity.
Qed.

Lemma and_bytes_bytes : forall x y, bytes x -> bytes y -> bytes (and_bytes x y).
Proof.
  unfold bytes, and_bytes. intros x y Hx. revert y.
  induction Hx as [|a x Ha _ IH]; intros y Hy; [constructor|].
  inversion Hy as [|b y' Hb Hy']; subst; cbn [map2]; constructor.
  - apply land_byte; lia.
  - now apply IH.
Qed.

Lemma land_mod_pow2 : forall x y n, 0 <= n ->
  Z.land x y mod 2 ^ n = Z.land (x mod 2 ^ n) (y mod 2 ^ n).
Proof.
  intros x y n Hn. rewrite <- !Z.land_ones by exact Hn.
  apply Z.bits_inj'. intros k Hk. rewrite !Z.land_spec.
  destruct (Z.testbit x k), (Z.testbit y k), (Z.testbit (Z.ones n) k); reflexivity.
Qed.

Lemma land_div_pow2 : forall x y n, 0 <= n ->
  Z.land x y / 2 ^ n = Z.land (x / 2 ^ n) (y / 2 ^ n).
Proof.
  intros x y n Hn. rewrite <- !Z.shiftr_div_pow2 by exact Hn. apply Z.shiftr_land.
Qed.

Lemma land_split256 : forall a b wa wb, 0 <= a < 256 -> 0 <= b < 256 ->
  Z.land (a + 256 * wa) (b + 256 * wb) = Z.land a b + 256 * Z.land wa wb.
Proof.
  intros a b wa wb Ha Hb.
  set (x := a + 256 * wa). set (y := b + 256 * wb).
  assert (Xm : x mod 2 ^ 8 = a) by (subst x; change (2 ^ 8) with 256; lia).
  assert (Ym : y mod 2 ^ 8 = b) by (subst y; change (2 ^ 8) with 256; lia).
  assert (Xd : x / 2 ^ 8 = wa) by (subst x; change (2 ^ 8) with 256; lia).
  assert (Yd : y / 2 ^ 8 = wb) by (subst y; change (2 ^ 8) with 256; lia).
  pose proof (land_mod_pow2 x y 8 ltac:(lia)) as M.
  pose proof (land_div_pow2 x y 8 ltac:(lia)) as D.
  rewrite Xm, Ym in M. rewrite Xd, Yd in D.
  rewrite (Z.div_mod (Z.land x y) (2 ^ 8)) by (change (2 ^ 8) with 256; lia).
  rewrite M, D. change (2 ^ 8) with 256. lia.
Qed.

Lemma word_of_cons : forall b l, word_of (b :: l) = b + 256 * word_of l.
Proof. reflexivity. Qed.

Lemma word_of_land : forall a b, bytes a -> bytes b -> length a = length b ->
  Z.land (word_of a) (word_of b) = word_of (and_bytes a b).
Proof.
  unfold bytes, and_bytes. intros a b Ha. revert b.
  induction Ha as [|x a Hx _ IH]; intros [|y b] Hb L; try discriminate; [reflexivity|].
  inversion Hb as [|? ? Hy Hb']; subst. cbn [map2].
  rewrite !word_of_cons, land_split256 by assumption.
  rewrite IH; [reflexivity|exact Hb'|now injection L].
Qed.

Lemma words_aux_land : forall f x y, bytes x -> bytes y -> length x = length y ->
  map2 Z.land (words_aux f x) (words_aux f y) = words_aux f (and_bytes x y).
Proof.
  induction f as [|f IH]; intros x y Hx Hy L; [reflexivity|].
  destruct x as [|a x], y as [|b y]; try discriminate; [reflexivity|].
  change (and_bytes (a :: x) (b :: y)) with (Z.land a b :: and_bytes x y).
  rewrite !words_aux_cons.
  change (Z.land a b :: and_bytes x y) with (and_bytes (a :: x) (b :: y)).
  cbn [map2]. f_equal.
  - unfold and_bytes at 1. rewrite firstn_map2. apply word_of_land.
    + now apply Forall_firstn.
    + now apply Forall_firstn.
    + rewrite !firstn_length. now rewrite L.
  - unfold and_bytes at 1. rewrite skipn_map2. apply IH.
    + now apply Forall_skipn.
    + now apply Forall_skipn.
    + rewrite !skipn_length. now rewrite L.
Qed.

(* holds for either path, whatever the length *)
Theorem K5_intersection : forall words x y, bytes x -> bytes y -> length x = length y ->
  cpp_intersection words x y = popcount (and_bytes x y).
Proof.
  intros words x y Hx Hy L.
  rewrite popcount_bytes_path by now apply and_bytes_bytes.
  unfold cpp_intersection. destruct words.
  - rewrite (fold_wrap_sum0 _ W32 (fun p => popc (Z.land (fst p) (snd p)))).
    rewrite (map_combine_map2 _ _ _ (fun a b => popc (Z.land a b))).
    rewrite <- (map_map2 _ _ _ _ popc Z.land).
    rewrite <- L. rewrite words_aux_land by assumption.
    replace (length x) with (length (and_bytes x y))
      by (unfold and_bytes; now apply map2_length_eq).
    fold (popcount_words (and_bytes x y)).
    rewrite popcount_words_bytes_gen by now apply and_bytes_bytes. reflexivity.
  - rewrite (fold_wrap_sum0 _ W32 (fun p => popc (Z.land (fst p) (snd p)))).
    rewrite (map_combine_map2 _ _ _ (fun a b => popc (Z.land a b))).
    rewrite <- (map_map2 _ _ _ _ popc Z.land). reflexivity.
Qed.

Lemma Z2f_0 : Z2f 0 = 0%float.
Proof. vm_compute. reflexivity. Qed.
Lemma Z2f_1 : Z2f 1 = 1%float.
Proof. vm_compute. reflexivity. Qed.
Lemma ltb_0_1 : PrimFloat.ltb 0 1 = true.
Proof. vm_compute. reflexivity. Qed.

Lemma Z2f_ltb_one_false : forall d, 1 <= d < 2 ^ 53 -> PrimFloat.ltb (Z2f d) 1 = false.
Proof.
  intros d Hd.
  destruct (Z2f_spec d) as (F & R & _); [lia|].
  destruct one_spec as (F1 & R1 & _).
  rewrite ltb_equiv, Bltb_correct by assumption.
  rewrite R, R1. apply Rlt_bool_false. apply IZR_le. lia.
Qed.

(* std::max(double(den), 1.0) is the conversion of max(den, 1) *)
Lemma cpp_max_den : forall d, 0 <= d < 2 ^ 53 ->
  (if PrimFloat.ltb (Z2f d) 1 then 1%float else Z2f d) = Z2f (Z.max d 1).
Proof.
  intros d Hd. destruct (Z.eq_dec d 0) as [-> | N].
  - rewrite Z2f_0, ltb_0_1. change (Z.max 0 1) with 1. now rewrite Z2f_1.
  - rewrite Z2f_ltb_one_false by lia. now rewrite Z.max_l by lia.
Qed.

Lemma wrap32_range : forall x, 0 <= wrap W32 x < 2 ^ 32.
Proof. intros x. unfold wrap, wbits. apply Z.mod_pos_bound. reflexivity. Qed.

Lemma wrap32_range53 : forall x, 0 <= wrap W32 x < 2 ^ 53.
Proof.
  intros x. pose proof (wrap32_range x).
  change (2 ^ 32) with 4294967296 in *. change (2 ^ 53) with 9007199254740992. lia.
Qed.

Lemma cpp_row_sim_eq : forall words x y c, bytes x -> bytes y -> length x = length y ->
  cpp_row_sim words x y c (popcount y) = sim_packed_precalc x y c.
Proof.
  intros words x y c Hx Hy L.
  unfold cpp_row_sim, sim_packed_precalc, tanimoto_u32. cbv zeta.
  rewrite K5_intersection by assumption.
  rewrite cpp_max_den by apply wrap32_range53. reflexivity.
Qed.

Theorem K5_row_sim : forall words x y c, bytes x -> bytes y -> length x = length y ->
  0 <= c < 2 ^ 32 ->
  cpp_row_sim words x y c (popcount y) = sim_packed_precalc x y c.
Proof. intros words x y c Hx Hy L _. now apply cpp_row_sim_eq. Qed.

Definition rows_like (y : list Z) (X : list (list Z)) : Prop :=
  Forall (fun x => bytes x /\ length x = length y) X.

Theorem K5_arr_vec_precalc : forall aligned X y cards, bytes y -> rows_like y X ->
  cpp_arr_vec_precalc aligned X y cards
  = map2 (fun x c => sim_packed_precalc x y c) X cards.
Proof.
  intros aligned X y cards Hy HX. unfold cpp_arr_vec_precalc. cbv zeta.
  rewrite K1_popcount_1d by exact Hy.
  eapply map2_ext_Forall; [exact HX|].
  cbv beta. intros x c [Hx L]. now apply cpp_row_sim_eq.
Qed.

Lemma rows_like_bytes : forall y X, rows_like y X -> Forall bytes X.
Proof. intros y X H. eapply Forall_impl; [|exact H]. cbv beta. tauto. Qed.

Theorem K5_arr_vec : forall aligned X y, bytes y -> rows_like y X ->
  cpp_arr_vec aligned X y = sim_arr_vec_packed X y.
Proof.
  intros aligned X y Hy HX. unfold cpp_arr_vec, sim_arr_vec_packed, sim_packed.
  rewrite K5_arr_vec_precalc by assumption.
  rewrite K1_popcount_2d by (eapply rows_like_bytes; exact HX).
  apply map2_map_r.
Qed.

(* ------------------------------------------------------------------ *)
(* K6. argmin                                                           *)
(* ------------------------------------------------------------------ *)

Lemma min_element_argbest : forall tl i best bv, is_nan_f bv = false -> no_nan tl ->
  min_element tl i best bv
  = argbest (fun x b => negb (is_nan_f b) && (is_nan_f x || PrimFloat.ltb x b))
            tl i best bv.
Proof.
  induction tl as [|a tl IH]; intros i best bv Nb NN; cbn [min_element argbest];
    [reflexivity|].
  inversion NN as [|? ? Na NN']; subst. cbv beta in Na.
  rewrite Nb, Na. cbn [negb andb orb].
  destruct (PrimFloat.ltb a bv); apply IH; assumption.
Qed.

Theorem K6_argmin : forall l, no_nan l -> cpp_argmin l = argmin_f l.
Proof.
  intros [|x tl] NN; [reflexivity|].
  inversion NN as [|? ? Nx NN']; subst. cbv beta in Nx.
  unfold cpp_argmin, argmin_f. now apply min_element_argbest.
Qed.

Lemma tanimoto_u32_not_nan : forall i ca cb, 0 <= i < 2 ^ 32 ->
  is_nan_f (tanimoto_u32 i ca cb) = false.
Proof.
  intros i ca cb Hi. unfold tanimoto_u32.
  pose proof (wrap32_range53 (wrap W32 (ca + cb) - i)) as Hd.
  change (2 ^ 32) with 4294967296 in Hi. change (2 ^ 53) with 9007199254740992 in Hd.
  destruct (div_spec_int i (Z.max (wrap W32 (wrap W32 (ca + cb) - i)) 1)) as (F & _ & _).
  - change (2 ^ 53) with 9007199254740992. lia.
  - change (2 ^ 53) with 9007199254740992. lia.
  - now apply finite_not_nan.
Qed.

Lemma sim_packed_precalc_not_nan : forall x y c,
  is_nan_f (sim_packed_precalc x y c) = false.
Proof.
  intros x y c. unfold sim_packed_precalc. apply tanimoto_u32_not_nan.
  unfold popcount. apply wrap32_range.
Qed.

Theorem K6_sim_not_nan : forall x y c, bytes x -> bytes y -> 0 <= c < 2 ^ 32 ->
  is_nan_f (sim_packed_precalc x y c) = false.
Proof. intros. apply sim_packed_precalc_not_nan. Qed.

(* ------------------------------------------------------------------ *)
(* K7. most dissimilar                                                  *)
(* ------------------------------------------------------------------ *)

Definition rows_ok (w : nat) (Y : list (list Z)) : Prop :=
  Forall (fun r => bytes r /\ length r = w) Y.
(* every feature count whose packed width is the row width (not only the multiples of 8) *)
Definition nf_ok (w : nat) (nf : option Z) : Prop :=
  nf = None \/ exists n, nf = Some n /\ 0 <= n /\ (n + 7) / 8 = Z.of_nat w.
(* the unpacked width *)
Definition unpacked_width (w : nat) (nf : option Z) : nat :=
  match nf with Some n => Z.to_nat n | None => (8 * w)%nat end.

(* --- unpacking the rows --- *)

Lemma nf_ok_nonneg : forall w nf, nf_ok w nf ->
  match nf with Some n => 0 <= n | None => True end.
Proof. intros w nf [-> | (n & -> & H & _)]; [exact I|exact H]. Qed.

Lemma cpp_unpack_2d_rows : forall nf w Y, nf_ok w nf ->
  cpp_unpack_2d nf Y = Some (unpack_rows nf Y).
Proof. intros nf w Y Hnf. apply K2_unpack_2d. now apply (nf_ok_nonneg w). Qed.

Lemma unpack_length : forall nf w r, length r = w ->
  length (unpack nf r) = unpacked_width w nf.
Proof.
  intros [n|] w r L; unfold unpack, unpacked_width.
  - rewrite app_length, firstn_length, repeat_length. lia.
  - rewrite unpack_all_length. lia.
Qed.

Lemma unpacked_width_packed : forall w nf, nf_ok w nf ->
  Nat.div (unpacked_width w nf + 7) 8 = w.
Proof.
  intros w nf [-> | (n & -> & H & E)]; unfold unpacked_width; lia.
Qed.

Lemma unpack_rows_01 : forall nf Y, Forall (Forall is01) (unpack_rows nf Y).
Proof.
  intros nf Y. unfold unpack_rows. apply Forall_map, Forall_forall. intros r _.
  apply Forall_is01_b2z.
Qed.

Lemma unpack_rows_lengths : forall nf w Y, rows_ok w Y ->
  Forall (fun r => length r = unpacked_width w nf) (unpack_rows nf Y).
Proof.
  intros nf w Y HY. unfold unpack_rows. apply Forall_map.
  eapply Forall_impl; [|exact HY]. cbv beta. intros r [_ L].
  rewrite map_length. now apply unpack_length.
Qed.

(* --- column sums: the uint64 additions never wrap --- *)

Definition rows_width (U : list (list Z)) : nat :=
  match U with r :: _ => length r | [] => O end.
Definition colsum_cpp (U : list (list Z)) : list Z :=
  fold_left (fun acc r => map2 (fun a b => wrap64 (a + b)) acc r) U (repeat 0 (rows_width U)).
Definition colsum_py (U : list (list Z)) : list Z :=
  fold_left (fun acc r => map2 Z.add acc r) U (repeat 0 (rows_width U)).

Lemma map2_wadd : forall m acc r, 0 <= m -> m + 1 < 2 ^ 64 ->
  Forall (fun k => 0 <= k <= m) acc -> Forall is01 r ->
  map2 (fun a b => wrap64 (a + b)) acc r = map2 Z.add acc r /\
  Forall (fun k => 0 <= k <= m + 1) (map2 Z.add acc r).
Proof.
  intros m acc r Hm Hb Hacc. revert r.
  induction Hacc as [|a acc Ha _ IH]; intros r Hr; [split; [reflexivity|constructor]|].
  destruct r as [|b r]; [split; [reflexivity|constructor]|].
  inversion Hr as [|? ? Hb1 Hr']; subst. cbn [map2].
  destruct (IH r Hr') as [E F].
  assert (0 <= b <= 1) by (destruct Hb1; lia).
  split.
  - rewrite E, wrap64_small by lia. reflexivity.
  - constructor; [lia|exact F].
Qed.

Lemma colsum_nowrap : forall U m acc, 0 <= m -> m + zlen U < 2 ^ 64 ->
  Forall (fun k => 0 <= k <= m) acc -> Forall (Forall is01) U ->
  fold_left (fun acc r => map2 (fun a b => wrap64 (a + b)) acc r) U acc
  = fold_left (fun acc r => map2 Z.add acc r) U acc /\
  Forall (fun k => 0 <= k <= m + zlen U) (fold_left (fun acc r => map2 Z.add acc r) U acc).
Proof.
  induction U as [|r U IH]; intros m acc Hm Hb Hacc HU.
  - cbn [fold_left]. split; [reflexivity|].
    eapply Forall_impl; [|exact Hacc]. cbv beta. unfold zlen. cbn [length]. lia.
  - inversion HU as [|? ? Hr HU']; subst.
    assert (Z : zlen (r :: U) = 1 + zlen U) by (unfold zlen; cbn [length]; lia).
    rewrite Z in *.
    assert (P : 0 <= zlen U) by (unfold zlen; lia).
    destruct (map2_wadd m acc r Hm ltac:(lia) Hacc Hr) as [E F].
    cbn [fold_left]. rewrite E.
    destruct (IH (m + 1) (map2 Z.add acc r) ltac:(lia) ltac:(lia) F HU') as [E2 F2].
    split; [exact E2|].
    eapply Forall_impl; [|exact F2]. cbv beta. lia.
Qed.

Lemma colsum_len_gen : forall (f : Z -> Z -> Z) U acc,
  Forall (fun r => length r = length acc) U ->
  length (fold_left (fun acc r => map2 f acc r) U acc) = length acc.
Proof.
  intros f. induction U as [|r U IH]; intros acc H; [reflexivity|].
  inversion H as [|? ? Hr HU]; subst. cbn [fold_left].
  assert (L : length (map2 f acc r) = length acc)
    by (apply map2_length_eq; now rewrite Hr).
  rewrite IH; [exact L|]. now rewrite L.
Qed.

Lemma colsum_len : forall U acc, Forall (fun r => length r = length acc) U ->
  length (fold_left (fun acc r => map2 Z.add acc r) U acc) = length acc.
Proof. exact (colsum_len_gen Z.add). Qed.

Lemma Forall_repeat : forall (A : Type) (P : A -> Prop) x n, P x -> Forall P (repeat x n).
Proof. intros A P x n H. induction n; cbn [repeat]; constructor; assumption. Qed.

Lemma unpack_rows_width : forall nf w Y, rows_ok w Y -> Y <> [] ->
  rows_width (unpack_rows nf Y) = unpacked_width w nf.
Proof.
  intros nf w Y HY Hne. pose proof (unpack_rows_lengths nf w Y HY) as HL.
  destruct Y as [|r Y]; [congruence|].
  cbn [unpack_rows map rows_width] in *. inversion HL; subst. assumption.
Qed.

Lemma colsum_cpp_length : forall nf w Y, rows_ok w Y -> Y <> [] ->
  length (colsum_cpp (unpack_rows nf Y)) = unpacked_width w nf.
Proof.
  intros nf w Y HY Hne. unfold colsum_cpp.
  rewrite (colsum_len_gen (fun a b => wrap64 (a + b))); rewrite repeat_length;
    rewrite (unpack_rows_width nf w Y HY Hne); [reflexivity|].
  now apply unpack_rows_lengths.
Qed.

Lemma colsum_facts : forall nf w Y, rows_ok w Y -> Y <> [] ->
  zlen Y < 2 ^ 63 ->
  let U := unpack_rows nf Y in
  colsum_cpp U = colsum_py U /\ okls (zlen Y) (colsum_py U) /\
  length (colsum_py U) = unpacked_width w nf.
Proof.
  intros nf w Y HY Hne Hlen U.
  assert (ZU : zlen U = zlen Y) by (unfold zlen, U, unpack_rows; now rewrite map_length).
  assert (HW : rows_width U = unpacked_width w nf) by now apply unpack_rows_width.
  assert (P1 : 1 <= zlen Y).
  { destruct Y; [congruence|]. unfold zlen. cbn [length]. lia. }
  change (2 ^ 63) with 9223372036854775808 in Hlen.
  destruct (colsum_nowrap U 0 (repeat 0 (rows_width U))) as [E F].
  - lia.
  - rewrite ZU. change (2 ^ 64) with 18446744073709551616. lia.
  - apply Forall_repeat. lia.
  - apply unpack_rows_01.
  - unfold colsum_cpp, colsum_py. split; [exact E|split].
    + unfold okls. eapply Forall_impl; [|exact F]. cbv beta. rewrite ZU. lia.
    + rewrite colsum_len; rewrite repeat_length; [exact HW|].
      rewrite HW. apply (unpack_rows_lengths nf w Y HY).
Qed.

(* --- the search after the centroid --- *)

Definition cpp_tail (aligned : bool) (Y : list (list Z)) (cen : list Z)
  : nat * nat * list PrimFloat.float * list PrimFloat.float :=
  let cards := cpp_popcount_2d aligned Y in
  let sc := cpp_arr_vec_precalc aligned Y cen cards in
  let f1 := cpp_argmin sc in
  let s1 := cpp_arr_vec_precalc aligned Y (nth f1 Y []) cards in
  let f2 := cpp_argmin s1 in
  let s2 := cpp_arr_vec_precalc aligned Y (nth f2 Y []) cards in
  (f1, f2, s1, s2).

Definition py_tail (Y : list (list Z)) (cen : list Z)
  : nat * nat * list PrimFloat.float * list PrimFloat.float :=
  let cards := map popcount Y in
  let sc := map2 (fun x c => sim_packed_precalc x cen c) Y cards in
  let f1 := argmin_f sc in
  let s1 := map2 (fun x c => sim_packed_precalc x (nth f1 Y []) c) Y cards in
  let f2 := argmin_f s1 in
  let s2 := map2 (fun x c => sim_packed_precalc x (nth f2 Y []) c) Y cards in
  (f1, f2, s1, s2).

Lemma cpp_most_dissimilar_unfold : forall aligned nf Y,
  cpp_most_dissimilar aligned nf Y =
  match cpp_unpack_2d nf Y with
  | None => None
  | Some U => match cpp_centroid (colsum_cpp U) (zlen Y) true with
              | None => None
              | Some cen => if negb (Nat.eqb (length cen) (rows_width Y)) then None
                            else Some (cpp_tail aligned Y cen)
              end
  end.
Proof. reflexivity. Qed.

Lemma py_most_dissimilar_unfold : forall nf Y,
  py_most_dissimilar_packed nf Y =
  py_tail Y (centroid_packed (colsum_py (unpack_rows nf Y)) (zlen Y)).
Proof. reflexivity. Qed.

Lemma no_nan_map2 : forall (A B : Type) (f : A -> B -> PrimFloat.float) a b,
  (forall x c, is_nan_f (f x c) = false) -> no_nan (map2 f a b).
Proof.
  intros A B f a b H. revert b.
  induction a as [|x a IH]; intros [|c b]; cbn [map2]; try constructor; auto.
  apply IH.
Qed.

Lemma scores_step : forall aligned w Y y, rows_ok w Y -> Y <> [] ->
  bytes y -> length y = w ->
  let s := map2 (fun x c => sim_packed_precalc x y c) Y (map popcount Y) in
  cpp_arr_vec_precalc aligned Y y (map popcount Y) = s /\
  cpp_argmin s = argmin_f s /\
  bytes (nth (argmin_f s) Y []) /\ length (nth (argmin_f s) Y []) = w.
Proof.
  intros aligned w Y y HY Hne Hy L s.
  assert (RL : rows_like y Y).
  { unfold rows_like. eapply Forall_impl; [|exact HY]. cbv beta. intros r [B E].
    split; [exact B|congruence]. }
  split; [now apply K5_arr_vec_precalc|].
  split.
  - apply K6_argmin. apply no_nan_map2. intros. apply sim_packed_precalc_not_nan.
  - assert (Ls : length s = length Y).
    { unfold s. rewrite map2_length_eq; [reflexivity|now rewrite map_length]. }
    assert (Ns : s <> []).
    { intros E. rewrite E in Ls. destruct Y; [congruence|discriminate]. }
    pose proof (argmin_f_lt s Ns) as Hlt. rewrite Ls in Hlt.
    unfold rows_ok in HY. rewrite Forall_forall in HY.
    apply (HY (nth (argmin_f s) Y [])). now apply nth_In.
Qed.

Lemma tail_eq : forall aligned w Y cen, rows_ok w Y -> Y <> [] ->
  bytes cen -> length cen = w ->
  cpp_tail aligned Y cen = py_tail Y cen.
Proof.
  intros aligned w Y cen HY Hne Hc Lc. unfold cpp_tail, py_tail. cbv zeta.
  assert (HB : Forall bytes Y).
  { eapply Forall_impl; [|exact HY]. cbv beta. tauto. }
  rewrite K1_popcount_2d by exact HB.
  destruct (scores_step aligned w Y cen HY Hne Hc Lc) as (E0 & A0 & B1 & L1).
  cbv zeta in *. rewrite E0, A0.
  set (f1 := argmin_f (map2 (fun x c => sim_packed_precalc x cen c) Y (map popcount Y))) in *.
  destruct (scores_step aligned w Y (nth f1 Y []) HY Hne B1 L1) as (E1 & A1 & B2 & L2).
  cbv zeta in *. rewrite E1, A1.
  set (f2 := argmin_f (map2 (fun x c => sim_packed_precalc x (nth f1 Y []) c) Y
                            (map popcount Y))) in *.
  destruct (scores_step aligned w Y (nth f2 Y []) HY Hne B2 L2) as (E2 & _).
  cbv zeta in *. rewrite E2. reflexivity.
Qed.

Lemma rows_ok_width : forall w Y, rows_ok w Y -> Y <> [] -> rows_width Y = w.
Proof.
  intros w [|r Y] HY Hne; [congruence|]. inversion HY as [|? ? [_ L] _]; subst.
  reflexivity.
Qed.

Lemma centroid_packed_length : forall ls n,
  length (centroid_packed ls n) = Nat.div (length ls + 7) 8.
Proof.
  intros ls n. unfold centroid_packed. rewrite pack_length.
  unfold centroid_fpv, centroid_vals. destruct (n <=? 1); now rewrite !map_length.
Qed.

Theorem K7_most_dissimilar : forall aligned nf (w : nat) Y,
  Y <> [] -> rows_ok w Y -> zlen Y < 2 ^ 63 -> nf_ok w nf ->
  cpp_most_dissimilar aligned nf Y = Some (py_most_dissimilar_packed nf Y).
Proof.
  intros aligned nf w Y Hne HY Hlen Hnf.
  rewrite cpp_most_dissimilar_unfold, py_most_dissimilar_unfold.
  rewrite (cpp_unpack_2d_rows nf w Y Hnf).
  destruct (colsum_facts nf w Y HY Hne Hlen) as (E & _ & Lls).
  cbv zeta in *. rewrite E.
  rewrite cpp_centroid_packed_total.
  assert (Lc : length (centroid_packed (colsum_py (unpack_rows nf Y)) (zlen Y)) = w).
  { rewrite centroid_packed_length, Lls. now apply unpacked_width_packed. }
  rewrite Lc, (rows_ok_width w Y HY Hne), Nat.eqb_refl. cbn [negb].
  f_equal. apply (tail_eq aligned w); try assumption.
  apply pack_bytes_range.
Qed.

(* the shape check: a feature count whose packed width is not the row width is rejected *)
Theorem K7_most_dissimilar_shape : forall aligned n (w : nat) Y,
  Y <> [] -> rows_ok w Y -> 0 <= n -> (n + 7) / 8 <> Z.of_nat w ->
  cpp_most_dissimilar aligned (Some n) Y = None.
Proof.
  intros aligned n w Y Hne HY Hn Hw.
  rewrite cpp_most_dissimilar_unfold.
  rewrite (K2_unpack_2d (Some n) Y Hn).
  rewrite cpp_centroid_packed_total.
  rewrite centroid_packed_length, (colsum_cpp_length (Some n) w Y HY Hne).
  rewrite (rows_ok_width w Y HY Hne).
  unfold unpacked_width.
  destruct (Nat.eqb_spec (Nat.div (Z.to_nat n + 7) 8) w) as [E|E]; [|reflexivity].
  exfalso. apply Hw. lia.
Qed.

(* negative feature count: the unpacking throws *)
Theorem K7_most_dissimilar_negative : forall aligned n Y, Y <> [] -> n < 0 ->
  cpp_most_dissimilar aligned (Some n) Y = None.
Proof.
  intros aligned n Y Hne Hn. rewrite cpp_most_dissimilar_unfold.
  now rewrite K2_unpack_2d_undefined.
Qed.
