(* AnalysisFacts.v — property C19: cluster analysis and the quality indices (Dunn, CHI, DBI)
   do not depend on the representation: order of clusters, order of rows in a cluster. *)
From BB Require Import Model.Analysis.
From Coq Require Import ZArith List Bool Reals Lia Lra Permutation Floats.
From Flocq Require Import Core BinarySingleNaN.
From Flocq Require Import IEEE754.PrimFloat.
From BB Require Import Proofs.ListFacts Proofs.FloatFacts Proofs.KernelFacts Proofs.IsimFacts.
Import ListNotations.
Open Scope Z_scope.

#[local] Existing Instance Hprec.
#[local] Existing Instance Hmax.

Lemma zlen_cons : forall (A : Type) (x : A) l, zlen (x :: l) = 1 + zlen l.
Proof. intros. unfold zlen. cbn [length]. lia. Qed.

Lemma zlen_nil : forall (A : Type), zlen (@nil A) = 0.
Proof. reflexivity. Qed.

Lemma zlen_perm : forall (A : Type) (l l' : list A), Permutation l l' -> zlen l = zlen l'.
Proof. intros A l l' H. unfold zlen. rewrite (Permutation_length H). reflexivity. Qed.

(* ------------------------------------------------------------------ *)
(* 1. Selection                                                        *)
(* ------------------------------------------------------------------ *)

Lemma select_prefix_gen : forall cls i top ms,
  exists rest, cls = select_clusters cls i top ms ++ rest.
Proof.
  induction cls as [|c tl IH]; intros i top ms; cbn [select_clusters].
  - exists []. reflexivity.
  - destruct (zlen c <? ms); [ exists (c :: tl); reflexivity | ].
    destruct (match top with Some t => t <=? i | None => false end);
      [ exists (c :: tl); reflexivity | ].
    destruct (IH (i + 1) top ms) as (rest & E). exists rest.
    cbn [app]. rewrite <- E. reflexivity.
Qed.

Lemma select_prefix cls top ms : exists rest, cls = select_clusters cls 0 top ms ++ rest.
Proof. apply select_prefix_gen. Qed.

Lemma select_sizes_gen : forall cls i top ms,
  Forall (fun c => ms <= zlen c) (select_clusters cls i top ms).
Proof.
  induction cls as [|c tl IH]; intros i top ms; cbn [select_clusters]; [ constructor | ].
  destruct (zlen c <? ms) eqn:E; [ constructor | ].
  destruct (match top with Some t => t <=? i | None => false end); [ constructor | ].
  constructor; [ apply Z.ltb_ge in E; exact E | apply IH ].
Qed.

Lemma select_sizes cls top ms : Forall (fun c => ms <= zlen c) (select_clusters cls 0 top ms).
Proof. apply select_sizes_gen. Qed.

Lemma select_top_gen : forall cls i t ms, i <= t ->
  zlen (select_clusters cls i (Some t) ms) <= t - i.
Proof.
  induction cls as [|c tl IH]; intros i t ms Hi; cbn [select_clusters].
  - rewrite zlen_nil. lia.
  - destruct (zlen c <? ms); [ rewrite zlen_nil; lia | ].
    destruct (t <=? i) eqn:E; [ rewrite zlen_nil; lia | ].
    apply Z.leb_gt in E. rewrite zlen_cons.
    specialize (IH (i + 1) t ms ltac:(lia)). lia.
Qed.

Lemma select_top cls top ms :
  match top with
  | Some t => 0 <= t -> zlen (select_clusters cls 0 top ms) <= t
  | None => True
  end.
Proof.
  destruct top as [t|]; [ | exact I ].
  intros Ht. pose proof (select_top_gen cls 0 t ms Ht). lia.
Qed.

(* maximality, general start index.  The stopping position is described by an inequality:
   with a top that is already passed (t < i) the selection stops at once. *)
Lemma select_maximal_gen : forall cls i top ms rest,
  cls = select_clusters cls i top ms ++ rest ->
  rest = [] \/
  (exists c r, rest = c :: r /\
     (zlen c < ms \/ exists t, top = Some t /\ t <= i + zlen (select_clusters cls i top ms))).
Proof.
  induction cls as [|c tl IH]; intros i top ms rest; cbn [select_clusters].
  - cbn [app]. intros E. left. symmetry. exact E.
  - destruct (zlen c <? ms) eqn:E1.
    { cbn [app]. intros E. right. exists c, tl. split; [ symmetry; exact E | ].
      left. apply Z.ltb_lt. exact E1. }
    destruct top as [t|].
    + destruct (t <=? i) eqn:E2.
      { cbn [app]. intros E. right. exists c, tl. split; [ symmetry; exact E | ].
        right. exists t. split; [ reflexivity | ]. apply Z.leb_le in E2.
        rewrite zlen_nil. lia. }
      cbn [app]. intros E. injection E as E.
      destruct (IH (i + 1) (Some t) ms rest E) as [H | (c' & r & Hr & H)]; [ left; exact H | ].
      right. exists c', r. split; [ exact Hr | ].
      destruct H as [H | (t' & Ht' & H)]; [ left; exact H | ].
      right. exists t'. split; [ exact Ht' | ]. rewrite zlen_cons. lia.
    + cbn [app]. intros E. injection E as E.
      destruct (IH (i + 1) None ms rest E) as [H | (c' & r & Hr & H)]; [ left; exact H | ].
      right. exists c', r. split; [ exact Hr | ].
      destruct H as [H | (t' & Ht' & _)]; [ left; exact H | discriminate ].
Qed.

(* with a top that is not yet passed the stopping position is exactly top *)
Lemma select_maximal_gen_eq : forall cls i top ms rest,
  match top with Some t => i <= t | None => True end ->
  cls = select_clusters cls i top ms ++ rest ->
  rest = [] \/
  (exists c r, rest = c :: r /\
     (zlen c < ms \/ top = Some (i + zlen (select_clusters cls i top ms)))).
Proof.
  intros cls i top ms rest Ht E.
  destruct (select_maximal_gen cls i top ms rest E) as [H | (c & r & Hr & H)];
    [ left; exact H | ].
  right. exists c, r. split; [ exact Hr | ].
  destruct H as [H | (t & Et & H)]; [ left; exact H | ].
  right. subst top. pose proof (select_top_gen cls i t ms Ht). f_equal. lia.
Qed.

(* The statement requested for i = 0 is FALSE for a negative top: cls = [[1]], top = Some (-1),
   ms = 0 gives select = [], rest = [[1]], neither 1 < 0 nor Some (-1) = Some 0.
   It holds for 0 <= top. *)
Lemma select_maximal_alt cls top ms rest :
  match top with Some t => 0 <= t | None => True end ->
  cls = select_clusters cls 0 top ms ++ rest ->
  rest = [] \/
  (exists c r, rest = c :: r /\
     (zlen c < ms \/ top = Some (zlen (select_clusters cls 0 top ms)))).
Proof.
  intros Ht E.
  destruct (select_maximal_gen_eq cls 0 top ms rest Ht E) as [H | (c & r & Hr & H)];
    [ left; exact H | ].
  right. exists c, r. split; [ exact Hr | ]. rewrite Z.add_0_l in H. exact H.
Qed.

Example select_maximal_negative_top_counterexample :
  let cls := [[1]] in
  exists rest, cls = select_clusters cls 0 (Some (-1)) 0 ++ rest /\
    ~ (rest = [] \/
       (exists c r, rest = c :: r /\
          (zlen c < 0 \/ Some (-1) = Some (zlen (select_clusters cls 0 (Some (-1)) 0))))).
Proof.
  exists [[1]]. split; [ reflexivity | ].
  intros [H | (c & r & Hr & [H | H])]; try discriminate.
  injection Hr as <- <-. vm_compute in H. discriminate.
Qed.

(* ------------------------------------------------------------------ *)
(* 2. Counts                                                           *)
(* ------------------------------------------------------------------ *)

Lemma analysis_counts nf rows cls top ms :
  let a := cluster_analysis nf rows cls top ms in
  a_sizes a = map zlen (select_clusters cls 0 top ms) /\
  a_total a = zsum (map zlen cls) /\
  a_nclusters a = zlen cls /\
  a_all_sizes a = map zlen cls /\
  List.length (a_isims a) = List.length (a_sizes a).
Proof.
  cbv zeta. unfold cluster_analysis. cbn [a_sizes a_total a_nclusters a_all_sizes a_isims].
  repeat split. rewrite !map_length. reflexivity.
Qed.

Lemma analysis_singletons nf rows cls top ms :
  a_singletons (cluster_analysis nf rows cls top ms) =
  zlen (filter (fun c => zlen c =? 1) cls).
Proof.
  unfold cluster_analysis. cbn [a_singletons]. unfold zlen at 1 3. f_equal. f_equal.
  induction cls as [|c tl IH]; [ reflexivity | ].
  cbn [map filter]. destruct (zlen c =? 1); cbn [length]; rewrite IH; reflexivity.
Qed.

(* every reported iSIM is the directly computed value; holds for every k (beyond the end both
   sides are NaN: the default cluster [] has size 0 < 2) *)
Lemma analysis_isim_nth nf rows cls top ms k :
  let a := cluster_analysis nf rows cls top ms in
  let c := nth k (select_clusters cls 0 top ms) [] in
  nth k (a_isims a) nan = isim_f (colsum nf (rows_of nf rows (sort_asc c))) (zlen c).
Proof.
  cbv zeta. unfold cluster_analysis. cbn [a_isims].
  set (f := fun c : list Z => isim_f (colsum nf (rows_of nf rows (sort_asc c))) (zlen c)).
  change nan with (f []).
  rewrite map_nth. reflexivity.
Qed.

(* ------------------------------------------------------------------ *)
(* 3. Row order inside a cluster                                       *)
(* ------------------------------------------------------------------ *)

Lemma ins_asc_perm : forall x l, Permutation (ins_asc x l) (x :: l).
Proof.
  intros x. induction l as [|y tl IH]; cbn [ins_asc]; [ apply Permutation_refl | ].
  destruct (x <=? y); [ apply Permutation_refl | ].
  eapply perm_trans; [ apply perm_skip; exact IH | apply perm_swap ].
Qed.

Lemma sort_asc_perm l : Permutation (sort_asc l) l.
Proof.
  unfold sort_asc. induction l as [|x tl IH]; cbn [fold_right]; [ apply perm_nil | ].
  eapply perm_trans; [ apply ins_asc_perm | apply perm_skip; exact IH ].
Qed.

Lemma rows_of_perm nf rows ids ids' :
  Permutation ids ids' -> Permutation (rows_of nf rows ids) (rows_of nf rows ids').
Proof. intros H. unfold rows_of. apply Permutation_map. exact H. Qed.

Lemma analysis_isim_row_order nf rows c c' : Permutation c c' ->
  isim_f (colsum nf (rows_of nf rows (sort_asc c))) (zlen c) =
  isim_f (colsum nf (rows_of nf rows (sort_asc c'))) (zlen c').
Proof.
  intros H. rewrite (zlen_perm _ _ _ H). f_equal.
  apply colsum_perm_gen. apply rows_of_perm.
  eapply perm_trans; [ apply sort_asc_perm | ].
  eapply perm_trans; [ | apply Permutation_sym; apply sort_asc_perm ].
  apply Permutation_sym. exact H.
Qed.

(* the sort makes the reported value independent of the stored order even before colsum:
   not needed, colsum is order independent anyway *)
Lemma analysis_isim_unsorted nf rows c :
  isim_f (colsum nf (rows_of nf rows (sort_asc c))) (zlen c) =
  isim_f (colsum nf (rows_of nf rows c)) (zlen c).
Proof.
  f_equal. apply colsum_perm_gen. apply rows_of_perm. apply Permutation_sym, sort_asc_perm.
Qed.

(* ------------------------------------------------------------------ *)
(* 4. Dunn: row order                                                  *)
(* ------------------------------------------------------------------ *)

(* value attached to an unordered pair of clusters *)
Definition pair_val (nf : nat) (c1 c2 : list fpv) : PrimFloat.float :=
  (1 - isim_f (map2 Z.add (colsum nf c1) (colsum nf c2)) (zlen c1 + zlen c2))%float.

Lemma cl_isim_row_order nf c c' : Permutation c c' -> cl_isim nf c' = cl_isim nf c.
Proof.
  intros H. unfold cl_isim. rewrite (colsum_perm_gen nf c c' H), (zlen_perm _ _ _ H).
  reflexivity.
Qed.

Lemma pair_val_row_order nf c1 c1' c2 c2' : Permutation c1 c1' -> Permutation c2 c2' ->
  pair_val nf c1' c2' = pair_val nf c1 c2.
Proof.
  intros H1 H2. unfold pair_val.
  rewrite (colsum_perm_gen nf c1 c1' H1), (colsum_perm_gen nf c2 c2' H2),
    (zlen_perm _ _ _ H1), (zlen_perm _ _ _ H2). reflexivity.
Qed.

Lemma dunn_pairs_unfold nf c1 tl acc :
  dunn_pairs nf (c1 :: tl) acc =
  dunn_pairs nf tl (fold_left (fun a c2 => py_min2 (pair_val nf c1 c2) a) tl acc).
Proof. reflexivity. Qed.

Lemma dunn_inner_row_order nf c1 c1' : Permutation c1 c1' ->
  forall tl tl', Forall2 (fun a b => Permutation a b) tl tl' ->
  forall acc, fold_left (fun a c2 => py_min2 (pair_val nf c1' c2) a) tl' acc =
              fold_left (fun a c2 => py_min2 (pair_val nf c1 c2) a) tl acc.
Proof.
  intros H1. induction 1 as [| c2 c2' tl tl' H2 _ IH]; intros acc; [ reflexivity | ].
  cbn [fold_left]. rewrite (pair_val_row_order nf c1 c1' c2 c2' H1 H2). apply IH.
Qed.

Lemma dunn_pairs_row_order nf cls cls' :
  Forall2 (fun a b => Permutation a b) cls cls' ->
  forall acc, dunn_pairs nf cls' acc = dunn_pairs nf cls acc.
Proof.
  induction 1 as [| c c' tl tl' H1 H2 IH]; intros acc; [ reflexivity | ].
  rewrite !dunn_pairs_unfold. rewrite IH.
  rewrite (dunn_inner_row_order nf c c' H1 tl tl' H2). reflexivity.
Qed.

Lemma cl_isims_row_order nf cls cls' :
  Forall2 (fun a b => Permutation a b) cls cls' ->
  map (cl_isim nf) cls' = map (cl_isim nf) cls.
Proof.
  induction 1 as [| c c' tl tl' H1 _ IH]; [ reflexivity | ].
  cbn [map]. rewrite IH, (cl_isim_row_order nf c c' H1). reflexivity.
Qed.

Lemma dunn_row_order nf cls cls' :
  Forall2 (fun a b => Permutation a b) cls cls' -> dunn nf cls' = dunn nf cls.
Proof.
  intros H. unfold dunn. cbv zeta.
  rewrite (cl_isims_row_order nf cls cls' H), (dunn_pairs_row_order nf cls cls' H).
  reflexivity.
Qed.

(* ------------------------------------------------------------------ *)
(* 7. CHI / DBI terms                                                  *)
(* ------------------------------------------------------------------ *)

Lemma concat_perm : forall (A : Type) (l l' : list (list A)),
  Permutation l l' -> Permutation (concat l) (concat l').
Proof.
  intros A l l' H.
  induction H as [| x l l' _ IH | x y l | l l' l'' _ IH1 _ IH2]; cbn [concat].
  - apply perm_nil.
  - apply Permutation_app_head. exact IH.
  - rewrite !app_assoc. apply Permutation_app_tail. apply Permutation_app_comm.
  - eapply perm_trans; eassumption.
Qed.

Lemma concat_perm_rows : forall (A : Type) (l l' : list (list A)),
  Forall2 (fun a b => Permutation a b) l l' -> Permutation (concat l) (concat l').
Proof.
  intros A l l'. induction 1 as [| c c' tl tl' H1 _ IH]; cbn [concat]; [ apply perm_nil | ].
  apply Permutation_app; assumption.
Qed.

Definition chi_term (nf : nat) (g : fpv) (cl : list fpv) : Z * PrimFloat.float * list PrimFloat.float :=
  let c := cl_centroid nf cl in
  (zlen cl, (1 - sim g c)%float, map (fun r => (1 - sim r c)%float) cl).

Lemma chi_terms_unfold nf cls :
  chi_terms nf cls =
  map (chi_term nf (centroid_fpv (colsum nf (concat cls)) (zlen (concat cls)))) cls.
Proof. reflexivity. Qed.

Lemma global_centroid_perm nf (all all' : list fpv) : Permutation all all' ->
  centroid_fpv (colsum nf all') (zlen all') = centroid_fpv (colsum nf all) (zlen all).
Proof.
  intros H. rewrite (colsum_perm_gen nf all all' H), (zlen_perm _ _ _ H). reflexivity.
Qed.

Lemma chi_terms_cluster_order nf cls cls' : Permutation cls cls' ->
  Permutation (chi_terms nf cls) (chi_terms nf cls').
Proof.
  intros H. rewrite !chi_terms_unfold.
  rewrite (global_centroid_perm nf _ _ (concat_perm _ _ _ H)).
  apply Permutation_map. exact H.
Qed.

Lemma dbi_rows_cluster_order nf cls cls' : Permutation cls cls' ->
  Permutation (fst (dbi_terms nf cls)) (fst (dbi_terms nf cls')).
Proof.
  intros H. unfold dbi_terms. cbv zeta. cbn [fst]. apply Permutation_map. exact H.
Qed.

(* the centroid matrix of DBI is the same function of the list of centroids, which is permuted *)
Lemma dbi_centroids_cluster_order nf cls cls' : Permutation cls cls' ->
  Permutation (map (cl_centroid nf) cls) (map (cl_centroid nf) cls') /\
  snd (dbi_terms nf cls) =
    (let cs := map (cl_centroid nf) cls in
     map (fun ci => map (fun cj => (1 - sim ci cj)%float) cs) cs).
Proof.
  intros H. split; [ apply Permutation_map; exact H | reflexivity ].
Qed.

Lemma cl_centroid_row_order nf c c' : Permutation c c' -> cl_centroid nf c' = cl_centroid nf c.
Proof.
  intros H. unfold cl_centroid.
  rewrite (colsum_perm_gen nf c c' H), (zlen_perm _ _ _ H). reflexivity.
Qed.

Lemma chi_terms_row_order nf cls cls' :
  Forall2 (fun a b => Permutation a b) cls cls' ->
  Forall2 (fun t t' => fst t = fst t' /\ Permutation (snd t) (snd t'))
          (chi_terms nf cls) (chi_terms nf cls').
Proof.
  intros H. rewrite !chi_terms_unfold.
  rewrite (global_centroid_perm nf _ _ (concat_perm_rows _ _ _ H)).
  generalize (centroid_fpv (colsum nf (concat cls)) (zlen (concat cls))). intros g.
  induction H as [| c c' tl tl' H1 _ IH]; cbn [map]; constructor; [ | exact IH ].
  unfold chi_term. cbv zeta. cbn [fst snd].
  rewrite (cl_centroid_row_order nf c c' H1), (zlen_perm _ _ _ H1).
  split; [ reflexivity | ]. apply Permutation_map. exact H1.
Qed.

Lemma dbi_terms_row_order nf cls cls' :
  Forall2 (fun a b => Permutation a b) cls cls' ->
  Forall2 (fun t t' => Permutation t t') (fst (dbi_terms nf cls)) (fst (dbi_terms nf cls')) /\
  snd (dbi_terms nf cls') = snd (dbi_terms nf cls).
Proof.
  intros H. unfold dbi_terms. cbv zeta. cbn [fst snd].
  assert (E : map (cl_centroid nf) cls' = map (cl_centroid nf) cls).
  { induction H as [| c c' tl tl' H1 _ IH]; [ reflexivity | ].
    cbn [map]. rewrite IH, (cl_centroid_row_order nf c c' H1). reflexivity. }
  split; [ | rewrite E; reflexivity ].
  clear E. induction H as [| c c' tl tl' H1 _ IH]; cbn [map]; constructor; [ | exact IH ].
  rewrite (cl_centroid_row_order nf c c' H1). apply Permutation_map. exact H1.
Qed.

(* ------------------------------------------------------------------ *)
(* 5. Dunn: cluster order (floats)                                     *)
(* ------------------------------------------------------------------ *)

(* --- comparison facts at the level of the specification floats --- *)
Lemma SFcompare_swap : forall a b,
  SFcompare b a = match SFcompare a b with Some c => Some (CompOpp c) | None => None end.
Proof.
  intros [sa|sa| |sa ma ea] [sb|sb| |sb mb eb]; cbn [SFcompare]; try reflexivity;
    try (destruct sa; reflexivity); try (destruct sb; reflexivity);
    try (destruct sa, sb; reflexivity).
  destruct sa, sb; try reflexivity.
  - rewrite (Z.compare_antisym ea eb). destruct (ea ?= eb); cbn [CompOpp]; try reflexivity.
    f_equal.
    change (Pcompare ma mb Eq) with (Pos.compare ma mb).
    change (Pcompare mb ma Eq) with (Pos.compare mb ma).
    rewrite (Pos.compare_antisym ma mb). reflexivity.
  - rewrite (Z.compare_antisym ea eb). destruct (ea ?= eb); cbn [CompOpp]; try reflexivity.
    f_equal.
    change (Pcompare ma mb Eq) with (Pos.compare ma mb).
    change (Pcompare mb ma Eq) with (Pos.compare mb ma).
    rewrite (Pos.compare_antisym ma mb). reflexivity.
Qed.

Lemma is_nan_f_SF : forall x, is_nan_f x = false -> Prim2SF x <> S754_nan.
Proof.
  intros x H E. unfold is_nan_f in H. rewrite FloatAxioms.eqb_spec, E in H. discriminate.
Qed.

Lemma SF_nan_is_nan_f : forall x, Prim2SF x = S754_nan -> is_nan_f x = true.
Proof. intros x E. unfold is_nan_f. rewrite FloatAxioms.eqb_spec, E. reflexivity. Qed.

Lemma eqb_ltb : forall x y, is_nan_f x = false -> is_nan_f y = false ->
  PrimFloat.eqb x y = negb (PrimFloat.ltb x y) && negb (PrimFloat.ltb y x).
Proof.
  intros x y Nx Ny. apply is_nan_f_SF in Nx. apply is_nan_f_SF in Ny.
  rewrite FloatAxioms.eqb_spec, !FloatAxioms.ltb_spec. unfold SFeqb, SFltb.
  rewrite (SFcompare_swap (Prim2SF x) (Prim2SF y)).
  destruct (SFcompare (Prim2SF x) (Prim2SF y)) as [[| |]|] eqn:E; try reflexivity.
  destruct (Prim2SF x), (Prim2SF y); try congruence; cbn [SFcompare] in E; discriminate.
Qed.

Lemma SFeqb_cases : forall a b, SFeqb a b = true ->
  a = b \/ exists s s', a = S754_zero s /\ b = S754_zero s'.
Proof.
  intros [sa|sa| |sa ma ea] [sb|sb| |sb mb eb]; unfold SFeqb; cbn [SFcompare]; intros H;
    try discriminate;
    try (destruct sa; discriminate); try (destruct sb; discriminate).
  - right. eauto.
  - left. destruct sa, sb; try discriminate; reflexivity.
  - left.
    change (Pcompare ma mb Eq) with (Pos.compare ma mb) in H.
    destruct sa, sb; try discriminate;
    destruct (Z.compare_spec ea eb); try discriminate;
    destruct (Pos.compare_spec ma mb); try discriminate; subst; reflexivity.
Qed.

Lemma eqb_cases : forall x y, PrimFloat.eqb x y = true ->
  x = y \/ exists s s', Prim2SF x = S754_zero s /\ Prim2SF y = S754_zero s'.
Proof.
  intros x y H. rewrite FloatAxioms.eqb_spec in H.
  destruct (SFeqb_cases _ _ H) as [E | E]; [ left; apply Prim2SF_inj; exact E | right; exact E ].
Qed.

Lemma key_eq_eqb : forall x y, is_nan_f x = false -> is_nan_f y = false ->
  (fkey x <= fkey y)%R -> (fkey y <= fkey x)%R -> PrimFloat.eqb x y = true.
Proof.
  intros x y Nx Ny H1 H2. rewrite eqb_ltb by assumption.
  apply (ltb_false_key y x Ny Nx) in H1. apply (ltb_false_key x y Nx Ny) in H2.
  rewrite H1, H2. reflexivity.
Qed.

Lemma no_nan_in : forall l x, no_nan l -> In x l -> is_nan_f x = false.
Proof. intros l x H Hin. unfold no_nan in H. rewrite Forall_forall in H. apply H. exact Hin. Qed.

Lemma no_nan_perm : forall l l', Permutation l l' -> no_nan l -> no_nan l'.
Proof. intros l l' H. unfold no_nan. apply Permutation_Forall. exact H. Qed.

(* --- Python's max over a list --- *)
Definition max_step (acc y : PrimFloat.float) : PrimFloat.float :=
  if PrimFloat.ltb acc y then y else acc.

Lemma fold_max_spec : forall tl x, no_nan (x :: tl) ->
  In (fold_left max_step tl x) (x :: tl) /\
  (forall y, In y (x :: tl) -> (fkey y <= fkey (fold_left max_step tl x))%R).
Proof.
  induction tl as [|y tl IH]; intros x Hn.
  - cbn [fold_left]. split; [ left; reflexivity | ].
    intros y [<- | []]. apply Rle_refl.
  - cbn [fold_left].
    assert (Nx : is_nan_f x = false) by (apply (no_nan_in _ _ Hn); left; reflexivity).
    assert (Ny : is_nan_f y = false) by (apply (no_nan_in _ _ Hn); right; left; reflexivity).
    assert (Ntl : no_nan tl) by (inversion Hn as [|? ? _ H2]; inversion H2; assumption).
    assert (Hs : (max_step x y = x \/ max_step x y = y) /\
                 (fkey x <= fkey (max_step x y))%R /\ (fkey y <= fkey (max_step x y))%R).
    { unfold max_step. destruct (PrimFloat.ltb x y) eqn:E.
      - apply ltb_true_key in E; auto. split; [ right; reflexivity | lra ].
      - apply ltb_false_key in E; auto. split; [ left; reflexivity | lra ]. }
    destruct Hs as (Hc & Kx & Ky).
    assert (Hn' : no_nan (max_step x y :: tl)).
    { constructor; [ destruct Hc as [-> | ->]; assumption | exact Ntl ]. }
    destruct (IH (max_step x y) Hn') as (Hin & Hmax). split.
    + destruct Hin as [Hin | Hin].
      * rewrite <- Hin. destruct Hc as [-> | ->]; [ left | right; left ]; reflexivity.
      * right; right; exact Hin.
    + pose proof (Hmax _ (or_introl eq_refl)) as K0.
      intros z [<- | [<- | Hz]]; [ lra | lra | ]. apply Hmax. right. exact Hz.
Qed.

(* The requested statement is FALSE for the empty list: py_max_list [] = nan and
   eqb nan nan = false.  It holds for every non-empty list. *)
Lemma py_max_list_perm_alt l l' : l <> [] -> no_nan l -> Permutation l l' ->
  PrimFloat.eqb (py_max_list l) (py_max_list l') = true.
Proof.
  intros Hne Hn Hp.
  pose proof (no_nan_perm _ _ Hp Hn) as Hn'.
  destruct l as [|x tl]; [ congruence | ].
  destruct l' as [|x' tl']; [ apply Permutation_sym, Permutation_nil in Hp; discriminate | ].
  unfold py_max_list. fold max_step.
  destruct (fold_max_spec tl x Hn) as (Hin & Hmax).
  destruct (fold_max_spec tl' x' Hn') as (Hin' & Hmax').
  apply key_eq_eqb.
  - apply (no_nan_in _ _ Hn). exact Hin.
  - apply (no_nan_in _ _ Hn'). exact Hin'.
  - apply Hmax'. apply (Permutation_in _ Hp). exact Hin.
  - apply Hmax. apply (Permutation_in _ (Permutation_sym Hp)). exact Hin'.
Qed.

Example py_max_list_perm_empty_counterexample :
  no_nan [] /\ Permutation (@nil PrimFloat.float) [] /\
  PrimFloat.eqb (py_max_list []) (py_max_list []) = false.
Proof. split; [ constructor | split; [ constructor | reflexivity ] ]. Qed.

(* with the empty list included: equal, or both NaN *)
Lemma py_max_list_perm_gen l l' : no_nan l -> Permutation l l' ->
  PrimFloat.eqb (py_max_list l) (py_max_list l') = true \/
  (is_nan_f (py_max_list l) = true /\ is_nan_f (py_max_list l') = true).
Proof.
  intros Hn Hp. destruct l as [|x tl].
  - apply Permutation_nil in Hp. subst l'. right. split; reflexivity.
  - left. apply py_max_list_perm_alt; [ discriminate | assumption | assumption ].
Qed.

(* --- Python's min(x, acc) folded over a list --- *)
Definition min_step (a v : PrimFloat.float) : PrimFloat.float := py_min2 v a.

Lemma fold_min_spec : forall l acc, no_nan (acc :: l) ->
  In (fold_left min_step l acc) (acc :: l) /\
  (forall y, In y (acc :: l) -> (fkey (fold_left min_step l acc) <= fkey y)%R).
Proof.
  induction l as [|y tl IH]; intros x Hn.
  - cbn [fold_left]. split; [ left; reflexivity | ].
    intros y [<- | []]. apply Rle_refl.
  - cbn [fold_left].
    assert (Nx : is_nan_f x = false) by (apply (no_nan_in _ _ Hn); left; reflexivity).
    assert (Ny : is_nan_f y = false) by (apply (no_nan_in _ _ Hn); right; left; reflexivity).
    assert (Ntl : no_nan tl) by (inversion Hn as [|? ? _ H2]; inversion H2; assumption).
    assert (Hs : (min_step x y = x \/ min_step x y = y) /\
                 (fkey (min_step x y) <= fkey x)%R /\ (fkey (min_step x y) <= fkey y)%R).
    { unfold min_step, py_min2. destruct (PrimFloat.ltb x y) eqn:E.
      - apply ltb_true_key in E; auto. split; [ left; reflexivity | lra ].
      - apply ltb_false_key in E; auto. split; [ right; reflexivity | lra ]. }
    destruct Hs as (Hc & Kx & Ky).
    assert (Hn' : no_nan (min_step x y :: tl)).
    { constructor; [ destruct Hc as [-> | ->]; assumption | exact Ntl ]. }
    destruct (IH (min_step x y) Hn') as (Hin & Hmin). split.
    + destruct Hin as [Hin | Hin].
      * rewrite <- Hin. destruct Hc as [-> | ->]; [ left | right; left ]; reflexivity.
      * right; right; exact Hin.
    + pose proof (Hmin _ (or_introl eq_refl)) as K0.
      intros z [<- | [<- | Hz]]; [ lra | lra | ]. apply Hmin. right. exact Hz.
Qed.

Lemma py_min_fold_perm l l' acc : no_nan (acc :: l) -> Permutation l l' ->
  PrimFloat.eqb (fold_left (fun a v => py_min2 v a) l acc)
                (fold_left (fun a v => py_min2 v a) l' acc) = true.
Proof.
  intros Hn Hp. fold min_step.
  assert (Hp' : Permutation (acc :: l) (acc :: l')) by (apply perm_skip; exact Hp).
  pose proof (no_nan_perm _ _ Hp' Hn) as Hn'.
  destruct (fold_min_spec l acc Hn) as (Hin & Hmin).
  destruct (fold_min_spec l' acc Hn') as (Hin' & Hmin').
  apply key_eq_eqb.
  - apply (no_nan_in _ _ Hn). exact Hin.
  - apply (no_nan_in _ _ Hn'). exact Hin'.
  - apply Hmin. apply (Permutation_in _ (Permutation_sym Hp')). exact Hin'.
  - apply Hmin'. apply (Permutation_in _ Hp'). exact Hin.
Qed.

(* --- the pair values --- *)
Fixpoint pair_vals (nf : nat) (cls : list (list fpv)) : list PrimFloat.float :=
  match cls with
  | [] => []
  | c1 :: tl => map (pair_val nf c1) tl ++ pair_vals nf tl
  end.

Lemma pair_val_unfold nf c1 c2 :
  pair_val nf c1 c2 =
  (1 - isim_f (map2 Z.add (colsum nf c1) (colsum nf c2)) (zlen c1 + zlen c2))%float.
Proof. reflexivity. Qed.

Lemma fold_left_map : forall (A B C : Type) (f : A -> B -> A) (g : C -> B) l a,
  fold_left f (map g l) a = fold_left (fun a x => f a (g x)) l a.
Proof. induction l as [|x l IH]; intros a; [ reflexivity | ]. cbn [map fold_left]. apply IH. Qed.

Lemma dunn_pairs_fold : forall nf cls acc,
  dunn_pairs nf cls acc = fold_left (fun a v => py_min2 v a) (pair_vals nf cls) acc.
Proof.
  intros nf. induction cls as [|c1 tl IH]; intros acc; [ reflexivity | ].
  rewrite dunn_pairs_unfold. cbn [pair_vals].
  rewrite fold_left_app, fold_left_map. apply IH.
Qed.

Lemma map2_add_comm : forall a b : list Z, map2 Z.add a b = map2 Z.add b a.
Proof.
  induction a as [|x a IH]; intros [|y b]; cbn [map2]; try reflexivity.
  rewrite IH. f_equal. lia.
Qed.

Lemma pair_val_sym nf c1 c2 : pair_val nf c1 c2 = pair_val nf c2 c1.
Proof.
  unfold pair_val. rewrite (map2_add_comm (colsum nf c1)), (Z.add_comm (zlen c1)). reflexivity.
Qed.

Lemma pair_vals_perm nf cls cls' : Permutation cls cls' ->
  Permutation (pair_vals nf cls) (pair_vals nf cls').
Proof.
  induction 1 as [| x l l' Hp IH | x y l | l l' l'' _ IH1 _ IH2].
  - apply perm_nil.
  - cbn [pair_vals]. apply Permutation_app; [ apply Permutation_map; exact Hp | exact IH ].
  - cbn [pair_vals map app]. rewrite (pair_val_sym nf y x). apply perm_skip.
    rewrite !app_assoc. apply Permutation_app_tail. apply Permutation_app_comm.
  - eapply perm_trans; eassumption.
Qed.

(* --- the final division --- *)
Lemma SF_zero_eqb0 : forall x s, Prim2SF x = S754_zero s -> PrimFloat.eqb x 0 = true.
Proof.
  intros x s E. rewrite FloatAxioms.eqb_spec, E.
  change (Prim2SF 0) with (S754_zero false). reflexivity.
Qed.

Lemma eqb_or_nan_refl : forall r,
  PrimFloat.eqb r r = true \/ (is_nan_f r = true /\ is_nan_f r = true).
Proof.
  intros r. unfold is_nan_f. destruct (PrimFloat.eqb r r); [ left | right; split ]; reflexivity.
Qed.

(* quotients of eqb-equal numerators by the same non-zero denominator *)
Lemma div_eqb_compat : forall p p' m, PrimFloat.eqb p p' = true -> PrimFloat.eqb m 0 = false ->
  PrimFloat.eqb (p / m) (p' / m) = true \/
  (is_nan_f (p / m) = true /\ is_nan_f (p' / m) = true).
Proof.
  intros p p' m Hp Hm.
  destruct (eqb_cases p p' Hp) as [<- | (s & s' & Es & Es')]; [ apply eqb_or_nan_refl | ].
  pose proof (FloatAxioms.div_spec p m) as D. pose proof (FloatAxioms.div_spec p' m) as D'.
  rewrite Es in D. rewrite Es' in D'. unfold SF64div in D, D'.
  destruct (Prim2SF m) as [sm|sm| |sm mm em] eqn:Em; cbn [SFdiv] in D, D'.
  - rewrite (SF_zero_eqb0 m sm Em) in Hm. discriminate.
  - left. rewrite FloatAxioms.eqb_spec, D, D'. reflexivity.
  - right. split; apply SF_nan_is_nan_f; assumption.
  - left. rewrite FloatAxioms.eqb_spec, D, D'. reflexivity.
Qed.

Theorem dunn_cluster_order nf cls cls' : Permutation cls cls' ->
  no_nan (map (cl_isim nf) cls) -> no_nan (pair_vals nf cls) ->
  PrimFloat.eqb (dunn nf cls) (dunn nf cls') = true \/
  (is_nan_f (dunn nf cls) = true /\ is_nan_f (dunn nf cls') = true).
Proof.
  intros Hp HnD HnP.
  destruct cls as [|c0 tl].
  { apply Permutation_nil in Hp. subst cls'. right. split; reflexivity. }
  remember (c0 :: tl) as cls eqn:Ecls.
  assert (HD : Permutation (map (cl_isim nf) cls) (map (cl_isim nf) cls'))
    by (apply Permutation_map; exact Hp).
  assert (HM : PrimFloat.eqb (py_max_list (map (cl_isim nf) cls))
                             (py_max_list (map (cl_isim nf) cls')) = true).
  { apply py_max_list_perm_alt; [ subst cls; discriminate | exact HnD | exact HD ]. }
  assert (HP : PrimFloat.eqb (dunn_pairs nf cls 1) (dunn_pairs nf cls' 1) = true).
  { rewrite !dunn_pairs_fold. apply py_min_fold_perm.
    - constructor; [ reflexivity | exact HnP ].
    - apply pair_vals_perm. exact Hp. }
  unfold dunn. cbv zeta.
  remember (py_max_list (map (cl_isim nf) cls)) as M.
  remember (py_max_list (map (cl_isim nf) cls')) as M'.
  remember (dunn_pairs nf cls 1) as P. remember (dunn_pairs nf cls' 1) as P'.
  destruct (eqb_cases M M' HM) as [<- | (s & s' & Es & Es')].
  - destruct (PrimFloat.eqb M 0) eqn:E0; [ left; reflexivity | ].
    apply div_eqb_compat; assumption.
  - rewrite (SF_zero_eqb0 M s Es), (SF_zero_eqb0 M' s' Es'). left. reflexivity.
Qed.

(* ------------------------------------------------------------------ *)
(* 6. Non-vacuity: the order matters when a singleton cluster is present (finding D12) *)
(* ------------------------------------------------------------------ *)

Definition ex_a : list fpv :=
  [[true;true;false;false];[true;false;false;false];[true;true;true;false]].
Definition ex_b : list fpv := [[false;false;true;true];[false;true;true;true]].
Definition ex_s : list fpv := [[true;false;true;false]].

(* singleton first: NaN; singleton elsewhere: 0.75 *)
Example dunn_singleton_values :
  is_nan_f (dunn 4 [ex_s; ex_a; ex_b]) = true /\
  PrimFloat.eqb (dunn 4 [ex_a; ex_s; ex_b]) 0.75 = true /\
  PrimFloat.eqb (dunn 4 [ex_a; ex_b; ex_s]) 0.75 = true /\
  is_nan_f (cl_isim 4 ex_s) = true.
Proof. vm_compute. repeat split. Qed.

Example dunn_singleton_order_dependent :
  exists nf a b s,
    PrimFloat.eqb (dunn nf [s; a; b]) (dunn nf [a; b; s]) = false /\ List.length s = 1%nat.
Proof. exists 4%nat, ex_a, ex_b, ex_s. vm_compute. split; reflexivity. Qed.

(* the hypothesis no_nan of dunn_cluster_order is satisfiable: a non-vacuity instance *)
Example dunn_cluster_order_instance :
  no_nan (map (cl_isim 4) [ex_a; ex_b]) /\ no_nan (pair_vals 4 [ex_a; ex_b]) /\
  PrimFloat.eqb (dunn 4 [ex_a; ex_b]) (dunn 4 [ex_b; ex_a]) = true.
Proof. vm_compute. repeat constructor. Qed.

Print Assumptions select_prefix.
Print Assumptions select_sizes.
Print Assumptions select_top.
Print Assumptions select_maximal_gen.
Print Assumptions select_maximal_alt.
Print Assumptions analysis_counts.
Print Assumptions analysis_isim_nth.
Print Assumptions sort_asc_perm.
Print Assumptions analysis_isim_row_order.
Print Assumptions dunn_row_order.
Print Assumptions py_max_list_perm_alt.
Print Assumptions py_min_fold_perm.
Print Assumptions dunn_pairs_fold.
Print Assumptions pair_vals_perm.
Print Assumptions dunn_cluster_order.
Print Assumptions dunn_singleton_order_dependent.
Print Assumptions chi_terms_cluster_order.
Print Assumptions dbi_rows_cluster_order.
Print Assumptions chi_terms_row_order.
Print Assumptions dbi_terms_row_order.
