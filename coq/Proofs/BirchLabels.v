(* BirchLabels.v — C01 for caller-supplied labels (fit(X, reinsert_indices=l)).

   The existing C01 theorems are stated for the default numbering only ([op_wf] demands
   [labels = None], the invariant [numbered] says "the members are 0 .. nfit-1").  Here the
   invariant is "the members are a permutation of the labels handed in since the last
   reset", for arbitrary label lists. *)
From BB Require Import Model.Birch Proofs.ListFacts Proofs.TreeDefs Proofs.TreeRel
     Proofs.TreeShape Proofs.TreeBlocks Proofs.TreeChain Proofs.TreeSums Proofs.TreeBal
     Proofs.BirchDefs Proofs.SimMax Proofs.BirchInv Proofs.BirchRebuild.
From Coq Require Import Lia Permutation.
Open Scope Z_scope.

(* ================= L0: definitions ================= *)

(* [op_wf] with the restriction [labels = None] replaced by "as many labels as rows" *)
Definition op_wf_l (st : state) (o : op) : Prop :=
  match o with
  | OFit rows labels =>
      (match labels with Some l => length l = length rows | None => True end) /\
      (match root st with
       | Some _ => Forall (row_ok (nfeat st)) rows
       | None => match rows with
                 | Some fp :: _ => Forall (row_ok (length fp)) rows /\ Z.of_nat (length fp) < 2 ^ 52
                 | _ => True
                 end
       end) /\
      nfit st + zlen rows < 2 ^ 64
  | ORefine X _ _ => Forall (fun fp => length fp = nfeat st) X
  | ORecluster _ _ perms _ => True
  | OSetCfg _ _ bf => match bf with Some b => 2 <= b | None => True end
  | ODeleteInternal => True
  | OReset => True
  end.

Lemma op_wf_op_wf_l st o : op_wf st o -> op_wf_l st o.
Proof.
  destruct o as [rows labels| | | | |]; cbn [op_wf op_wf_l]; auto.
  intros (-> & H). split; [exact I|exact H].
Qed.

(* for every operation but [OFit] the two notions coincide *)
Lemma op_wf_l_nofit st o :
  match o with OFit _ _ => False | _ => True end -> (op_wf_l st o <-> op_wf st o).
Proof. destruct o; cbn [op_wf op_wf_l]; tauto. Qed.

(* the labels a fit call hands to the loop.  [do_fit] reads [nfit] of the INITIALISED state
   [st1]; [initialize] does not touch [nfit] (lemma [fit_labels_do_fit] below). *)
Definition fit_labels (st : state) (rows : list (option fpv)) (labels : option (list Z))
  : list Z :=
  match labels with Some l => l | None => zseq (nfit st) (length rows) end.

Lemma nfit_initialize st nf : nfit (initialize st nf) = nfit st.
Proof. reflexivity. Qed.

Lemma fit_labels_do_fit st (r0 : option fpv) (rows : list (option fpv)) labels :
  let nf := match r0 with Some fp => length fp | None => nfeat st end in
  let st1 := if is_init st then st else initialize st nf in
  match labels with Some l => l | None => zseq (nfit st1) (length (r0 :: rows)) end
  = fit_labels st (r0 :: rows) labels.
Proof. cbv zeta. unfold fit_labels. destruct (is_init st); reflexivity. Qed.

Lemma fit_labels_length st rows labels :
  match labels with Some l => length l = length rows | None => True end ->
  length (fit_labels st rows labels) = length rows.
Proof. destruct labels as [l|]; cbn [fit_labels]; [auto|intros _; apply zseq_length]. Qed.

(* ================= L3: the reported clusters are the members ================= *)
Lemma tot_n_cnt l : Forall cnt_ok l -> tot_n l = zlen (concat (map sids l)).
Proof.
  induction 1 as [|x l Hx _ IH]; [reflexivity|].
  rewrite tot_n_cons, IH. cbn [map concat]. unfold cnt_ok in Hx. rewrite Hx.
  unfold zlen. rewrite app_length. lia.
Qed.

Lemma nfit_members st : st_inv st -> nfit st = zlen (mem_ids st).
Proof.
  intros (_ & H). unfold mem_ids. destruct (root st) as [r|].
  - destruct H as (_ & (_ & _ & _ & _ & _ & Hc) & Hn & _).
    rewrite Hn. unfold members, blocks. apply tot_n_cnt, Hc.
  - destruct H as (-> & _). reflexivity.
Qed.

Theorem clusters_members st :
  st_inv st ->
  Permutation (concat (clusters st)) (mem_ids st) /\ nfit st = zlen (mem_ids st).
Proof.
  intros Hinv. split; [|apply nfit_members, Hinv].
  unfold clusters. apply sorted_leaves_ids, Hinv.
Qed.

Section WithExp.
Variable fexp : float -> float.

Fixpoint ops_wf_l (st : state) (ops : list op) : Prop :=
  match ops with
  | [] => True
  | o :: tl => op_wf_l st o /\ ops_wf_l (fst (step fexp st o)) tl
  end.

Lemma ops_wf_ops_wf_l ops : forall st, ops_wf fexp st ops -> ops_wf_l st ops.
Proof.
  induction ops as [|o ops IH]; intros st H; [exact I|].
  destruct H as (H1 & H2). split; [apply op_wf_op_wf_l, H1|apply IH, H2].
Qed.

(* ================= L1: one fit, any labels ================= *)
(* with as many labels as rows the loop ends Ok only when no row was bad *)
Lemma fit_rows_ok_all cf rows : forall st labs st',
  length labs = length rows -> fit_rows fexp cf st rows labs = (st', Ok) ->
  Forall (fun r => r <> None) rows.
Proof.
  induction rows as [|row rows IH]; intros st labs st' Hl Hf; [constructor|].
  destruct labs as [|l labs]; [discriminate Hl|]. injection Hl as Hl.
  destruct row as [fp|]; cbn [fit_rows] in Hf.
  - constructor; [discriminate|]. eapply IH; eauto.
  - discriminate Hf.
Qed.

Lemma fit_rows_labels cf rows st labs st' out :
  st_inv st -> root st <> None -> 2 <= c_bf cf ->
  Forall (row_ok (nfeat st)) rows -> nfit st + zlen rows < 2 ^ 64 ->
  length labs = length rows ->
  fit_rows fexp cf st rows labs = (st', out) ->
  st_inv st' /\ nfeat st' = nfeat st /\
  (out = Ok -> nfit st' = nfit st + zlen rows /\
               Permutation (mem_ids st') (mem_ids st ++ labs)) /\
  exists k, (k <= length rows)%nat /\ nfit st' = nfit st + Z.of_nat k /\
            Permutation (mem_ids st') (mem_ids st ++ firstn k labs).
Proof.
  intros Hinv Hr Hbf Hrows Hb Hl Hf.
  destruct (fit_rows_inv fexp cf rows st labs Hinv Hr Hbf Hrows Hb st' out Hf)
    as (J1 & _ & J3 & _ & _ & _ & k & K1 & K2 & K3 & K4 & K5).
  refine (conj J1 (conj J3 (conj _ _))).
  - intros ->. pose proof (fit_rows_ok_all cf rows st labs st' Hl Hf) as Hall.
    destruct (K5 Hall Hl) as (-> & _). split; [exact K3|].
    rewrite <- Hl, firstn_all in K4. exact K4.
  - exists k. auto.
Qed.

Theorem do_fit_labels st rows labels st' out :
  st_inv st -> nf_ok st -> op_wf_l st (OFit rows labels) ->
  do_fit fexp st rows labels = (st', out) ->
  st_inv st' /\ nf_ok st' /\
  (out = Ok -> nfit st' = nfit st + zlen rows /\
               Permutation (mem_ids st') (mem_ids st ++ fit_labels st rows labels)) /\
  exists k, (k <= length rows)%nat /\ nfit st' = nfit st + Z.of_nat k /\
            Permutation (mem_ids st') (mem_ids st ++ firstn k (fit_labels st rows labels)).
Proof.
  intros Hinv Hnf (Hlab & Hrows & Hb) Hf.
  assert (Noop : forall st'' , st'' = st ->
            st_inv st'' /\ nf_ok st'' /\
            (Err = Ok -> nfit st'' = nfit st + zlen rows /\
               Permutation (mem_ids st'') (mem_ids st ++ fit_labels st rows labels)) /\
            exists k, (k <= length rows)%nat /\ nfit st'' = nfit st + Z.of_nat k /\
              Permutation (mem_ids st'') (mem_ids st ++ firstn k (fit_labels st rows labels))).
  { intros st'' ->. refine (conj Hinv (conj Hnf (conj _ _))); [discriminate|].
    exists O. cbn [firstn]. rewrite app_nil_r, Z.add_0_r.
    split; [lia|]. split; reflexivity. }
  pose proof (fit_labels_length st rows labels Hlab) as Hlen.
  unfold do_fit in Hf.
  destruct rows as [|r0 rows]; [injection Hf as <- <-; apply Noop; reflexivity|].
  destruct (released st) eqn:Erel; [injection Hf as <- <-; apply Noop; reflexivity|].
  clear Noop. cbv zeta in Hf.
  rewrite (fit_labels_do_fit st r0 rows labels) in Hf.
  remember (fit_labels st (r0 :: rows) labels) as labs eqn:Elabs.
  unfold is_init in Hf.
  destruct (root st) as [r|] eqn:Er.
  - (* initialised *)
    assert (Hr : root st <> None) by congruence.
    destruct (fit_rows_labels (cfg st) (r0 :: rows) st labs st' out Hinv Hr (proj1 Hinv)
                Hrows Hb Hlen Hf) as (J1 & J3 & JOk & JK).
    refine (conj J1 (conj _ (conj JOk JK))).
    unfold nf_ok. rewrite J3. exact Hnf.
  - (* not initialised *)
    pose proof Hinv as (Hbf & Hinv'). rewrite Er in Hinv'. destruct Hinv' as (Hn0 & _).
    assert (Em : mem_ids st = []) by (unfold mem_ids; rewrite Er; reflexivity).
    destruct r0 as [fp|].
    + destruct Hrows as (Hrows & Hfp).
      pose proof (initialize_inv st (length fp) Hinv Er Hfp) as I1.
      remember (initialize st (length fp)) as st1 eqn:Est1.
      assert (E1 : nfit st1 = nfit st) by (subst st1; reflexivity).
      assert (E2 : nfeat st1 = length fp) by (subst st1; reflexivity).
      assert (E3 : root st1 <> None) by (subst st1; discriminate).
      assert (E4 : mem_ids st1 = []) by (subst st1; reflexivity).
      assert (E5 : cfg st1 = cfg st) by (subst st1; reflexivity).
      rewrite <- E2 in Hrows. rewrite <- E1 in Hb.
      assert (Hbf1 : 2 <= c_bf (cfg st1)) by (rewrite E5; exact Hbf).
      destruct (fit_rows_labels (cfg st1) (Some fp :: rows) st1 labs st' out I1 E3 Hbf1
                  Hrows Hb Hlen Hf) as (J1 & J3 & JOk & JK).
      rewrite E1, E4 in JOk, JK. rewrite Em.
      refine (conj J1 (conj _ (conj JOk JK))).
      unfold nf_ok. rewrite J3, E2. exact Hfp.
    + (* the first row is a bad row: the tree is initialised, nothing is inserted *)
      pose proof (initialize_inv st (nfeat st) Hinv Er Hnf) as I1.
      destruct labs as [|l0 labs]; [discriminate Hlen|].
      cbn [fit_rows] in Hf. injection Hf as <- <-.
      refine (conj I1 (conj Hnf (conj _ _))); [discriminate|].
      exists O. cbn [firstn]. rewrite app_nil_r, Z.add_0_r, Em.
      split; [lia|]. split; reflexivity.
Qed.

(* ================= L2: the other operations keep the multiset of labels ================= *)

(* [rebuild_core] of BirchRebuild.v with [numbered] replaced by "same members" *)
Lemma rebuild_core_l st st1 gs :
  st_inv st -> nf_ok st ->
  st_inv st1 -> root st1 = None -> released st1 = false ->
  groups_ok (nfeat st) gs -> tot_n (gsubs gs) = nfit st ->
  Permutation (concat (map sids (gsubs gs))) (mem_ids st) ->
  exists st', fit_groups fexp st1 gs = (st', Ok) /\
    st_inv st' /\ cfg st' = cfg st1 /\ released st' = false /\
    (nfeat st' = nfeat st1 \/ nfeat st' = nfeat st) /\ nfit st' = nfit st /\
    Permutation (mem_ids st') (mem_ids st).
Proof.
  intros Hinv Hnf Hinv1 Hr1 Hrel1 Hgs Htot Hids.
  assert (Hn1 : nfit st1 = 0).
  { destruct Hinv1 as (_ & H). rewrite Hr1 in H. tauto. }
  assert (Hb : nfit st1 + tot_n (gsubs gs) < 2 ^ 64).
  { rewrite Hn1, Htot. destruct Hinv as (_ & H). destruct (root st); [lia|].
    destruct H as (-> & _). lia. }
  destruct (fit_groups_inv fexp (nfeat st) gs st1 Hinv1 Hrel1 (or_introl Hr1) Hnf Hgs Hb)
    as (st' & F & K1 & K2 & K3 & K4 & K5 & K6 & K7 & _).
  exists st'.
  assert (E : nfit st' = nfit st) by lia.
  refine (conj F (conj K1 (conj K2 (conj K3 (conj K5 (conj E _)))))).
  etransitivity; [exact K7|]. unfold mem_ids at 1. rewrite Hr1. cbn [app]. exact Hids.
Qed.

(* ---------- recluster ---------- *)
Lemma rebuild_leaves_l st t bfs' :
  st_inv st -> nf_ok st -> Permutation bfs' (sorted_leaves st) ->
  exists st', fit_groups fexp (set_thr (reset_st st) t) (prepare_groups bfs') = (st', Ok) /\
    st_inv st' /\ nf_ok st' /\ released st' = false /\ nfit st' = nfit st /\
    Permutation (mem_ids st') (mem_ids st).
Proof.
  intros Hinv Hnf HP.
  destruct (reset_thr_inv st t Hinv) as (R1 & R2 & R3 & R4 & _).
  pose proof (prepare_groups_perm bfs') as PG.
  assert (PG' : Permutation (gsubs (prepare_groups bfs')) (sorted_leaves st))
    by (etransitivity; eassumption).
  assert (Hok : groups_ok (nfeat st) (prepare_groups bfs')).
  { apply groups_wf_ok; [apply prepare_groups_wf|].
    apply (Forall_perm _ (sorted_leaves st)); [symmetry; exact PG'|].
    apply sorted_leaves_good, Hinv. }
  assert (Htot : tot_n (gsubs (prepare_groups bfs')) = nfit st).
  { rewrite (tot_n_perm _ _ PG'). apply sorted_leaves_tot, Hinv. }
  assert (Hids : Permutation (concat (map sids (gsubs (prepare_groups bfs')))) (mem_ids st)).
  { etransitivity; [apply concat_perm, Permutation_map; exact PG'|].
    apply sorted_leaves_ids, Hinv. }
  destruct (rebuild_core_l st _ _ Hinv Hnf R1 R2 R3 Hok Htot Hids)
    as (st' & F & K1 & K2 & K3 & K4 & K5 & K6).
  exists st'. refine (conj F (conj K1 (conj _ (conj K3 (conj K5 K6))))).
  unfold nf_ok. destruct K4 as [->| ->]; [rewrite R4; cbn; lia|exact Hnf].
Qed.

Lemma recluster_loop_l iters : forall st extra perms se before,
  st_inv st -> nf_ok st -> perms_fit fexp iters st extra perms se before ->
  let st' := fst (recluster_loop fexp iters st extra perms se before) in
  st_inv st' /\ nf_ok st' /\ nfit st' = nfit st /\ Permutation (mem_ids st') (mem_ids st).
Proof.
  induction iters as [|k IH]; intros st extra perms se before Hinv Hnf Hpf; cbv zeta.
  - cbn [recluster_loop fst]. auto.
  - cbn [recluster_loop perms_fit] in *.
    destruct (se && ((count_singletons (sorted_leaves st) =? 0)
                     || (count_singletons (sorted_leaves st) =? before))).
    + cbn [fst]. auto.
    + destruct perms as [|p ps].
      * destruct (rebuild_leaves_l st (c_thr (cfg st) + extra)%float (sorted_leaves st)
                                   Hinv Hnf (Permutation_refl _))
          as (st2 & F & K1 & K2 & K3 & K4 & K5).
        rewrite F.
        destruct (IH st2 extra [] se (count_singletons (sorted_leaves st)) K1 K2
                     (perms_fit_nil _ _ _ _ _ _)) as (L1 & L2 & L3 & L4).
        refine (conj L1 (conj L2 (conj _ _))); [congruence|].
        etransitivity; eassumption.
      * destruct Hpf as (Hp & Hpf).
        destruct (rebuild_leaves_l st (c_thr (cfg st) + extra)%float
                                   (permute (sorted_leaves st) p)
                                   Hinv Hnf (permute_perm _ _ Hp))
          as (st2 & F & K1 & K2 & K3 & K4 & K5).
        rewrite F in Hpf |- *.
        destruct (IH st2 extra ps se (count_singletons (sorted_leaves st)) K1 K2 Hpf)
          as (L1 & L2 & L3 & L4).
        refine (conj L1 (conj L2 (conj _ _))); [congruence|].
        etransitivity; eassumption.
Qed.

Theorem do_recluster_labels st iters extra perms se :
  st_inv st -> recluster_perms_ok fexp st iters extra perms se ->
  let st' := fst (do_recluster fexp st iters extra perms se) in
  st_inv st' /\ (nf_ok st -> nf_ok st') /\ nfit st' = nfit st /\
  Permutation (mem_ids st') (mem_ids st).
Proof.
  intros Hinv Hpf. cbv zeta. unfold do_recluster, is_init.
  destruct (root st) as [r|] eqn:Er; cbn [negb fst]; [|auto].
  assert (Hnf : nf_ok st) by (apply st_inv_nf_ok; [exact Hinv|congruence]).
  destruct (recluster_loop_l iters st extra perms se 0 Hinv Hnf Hpf) as (L1 & L2 & L3 & L4).
  auto.
Qed.

(* ---------- delete_internal_nodes, set_params, reset ---------- *)
Theorem delete_internal_labels st :
  st_inv st ->
  let st' := fst (delete_internal st) in
  st_inv st' /\ (nf_ok st -> nf_ok st') /\ nfit st' = nfit st /\ mem_ids st' = mem_ids st /\
  clusters st' = clusters st.
Proof.
  intros Hinv. cbv zeta.
  destruct (delete_internal_spec st Hinv) as (D1 & D2 & D3 & D4 & D5 & D6 & _).
  destruct (same_tree_views st _ D3 D4 D5) as (V1 & _ & V3 & _).
  refine (conj D1 (conj _ (conj D5 (conj V3 _)))).
  - unfold nf_ok. now rewrite D6.
  - unfold clusters. now rewrite V1.
Qed.

Theorem setcfg_labels st c t b :
  st_inv st -> op_wf_l st (OSetCfg c t b) ->
  let st' := fst (step fexp st (OSetCfg c t b)) in
  st_inv st' /\ (nf_ok st -> nf_ok st') /\ nfit st' = nfit st /\ mem_ids st' = mem_ids st /\
  clusters st' = clusters st.
Proof.
  intros (Hbf & Hinv) Hwf. cbv zeta. cbn [step fst]. cbn [op_wf_l] in Hwf.
  refine (conj (conj _ Hinv) (conj (fun H => H) (conj eq_refl (conj eq_refl eq_refl)))).
  cbn [cfg c_bf]. destruct b; assumption.
Qed.

Theorem reset_labels st :
  st_inv st ->
  let st' := fst (step fexp st OReset) in
  st_inv st' /\ nf_ok st' /\ nfit st' = 0 /\ mem_ids st' = [] /\ clusters st' = [].
Proof.
  intros Hinv. cbv zeta. cbn [step fst].
  destruct (reset_inv st Hinv) as (R1 & R2 & R3 & R4 & _).
  refine (conj R1 (conj _ (conj eq_refl (conj eq_refl eq_refl)))).
  unfold nf_ok. rewrite R4. cbn. lia.
Qed.

(* ---------- refine ---------- *)
(* [refine_core] with "same members" instead of [numbered].  The singleton buffers made by
   [explode] carry the LABEL they were asked for, whatever row of [X] was fetched, so the
   multiset of labels survives; with arbitrary labels the lookup [py_nth X (i - im)] may
   fail, and then [refine_groups] is [None] (handled in [do_refine_labels]). *)
Lemma refine_core_l st1 (X : list fpv) im nl gs :
  st_inv st1 -> root st1 <> None ->
  Forall (fun fp : fpv => length fp = nfeat st1) X ->
  refine_groups st1 X im nl = Some gs ->
  exists st', fit_groups fexp (reset_st st1) gs = (st', Ok) /\
    st_inv st' /\ nf_ok st' /\ nfit st' = nfit st1 /\
    Permutation (mem_ids st') (mem_ids st1).
Proof.
  intros Hinv Hr HX Hrg.
  pose proof (st_inv_nf_ok st1 Hinv Hr) as Hnf.
  destruct (reset_inv st1 Hinv) as (R1 & R2 & R3 & R4 & _).
  assert (R5 : nf_ok (reset_st st1)) by (unfold nf_ok; rewrite R4; cbn; lia).
  pose proof (sorted_leaves_good st1 Hinv) as Hgood.
  pose proof (sorted_leaves_tot st1 Hinv) as Htot.
  pose proof (sorted_leaves_ids st1 Hinv) as Hids.
  assert (Fin : forall gs', groups_wf gs' -> Forall (good_sub (nfeat st1)) (gsubs gs') ->
            tot_n (gsubs gs') = nfit st1 ->
            Permutation (concat (map sids (gsubs gs'))) (mem_ids st1) ->
            exists st', fit_groups fexp (reset_st st1) gs' = (st', Ok) /\
              st_inv st' /\ nf_ok st' /\ nfit st' = nfit st1 /\
              Permutation (mem_ids st') (mem_ids st1)).
  { intros gs' Hwf Hg Ht Hi.
    pose proof (groups_wf_ok _ _ Hwf Hg) as Hok.
    destruct (rebuild_core_l st1 _ _ Hinv Hnf R1 R2 R3 Hok Ht Hi)
      as (st' & F & K1 & K2 & K3 & K4 & K5 & K6).
    exists st'. refine (conj F (conj K1 (conj _ (conj K5 K6)))).
    unfold nf_ok. destruct K4 as [->| ->]; assumption. }
  unfold refine_groups in Hrg.
  destruct (nl =? 0) eqn:E0.
  - injection Hrg as <-.
    pose proof (prepare_groups_perm (sorted_leaves st1)) as PG.
    apply Fin.
    + apply prepare_groups_wf.
    + apply (Forall_perm _ (sorted_leaves st1)); [symmetry; exact PG|exact Hgood].
    + rewrite (tot_n_perm _ _ PG). exact Htot.
    + etransitivity; [apply concat_perm, Permutation_map; exact PG|exact Hids].
  - destruct (nl <? 1); [discriminate|].
    remember (Z.to_nat nl) as k eqn:Ek.
    remember (sorted_leaves st1) as bfs eqn:Ebfs.
    destruct (firstn k bfs) as [|l0 lt] eqn:El; [discriminate|]. rewrite <- El in Hrg.
    destruct (explode_all X im (firstn k bfs)) as [singles|] eqn:Ex; [|discriminate].
    injection Hrg as <-.
    destruct (firstn_skipn_Forall _ k bfs Hgood) as (G1 & G2).
    assert (HC : Forall cnt_ok (firstn k bfs)).
    { eapply Forall_impl; [|exact G1]. cbv beta. intros a (_ & _ & Hq). exact Hq. }
    destruct (explode_all_spec (nfeat st1) X im _ singles HX HC Ex) as (S1 & S2 & S3).
    assert (SW : Forall (fun b => sw b = W8) singles).
    { eapply Forall_impl; [|exact S1]. cbv beta. tauto. }
    assert (SG : Forall (good_sub (nfeat st1)) singles).
    { eapply Forall_impl; [|exact S1]. cbv beta. tauto. }
    pose proof (prepare_groups_perm (skipn k bfs)) as PG.
    pose proof (fold_group_add_perm (fun _ => W8) singles (prepare_groups (skipn k bfs))) as PF.
    cbv beta in PF.
    assert (PP : Permutation
                   (gsubs (fold_left (fun gs b => group_add W8 b gs) singles
                                     (prepare_groups (skipn k bfs))))
                   (skipn k bfs ++ singles)).
    { etransitivity; [exact PF|]. apply Permutation_app_tail. exact PG. }
    apply Fin.
    + apply (fold_group_add_wf (fun _ => W8)); [exact SW|apply prepare_groups_wf].
    + apply (Forall_perm _ (skipn k bfs ++ singles)); [symmetry; exact PP|].
      apply Forall_app. split; assumption.
    + rewrite (tot_n_perm _ _ PP), tot_n_app, S3, <- Htot.
      rewrite <- (firstn_skipn k bfs) at 3. rewrite tot_n_app. lia.
    + etransitivity; [apply concat_perm, Permutation_map; exact PP|].
      rewrite map_app, concat_app, S2.
      etransitivity; [apply Permutation_app_comm|].
      rewrite <- concat_app, <- map_app, firstn_skipn. exact Hids.
Qed.

(* No side condition is needed for refine: whatever the outcome, the multiset of labels and
   the count are kept.  When the call fails (tree not initialised / already released /
   n_largest < 0 / no cluster / a label that [X] cannot be indexed with) the tree is
   untouched: only the flag [released] may have been set by the preceding
   delete_internal_nodes — exactly what the Python does, the exception being raised after
   [self.delete_internal_nodes()]. *)
Theorem do_refine_labels st X im nl :
  st_inv st -> op_wf_l st (ORefine X im nl) ->
  let st' := fst (do_refine fexp st X im nl) in
  st_inv st' /\ (nf_ok st -> nf_ok st') /\ nfit st' = nfit st /\
  Permutation (mem_ids st') (mem_ids st) /\
  (snd (do_refine fexp st X im nl) = Err ->
   root st' = root st /\ sax st' = sax st /\ cfg st' = cfg st /\ nfeat st' = nfeat st /\
   clusters st' = clusters st).
Proof.
  intros Hinv HX. cbn [op_wf_l] in HX. cbv zeta. unfold do_refine, is_init.
  destruct (root st) as [r|] eqn:Er; cbn [negb]; [|cbn [fst snd]; auto 10].
  destruct (delete_internal_spec st Hinv) as (D1 & D2 & D3 & D4 & D5 & D6 & D7).
  destruct (delete_internal st) as [st1 o] eqn:Ed. cbn [fst snd] in *.
  destruct (same_tree_views st st1 D3 D4 D5) as (V1 & V2 & V3 & V4).
  assert (Triv : st_inv st1 /\ (nf_ok st -> nf_ok st1) /\ nfit st1 = nfit st /\
                 Permutation (mem_ids st1) (mem_ids st) /\
                 (Err = Err -> root st1 = Some r /\ sax st1 = sax st /\ cfg st1 = cfg st /\
                    nfeat st1 = nfeat st /\ clusters st1 = clusters st)).
  { refine (conj D1 (conj _ (conj D5 (conj _ _)))).
    - unfold nf_ok. now rewrite D6.
    - rewrite V3. reflexivity.
    - intros _. unfold clusters. rewrite V1. repeat split; auto; congruence. }
  destruct o; [|exact Triv].
  destruct (refine_groups st1 X im nl) as [gs|] eqn:Eg; [|exact Triv].
  assert (Hr1 : root st1 <> None) by congruence.
  rewrite <- D6 in HX.
  destruct (refine_core_l st1 X im nl gs D1 Hr1 HX Eg) as (st' & F & K1 & K2 & K3 & K4).
  rewrite F. cbn [fst snd].
  refine (conj K1 (conj (fun _ => K2) (conj _ (conj _ _)))).
  - congruence.
  - rewrite <- V3. exact K4.
  - discriminate.
Qed.

(* ================= L4: histories ================= *)
(* the labels held after one operation, given those held before: a successful fit adds its
   labels; a fit that stops at a bad row adds the labels of the rows before it (their number
   is read off the fitted count); reset drops everything; the rest keeps *)
Definition step_labels (st : state) (o : op) (acc : list Z) : list Z :=
  match o with
  | OFit rows labels =>
      let r := step fexp st o in
      match snd r with
      | Ok => acc ++ fit_labels st rows labels
      | Err => acc ++ firstn (Z.to_nat (nfit (fst r) - nfit st)) (fit_labels st rows labels)
      end
  | OReset => []
  | _ => acc
  end.

Fixpoint labels_run (st : state) (ops : list op) (acc : list Z) : list Z :=
  match ops with
  | [] => acc
  | o :: tl => labels_run (fst (step fexp st o)) tl (step_labels st o acc)
  end.

Theorem step_labels_inv st o acc :
  st_inv st -> nf_ok st -> Permutation (mem_ids st) acc ->
  op_wf_l st o -> op_perms_ok fexp st o ->
  let st' := fst (step fexp st o) in
  st_inv st' /\ nf_ok st' /\ Permutation (mem_ids st') (step_labels st o acc).
Proof.
  intros Hinv Hnf Hacc Hwf Hp. cbv zeta.
  destruct o as [rows labels|X im nl|it ex ps se|c t b| |]; cbn [step_labels].
  - cbn [step]. destruct (do_fit fexp st rows labels) as [st' out] eqn:Hf. cbn [fst snd].
    destruct (do_fit_labels st rows labels st' out Hinv Hnf Hwf Hf)
      as (A & B & COk & k & K1 & K2 & K3).
    refine (conj A (conj B _)).
    destruct out.
    + destruct (COk eq_refl) as (_ & P). etransitivity; [exact P|].
      apply Permutation_app_tail, Hacc.
    + replace (Z.to_nat (nfit st' - nfit st)) with k by lia.
      etransitivity; [exact K3|]. apply Permutation_app_tail, Hacc.
  - cbn [step]. destruct (do_refine_labels st X im nl Hinv Hwf) as (A & B & _ & D & _).
    refine (conj A (conj (B Hnf) _)). etransitivity; eassumption.
  - cbn [step]. destruct (do_recluster_labels st it ex ps se Hinv Hp) as (A & B & _ & D).
    refine (conj A (conj (B Hnf) _)). etransitivity; eassumption.
  - destruct (setcfg_labels st c t b Hinv Hwf) as (A & B & _ & D & _).
    refine (conj A (conj (B Hnf) _)). rewrite D. exact Hacc.
  - cbn [step]. destruct (delete_internal_labels st Hinv) as (A & B & _ & D & _).
    refine (conj A (conj (B Hnf) _)). rewrite D. exact Hacc.
  - destruct (reset_labels st Hinv) as (A & B & _ & D & _).
    refine (conj A (conj B _)). rewrite D. reflexivity.
Qed.

Lemma run_from_labels ops : forall st acc,
  st_inv st -> nf_ok st -> Permutation (mem_ids st) acc ->
  ops_wf_l st ops -> ops_perms_ok fexp st ops ->
  let st' := run_from fexp st ops in
  st_inv st' /\ nf_ok st' /\ Permutation (mem_ids st') (labels_run st ops acc).
Proof.
  induction ops as [|o ops IH]; intros st acc Hinv Hnf Hacc Hwf Hp; cbv zeta.
  - cbn. auto.
  - destruct Hwf as (W1 & W2). destruct Hp as (P1 & P2).
    destruct (step_labels_inv st o acc Hinv Hnf Hacc W1 P1) as (A & B & C).
    exact (IH _ _ A B C W2 P2).
Qed.

(* C01 for caller-supplied labels *)
Theorem run_labels cfg0 ops :
  2 <= c_bf cfg0 -> ops_wf_l (init cfg0) ops -> ops_perms_ok fexp (init cfg0) ops ->
  let st := run fexp cfg0 ops in
  Permutation (concat (clusters st)) (labels_run (init cfg0) ops []) /\
  nfit st = zlen (labels_run (init cfg0) ops []).
Proof.
  intros H Hwf Hp. cbv zeta. destruct (init_inv cfg0 H) as (A & B & _).
  destruct (run_from_labels ops (init cfg0) [] A B (Permutation_refl _) Hwf Hp)
    as (R1 & _ & R3).
  change (run_from fexp (init cfg0) ops) with (run fexp cfg0 ops) in R1, R3.
  destruct (clusters_members _ R1) as (C1 & C2). split.
  - etransitivity; eassumption.
  - rewrite C2. unfold zlen. now rewrite (Permutation_length R3).
Qed.

(* the invariant itself, for use at intermediate points of a history *)
Theorem run_labels_inv cfg0 ops :
  2 <= c_bf cfg0 -> ops_wf_l (init cfg0) ops -> ops_perms_ok fexp (init cfg0) ops ->
  let st := run fexp cfg0 ops in
  st_inv st /\ nf_ok st /\ Permutation (mem_ids st) (labels_run (init cfg0) ops []).
Proof.
  intros H Hwf Hp. destruct (init_inv cfg0 H) as (A & B & _).
  exact (run_from_labels ops (init cfg0) [] A B (Permutation_refl _) Hwf Hp).
Qed.

(* distinct labels in, every label in exactly one cluster, once *)
Corollary run_labels_partition cfg0 ops :
  2 <= c_bf cfg0 -> ops_wf_l (init cfg0) ops -> ops_perms_ok fexp (init cfg0) ops ->
  NoDup (labels_run (init cfg0) ops []) ->
  let st := run fexp cfg0 ops in
  NoDup (concat (clusters st)) /\
  (forall x, In x (labels_run (init cfg0) ops []) <-> exists b, In b (clusters st) /\ In x b) /\
  nfit st = zlen (concat (clusters st)).
Proof.
  intros H Hwf Hp Hnd. cbv zeta. destruct (run_labels cfg0 ops H Hwf Hp) as (P & N).
  refine (conj _ (conj _ _)).
  - eapply Permutation_NoDup; [symmetry; exact P|exact Hnd].
  - intros x. rewrite <- in_concat. split; apply Permutation_in; [symmetry|]; exact P.
  - rewrite N. unfold zlen. now rewrite (Permutation_length P).
Qed.

(* the converse reading: a repeated label is reported twice (nothing is lost or merged) *)
Corollary run_labels_count cfg0 ops x :
  2 <= c_bf cfg0 -> ops_wf_l (init cfg0) ops -> ops_perms_ok fexp (init cfg0) ops ->
  let st := run fexp cfg0 ops in
  count_occ Z.eq_dec (concat (clusters st)) x =
  count_occ Z.eq_dec (labels_run (init cfg0) ops []) x.
Proof.
  intros H Hwf Hp. cbv zeta. destruct (run_labels cfg0 ops H Hwf Hp) as (P & _).
  revert x. apply Permutation_count_occ. exact P.
Qed.

(* ================= L5: consistency with the default numbering ================= *)
Theorem labels_run_default cfg0 ops :
  2 <= c_bf cfg0 -> ops_wf fexp (init cfg0) ops -> ops_perms_ok fexp (init cfg0) ops ->
  let st := run fexp cfg0 ops in
  Permutation (labels_run (init cfg0) ops []) (zseq 0 (Z.to_nat (nfit st))) /\
  NoDup (labels_run (init cfg0) ops []).
Proof.
  intros H Hwf Hp. cbv zeta.
  destruct (run_labels cfg0 ops H (ops_wf_ops_wf_l _ _ Hwf) Hp) as (P & _).
  destruct (run_clusters fexp cfg0 ops H Hwf Hp) as (Q & _).
  assert (R : Permutation (labels_run (init cfg0) ops []) (zseq 0 (Z.to_nat (nfit (run fexp cfg0 ops))))).
  { etransitivity; [symmetry; exact P|exact Q]. }
  split; [exact R|].
  eapply Permutation_NoDup; [symmetry; exact R|apply NoDup_zseq].
Qed.

End WithExp.

(* ================= non-vacuity ================= *)
Definition lx_fexp (_ : float) : float := 0x1.78b56362cef38p-2%float.
Definition lx_cfg := mkCfg CDiameter 0.5 2.
Definition lx_rows1 : list (option fpv) :=
  [Some [true; true; false; false]; Some [false; false; true; true];
   Some [true; true; true; false]].
Definition lx_rows2 : list (option fpv) :=
  [Some [false; true; true; true]; Some [true; false; false; false]].

(* two fits with caller-supplied, non-contiguous labels, then a re-clustering with a shuffle *)
Definition lx_ops : list op :=
  [OFit lx_rows1 (Some [10; 20; 30]); OFit lx_rows2 (Some [5; 7]);
   ORecluster 1 0 [[1; 0]%nat] false].

Ltac lx_solve :=
  repeat match goal with |- _ /\ _ => split | |- True => exact I end;
  try (vm_compute; try apply perm_swap;
       repeat (split || constructor || reflexivity || discriminate || lia)).

Example labels_nonvacuous :
  2 <= c_bf lx_cfg /\
  ops_wf_l lx_fexp (init lx_cfg) lx_ops /\ ops_perms_ok lx_fexp (init lx_cfg) lx_ops /\
  labels_run lx_fexp (init lx_cfg) lx_ops [] = [10; 20; 30; 5; 7] /\
  map (fun k => clusters (run lx_fexp lx_cfg (firstn k lx_ops))) [1; 2; 3]%nat =
    [[[10; 30]; [20]]; [[10; 30; 7]; [20; 5]]; [[10; 30; 7]; [20; 5]]] /\
  nfit (run lx_fexp lx_cfg lx_ops) = 5.
Proof.
  split; [vm_compute; discriminate|]. split; [|split; [|split; [|split]]].
  - cbn [ops_wf_l lx_ops]. lx_solve.
  - cbn [ops_perms_ok lx_ops]. lx_solve.
  - vm_compute. reflexivity.
  - vm_compute. reflexivity.
  - vm_compute. reflexivity.
Qed.

(* the theorem applied to it: the five labels, each in exactly one cluster *)
Example labels_nonvacuous_partition :
  let st := run lx_fexp lx_cfg lx_ops in
  Permutation (concat (clusters st)) [10; 20; 30; 5; 7] /\ NoDup (concat (clusters st)) /\
  nfit st = 5.
Proof.
  destruct labels_nonvacuous as (H1 & H2 & H3 & H4 & _).
  destruct (run_labels lx_fexp lx_cfg lx_ops H1 H2 H3) as (P & N).
  assert (Hnd : NoDup (labels_run lx_fexp (init lx_cfg) lx_ops [])).
  { rewrite H4. repeat constructor; cbn; intuition lia. }
  destruct (run_labels_partition lx_fexp lx_cfg lx_ops H1 H2 H3 Hnd) as (Q & _).
  cbv zeta. rewrite H4 in P, N. auto.
Qed.

(* a fit with labels that stops at a bad row keeps the label of the row before it; a refine
   whose matrix cannot be indexed with the labels (label 10 in a one-row X) ends Err and
   leaves the clusters alone *)
Definition lx_ops2 : list op :=
  [OFit lx_rows1 (Some [10; 20; 30]);
   OFit [Some [false; true; true; true]; None; Some [true; false; false; false]]
        (Some [5; 7; 9]);
   ORefine [[true; true; false; false]] 0 1].

Example labels_failed_fit_refine :
  ops_wf_l lx_fexp (init lx_cfg) lx_ops2 /\ ops_perms_ok lx_fexp (init lx_cfg) lx_ops2 /\
  map (fun k => snd (step lx_fexp (run lx_fexp lx_cfg (firstn k lx_ops2))
                          (nth k lx_ops2 OReset))) [0; 1; 2]%nat = [Ok; Err; Err] /\
  labels_run lx_fexp (init lx_cfg) lx_ops2 [] = [10; 20; 30; 5] /\
  map (fun k => clusters (run lx_fexp lx_cfg (firstn k lx_ops2))) [1; 2; 3]%nat =
    [[[10; 30]; [20]]; [[10; 30]; [20; 5]]; [[10; 30]; [20; 5]]].
Proof.
  split; [|split; [|split; [|split]]].
  - cbn [ops_wf_l lx_ops2]. lx_solve.
  - cbn [ops_perms_ok lx_ops2]. lx_solve.
  - vm_compute. reflexivity.
  - vm_compute. reflexivity.
  - vm_compute. reflexivity.
Qed.

(* a refine that succeeds with offset labels (initial_mol = 100) *)
Definition lx_ops3 : list op :=
  [OFit lx_rows1 (Some [100; 101; 102]);
   ORefine [[true; true; false; false]; [false; false; true; true]; [true; true; true; false]]
           100 1].

Example labels_refine_ok :
  ops_wf_l lx_fexp (init lx_cfg) lx_ops3 /\
  snd (step lx_fexp (run lx_fexp lx_cfg (firstn 1 lx_ops3)) (nth 1 lx_ops3 OReset)) = Ok /\
  clusters (run lx_fexp lx_cfg lx_ops3) = [[100; 102]; [101]].
Proof.
  split; [|split].
  - cbn [ops_wf_l lx_ops3]. lx_solve.
  - vm_compute. reflexivity.
  - vm_compute. reflexivity.
Qed.
