(* AnalysisMore.v — property C19, remaining pieces: the global counts of cluster_analysis
   (singletons, clusters above a size, total = number of rows) and their independence of the
   order of clusters / rows; the DBI centroid matrix (entries, symmetry, behaviour under a
   reordering of the clusters); the CHI terms (explicit form, global centroid). *)
From BB Require Import Model.Analysis Model.Birch.
From Coq Require Import ZArith List Bool Reals Lia Lra Permutation FinFun Floats.
From Flocq Require Import Core BinarySingleNaN.
From Flocq Require Import IEEE754.PrimFloat.
From BB Require Import Proofs.ListFacts Proofs.FloatFacts Proofs.KernelFacts Proofs.IsimFacts
  Proofs.AnalysisFacts.
Import ListNotations.
Open Scope Z_scope.

#[local] Existing Instance Hprec.
#[local] Existing Instance Hmax.

(* ------------------------------------------------------------------ *)
(* 0. List helpers                                                     *)
(* ------------------------------------------------------------------ *)

Lemma filter_map_comm : forall (A B : Type) (f : A -> B) (p : B -> bool) l,
  filter p (map f l) = map f (filter (fun x => p (f x)) l).
Proof.
  intros A B f p. induction l as [|x l IH]; [ reflexivity | ].
  cbn [map filter]. destruct (p (f x)); cbn [map]; rewrite IH; reflexivity.
Qed.

Lemma zlen_map : forall (A B : Type) (f : A -> B) l, zlen (map f l) = zlen l.
Proof. intros. unfold zlen. rewrite map_length. reflexivity. Qed.

Lemma filter_perm : forall (A : Type) (p : A -> bool) l l',
  Permutation l l' -> Permutation (filter p l) (filter p l').
Proof.
  intros A p l l' H.
  induction H as [| x l l' _ IH | x y l | l l' l'' _ IH1 _ IH2]; cbn [filter].
  - apply perm_nil.
  - destruct (p x); [ apply perm_skip | ]; exact IH.
  - destruct (p x), (p y); try apply Permutation_refl. apply perm_swap.
  - eapply perm_trans; eassumption.
Qed.

Lemma zlen_app : forall (A : Type) (a b : list A), zlen (a ++ b) = zlen a + zlen b.
Proof. intros. unfold zlen. rewrite app_length. lia. Qed.

Lemma zsum_zlen_concat : forall (A : Type) (cls : list (list A)),
  zsum (map zlen cls) = zlen (concat cls).
Proof.
  intros A. induction cls as [|c tl IH]; [ reflexivity | ].
  cbn [map concat]. rewrite zsum_cons', zlen_app, IH. reflexivity.
Qed.

Lemma zseq_len : forall n s, length (zseq s n) = n.
Proof. induction n as [|n IH]; intros s; cbn [zseq length]; [ | rewrite IH ]; reflexivity. Qed.

Lemma map_zlen_rows : forall (A : Type) (cls cls' : list (list A)),
  Forall2 (fun a b => Permutation a b) cls cls' -> map zlen cls = map zlen cls'.
Proof.
  intros A cls cls'. induction 1 as [| c c' tl tl' H1 _ IH]; [ reflexivity | ].
  cbn [map]. rewrite IH, (zlen_perm _ _ _ H1). reflexivity.
Qed.

(* ------------------------------------------------------------------ *)
(* 1. Global counts                                                    *)
(* ------------------------------------------------------------------ *)

(* number of clusters with exactly one member (same statement as AnalysisFacts) *)
Lemma analysis_singletons nf rows cls top ms :
  a_singletons (cluster_analysis nf rows cls top ms) =
  zlen (filter (fun c => zlen c =? 1) cls).
Proof.
  unfold cluster_analysis. cbn [a_singletons].
  rewrite filter_map_comm, zlen_map. reflexivity.
Qed.

Lemma analysis_clusters_above nf rows cls top ms size :
  clusters_above (cluster_analysis nf rows cls top ms) size =
  zlen (filter (fun c => size <? zlen c) cls).
Proof.
  unfold clusters_above, cluster_analysis. cbn [a_all_sizes].
  rewrite filter_map_comm, zlen_map. reflexivity.
Qed.

Lemma analysis_total nf rows cls top ms :
  a_total (cluster_analysis nf rows cls top ms) = zlen (concat cls).
Proof. unfold cluster_analysis. cbn [a_total]. apply zsum_zlen_concat. Qed.

(* the global counts do not depend on the order of the clusters *)
Lemma analysis_counts_perm nf rows cls cls' top ms top' ms' :
  Permutation cls cls' ->
  let a := cluster_analysis nf rows cls top ms in
  let a' := cluster_analysis nf rows cls' top' ms' in
  a_total a = a_total a' /\
  a_nclusters a = a_nclusters a' /\
  a_singletons a = a_singletons a' /\
  (forall size, clusters_above a size = clusters_above a' size) /\
  Permutation (a_all_sizes a) (a_all_sizes a').
Proof.
  intros H. cbv zeta. repeat split.
  - rewrite !analysis_total. apply zlen_perm, concat_perm. exact H.
  - unfold cluster_analysis. cbn [a_nclusters]. apply zlen_perm. exact H.
  - rewrite !analysis_singletons. apply zlen_perm, filter_perm. exact H.
  - intros size. rewrite !analysis_clusters_above. apply zlen_perm, filter_perm. exact H.
  - unfold cluster_analysis. cbn [a_all_sizes]. apply Permutation_map. exact H.
Qed.

(* the selection only looks at the lengths *)
Lemma select_clusters_rows : forall (cls cls' : list (list Z)),
  Forall2 (fun a b => Permutation a b) cls cls' ->
  forall i top ms,
  Forall2 (fun a b => Permutation a b)
          (select_clusters cls i top ms) (select_clusters cls' i top ms).
Proof.
  induction 1 as [| c c' tl tl' H1 _ IH]; intros i top ms; cbn [select_clusters];
    [ constructor | ].
  rewrite <- (zlen_perm _ _ _ H1).
  destruct (zlen c <? ms); [ constructor | ].
  destruct (match top with Some t => t <=? i | None => false end); [ constructor | ].
  constructor; [ exact H1 | apply IH ].
Qed.

(* rows reordered inside the clusters: the whole analysis record is the same *)
Lemma analysis_counts_rows nf rows cls cls' top ms :
  Forall2 (fun a b => Permutation a b) cls cls' ->
  let a := cluster_analysis nf rows cls top ms in
  let a' := cluster_analysis nf rows cls' top ms in
  a_sizes a = a_sizes a' /\
  a_isims a = a_isims a' /\
  a_total a = a_total a' /\
  a_nclusters a = a_nclusters a' /\
  a_singletons a = a_singletons a' /\
  a_all_sizes a = a_all_sizes a' /\
  (forall size, clusters_above a size = clusters_above a' size).
Proof.
  intros H. cbv zeta.
  pose proof (map_zlen_rows _ _ _ H) as Es.
  pose proof (select_clusters_rows _ _ H 0 top ms) as Hsel.
  unfold clusters_above, cluster_analysis.
  cbn [a_sizes a_isims a_total a_nclusters a_singletons a_all_sizes].
  rewrite <- Es.
  assert (El : zlen cls = zlen cls').
  { unfold zlen. rewrite <- (map_length zlen cls), Es, map_length. reflexivity. }
  repeat split; try assumption.
  - apply map_zlen_rows. exact Hsel.
  - induction Hsel as [| c c' tl tl' H1 _ IH]; [ reflexivity | ].
    cbn [map]. rewrite IH, (analysis_isim_row_order nf rows c c' H1). reflexivity.
Qed.

Lemma analysis_rows_eq nf rows cls cls' top ms :
  Forall2 (fun a b => Permutation a b) cls cls' ->
  cluster_analysis nf rows cls top ms = cluster_analysis nf rows cls' top ms.
Proof.
  intros H.
  destruct (analysis_counts_rows nf rows cls cls' top ms H) as (E1 & E2 & E3 & E4 & E5 & E6 & _).
  destruct (cluster_analysis nf rows cls top ms) as [x1 x2 x3 x4 x5 x6].
  destruct (cluster_analysis nf rows cls' top ms) as [y1 y2 y3 y4 y5 y6].
  cbn [a_sizes a_isims a_total a_nclusters a_singletons a_all_sizes] in *.
  subst. reflexivity.
Qed.

(* if the clusters partition the labels 0..N-1, the total is N *)
Lemma analysis_total_is_rows nf rows cls top ms N :
  Permutation (concat cls) (zseq 0 N) ->
  a_total (cluster_analysis nf rows cls top ms) = Z.of_nat N.
Proof.
  intros H. rewrite analysis_total. unfold zlen.
  rewrite (Permutation_length H), zseq_len. reflexivity.
Qed.

(* ------------------------------------------------------------------ *)
(* 2. DBI                                                              *)
(* ------------------------------------------------------------------ *)

Lemma dbi_terms_row_order nf cls cls' :
  Forall2 (fun a b => Permutation a b) cls cls' ->
  Forall2 (fun t t' => Permutation t t') (fst (dbi_terms nf cls)) (fst (dbi_terms nf cls')) /\
  snd (dbi_terms nf cls) = snd (dbi_terms nf cls').
Proof.
  intros H. destruct (AnalysisFacts.dbi_terms_row_order nf cls cls' H) as (H1 & H2).
  split; [ exact H1 | symmetry; exact H2 ].
Qed.

Lemma dbi_matrix_dims nf cls :
  length (snd (dbi_terms nf cls)) = length cls /\
  Forall (fun row => length row = length cls) (snd (dbi_terms nf cls)).
Proof.
  unfold dbi_terms. cbv zeta. cbn [snd]. split; [ rewrite !map_length; reflexivity | ].
  apply Forall_forall. intros row Hin. apply in_map_iff in Hin. destruct Hin as (ci & <- & _).
  rewrite !map_length. reflexivity.
Qed.

Lemma dbi_matrix_entry nf cls i j d : (i < length cls)%nat -> (j < length cls)%nat ->
  nth j (nth i (snd (dbi_terms nf cls)) []) d =
  (1 - sim (cl_centroid nf (nth i cls [])) (cl_centroid nf (nth j cls [])))%float.
Proof.
  intros Hi Hj. unfold dbi_terms. cbv zeta. cbn [snd].
  rewrite (nth_map_lt _ _ _ (map (cl_centroid nf) cls) i [] (cl_centroid nf []))
    by (rewrite map_length; exact Hi).
  rewrite (nth_map_lt _ _ _ (map (cl_centroid nf) cls) j d (cl_centroid nf []))
    by (rewrite map_length; exact Hj).
  rewrite !(map_nth (cl_centroid nf)). reflexivity.
Qed.

Lemma dbi_matrix_symmetric nf cls i j d : (i < length cls)%nat -> (j < length cls)%nat ->
  nth j (nth i (snd (dbi_terms nf cls)) []) d =
  nth i (nth j (snd (dbi_terms nf cls)) []) d.
Proof.
  intros Hi Hj. rewrite !dbi_matrix_entry by assumption. rewrite FloatFacts.sim_sym. reflexivity.
Qed.

(* a reordering of the clusters is an index bijection f; the matrix entries follow f *)
Lemma dbi_matrix_cluster_order nf cls cls' d : Permutation cls cls' ->
  length cls' = length cls /\
  exists f : nat -> nat,
    (forall i, (i < length cls')%nat -> (f i < length cls)%nat) /\
    (forall i j, (i < length cls')%nat -> (j < length cls')%nat -> f i = f j -> i = j) /\
    (forall i, (i < length cls')%nat -> nth i cls' [] = nth (f i) cls []) /\
    (forall i j, (i < length cls')%nat -> (j < length cls')%nat ->
       nth j (nth i (snd (dbi_terms nf cls')) []) d =
       nth (f j) (nth (f i) (snd (dbi_terms nf cls)) []) d).
Proof.
  intros H. apply (Permutation_nth cls cls' []) in H. cbv zeta in H.
  destruct H as (El & f & Hb & Hinj & Hnth). split; [ exact El | ].
  exists f. rewrite El. repeat split.
  - exact Hb.
  - exact Hinj.
  - exact Hnth.
  - intros i j Hi Hj.
    rewrite dbi_matrix_entry by (rewrite El; assumption).
    rewrite dbi_matrix_entry by (apply Hb; assumption).
    rewrite (Hnth i Hi), (Hnth j Hj). reflexivity.
Qed.

(* ------------------------------------------------------------------ *)
(* 3. CHI                                                              *)
(* ------------------------------------------------------------------ *)

Definition chi_global (nf : nat) (cls : list (list fpv)) : fpv :=
  centroid_fpv (colsum nf (concat cls)) (zlen (concat cls)).

Lemma chi_terms_spec nf cls k d : (k < length cls)%nat ->
  nth k (chi_terms nf cls) d =
  (let cl := nth k cls [] in
   let c := cl_centroid nf cl in
   let g := chi_global nf cls in
   (zlen cl, (1 - sim g c)%float, map (fun r => (1 - sim r c)%float) cl)).
Proof.
  intros Hk. rewrite chi_terms_unfold. fold (chi_global nf cls).
  rewrite (nth_map_lt _ _ _ cls k d []) by exact Hk. reflexivity.
Qed.

Lemma chi_terms_length nf cls : length (chi_terms nf cls) = length cls.
Proof. unfold chi_terms. cbv zeta. apply map_length. Qed.

Lemma chi_global_centroid_invariant nf cls cls' :
  (Permutation cls cls' -> chi_global nf cls' = chi_global nf cls) /\
  (Forall2 (fun a b => Permutation a b) cls cls' -> chi_global nf cls' = chi_global nf cls).
Proof.
  split; intros H; unfold chi_global; apply global_centroid_perm.
  - apply concat_perm. exact H.
  - apply concat_perm_rows. exact H.
Qed.

(* both at once: clusters reordered and rows reordered inside them *)
Lemma chi_global_centroid_invariant_both nf cls cls1 cls' :
  Forall2 (fun a b => Permutation a b) cls cls1 -> Permutation cls1 cls' ->
  chi_global nf cls' = chi_global nf cls.
Proof.
  intros H1 H2.
  rewrite (proj1 (chi_global_centroid_invariant nf cls1 cls') H2).
  apply (proj2 (chi_global_centroid_invariant nf cls cls1) H1).
Qed.

(* ------------------------------------------------------------------ *)
(* 4. Dunn: without singleton clusters no value is NaN                 *)
(* ------------------------------------------------------------------ *)

Lemma sub_finite_not_nan : forall x y,
  is_finite (Prim2B x) = true -> is_finite (Prim2B y) = true -> is_nan_f (x - y) = false.
Proof.
  intros x y Fx Fy. rewrite is_nan_f_B, sub_equiv.
  pose proof (Bminus_correct prec emax Hprec Hmax mode_NE (Prim2B x) (Prim2B y) Fx Fy) as H.
  destruct (Rlt_bool _ _) in H.
  - destruct H as (_ & F & _). destruct (Bminus _ _ _); try discriminate; reflexivity.
  - destruct H as (E & _). destruct (Bminus _ _ _); try reflexivity.
    unfold binary_overflow in E. cbn [B2SF] in E.
    destruct (overflow_to_inf _ _) in E; discriminate.
Qed.

Lemma colstep_bounds : forall (f : fpv) acc m,
  Forall (fun k => 0 <= k <= m) acc ->
  Forall (fun k => 0 <= k <= m + 1) (colstep acc f).
Proof.
  intros f acc m H. revert f. unfold colstep.
  induction H as [| a acc Ha _ IH]; intros [|b f]; cbn [map map2]; try constructor.
  - pose proof (b2z_range b). lia.
  - apply IH.
Qed.

Lemma fold_colstep_bounds : forall (rows : list fpv) acc m,
  Forall (fun k => 0 <= k <= m) acc ->
  Forall (fun k => 0 <= k <= m + zlen rows) (fold_left colstep rows acc).
Proof.
  induction rows as [|r rows IH]; intros acc m H; cbn [fold_left].
  - rewrite zlen_nil, Z.add_0_r. exact H.
  - rewrite zlen_cons, Z.add_assoc. apply IH. apply colstep_bounds. exact H.
Qed.

Lemma colsum_counts_ok nf (rows : list fpv) : counts_ok (colsum nf rows) (zlen rows).
Proof.
  rewrite colsum_fold. unfold counts_ok.
  apply (fold_colstep_bounds rows (repeat 0 nf) 0).
  apply Forall_forall. intros k Hk. apply repeat_spec in Hk. lia.
Qed.

Lemma fold_colstep_length_le : forall (rows : list fpv) acc,
  (length (fold_left colstep rows acc) <= length acc)%nat.
Proof.
  induction rows as [|r rows IH]; intros acc; cbn [fold_left]; [ lia | ].
  eapply Nat.le_trans; [ apply IH | ]. unfold colstep. rewrite map2_length. lia.
Qed.

Lemma colsum_length_le nf (rows : list fpv) : (length (colsum nf rows) <= nf)%nat.
Proof.
  rewrite colsum_fold. eapply Nat.le_trans; [ apply fold_colstep_length_le | ].
  rewrite repeat_length. lia.
Qed.

Lemma counts_ok_add : forall a b n1 n2, counts_ok a n1 -> counts_ok b n2 ->
  counts_ok (map2 Z.add a b) (n1 + n2).
Proof.
  unfold counts_ok. intros a b n1 n2 Ha. revert b.
  induction Ha as [| x a Hx _ IH]; intros b Hb; [ constructor | ].
  destruct Hb as [| y b Hy Hb]; cbn [map2]; constructor; [ lia | apply IH; exact Hb ].
Qed.

Lemma counts_ok_zsum_le : forall ks n, counts_ok ks n ->
  zsum ks <= n * Z.of_nat (length ks).
Proof.
  induction ks as [|k ks IH]; intros n H.
  - change (zsum []) with 0. cbn [length]. lia.
  - apply counts_ok_cons in H. destruct H as (Hk & H). specialize (IH n H).
    rewrite zsum_cons'. cbn [length]. rewrite Nat2Z.inj_succ. nia.
Qed.

Lemma isim_finite ks n nf : 2 <= n -> counts_ok ks n -> (length ks <= nf)%nat ->
  n * n * Z.of_nat nf < 2 ^ 52 ->
  is_finite (Prim2B (isim_f ks n)) = true.
Proof.
  intros Hn Hok Hl Hb.
  destruct (counts_bounds ks n Hok) as (H0 & _).
  pose proof (counts_ok_zsum_le ks n Hok) as Hs.
  destruct (Z.eq_dec (zsum ks) 0) as [Ez | Nz].
  - rewrite (isim_zero ks n Hn Hok Ez). apply one_spec.
  - assert (Hb' : n * zsum ks < 2 ^ 52).
    { remember (2 ^ 52) as B52. remember (zsum ks) as S.
      assert (Z.of_nat (length ks) <= Z.of_nat nf) by lia. nia. }
    destruct (isim_exact ks n Hn Hok ltac:(lia) Hb') as (_ & F & _). exact F.
Qed.

Lemma cl_isim_finite nf (cl : list fpv) : 2 <= zlen cl ->
  zlen cl * zlen cl * Z.of_nat nf < 2 ^ 52 ->
  is_finite (Prim2B (cl_isim nf cl)) = true.
Proof.
  intros Hn Hb. unfold cl_isim. apply (isim_finite _ _ nf); try assumption.
  - apply colsum_counts_ok.
  - apply colsum_length_le.
Qed.

Lemma pair_val_not_nan nf (c1 c2 : list fpv) : 1 <= zlen c1 -> 1 <= zlen c2 ->
  (zlen c1 + zlen c2) * (zlen c1 + zlen c2) * Z.of_nat nf < 2 ^ 52 ->
  is_nan_f (pair_val nf c1 c2) = false.
Proof.
  intros H1 H2 Hb. unfold pair_val. apply sub_finite_not_nan; [ apply one_spec | ].
  apply (isim_finite _ _ nf); try assumption; [ lia | | ].
  - apply counts_ok_add; apply colsum_counts_ok.
  - rewrite map2_length. pose proof (colsum_length_le nf c1). lia.
Qed.

Lemma sq_mul_mono : forall x y k, 0 <= x <= y -> 0 <= k -> x * x * k <= y * y * k.
Proof.
  intros x y k H Hk. assert (x * x <= y * y) by nia. apply Z.mul_le_mono_nonneg_r; assumption.
Qed.

(* every cluster has between 2 and B rows, and (2B)^2 * nf < 2^52: the hypotheses of
   dunn_cluster_order hold *)
Theorem dunn_no_singletons_no_nan nf (cls : list (list fpv)) B :
  Forall (fun cl => 2 <= zlen cl <= B) cls ->
  (2 * B) * (2 * B) * Z.of_nat nf < 2 ^ 52 ->
  no_nan (map (cl_isim nf) cls) /\ no_nan (pair_vals nf cls).
Proof.
  intros Hs Hb. remember (2 ^ 52) as B52.
  assert (Hpair : forall c1 c2, 2 <= zlen c1 <= B -> 2 <= zlen c2 <= B ->
            is_nan_f (pair_val nf c1 c2) = false).
  { intros c1 c2 H1 H2. apply pair_val_not_nan; try lia. rewrite <- HeqB52.
    pose proof (sq_mul_mono (zlen c1 + zlen c2) (2 * B) (Z.of_nat nf) ltac:(lia)
                  (Nat2Z.is_nonneg nf)). lia. }
  split.
  - unfold no_nan. apply Forall_forall. intros x Hx. apply in_map_iff in Hx.
    destruct Hx as (cl & <- & Hin). rewrite Forall_forall in Hs. specialize (Hs cl Hin).
    apply finite_not_nan. apply cl_isim_finite; [ lia | ]. rewrite <- HeqB52.
    pose proof (sq_mul_mono (zlen cl) (2 * B) (Z.of_nat nf) ltac:(lia) (Nat2Z.is_nonneg nf)). lia.
  - unfold no_nan. induction Hs as [| c tl Hc Htl IH]; [ constructor | ].
    cbn [pair_vals]. apply Forall_app. split; [ | exact IH ].
    apply Forall_forall. intros x Hx. apply in_map_iff in Hx.
    destruct Hx as (c2 & <- & Hin). rewrite Forall_forall in Htl.
    apply Hpair; [ exact Hc | apply Htl; exact Hin ].
Qed.

(* Dunn is (float-)equal for every order of the clusters when there is no singleton *)
Theorem dunn_cluster_order_no_singletons nf cls cls' B : Permutation cls cls' ->
  Forall (fun cl => 2 <= zlen cl <= B) cls ->
  (2 * B) * (2 * B) * Z.of_nat nf < 2 ^ 52 ->
  PrimFloat.eqb (dunn nf cls) (dunn nf cls') = true \/
  (is_nan_f (dunn nf cls) = true /\ is_nan_f (dunn nf cls') = true).
Proof.
  intros Hp Hs Hb. destruct (dunn_no_singletons_no_nan nf cls B Hs Hb) as (H1 & H2).
  apply dunn_cluster_order; assumption.
Qed.

(* ------------------------------------------------------------------ *)
(* Non-vacuity                                                         *)
(* ------------------------------------------------------------------ *)
Module Demo.
  Definition rows : list fpv :=
    [[true;true;false;false];[true;false;false;false];[true;true;true;false];
     [false;false;true;true];[false;true;true;true];[true;false;true;false]].
  Definition cls : list (list Z) := [[0;1;2];[3;4];[5]].
  Definition cls_perm : list (list Z) := [[5];[4;3];[2;0;1]].

  Example counts_demo :
    let a := cluster_analysis 4 rows cls (Some 2) 2 in
    a_total a = 6 /\ a_nclusters a = 3 /\ a_singletons a = 1 /\
    clusters_above a 1 = 2 /\ clusters_above a 2 = 1 /\
    a_sizes a = [3; 2] /\ a_all_sizes a = [3; 2; 1] /\
    zlen (filter (fun c => zlen c =? 1) cls) = 1 /\
    zlen (filter (fun c => 1 <? zlen c) cls) = 2 /\
    Permutation (concat cls) (zseq 0 6).
  Proof.
    vm_compute. repeat split.
    apply (Permutation_refl [0;1;2;3;4;5]).
  Qed.

  Example counts_perm_demo :
    let a := cluster_analysis 4 rows cls (Some 2) 2 in
    let a' := cluster_analysis 4 rows cls_perm (Some 2) 2 in
    a_total a = a_total a' /\ a_nclusters a = a_nclusters a' /\
    a_singletons a = a_singletons a' /\ clusters_above a 1 = clusters_above a' 1 /\
    a_sizes a <> a_sizes a'.
  Proof. vm_compute. repeat split. discriminate. Qed.

  Definition fcls : list (list fpv) := [AnalysisFacts.ex_a; AnalysisFacts.ex_b; AnalysisFacts.ex_s].

  Example dbi_matrix_demo :
    map (map (fun x => PrimFloat.eqb x 0)) (snd (dbi_terms 4 fcls)) =
      [[true;false;false];[false;true;false];[false;false;true]] /\
    length (chi_terms 4 fcls) = 3%nat.
  Proof. vm_compute. split; reflexivity. Qed.

  (* the lemmas themselves, applied *)
  Example counts_lemmas_demo :
    a_singletons (cluster_analysis 4 rows cls None 0) = 1 /\
    clusters_above (cluster_analysis 4 rows cls None 0) 1 = 2 /\
    a_total (cluster_analysis 4 rows cls None 0) = 6.
  Proof.
    rewrite analysis_singletons, analysis_clusters_above.
    rewrite (analysis_total_is_rows 4 rows cls None 0 6) by apply (Permutation_refl [0;1;2;3;4;5]).
    vm_compute. repeat split.
  Qed.

  (* the hypotheses of dunn_no_singletons_no_nan are satisfiable *)
  Example dunn_no_singletons_demo :
    Forall (fun cl : list fpv => 2 <= zlen cl <= 3) [AnalysisFacts.ex_a; AnalysisFacts.ex_b] /\
    (2 * 3) * (2 * 3) * Z.of_nat 4 < 2 ^ 52 /\
    no_nan (map (cl_isim 4) [AnalysisFacts.ex_a; AnalysisFacts.ex_b]) /\
    no_nan (pair_vals 4 [AnalysisFacts.ex_a; AnalysisFacts.ex_b]).
  Proof.
    assert (H1 : Forall (fun cl : list fpv => 2 <= zlen cl <= 3)
                   [AnalysisFacts.ex_a; AnalysisFacts.ex_b]).
    { repeat constructor; vm_compute; discriminate. }
    assert (H2 : (2 * 3) * (2 * 3) * Z.of_nat 4 < 2 ^ 52) by reflexivity.
    split; [ exact H1 | split; [ exact H2 | ] ].
    exact (dunn_no_singletons_no_nan 4 _ 3 H1 H2).
  Qed.
End Demo.

