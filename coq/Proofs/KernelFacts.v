(* KernelFacts.v — argmin/argmax correctness, ranges of the similarity kernels,
   similarity matrix, most-dissimilar search, medoid, packed exactness. *)
From BB Require Import Model.Sim.
From BB Require Import Proofs.ListFacts Proofs.BitsFacts Proofs.FloatFacts.
From Coq Require Import ZArith List Bool Reals Lia Lra.
From Flocq Require Import Core BinarySingleNaN.
From Flocq Require Import IEEE754.PrimFloat.
Import ListNotations.
Open Scope Z_scope.

#[local] Existing Instance Hprec.
#[local] Existing Instance Hmax.

(* ------------------------------------------------------------------ *)
(* A. ltb on non-NaN floats is a strict weak order (through a real key) *)
(* ------------------------------------------------------------------ *)

Definition no_nan (l : list PrimFloat.float) := Forall (fun x => is_nan_f x = false) l.

(* order-embedding of the non-NaN binary floats into R: infinities go to
   +-2^emax, which no finite float reaches *)
Definition bkey (x : binary_float prec emax) : R :=
  match x with
  | B754_infinity true => (- bpow radix2 emax)%R
  | B754_infinity false => bpow radix2 emax
  | _ => B2R x
  end.
Definition fkey (x : PrimFloat.float) : R := bkey (Prim2B x).

Lemma bkey_finite : forall x, is_finite x = true -> bkey x = B2R x.
Proof. intros [s|s| |s m e B]; simpl; intros H; try discriminate; reflexivity. Qed.

Lemma Bltb_key : forall x y, is_nan x = false -> is_nan y = false ->
  Bltb x y = Rlt_bool (bkey x) (bkey y).
Proof.
  intros x y Nx Ny.
  destruct (is_finite x) eqn:Fx; destruct (is_finite y) eqn:Fy.
  - rewrite Bltb_correct, !bkey_finite by assumption. reflexivity.
  - (* y infinite *)
    destruct y as [sy|sy| |sy my ey By]; try discriminate.
    pose proof (abs_B2R_lt_emax prec emax x) as Hx.
    apply Rabs_lt_inv in Hx.
    rewrite (bkey_finite x Fx).
    destruct sy; cbn [bkey].
    + rewrite Rlt_bool_false by lra.
      destruct x as [sx|sx| |sx mx ex Bx]; try discriminate; try reflexivity.
      all: try (destruct sx; reflexivity).
    + rewrite Rlt_bool_true by lra.
      destruct x as [sx|sx| |sx mx ex Bx]; try discriminate; try reflexivity.
      all: try (destruct sx; reflexivity).
  - destruct x as [sx|sx| |sx mx ex Bx]; try discriminate.
    pose proof (abs_B2R_lt_emax prec emax y) as Hy.
    apply Rabs_lt_inv in Hy.
    rewrite (bkey_finite y Fy).
    destruct sx; cbn [bkey].
    + rewrite Rlt_bool_true by lra.
      destruct y as [sy|sy| |sy my ey By]; try discriminate; try reflexivity.
      all: try (destruct sy; reflexivity).
    + rewrite Rlt_bool_false by lra.
      destruct y as [sy|sy| |sy my ey By]; try discriminate; try reflexivity.
      all: try (destruct sy; reflexivity).
  - destruct x as [sx|sx| |sx mx ex Bx]; try discriminate.
    destruct y as [sy|sy| |sy my ey By]; try discriminate.
    pose proof (bpow_gt_0 radix2 emax) as Hp.
    destruct sx, sy; cbn [bkey].
    + rewrite Rlt_bool_false by lra. reflexivity.
    + rewrite Rlt_bool_true by lra. reflexivity.
    + rewrite Rlt_bool_false by lra. reflexivity.
    + rewrite Rlt_bool_false by lra. reflexivity.
Qed.

Lemma is_nan_f_B : forall x, is_nan_f x = is_nan (Prim2B x).
Proof.
  intros x. unfold is_nan_f. rewrite eqb_equiv, Beqb_refl, negb_involutive. reflexivity.
Qed.

Lemma ltb_key : forall x y, is_nan_f x = false -> is_nan_f y = false ->
  PrimFloat.ltb x y = Rlt_bool (fkey x) (fkey y).
Proof.
  intros x y Nx Ny. rewrite is_nan_f_B in Nx, Ny.
  rewrite ltb_equiv. apply Bltb_key; assumption.
Qed.

Lemma ltb_true_key : forall x y, is_nan_f x = false -> is_nan_f y = false ->
  PrimFloat.ltb x y = true <-> (fkey x < fkey y)%R.
Proof.
  intros x y Nx Ny. rewrite ltb_key by assumption.
  destruct (Rlt_bool_spec (fkey x) (fkey y)); split; intros; try reflexivity;
    try assumption; try discriminate; lra.
Qed.

Lemma ltb_false_key : forall x y, is_nan_f x = false -> is_nan_f y = false ->
  PrimFloat.ltb x y = false <-> (fkey y <= fkey x)%R.
Proof.
  intros x y Nx Ny. rewrite ltb_key by assumption.
  destruct (Rlt_bool_spec (fkey x) (fkey y)); split; intros; try reflexivity;
    try assumption; try discriminate; lra.
Qed.

(* the strict-weak-order facts, for the record *)
Lemma ltb_irrefl : forall x, PrimFloat.ltb x x = false.
Proof.
  intros x. destruct (is_nan_f x) eqn:N.
  - rewrite is_nan_f_B in N. rewrite ltb_equiv.
    destruct (Prim2B x); try discriminate. reflexivity.
  - apply ltb_false_key; auto. lra.
Qed.

Lemma ltb_trans : forall a b c,
  is_nan_f a = false -> is_nan_f b = false -> is_nan_f c = false ->
  PrimFloat.ltb a b = true -> PrimFloat.ltb b c = true -> PrimFloat.ltb a c = true.
Proof.
  intros a b c Na Nb Nc H1 H2.
  apply ltb_true_key in H1; auto. apply ltb_true_key in H2; auto.
  apply ltb_true_key; auto. lra.
Qed.

Lemma ltb_neg_trans : forall a b c,
  is_nan_f a = false -> is_nan_f b = false -> is_nan_f c = false ->
  PrimFloat.ltb a b = false -> PrimFloat.ltb b c = false -> PrimFloat.ltb a c = false.
Proof.
  intros a b c Na Nb Nc H1 H2.
  apply ltb_false_key in H1; auto. apply ltb_false_key in H2; auto.
  apply ltb_false_key; auto. lra.
Qed.

(* generic first-extremum search *)
Section ArgBest.
  Variable better : PrimFloat.float -> PrimFloat.float -> bool.
  Variable key : PrimFloat.float -> R.
  Hypothesis better_key : forall x b, is_nan_f x = false -> is_nan_f b = false ->
    better x b = Rlt_bool (key x) (key b).

  Lemma argbest_spec : forall tl pre best bv,
    no_nan (pre ++ tl) ->
    (best < length pre)%nat -> nth best pre 0%float = bv ->
    (forall j, (j < length pre)%nat -> (key bv <= key (nth j pre 0%float))%R) ->
    (forall j, (j < best)%nat -> (key bv < key (nth j pre 0%float))%R) ->
    let r := argbest better tl (length pre) best bv in
    let L := pre ++ tl in
    (r < length L)%nat /\
    (forall j, (j < length L)%nat -> (key (nth r L 0%float) <= key (nth j L 0%float))%R) /\
    (forall j, (j < r)%nat -> (key (nth r L 0%float) < key (nth j L 0%float))%R).
  Proof.
    induction tl as [|x tl IH]; intros pre best bv NN Hb Hbv Hmin Hfirst.
    - cbn [argbest]. rewrite app_nil_r. rewrite Hbv. auto.
    - cbn [argbest].
      assert (Nbv : is_nan_f bv = false).
      { unfold no_nan in NN. rewrite Forall_forall in NN. apply NN.
        apply in_or_app. left. rewrite <- Hbv. apply nth_In. exact Hb. }
      assert (Nx : is_nan_f x = false).
      { unfold no_nan in NN. rewrite Forall_forall in NN. apply NN.
        apply in_or_app. right. left. reflexivity. }
      assert (EL : pre ++ x :: tl = (pre ++ [x]) ++ tl)
        by (rewrite <- app_assoc; reflexivity).
      assert (Elen : length (pre ++ [x]) = S (length pre))
        by (rewrite app_length; cbn; lia).
      rewrite better_key by assumption.
      destruct (Rlt_bool_spec (key x) (key bv)) as [Hlt | Hge].
      + specialize (IH (pre ++ [x]) (length pre) x).
        rewrite Elen, <- EL in IH. apply IH.
        * exact NN.
        * lia.
        * rewrite app_nth2 by lia. rewrite Nat.sub_diag. reflexivity.
        * intros j Hj. destruct (Nat.eq_dec j (length pre)) as [-> | Hne].
          -- rewrite app_nth2 by lia. rewrite Nat.sub_diag. cbn. lra.
          -- rewrite app_nth1 by lia. specialize (Hmin j ltac:(lia)). lra.
        * intros j Hj. rewrite app_nth1 by lia. specialize (Hmin j Hj). lra.
      + specialize (IH (pre ++ [x]) best bv).
        rewrite Elen, <- EL in IH. apply IH.
        * exact NN.
        * lia.
        * rewrite app_nth1 by lia. exact Hbv.
        * intros j Hj. destruct (Nat.eq_dec j (length pre)) as [-> | Hne].
          -- rewrite app_nth2 by lia. rewrite Nat.sub_diag. cbn. lra.
          -- rewrite app_nth1 by lia. apply Hmin. lia.
        * intros j Hj. rewrite app_nth1 by lia. apply Hfirst. exact Hj.
  Qed.

  Lemma argbest_head_spec : forall x tl, no_nan (x :: tl) ->
    let L := x :: tl in
    let r := argbest better tl 1%nat O x in
    (r < length L)%nat /\
    (forall j, (j < length L)%nat -> (key (nth r L 0%float) <= key (nth j L 0%float))%R) /\
    (forall j, (j < r)%nat -> (key (nth r L 0%float) < key (nth j L 0%float))%R).
  Proof.
    intros x tl NN.
    apply (argbest_spec tl [x] O x); cbn [length app nth].
    - exact NN.
    - lia.
    - reflexivity.
    - intros j Hj. assert (j = O) by lia. subst j. lra.
    - intros j Hj. lia.
  Qed.
End ArgBest.

Lemma no_nan_nth : forall l j, no_nan l -> (j < length l)%nat ->
  is_nan_f (nth j l 0%float) = false.
Proof.
  intros l j NN Hj. unfold no_nan in NN. rewrite Forall_forall in NN.
  apply NN, nth_In, Hj.
Qed.

Lemma argmin_f_min l : l <> [] -> no_nan l ->
  let i := argmin_f l in
  (i < length l)%nat /\
  (forall j, (j < length l)%nat ->
     PrimFloat.ltb (nth j l 0%float) (nth i l 0%float) = false) /\
  (forall j, (j < i)%nat ->
     PrimFloat.ltb (nth i l 0%float) (nth j l 0%float) = true).
Proof.
  intros Hne NN.
  destruct l as [|x tl]; [ congruence | ].
  unfold argmin_f.
  destruct (argbest_head_spec
              (fun x b => negb (is_nan_f b) && (is_nan_f x || PrimFloat.ltb x b))
              fkey) with (x := x) (tl := tl) as (H1 & H2 & H3).
  - intros a b Na Nb. rewrite Na, Nb. cbn. apply ltb_key; assumption.
  - exact NN.
  - cbv zeta. split; [ exact H1 | split ].
    + intros j Hj. apply ltb_false_key.
      * apply no_nan_nth; assumption.
      * apply no_nan_nth; assumption.
      * apply H2. exact Hj.
    + intros j Hj. apply ltb_true_key.
      * apply no_nan_nth; assumption.
      * apply no_nan_nth; [ assumption | lia ].
      * apply H3. exact Hj.
Qed.

Lemma argmax_f_max l : l <> [] -> no_nan l ->
  let i := argmax_f l in
  (i < length l)%nat /\
  (forall j, (j < length l)%nat ->
     PrimFloat.ltb (nth i l 0%float) (nth j l 0%float) = false) /\
  (forall j, (j < i)%nat ->
     PrimFloat.ltb (nth j l 0%float) (nth i l 0%float) = true).
Proof.
  intros Hne NN.
  destruct l as [|x tl]; [ congruence | ].
  unfold argmax_f.
  destruct (argbest_head_spec
              (fun x b => negb (is_nan_f b) && (is_nan_f x || PrimFloat.ltb b x))
              (fun x => (- fkey x)%R)) with (x := x) (tl := tl) as (H1 & H2 & H3).
  - intros a b Na Nb. rewrite Na, Nb. cbn. rewrite ltb_key by assumption.
    destruct (Rlt_bool_spec (fkey b) (fkey a));
      destruct (Rlt_bool_spec (- fkey a) (- fkey b)); try reflexivity; lra.
  - exact NN.
  - cbv zeta. split; [ exact H1 | split ].
    + intros j Hj. apply ltb_false_key.
      * apply no_nan_nth; assumption.
      * apply no_nan_nth; assumption.
      * specialize (H2 j Hj). cbv beta in H2. lra.
    + intros j Hj. apply ltb_true_key.
      * apply no_nan_nth; [ assumption | lia ].
      * apply no_nan_nth; assumption.
      * specialize (H3 j Hj). cbv beta in H3. lra.
Qed.

(* ------------------------------------------------------------------ *)
(* B. range of sim                                                     *)
(* ------------------------------------------------------------------ *)

Lemma finite_not_nan : forall x, is_finite (Prim2B x) = true -> is_nan_f x = false.
Proof.
  intros x F. rewrite is_nan_f_B. destruct (Prim2B x); try discriminate; reflexivity.
Qed.

Lemma tanimoto_range : forall i ca cb,
  0 <= i -> i <= ca -> i <= cb -> ca + cb < 2 ^ 53 ->
  is_nan_f (tanimoto_f i ca cb) = false /\
  PrimFloat.leb 0 (tanimoto_f i ca cb) = true /\
  PrimFloat.leb (tanimoto_f i ca cb) 1 = true.
Proof.
  intros i ca cb H0 Ha Hb Hs. unfold tanimoto_f.
  remember (Z.max (ca + cb - i) 1) as d eqn:Ed.
  assert (Hd : 1 <= d < 2 ^ 53) by lia.
  assert (Hid : i <= d) by lia.
  destruct (div_spec_int i d) as (F & R & S); [ lia | lia | ].
  destruct one_spec as (F1 & R1 & S1).
  assert (F0 : is_finite (Prim2B 0%float) = true) by (rewrite Prim2B_zero; reflexivity).
  assert (R0 : B2R (Prim2B 0%float) = 0%R) by (rewrite Prim2B_zero; reflexivity).
  assert (Hd' : (1 <= IZR d)%R) by (apply IZR_le; lia).
  assert (Hi0 : (0 <= IZR i)%R) by (apply IZR_le; lia).
  assert (Hi' : (IZR i <= IZR d)%R) by (apply IZR_le; lia).
  destruct (quot_bounds i d) as (Q0 & _); [ lia | lia | ].
  split; [ apply finite_not_nan; exact F | split ].
  - rewrite leb_equiv, Bleb_correct by assumption.
    rewrite R, R0. apply Rle_bool_true.
    rewrite <- rnd64_0. apply rnd64_le. exact Q0.
  - rewrite leb_equiv, Bleb_correct by assumption.
    rewrite R, R1. apply Rle_bool_true.
    rewrite <- rnd64_1. apply rnd64_le.
    apply Rmult_le_reg_r with (IZR d); [ lra | ].
    unfold Rdiv. rewrite Rmult_assoc, Rinv_l by lra. lra.
Qed.

Lemma sim_range a b :
  (Z.of_nat (length a) < 2^52)%Z -> (Z.of_nat (length b) < 2^52)%Z ->
  is_nan_f (sim a b) = false /\
  PrimFloat.leb 0 (sim a b) = true /\ PrimFloat.leb (sim a b) 1 = true.
Proof.
  intros La Lb. unfold sim.
  pose proof (card_range a) as Ha. pose proof (card_range b) as Hb.
  pose proof (card_andv_nonneg a b) as Hi0.
  pose proof (card_andv_le_l a b) as Hia.
  pose proof (card_andv_le_r a b) as Hib.
  change (2 ^ 52) with 4503599627370496 in La, Lb.
  apply tanimoto_range; try assumption.
  change (2 ^ 53) with 9007199254740992. lia.
Qed.

(* ------------------------------------------------------------------ *)
(* C. similarity matrix                                                *)
(* ------------------------------------------------------------------ *)

Lemma nth_map_seq : forall (A : Type) (f : nat -> A) n k d, (k < n)%nat ->
  nth k (map f (seq 0 n)) d = f k.
Proof.
  intros A f n k d Hk.
  rewrite (nth_indep _ d (f O)) by (rewrite map_length, seq_length; exact Hk).
  rewrite map_nth. rewrite seq_nth by exact Hk. reflexivity.
Qed.

Lemma sim_matrix_entry X i j : (i < length X)%nat -> (j < length X)%nat ->
  nth j (nth i (sim_matrix_packed X) []) 0%float =
  if Nat.eqb i j then 1%float
  else sim_packed (nth (Nat.min i j) X []) (nth (Nat.max i j) X []).
Proof.
  intros Hi Hj. unfold sim_matrix_packed.
  rewrite nth_map_seq by exact Hi.
  rewrite nth_map_seq by exact Hj. reflexivity.
Qed.

Lemma sim_matrix_sym X i j : (i < length X)%nat -> (j < length X)%nat ->
  nth j (nth i (sim_matrix_packed X) []) 0%float =
  nth i (nth j (sim_matrix_packed X) []) 0%float.
Proof.
  intros Hi Hj. rewrite !sim_matrix_entry by assumption.
  rewrite (Nat.eqb_sym j i), (Nat.min_comm j i), (Nat.max_comm j i). reflexivity.
Qed.

Lemma pack_nil : pack [] = [].
Proof. reflexivity. Qed.

Lemma sim_matrix_pairwise (nf : nat) rows i j :
  (forall r, In r rows -> length r = nf) -> Z.of_nat nf < 2^30 ->
  (i < length rows)%nat -> (j < length rows)%nat -> i <> j ->
  nth j (nth i (sim_matrix_packed (map pack rows)) []) 0%float =
  sim (nth i rows []) (nth j rows []).
Proof.
  intros Hlen Hnf Hi Hj Hne.
  rewrite sim_matrix_entry by (rewrite map_length; assumption).
  destruct (Nat.eqb_spec i j) as [E | _]; [ contradiction | ].
  rewrite <- pack_nil at 1 2. rewrite !map_nth.
  assert (Hl : forall k, (k < length rows)%nat -> length (nth k rows []) = nf).
  { intros k Hk. apply Hlen, nth_In, Hk. }
  rewrite sim_packed_pack.
  - destruct (Nat.le_ge_cases i j) as [Hij | Hij].
    + rewrite Nat.min_l, Nat.max_r by lia. reflexivity.
    + rewrite Nat.min_r, Nat.max_l by lia. apply FloatFacts.sim_sym.
  - rewrite !Hl by lia. reflexivity.
  - rewrite Hl by lia. exact Hnf.
Qed.

(* ------------------------------------------------------------------ *)
(* D. most dissimilar                                                  *)
(* ------------------------------------------------------------------ *)

Lemma map_nonnil : forall (A B : Type) (f : A -> B) l, l <> [] -> map f l <> [].
Proof. intros A B f [|x l] H; [ congruence | discriminate ]. Qed.

Lemma most_dissimilar_spec nf Y f1 f2 s1 s2 : Y <> [] ->
  most_dissimilar nf Y = (f1, f2, s1, s2) ->
  (f1 < length Y)%nat /\ (f2 < length Y)%nat /\
  s1 = map (fun y => sim y (nth f1 Y [])) Y /\
  s2 = map (fun y => sim y (nth f2 Y [])) Y /\
  f2 = argmin_f s1.
Proof.
  intros HY E. unfold most_dissimilar in E. cbv zeta in E.
  assert (AL : forall f : fpv -> PrimFloat.float, (argmin_f (map f Y) < length Y)%nat).
  { intros f. rewrite <- (map_length f Y). apply argmin_f_lt, map_nonnil, HY. }
  remember (argmin_f (map (fun y => sim y (centroid_fpv (colsum nf Y) (zlen Y))) Y))
    as g1 eqn:G1.
  injection E as E1 E2 E3 E4.
  subst f1. subst s1. subst f2. subst s2.
  split; [ rewrite G1; apply AL | ].
  split; [ apply AL | ].
  repeat split; reflexivity.
Qed.

(* ------------------------------------------------------------------ *)
(* E. medoid                                                           *)
(* ------------------------------------------------------------------ *)

Lemma compl_isim_length : forall nf rows, length (compl_isim nf rows) = length rows.
Proof.
  intros nf rows. unfold compl_isim.
  destruct (zlen rows - 1 <? 2); apply map_length.
Qed.

Lemma medoid_spec nf rows : (3 <= length rows)%nat -> no_nan (compl_isim nf rows) ->
  let i := medoid_index nf rows in
  let cs := compl_isim nf rows in
  (i < length rows)%nat /\
  (forall j, (j < length rows)%nat ->
     PrimFloat.ltb (nth j cs 0%float) (nth i cs 0%float) = false) /\
  (forall j, (j < i)%nat ->
     PrimFloat.ltb (nth i cs 0%float) (nth j cs 0%float) = true).
Proof.
  intros Hlen NN. cbv zeta. unfold medoid_index.
  destruct (zlen rows <? 3) eqn:E.
  - apply Z.ltb_lt in E. unfold zlen in E. lia.
  - assert (Hne : compl_isim nf rows <> []).
    { intros H0. apply (f_equal (@length _)) in H0.
      rewrite compl_isim_length in H0. cbn in H0. lia. }
    destruct (argmin_f_min _ Hne NN) as (H1 & H2 & H3).
    rewrite compl_isim_length in H1, H2.
    split; [ exact H1 | split; [ exact H2 | exact H3 ] ].
Qed.

Lemma medoid_small nf rows : (length rows < 3)%nat -> medoid_index nf rows = O.
Proof.
  intros H. unfold medoid_index.
  destruct (zlen rows <? 3) eqn:E; [ reflexivity | ].
  apply Z.ltb_ge in E. unfold zlen in E. lia.
Qed.

(* ------------------------------------------------------------------ *)
(* F. packed exactness                                                 *)
(* ------------------------------------------------------------------ *)

Lemma sim_packed_exact a b : length a = length b -> Z.of_nat (length a) < 2^30 ->
  0 < card (map2 orb a b) ->
  is_finite (Prim2B (sim_packed (pack a) (pack b))) = true /\
  B2R (Prim2B (sim_packed (pack a) (pack b))) =
    rnd64 (IZR (card (andv a b)) / IZR (card (map2 orb a b)))%R.
Proof.
  intros H Hn Hpos.
  rewrite sim_packed_pack by assumption.
  rewrite card_incl_excl in * by exact H.
  pose proof (card_andv_le a b) as (Hia & Hib).
  pose proof (card_bounds a) as Ha. pose proof (card_bounds b) as Hb.
  pose proof (card_bounds (andv a b)) as Hi.
  change (2 ^ 30) with 1073741824 in Hn.
  unfold sim, tanimoto_f. rewrite Z.max_l by lia.
  destruct (div_spec_int (card (andv a b)) (card a + card b - card (andv a b)))
    as (F & R & _).
  - change (2 ^ 53) with 9007199254740992. lia.
  - change (2 ^ 53) with 9007199254740992. lia.
  - split; [ exact F | exact R ].
Qed.

Lemma sim_packed_empty a b : length a = length b -> Z.of_nat (length a) < 2^30 ->
  card (map2 orb a b) = 0 -> sim_packed (pack a) (pack b) = 0%float.
Proof.
  intros H Hn Hz.
  rewrite sim_packed_pack by assumption.
  rewrite card_incl_excl in Hz by exact H.
  pose proof (card_andv_le a b) as (Hia & Hib).
  pose proof (card_bounds a) as Ha. pose proof (card_bounds b) as Hb.
  pose proof (card_bounds (andv a b)) as Hi.
  unfold sim.
  assert (Ea : card a = 0) by lia.
  assert (Eb : card b = 0) by lia.
  assert (Ei : card (andv a b) = 0) by lia.
  rewrite Ea, Eb, Ei. apply tanimoto_empty.
Qed.

Print Assumptions argmin_f_min.
Print Assumptions argmax_f_max.
Print Assumptions sim_range.
Print Assumptions sim_matrix_entry.
Print Assumptions sim_matrix_sym.
Print Assumptions sim_matrix_pairwise.
Print Assumptions most_dissimilar_spec.
Print Assumptions medoid_spec.
Print Assumptions medoid_small.
Print Assumptions sim_packed_exact.
Print Assumptions sim_packed_empty.
