(* FpsFacts.v — facts about the fingerprint-file utilities of Model/FpsUtil.v:
   batching, ranges, global-index lookup over file sequences, decimal rendering, part names,
   split/merge, parse_num_per_batch. *)
From BB Require Import Model.FpsUtil.
From Coq Require Import String Ascii Lia ZifyNat ZifyBool Arith.
Open Scope Z_scope.

(* ====================================================================================== *)
(* 1. batched                                                                             *)
(* ====================================================================================== *)

Lemma batched_fuel_irrel {A} n : (0 < n)%nat ->
  forall f1 f2 (l : list A), (List.length l <= f1)%nat -> (List.length l <= f2)%nat ->
  batched_fuel f1 n l = batched_fuel f2 n l.
Proof.
  intros Hn. induction f1 as [|f1 IH]; intros f2 l H1 H2.
  - destruct l; [|simpl in H1; lia]. destruct f2; reflexivity.
  - destruct f2 as [|f2].
    + destruct l; [reflexivity|simpl in H2; lia].
    + simpl. destruct l as [|a l]; [reflexivity|].
      f_equal. apply IH; rewrite skipn_length; simpl List.length in *; lia.
Qed.

(* the clean recursive characterisation of [batched] *)
Lemma batched_unfold {A} n (l : list A) : (0 < n)%nat ->
  batched n l = match l with [] => [] | _ => firstn n l :: batched n (skipn n l) end.
Proof.
  intros Hn. unfold batched. destruct l as [|a l]; [reflexivity|].
  simpl List.length. cbn [batched_fuel]. f_equal.
  apply batched_fuel_irrel; auto; rewrite skipn_length; simpl List.length; lia.
Qed.

(* strong induction on the length, packaged for [batched] *)
Lemma batched_ind {A} n (P : list A -> list (list A) -> Prop) : (0 < n)%nat ->
  P [] [] ->
  (forall l, l <> [] -> P (skipn n l) (batched n (skipn n l)) ->
             P l (firstn n l :: batched n (skipn n l))) ->
  forall l, P l (batched n l).
Proof.
  intros Hn H0 HS l.
  remember (List.length l) as m eqn:Hm. revert l Hm.
  induction m as [m IH] using lt_wf_ind. intros l Hm.
  rewrite batched_unfold by auto. destruct l as [|a l]; [exact H0|].
  apply HS; [discriminate|]. apply (IH (List.length (skipn n (a :: l)))); auto.
  rewrite skipn_length. subst m. simpl List.length. lia.
Qed.

Lemma batched_concat {A} n (l : list A) : (0 < n)%nat -> List.concat (batched n l) = l.
Proof.
  intros Hn. apply (batched_ind n (fun l bs => List.concat bs = l)); auto.
  intros l0 _ IH. simpl. rewrite IH. apply firstn_skipn.
Qed.

Lemma batched_sizes {A} n (l : list A) : (0 < n)%nat ->
  Forall (fun b => (1 <= List.length b <= n)%nat) (batched n l).
Proof.
  intros Hn. apply (batched_ind n (fun _ bs => Forall (fun b => (1 <= List.length b <= n)%nat) bs)); auto.
  intros l0 Hne IH. constructor; auto.
  rewrite firstn_length. destruct l0; [congruence|]. simpl List.length. lia.
Qed.

Lemma batched_length {A} n (l : list A) : (0 < n)%nat ->
  List.length (batched n l) = Nat.div (List.length l + n - 1) n.
Proof.
  intros Hn.
  apply (batched_ind n (fun l bs => List.length bs = Nat.div (List.length l + n - 1) n)); auto.
  - simpl. symmetry. apply Nat.div_small. lia.
  - intros l0 Hne IH. simpl List.length. rewrite IH. rewrite skipn_length.
    assert (Hl : (1 <= List.length l0)%nat) by (destruct l0; [congruence|simpl; lia]).
    destruct (le_lt_dec (List.length l0) n) as [Hle|Hgt].
    + replace (List.length l0 - n)%nat with 0%nat by lia.
      rewrite (Nat.div_small (0 + n - 1) n) by lia.
      apply (Nat.div_unique _ n 1%nat (List.length l0 - 1)%nat); lia.
    + replace (List.length l0 + n - 1)%nat with ((List.length l0 - n + n - 1) + 1 * n)%nat by lia.
      rewrite Nat.div_add by lia. lia.
Qed.

(* all batches but the last are full *)
Lemma batched_full {A} n (l : list A) : (0 < n)%nat ->
  forall k, (S k < List.length (batched n l))%nat ->
  List.length (nth k (batched n l) []) = n.
Proof.
  intros Hn.
  apply (batched_ind n (fun _ bs => forall k, (S k < List.length bs)%nat ->
                                   List.length (nth k bs []) = n)); auto.
  - simpl. intros; lia.
  - intros l0 Hne IH k Hk. simpl List.length in Hk. destruct k as [|k].
    + simpl. rewrite firstn_length.
      (* the tail is non-empty, hence skipn n l0 is non-empty, hence n <= length l0 *)
      destruct (le_lt_dec n (List.length l0)) as [Hle|Hgt]; [lia|].
      rewrite (skipn_all2 l0) in Hk by lia. rewrite batched_unfold in Hk by auto.
      simpl in Hk. lia.
    + simpl. apply IH. lia.
Qed.

Lemma skipn_add {A} a b (l : list A) : skipn a (skipn b l) = skipn (b + a) l.
Proof.
  revert l. induction b as [|b IH]; intros l; [reflexivity|].
  destruct l; [simpl; apply skipn_nil|]. simpl. apply IH.
Qed.

(* the k-th batch is the k-th window of the input *)
Lemma batched_nth {A} n (l : list A) : (0 < n)%nat ->
  forall k, (k < List.length (batched n l))%nat ->
  nth k (batched n l) [] = firstn n (skipn (k * n) l).
Proof.
  intros Hn.
  apply (batched_ind n (fun l bs => forall k, (k < List.length bs)%nat ->
                                   nth k bs [] = firstn n (skipn (k * n) l))); auto.
  - simpl. intros; lia.
  - intros l0 Hne IH k Hk. destruct k as [|k]; [reflexivity|].
    simpl List.length in Hk. simpl nth. rewrite IH by lia.
    rewrite skipn_add. reflexivity.
Qed.

(* ====================================================================================== *)
(* 2. ranges                                                                              *)
(* ====================================================================================== *)

Lemma zlen_app {A} (a b : list A) : zlen (a ++ b)%list = zlen a + zlen b.
Proof. unfold zlen. rewrite app_length. lia. Qed.
Lemma zlen_nonneg {A} (a : list A) : 0 <= zlen a.
Proof. unfold zlen. lia. Qed.
Lemma zlen_cons {A} (x : A) (a : list A) : zlen (x :: a) = 1 + zlen a.
Proof. unfold zlen. simpl List.length. lia. Qed.

Lemma with_ranges_snd {A} s (bs : list (list A)) : map snd (with_ranges s bs) = bs.
Proof. revert s. induction bs; intros; simpl; f_equal; auto. Qed.

Lemma with_ranges_width {A} (bs : list (list A)) s r b :
  In (r, b) (with_ranges s bs) -> snd r - fst r = zlen b.
Proof.
  revert s. induction bs as [|b0 bs IH]; intros s H; simpl in H; [tauto|].
  destruct H as [H|H]; [inversion H; subst; simpl; lia|eauto].
Qed.

Lemma with_ranges_ge {A} (bs : list (list A)) s r b :
  In (r, b) (with_ranges s bs) -> s <= fst r.
Proof.
  revert s. induction bs as [|b0 bs IH]; intros s H; simpl in H; [tauto|].
  destruct H as [H|H]; [inversion H; subst; simpl; lia|].
  apply IH in H. pose proof (zlen_nonneg b0). lia.
Qed.

Lemma with_ranges_consecutive {A} (bs : list (list A)) s k r1 b1 r2 b2 :
  nth_error (with_ranges s bs) k = Some (r1, b1) ->
  nth_error (with_ranges s bs) (S k) = Some (r2, b2) -> fst r2 = snd r1.
Proof.
  revert s k. induction bs as [|b0 bs IH]; intros s k H1 H2; [destruct k; discriminate|].
  destruct k as [|k].
  - simpl in H1. inversion H1; subst. destruct bs; simpl in H2; [discriminate|].
    inversion H2; subst. reflexivity.
  - simpl in H1, H2. eapply IH; eauto.
Qed.

Lemma with_ranges_last {A} (bs : list (list A)) s d : bs <> [] ->
  snd (fst (last (with_ranges s bs) d)) = s + zlen (List.concat bs).
Proof.
  revert s. induction bs as [|b0 bs IH]; intros s H; [congruence|].
  destruct bs as [|b1 bs].
  - simpl. rewrite app_nil_r. reflexivity.
  - change (with_ranges s (b0 :: b1 :: bs))
      with (((s, s + zlen b0), b0) :: with_ranges (s + zlen b0) (b1 :: bs)).
    change (last (?x :: with_ranges ?s' (b1 :: bs)) d) with (last (with_ranges s' (b1 :: bs)) d).
    rewrite IH by discriminate.
    change (List.concat (b0 :: b1 :: bs)) with (b0 ++ List.concat (b1 :: bs))%list.
    rewrite zlen_app. lia.
Qed.

Lemma ranges_tile {A} n (l : list A) : (0 < n)%nat ->
  let rb := ranges_batches n l in
  List.concat (map snd rb) = l /\
  (forall r b, In (r, b) rb -> snd r - fst r = zlen b) /\
  (forall k r1 b1 r2 b2, nth_error rb k = Some (r1, b1) ->
                         nth_error rb (S k) = Some (r2, b2) -> fst r2 = snd r1) /\
  (match rb with (r, _) :: _ => fst r = 0 | [] => True end) /\
  (match rb with [] => True | _ => snd (fst (last rb ((0,0),[]))) = zlen l end).
Proof.
  intros Hn rb. subst rb. unfold ranges_batches. repeat split.
  - rewrite with_ranges_snd. apply batched_concat; auto.
  - intros r b. apply with_ranges_width.
  - intros k r1 b1 r2 b2. apply with_ranges_consecutive.
  - destruct (batched n l); simpl; auto.
  - pose proof (batched_concat n l Hn) as Hc.
    destruct (batched n l) as [|b0 bs] eqn:E; [exact I|].
    change (snd (fst (last (with_ranges 0 (b0 :: bs)) ((0,0),[]))) = zlen l).
    rewrite with_ranges_last by discriminate. rewrite Hc. lia.
Qed.

Lemma with_ranges_lookup {A} (bs : list (list A)) s d r b i :
  In (r, b) (with_ranges s bs) -> fst r <= i < snd r ->
  nth (Z.to_nat (i - fst r)) b d = nth (Z.to_nat (i - s)) (List.concat bs) d.
Proof.
  revert s. induction bs as [|b0 bs IH]; intros s H Hi; simpl in H; [tauto|].
  destruct H as [H|H].
  - inversion H; subst. simpl in *. rewrite app_nth1; auto. unfold zlen in Hi. lia.
  - pose proof (with_ranges_ge _ _ _ _ H) as Hge. pose proof (zlen_nonneg b0) as H0.
    rewrite (IH _ H Hi). simpl List.concat. rewrite app_nth2 by (unfold zlen in *; lia).
    f_equal. unfold zlen in *. lia.
Qed.

Lemma ranges_lookup {A} n (l : list A) d r b i : (0 < n)%nat ->
  In (r, b) (ranges_batches n l) -> fst r <= i < snd r ->
  nth (Z.to_nat (i - fst r)) b d = nth (Z.to_nat i) l d.
Proof.
  intros Hn H Hi. unfold ranges_batches in H.
  rewrite (with_ranges_lookup _ _ d _ _ _ H Hi). rewrite batched_concat by auto.
  f_equal. lia.
Qed.

(* ====================================================================================== *)
(* 3. file sequences                                                                      *)
(* ====================================================================================== *)

Lemma sortedb_cons a l : sortedb (a :: l) = true ->
  sortedb l = true /\ Forall (fun i => a <= i) l.
Proof.
  revert a. induction l as [|b l IH]; intros a H; [split; [reflexivity|constructor]|].
  change (sortedb (a :: b :: l)) with ((a <=? b) && sortedb (b :: l)) in H.
  apply andb_true_iff in H. destruct H as [Hab Hs]. split; auto.
  destruct (IH _ Hs) as [_ Hf]. constructor; [lia|].
  eapply Forall_impl; [|exact Hf]. simpl. intros; lia.
Qed.

Lemma sortedb_app_r a b : sortedb (a ++ b)%list = true -> sortedb b = true.
Proof.
  induction a as [|x a IH]; intros H; auto.
  apply IH. apply (sortedb_cons x (a ++ b)%list H).
Qed.

(* what [take_file] does, without any hypothesis on the indices *)
Lemma take_file_spec {R} (rows : list R) start idxs d :
  exists pre rest,
    take_file rows start idxs d = (map (fun i => nth (Z.to_nat (i - start)) rows d) pre, rest) /\
    idxs = (pre ++ rest)%list /\
    Forall (fun i => i < start + zlen rows) pre /\
    match rest with [] => True | i :: _ => start + zlen rows <= i end.
Proof.
  induction idxs as [|i tl IH].
  - exists [], []. simpl. auto.
  - simpl. destruct (i <? start + zlen rows) eqn:E.
    + destruct IH as (pre & rest & Ht & Hi & Hp & Hr). rewrite Ht.
      exists (i :: pre), rest. simpl. repeat split; auto; [congruence|constructor; auto; lia].
    + exists [], (i :: tl). simpl. repeat split; auto. lia.
Qed.

(* [file_seq_walk] only ever consumes indices below the running end *)
Lemma file_seq_walk_split {R} (files : list (list R)) start idxs d :
  exists pre, idxs = (pre ++ snd (file_seq_walk files start idxs d))%list /\
              Forall (fun i => i < start + zlen (List.concat files)) pre.
Proof.
  revert start idxs. induction files as [|f tl IH]; intros start idxs.
  - exists []. simpl. auto.
  - simpl. destruct (take_file_spec f start idxs d) as (pre & rest & Ht & Hi & Hp & _).
    rewrite Ht. destruct (IH (start + zlen f) rest) as (pre2 & H2 & Hp2).
    destruct (file_seq_walk tl (start + zlen f) rest d) as [got2 rest2]. simpl in *.
    exists (pre ++ pre2)%list. split; [rewrite <- app_assoc, <- H2; auto|].
    rewrite zlen_app. pose proof (zlen_nonneg (List.concat tl)).
    apply Forall_app. split; eapply Forall_impl; try eassumption; simpl; intros; lia.
Qed.

(* generalisation over the running start *)
Lemma file_seq_walk_spec {R} (files : list (list R)) start idxs d :
  sortedb idxs = true ->
  Forall (fun i => start <= i < start + zlen (List.concat files)) idxs ->
  file_seq_walk files start idxs d =
    (map (fun i => nth (Z.to_nat (i - start)) (List.concat files) d) idxs, []).
Proof.
  revert start idxs. induction files as [|f tl IH]; intros start idxs Hs Hf.
  - simpl. destruct idxs as [|i idxs]; [reflexivity|].
    inversion Hf; subst. unfold zlen in *. simpl in *. lia.
  - simpl. destruct (take_file_spec f start idxs d) as (pre & rest & Ht & Hi & Hp & Hr).
    rewrite Ht. subst idxs. apply Forall_app in Hf. destruct Hf as [Hf1 Hf2].
    pose proof (sortedb_app_r _ _ Hs) as Hs2.
    assert (Hge : Forall (fun i => start + zlen f <= i) rest).
    { destruct rest as [|i rest]; [constructor|]. constructor; auto.
      destruct (sortedb_cons _ _ Hs2) as [_ H]. eapply Forall_impl; [|exact H].
      simpl. intros; lia. }
    rewrite (IH (start + zlen f) rest Hs2).
    + f_equal. rewrite map_app. f_equal.
      * apply map_ext_in. intros i Hin. rewrite Forall_forall in Hf1, Hp.
        specialize (Hf1 _ Hin). specialize (Hp _ Hin).
        rewrite app_nth1; auto. unfold zlen in *. lia.
      * apply map_ext_in. intros i Hin. rewrite Forall_forall in Hge.
        specialize (Hge _ Hin). pose proof (zlen_nonneg f).
        rewrite app_nth2 by (unfold zlen in *; lia). f_equal. unfold zlen in *. lia.
    + rewrite Forall_forall in *. intros i Hin. specialize (Hf2 _ Hin). specialize (Hge _ Hin).
      simpl List.concat in Hf2. rewrite zlen_app in Hf2. lia.
Qed.

Theorem file_seq_get_spec {R} (files : list (list R)) idxs d :
  sortedb idxs = true ->
  Forall (fun i => 0 <= i < zlen (List.concat files)) idxs ->
  file_seq_get files idxs d = Some (map (fun i => nth (Z.to_nat i) (List.concat files) d) idxs).
Proof.
  intros Hs Hf. unfold file_seq_get. rewrite Hs. simpl.
  rewrite file_seq_walk_spec; auto.
  f_equal. apply map_ext. intros; f_equal; lia.
Qed.

Theorem file_seq_get_unsorted {R} files idxs (d : R) :
  sortedb idxs = false -> file_seq_get files idxs d = None.
Proof. intros H. unfold file_seq_get. rewrite H. reflexivity. Qed.

(* out of range: no hypothesis on sortedness / sign is actually needed *)
Theorem file_seq_get_out_of_range_strong {R} (files : list (list R)) idxs d :
  Exists (fun i => zlen (List.concat files) <= i) idxs ->
  file_seq_get files idxs d = None.
Proof.
  intros Hex. unfold file_seq_get. destruct (negb (sortedb idxs)); [reflexivity|].
  destruct (file_seq_walk_split files 0 idxs d) as (pre & Hi & Hp).
  destruct (file_seq_walk files 0 idxs d) as [got rest]. simpl in Hi.
  destruct rest; [|reflexivity]. exfalso. rewrite app_nil_r in Hi. subst pre.
  apply Exists_exists in Hex. destruct Hex as (i & Hin & Hi).
  rewrite Forall_forall in Hp. specialize (Hp _ Hin). simpl in Hp. lia.
Qed.

Theorem file_seq_get_out_of_range {R} (files : list (list R)) idxs d :
  sortedb idxs = true -> Forall (fun i => 0 <= i) idxs ->
  Exists (fun i => zlen (List.concat files) <= i) idxs ->
  file_seq_get files idxs d = None.
Proof. intros _ _. apply file_seq_get_out_of_range_strong. Qed.

(* ====================================================================================== *)
(* 7. parse_num_per_batch                                                                 *)
(* ====================================================================================== *)

Lemma ceil_div_mul_ge a b : 0 < b -> b * ceil_div a b >= a.
Proof.
  intros Hb. unfold ceil_div. pose proof (Z.mul_div_le (- a) b Hb). lia.
Qed.
Lemma ceil_div_nonneg a b : 0 <= a -> 0 < b -> 0 <= ceil_div a b.
Proof.
  intros Ha Hb. unfold ceil_div.
  assert ((- a) / b <= 0); [|lia].
  apply Z.div_le_upper_bound; lia.
Qed.
Lemma ceil_div_pos a b : 1 <= a -> 0 < b -> 1 <= ceil_div a b.
Proof.
  intros Ha Hb. unfold ceil_div.
  assert ((- a) / b < 0); [|lia].
  apply Z.div_lt_upper_bound; lia.
Qed.
Lemma ceil_div_1 a : ceil_div a 1 = a.
Proof. unfold ceil_div. rewrite Z.div_1_r. lia. Qed.

(* The statement "the three accepted cases return a positive number of parts" is FALSE as
   written: with only max_fps_per_file given and an empty input, the number of parts is 0. *)
Lemma parse_num_per_batch_zero_parts :
  parse_num_per_batch 0 None (Some 5) = Some (0, 5, Some 1).
Proof. reflexivity. Qed.

(* Closest true statement: parts >= 0 always, parts >= 1 as soon as smiles_num >= 1 (and
   always in the two cases where it does not come from ceil_div); the product covers
   smiles_num; num_per_batch >= 0. *)
Lemma parse_num_per_batch_spec_alt smiles_num parts mx :
  0 <= smiles_num ->
  match parts with Some p => 1 <= p | None => True end ->
  match mx with Some m => 1 <= m | None => True end ->
  match parts, mx with
  | Some _, Some _ => parse_num_per_batch smiles_num parts mx = None
  | _, _ =>
      exists p npb dg, parse_num_per_batch smiles_num parts mx = Some (p, npb, dg) /\
        0 <= p /\ (1 <= smiles_num -> 1 <= p) /\ (mx = None -> 1 <= p) /\
        0 <= npb /\ (1 <= smiles_num -> 1 <= npb) /\
        p * npb >= smiles_num /\
        match parts, mx with
        | Some p', _ => p = p' /\ npb = ceil_div smiles_num p'
        | None, Some m => npb = m /\ p = ceil_div smiles_num m
        | None, None => p = 1 /\ npb = smiles_num /\ dg = None
        end
  end.
Proof.
  intros Hs Hp Hm. destruct parts as [p|], mx as [m|]; simpl; auto.
  - eexists _, _, _. split; [reflexivity|].
    pose proof (ceil_div_mul_ge smiles_num p). pose proof (ceil_div_nonneg smiles_num p).
    pose proof (ceil_div_pos smiles_num p).
    repeat split; try lia; try discriminate.
  - eexists _, _, _. split; [reflexivity|].
    pose proof (ceil_div_mul_ge smiles_num m). pose proof (ceil_div_nonneg smiles_num m).
    pose proof (ceil_div_pos smiles_num m).
    repeat split; try lia; try discriminate.
  - eexists _, _, _. split; [reflexivity|]. rewrite ceil_div_1.
    repeat split; try lia.
Qed.

(* the positive-parts statement holds when smiles_num >= 1 *)
Lemma parse_num_per_batch_spec smiles_num parts mx p npb dg :
  1 <= smiles_num ->
  match parts with Some p => 1 <= p | None => True end ->
  match mx with Some m => 1 <= m | None => True end ->
  parse_num_per_batch smiles_num parts mx = Some (p, npb, dg) ->
  1 <= p /\ 1 <= npb /\ p * npb >= smiles_num.
Proof.
  intros Hs Hp Hm H.
  pose proof (parse_num_per_batch_spec_alt smiles_num parts mx ltac:(lia) Hp Hm) as S.
  destruct parts, mx; try (rewrite S in H; discriminate);
    destruct S as (p' & npb' & dg' & E & ? & ? & ? & ? & ? & ? & _);
    rewrite E in H; inversion H; subst; repeat split; auto.
Qed.

Lemma parse_num_per_batch_both smiles_num p m :
  parse_num_per_batch smiles_num (Some p) (Some m) = None.
Proof. reflexivity. Qed.

(* ====================================================================================== *)
(* 4. decimal rendering                                                                   *)
(* ====================================================================================== *)
Open Scope string_scope.

Lemma str_app_assoc (a b c : string) : (a ++ b) ++ c = a ++ (b ++ c).
Proof. induction a; simpl; congruence. Qed.
Lemma str_app_nil_r (a : string) : a ++ "" = a.
Proof. induction a; simpl; congruence. Qed.
Lemma str_app_length (a b : string) : String.length (a ++ b) = (String.length a + String.length b)%nat.
Proof. induction a; simpl; congruence. Qed.

(* fuel fact 1: the accumulator is just appended *)
Lemma spf_acc f z acc : str_of_pos_fuel f z acc = str_of_pos_fuel f z "" ++ acc.
Proof.
  revert z acc. induction f as [|f IH]; intros z acc; simpl; [reflexivity|].
  destruct (z <? 10)%Z; [reflexivity|].
  rewrite IH. rewrite (IH _ (String _ "")). rewrite str_app_assoc. reflexivity.
Qed.

(* fuel fact 2: any fuel f >= 1 with z < 10^f gives the same result *)
Lemma spf_irrel f1 f2 z acc :
  0 <= z < 10 ^ Z.of_nat (S f1) -> z < 10 ^ Z.of_nat (S f2) ->
  str_of_pos_fuel (S f1) z acc = str_of_pos_fuel (S f2) z acc.
Proof.
  revert f2 z acc. induction f1 as [|f1 IH]; intros f2 z acc H1 H2.
  - change (10 ^ Z.of_nat 1) with 10 in H1. simpl.
    destruct (Z.ltb_spec z 10); [reflexivity|lia].
  - cbn [str_of_pos_fuel]. destruct (Z.ltb_spec z 10) as [|Hz]; [reflexivity|].
    destruct f2 as [|f2]; [change (10 ^ Z.of_nat 1) with 10 in H2; lia|].
    apply IH.
    + split; [apply Z.div_pos; lia|]. apply Z.div_lt_upper_bound; [lia|].
      rewrite <- Z.pow_succ_r by lia. rewrite <- Nat2Z.inj_succ. lia.
    + apply Z.div_lt_upper_bound; [lia|].
      rewrite <- Z.pow_succ_r by lia. rewrite <- Nat2Z.inj_succ. lia.
Qed.

(* fuel fact 3: the fuel chosen by [str_of_Z] is enough *)
Lemma log2_fuel z : 0 <= z -> z < 10 ^ Z.of_nat (Z.to_nat (Z.log2 z) + 1).
Proof.
  intros Hz. pose proof (Z.log2_nonneg z) as Hl.
  replace (Z.of_nat (Z.to_nat (Z.log2 z) + 1)) with (Z.succ (Z.log2 z)) by lia.
  destruct (Z.eq_dec z 0) as [->|Hne].
  - simpl. lia.
  - pose proof (Z.log2_spec z ltac:(lia)) as [_ H].
    eapply Z.lt_le_trans; [exact H|]. apply Z.pow_le_mono_l. lia.
Qed.

Lemma str_of_Z_small z : 0 <= z < 10 -> str_of_Z z = String (digit_of z) "".
Proof.
  intros Hz. unfold str_of_Z. destruct (Z.ltb_spec z 0); [lia|].
  replace (Z.to_nat (Z.log2 z) + 2)%nat with (S (Z.to_nat (Z.log2 z) + 1)) by lia.
  simpl. destruct (Z.ltb_spec z 10); [reflexivity|lia].
Qed.

Lemma str_of_Z_0 : str_of_Z 0 = "0".
Proof. reflexivity. Qed.

Lemma spf_S f z acc :
  str_of_pos_fuel (S f) z acc =
  if (z <? 10)%Z then String (digit_of z) acc
  else str_of_pos_fuel f (z / 10)%Z (String (digit_of (z mod 10)%Z) acc).
Proof. reflexivity. Qed.

(* the clean recursive characterisation *)
Lemma str_of_Z_step z : 10 <= z ->
  str_of_Z z = str_of_Z (z / 10) ++ String (digit_of (z mod 10)) "".
Proof.
  intros Hz. unfold str_of_Z.
  assert (H10 : 0 <= z / 10) by (apply Z.div_pos; lia).
  destruct (Z.ltb_spec z 0); [lia|]. destruct (Z.ltb_spec (z / 10) 0); [lia|].
  replace (Z.to_nat (Z.log2 z) + 2)%nat with (S (S (Z.to_nat (Z.log2 z)))) by lia.
  replace (Z.to_nat (Z.log2 (z / 10)) + 2)%nat with (S (Z.to_nat (Z.log2 (z / 10)) + 1)) by lia.
  rewrite (spf_S (S (Z.to_nat (Z.log2 z)))). destruct (Z.ltb_spec z 10); [lia|].
  rewrite spf_acc. f_equal.
  pose proof (log2_fuel z ltac:(lia)) as Hf. pose proof (log2_fuel (z / 10) H10) as Hf2.
  replace (Z.to_nat (Z.log2 z) + 1)%nat with (S (Z.to_nat (Z.log2 z))) in Hf by lia.
  assert (z / 10 <= z) by (apply Z.div_le_upper_bound; lia).
  apply spf_irrel.
  - lia.
  - eapply Z.lt_le_trans; [exact Hf2|]. apply Z.pow_le_mono_r; lia.
Qed.

Lemma str_of_Z_length_step z : 10 <= z ->
  String.length (str_of_Z z) = S (String.length (str_of_Z (z / 10))).
Proof.
  intros Hz. rewrite str_of_Z_step by auto. rewrite str_app_length. simpl. lia.
Qed.

Lemma str_of_Z_length z : 0 <= z ->
  forall k, 10 ^ (k - 1) <= z < 10 ^ k -> 1 <= k -> String.length (str_of_Z z) = Z.to_nat k.
Proof.
  intros Hz. pattern z. apply Zlt_0_ind; [|exact Hz]. clear z Hz.
  intros z IH Hz k Hk Hk1.
  destruct (Z_lt_le_dec z 10) as [Hlt|Hge].
  - rewrite str_of_Z_small by lia. simpl.
    assert (k - 1 < 1); [|lia].
    apply (Z.pow_lt_mono_r_iff 10); lia.
  - rewrite str_of_Z_length_step by auto.
    assert (Hk2 : 2 <= k).
    { assert (1 < k); [|lia]. apply (Z.pow_lt_mono_r_iff 10); lia. }
    assert (Hr : 0 <= z / 10 < z).
    { split; [apply Z.div_pos; lia|]. apply Z.div_lt_upper_bound; lia. }
    assert (Hb : 10 ^ (k - 1 - 1) <= z / 10 < 10 ^ (k - 1)).
    { replace (10 ^ (k - 1)) with (10 * 10 ^ (k - 1 - 1)) in Hk
        by (rewrite <- Z.pow_succ_r by lia; f_equal; lia).
      replace (10 ^ k) with (10 * 10 ^ (k - 1)) in Hk
        by (rewrite <- Z.pow_succ_r by lia; f_equal; lia).
      split; [apply Z.div_le_lower_bound; lia|apply Z.div_lt_upper_bound; lia]. }
    rewrite (IH (z / 10) Hr (k - 1) Hb) by lia. lia.
Qed.

(* every non-negative number is below 10^(its number of digits); at least one digit *)
Lemma str_of_Z_bound z : 0 <= z ->
  z < 10 ^ Z.of_nat (String.length (str_of_Z z)) /\ (1 <= String.length (str_of_Z z))%nat.
Proof.
  intros Hz. pattern z. apply Zlt_0_ind; [|exact Hz]. clear z Hz.
  intros z IH Hz.
  destruct (Z_lt_le_dec z 10) as [Hlt|Hge].
  - rewrite str_of_Z_small by lia. simpl. change (10 ^ 1) with 10. lia.
  - rewrite str_of_Z_length_step by auto.
    destruct (IH (z / 10)) as [Hb _].
    { split; [apply Z.div_pos; lia|]. apply Z.div_lt_upper_bound; lia. }
    split; [|lia]. rewrite Nat2Z.inj_succ. rewrite Z.pow_succ_r by lia.
    set (P := 10 ^ Z.of_nat (String.length (str_of_Z (z / 10)))) in *.
    pose proof (Z.div_mod z 10 ltac:(lia)). pose proof (Z.mod_pos_bound z 10 ltac:(lia)). lia.
Qed.

Lemma str_repeat_length c n : String.length (str_repeat c n) = n.
Proof. induction n; simpl; congruence. Qed.

Lemma zfill_length s w : (String.length s <= Z.to_nat w)%nat ->
  String.length (zfill s w) = Z.to_nat w.
Proof.
  intros H. unfold zfill. rewrite str_app_length, str_repeat_length. lia.
Qed.

(* ====================================================================================== *)
(* 5. name order = part order                                                             *)
(* ====================================================================================== *)

(* fixed-width rendering, most significant digit first *)
Fixpoint digs (w : nat) (z : Z) : string :=
  match w with
  | O => ""
  | S w' => digs w' (z / 10) ++ String (digit_of (z mod 10)) ""
  end.

Lemma digs_length w z : String.length (digs w z) = w.
Proof.
  revert z. induction w as [|w IH]; intros z; simpl; [reflexivity|].
  rewrite str_app_length, IH. simpl. lia.
Qed.

Lemma str_repeat_snoc c n : str_repeat c n ++ String c "" = String c (str_repeat c n).
Proof. induction n; simpl; congruence. Qed.

Lemma digs_0 w : digs w 0 = str_repeat "0"%char w.
Proof.
  induction w as [|w IH]; simpl; [reflexivity|].
  change (0 / 10) with 0. rewrite IH. change (digit_of (0 mod 10)) with "0"%char.
  apply str_repeat_snoc.
Qed.

Lemma zfill_digs w z : 0 <= z < 10 ^ Z.of_nat w -> (1 <= w)%nat ->
  str_repeat "0"%char (w - String.length (str_of_Z z)) ++ str_of_Z z = digs w z.
Proof.
  revert z. induction w as [|w IH]; intros z Hz Hw; [lia|].
  destruct (Z_lt_le_dec z 10) as [Hlt|Hge].
  - rewrite str_of_Z_small by lia. simpl String.length.
    replace (S w - 1)%nat with w by lia. simpl digs.
    rewrite Z.div_small, Z.mod_small by lia. rewrite digs_0. reflexivity.
  - rewrite (str_of_Z_length_step z) by auto. rewrite (str_of_Z_step z) by auto.
    simpl digs. rewrite <- str_app_assoc. f_equal.
    replace (S w - S (String.length (str_of_Z (z / 10))))%nat
      with (w - String.length (str_of_Z (z / 10)))%nat by lia.
    rewrite Nat2Z.inj_succ, Z.pow_succ_r in Hz by lia.
    apply IH.
    + split; [apply Z.div_pos; lia|apply Z.div_lt_upper_bound; lia].
    + destruct w; [|lia]. simpl in Hz. lia.
Qed.

Lemma zfill_str_of_Z digits z : 0 <= z < 10 ^ digits -> 1 <= digits ->
  zfill (str_of_Z z) digits = digs (Z.to_nat digits) z.
Proof.
  intros Hz Hd. unfold zfill. apply zfill_digs; [|lia].
  rewrite Z2Nat.id by lia. exact Hz.
Qed.

(* --- facts about str_ltb --- *)
Lemma str_ltb_irrefl a : str_ltb a a = false.
Proof. induction a; simpl; [reflexivity|]. rewrite Nat.ltb_irrefl. exact IHa. Qed.

Lemma str_ltb_asym a b : str_ltb a b = true -> str_ltb b a = false.
Proof.
  revert b. induction a as [|x a IH]; intros [|y b]; simpl; try congruence.
  destruct (Nat.ltb_spec (nat_of_ascii x) (nat_of_ascii y)),
           (Nat.ltb_spec (nat_of_ascii y) (nat_of_ascii x)); try lia; auto; congruence.
Qed.

(* a common prefix does not matter *)
Lemma str_ltb_app_prefix p a b : str_ltb (p ++ a) (p ++ b) = str_ltb a b.
Proof. induction p; simpl; [reflexivity|]. rewrite Nat.ltb_irrefl. exact IHp. Qed.

(* for equal-length strings that already compare strictly, suffixes do not matter *)
Lemma str_ltb_app_lt a b s t : String.length a = String.length b ->
  str_ltb a b = true -> str_ltb (a ++ s) (b ++ t) = true.
Proof.
  revert b. induction a as [|x a IH]; intros [|y b] Hl H; simpl in *; try congruence.
  destruct (Nat.ltb (nat_of_ascii x) (nat_of_ascii y)); [reflexivity|].
  destruct (Nat.ltb (nat_of_ascii y) (nat_of_ascii x)); [congruence|].
  apply IH; auto.
Qed.

(* equal-length a, b: a common suffix does not matter either *)
Lemma str_ltb_app_suffix a b s : String.length a = String.length b ->
  str_ltb (a ++ s) (b ++ s) = str_ltb a b.
Proof.
  revert b. induction a as [|x a IH]; intros [|y b] Hl; simpl in *; try congruence.
  - apply str_ltb_irrefl.
  - destruct (Nat.ltb (nat_of_ascii x) (nat_of_ascii y)); [reflexivity|].
    destruct (Nat.ltb (nat_of_ascii y) (nat_of_ascii x)); [reflexivity|].
    apply IH. congruence.
Qed.

(* digits are the ASCII codes 48..57 in increasing order *)
Lemma nat_of_digit d : 0 <= d < 10 -> nat_of_ascii (digit_of d) = (48 + Z.to_nat d)%nat.
Proof. intros H. unfold digit_of. apply nat_ascii_embedding. lia. Qed.

Lemma str_ltb_single x y :
  str_ltb (String x "") (String y "") = Nat.ltb (nat_of_ascii x) (nat_of_ascii y).
Proof.
  cbn [str_ltb]. destruct (Nat.ltb (nat_of_ascii x) (nat_of_ascii y)); [reflexivity|].
  destruct (Nat.ltb (nat_of_ascii y) (nat_of_ascii x)); reflexivity.
Qed.

Lemma digs_lt w i j : 0 <= i < j -> j < 10 ^ Z.of_nat w -> str_ltb (digs w i) (digs w j) = true.
Proof.
  revert i j. induction w as [|w IH]; intros i j Hij Hj.
  - simpl in Hj. lia.
  - simpl digs. rewrite Nat2Z.inj_succ, Z.pow_succ_r in Hj by lia.
    pose proof (Z.div_mod i 10 ltac:(lia)) as Ei. pose proof (Z.mod_pos_bound i 10 ltac:(lia)) as Mi.
    pose proof (Z.div_mod j 10 ltac:(lia)) as Ej. pose proof (Z.mod_pos_bound j 10 ltac:(lia)) as Mj.
    destruct (Z.eq_dec (i / 10) (j / 10)) as [E|NE].
    + rewrite E. rewrite str_ltb_app_prefix. rewrite str_ltb_single.
      rewrite !nat_of_digit by lia.
      destruct (Nat.ltb_spec (48 + Z.to_nat (i mod 10)) (48 + Z.to_nat (j mod 10))); [reflexivity|lia].
    + apply str_ltb_app_lt; [rewrite !digs_length; reflexivity|].
      apply IH; [|apply Z.div_lt_upper_bound; lia].
      split; [apply Z.div_pos; lia|].
      assert (i / 10 <= j / 10) by (apply Z.div_le_mono; lia). lia.
Qed.

Theorem part_names_sorted stem digits i j :
  0 <= i < j -> j < 10 ^ digits -> 1 <= digits ->
  str_ltb (part_name stem digits i) (part_name stem digits j) = true.
Proof.
  intros Hij Hj Hd. unfold part_name.
  rewrite !str_ltb_app_prefix.
  rewrite !zfill_str_of_Z by lia.
  apply str_ltb_app_lt; [rewrite !digs_length; reflexivity|].
  apply digs_lt; [lia|]. rewrite Z2Nat.id by lia. exact Hj.
Qed.

Lemma digits_enough count i : 1 <= count -> 0 <= i < count ->
  i < 10 ^ (Z.of_nat (String.length (str_of_Z count))).
Proof.
  intros Hc Hi. destruct (str_of_Z_bound count ltac:(lia)) as [H _]. lia.
Qed.

(* ====================================================================================== *)
(* 6. split then merge                                                                    *)
(* ====================================================================================== *)

Lemma with_idxs_snd {A} i (bs : list (list A)) : map snd (with_idxs i bs) = bs.
Proof. revert i. induction bs; intros; simpl; f_equal; auto. Qed.

Lemma sort_by_name_cons {R} (x : string * R) l :
  sort_by_name (x :: l) = ins_by_name x (sort_by_name l).
Proof. reflexivity. Qed.

(* names strictly increasing in part order => the insertion sort is the identity *)
Lemma sort_split_id {R} stem digits (bs : list (list R)) i :
  0 <= i -> i + zlen bs <= 10 ^ digits -> 1 <= digits ->
  sort_by_name (map (fun p => (part_name stem digits (fst p), snd p)) (with_idxs i bs)) =
  map (fun p => (part_name stem digits (fst p), snd p)) (with_idxs i bs).
Proof.
  revert i. induction bs as [|b bs IH]; intros i Hi Hb Hd; [reflexivity|].
  rewrite zlen_cons in Hb. pose proof (zlen_nonneg bs).
  cbn [with_idxs map]. rewrite sort_by_name_cons. rewrite IH by lia.
  destruct bs as [|b' bs]; [reflexivity|].
  rewrite zlen_cons in Hb. pose proof (zlen_nonneg bs).
  cbn [with_idxs map ins_by_name fst snd].
  rewrite (str_ltb_asym (part_name stem digits i) (part_name stem digits (i + 1))); auto.
  apply part_names_sorted; lia.
Qed.

Theorem split_merge {R} stem n (rows : list R) : (0 < n)%nat ->
  let count := Z.of_nat (List.length (batched n rows)) in
  let digits := Z.of_nat (String.length (str_of_Z (Z.max count 1))) in
  merge_parts (split_parts stem digits n rows) = rows.
Proof.
  intros Hn count digits. unfold merge_parts, split_parts.
  destruct (str_of_Z_bound (Z.max count 1) ltac:(lia)) as [Hb Hl].
  rewrite sort_split_id; [| lia | fold count; unfold zlen; subst digits; lia | subst digits; lia].
  rewrite map_map. simpl. rewrite with_idxs_snd. apply batched_concat; auto.
Qed.

(* ====================================================================================== *)
Print Assumptions batched_concat.
Print Assumptions batched_sizes.
Print Assumptions batched_length.
Print Assumptions batched_full.
Print Assumptions batched_nth.
Print Assumptions ranges_tile.
Print Assumptions ranges_lookup.
Print Assumptions file_seq_get_spec.
Print Assumptions file_seq_get_unsorted.
Print Assumptions file_seq_get_out_of_range_strong.
Print Assumptions file_seq_get_out_of_range.
Print Assumptions str_of_Z_0.
Print Assumptions str_of_Z_small.
Print Assumptions str_of_Z_step.
Print Assumptions str_of_Z_length.
Print Assumptions zfill_length.
Print Assumptions part_names_sorted.
Print Assumptions digits_enough.
Print Assumptions split_merge.
Print Assumptions parse_num_per_batch_zero_parts.
Print Assumptions parse_num_per_batch_spec_alt.
Print Assumptions parse_num_per_batch_spec.
Print Assumptions parse_num_per_batch_both.
