(* GenTieUtil.v — generated helpers of bblean/cli.py (Gen/GUtil.v) are the hand model. *)
From BB Require Import Model.FpsUtil Gen.NumpySem Gen.GUtil.
Open Scope Z_scope.

Lemma tie_parse_num_per_batch n p m :
  GUtil.parse_num_per_batch n p m = FpsUtil.parse_num_per_batch n p m.
Proof. destruct p, m; reflexivity. Qed.
