(* GenTieUtil.v — generated helpers of bblean/cli.py (Gen/GUtil.v) are the hand model. *)
From BB Require Import Model.FpsUtil Gen.NumpySem Gen.GUtil.
Open Scope Z_scope.

Lemma tie_parse_num_per_batch n p m :
  GUtil.parse_num_per_batch n p m = FpsUtil.parse_num_per_batch n p m.
Proof. destruct p, m; reflexivity. Qed.

(* ====================================================================================== *)
(* bb fps-split: the plan (rows per part file, zero-pad width) chosen by the CLI          *)
(* ====================================================================================== *)
From BB Require Import Proofs.FpsFacts.
From Coq Require Import String Lia.

(* ceil_div a b is THE ceiling of a / b (b > 0). *)
Lemma ceil_div_spec a b : 0 < b -> (ceil_div a b - 1) * b < a <= ceil_div a b * b.
Proof.
  intros Hb. unfold ceil_div.
  pose proof (Z.div_mod (- a) b ltac:(lia)) as E.
  pose proof (Z.mod_pos_bound (- a) b Hb) as R.
  set (q := (- a) / b) in *. set (r := (- a) mod b) in *. nia.
Qed.

Lemma ceil_div_unique a b c : 0 < b -> (c - 1) * b < a <= c * b -> ceil_div a b = c.
Proof.
  intros Hb Hc. pose proof (ceil_div_spec a b Hb). nia.
Qed.

(* [FpsFacts.ceil_div_pos : 1 <= a -> 0 < b -> 1 <= ceil_div a b] already exists; this is the
   same fact with the hypotheses in the other order, under a name that does not shadow it. *)
Lemma ceil_div_ge_1 a b : 0 < b -> 1 <= a -> 1 <= ceil_div a b.
Proof. intros Hb Ha. apply FpsFacts.ceil_div_pos; assumption. Qed.

Lemma ceil_div_le_iff a b k : 0 < b -> (ceil_div a b <= k <-> a <= k * b).
Proof.
  intros Hb. pose proof (ceil_div_spec a b Hb). split; intros; nia.
Qed.

(* n rows in parts of ceil(n/p) rows: at most p parts *)
Lemma ceil_div_ceil_div_le n p : 1 <= n -> 1 <= p -> ceil_div n (ceil_div n p) <= p.
Proof.
  intros Hn Hp.
  pose proof (ceil_div_ge_1 n p ltac:(lia) Hn) as Hc.
  apply ceil_div_le_iff; [lia|].
  pose proof (ceil_div_spec n p ltac:(lia)). lia.
Qed.

(* ... and it can be strictly fewer: 10 rows, --num-parts 6 -> 2 rows per file, 5 files *)
Example ceil_div_ceil_div_strict : ceil_div 10 (ceil_div 10 6) = 5.
Proof. vm_compute. reflexivity. Qed.

(* exactly one of --num-parts / --max-fps, and --num-parts >= 2 *)
Lemma split_plan_defined n parts mx :
  GUtil.split_plan n parts mx <> None <->
  ((exists p, parts = Some p /\ 2 <= p /\ mx = None) \/ (parts = None /\ exists m, mx = Some m)).
Proof.
  unfold GUtil.split_plan.
  destruct parts as [p|], mx as [m|]; cbn [unwrapZ negb andb].
  - destruct (Z.ltb_spec p 2); cbn; split; try congruence.
    + intros [(q & _ & _ & H')|(H' & _)]; discriminate.
    + intros [(q & _ & _ & H')|(H' & _)]; discriminate.
  - destruct (Z.ltb_spec p 2); cbn; split; try congruence.
    + intros [(q & Hq & Hq2 & _)|(H' & _)]; [injection Hq as ->; lia|discriminate].
    + intros _. left. exists p. auto.
  - cbn. split; [intros _; right; eauto|discriminate].
  - cbn. split; [congruence|].
    intros [(q & H' & _)|(_ & m & H')]; discriminate.
Qed.

Lemma split_plan_cases n parts mx per digits :
  GUtil.split_plan n parts mx = Some (per, digits) ->
  (exists p, parts = Some p /\ mx = None /\ 2 <= p /\
             per = ceil_div n p /\ digits = Z.of_nat (String.length (str_of_Z p))) \/
  (exists m, parts = None /\ mx = Some m /\
             per = m /\ digits = Z.of_nat (String.length (str_of_Z (ceil_div n m)))).
Proof.
  unfold GUtil.split_plan.
  destruct parts as [p|], mx as [m|]; cbn [unwrapZ negb andb].
  - destruct (Z.ltb_spec p 2); cbn; discriminate.
  - destruct (Z.ltb_spec p 2); cbn; [discriminate|].
    intros H'. injection H' as <- <-. left. exists p. auto.
  - cbn. intros H'. injection H' as <- <-. right. exists m. auto.
  - cbn. discriminate.
Qed.

(* Every part index fits in the chosen number of digits (and the width is at least 1). *)
Lemma split_plan_digits_enough_strong n parts mx per digits :
  1 <= n -> (match mx with Some m => 1 <= m | None => True end) ->
  GUtil.split_plan n parts mx = Some (per, digits) ->
  1 <= per /\ 1 <= digits /\ forall i, 0 <= i < ceil_div n per -> i < 10 ^ digits.
Proof.
  intros Hn Hm H.
  destruct (split_plan_cases _ _ _ _ _ H) as [(p & -> & -> & Hp & -> & ->)|(m & -> & -> & -> & ->)].
  - split; [apply ceil_div_ge_1; lia|].
    split; [pose proof (str_of_Z_bound p ltac:(lia)); lia|].
    intros i Hi. apply digits_enough; [lia|].
    pose proof (ceil_div_ceil_div_le n p Hn ltac:(lia)). lia.
  - pose proof (ceil_div_ge_1 n m ltac:(lia) Hn) as Hc.
    split; [exact Hm|].
    split; [pose proof (str_of_Z_bound (ceil_div n m) ltac:(lia)); lia|].
    intros i Hi. apply digits_enough; lia.
Qed.

Theorem split_plan_digits_enough n parts mx per digits :
  1 <= n -> (match mx with Some m => 1 <= m | None => True end) ->
  GUtil.split_plan n parts mx = Some (per, digits) ->
  1 <= per /\ forall i, 0 <= i < ceil_div n per -> i < 10 ^ digits.
Proof.
  intros Hn Hm H.
  destruct (split_plan_digits_enough_strong _ _ _ _ _ Hn Hm H) as (H1 & _ & H2). auto.
Qed.

(* hence the zero-padded part names sort (as strings) in part order *)
Theorem split_plan_names_sorted n parts mx per digits stem i j :
  1 <= n -> (match mx with Some m => 1 <= m | None => True end) ->
  GUtil.split_plan n parts mx = Some (per, digits) ->
  0 <= i < j -> j < ceil_div n per ->
  str_ltb (part_name stem digits i) (part_name stem digits j) = true.
Proof.
  intros Hn Hm H Hij Hj.
  destruct (split_plan_digits_enough_strong _ _ _ _ _ Hn Hm H) as (_ & Hd & Hfit).
  apply part_names_sorted; [exact Hij| apply Hfit; lia | exact Hd].
Qed.

(* The hypothesis [1 <= m] is needed: --max-fps 0 is accepted by the plan (division by zero in
   the Python; ceil_div n 0 = 0 here), giving per = 0. *)
Example split_plan_max_fps_zero : GUtil.split_plan 5 None (Some 0) = Some (0, 1).
Proof. vm_compute. reflexivity. Qed.
