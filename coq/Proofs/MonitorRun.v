(* MonitorRun.v — the multi-round run and the memory monitor share the output directory: nothing the
   run deletes (purge at start, cleanup at the end) and nothing its final round writes or renames is
   one of the monitor's files.  Stated on the deletion / publication plan that the translator extracts
   from bblean/multiround.py on every run (Gen/GMrDel.v); Proofs/GenTieMrDel.v (C14) relates that plan to
   the model's predicates is_purged / is_round_file. *)
From BB Require Import Model.Base Gen.NumpySem Gen.GMrDel.
From Coq Require Import String List Bool.
Import ListNotations.
Open Scope string_scope.

Definition monitor_files : list string := ["max-rss.txt"; "max-rss.txt.tmp"; "monitor-rss.csv"].

Definition spares (n : string) (a : pub_action) : bool :=
  match a with
  | PW x => negb (String.eqb x n)
  | PR x y => negb (String.eqb x n) && negb (String.eqb y n)
  end.

Definition plan_spares (n : string) : bool :=
  negb (existsb (fun g => glob_match g n) GMrDel.purge_globs || existsb (String.eqb n) GMrDel.purge_names)
  && negb (existsb (fun g => glob_match g n) GMrDel.cleanup_globs)
  && forallb (spares n) (GMrDel.final_publish true) && forallb (spares n) (GMrDel.final_publish false).

(* source level: the extracted plans *)
Lemma source_plan_spares_monitor_files : forallb plan_spares monitor_files = true.
Proof. vm_compute. reflexivity. Qed.
