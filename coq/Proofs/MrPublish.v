(* MrPublish.v — the publication protocol of the final round (temporary files + renames, extracted
   from bblean/multiround.py into Gen/GMrDel.final_publish) given a semantics on the directory of
   the workflow model, and tied to the model's direct write [dir_puts d ws]:
     - executing the whole plan is exactly the direct write (publish_all);
     - after any strict prefix of the plan (a crash inside the publication) clusters.pkl is
       untouched and everything that was added or changed is erased by the next run's purge
       (publish_prefix_no_final, publish_prefix_purged), for EVERY plan that passes [pub_safe];
     - [pub_ok] alone is too weak for that (two refuted statements with witness plans);
     - a crash inside the publication followed by a complete run gives the result of a fresh run
       (crash_in_publish_then_rerun). *)
From BB Require Import Model.Multiround Gen.NumpySem Gen.GMrDel Proofs.GenTieMr Proofs.GenTieMrDel.
From BB Require Import Proofs.MrRerun.
From Coq Require Import String Ascii Bool Lia List Sorted.
Import ListNotations.
Open Scope string_scope.

(* ================================================================================ *)
(* 1. semantics of a publication plan                                               *)
(* ================================================================================ *)
(* [strip_tmp (x ++ ".tmp") = Some x]; None when the name does not end in ".tmp" *)
Fixpoint strip_tmp (n : string) : option string :=
  if String.eqb n ".tmp" then Some ""
  else match n with
       | EmptyString => None
       | String c tl => option_map (String c) (strip_tmp tl)
       end.
(* the final name a temporary file is destined for (a name without ".tmp" stands for itself) *)
Definition final_name (n : string) : string :=
  match strip_tmp n with Some x => x | None => n end.

(* [cont] maps a FINAL name to the content to publish under it *)
Definition pub_step (cont : string -> option content) (d : dir) (a : pub_action) : dir :=
  match a with
  | PW n => match cont (final_name n) with Some c => dir_put d n c | None => d end
  | PR s t => match dir_get d s with
              | Some x => dir_put (dir_remove d (String.eqb s)) t x
              | None => d
              end
  end.
Definition pub_exec (cont : string -> option content) (d : dir) (l : list pub_action) : dir :=
  fold_left (pub_step cont) l d.
Definition cont_of (ws : list (string * content)) : string -> option content := dir_get ws.

Lemma strip_tmp_app x : strip_tmp (x ++ ".tmp") = Some x.
Proof.
  induction x as [|c x IH]; [reflexivity|].
  cbn [append strip_tmp]. destruct (String.eqb_spec (String c (x ++ ".tmp")) ".tmp") as [E|_].
  - apply (f_equal String.length) in E. cbn [String.length] in E.
    rewrite MrStrings.slen_app in E. cbn [String.length] in E. lia.
  - rewrite IH. reflexivity.
Qed.

Lemma final_name_app x : final_name (x ++ ".tmp") = x.
Proof. unfold final_name. now rewrite strip_tmp_app. Qed.

(* a write of [x ++ ".tmp"] stores the content destined for [x] *)
Lemma pub_step_PW_tmp cont d x :
  pub_step cont d (PW (x ++ ".tmp")) =
  match cont x with Some c => dir_put d (x ++ ".tmp") c | None => d end.
Proof. cbn [pub_step]. now rewrite final_name_app. Qed.

Lemma pub_exec_app cont d l1 l2 :
  pub_exec cont d (l1 ++ l2)%list = pub_exec cont (pub_exec cont d l1) l2.
Proof. apply fold_left_app. Qed.

Lemma pub_step_wf cont d a : dir_wf d -> dir_wf (pub_step cont d a).
Proof.
  intros H. destruct a as [n|s t]; cbn [pub_step].
  - destruct (cont _); [apply dir_put_wf|]; exact H.
  - destruct (dir_get d s); [apply dir_put_wf, dir_remove_wf|]; exact H.
Qed.

Lemma pub_exec_wf cont l : forall d, dir_wf d -> dir_wf (pub_exec cont d l).
Proof.
  induction l as [|a l IH]; intros d H; [exact H|]. apply IH, pub_step_wf, H.
Qed.

(* ================================================================================ *)
(* 2. the names an action can touch                                                 *)
(* ================================================================================ *)
Definition touches (a : pub_action) (m : string) : bool :=
  match a with
  | PW n => String.eqb n m
  | PR s t => String.eqb s m || String.eqb t m
  end.

Lemma pub_step_untouched cont d a m :
  touches a m = false -> dir_get (pub_step cont d a) m = dir_get d m.
Proof.
  destruct a as [n|s t]; cbn [touches pub_step]; intros H.
  - destruct (cont _); [|reflexivity]. rewrite dir_get_put, (String.eqb_sym m n), H. reflexivity.
  - apply orb_false_elim in H. destruct H as [H1 H2].
    destruct (dir_get d s); [|reflexivity].
    rewrite dir_get_put, (String.eqb_sym m t), H2, dir_get_remove, H1. reflexivity.
Qed.

Lemma pub_exec_untouched cont m l : forall d,
  forallb (fun a => negb (touches a m)) l = true -> dir_get (pub_exec cont d l) m = dir_get d m.
Proof.
  induction l as [|a l IH]; intros d H; [reflexivity|].
  cbn [forallb] in H. apply andb_true_iff in H. destruct H as [Ha Hl].
  unfold pub_exec. cbn [fold_left]. fold (pub_exec cont (pub_step cont d a) l).
  rewrite (IH _ Hl). apply pub_step_untouched. now apply negb_true_iff.
Qed.

(* purging after an action that touches purged names only *)
Lemma dir_remove_put d n c (p : string -> bool) :
  p n = true -> dir_remove (dir_put d n c) p = dir_remove d p.
Proof.
  intros Hp. unfold dir_remove. induction d as [|[k x] d IH]; cbn [dir_put filter fst].
  - now rewrite Hp.
  - destruct (String.eqb_spec k n) as [->|N].
    + cbn [filter fst]. now rewrite Hp.
    + destruct (str_ltb n k); cbn [filter fst]; [now rewrite Hp|].
      now rewrite IH.
Qed.

Lemma dir_remove_remove_eqb d s (p : string -> bool) :
  p s = true -> dir_remove (dir_remove d (String.eqb s)) p = dir_remove d p.
Proof.
  intros Hp. unfold dir_remove. induction d as [|[k x] d IH]; cbn [filter fst]; [reflexivity|].
  destruct (String.eqb_spec s k) as [<-|N]; cbn [negb filter fst].
  - now rewrite Hp.
  - now rewrite IH.
Qed.

Lemma dir_remove_puts ws (p : string -> bool) : forall d,
  Forall (fun e => p (fst e) = true) ws -> dir_remove (dir_puts d ws) p = dir_remove d p.
Proof.
  induction ws as [|[n c] ws IH]; intros d H; [reflexivity|].
  inversion H as [|? ? Hn Hws]; subst. cbn [fst] in Hn.
  change (dir_puts d ((n, c) :: ws)) with (dir_puts (dir_put d n c) ws).
  rewrite (IH _ Hws). now apply dir_remove_put.
Qed.

Lemma pub_step_remove cont d a (p : string -> bool) :
  (forall m, touches a m = true -> p m = true) ->
  dir_remove (pub_step cont d a) p = dir_remove d p.
Proof.
  intros H. destruct a as [n|s t]; cbn [pub_step].
  - destruct (cont _); [|reflexivity]. apply dir_remove_put, H. cbn [touches]. apply String.eqb_refl.
  - destruct (dir_get d s); [|reflexivity].
    rewrite dir_remove_put, dir_remove_remove_eqb; [reflexivity| |]; apply H; cbn [touches];
      rewrite String.eqb_refl; [reflexivity|apply orb_true_r].
Qed.

Lemma pub_exec_remove cont (p : string -> bool) l : forall d,
  (forall a m, In a l -> touches a m = true -> p m = true) ->
  dir_remove (pub_exec cont d l) p = dir_remove d p.
Proof.
  induction l as [|a l IH]; intros d H; [reflexivity|].
  unfold pub_exec. cbn [fold_left]. fold (pub_exec cont (pub_step cont d a) l).
  rewrite IH by (intros b m Hb; apply H; now right).
  apply pub_step_remove. intros m. apply H. now left.
Qed.

(* ================================================================================ *)
(* 3. the whole plan = the model's direct write                                     *)
(* ================================================================================ *)
Definition no_tmp (d : dir) : Prop := forall n, has_suffix ".pkl.tmp" n = true -> dir_get d n = None.

Lemma pub_step_PW_some cont d n c :
  cont (final_name n) = Some c -> pub_step cont d (PW n) = dir_put d n c.
Proof. intros H. cbn [pub_step]. now rewrite H. Qed.

Lemma pub_step_PR_some cont d s t x :
  dir_get d s = Some x -> pub_step cont d (PR s t) = dir_put (dir_remove d (String.eqb s)) t x.
Proof. intros H. cbn [pub_step]. now rewrite H. Qed.

Theorem publish_all sc ws d :
  dir_wf d -> no_tmp d ->
  map fst ws = pub_dsts (final_publish sc) ->
  pub_exec (cont_of ws) d (final_publish sc) = dir_puts d ws.
Proof.
  intros Hwf Hno Hn.
  pose proof (Hno "clusters.pkl.tmp" eq_refl) as T1.
  pose proof (Hno "cluster-centroids-packed.pkl.tmp" eq_refl) as T2.
  apply dir_ext; [apply pub_exec_wf, Hwf|apply dir_puts_wf, Hwf|]. intros n.
  destruct sc; cbn in Hn.
  - destruct ws as [|[n1 c1] [|[n2 c2] [|? ?]]]; try discriminate Hn.
    injection Hn as -> ->.
    unfold pub_exec, final_publish. cbn [fold_left].
    rewrite (pub_step_PW_some _ d "clusters.pkl.tmp" c2 eq_refl).
    rewrite (pub_step_PW_some _ _ "cluster-centroids-packed.pkl.tmp" c1 eq_refl).
    erewrite (pub_step_PR_some _ _ "cluster-centroids-packed.pkl.tmp" _ c1)
      by (rewrite dir_get_put; reflexivity).
    erewrite (pub_step_PR_some _ _ "clusters.pkl.tmp" _ c2)
      by (rewrite dir_get_put, dir_get_remove, !dir_get_put; reflexivity).
    cbn [dir_puts fold_left fst snd].
    repeat (rewrite dir_get_put || rewrite dir_get_remove).
    destruct (String.eqb_spec n "clusters.pkl") as [->|N1]; [reflexivity|].
    destruct (String.eqb_spec n "cluster-centroids-packed.pkl") as [->|N2]; [reflexivity|].
    destruct (String.eqb_spec "clusters.pkl.tmp" n) as [<-|N3]; [now rewrite T1|].
    destruct (String.eqb_spec "cluster-centroids-packed.pkl.tmp" n) as [<-|N4]; [now rewrite T2|].
    destruct (String.eqb_spec n "cluster-centroids-packed.pkl.tmp"); [congruence|].
    destruct (String.eqb_spec n "clusters.pkl.tmp"); [congruence|]. reflexivity.
  - destruct ws as [|[n2 c2] [|? ?]]; try discriminate Hn.
    injection Hn as ->.
    unfold pub_exec, final_publish. cbn [fold_left].
    rewrite (pub_step_PW_some _ d "clusters.pkl.tmp" c2 eq_refl).
    erewrite (pub_step_PR_some _ _ "clusters.pkl.tmp" _ c2)
      by (rewrite dir_get_put; reflexivity).
    cbn [dir_puts fold_left fst snd].
    repeat (rewrite dir_get_put || rewrite dir_get_remove).
    destruct (String.eqb_spec n "clusters.pkl") as [->|N1]; [reflexivity|].
    destruct (String.eqb_spec "clusters.pkl.tmp" n) as [<-|N3]; [now rewrite T1|].
    destruct (String.eqb_spec n "clusters.pkl.tmp"); [congruence|]. reflexivity.
Qed.

(* for the result list of the model's final task *)
Corollary publish_all_final_task fexp c pairs ws d :
  final_task fexp c pairs = Some ws -> dir_wf d -> no_tmp d ->
  pub_exec (cont_of ws) d (final_publish (m_save_centroids c)) = dir_puts d ws.
Proof.
  intros H Hwf Hno. apply publish_all; [exact Hwf|exact Hno|].
  eapply tie_publish_names, H.
Qed.

(* ================================================================================ *)
(* 4. a crash inside the publication, for EVERY plan that passes [pub_safe]         *)
(* ================================================================================ *)
(* [pub_ok] (GenTieMrDel) plus: every rename destination is a name the next run purges, and
   clusters.pkl is a destination of the last action only *)
Definition pub_safe (l : list pub_action) : bool :=
  pub_ok l
  && forallb (fun a => match a with PW _ => true | PR _ t => is_purged t end) l
  && forallb (fun a => match a with PW _ => true | PR _ t => negb (String.eqb t "clusters.pkl") end)
             (removelast l).

Lemma tie_publish_safe : forall sc, pub_safe (final_publish sc) = true.
Proof. intros [|]; vm_compute; reflexivity. Qed.

Lemma tmp_name_purged n : str_suffix ".pkl.tmp" n = true -> is_purged n = true.
Proof.
  intros H. unfold is_purged. rewrite (has_suffix_str_suffix ".pkl.tmp" n), H.
  rewrite orb_true_r. reflexivity.
Qed.

Lemma tmp_name_not_clusters n : str_suffix ".pkl.tmp" n = true -> String.eqb n "clusters.pkl" = false.
Proof.
  intros H. destruct (String.eqb_spec n "clusters.pkl") as [->|]; [|reflexivity].
  vm_compute in H. discriminate H.
Qed.

Lemma pub_ok_forall l a :
  pub_ok l = true -> In a l ->
  match a with
  | PW n => str_suffix ".pkl.tmp" n = true
  | PR s _ => str_suffix ".pkl.tmp" s = true
  end.
Proof.
  unfold pub_ok. intros H Ha. apply andb_true_iff in H. destruct H as [H _].
  rewrite forallb_forall in H. specialize (H a Ha). destruct a as [n|s t]; [exact H|].
  apply andb_true_iff in H. apply H.
Qed.

(* every name a safe plan can touch is purged by the next run *)
Lemma pub_safe_touches_purged l a m :
  pub_safe l = true -> In a l -> touches a m = true -> is_purged m = true.
Proof.
  unfold pub_safe. intros H Ha Ht.
  apply andb_true_iff in H. destruct H as [H _]. apply andb_true_iff in H. destruct H as [Hok Hp].
  pose proof (pub_ok_forall l a Hok Ha) as Hs.
  rewrite forallb_forall in Hp. specialize (Hp a Ha).
  destruct a as [n|s t]; cbn [touches] in Ht.
  - apply String.eqb_eq in Ht. subst m. apply tmp_name_purged, Hs.
  - apply orb_true_iff in Ht. destruct Ht as [Ht|Ht]; apply String.eqb_eq in Ht; subst m.
    + apply tmp_name_purged, Hs.
    + exact Hp.
Qed.

(* no action of a strict prefix of a safe plan touches clusters.pkl *)
Lemma pub_safe_prefix_untouched l p a rest :
  pub_safe l = true -> l = (p ++ a :: rest)%list ->
  forallb (fun b => negb (touches b "clusters.pkl")) p = true.
Proof.
  unfold pub_safe. intros H ->.
  apply andb_true_iff in H. destruct H as [H Hc]. apply andb_true_iff in H. destruct H as [Hok _].
  rewrite removelast_app in Hc by discriminate. rewrite forallb_app in Hc.
  apply andb_true_iff in Hc. destruct Hc as [Hc _].
  rewrite forallb_forall in *. intros b Hb. specialize (Hc b Hb).
  pose proof (pub_ok_forall _ b Hok (in_or_app _ _ _ (or_introl Hb))) as Hs.
  destruct b as [n|s t]; cbn [touches].
  - now rewrite (tmp_name_not_clusters n Hs).
  - rewrite (tmp_name_not_clusters s Hs). cbn [orb]. exact Hc.
Qed.

(* 3/5 (a): a crash after any strict prefix leaves clusters.pkl exactly as it was *)
Theorem pub_prefix_no_final_gen l p a rest cont d :
  pub_safe l = true -> l = (p ++ a :: rest)%list ->
  dir_get (pub_exec cont d p) "clusters.pkl" = dir_get d "clusters.pkl".
Proof.
  intros H E. apply pub_exec_untouched. eapply pub_safe_prefix_untouched; eassumption.
Qed.

(* 3/5 (b): a name whose lookup differs after any prefix (strict or not) is a "*.pkl.tmp" name or
   the destination of a rename of that prefix; in both cases the next run purges it *)
Theorem pub_prefix_changes_gen l p rest cont d n :
  pub_safe l = true -> l = (p ++ rest)%list ->
  dir_get (pub_exec cont d p) n <> dir_get d n ->
  (has_suffix ".pkl.tmp" n = true \/ In n (pub_dsts p)) /\ is_purged n = true.
Proof.
  intros H -> Hd.
  assert (Ht : exists b, In b p /\ touches b n = true).
  { destruct (existsb (fun b => touches b n) p) eqn:E.
    - apply existsb_exists in E. exact E.
    - elim Hd. apply pub_exec_untouched. apply forallb_forall. intros b Hb.
      apply negb_true_iff. destruct (touches b n) eqn:Et; [|reflexivity].
      rewrite <- E. symmetry. apply existsb_exists. eauto. }
  destruct Ht as (b & Hb & Ht). split.
  - assert (Hok : pub_ok (p ++ rest) = true).
    { unfold pub_safe in H. apply andb_true_iff in H. destruct H as [H _].
      apply andb_true_iff in H. apply H. }
    pose proof (pub_ok_forall _ b Hok (in_or_app _ _ _ (or_introl Hb))) as Hs.
    destruct b as [m|s t]; cbn [touches] in Ht.
    + apply String.eqb_eq in Ht. subst m. left. now rewrite has_suffix_str_suffix.
    + apply orb_true_iff in Ht. destruct Ht as [Ht|Ht]; apply String.eqb_eq in Ht; subst n.
      * left. now rewrite has_suffix_str_suffix.
      * right. unfold pub_dsts. apply in_flat_map. exists (PR s t). split; [exact Hb|now left].
  - eapply pub_safe_touches_purged; [exact H| |exact Ht]. apply in_or_app. now left.
Qed.

Theorem pub_prefix_foreign_gen l p rest cont d n :
  pub_safe l = true -> l = (p ++ rest)%list -> is_purged n = false ->
  dir_get (pub_exec cont d p) n = dir_get d n.
Proof.
  intros H -> Hn. apply pub_exec_untouched. apply forallb_forall. intros b Hb.
  apply negb_true_iff. destruct (touches b n) eqn:Et; [|reflexivity].
  rewrite (pub_safe_touches_purged _ b n H (in_or_app _ _ _ (or_introl Hb)) Et) in Hn.
  discriminate Hn.
Qed.

(* hence the next run's purge erases every trace of the interrupted publication
   (no well-formedness of [d] needed) *)
Theorem pub_prefix_purged_gen l p rest cont d :
  pub_safe l = true -> l = (p ++ rest)%list ->
  dir_remove (pub_exec cont d p) is_purged = dir_remove d is_purged.
Proof.
  intros H ->. apply pub_exec_remove. intros a m Ha.
  apply (pub_safe_touches_purged _ a m H). apply in_or_app. now left.
Qed.

(* ---- the instances for the extracted plan ---- *)
Theorem publish_prefix_no_final sc ws d p a rest :
  final_publish sc = (p ++ a :: rest)%list ->
  dir_get (pub_exec (cont_of ws) d p) "clusters.pkl" = dir_get d "clusters.pkl".
Proof. intros E. exact (pub_prefix_no_final_gen _ p a rest _ d (tie_publish_safe sc) E). Qed.

(* what a strict prefix of the extracted plan can add or change *)
Theorem publish_prefix_changes sc ws d p a rest n :
  final_publish sc = (p ++ a :: rest)%list ->
  dir_get (pub_exec (cont_of ws) d p) n <> dir_get d n ->
  (has_suffix ".pkl.tmp" n = true \/ n = "cluster-centroids-packed.pkl") /\ is_purged n = true.
Proof.
  intros E Hd.
  destruct (pub_prefix_changes_gen _ p (a :: rest) _ d n (tie_publish_safe sc) E Hd) as [[Hs|Hin] Hp];
    (split; [|exact Hp]); [now left|].
  destruct sc; cbn [final_publish] in E.
  - destruct p as [|a1 [|a2 [|a3 [|a4 p]]]]; cbn [app] in E; injection E; intros; subst;
      cbn in Hin; try tauto.
    + destruct Hin as [<-|[]]. now right.
    + destruct p; discriminate.
  - destruct p as [|a1 [|a2 p]]; cbn [app] in E; injection E; intros; subst; cbn in Hin; try tauto.
    destruct p; discriminate.
Qed.

Theorem publish_prefix_purged sc ws d p rest :
  final_publish sc = (p ++ rest)%list ->
  dir_remove (pub_exec (cont_of ws) d p) is_purged = dir_remove d is_purged.
Proof. intros E. exact (pub_prefix_purged_gen _ p rest _ d (tie_publish_safe sc) E). Qed.

Theorem publish_prefix_foreign sc ws d p rest n :
  final_publish sc = (p ++ rest)%list -> is_purged n = false ->
  dir_get (pub_exec (cont_of ws) d p) n = dir_get d n.
Proof. intros E. exact (pub_prefix_foreign_gen _ p rest _ d n (tie_publish_safe sc) E). Qed.

(* ================================================================================ *)
(* 5. [pub_ok] alone does not imply any of this                                     *)
(* ================================================================================ *)
(* [pub_ok] constrains the destination of the LAST rename only.  A plan that also renames onto
   clusters.pkl earlier passes it, and a crash after that rename leaves a (premature) cluster
   file: the extra condition is the third conjunct of [pub_safe]. *)
Definition bad_plan_early : list pub_action :=
  [PW "clusters.pkl.tmp"; PR "clusters.pkl.tmp" "clusters.pkl";
   PW "clusters.pkl.tmp"; PR "clusters.pkl.tmp" "clusters.pkl"].
Theorem pub_ok_prefix_no_final_refuted :
  pub_ok bad_plan_early = true /\
  exists p a rest ws d,
    dir_wf d /\ bad_plan_early = (p ++ a :: rest)%list /\
    dir_get (pub_exec (cont_of ws) d p) "clusters.pkl" <> dir_get d "clusters.pkl".
Proof.
  split; [vm_compute; reflexivity|].
  exists [PW "clusters.pkl.tmp"; PR "clusters.pkl.tmp" "clusters.pkl"], (PW "clusters.pkl.tmp"),
         [PR "clusters.pkl.tmp" "clusters.pkl"], [("clusters.pkl", CClusters [])], [].
  split; [apply dir_wf_nil|]. split; [reflexivity|]. vm_compute. discriminate.
Qed.

(* A plan that renames onto a foreign name passes [pub_ok] too; it overwrites a file the purge
   never touches: the extra condition is the second conjunct of [pub_safe]. *)
Definition bad_plan_foreign : list pub_action :=
  [PW "clusters.pkl.tmp"; PR "clusters.pkl.tmp" "notes.txt";
   PW "clusters.pkl.tmp"; PR "clusters.pkl.tmp" "clusters.pkl"].
Theorem pub_ok_prefix_purged_refuted :
  pub_ok bad_plan_foreign = true /\
  exists p rest ws d,
    dir_wf d /\ bad_plan_foreign = (p ++ rest)%list /\
    dir_remove (pub_exec (cont_of ws) d p) is_purged <> dir_remove d is_purged.
Proof.
  split; [vm_compute; reflexivity|].
  exists [PW "clusters.pkl.tmp"; PR "clusters.pkl.tmp" "notes.txt"],
         [PW "clusters.pkl.tmp"; PR "clusters.pkl.tmp" "clusters.pkl"],
         [("clusters.pkl", CClusters [])], [("notes.txt", COther)].
  split; [repeat constructor|]. split; [reflexivity|]. vm_compute. discriminate.
Qed.

(* [publish_all] needs [no_tmp]: a stale temporary file of the same name is consumed by the
   protocol but survives the direct write *)
Theorem publish_all_needs_no_tmp :
  exists ws d, dir_wf d /\ map fst ws = pub_dsts (final_publish false) /\
    pub_exec (cont_of ws) d (final_publish false) <> dir_puts d ws.
Proof.
  exists [("clusters.pkl", CClusters [])], [("clusters.pkl.tmp", COther)].
  split; [repeat constructor|]. split; [reflexivity|]. vm_compute. discriminate.
Qed.

(* ================================================================================ *)
(* 6. the run with the publication protocol in it                                   *)
(* ================================================================================ *)
(* two suffixes neither of which is a suffix of the other never match the same name *)
Lemma has_suffix_excl a b :
  has_suffix a b = false -> has_suffix b a = false ->
  forall n, has_suffix a n = true -> has_suffix b n = false.
Proof.
  intros Hab Hba n. induction n as [|c n IH]; cbn [has_suffix].
  - destruct (String.eqb_spec a "") as [->|]; [|discriminate]. intros _.
    destruct (String.eqb_spec b "") as [->|]; [|reflexivity]. discriminate Hab.
  - destruct (String.eqb_spec a (String c n)) as [->|Na].
    + intros _. exact Hba.
    + intros H. destruct (String.eqb_spec b (String c n)) as [->|Nb]; [|exact (IH H)].
      cbn [has_suffix] in Hab. destruct (String.eqb_spec a (String c n)); [contradiction|].
      congruence.
Qed.

Lemma tmp_not_round_file n : has_suffix ".pkl.tmp" n = true -> is_round_file n = false.
Proof.
  intros H. unfold is_round_file.
  rewrite (has_suffix_excl ".pkl.tmp" ".npy" eq_refl eq_refl n H).
  rewrite (has_suffix_excl ".pkl.tmp" ".pkl" eq_refl eq_refl n H).
  apply andb_false_r.
Qed.

Lemma dir_remove_idem d (p : string -> bool) : dir_remove (dir_remove d p) p = dir_remove d p.
Proof.
  unfold dir_remove. induction d as [|[k x] d IH]; cbn [filter fst]; [reflexivity|].
  destruct (p k) eqn:E; cbn [negb filter fst]; [exact IH|]. rewrite E. cbn [negb]. now rewrite IH.
Qed.

(* the directory just before the publication: the purged start directory plus round files *)
Definition pre_dir (d0 : dir) (w12 : writes) : dir := dir_puts (dir_remove d0 is_purged) w12.

Lemma pre_dir_wf d0 w12 : dir_wf d0 -> dir_wf (pre_dir d0 w12).
Proof. intros H. apply dir_puts_wf, dir_remove_wf, H. Qed.

Lemma pre_dir_no_tmp d0 w12 : rf_writes w12 -> no_tmp (pre_dir d0 w12).
Proof.
  intros Hrf n Hn. unfold pre_dir. rewrite dir_get_puts_other.
  - rewrite dir_get_remove. unfold is_purged. rewrite Hn, !orb_true_r. reflexivity.
  - eapply Forall_impl; [|exact Hrf]. cbv beta. intros e He Heq. subst n.
    rewrite (tmp_not_round_file _ Hn) in He. discriminate He.
Qed.

Lemma pre_dir_no_final d0 w12 : rf_writes w12 -> dir_get (pre_dir d0 w12) "clusters.pkl" = None.
Proof.
  intros Hrf. unfold pre_dir. rewrite dir_get_puts_other.
  - rewrite dir_get_remove. reflexivity.
  - eapply Forall_impl; [|exact Hrf]. intros e. apply rf_not_clusters.
Qed.

Lemma pre_dir_purged d0 w12 :
  rf_writes w12 -> dir_remove (pre_dir d0 w12) is_purged = dir_remove d0 is_purged.
Proof.
  intros Hrf. unfold pre_dir. rewrite dir_remove_puts; [apply dir_remove_idem|].
  eapply Forall_impl; [|exact Hrf]. intros e. apply round_file_purged.
Qed.

Section WithExp.
Variable fexp : float -> float.

(* the run up to the publication: the directory before it and the files to publish *)
Definition pre_publish (c : mr_cfg) (files : list (list fpv)) (d0 : dir)
  : option (dir * list (string * content)) :=
  let d1 := dir_remove d0 is_purged in
  match run_tasks d1 (initial_tasks fexp c files) with
  | None => None
  | Some d2 =>
      match mid_rounds fexp c (List.concat files) (m_rounds c) 2 d2 with
      | None => None
      | Some d3 =>
          match final_task fexp c (read_pairs d3 (prev_pairs d3 (2 + Z.of_nat (m_rounds c) - 1)%Z)) with
          | None => None
          | Some ws => Some (d3, ws)
          end
      end
  end.

(* the model's run is [pre_publish] followed by the direct write *)
Lemma run_multiround_pre c files d0 :
  run_multiround fexp c files d0 =
  option_map (fun dw => finish c (dir_puts (fst dw) (snd dw))) (pre_publish c files d0).
Proof.
  unfold run_multiround, pre_publish. cbv zeta.
  destruct (run_tasks _ _) as [d2|]; [|reflexivity].
  destruct (mid_rounds _ _ _ _ _ _) as [d3|]; [|reflexivity].
  destruct (final_task _ _ _) as [ws|]; reflexivity.
Qed.

(* the run that publishes through the extracted protocol ... *)
Definition run_multiround_pub (c : mr_cfg) (files : list (list fpv)) (d0 : dir) : option dir :=
  option_map (fun dw => finish c (pub_exec (cont_of (snd dw)) (fst dw)
                                           (final_publish (m_save_centroids c))))
             (pre_publish c files d0).
(* ... and the directory left behind when it is interrupted after [k] actions of the
   publication (k < length of the plan: a crash inside the publication) *)
Definition crash_in_publish (c : mr_cfg) (files : list (list fpv)) (d0 : dir) (k : nat) : option dir :=
  option_map (fun dw => pub_exec (cont_of (snd dw)) (fst dw)
                                 (firstn k (final_publish (m_save_centroids c))))
             (pre_publish c files d0).

Lemma pre_publish_spec c files d0 d3 ws :
  pre_publish c files d0 = Some (d3, ws) ->
  exists w12 pairs, d3 = pre_dir d0 w12 /\ rf_writes w12 /\ final_task fexp c pairs = Some ws.
Proof.
  unfold pre_publish. cbv zeta. rewrite run_tasks_writes.
  destruct (tasks_writes _) as [w1|] eqn:E1; cbn [option_map]; [|discriminate].
  rewrite mid_rounds_writes.
  destruct (mid_writes _ _ _ _ _ _) as [w2|] eqn:E2; cbn [option_map]; [|discriminate].
  destruct (final_task _ _ _) as [w3|] eqn:E3; [|discriminate].
  intros H. injection H as <- <-. exists (w1 ++ w2)%list. eexists.
  split; [unfold pre_dir; now rewrite dir_puts_app|]. split; [|exact E3].
  apply Forall_app. split.
  - eapply tasks_writes_rf; [apply initial_tasks_rf|exact E1].
  - eapply mid_writes_rf, E2.
Qed.

(* the gap closed: the run that goes through temporary files and renames IS the model's run *)
Theorem run_multiround_pub_eq c files d0 :
  dir_wf d0 -> run_multiround_pub c files d0 = run_multiround fexp c files d0.
Proof.
  intros Hwf. rewrite run_multiround_pre. unfold run_multiround_pub.
  destruct (pre_publish c files d0) as [[d3 ws]|] eqn:E; [|reflexivity].
  cbn [option_map fst snd]. f_equal. f_equal.
  destruct (pre_publish_spec _ _ _ _ _ E) as (w12 & pairs & -> & Hrf & Hf).
  eapply publish_all_final_task; [exact Hf|apply pre_dir_wf, Hwf|apply pre_dir_no_tmp, Hrf].
Qed.

Lemma pre_publish_purge_only c files d d' :
  dir_remove d is_purged = dir_remove d' is_purged -> pre_publish c files d = pre_publish c files d'.
Proof. unfold pre_publish. cbv zeta. now intros ->. Qed.

Lemma run_multiround_purge_only c files d d' :
  dir_remove d is_purged = dir_remove d' is_purged ->
  run_multiround fexp c files d = run_multiround fexp c files d'.
Proof. intros H. rewrite !run_multiround_pre, (pre_publish_purge_only c files d d' H). reflexivity. Qed.

(* ---- a crash inside the publication of a run ---- *)
(* no cluster file, whatever the start directory held *)
Theorem crash_in_publish_no_final c files d0 k dI :
  crash_in_publish c files d0 k = Some dI ->
  (k < List.length (final_publish (m_save_centroids c)))%nat ->
  dir_get dI "clusters.pkl" = None.
Proof.
  unfold crash_in_publish. intros H Hk.
  destruct (pre_publish c files d0) as [[d3 ws]|] eqn:E; [|discriminate].
  cbn [option_map fst snd] in H. injection H as <-.
  destruct (pre_publish_spec _ _ _ _ _ E) as (w12 & pairs & -> & Hrf & _).
  set (l := final_publish (m_save_centroids c)) in *.
  destruct (skipn k l) as [|a rest] eqn:Es.
  - apply (f_equal (@List.length _)) in Es. rewrite skipn_length in Es. cbn in Es. lia.
  - rewrite (publish_prefix_no_final (m_save_centroids c) ws _ (firstn k l) a rest).
    + apply pre_dir_no_final, Hrf.
    + fold l. rewrite <- Es. symmetry. apply firstn_skipn.
Qed.

(* the purge of the next run sees exactly what the purge of the interrupted run saw *)
Theorem crash_in_publish_purged c files d0 k dI :
  crash_in_publish c files d0 k = Some dI ->
  dir_remove dI is_purged = dir_remove d0 is_purged.
Proof.
  unfold crash_in_publish. intros H.
  destruct (pre_publish c files d0) as [[d3 ws]|] eqn:E; [|discriminate].
  cbn [option_map fst snd] in H. injection H as <-.
  destruct (pre_publish_spec _ _ _ _ _ E) as (w12 & pairs & -> & Hrf & _).
  rewrite (publish_prefix_purged (m_save_centroids c) ws _ _
             (skipn k (final_publish (m_save_centroids c)))).
  - apply pre_dir_purged, Hrf.
  - symmetry. apply firstn_skipn.
Qed.

(* so ANY later run (same or other parameters, model or protocol form) behaves as if the
   interrupted run had never been started *)
Theorem crash_in_publish_forgotten c files d0 k dI c' files' :
  crash_in_publish c files d0 k = Some dI ->
  run_multiround fexp c' files' dI = run_multiround fexp c' files' d0 /\
  run_multiround_pub c' files' dI = run_multiround_pub c' files' d0.
Proof.
  intros H. pose proof (crash_in_publish_purged _ _ _ _ _ H) as P. split.
  - apply run_multiround_purge_only, P.
  - unfold run_multiround_pub. now rewrite (pre_publish_purge_only c' files' dI d0 P).
Qed.

(* 4. interrupted inside the publication, then run again in the same directory: the final files
   of a fresh run, and the foreign files of the ORIGINAL directory *)
Theorem crash_in_publish_then_rerun c files d0 k dI c' files' :
  dir_wf d0 -> crash_in_publish c files d0 k = Some dI ->
  match run_multiround_pub c' files' dI, run_multiround fexp c' files' [] with
  | Some d, Some e =>
      dir_get d "clusters.pkl" = dir_get e "clusters.pkl" /\
      dir_get d "cluster-centroids-packed.pkl" = dir_get e "cluster-centroids-packed.pkl" /\
      (forall n, is_purged n = true -> dir_get d n = dir_get e n) /\
      (forall n, is_purged n = false -> dir_get d n = dir_get d0 n)
  | None, None => True
  | _, _ => False
  end.
Proof.
  intros Hwf H. destruct (crash_in_publish_forgotten _ _ _ _ _ c' files' H) as [_ ->].
  rewrite (run_multiround_pub_eq c' files' d0 Hwf). apply rerun_equals_fresh, Hwf.
Qed.

(* the same for an arbitrary directory [d] and any prefix of any safe plan, with any contents *)
Theorem crash_in_publish_then_rerun_gen l p rest cont d c files :
  pub_safe l = true -> l = (p ++ rest)%list -> dir_wf d ->
  let dI := pub_exec cont d p in
  run_multiround fexp c files dI = run_multiround fexp c files d /\
  match run_multiround fexp c files dI, run_multiround fexp c files [] with
  | Some r, Some e =>
      dir_get r "clusters.pkl" = dir_get e "clusters.pkl" /\
      dir_get r "cluster-centroids-packed.pkl" = dir_get e "cluster-centroids-packed.pkl" /\
      (forall n, is_purged n = true -> dir_get r n = dir_get e n) /\
      (forall n, is_purged n = false -> dir_get r n = dir_get d n)
  | None, None => True
  | _, _ => False
  end.
Proof.
  intros Hs E Hwf dI.
  assert (R : run_multiround fexp c files dI = run_multiround fexp c files d).
  { apply run_multiround_purge_only. exact (pub_prefix_purged_gen l p rest cont d Hs E). }
  split; [exact R|]. rewrite R. apply rerun_equals_fresh, Hwf.
Qed.
End WithExp.

(* ================================================================================ *)
(* 7. executions                                                                    *)
(* ================================================================================ *)
Module Demo.
Open Scope Z_scope.
(* the directory just before the publication: a round file of this run and a foreign file *)
Definition d : dir :=
  [("notes.txt", COther); ("round-1-idxs.label-0-uint08.pkl", CIdxs [[0; 1; 2]])].
Definition cen : content := CCentroids [[true; false]; [false; true]].
Definition clu : content := CClusters [[0; 1]; [2]].
Definition ws_t : list (string * content) :=
  [("cluster-centroids-packed.pkl", cen); ("clusters.pkl", clu)].
Definition ws_f : list (string * content) := [("clusters.pkl", clu)].
Definition after (sc : bool) (ws : list (string * content)) (k : nat) : dir :=
  pub_exec (cont_of ws) d (firstn k (final_publish sc)).

Example d_ok : dir_wf d /\ no_tmp d.
Proof.
  split; [repeat constructor|]. intros n Hn. unfold d. cbn [dir_get].
  destruct (String.eqb_spec "notes.txt" n) as [<-|_]; [discriminate Hn|].
  destruct (String.eqb_spec "round-1-idxs.label-0-uint08.pkl" n) as [<-|_]; [discriminate Hn|].
  reflexivity.
Qed.

(* save_centroids = true: the directory after 0, 1, 2, 3 and all 4 actions *)
Example plan_true_steps :
  after true ws_t 0 = d /\
  after true ws_t 1 =
    [("clusters.pkl.tmp", clu); ("notes.txt", COther);
     ("round-1-idxs.label-0-uint08.pkl", CIdxs [[0; 1; 2]])] /\
  after true ws_t 2 =
    [("cluster-centroids-packed.pkl.tmp", cen); ("clusters.pkl.tmp", clu); ("notes.txt", COther);
     ("round-1-idxs.label-0-uint08.pkl", CIdxs [[0; 1; 2]])] /\
  after true ws_t 3 =
    [("cluster-centroids-packed.pkl", cen); ("clusters.pkl.tmp", clu); ("notes.txt", COther);
     ("round-1-idxs.label-0-uint08.pkl", CIdxs [[0; 1; 2]])] /\
  after true ws_t 4 =
    [("cluster-centroids-packed.pkl", cen); ("clusters.pkl", clu); ("notes.txt", COther);
     ("round-1-idxs.label-0-uint08.pkl", CIdxs [[0; 1; 2]])] /\
  after true ws_t 4 = dir_puts d ws_t.
Proof. vm_compute. repeat split; reflexivity. Qed.

(* save_centroids = false *)
Example plan_false_steps :
  after false ws_f 0 = d /\
  after false ws_f 1 =
    [("clusters.pkl.tmp", clu); ("notes.txt", COther);
     ("round-1-idxs.label-0-uint08.pkl", CIdxs [[0; 1; 2]])] /\
  after false ws_f 2 =
    [("clusters.pkl", clu); ("notes.txt", COther);
     ("round-1-idxs.label-0-uint08.pkl", CIdxs [[0; 1; 2]])] /\
  after false ws_f 2 = dir_puts d ws_f.
Proof. vm_compute. repeat split; reflexivity. Qed.

(* after every strict prefix: no cluster file, and the purge leaves the foreign file only *)
Example crash_points :
  forallb (fun k => match dir_get (after true ws_t k) "clusters.pkl" with None => true | _ => false end)
          [0; 1; 2; 3]%nat = true /\
  map (fun k => dir_remove (after true ws_t k) is_purged) [0; 1; 2; 3; 4]%nat =
  repeat [("notes.txt", COther)] 5.
Proof. vm_compute. split; reflexivity. Qed.

(* a whole run (the C14 demo input), interrupted after 1, 2 and 3 of the 4 actions of its
   publication in a directory holding a stale result and a foreign file, then run again *)
Definition d0 : dir :=
  [("clusters.pkl", CClusters [[42; 43]; [44]]); ("notes.txt", COther)].
Definition files : list (list fpv) :=
  [[[true;true;false;false;true;false;false;false];
    [true;true;false;false;false;false;false;false];
    [false;false;true;true;false;false;true;false]];
   [[false;false;true;true;false;false;false;false];
    [true;true;false;false;true;false;false;true]]].
Definition c : mr_cfg := mkMr 3 0.5 0 0.0625 NDiameter NDiameter None 1 2 RFull true true true.
Definition names_of (o : option dir) : list string :=
  match o with Some x => filter (fun n => negb (is_round_file n)) (dir_names x) | None => [] end.

Example run_crash_names :
  names_of (crash_in_publish (fun x => x) c files d0 1) = ["clusters.pkl.tmp"; "notes.txt"] /\
  names_of (crash_in_publish (fun x => x) c files d0 2) =
    ["cluster-centroids-packed.pkl.tmp"; "clusters.pkl.tmp"; "notes.txt"] /\
  names_of (crash_in_publish (fun x => x) c files d0 3) =
    ["cluster-centroids-packed.pkl"; "clusters.pkl.tmp"; "notes.txt"] /\
  names_of (crash_in_publish (fun x => x) c files d0 4) =
    ["cluster-centroids-packed.pkl"; "clusters.pkl"; "notes.txt"].
Proof. vm_compute. repeat split; reflexivity. Qed.

Example run_crash_then_rerun :
  forall k, In k [0; 1; 2; 3; 4]%nat ->
  match crash_in_publish (fun x => x) c files d0 k with
  | Some dI =>
      run_multiround_pub (fun x => x) c files dI = run_multiround (fun x => x) c files [("notes.txt", COther)] /\
      option_map dir_names (run_multiround_pub (fun x => x) c files dI) =
        Some ["cluster-centroids-packed.pkl"; "clusters.pkl"; "notes.txt"] /\
      option_map (fun r => dir_get r "clusters.pkl") (run_multiround_pub (fun x => x) c files dI) =
        Some (Some (CClusters [[0; 1; 4]; [2; 3]]))
  | None => False
  end.
Proof.
  intros k Hk. cbn [In] in Hk.
  repeat (destruct Hk as [<-|Hk]; [vm_compute; repeat split; reflexivity|]). destruct Hk.
Qed.
End Demo.
