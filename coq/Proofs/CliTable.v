(* CliTable.v — the case table of the output-directory validation (C15). *)
From BB Require Import Model.Cli.

(* ====================================================================== *)
(* B — validate_out                                                        *)
(* ====================================================================== *)
Lemma validate_not_dir nonempty overwrite :
  validate_out true false nonempty overwrite = VdErrNotDir.
Proof. reflexivity. Qed.

Theorem validate_total ex isd ne ow :
  (validate_out ex isd ne ow = VdOk <-> (ex = false \/ (isd = true /\ ne = false))) /\
  (validate_out ex isd ne ow = VdCleared <->
     (ex = true /\ isd = true /\ ne = true /\ ow = true)) /\
  (validate_out ex isd ne ow = VdErrHasFiles <->
     (ex = true /\ isd = true /\ ne = true /\ ow = false)) /\
  (validate_out ex isd ne ow = VdErrNotDir <-> (ex = true /\ isd = false)).
Proof.
  destruct ex, isd, ne, ow; cbn; repeat split; intros; try discriminate; try tauto;
    repeat match goal with H : _ /\ _ |- _ => destruct H | H : _ \/ _ |- _ => destruct H end;
    try discriminate; auto.
Qed.

(* the same table as a function: the result is determined by, and determines, the case *)
Corollary validate_cases ex isd ne ow :
  validate_out ex isd ne ow =
  if negb ex || (isd && negb ne) then VdOk
  else if negb isd then VdErrNotDir
  else if ow then VdCleared else VdErrHasFiles.
Proof. destruct ex, isd, ne, ow; reflexivity. Qed.
