(* CliFacts.v — laws of the CLI decision logic (C15). *)
From BB Require Import Model.Cli.
From Coq Require Import Lia.
Open Scope Z_scope.

Lemma nonempty_refused ex : validate_out ex true true false = if ex then VdErrHasFiles else VdOk.
Proof. destruct ex; reflexivity. Qed.
Lemma refused_iff ex isd ne ow :
  validate_out ex isd ne ow = VdErrHasFiles <-> (ex = true /\ isd = true /\ ne = true /\ ow = false).
Proof. destruct ex, isd, ne, ow; cbn; split; intros H; try discriminate; intuition congruence. Qed.
Lemma overwrite_clears ex isd ne :
  validate_out ex isd ne true = VdCleared <-> (ex = true /\ isd = true /\ ne = true).
Proof. destruct ex, isd, ne; cbn; split; intros H; try discriminate; intuition congruence. Qed.
Lemma overwrite_never_refuses ex isd ne : validate_out ex isd ne true <> VdErrHasFiles.
Proof. destruct ex, isd, ne; cbn; discriminate. Qed.
Lemma empty_ok isd ow : validate_out true true false ow = VdOk /\ validate_out false isd false ow = VdOk.
Proof. split; reflexivity. Qed.

Lemma norm_refine_spec num rounds : 0 <= num ->
  match rounds with Some r => 0 <= r | None => True end ->
  let '(n', r') := norm_refine num rounds in
  0 <= r' /\ (0 < r' -> 1 <= n') /\ (rounds = None -> r' = if 0 <? num then 1 else 0) /\
  (0 < num -> n' = num).
Proof.
  intros Hn Hr. unfold norm_refine. destruct rounds as [r|].
  - destruct (Z.ltb_spec 0 r) as [L|L]; destruct (Z.eqb_spec num 0) as [E|E]; cbn [andb];
      (split; [lia|split; [intros; lia|split; [discriminate|intros; lia]]]).
  - destruct (Z.ltb_spec 0 num) as [L|L].
    + destruct (Z.ltb_spec 0 1) as [_|?]; [|lia].
      destruct (Z.eqb_spec num 0) as [E|E]; [lia|]. cbn [andb].
      split; [lia|split; [intros; lia|split; [reflexivity|intros; lia]]].
    + destruct (Z.ltb_spec 0 0) as [?|_]; [lia|]. cbn [andb].
      split; [lia|split; [intros; lia|split; [reflexivity|intros; lia]]].
Qed.

Section WithExp.
Variable fexp : float -> float.

(* for every documented pair of criterion names and every tolerance, the constructor and the
   later set_merge succeed: the run cannot abort on its configuration *)
Lemma get_fn_total n t : n <> NUnknown -> exists c, get_merge_accept_fn fexp n t = Some c.
Proof. destruct n; intros H; try congruence; cbn; eexists; reflexivity. Qed.

Lemma plan_config_total o :
  ro_merge o <> NUnknown -> ro_refine_merge o <> NUnknown -> plan_config fexp o <> None.
Proof.
  intros H1 H2. unfold plan_config, ctor.
  destruct (get_fn_total (ro_merge o) (opt_tol (Some (ro_tol o))) H1) as [c1 E1].
  rewrite E1.
  destruct (norm_refine (ro_refine_num o) (ro_refine_rounds o)) as [n r].
  destruct (negb (ro_recluster_rounds o =? 0) || negb (r =? 0)); [|discriminate].
  unfold set_merge.
  destruct (get_fn_total (ro_refine_merge o) (ro_tol o) H2) as [c2 E2].
  rewrite E2. discriminate.
Qed.
End WithExp.

(* the plan fits every input file exactly once, in order, before any refinement *)
Definition is_fit (a : api_call) : bool := match a with AFitFile _ => true | _ => false end.
Lemma filter_fit_map l : filter is_fit (map AFitFile l) = map AFitFile l.
Proof. induction l as [|x l IH]; cbn; congruence. Qed.
Lemma filter_fit_repeat x k : is_fit x = false -> filter is_fit (repeat x k) = [].
Proof. intros Hx. induction k as [|k IH]; cbn; [reflexivity|now rewrite Hx]. Qed.

Lemma run_plan_fits o n :
  filter (fun a => match a with AFitFile _ => true | _ => false end) (run_plan o n) =
  map AFitFile (seq 0 n).
Proof.
  change (filter is_fit (run_plan o n) = map AFitFile (seq 0 n)).
  unfold run_plan. destruct (norm_refine _ _) as [num rounds].
  assert (Ht : filter is_fit ((if ro_save_tree o then [ASaveTree] else []) ++ [ASave]) = [])
    by (destruct (ro_save_tree o); reflexivity).
  destruct (negb (ro_recluster_rounds o =? 0) || negb (rounds =? 0)).
  - cbn [app]. cbn [filter is_fit]. rewrite !filter_app, filter_fit_map.
    cbn [filter is_fit]. rewrite !filter_app, !filter_fit_repeat by reflexivity.
    rewrite <- filter_app, Ht. cbn. now rewrite app_nil_r.
  - cbn [app]. cbn [filter is_fit]. rewrite filter_app, filter_fit_map.
    change (filter is_fit ([] ++ (if ro_save_tree o then [ASaveTree] else []) ++ [ASave]))
      with (filter is_fit ((if ro_save_tree o then [ASaveTree] else []) ++ [ASave])).
    rewrite Ht. now rewrite app_nil_r.
Qed.

(* the tree, when requested, is saved exactly once, after every call that changes the estimator
   and right before the results are read out: the saved tree is the final tree *)
Definition is_out (a : api_call) : bool := match a with ASaveTree | ASave => true | _ => false end.
Lemma run_plan_tree_last o n :
  exists pre, Forall (fun a => is_out a = false) pre /\
    run_plan o n = pre ++ (if ro_save_tree o then [ASaveTree; ASave] else [ASave]).
Proof.
  unfold run_plan. destruct (norm_refine _ _) as [num rounds].
  set (mid := if negb (ro_recluster_rounds o =? 0) || negb (rounds =? 0) then _ else _).
  exists ([ACtor (ro_merge o) (ro_tol o) (ro_thr o) (ro_bf o)] ++ map AFitFile (seq 0 n) ++ mid).
  split.
  - apply Forall_app. split; [repeat constructor|]. apply Forall_app. split.
    + apply Forall_forall. intros a Ha. apply in_map_iff in Ha. destruct Ha as (k & <- & _). reflexivity.
    + subst mid. destruct (negb (ro_recluster_rounds o =? 0) || negb (rounds =? 0)); [|constructor].
      apply Forall_app. split; [repeat constructor|]. apply Forall_app.
      split; apply Forall_forall; intros a Ha; apply repeat_spec in Ha; subst a; reflexivity.
  - rewrite <- !app_assoc. destruct (ro_save_tree o); reflexivity.
Qed.
