(* TreeShape.v — shape invariant: caches mirror entries, rows have the tree's width,
   inner nodes are non-empty; both halves of a split are non-empty. *)
From BB Require Import Model.Tree Proofs.ListFacts Proofs.TreeDefs Proofs.TreeRel.
From Coq Require Import Lia Permutation FloatAxioms.
Open Scope Z_scope.

Lemma SFltb_irrefl f : SFltb f f = false.
Proof.
  destruct f as [s| s| |s m e]; cbn; try reflexivity.
  - destruct s; reflexivity.
  - destruct s; rewrite Z.compare_refl; cbn; rewrite ?Pos.compare_cont_refl; reflexivity.
Qed.
Lemma ltb_irrefl x : (x <? x)%float = false.
Proof. rewrite ltb_spec. apply SFltb_irrefl. Qed.

Section Shape.
Variable fexp : float -> float.
Variable nf : nat.
Variable c : crit.
Variable thr : float.

(* the one fact about Tanimoto the structure depends on; discharged in FloatFacts *)
Hypothesis Hsim : forall a b : fpv,
    length a = nf -> length b = nf -> (sim a a <? sim a b)%float = false.

Definition ls_len (s : sub) : Prop := length (sls s) = nf.
Definition sub_len (s : sub) : Prop := length (sls s) = nf /\ length (scent s) = nf.

Fixpoint shape (nd : node) : Prop :=
  match nd with
  | Leaf _ bf es cache => 1 <= bf /\ cache = map scent es /\ Forall sub_len es
  | Inner bf es cache =>
      1 <= bf /\ cache = map scent (ents_subs es) /\ es <> ENil /\ shape_e es
  end
with shape_e (es : ents) : Prop :=
  match es with
  | ENil => True
  | ECons e ch tl => sub_len e /\ shape ch /\ shape_e tl
  end.

Lemma centroid_fpv_length ls n : length (centroid_fpv ls n) = length ls.
Proof.
  unfold centroid_fpv, centroid_vals. destruct (n <=? 1); now rewrite !map_length.
Qed.

Lemma upd_sub_ls_len s t : ls_len s -> ls_len t -> sub_len (upd_sub s t).
Proof.
  unfold ls_len, sub_len, upd_sub; cbn. intros H1 H2.
  rewrite centroid_fpv_length, map2_length, H1, H2. split; apply Nat.min_id.
Qed.

Lemma merge_sub_len s t m :
  merge_sub fexp c thr s t = Some m -> ls_len s -> ls_len t -> sub_len m.
Proof.
  unfold merge_sub. intros H H1 H2.
  destruct (accept _ _ _ _ _ _ _ _ _); [|discriminate]. injection H as <-.
  unfold sub_len, ls_len in *; cbn.
  rewrite centroid_fpv_length, map_length, map2_length, H1, H2. split; apply Nat.min_id.
Qed.

Lemma sub_len_ls s : sub_len s -> ls_len s.
Proof. now intros [H _]. Qed.

Lemma fold_upd_len l : forall t,
  ls_len t -> Forall sub_len l ->
  ls_len (fold_left upd_sub l t) /\ (l <> [] -> sub_len (fold_left upd_sub l t)).
Proof.
  induction l as [|x l IH]; intros t Ht Hl; cbn.
  - split; [assumption|congruence].
  - inversion Hl as [|? ? Hx Hl']; subst.
    pose proof (upd_sub_ls_len t x Ht (sub_len_ls _ Hx)) as Hu.
    destruct (IH (upd_sub t x) (sub_len_ls _ Hu) Hl') as [I1 I2].
    split; [assumption|]. intros _.
    destruct l as [|y l]; [exact Hu|]. apply I2. discriminate.
Qed.

Lemma empty_sub_ls_len : ls_len (empty_sub nf).
Proof. unfold ls_len, empty_sub; cbn. apply repeat_length. Qed.

(* ---------- the mask has both values ---------- *)
Lemma mask_core Y f1 f2 y1 y2 s1 s2 :
  Forall (fun y => length y = nf) Y -> (2 <= length Y)%nat ->
  (f1 < length Y)%nat -> (f2 < length Y)%nat ->
  y1 = nth f1 Y [] -> y2 = nth f2 Y [] ->
  s1 = map (fun y => sim y y1) Y -> s2 = map (fun y => sim y y2) Y ->
  let m := split_mask 0 f1 s1 s2 in
  length m = length Y /\ In true m /\ In false m.
Proof.
  intros HY Hlen Hf1 Hf2 Ey1 Ey2 Es1 Es2. cbv zeta.
  assert (Ls1 : length s1 = length Y) by (rewrite Es1; apply map_length).
  assert (Ls2 : length s2 = length Y) by (rewrite Es2; apply map_length).
  assert (Lm : length (split_mask 0 f1 s1 s2) = length Y).
  { rewrite split_mask_length, Ls1, Ls2. apply Nat.min_id. }
  split; [exact Lm|].
  assert (Hnth : forall j, (j < length Y)%nat ->
            nth j (split_mask 0 f1 s1 s2) false =
            Nat.eqb j f1 || fgt (sim (nth j Y []) y1) (sim (nth j Y []) y2)).
  { intros j Hj. rewrite split_mask_nth by lia. cbn [Nat.add].
    f_equal. f_equal.
    - rewrite Es1.
      assert (Hj' : (j < length (map (fun y => sim y y1) Y))%nat) by (rewrite map_length; exact Hj).
      rewrite (nth_indep _ 0%float (sim [] y1) Hj').
      apply (map_nth (fun y => sim y y1) Y [] j).
    - rewrite Es2.
      assert (Hj' : (j < length (map (fun y => sim y y2) Y))%nat) by (rewrite map_length; exact Hj).
      rewrite (nth_indep _ 0%float (sim [] y2) Hj').
      apply (map_nth (fun y => sim y y2) Y [] j). }
  split.
  - (* true at f1 *)
    replace true with (nth f1 (split_mask 0 f1 s1 s2) false).
    + apply nth_In. lia.
    + rewrite Hnth by lia. now rewrite Nat.eqb_refl.
  - (* false somewhere *)
    destruct (Nat.eq_dec f2 f1) as [E|NE].
    + (* y2 = y1: every comparison is x > x *)
      assert (Ey : y2 = y1) by (rewrite Ey2, Ey1; now rewrite E).
      set (j := if Nat.eqb f1 0 then 1%nat else 0%nat).
      assert (Hj : (j < length Y)%nat) by (unfold j; destruct (Nat.eqb f1 0); lia).
      assert (Hjf : Nat.eqb j f1 = false).
      { unfold j. destruct (Nat.eqb f1 0) eqn:E0.
        - apply Nat.eqb_eq in E0. rewrite E0. reflexivity.
        - apply Nat.eqb_neq. apply Nat.eqb_neq in E0. lia. }
      replace false with (nth j (split_mask 0 f1 s1 s2) false).
      * apply nth_In. lia.
      * rewrite Hnth by lia. rewrite Hjf, Ey. cbn. unfold fgt. apply ltb_irrefl.
    + replace false with (nth f2 (split_mask 0 f1 s1 s2) false).
      * apply nth_In. lia.
      * rewrite Hnth by lia.
        replace (Nat.eqb f2 f1) with false by (symmetry; now apply Nat.eqb_neq).
        cbn. rewrite <- Ey2. unfold fgt.
        assert (L2 : length y2 = nf).
        { rewrite Forall_forall in HY. apply HY. rewrite Ey2. apply nth_In. lia. }
        assert (L1 : length y1 = nf).
        { rewrite Forall_forall in HY. apply HY. rewrite Ey1. apply nth_In. lia. }
        apply Hsim; assumption.
Qed.

Lemma most_dissimilar_mask Y :
  Forall (fun y => length y = nf) Y -> (2 <= length Y)%nat ->
  let '(f1, _, s1, s2) := most_dissimilar nf Y in
  let m := split_mask 0 f1 s1 s2 in
  length m = length Y /\ In true m /\ In false m.
Proof.
  intros HY Hlen. unfold most_dissimilar. cbv beta iota zeta.
  eapply mask_core; try reflexivity; try assumption.
  - pose proof (argmin_f_lt (map (fun y => sim y (centroid_fpv (colsum nf Y) (zlen Y))) Y)) as H.
    rewrite map_length in H. apply H. destruct Y; cbn in *; [lia|discriminate].
  - match goal with |- (argmin_f ?l < _)%nat => pose proof (argmin_f_lt l) as H end.
    rewrite map_length in H. apply H. destruct Y; cbn in *; [lia|discriminate].
Qed.
End Shape.

(* ================= preservation of [shape] by insertion ================= *)
Section ShapePres.
Variable fexp : float -> float.
Variable nf : nat.
Variable c : crit.
Variable thr : float.
Hypothesis Hsim : forall a b : fpv,
    length a = nf -> length b = nf -> (sim a a <? sim a b)%float = false.

Notation shape := (shape nf).
Notation shape_e := (shape_e nf).
Notation sub_len := (sub_len nf).
Notation ls_len := (ls_len nf).

Definition n_entries (nd : node) : nat :=
  match nd with Leaf _ _ es _ => length es | Inner _ es _ => ents_len es end.

Lemma shape_e_elist es : shape_e es <-> Forall (fun p => sub_len (fst p) /\ shape (snd p)) (elist es).
Proof.
  induction es as [|e ch tl IH]; cbn.
  - split; auto.
  - rewrite IH. split.
    + intros (A & B & C). constructor; auto.
    + intros H. inversion H; subst. cbn in *. tauto.
Qed.

Lemma Forall_sel {A} (P : A -> Prop) b m l : Forall P l -> Forall P (sel b m l).
Proof.
  revert l; induction m as [|mb m IH]; intros [|x l] H; cbn; auto.
  inversion H; subst. destruct (Bool.eqb mb b); auto.
Qed.

Lemma fold_upd_fst_eq l t : fold_left upd_fst l t = fold_left upd_sub (map fst l) t.
Proof. revert t; induction l as [|p l IH]; intros t; cbn; auto. Qed.

(* what a split produces, given a well-shaped over-full node *)
Lemma split_shape nd ax t1 n1 t2 n2 ax' :
  shape nd -> (2 <= n_entries nd)%nat ->
  split_node nf nd ax = ((t1, n1), (t2, n2), ax') ->
  shape n1 /\ shape n2 /\ sub_len t1 /\ sub_len t2 /\
  (1 <= n_entries n1)%nat /\ (1 <= n_entries n2)%nat /\
  (n_entries n1 + n_entries n2 = n_entries nd)%nat.
Proof.
  destruct nd as [id bf es cache | bf es cache]; cbn [shape n_entries split_node].
  - intros (Hbf & Hc & Hes) Hn Hs.
    assert (HY : Forall (fun y => length y = nf) cache).
    { subst cache. rewrite Forall_map. eapply Forall_impl; [|exact Hes]. now intros s [_ H]. }
    assert (HL : (2 <= length cache)%nat) by (subst cache; now rewrite map_length).
    pose proof (most_dissimilar_mask nf Hsim cache HY HL) as HM.
    destruct (most_dissimilar nf cache) as [[[f1 f2] s1] s2].
    cbv zeta in HM. destruct HM as (Lm & Ht & Hf).
    assert (Lm' : length (split_mask 0 f1 s1 s2) = length es)
      by (rewrite Lm; subst cache; apply map_length).
    rewrite part_leaf_spec in Hs. cbn [app] in Hs. inversion Hs; subst t1 n1 t2 n2 ax'; clear Hs.
    set (m := split_mask 0 f1 s1 s2) in *.
    pose proof (Forall_sel sub_len true m es Hes) as F1.
    pose proof (Forall_sel sub_len false m es Hes) as F2.
    destruct (fold_upd_len nf (sel true m es) (empty_sub nf) (empty_sub_ls_len nf) F1) as [_ G1].
    destruct (fold_upd_len nf (sel false m es) (empty_sub nf) (empty_sub_ls_len nf) F2) as [_ G2].
    pose proof (sel_nonempty true m es Lm' Ht) as N1.
    pose proof (sel_nonempty false m es Lm' Hf) as N2.
    pose proof (sel_lengths m es Lm') as SL.
    cbn [shape n_entries].
    refine (conj _ (conj _ (conj _ (conj _ (conj _ (conj _ _)))))); auto.
    + destruct (sel true m es); [congruence|cbn; lia].
    + destruct (sel false m es); [congruence|cbn; lia].
  - intros (Hbf & Hc & Hne & Hes) Hn Hs.
    rewrite shape_e_elist in Hes.
    assert (HY : Forall (fun y => length y = nf) cache).
    { subst cache. rewrite ents_subs_elist, map_map, Forall_map.
      eapply Forall_impl; [|exact Hes]. now intros p [[_ H] _]. }
    assert (HL : (2 <= length cache)%nat).
    { subst cache. rewrite map_length, ents_subs_elist, map_length, <- ents_len_elist. exact Hn. }
    pose proof (most_dissimilar_mask nf Hsim cache HY HL) as HM.
    destruct (most_dissimilar nf cache) as [[[f1 f2] s1] s2].
    cbv zeta in HM. destruct HM as (Lm & Ht & Hf).
    assert (Lm' : length (split_mask 0 f1 s1 s2) = length (elist es)).
    { rewrite Lm. subst cache. now rewrite map_length, ents_subs_elist, map_length. }
    rewrite part_inner_spec in Hs. cbn [app elist] in Hs.
    inversion Hs; subst t1 n1 t2 n2 ax'; clear Hs.
    set (m := split_mask 0 f1 s1 s2) in *.
    pose proof (Forall_sel _ true m _ Hes) as F1.
    pose proof (Forall_sel _ false m _ Hes) as F2.
    pose proof (sel_nonempty true m _ Lm' Ht) as N1.
    pose proof (sel_nonempty false m _ Lm' Hf) as N2.
    pose proof (sel_lengths m _ Lm') as SL.
    assert (FS : forall l, Forall (fun p => sub_len (fst p) /\ shape (snd p)) l ->
                           Forall sub_len (map fst l)).
    { intros l Hl. rewrite Forall_map. eapply Forall_impl; [|exact Hl]. now intros p [H _]. }
    rewrite !fold_upd_fst_eq.
    destruct (fold_upd_len nf _ (empty_sub nf) (empty_sub_ls_len nf) (FS _ F1)) as [_ G1].
    destruct (fold_upd_len nf _ (empty_sub nf) (empty_sub_ls_len nf) (FS _ F2)) as [_ G2].
    cbn [shape n_entries]. rewrite !ents_len_elist, !elist_eof.
    rewrite !shape_e_elist, !elist_eof, !ents_subs_elist, !elist_eof, !map_map.
    refine (conj _ (conj _ (conj _ (conj _ (conj _ (conj _ _)))))).
    + refine (conj Hbf (conj eq_refl (conj _ F1))).
      intros E. apply (f_equal elist) in E. rewrite elist_eof in E. cbn in E. congruence.
    + refine (conj Hbf (conj eq_refl (conj _ F2))).
      intros E. apply (f_equal elist) in E. rewrite elist_eof in E. cbn in E. congruence.
    + apply G1. intros E. apply map_eq_nil in E. congruence.
    + apply G2. intros E. apply map_eq_nil in E. congruence.
    + destruct (sel true m (elist es)); [congruence|cbn; lia].
    + destruct (sel false m (elist es)); [congruence|cbn; lia].
    + exact SL.
Qed.

Lemma route_lt cache s : cache <> [] -> (route cache s < length cache)%nat.
Proof.
  intros H. unfold route.
  pose proof (argmax_f_lt (map (fun cv => sim cv (scent s)) cache)) as L.
  rewrite map_length in L. apply L. destruct cache; [congruence|discriminate].
Qed.

Lemma shape_entries_pos nd sp s ax nd' ax' :
  Ins fexp nf c thr nd s ax nd' sp ax' -> sp = true -> shape nd' -> (2 <= n_entries nd')%nat.
Proof.
  intros H. destruct H; intros E Hs; try discriminate; cbn [n_entries shape] in *.
  - destruct Hs as (Hbf & _). apply Z.ltb_lt in E. rewrite app_length. cbn. lia.
  - destruct Hs as (Hbf & _). apply Z.ltb_lt in E. lia.
Qed.

Lemma Ins_shape_mut :
  (forall nd s ax nd' sp ax',
      Ins fexp nf c thr nd s ax nd' sp ax' -> shape nd -> sub_len s -> shape nd') /\
  (forall es k s cache ax es' cache' ax',
      InsE fexp nf c thr es k s cache ax es' cache' ax' ->
      shape_e es -> cache = map scent (ents_subs es) -> sub_len s ->
      shape_e es' /\ cache' = map scent (ents_subs es') /\ (es <> ENil -> es' <> ENil)).
Proof.
  apply Ins_mutind.
  - (* leaf empty *)
    intros id bf cache s ax (Hbf & _ & _) Hs. cbn. repeat split; auto.
  - (* leaf merge *)
    intros id bf es cache s ax m Hne Hm (Hbf & Hc & Hes) Hs. cbn. subst cache.
    repeat split; auto.
    + now rewrite map_upd.
    + assert (Hr : (route (map scent es) s < length es)%nat).
      { rewrite <- (map_length scent). apply route_lt. destruct es; [congruence|discriminate]. }
      destruct (upd_split (route (map scent es) s) m s es Hr) as (l1 & l2 & E1 & E2 & _).
      rewrite E2. rewrite E1 in Hes. apply Forall_app in Hes. destruct Hes as [A B].
      inversion B as [|? ? Hx B']; subst.
      apply Forall_app. split; [assumption|]. constructor; [|assumption].
      eapply merge_sub_len; eauto; [apply Hx | apply Hs].
  - (* leaf append *)
    intros id bf es cache s ax Hne Hm (Hbf & Hc & Hes) Hs. cbn. subst cache.
    repeat split; auto.
    + now rewrite map_app.
    + apply Forall_app. split; auto.
  - (* inner *)
    intros bf es cache s ax es' cache' ax' _ IH (Hbf & Hc & Hne & Hes) Hs.
    destruct (IH Hes Hc Hs) as (A & B & C). cbn. repeat split; auto.
  - (* nil *)
    intros k s cache ax _ Hc _. repeat split; auto.
  - (* skip *)
    intros e ch tl k s cache ax tl' ctl' ax' _ IH (He & Hch & Htl) Hc Hs.
    cbn [ents_subs map] in Hc. subst cache. cbn [List.tl firstn] in *.
    destruct (IH Htl eq_refl Hs) as (A & B & _).
    cbn [shape_e ents_subs map]. subst ctl'.
    refine (conj (conj He (conj Hch A)) (conj eq_refl _)). discriminate.
  - (* split *)
    intros e ch tl s cache ax ch' ax1 t1 n1 t2 n2 ax2 HI IH Hsp (He & Hch & Htl) Hc Hs.
    specialize (IH Hch Hs).
    pose proof (shape_entries_pos _ _ _ _ _ _ HI eq_refl IH) as H2.
    destruct (split_shape _ _ _ _ _ _ _ IH H2 Hsp) as (S1 & S2 & L1 & L2 & _).
    cbn [ents_subs map] in Hc. subst cache. cbn [List.tl].
    assert (Happ : shape_e (ents_app1 tl t2 n2)).
    { apply shape_e_elist. rewrite elist_app1. apply Forall_app. split.
      - now apply shape_e_elist.
      - constructor; [cbn; auto|constructor]. }
    refine (conj (conj L1 (conj S1 Happ)) (conj _ _)).
    + cbn [ents_subs map]. now rewrite ents_subs_app1, map_app.
    + discriminate.
  - (* nosplit *)
    intros e ch tl s cache ax ch' ax1 HI IH (He & Hch & Htl) Hc Hs.
    specialize (IH Hch Hs).
    cbn [ents_subs map] in Hc. subst cache. cbn [List.tl].
    assert (Hu : sub_len (upd_sub e s)) by (apply upd_sub_ls_len; [apply He|apply Hs]).
    refine (conj (conj Hu (conj IH Htl)) (conj eq_refl _)). discriminate.
Qed.

Lemma Ins_shape nd s ax nd' sp ax' :
  Ins fexp nf c thr nd s ax nd' sp ax' -> shape nd -> sub_len s -> shape nd'.
Proof. exact (proj1 Ins_shape_mut nd s ax nd' sp ax'). Qed.

(* the root step *)
Lemma insert_root_shape bf root s ax root' ax' :
  1 <= bf -> shape root -> sub_len s ->
  insert_root fexp nf c thr bf root s ax = (root', ax') -> shape root'.
Proof.
  intros Hbf Hr Hs. unfold insert_root.
  destruct (insert fexp nf c thr root s ax) as [[r sp] ax1] eqn:Hi.
  apply insert_Ins in Hi. pose proof (Ins_shape _ _ _ _ _ _ Hi Hr Hs) as Hr'.
  destruct sp.
  - pose proof (shape_entries_pos _ _ _ _ _ _ Hi eq_refl Hr') as H2.
    destruct (split_node nf r ax1) as [[[t1 n1] [t2 n2]] ax2] eqn:Hsp.
    destruct (split_shape _ _ _ _ _ _ _ Hr' H2 Hsp) as (S1 & S2 & L1 & L2 & _).
    intros E. inversion E; subst. cbn [shape shape_e ents_subs map].
    refine (conj Hbf (conj eq_refl (conj _ (conj L1 (conj S1 (conj L2 (conj S2 I))))))).
    discriminate.
  - intros E. inversion E; subst. exact Hr'.
Qed.
End ShapePres.
