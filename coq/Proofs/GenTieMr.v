(* GenTieMr.v — the file names written by _save_bufs_and_mol_idxs (Gen/GMr.v, regenerated from
   bblean/multiround.py on every run) are the names of the workflow model. *)
From BB Require Import Model.Multiround Gen.NumpySem Gen.GMr.
From Coq Require Import String.
Open Scope Z_scope.

Lemma app_assoc_s (a b c : string) : ((a ++ b) ++ c)%string = (a ++ (b ++ c))%string.
Proof. induction a as [|x a IH]; cbn; [reflexivity|now rewrite IH]. Qed.

Lemma tie_save_names od label r w :
  GMr.save_names od label r (dtype_name w) = [bufs_name r label w; idxs_name r label w].
Proof.
  unfold GMr.save_names, bufs_name, idxs_name, file_suffix.
  rewrite !app_assoc_s. reflexivity.
Qed.

(* ------------------------------------------------------------------------------------------
   The glob patterns of the generated code (purge_globs, purge_names, cleanup_globs,
   prev_bufs_glob, prev_idxs_glob) select exactly the names the workflow model selects
   (is_purged, is_round_file, is_bufs_of, is_idxs_of).  The model tests prefix && suffix only;
   [glob_match] additionally checks that prefix and suffix do not overlap.  For these patterns
   the check is implied: the last character of the prefix ('-' or 's') does not occur in the
   suffix (".npy" / ".pkl"), so a suffix match can never reach back into the prefix.
   ------------------------------------------------------------------------------------------ *)
From BB Require Import Proofs.MrStrings.
From Coq Require Import Ascii Bool Lia List.
Import ListNotations.

(* T0 *)
Lemma has_suffix_str_suffix : forall a b, has_suffix a b = str_suffix a b.
Proof.
  intros a b. induction b as [|c b IH]; cbn [has_suffix str_suffix]; [reflexivity|].
  now rewrite IH.
Qed.

Lemma str_suffix_cons s c t :
  str_suffix s (String c t) = true -> s = String c t \/ str_suffix s t = true.
Proof.
  cbn [str_suffix]. destruct (String.eqb_spec s (String c t)); auto.
Qed.

Lemma str_suffix_iff s t : str_suffix s t = true <-> exists u, t = (u ++ s)%string.
Proof.
  split.
  - induction t as [|c t IH].
    + cbn [str_suffix]. destruct (String.eqb_spec s ""%string) as [->|]; [|discriminate].
      intros _. exists ""%string. reflexivity.
    + intros H. apply str_suffix_cons in H. destruct H as [->|H].
      * exists ""%string. reflexivity.
      * destruct (IH H) as (u & ->). exists (String c u). reflexivity.
  - intros (u & ->). rewrite <- has_suffix_str_suffix. apply has_suffix_app.
Qed.

Lemma str_suffix_len s t : str_suffix s t = true -> (String.length s <= String.length t)%nat.
Proof.
  intros H. apply str_suffix_iff in H. destruct H as (u & ->). rewrite slen_app. lia.
Qed.

Fixpoint has_char (c : ascii) (s : string) : bool :=
  match s with
  | EmptyString => false
  | String d tl => if Ascii.eqb d c then true else has_char c tl
  end.

Lemma has_char_app c a b : has_char c (a ++ b)%string = (has_char c a || has_char c b)%bool.
Proof.
  induction a as [|d a IH]; cbn [append has_char]; [reflexivity|].
  destruct (Ascii.eqb d c); [reflexivity|exact IH].
Qed.

Lemma has_char_mid c p v : has_char c (p ++ String c v)%string = true.
Proof.
  rewrite has_char_app. cbn [has_char]. rewrite Ascii.eqb_refl. apply orb_true_r.
Qed.

(* a suffix that does not contain [c] cannot start before an occurrence of [c] *)
Lemma str_suffix_past_char s c v : has_char c s = false ->
  forall p, str_suffix s (p ++ String c v)%string = true -> str_suffix s v = true.
Proof.
  intros Hc p. induction p as [|d p IH]; cbn [append]; intros H;
    apply str_suffix_cons in H; destruct H as [->|H]; auto.
  - cbn [has_char] in Hc. rewrite Ascii.eqb_refl in Hc. discriminate.
  - change (String d (p ++ String c v))%string with (String d p ++ String c v)%string in Hc.
    rewrite has_char_mid in Hc. discriminate.
Qed.

(* the length check of [glob_match] is implied when the last character of the prefix does
   not occur in the suffix *)
Lemma glob_len_implied p c s n : has_char c s = false ->
  String.prefix (p ++ String c "")%string n = true -> str_suffix s n = true ->
  (String.length (p ++ String c "")%string + String.length s <=? String.length n)%nat = true.
Proof.
  intros Hc Hp Hs. apply prefix_iff in Hp. destruct Hp as (v & ->).
  rewrite sapp_assoc in Hs. cbn [append] in Hs.
  apply (str_suffix_past_char s c v Hc) in Hs. apply str_suffix_len in Hs.
  apply Nat.leb_le. rewrite !slen_app. cbn [String.length] in *. lia.
Qed.

Lemma andb_implied (a b c : bool) : (a = true -> b = true -> c = true) ->
  (a && b)%bool = (a && b && c)%bool.
Proof. destruct a, b, c; cbn; intros H; auto. symmetry. auto. Qed.

Lemma glob_round_npy n :
  glob_match "round-*.npy" n = (String.prefix "round-" n && str_suffix ".npy" n)%bool.
Proof.
  unfold glob_match.
  change (split_star "round-*.npy") with (Some ("round-"%string, ".npy"%string)).
  symmetry. apply andb_implied.
  apply (glob_len_implied "round"%string "-"%char ".npy"%string n). reflexivity.
Qed.

Lemma glob_round_pkl n :
  glob_match "round-*.pkl" n = (String.prefix "round-" n && str_suffix ".pkl" n)%bool.
Proof.
  unfold glob_match.
  change (split_star "round-*.pkl") with (Some ("round-"%string, ".pkl"%string)).
  symmetry. apply andb_implied.
  apply (glob_len_implied "round"%string "-"%char ".pkl"%string n). reflexivity.
Qed.

Lemma glob_pkl_tmp n : glob_match "*.pkl.tmp" n = str_suffix ".pkl.tmp" n.
Proof.
  unfold glob_match.
  change (split_star "*.pkl.tmp") with (Some (""%string, ".pkl.tmp"%string)).
  cbn [String.prefix andb]. destruct n; cbn [String.prefix andb].
  - reflexivity.
  - destruct (str_suffix ".pkl.tmp" (String a n)) eqn:E; [|reflexivity].
    apply str_suffix_len in E. apply Nat.leb_le. exact E.
Qed.

(* ---- the per-round globs ---- *)
Lemma split_star_app a b : has_char "*" a = false ->
  split_star (a ++ b)%string =
  match split_star b with Some (x, y) => Some ((a ++ x)%string, y) | None => None end.
Proof.
  induction a as [|c a IH]; cbn [append has_char split_star]; intros H.
  - destruct (split_star b) as [[x y]|]; reflexivity.
  - destruct (Ascii.eqb c "*"); [discriminate|]. rewrite (IH H).
    destruct (split_star b) as [[x y]|]; reflexivity.
Qed.

Lemma digits_no_star s : digits s = true -> has_char "*" s = false.
Proof.
  induction s as [|c s IH]; cbn [digits has_char]; [reflexivity|]. intros H.
  apply andb_prop in H. destruct H as [Hc Hs].
  destruct (Ascii.eqb_spec c "*") as [->|_]; [discriminate Hc|auto].
Qed.

Lemma round_prefix_no_star r : 0 <= r -> has_char "*" ("round-" ++ str_of_Z r)%string = false.
Proof.
  intros H. rewrite has_char_app, (digits_no_star _ (str_of_Z_digits r H)). reflexivity.
Qed.

Lemma tie_prev_glob kind ext c (r : Z) n :
  0 <= r -> has_char "*" (kind ++ String c "") = false -> has_char c ext = false ->
  (String.prefix ("round-" ++ str_of_Z r ++ kind ++ String c "") n && has_suffix ext n)%bool =
  glob_match (("round-" ++ str_of_Z (r + 1 - 1)) ++ (kind ++ String c "") ++ String "*" ext)%string n.
Proof.
  intros Hr Hk Hc. replace (r + 1 - 1) with r by lia.
  unfold glob_match. rewrite split_star_app by (apply round_prefix_no_star, Hr).
  rewrite split_star_app by exact Hk.
  cbn [split_star]. change (Ascii.eqb "*" "*") with true. cbv iota.
  rewrite has_suffix_str_suffix, sapp_nil_r, <- !sapp_assoc.
  apply andb_implied. apply glob_len_implied. exact Hc.
Qed.

(* T3 *)
Lemma tie_prev_bufs : forall r n, 0 <= r ->
  is_bufs_of r n = glob_match (GMr.prev_bufs_glob (r + 1)) n.
Proof.
  intros r n Hr. unfold is_bufs_of, GMr.prev_bufs_glob.
  apply (tie_prev_glob "-buf" ".npy" "s" r n Hr); reflexivity.
Qed.

Lemma tie_prev_idxs : forall r n, 0 <= r ->
  is_idxs_of r n = glob_match (GMr.prev_idxs_glob (r + 1)) n.
Proof.
  intros r n Hr. unfold is_idxs_of, GMr.prev_idxs_glob.
  apply (tie_prev_glob "-idx" ".pkl" "s" r n Hr); reflexivity.
Qed.


(* ---- how tasks are formed and labelled (Gen/GMr.batch_label_width, file_label_width; the
   translator also checks that the batch plan is exactly
   [(str(i).zfill(z), _sort_batch(b)) for i, b in enumerate(batched(file_pairs, bin_size))]
   on the unmodified parameters and that the file tasks are labelled in input order) ---- *)
From BB Require Import Proofs.FpsFacts.
From Coq Require Import ZArith.

Lemma ceil_div_nat n b : (0 < b)%nat ->
  ceil_div (Z.of_nat n) (Z.of_nat b) = Z.of_nat (Nat.div (n + b - 1) b).
Proof.
  intros Hb. unfold ceil_div.
  assert (Hb' : 0 < Z.of_nat b) by lia.
  rewrite Nat2Z.inj_div. replace (Z.of_nat (n + b - 1)) with (Z.of_nat n + Z.of_nat b - 1) by lia.
  set (N := Z.of_nat n). set (B := Z.of_nat b). fold B in Hb'.
  assert (HN : 0 <= N) by (unfold N; lia).
  pose proof (Z.div_mod (- N) B ltac:(lia)) as E1. pose proof (Z.mod_pos_bound (- N) B Hb') as M1.
  pose proof (Z.div_mod (N + B - 1) B ltac:(lia)) as E2. pose proof (Z.mod_pos_bound (N + B - 1) B Hb') as M2.
  nia.
Qed.

Lemma tie_batch_width d r bin : (0 < bin)%nat ->
  Z.of_nat (String.length (str_of_Z (Z.of_nat (List.length (batched bin (prev_pairs d r)))))) =
  GMr.batch_label_width (Z.of_nat (List.length (prev_pairs d r))) (Z.of_nat bin).
Proof.
  intros Hb. unfold GMr.batch_label_width. rewrite (batched_length bin _ Hb), ceil_div_nat by exact Hb.
  reflexivity.
Qed.

Lemma tie_file_label_width n :
  file_labels n = map (fun i => zfill (str_of_Z i) (GMr.file_label_width (Z.of_nat n))) (zseq 0 n).
Proof. reflexivity. Qed.
