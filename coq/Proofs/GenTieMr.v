(* GenTieMr.v — the file names written by _save_bufs_and_mol_idxs (Gen/GMr.v, regenerated from
   bblean/multiround.py on every run) are the names of the workflow model. *)
From BB Require Import Model.Multiround Gen.NumpySem Gen.GMr.
From Coq Require Import String.
Open Scope Z_scope.

Lemma app_assoc_s (a b c : string) : ((a ++ b) ++ c)%string = (a ++ (b ++ c))%string.
Proof. induction a as [|x a IH]; cbn; [reflexivity|now rewrite IH]. Qed.

Lemma tie_save_names od label r w :
  GMr.save_names od label r (dtype_name w) = [bufs_name r label w; idxs_name r label w].
Proof.
  unfold GMr.save_names, bufs_name, idxs_name, file_suffix.
  rewrite !app_assoc_s. reflexivity.
Qed.
