(* FpsMore.v — further facts for C16 (file-sequence lookup: error side, empty/repeated indices,
   empty files; fps-split: content, part sizes, name order under the plan's digits; merge after
   split) and for C04 (chunked fits with caller labels). *)
From BB Require Import Model.FpsUtil Model.FpsGen Proofs.FpsFacts Proofs.GenTieUtil Gen.GUtil
  Proofs.FpsGenFacts.
From Coq Require Import String Ascii Lia ZArith List Permutation Sorted ZifyBool Arith.
Import ListNotations.
Open Scope Z_scope.

(* ====================================================================================== *)
(* 1. global-index lookup over a sequence of files                                        *)
(* ====================================================================================== *)

(* (b) the empty index list: nothing is read, whatever the files *)
Lemma file_seq_walk_nil {R} (files : list (list R)) start d :
  file_seq_walk files start [] d = ([], []).
Proof.
  revert start. induction files as [|f tl IH]; intros start; [reflexivity|].
  cbn [file_seq_walk take_file]. rewrite IH. reflexivity.
Qed.

Theorem seq_lookup_empty {R} (files : list (list R)) d : file_seq_get files [] d = Some [].
Proof. unfold file_seq_get. cbn [sortedb negb]. rewrite file_seq_walk_nil. reflexivity. Qed.

Corollary seq_lookup_empty_no_files {R} (d : R) : file_seq_get [] [] d = Some [].
Proof. apply seq_lookup_empty. Qed.
Corollary seq_lookup_empty_all_files_empty {R} k (d : R) :
  file_seq_get (repeat [] k) [] d = Some [].
Proof. apply seq_lookup_empty. Qed.

(* (a) an index at or beyond the total number of rows: ValueError, whatever else is in the list *)
Theorem seq_lookup_out_of_range {R} (files : list (list R)) idxs d :
  Exists (fun i => zlen (List.concat files) <= i) idxs -> file_seq_get files idxs d = None.
Proof. apply file_seq_get_out_of_range_strong. Qed.

(* the last file swallows every index below the running end: no hypothesis on order or sign *)
Lemma take_file_all {R} (rows : list R) start idxs d :
  Forall (fun i => i < start + zlen rows) idxs -> snd (take_file rows start idxs d) = [].
Proof.
  induction idxs as [|i tl IH]; intros H; [reflexivity|].
  inversion H as [|? ? Hi Ht]; subst. cbn [take_file].
  destruct (Z.ltb_spec i (start + zlen rows)); [|lia].
  specialize (IH Ht). destruct (take_file rows start tl d) as [got rest]. exact IH.
Qed.

Lemma file_seq_walk_consumes {R} (files : list (list R)) start idxs d :
  files <> [] -> Forall (fun i => i < start + zlen (List.concat files)) idxs ->
  snd (file_seq_walk files start idxs d) = [].
Proof.
  revert start idxs. induction files as [|f tl IH]; intros start idxs Hne Hf; [congruence|].
  cbn [file_seq_walk].
  destruct (take_file_spec f start idxs d) as (pre & rest & Ht & Hi & Hp & Hr).
  destruct tl as [|f' tl'].
  - cbn [List.concat] in Hf. rewrite app_nil_r in Hf.
    pose proof (take_file_all f start idxs d Hf) as Hall.
    destruct (take_file f start idxs d) as [got rest0]. cbn [snd] in Hall. subst rest0.
    reflexivity.
  - rewrite Ht.
    assert (Hrest : Forall (fun i => i < start + zlen f + zlen (List.concat (f' :: tl'))) rest).
    { subst idxs. apply Forall_app in Hf. destruct Hf as [_ Hf].
      eapply Forall_impl; [|exact Hf]. cbn beta. intros a Ha.
      change (List.concat (f :: f' :: tl')) with (f ++ List.concat (f' :: tl'))%list in Ha.
      rewrite zlen_app in Ha. lia. }
    specialize (IH (start + zlen f) rest ltac:(discriminate) Hrest).
    destruct (file_seq_walk (f' :: tl') (start + zlen f) rest d) as [got2 rest2].
    exact IH.
Qed.

(* EXACT domain of the model: a row list is returned iff the list is sorted, every index is below
   the total number of rows, and (no files) => (no indices).  Note: no lower bound. *)
Theorem seq_lookup_some_iff_exact {R} (files : list (list R)) idxs d :
  file_seq_get files idxs d <> None <->
  (sortedb idxs = true /\ Forall (fun i => i < zlen (List.concat files)) idxs /\
   (files = [] -> idxs = [])).
Proof.
  split.
  - intros H. destruct (sortedb idxs) eqn:Es.
    2:{ exfalso. apply H. apply file_seq_get_unsorted. exact Es. }
    split; [reflexivity|].
    destruct (Forall_Exists_dec (fun i => i < zlen (List.concat files))
                (fun i => Z_lt_dec i (zlen (List.concat files))) idxs) as [Hall|Hex].
    + split; [exact Hall|]. intros ->. destruct idxs as [|i tl]; [reflexivity|].
      exfalso. apply H. unfold file_seq_get. rewrite Es. reflexivity.
    + exfalso. apply H. apply seq_lookup_out_of_range.
      eapply Exists_impl; [|exact Hex]. cbn beta. intros; lia.
  - intros (Hs & Hf & Hnil). unfold file_seq_get. rewrite Hs. cbn [negb].
    destruct files as [|f tl].
    + rewrite (Hnil eq_refl). cbn. discriminate.
    + pose proof (file_seq_walk_consumes (f :: tl) 0 idxs d ltac:(discriminate)) as Hc.
      rewrite Z.add_0_l in Hc. specialize (Hc Hf).
      destruct (file_seq_walk (f :: tl) 0 idxs d) as [got rest]. cbn [snd] in Hc. subst rest.
      discriminate.
Qed.

(* for sorted lists of non-negative indices: a row list is returned iff all indices are in range *)
Theorem seq_lookup_some_iff {R} (files : list (list R)) idxs d :
  sortedb idxs = true -> Forall (fun i => 0 <= i) idxs ->
  (file_seq_get files idxs d <> None <->
   Forall (fun i => 0 <= i < zlen (List.concat files)) idxs).
Proof.
  intros Hs Hnn. split.
  - intros H. apply seq_lookup_some_iff_exact in H. destruct H as (_ & Hf & _).
    rewrite Forall_forall in *. intros i Hi. split; auto.
  - intros Hf. rewrite (file_seq_get_spec files idxs d Hs Hf). discriminate.
Qed.

Theorem seq_lookup_none_iff {R} (files : list (list R)) idxs d :
  sortedb idxs = true -> Forall (fun i => 0 <= i) idxs ->
  (file_seq_get files idxs d = None <->
   Exists (fun i => zlen (List.concat files) <= i) idxs).
Proof.
  intros Hs Hnn. split.
  - intros H.
    destruct (Forall_Exists_dec (fun i => i < zlen (List.concat files))
                (fun i => Z_lt_dec i (zlen (List.concat files))) idxs) as [Hall|Hex].
    + exfalso. rewrite (file_seq_get_spec files idxs d Hs) in H; [discriminate|].
      rewrite Forall_forall in *. intros i Hi. split; auto.
    + eapply Exists_impl; [|exact Hex]. cbn beta. intros; lia.
  - apply seq_lookup_out_of_range.
Qed.

(* the part of the request about NEGATIVE indices is false in the model: a negative index is not
   refused, it reads row 0 of the first file (or the default row when that file is empty) *)
Example seq_lookup_negative_refuted :
  file_seq_get [[10; 20]; [30]] [-1; 2] 0 = Some [10; 30] /\
  file_seq_get [[]; [30]] [-1] 0 = Some [0].
Proof. split; vm_compute; reflexivity. Qed.
(* ... except when there is no file at all *)
Example seq_lookup_negative_no_files : file_seq_get (@nil (list Z)) [-1] 0 = None.
Proof. vm_compute. reflexivity. Qed.

(* (c) repeated indices are allowed, and return the row as many times *)
Lemma sortedb_repeat i k : sortedb (repeat i k) = true.
Proof.
  induction k as [|k IH]; [reflexivity|]. destruct k as [|k]; [reflexivity|].
  change (repeat i (S (S k))) with (i :: i :: repeat i k).
  change (sortedb (i :: i :: repeat i k)) with ((i <=? i) && sortedb (i :: repeat i k)).
  rewrite Z.leb_refl. exact IH.
Qed.

Theorem seq_lookup_repeats {R} (files : list (list R)) i k d :
  0 <= i < zlen (List.concat files) ->
  file_seq_get files (repeat i k) d = Some (repeat (nth (Z.to_nat i) (List.concat files) d) k).
Proof.
  intros Hi. rewrite file_seq_get_spec.
  - f_equal. induction k as [|k IH]; [reflexivity|]. cbn [repeat map]. rewrite IH. reflexivity.
  - apply sortedb_repeat.
  - apply Forall_forall. intros j Hj. apply repeat_spec in Hj. subst j. exact Hi.
Qed.

(* the same inside a longer request: [a ++ i,i,...,i ++ b], sorted and in range *)
Theorem seq_lookup_repeats_inside {R} (files : list (list R)) a i k b d :
  sortedb (a ++ repeat i k ++ b) = true ->
  Forall (fun j => 0 <= j < zlen (List.concat files)) (a ++ repeat i k ++ b) ->
  file_seq_get files (a ++ repeat i k ++ b) d =
  Some (map (fun j => nth (Z.to_nat j) (List.concat files) d) a ++
        repeat (nth (Z.to_nat i) (List.concat files) d) k ++
        map (fun j => nth (Z.to_nat j) (List.concat files) d) b)%list.
Proof.
  intros Hs Hf. rewrite file_seq_get_spec by assumption. f_equal.
  rewrite !map_app. f_equal. f_equal.
  clear. induction k as [|k IH]; [reflexivity|]. cbn [repeat map]. rewrite IH. reflexivity.
Qed.

(* (d) only the concatenation of the files matters (for non-negative indices): the cut points
   between files, and in particular empty files anywhere, do not change the result *)
Theorem seq_lookup_concat_only {R} (files files' : list (list R)) idxs d :
  Forall (fun i => 0 <= i) idxs -> List.concat files = List.concat files' ->
  file_seq_get files idxs d = file_seq_get files' idxs d.
Proof.
  intros Hnn Hc. destruct (sortedb idxs) eqn:Hs.
  2:{ rewrite !file_seq_get_unsorted by exact Hs. reflexivity. }
  destruct (Forall_Exists_dec (fun i => i < zlen (List.concat files))
              (fun i => Z_lt_dec i (zlen (List.concat files))) idxs) as [Hall|Hex].
  - assert (Hf : Forall (fun i => 0 <= i < zlen (List.concat files)) idxs).
    { rewrite Forall_forall in *. intros i Hi. split; auto. }
    rewrite (file_seq_get_spec files idxs d Hs Hf).
    rewrite Hc in Hf. rewrite (file_seq_get_spec files' idxs d Hs Hf). rewrite Hc. reflexivity.
  - assert (Hex' : Exists (fun i => zlen (List.concat files) <= i) idxs).
    { eapply Exists_impl; [|exact Hex]. cbn beta. intros; lia. }
    rewrite (seq_lookup_out_of_range files idxs d Hex').
    rewrite Hc in Hex'. rewrite (seq_lookup_out_of_range files' idxs d Hex'). reflexivity.
Qed.

Theorem seq_lookup_empty_files_irrelevant {R} (a b : list (list R)) idxs d :
  Forall (fun i => 0 <= i) idxs ->
  file_seq_get (a ++ [] :: b) idxs d = file_seq_get (a ++ b) idxs d.
Proof.
  intros Hnn. apply seq_lookup_concat_only; [exact Hnn|].
  rewrite !concat_app. reflexivity.
Qed.

(* ... any number of them, anywhere: dropping all empty files *)
Lemma concat_drop_empty {R} (files : list (list R)) :
  List.concat (filter (fun f => match f with [] => false | _ => true end) files) = List.concat files.
Proof.
  induction files as [|f tl IH]; [reflexivity|].
  cbn [filter]. destruct f as [|x f]; cbn [List.concat]; rewrite IH; reflexivity.
Qed.

Theorem seq_lookup_drop_empty_files {R} (files : list (list R)) idxs d :
  Forall (fun i => 0 <= i) idxs ->
  file_seq_get (filter (fun f => match f with [] => false | _ => true end) files) idxs d =
  file_seq_get files idxs d.
Proof. intros Hnn. apply seq_lookup_concat_only; [exact Hnn|apply concat_drop_empty]. Qed.

(* the sign hypothesis is needed (same quirk as above) *)
Example seq_lookup_empty_files_negative_refuted :
  file_seq_get ([] ++ [] :: []) [-1] 7 = Some [7] /\ file_seq_get ([] ++ @nil (list Z)) [-1] 7 = None.
Proof. split; vm_compute; reflexivity. Qed.

(* ====================================================================================== *)
(* 2. fps-split                                                                           *)
(* ====================================================================================== *)

(* (a) the parts, in part order, are the input *)
Lemma split_parts_rows {R} stem digits n (rows : list R) :
  map snd (split_parts stem digits n rows) = batched n rows.
Proof. unfold split_parts. rewrite map_map. cbn [snd]. apply with_idxs_snd. Qed.

Lemma split_parts_concat_gen {R} stem digits n (rows : list R) : (0 < n)%nat ->
  List.concat (map snd (split_parts stem digits n rows)) = rows.
Proof. intros Hn. rewrite split_parts_rows. apply batched_concat. exact Hn. Qed.

Lemma split_plan_per_pos n parts mx per digits :
  1 <= n -> (match mx with Some m => 1 <= m | None => True end) ->
  GUtil.split_plan n parts mx = Some (per, digits) -> (0 < Z.to_nat per)%nat.
Proof.
  intros Hn Hm H. destruct (split_plan_digits_enough _ _ _ _ _ Hn Hm H) as [Hp _]. lia.
Qed.

(* both modes (--num-parts p, p >= 2 / --max-fps m, m >= 1), every non-negative number of rows *)
Theorem split_parts_concat {R} stem (rows : list R) parts mx per digits :
  (match mx with Some m => 1 <= m | None => True end) ->
  GUtil.split_plan (zlen rows) parts mx = Some (per, digits) ->
  List.concat (map snd (split_parts stem digits (Z.to_nat per) rows)) = rows.
Proof.
  intros Hm H. destruct rows as [|r rows]; [reflexivity|].
  apply split_parts_concat_gen. eapply split_plan_per_pos; eauto.
  rewrite zlen_cons. pose proof (zlen_nonneg rows). lia.
Qed.

(* the hypothesis on --max-fps is needed: with 0 the plan is defined and every part is empty *)
Example split_parts_concat_max0_refuted :
  GUtil.split_plan 2 None (Some 0) = Some (0, 1) /\
  List.concat (map snd (split_parts "f" 1 (Z.to_nat 0) [5; 6])) = [].
Proof. split; vm_compute; reflexivity. Qed.

(* (b) sizes *)
Lemma batched_count_ceil {R} n (rows : list R) : (0 < n)%nat ->
  Z.of_nat (List.length (batched n rows)) = ceil_div (zlen rows) (Z.of_nat n).
Proof.
  intros Hn. symmetry. apply ceil_div_unique; [lia|].
  rewrite batched_length by exact Hn. unfold zlen.
  pose proof (Nat.div_mod (List.length rows + n - 1) n ltac:(lia)) as E.
  pose proof (Nat.mod_upper_bound (List.length rows + n - 1) n ltac:(lia)) as B.
  set (q := ((List.length rows + n - 1) / n)%nat) in *.
  set (r := ((List.length rows + n - 1) mod n)%nat) in *. nia.
Qed.

(* the k-th part holds rows k*n .. min((k+1)*n, len) - 1 *)
Lemma batched_nth_length {R} n (rows : list R) k : (0 < n)%nat ->
  (k < List.length (batched n rows))%nat ->
  List.length (nth k (batched n rows) []) = Nat.min n (List.length rows - k * n).
Proof.
  intros Hn Hk. rewrite batched_nth by assumption.
  rewrite firstn_length, skipn_length. reflexivity.
Qed.

Theorem split_part_sizes_gen {R} stem digits n (rows : list R) : (0 < n)%nat ->
  let ps := split_parts stem digits n rows in
  let count := List.length ps in
  Z.of_nat count = ceil_div (zlen rows) (Z.of_nat n) /\
  (forall k, (S k < count)%nat -> List.length (snd (nth k ps (EmptyString, []))) = n) /\
  (rows <> [] -> (1 <= count)%nat /\
     (1 <= List.length (snd (nth (count - 1) ps (EmptyString, []))) <= n)%nat /\
     List.length (snd (nth (count - 1) ps (EmptyString, []))) =
       (List.length rows - (count - 1) * n)%nat).
Proof.
  intros Hn ps count.
  assert (Hc : count = List.length (batched n rows)).
  { unfold count, ps. rewrite <- (split_parts_rows stem digits n rows). rewrite map_length. reflexivity. }
  assert (Hnth : forall k, snd (nth k ps (EmptyString, [])) = nth k (batched n rows) []).
  { intros k. rewrite <- (split_parts_rows stem digits n rows).
    change (@nil R) with (snd (EmptyString, @nil R)) at 2. rewrite map_nth. reflexivity. }
  split; [rewrite Hc; apply batched_count_ceil; exact Hn|].
  split.
  - intros k Hk. rewrite Hnth. apply batched_full; [exact Hn|]. rewrite <- Hc. exact Hk.
  - intros Hne.
    assert (H1 : (1 <= count)%nat).
    { rewrite Hc. rewrite batched_unfold by exact Hn. destruct rows; [congruence|]. cbn [List.length]. lia. }
    split; [exact H1|]. rewrite Hnth.
    pose proof (batched_sizes n rows Hn) as Hs. rewrite Forall_forall in Hs.
    assert (Hin : In (nth (count - 1) (batched n rows) []) (batched n rows))
      by (apply nth_In; lia).
    split; [apply Hs; exact Hin|].
    rewrite batched_nth_length by (try exact Hn; lia).
    (* (count-1)*n < len <= count*n *)
    pose proof (batched_count_ceil n rows Hn) as Hq. rewrite <- Hc in Hq.
    pose proof (ceil_div_spec (zlen rows) (Z.of_nat n) ltac:(lia)) as Hsp.
    rewrite <- Hq in Hsp. unfold zlen in Hsp. nia.
Qed.

(* with the plan of the command: ceil(n / per) parts; all but the last have [per] rows; the last
   has between 1 and [per] rows, namely the remainder *)
Theorem split_part_sizes {R} stem (rows : list R) parts mx per digits :
  rows <> [] -> (match mx with Some m => 1 <= m | None => True end) ->
  GUtil.split_plan (zlen rows) parts mx = Some (per, digits) ->
  let ps := split_parts stem digits (Z.to_nat per) rows in
  let count := List.length ps in
  Z.of_nat count = ceil_div (zlen rows) per /\ (1 <= count)%nat /\
  (forall k, (S k < count)%nat -> zlen (snd (nth k ps (EmptyString, []))) = per) /\
  1 <= zlen (snd (nth (count - 1) ps (EmptyString, []))) <= per /\
  zlen (snd (nth (count - 1) ps (EmptyString, []))) = zlen rows - (Z.of_nat count - 1) * per.
Proof.
  intros Hne Hm H ps count.
  assert (Hl : 1 <= zlen rows).
  { destruct rows; [congruence|]. rewrite zlen_cons. pose proof (zlen_nonneg rows). lia. }
  pose proof (split_plan_per_pos _ _ _ _ _ Hl Hm H) as Hp.
  destruct (split_part_sizes_gen stem digits (Z.to_nat per) rows Hp) as (A & B & C).
  fold ps in A, B, C. fold count in A, B, C.
  destruct (C Hne) as (C1 & C2 & C3).
  rewrite Z2Nat.id in A by lia.
  split; [exact A|]. split; [exact C1|]. split.
  - intros k Hk. unfold zlen. rewrite (B k Hk). lia.
  - unfold zlen in *. split; [lia|]. rewrite C3.
    pose proof (ceil_div_spec (Z.of_nat (List.length rows)) per ltac:(lia)) as Hsp.
    rewrite <- A in Hsp. nia.
Qed.

(* in --num-parts mode the number of files can be SMALLER than requested (never larger) *)
Theorem split_num_parts_at_most {R} stem (rows : list R) p per digits :
  rows <> [] -> GUtil.split_plan (zlen rows) (Some p) None = Some (per, digits) ->
  zlen (split_parts stem digits (Z.to_nat per) rows) <= p.
Proof.
  intros Hne H.
  destruct (split_part_sizes stem rows (Some p) None per digits Hne I H) as (A & _).
  unfold zlen. rewrite A.
  destruct (split_plan_cases _ _ _ _ _ H) as [(p' & E & _ & Hp & -> & _)|(m & E & _)]; [|discriminate].
  injection E as <-.
  apply ceil_div_ceil_div_le; [|lia].
  destruct rows; [congruence|]. rewrite zlen_cons. pose proof (zlen_nonneg rows). lia.
Qed.
Example split_num_parts_fewer :
  GUtil.split_plan 10 (Some 6) None = Some (2, 1) /\
  List.length (split_parts "f" 1 2 [0;1;2;3;4;5;6;7;8;9]) = 5%nat.
Proof. split; vm_compute; reflexivity. Qed.

(* (c) name order = part order, with the zero-padding width of the plan *)
Definition name_lt (a b : string) : Prop := str_ltb a b = true.

Lemma split_parts_names {R} stem digits n (rows : list R) :
  map fst (split_parts stem digits n rows) =
  map (fun p => part_name stem digits (fst p)) (with_idxs 0 (batched n rows)).
Proof. unfold split_parts. rewrite map_map. reflexivity. Qed.

Lemma names_sorted_gen {R} stem digits (bs : list (list R)) i :
  0 <= i -> i + zlen bs <= 10 ^ digits -> 1 <= digits ->
  StronglySorted name_lt (map (fun p => part_name stem digits (fst p)) (with_idxs i bs)).
Proof.
  revert i. induction bs as [|b bs IH]; intros i Hi Hb Hd; [constructor|].
  rewrite zlen_cons in Hb. pose proof (zlen_nonneg bs).
  cbn [with_idxs map fst]. constructor; [apply IH; lia|].
  apply Forall_forall. intros nm Hnm. apply in_map_iff in Hnm. destruct Hnm as (t & <- & Ht).
  apply with_idxs_range in Ht. unfold name_lt. apply part_names_sorted; lia.
Qed.

(* the digit hypothesis the plan guarantees (C16_split_plan_digits): every part index
   0 <= i < ceil(n / per) is below 10^digits, and digits >= 1 *)
Lemma split_plan_count_fits {R} (rows : list R) parts mx per digits :
  rows <> [] -> (match mx with Some m => 1 <= m | None => True end) ->
  GUtil.split_plan (zlen rows) parts mx = Some (per, digits) ->
  1 <= digits /\ zlen (batched (Z.to_nat per) rows) <= 10 ^ digits.
Proof.
  intros Hne Hm H.
  assert (Hl : 1 <= zlen rows).
  { destruct rows; [congruence|]. rewrite zlen_cons. pose proof (zlen_nonneg rows). lia. }
  destruct (split_plan_digits_enough_strong _ _ _ _ _ Hl Hm H) as (Hp & Hd & Hfit).
  split; [exact Hd|]. unfold zlen at 1. rewrite batched_count_ceil by lia.
  rewrite Z2Nat.id by lia. fold (zlen rows).
  pose proof (ceil_div_ge_1 (zlen rows) per ltac:(lia) Hl) as Hc.
  specialize (Hfit (ceil_div (zlen rows) per - 1) ltac:(lia)). lia.
Qed.

Theorem split_names_sorted {R} stem (rows : list R) parts mx per digits :
  (match mx with Some m => 1 <= m | None => True end) ->
  GUtil.split_plan (zlen rows) parts mx = Some (per, digits) ->
  StronglySorted name_lt (map fst (split_parts stem digits (Z.to_nat per) rows)).
Proof.
  intros Hm H. destruct rows as [|r rows]; [constructor|].
  destruct (split_plan_count_fits (r :: rows) parts mx per digits ltac:(discriminate) Hm H) as [Hd Hc].
  rewrite split_parts_names. apply names_sorted_gen; lia.
Qed.

(* the same, index-wise: part a comes before part b in name order whenever a < b *)
Lemma StronglySorted_nth {A} (P : A -> A -> Prop) l d : StronglySorted P l ->
  forall a b, (a < b < List.length l)%nat -> P (nth a l d) (nth b l d).
Proof.
  induction 1 as [|x l Hs IH Hf]; intros a b Hab; [cbn in Hab; lia|].
  cbn [List.length] in Hab. destruct b as [|b]; [lia|]. destruct a as [|a].
  - cbn [nth]. rewrite Forall_forall in Hf. apply Hf. apply nth_In. lia.
  - cbn [nth]. apply IH. lia.
Qed.

Corollary split_names_sorted_nth {R} stem (rows : list R) parts mx per digits a b :
  (match mx with Some m => 1 <= m | None => True end) ->
  GUtil.split_plan (zlen rows) parts mx = Some (per, digits) ->
  let ps := split_parts stem digits (Z.to_nat per) rows in
  (a < b < List.length ps)%nat ->
  str_ltb (fst (nth a ps (EmptyString, []))) (fst (nth b ps (EmptyString, []))) = true.
Proof.
  intros Hm H ps Hab.
  pose proof (split_names_sorted stem rows parts mx per digits Hm H) as Hs. fold ps in Hs.
  pose proof (StronglySorted_nth name_lt _ EmptyString Hs a b) as Hn.
  rewrite map_length in Hn. specialize (Hn Hab).
  change EmptyString with (fst (EmptyString, @nil R)) in Hn at 1 2.
  rewrite !map_nth in Hn. exact Hn.
Qed.

(* the k-th name is the zero-padded k *)
Lemma with_idxs_nth_fst {R} (bs : list (list R)) : forall i k, (k < List.length bs)%nat ->
  fst (nth k (with_idxs i bs) (0, [])) = i + Z.of_nat k.
Proof.
  induction bs as [|b bs IH]; intros i k Hk; [cbn in Hk; lia|].
  cbn [List.length] in Hk. destruct k as [|k]; cbn [with_idxs nth fst]; [lia|].
  rewrite IH by lia. lia.
Qed.

Lemma split_part_name_nth {R} stem digits n (rows : list R) k :
  (k < List.length (split_parts stem digits n rows))%nat ->
  fst (nth k (split_parts stem digits n rows) (EmptyString, [])) =
  part_name stem digits (Z.of_nat k).
Proof.
  intros Hk. unfold split_parts in *. rewrite map_length in Hk.
  assert (Hl : List.length (with_idxs 0 (batched n rows)) = List.length (batched n rows)).
  { rewrite <- (with_idxs_snd 0 (batched n rows)) at 2. rewrite map_length. reflexivity. }
  set (f := fun p : Z * list R => (part_name stem digits (fst p), snd p)) in *.
  rewrite (nth_indep _ (EmptyString, []) (f (0, []))) by (rewrite map_length; exact Hk).
  rewrite (map_nth f). unfold f. cbn [fst]. rewrite with_idxs_nth_fst by lia. f_equal.
Qed.

(* hence the sort by name leaves the parts where they are *)
Theorem split_sort_id {R} stem (rows : list R) parts mx per digits :
  (match mx with Some m => 1 <= m | None => True end) ->
  GUtil.split_plan (zlen rows) parts mx = Some (per, digits) ->
  sort_by_name (split_parts stem digits (Z.to_nat per) rows) =
  split_parts stem digits (Z.to_nat per) rows.
Proof.
  intros Hm H. destruct rows as [|r rows]; [reflexivity|].
  destruct (split_plan_count_fits (r :: rows) parts mx per digits ltac:(discriminate) Hm H) as [Hd Hc].
  unfold split_parts. apply sort_split_id; lia.
Qed.

(* too few digits: name order is no longer part order *)
Example split_names_too_few_digits :
  str_ltb (part_name "f" 1 10) (part_name "f" 1 9) = true.
Proof. vm_compute. reflexivity. Qed.

(* ====================================================================================== *)
(* 3. merge after split                                                                   *)
(* ====================================================================================== *)

Theorem split_merge_plan {R} stem (rows : list R) parts mx per digits :
  (match mx with Some m => 1 <= m | None => True end) ->
  GUtil.split_plan (zlen rows) parts mx = Some (per, digits) ->
  merge_parts (split_parts stem digits (Z.to_nat per) rows) = rows.
Proof.
  intros Hm H. unfold merge_parts. rewrite (split_sort_id stem rows parts mx per digits Hm H).
  apply (split_parts_concat stem rows parts mx per digits Hm H).
Qed.

(* the directory listing order does not matter: any permutation of the part files merges back *)
Theorem split_merge_plan_any_order {R} stem (rows : list R) parts mx per digits ps :
  (match mx with Some m => 1 <= m | None => True end) ->
  GUtil.split_plan (zlen rows) parts mx = Some (per, digits) ->
  Permutation ps (split_parts stem digits (Z.to_nat per) rows) ->
  merge_parts ps = rows.
Proof.
  intros Hm H HP. destruct rows as [|r rows].
  - cbn in HP. apply Permutation_sym, Permutation_nil in HP. subst ps. reflexivity.
  - set (rs := r :: rows) in *.
    destruct (split_plan_count_fits rs parts mx per digits ltac:(discriminate) Hm H) as [Hd Hc].
    unfold split_parts in HP.
    change (fun p : Z * list R => (part_name stem digits (fst p), snd p))
      with (named stem digits (fun b : list R => b)) in HP.
    apply Permutation_map_inv in HP. destruct HP as (tasks & -> & HP).
    unfold merge_parts. rewrite sort_by_name_named; [|exact Hd|].
    + rewrite (zsort_unique tasks (with_idxs 0 (batched (Z.to_nat per) rs)));
        [|apply with_idxs_sorted|apply Permutation_sym; exact HP].
      fold (split_parts stem digits (Z.to_nat per) rs).
      apply (split_parts_concat stem rs parts mx per digits Hm H).
    + intros y Hy. apply (Permutation_in _ (Permutation_sym HP)) in Hy.
      apply with_idxs_range in Hy. lia.
Qed.

(* ====================================================================================== *)
(* 4. C04 — chunked fits with caller labels                                               *)
(* ====================================================================================== *)
From BB Require Import Model.Birch Proofs.FitChunks.

Section LabelledChunks.
Variable fexp : float -> float.

(* the state a fit call starts its loop from *)
Definition fit_start (st : state) (r0 : option fpv) : state :=
  if is_init st then st
  else initialize st (match r0 with Some fp => List.length fp | None => nfeat st end).

Lemma fit_start_props st r0 : released st = false ->
  nfit (fit_start st r0) = nfit st /\ cfg (fit_start st r0) = cfg st /\
  released (fit_start st r0) = false /\ root (fit_start st r0) <> None.
Proof.
  intros Hrel. unfold fit_start, is_init. destruct (root st) eqn:Er.
  - rewrite Er. refine (conj eq_refl (conj eq_refl (conj Hrel _))). discriminate.
  - cbn [initialize nfit cfg released root].
    refine (conj eq_refl (conj eq_refl (conj eq_refl _))). discriminate.
Qed.

Lemma do_fit_unfold st r0 xs labels : released st = false ->
  do_fit fexp st (r0 :: xs) labels =
  fit_rows fexp (cfg (fit_start st r0)) (fit_start st r0) (r0 :: xs)
    (match labels with Some l => l
                     | None => zseq (nfit (fit_start st r0)) (List.length (r0 :: xs)) end).
Proof. intros Hrel. unfold do_fit, fit_start. rewrite Hrel. reflexivity. Qed.

(* default labels ARE caller labels: the running count onwards *)
Theorem do_fit_default_labels st xs : 
  do_fit fexp st xs None = do_fit fexp st xs (Some (zseq (nfit st) (List.length xs))).
Proof.
  destruct xs as [|r0 xs]; [reflexivity|].
  unfold do_fit. destruct (released st); [reflexivity|].
  destruct (is_init st); [reflexivity|]. reflexivity.
Qed.

(* what one all-good labelled fit call does to the scalar fields *)
Lemma do_fit_good_labelled st xs l :
  released st = false -> xs <> [] -> Forall (fun r => r <> None) xs ->
  List.length l = List.length xs ->
  snd (do_fit fexp st xs (Some l)) = Ok /\
  nfit (fst (do_fit fexp st xs (Some l))) = nfit st + Z.of_nat (List.length xs) /\
  cfg (fst (do_fit fexp st xs (Some l))) = cfg st /\
  released (fst (do_fit fexp st xs (Some l))) = false /\
  root (fst (do_fit fexp st xs (Some l))) <> None.
Proof.
  intros Hrel Hne Hf Hl. destruct xs as [|r0 xs']; [congruence|].
  rewrite do_fit_unfold by exact Hrel.
  destruct (fit_start_props st r0 Hrel) as (S1 & S2 & S3 & S4).
  destruct (fit_rows_good fexp (cfg (fit_start st r0)) (fit_start st r0) (r0 :: xs') l Hl Hf S4)
    as (B1 & B2 & B3 & B4 & B5 & B6).
  refine (conj B1 (conj _ (conj _ (conj _ B6)))).
  - rewrite B2, S1. reflexivity.
  - rewrite B3. exact S2.
  - rewrite B5. exact S3.
Qed.

(* one call with rows1 ++ rows2 / labels l1 ++ l2  =  two consecutive calls *)
Theorem do_fit_chunks_labelled_eq st xs ys l1 l2 :
  released st = false -> xs <> [] -> ys <> [] -> Forall (fun r => r <> None) xs ->
  List.length l1 = List.length xs ->
  do_fit fexp (fst (do_fit fexp st xs (Some l1))) ys (Some l2) =
  do_fit fexp st (xs ++ ys) (Some (l1 ++ l2)).
Proof.
  intros Hrel Hx Hy Hf Hl.
  destruct (do_fit_good_labelled st xs l1 Hrel Hx Hf Hl) as (G1 & G2 & G3 & G4 & G5).
  destruct xs as [|r0 xs']; [congruence|]. destruct ys as [|y0 ys']; [congruence|].
  remember (do_fit fexp st (r0 :: xs') (Some l1)) as res eqn:Eres.
  rewrite (do_fit_unfold (fst res) y0 ys' (Some l2) G4).
  assert (Es : fit_start (fst res) y0 = fst res).
  { unfold fit_start, is_init. destruct (root (fst res)); [reflexivity|congruence]. }
  rewrite Es.
  change ((r0 :: xs') ++ y0 :: ys') with (r0 :: (xs' ++ y0 :: ys')).
  rewrite (do_fit_unfold st r0 (xs' ++ y0 :: ys') (Some (l1 ++ l2)) Hrel).
  rewrite (do_fit_unfold st r0 xs' (Some l1) Hrel) in Eres.
  change (r0 :: (xs' ++ y0 :: ys')) with ((r0 :: xs') ++ (y0 :: ys')).
  rewrite (fit_rows_app fexp (cfg (fit_start st r0)) (fit_start st r0) (r0 :: xs') (y0 :: ys') l1 l2 Hl Hf).
  rewrite <- Eres.
  destruct (fit_start_props st r0 Hrel) as (_ & S2 & _).
  rewrite G3, S2. destruct res as [st' o']. reflexivity.
Qed.

Theorem do_fit_chunks_labelled st xs ys l1 l2 :
  released st = false -> xs <> [] -> ys <> [] -> Forall (fun r => r <> None) xs ->
  List.length l1 = List.length xs ->
  fst (do_fit fexp (fst (do_fit fexp st xs (Some l1))) ys (Some l2)) =
    fst (do_fit fexp st (xs ++ ys) (Some (l1 ++ l2))) /\
  snd (do_fit fexp (fst (do_fit fexp st xs (Some l1))) ys (Some l2)) =
    snd (do_fit fexp st (xs ++ ys) (Some (l1 ++ l2))).
Proof.
  intros Hrel Hx Hy Hf Hl.
  rewrite (do_fit_chunks_labelled_eq st xs ys l1 l2 Hrel Hx Hy Hf Hl). split; reflexivity.
Qed.

(* default labels: the second call numbers its rows from the running count, i.e. continues the
   numbering of the first *)
Theorem do_fit_chunks_default_continue st xs ys :
  released st = false -> xs <> [] -> ys <> [] -> Forall (fun r => r <> None) xs ->
  let st1 := fst (do_fit fexp st xs None) in
  nfit st1 = nfit st + Z.of_nat (List.length xs) /\
  do_fit fexp st1 ys None =
    do_fit fexp st1 ys (Some (zseq (nfit st + Z.of_nat (List.length xs)) (List.length ys))) /\
  do_fit fexp st (xs ++ ys) None =
    do_fit fexp st (xs ++ ys)
      (Some (zseq (nfit st) (List.length xs) ++
             zseq (nfit st + Z.of_nat (List.length xs)) (List.length ys))) /\
  do_fit fexp st1 ys None = do_fit fexp st (xs ++ ys) None.
Proof.
  intros Hrel Hx Hy Hf st1. subst st1.
  destruct (do_fit_good fexp st xs Hrel Hx Hf) as (_ & G2 & _).
  split; [exact G2|]. split; [|split].
  - rewrite do_fit_default_labels. rewrite G2. reflexivity.
  - rewrite do_fit_default_labels. rewrite app_length, zseq_app. reflexivity.
  - apply do_fit_chunks_eq; assumption.
Qed.

(* mixed: default labels in the first call, caller labels in the second (and vice versa) *)
Corollary do_fit_chunks_default_then_labelled st xs ys l2 :
  released st = false -> xs <> [] -> ys <> [] -> Forall (fun r => r <> None) xs ->
  do_fit fexp (fst (do_fit fexp st xs None)) ys (Some l2) =
  do_fit fexp st (xs ++ ys) (Some (zseq (nfit st) (List.length xs) ++ l2)).
Proof.
  intros Hrel Hx Hy Hf. rewrite do_fit_default_labels.
  apply do_fit_chunks_labelled_eq; auto. apply zseq_length.
Qed.

Corollary do_fit_chunks_labelled_then_default st xs ys l1 :
  released st = false -> xs <> [] -> ys <> [] -> Forall (fun r => r <> None) xs ->
  List.length l1 = List.length xs ->
  do_fit fexp (fst (do_fit fexp st xs (Some l1))) ys None =
  do_fit fexp st (xs ++ ys)
    (Some (l1 ++ zseq (nfit st + Z.of_nat (List.length xs)) (List.length ys))).
Proof.
  intros Hrel Hx Hy Hf Hl.
  destruct (do_fit_good_labelled st xs l1 Hrel Hx Hf Hl) as (_ & G2 & _).
  rewrite do_fit_default_labels. rewrite G2.
  apply do_fit_chunks_labelled_eq; auto.
Qed.

(* at the level of whole runs *)
Corollary run_chunks_labelled cfg0 xs ys l1 l2 tl :
  xs <> [] -> ys <> [] -> Forall (fun r => r <> None) xs -> List.length l1 = List.length xs ->
  run fexp cfg0 (OFit xs (Some l1) :: OFit ys (Some l2) :: tl) =
  run fexp cfg0 (OFit (xs ++ ys) (Some (l1 ++ l2)) :: tl).
Proof.
  intros Hx Hy Hf Hl. unfold run. cbn [fold_left step].
  rewrite (do_fit_chunks_labelled_eq (init cfg0) xs ys l1 l2 eq_refl Hx Hy Hf Hl). reflexivity.
Qed.

(* any number of labelled chunks *)
Corollary run_many_chunks_labelled cfg0 xs l (chunks : list (list (option fpv) * list Z)) tl :
  xs <> [] -> Forall (fun r => r <> None) xs -> List.length l = List.length xs ->
  Forall (fun c => fst c <> [] /\ Forall (fun r => r <> None) (fst c) /\
                   List.length (snd c) = List.length (fst c)) chunks ->
  run fexp cfg0 (OFit xs (Some l) :: map (fun c => OFit (fst c) (Some (snd c))) chunks ++ tl) =
  run fexp cfg0 (OFit (xs ++ concat (map fst chunks)) (Some (l ++ concat (map snd chunks))) :: tl).
Proof.
  revert xs l. induction chunks as [|c cs IH]; intros xs l Hx Hf Hl Hc.
  - cbn [map concat app]. rewrite !app_nil_r. reflexivity.
  - inversion Hc as [|? ? (C1 & C2 & C3) Hc']; subst.
    cbn [map concat app].
    rewrite run_chunks_labelled by assumption.
    rewrite IH.
    + rewrite !app_assoc. reflexivity.
    + destruct xs; [congruence|discriminate].
    + apply Forall_app. split; assumption.
    + rewrite !app_length. congruence.
    + exact Hc'.
Qed.
End LabelledChunks.

(* ====================================================================================== *)
(* 5. small computed instances                                                            *)
(* ====================================================================================== *)
Module Demo.
Open Scope string_scope.
Open Scope list_scope.

(* three files, the middle one empty; rows are numbers *)
Definition files : list (list Z) := [[10; 11]; []; [12; 13; 14]].

(* 1(a) an index equal to the total number of rows (5) is refused, also among valid ones *)
Example lookup_out_of_range : file_seq_get files [0; 5] 0 = None.
Proof. vm_compute. reflexivity. Qed.
Example lookup_out_of_range_by_theorem : file_seq_get files [0; 5] 0 = None.
Proof. apply seq_lookup_out_of_range. right. left. vm_compute. discriminate. Qed.
(* 1(b,c,d) *)
Example lookup_empty : file_seq_get files [] 0 = Some [].
Proof. vm_compute. reflexivity. Qed.
Example lookup_repeats : file_seq_get files [1; 1; 2; 2; 2; 4] 0 = Some [11; 11; 12; 12; 12; 14].
Proof. vm_compute. reflexivity. Qed.
Example lookup_without_empty_file :
  file_seq_get [[10; 11]; [12; 13; 14]] [1; 1; 2; 4] 0 = file_seq_get files [1; 1; 2; 4] 0.
Proof. vm_compute. reflexivity. Qed.
Example lookup_unsorted : file_seq_get files [2; 1] 0 = None.
Proof. vm_compute. reflexivity. Qed.

(* 2(a) --max-fps 3 on 7 rows: 3 files of 3, 3, 1 rows, one digit *)
Definition rows7 : list Z := [0; 1; 2; 3; 4; 5; 6].
Example plan_max : GUtil.split_plan (zlen rows7) None (Some 3) = Some (3, 1).
Proof. vm_compute. reflexivity. Qed.
Example split_max :
  split_parts "fps" 1 (Z.to_nat 3) rows7 =
  [("fps.0.npy", [0; 1; 2]); ("fps.1.npy", [3; 4; 5]); ("fps.2.npy", [6])].
Proof. vm_compute. reflexivity. Qed.
Example split_max_concat :
  List.concat (map snd (split_parts "fps" 1 (Z.to_nat 3) rows7)) = rows7.
Proof. vm_compute. reflexivity. Qed.
(* --num-parts 12 on 7 rows: 1 row per file, 7 files (not 12), two digits *)
Example plan_parts : GUtil.split_plan (zlen rows7) (Some 12) None = Some (1, 2).
Proof. vm_compute. reflexivity. Qed.
Example split_parts_names :
  map fst (split_parts "fps" 2 (Z.to_nat 1) rows7) =
  ["fps.00.npy"; "fps.01.npy"; "fps.02.npy"; "fps.03.npy"; "fps.04.npy"; "fps.05.npy"; "fps.06.npy"].
Proof. vm_compute. reflexivity. Qed.
Example split_parts_concat_ex :
  List.concat (map snd (split_parts "fps" 2 (Z.to_nat 1) rows7)) = rows7.
Proof. vm_compute. reflexivity. Qed.

(* 2(c) --max-fps 1 on 11 rows: 11 files, two digits; "fps.09.npy" < "fps.10.npy" *)
Definition rows11 : list Z := [0; 1; 2; 3; 4; 5; 6; 7; 8; 9; 10].
Example plan11 : GUtil.split_plan (zlen rows11) None (Some 1) = Some (1, 2).
Proof. vm_compute. reflexivity. Qed.
Example names11_sorted :
  let ps := split_parts "fps" 2 (Z.to_nat 1) rows11 in
  sort_by_name ps = ps /\ sort_by_name (rev ps) = ps /\ merge_parts (rev ps) = rows11 /\
  str_ltb "fps.09.npy" "fps.10.npy" = true.
Proof. vm_compute. repeat split; reflexivity. Qed.
(* with one digit only (not what the plan chooses) part 10 sorts before part 2 *)
Example names11_one_digit_wrong :
  merge_parts (split_parts "fps" 1 (Z.to_nat 1) rows11) = [0; 1; 10; 2; 3; 4; 5; 6; 7; 8; 9].
Proof. vm_compute. reflexivity. Qed.

(* 4 caller labels over two calls = one call; and the length condition on l1 is needed *)
Definition dfexp (_ : float) : float := 0x1.78b56362cef38p-2%float.
Definition dcfg := mkCfg CDiameter 0.5 2.
Definition xs : list (option fpv) :=
  [Some [true; true; false; false]; Some [false; false; true; true]; Some [true; true; true; false]].
Definition ys : list (option fpv) :=
  [Some [false; true; true; true]; Some [true; false; false; false]].
Example labelled_chunks :
  run dfexp dcfg [OFit xs (Some [10; 20; 30]); OFit ys (Some [5; 7])] =
  run dfexp dcfg [OFit (xs ++ ys) (Some ([10; 20; 30] ++ [5; 7]))] /\
  clusters (run dfexp dcfg [OFit (xs ++ ys) (Some [10; 20; 30; 5; 7])]) = [[10; 30; 7]; [20; 5]].
Proof. split; vm_compute; reflexivity. Qed.
Example labelled_chunks_by_theorem :
  run dfexp dcfg [OFit xs (Some [10; 20; 30]); OFit ys (Some [5; 7])] =
  run dfexp dcfg [OFit (xs ++ ys) (Some ([10; 20; 30] ++ [5; 7]))].
Proof.
  apply run_chunks_labelled; try discriminate; [|reflexivity].
  repeat constructor; discriminate.
Qed.
(* a first label list that is too short: the first call stops after two rows, so the split and
   the single call label (and count) the rows differently *)
Example labelled_chunks_length_needed :
  nfit (run dfexp dcfg [OFit xs (Some [10; 20]); OFit ys (Some [5; 7])]) = 4 /\
  nfit (run dfexp dcfg [OFit (xs ++ ys) (Some ([10; 20] ++ [5; 7]))]) = 4 /\
  concat (clusters (run dfexp dcfg [OFit xs (Some [10; 20]); OFit ys (Some [5; 7])])) <>
  concat (clusters (run dfexp dcfg [OFit (xs ++ ys) (Some ([10; 20] ++ [5; 7]))])).
Proof. vm_compute. repeat split; discriminate || reflexivity. Qed.
End Demo.
