(* FpsGenFacts.v — facts about the `bb fps-from-smiles` workers of Model/FpsGen.v:
   the sequential loop (API, file creator), the shared block filled by single-row writes in any
   interleaving, the single-file and multi-file commands under any schedule of the workers. *)
From BB Require Import Model.FpsUtil Model.FpsGen Proofs.FpsFacts Proofs.GenTieUtil.
From Coq Require Import String Lia ZArith List Permutation Sorted ZifyBool.
Import ListNotations.
Open Scope Z_scope.

(* --- insertion sort by an integer key: the same sort, seen on the part indices --- *)
Section ZSort.
Context {A : Type}.

Fixpoint zins (x : Z * A) (l : list (Z * A)) : list (Z * A) :=
  match l with
  | [] => [x]
  | y :: tl => if fst y <? fst x then y :: zins x tl else x :: y :: tl
  end.
Definition zsort (l : list (Z * A)) : list (Z * A) := fold_right zins [] l.
Definition flt (a b : Z * A) : Prop := fst a < fst b.

Lemma zins_perm x l : Permutation (x :: l) (zins x l).
Proof.
  induction l as [|y tl IH]; cbn [zins]; [apply Permutation_refl|].
  destruct (fst y <? fst x); [|apply Permutation_refl].
  eapply Permutation_trans; [apply perm_swap|]. apply perm_skip. exact IH.
Qed.

Lemma zsort_perm l : Permutation l (zsort l).
Proof.
  induction l as [|x tl IH]; [constructor|].
  change (zsort (x :: tl)) with (zins x (zsort tl)).
  eapply Permutation_trans; [|apply zins_perm]. apply perm_skip. exact IH.
Qed.

Lemma zins_sorted x l : StronglySorted flt l -> (forall y, In y l -> fst y <> fst x) ->
  StronglySorted flt (zins x l).
Proof.
  induction 1 as [|y tl Hs IH Hf]; intros Hne; cbn [zins].
  - constructor; constructor.
  - assert (Hy : fst y <> fst x) by (apply Hne; left; reflexivity).
    destruct (Z.ltb_spec (fst y) (fst x)) as [Hlt|Hge].
    + constructor.
      * apply IH. intros z Hz. apply Hne. right. exact Hz.
      * rewrite Forall_forall in *. intros z Hz.
        apply (Permutation_in _ (Permutation_sym (zins_perm x tl))) in Hz.
        destruct Hz as [<-|Hz]; [exact Hlt|auto].
    + constructor; [constructor; auto|].
      constructor; [unfold flt; lia|].
      rewrite Forall_forall in *. intros z Hz. specialize (Hf z Hz). unfold flt in *. lia.
Qed.

Lemma zsort_sorted l : NoDup (map fst l) -> StronglySorted flt (zsort l).
Proof.
  induction l as [|x tl IH]; intros ND; [constructor|].
  change (zsort (x :: tl)) with (zins x (zsort tl)). cbn [map] in ND. inversion ND; subst.
  apply zins_sorted; auto.
  intros y Hy E. apply (Permutation_in _ (Permutation_sym (zsort_perm tl))) in Hy.
  match goal with H : ~ In _ _ |- _ => apply H end. rewrite <- E. apply in_map. exact Hy.
Qed.

Lemma sorted_perm_eq l1 : forall l2, StronglySorted flt l1 -> StronglySorted flt l2 ->
  Permutation l1 l2 -> l1 = l2.
Proof.
  induction l1 as [|a l1 IH]; intros l2 S1 S2 HP.
  - apply Permutation_nil in HP. auto.
  - destruct l2 as [|b l2]; [apply Permutation_sym, Permutation_nil in HP; discriminate|].
    inversion S1 as [|? ? S1' F1]; subst. inversion S2 as [|? ? S2' F2]; subst.
    rewrite Forall_forall in F1, F2.
    assert (E : a = b).
    { assert (Ha : In a (b :: l2)) by (apply (Permutation_in _ HP); left; reflexivity).
      assert (Hb : In b (a :: l1))
        by (apply (Permutation_in _ (Permutation_sym HP)); left; reflexivity).
      destruct Ha as [Ha|Ha]; [auto|]. destruct Hb as [Hb|Hb]; [auto|].
      apply F2 in Ha. apply F1 in Hb. unfold flt in *. lia. }
    subst b. f_equal. apply IH; auto. eapply Permutation_cons_inv. exact HP.
Qed.

Lemma zsort_unique l l' : StronglySorted flt l' -> Permutation l l' -> zsort l = l'.
Proof.
  intros Hs HP. apply sorted_perm_eq; auto.
  - apply zsort_sorted. eapply Permutation_NoDup; [apply Permutation_map, Permutation_sym, HP|].
    clear HP. induction Hs as [|y tl Hs IH Hf]; cbn [map]; constructor; auto.
    intros Hin. apply in_map_iff in Hin. destruct Hin as (z & Ez & Hz).
    rewrite Forall_forall in Hf. apply Hf in Hz. unfold flt in Hz. lia.
  - eapply Permutation_trans; [apply Permutation_sym, zsort_perm|exact HP].
Qed.
End ZSort.

Lemma with_idxs_range {A} (bs : list (list A)) : forall i t,
  In t (with_idxs i bs) -> i <= fst t < i + zlen bs.
Proof.
  induction bs as [|b bs IH]; intros i t H; cbn [with_idxs] in H; [destruct H|].
  rewrite zlen_cons. pose proof (zlen_nonneg bs).
  destruct H as [<-|H]; [cbn [fst]; lia|]. apply IH in H. lia.
Qed.

Lemma with_idxs_sorted {A} (bs : list (list A)) : forall i, StronglySorted flt (with_idxs i bs).
Proof.
  induction bs as [|b bs IH]; intros i; cbn [with_idxs]; constructor; auto.
  apply Forall_forall. intros t Ht. apply with_idxs_range in Ht. unfold flt. cbn [fst]. lia.
Qed.

(* among the part names of one command, the byte order of the names is the order of the indices *)
Lemma part_name_ltb stem d i j : 1 <= d -> 0 <= i < 10 ^ d -> 0 <= j < 10 ^ d ->
  str_ltb (part_name stem d i) (part_name stem d j) = (i <? j).
Proof.
  intros Hd Hi Hj. destruct (Z.ltb_spec i j) as [Hlt|Hge].
  - apply part_names_sorted; lia.
  - destruct (Z.eq_dec i j) as [->|Hne]; [apply str_ltb_irrefl|].
    apply str_ltb_asym. apply part_names_sorted; lia.
Qed.

Section NameSort.
Context {A B : Type}.
Variable stem : string.
Variable d : Z.
Variable g : A -> B.
Definition named (t : Z * A) : string * B := (part_name stem d (fst t), g (snd t)).

Lemma ins_by_name_named x l : 1 <= d -> 0 <= fst x < 10 ^ d ->
  (forall y, In y l -> 0 <= fst y < 10 ^ d) ->
  ins_by_name (named x) (map named l) = map named (zins x l).
Proof.
  intros Hd Hx. induction l as [|y tl IH]; intros Hl; [reflexivity|].
  cbn [map ins_by_name zins]. unfold named at 1 2. cbn [fst].
  rewrite part_name_ltb; auto; [|apply Hl; left; reflexivity].
  destruct (fst y <? fst x); [|reflexivity].
  cbn [map]. f_equal. apply IH. intros z Hz. apply Hl. right. exact Hz.
Qed.

Lemma sort_by_name_named l : 1 <= d -> (forall y, In y l -> 0 <= fst y < 10 ^ d) ->
  sort_by_name (map named l) = map named (zsort l).
Proof.
  intros Hd. induction l as [|x tl IH]; intros Hl; [reflexivity|].
  cbn [map]. rewrite sort_by_name_cons. rewrite IH by (intros z Hz; apply Hl; right; exact Hz).
  change (zsort (x :: tl)) with (zins x (zsort tl)).
  apply ins_by_name_named; auto; [apply Hl; left; reflexivity|].
  intros y Hy. apply Hl. right.
  apply (Permutation_in _ (Permutation_sym (zsort_perm tl))). exact Hy.
Qed.
End NameSort.

Lemma batched_count_le {A} n (l : list A) k : (0 < n)%nat -> zlen l <= k * Z.of_nat n ->
  Z.of_nat (List.length (batched n l)) <= k.
Proof.
  intros Hn H. rewrite batched_length by auto. rewrite Nat2Z.inj_div.
  replace (Z.of_nat (List.length l + n - 1)) with (zlen l + Z.of_nat n - 1) by (unfold zlen; lia).
  assert ((zlen l + Z.of_nat n - 1) / Z.of_nat n < k + 1); [|lia].
  apply Z.div_lt_upper_bound; lia.
Qed.

Section GenFacts.
Context {S R : Type}.
Variable fp_of : S -> option R.
Variable zero : R.

(* ====================================================================================== *)
(* A/B. the sequential loop                                                               *)
(* ====================================================================================== *)

Lemma invalid_from_ge i l j : In j (invalid_from fp_of i l) -> i <= j.
Proof.
  revert i. induction l as [|s tl IH]; intros i H; cbn [invalid_from] in H; [destruct H|].
  destruct (fp_of s).
  - apply IH in H. lia.
  - destruct H as [H|H]; [lia|apply IH in H; lia].
Qed.

Lemma seq_loop_spec i l : seq_loop fp_of i l = (map fp_of l, invalid_from fp_of i l).
Proof.
  revert i. induction l as [|s tl IH]; intros i; cbn [seq_loop map invalid_from]; [reflexivity|].
  rewrite IH. destruct (fp_of s); reflexivity.
Qed.

Lemma existsb_eqb_false i idxs : (forall j, In j idxs -> j <> i) -> existsb (Z.eqb i) idxs = false.
Proof.
  intros H. destruct (existsb (Z.eqb i) idxs) eqn:E; [|reflexivity].
  apply existsb_exists in E. destruct E as (j & Hj & Hij). apply H in Hj. lia.
Qed.

Lemma delete_from_spec l : forall i pre, (forall j, In j pre -> j < i) ->
  delete_from i (map fp_of l) (pre ++ invalid_from fp_of i l) = map Some (valid_fps fp_of l).
Proof.
  induction l as [|s tl IH]; intros i pre Hpre; [reflexivity|].
  cbn [map invalid_from valid_fps delete_from]. destruct (fp_of s) as [r|] eqn:E.
  - rewrite existsb_eqb_false.
    + cbn [map]. f_equal. apply IH. intros j Hj. apply Hpre in Hj. lia.
    + intros j Hj. apply in_app_or in Hj. destruct Hj as [Hj|Hj].
      * apply Hpre in Hj. lia.
      * apply invalid_from_ge in Hj. lia.
  - replace (existsb (Z.eqb i) (pre ++ i :: invalid_from fp_of (i + 1) tl)) with true.
    + replace (pre ++ i :: invalid_from fp_of (i + 1) tl)%list
        with ((pre ++ [i]) ++ invalid_from fp_of (i + 1) tl)%list
        by (rewrite <- app_assoc; reflexivity).
      apply IH. intros j Hj. apply in_app_or in Hj. destruct Hj as [Hj|[Hj|[]]].
      * apply Hpre in Hj. lia.
      * lia.
    + symmetry. apply existsb_exists. exists i. split; [|lia].
      apply in_or_app. right. left. reflexivity.
Qed.

Lemma np_delete_spec l :
  np_delete (map fp_of l) (invalid_from fp_of 0 l) = map Some (valid_fps fp_of l).
Proof. unfold np_delete. apply (delete_from_spec l 0 []). intros j []. Qed.

Theorem api_spec : forall l,
  api_fps_from_smiles fp_of l = (map Some (valid_fps fp_of l), invalid_idxs fp_of l).
Proof.
  intros l. unfold api_fps_from_smiles. rewrite seq_loop_spec.
  unfold invalid_idxs. rewrite np_delete_spec. reflexivity.
Qed.

Theorem create_file_spec : forall stem digits t,
  create_file fp_of stem digits t =
  (match digits with Some d => part_name stem d (fst t) | None => stem end,
   map Some (valid_fps fp_of (snd t))).
Proof.
  intros stem digits t. unfold create_file. rewrite seq_loop_spec.
  rewrite np_delete_spec. reflexivity.
Qed.

(* ====================================================================================== *)
(* C. the shared block: any interleaving of the single-row writes                         *)
(* ====================================================================================== *)

(* enumerate(l, start=i) *)
Fixpoint zip_from (i : Z) (l : list S) : list (Z * S) :=
  match l with [] => [] | s :: tl => (i, s) :: zip_from (i + 1) tl end.

Lemma writes_of_range_zip l : forall i stop, i + zlen l <= stop ->
  writes_of_range i stop l = zip_from i l.
Proof.
  induction l as [|s tl IH]; intros i stop H; [reflexivity|].
  rewrite zlen_cons in H. pose proof (zlen_nonneg tl).
  cbn [writes_of_range zip_from]. destruct (Z.ltb_spec i stop); [|lia].
  f_equal. apply IH. lia.
Qed.

Lemma zip_from_app a : forall i b,
  zip_from i (a ++ b) = (zip_from i a ++ zip_from (i + zlen a) b)%list.
Proof.
  induction a as [|s tl IH]; intros i b.
  - cbn [app zip_from]. f_equal. unfold zlen. cbn [List.length]. lia.
  - cbn [app zip_from]. rewrite IH, zlen_cons. f_equal. f_equal. f_equal. lia.
Qed.

Lemma writes_with_ranges bs : forall s,
  List.concat (map writes_of (with_ranges s bs)) = zip_from s (List.concat bs).
Proof.
  induction bs as [|b bs IH]; intros s; [reflexivity|].
  cbn [with_ranges map List.concat]. rewrite IH, zip_from_app. f_equal.
  unfold writes_of. cbn [fst snd]. apply writes_of_range_zip. lia.
Qed.

(* every index is written exactly once, with its own SMILES *)
Lemma writes_ranges_batches n l : (0 < n)%nat ->
  List.concat (map writes_of (ranges_batches n l)) = zip_from 0 l.
Proof.
  intros Hn. unfold ranges_batches. rewrite writes_with_ranges, batched_concat by auto.
  reflexivity.
Qed.

Lemma zip_from_ge l : forall i w, In w (zip_from i l) -> i <= fst w.
Proof.
  induction l as [|s tl IH]; intros i w H; cbn [zip_from] in H; [destruct H|].
  destruct H as [H|H]; [subst; cbn; lia|apply IH in H; lia].
Qed.

Lemma zip_from_nodup l : forall i, NoDup (map fst (zip_from i l)).
Proof.
  induction l as [|s tl IH]; intros i; cbn [zip_from map fst]; constructor; auto.
  intros H. apply in_map_iff in H. destruct H as (w & Hw & Hin).
  apply zip_from_ge in Hin. lia.
Qed.

(* --- writes to different rows commute --- *)
Lemma set_nth_length {A} (x : A) l : forall i, List.length (set_nth i x l) = List.length l.
Proof.
  induction l as [|y tl IH]; intros i; [destruct i; reflexivity|].
  destruct i as [|k]; cbn [set_nth List.length]; [reflexivity|]. rewrite IH. reflexivity.
Qed.

Lemma zlen_set_nth {A} (x : A) l i : zlen (set_nth i x l) = zlen l.
Proof. unfold zlen. rewrite set_nth_length. reflexivity. Qed.

Lemma set_nth_comm {A} (x y : A) l : forall i j, i <> j ->
  set_nth i x (set_nth j y l) = set_nth j y (set_nth i x l).
Proof.
  induction l as [|z tl IH]; intros i j H; [destruct i, j; reflexivity|].
  destruct i as [|i], j as [|j]; cbn [set_nth]; try reflexivity; [congruence|].
  f_equal. apply IH. congruence.
Qed.

Lemma set_z_comm {A} i j (x y : A) l : i <> j ->
  match set_z i x l with Some l' => set_z j y l' | None => None end =
  match set_z j y l with Some l' => set_z i x l' | None => None end.
Proof.
  intros H. unfold set_z.
  destruct ((0 <=? i) && (i <? zlen l)) eqn:Ei, ((0 <=? j) && (j <? zlen l)) eqn:Ej;
    rewrite ?zlen_set_nth, ?Ei, ?Ej; try reflexivity.
  f_equal. symmetry. apply set_nth_comm. lia.
Qed.

Lemma apply_write_comm x y m : fst x <> fst y ->
  apply_write fp_of (apply_write fp_of m x) y = apply_write fp_of (apply_write fp_of m y) x.
Proof.
  intros H. destruct m as [[f k]|]; [|reflexivity]. unfold apply_write.
  destruct (fp_of (snd x)) as [rx|] eqn:Ex, (fp_of (snd y)) as [ry|] eqn:Ey; cbn [sh_fps sh_mask].
  - pose proof (set_z_comm (fst x) (fst y) rx ry f H) as C.
    destruct (set_z (fst x) rx f) as [f1|] eqn:E1; destruct (set_z (fst y) ry f) as [f2|] eqn:E2;
      cbn [sh_fps sh_mask]; rewrite ?Ex, ?Ey; cbn [sh_fps sh_mask];
      rewrite ?C; try rewrite <- C; reflexivity.
  - destruct (set_z (fst x) rx f) as [f1|] eqn:E1; destruct (set_z (fst y) true k) as [k2|] eqn:E2;
      cbn [sh_fps sh_mask]; rewrite ?Ex, ?Ey; cbn [sh_fps sh_mask]; rewrite ?E1, ?E2; reflexivity.
  - destruct (set_z (fst x) true k) as [k1|] eqn:E1; destruct (set_z (fst y) ry f) as [f2|] eqn:E2;
      cbn [sh_fps sh_mask]; rewrite ?Ex, ?Ey; cbn [sh_fps sh_mask]; rewrite ?E1, ?E2; reflexivity.
  - pose proof (set_z_comm (fst x) (fst y) true true k H) as C.
    destruct (set_z (fst x) true k) as [k1|] eqn:E1; destruct (set_z (fst y) true k) as [k2|] eqn:E2;
      cbn [sh_fps sh_mask]; rewrite ?Ex, ?Ey; cbn [sh_fps sh_mask];
      rewrite ?C; try rewrite <- C; reflexivity.
Qed.

(* hence a set of writes to pairwise distinct rows can be applied in any order (this holds for
   any starting block, error state included) *)
Lemma fold_writes_perm ws ws' : Permutation ws ws' -> NoDup (map fst ws) ->
  forall m, fold_left (apply_write fp_of) ws m = fold_left (apply_write fp_of) ws' m.
Proof.
  induction 1 as [|x l l' HP IH|x y l|l l' l'' HP1 IH1 HP2 IH2]; intros ND m.
  - reflexivity.
  - cbn [fold_left]. apply IH. cbn [map] in ND. inversion ND; auto.
  - cbn [fold_left]. rewrite (apply_write_comm y x); [reflexivity|].
    cbn [map] in ND. inversion ND as [|a b Hn _]; subst. intros E. apply Hn. left. auto.
  - rewrite IH1 by auto. apply IH2.
    eapply Permutation_NoDup; [|exact ND]. apply Permutation_map. exact HP1.
Qed.

(* --- the writes in index order --- *)
Definition row_of (s : S) : R := match fp_of s with Some r => r | None => zero end.
Definition bad_of (s : S) : bool := match fp_of s with Some _ => false | None => true end.

Definition full_block (l : list S) : shm :=
  {| sh_fps := map (fun s => match fp_of s with Some r => r | None => zero end) l;
     sh_mask := map (fun s => match fp_of s with Some _ => false | None => true end) l |}.

Lemma set_nth_app {A} (a : list A) x y t :
  set_nth (List.length a) x (a ++ y :: t) = (a ++ x :: t)%list.
Proof. induction a as [|z a IH]; cbn [List.length app set_nth]; [reflexivity|]. rewrite IH. reflexivity. Qed.

Lemma set_z_app {A} (a : list A) x y t : set_z (zlen a) x (a ++ y :: t) = Some (a ++ x :: t)%list.
Proof.
  unfold set_z. rewrite zlen_app, zlen_cons. pose proof (zlen_nonneg a). pose proof (zlen_nonneg t).
  replace ((0 <=? zlen a) && (zlen a <? zlen a + (1 + zlen t))) with true by lia.
  unfold zlen. rewrite Nat2Z.id. rewrite set_nth_app. reflexivity.
Qed.

Lemma apply_write_next a b t u s : List.length a = List.length b ->
  apply_write fp_of (Some {| sh_fps := a ++ zero :: t; sh_mask := b ++ false :: u |}) (zlen a, s) =
  Some {| sh_fps := a ++ row_of s :: t; sh_mask := b ++ bad_of s :: u |}.
Proof.
  intros H. unfold apply_write, row_of, bad_of. cbn [fst snd sh_fps sh_mask].
  destruct (fp_of s) as [r|].
  - rewrite set_z_app. reflexivity.
  - replace (zlen a) with (zlen b) by (unfold zlen; lia). rewrite set_z_app. reflexivity.
Qed.

Lemma fold_zip_from l : forall a b, List.length a = List.length b ->
  fold_left (apply_write fp_of) (zip_from (zlen a) l)
    (Some {| sh_fps := a ++ repeat zero (List.length l);
             sh_mask := b ++ repeat false (List.length l) |}) =
  Some {| sh_fps := a ++ map row_of l; sh_mask := b ++ map bad_of l |}.
Proof.
  induction l as [|s tl IH]; intros a b H; [reflexivity|].
  cbn [zip_from fold_left List.length repeat map]. rewrite apply_write_next by auto.
  replace (a ++ row_of s :: repeat zero (List.length tl))%list
    with ((a ++ [row_of s]) ++ repeat zero (List.length tl))%list
    by (rewrite <- app_assoc; reflexivity).
  replace (b ++ bad_of s :: repeat false (List.length tl))%list
    with ((b ++ [bad_of s]) ++ repeat false (List.length tl))%list
    by (rewrite <- app_assoc; reflexivity).
  replace (zlen a + 1) with (zlen (a ++ [row_of s])) by (rewrite zlen_app; reflexivity).
  rewrite IH by (rewrite !app_length; cbn [List.length]; lia).
  rewrite <- !app_assoc. reflexivity.
Qed.

Lemma fold_in_order l :
  fold_left (apply_write fp_of) (zip_from 0 l) (Some (shm0 zero (List.length l))) =
  Some (full_block l).
Proof. exact (fold_zip_from l [] [] eq_refl). Qed.

Theorem fill_any_interleaving : forall n l ws, (0 < n)%nat ->
  Permutation ws (List.concat (map writes_of (ranges_batches n l))) ->
  fold_left (apply_write fp_of) ws (Some (shm0 zero (List.length l))) = Some (full_block l).
Proof.
  intros n l ws Hn HP. rewrite writes_ranges_batches in HP by auto.
  rewrite <- fold_in_order. symmetry. apply fold_writes_perm.
  - apply Permutation_sym. exact HP.
  - apply zip_from_nodup.
Qed.

(* ====================================================================================== *)
(* D/E. the single-file command                                                           *)
(* ====================================================================================== *)

Lemma delete_mask_full l : delete_mask (map row_of l) (map bad_of l) = valid_fps fp_of l.
Proof.
  induction l as [|s tl IH]; [reflexivity|].
  cbn [map valid_fps]. rewrite <- IH. unfold row_of at 1, bad_of at 1.
  destruct (fp_of s); reflexivity.
Qed.

Lemma nonzero_full l : forall i, nonzero_from i (map bad_of l) = invalid_from fp_of i l.
Proof.
  induction l as [|s tl IH]; intros i; [reflexivity|].
  cbn [map invalid_from]. rewrite <- IH. unfold bad_of at 1.
  destruct (fp_of s); reflexivity.
Qed.

Lemma assemble_full l : assemble_single (full_block l) = (valid_fps fp_of l, invalid_idxs fp_of l).
Proof.
  unfold assemble_single, full_block, invalid_idxs. cbn [sh_fps sh_mask].
  fold row_of. fold bad_of.
  change (map (fun s => match fp_of s with Some r => r | None => zero end) l) with (map row_of l).
  change (map (fun s => match fp_of s with Some _ => false | None => true end) l) with (map bad_of l).
  rewrite delete_mask_full, nonzero_full. reflexivity.
Qed.

Lemma fold_fill_tasks tasks : forall m,
  fold_left (fill_task fp_of) tasks m =
  fold_left (apply_write fp_of) (List.concat (map writes_of tasks)) m.
Proof.
  induction tasks as [|t tl IH]; intros m; [reflexivity|].
  cbn [map List.concat fold_left]. rewrite fold_left_app. rewrite IH. reflexivity.
Qed.

Lemma Permutation_concat_map {A B} (f : A -> list B) a b :
  Permutation a b -> Permutation (List.concat (map f a)) (List.concat (map f b)).
Proof.
  induction 1 as [|x l l' HP IH|x y l|l l' l'' HP1 IH1 HP2 IH2]; cbn [map List.concat].
  - constructor.
  - apply Permutation_app_head. exact IH.
  - rewrite !app_assoc. apply Permutation_app_tail. apply Permutation_app_comm.
  - eapply Permutation_trans; eauto.
Qed.

Theorem single_file_any_interleaving : forall n l ws, (0 < n)%nat ->
  Permutation ws (List.concat (map writes_of (ranges_batches n l))) ->
  option_map assemble_single
    (fold_left (apply_write fp_of) ws (Some (shm0 zero (List.length l)))) =
  Some (valid_fps fp_of l, invalid_idxs fp_of l).
Proof.
  intros n l ws Hn HP. rewrite (fill_any_interleaving n l ws Hn HP).
  cbn [option_map]. rewrite assemble_full. reflexivity.
Qed.

Theorem single_file_any_schedule : forall n l tasks, (0 < n)%nat ->
  Permutation tasks (ranges_batches n l) ->
  cli_single_file fp_of zero tasks (List.length l) =
  Some (valid_fps fp_of l, invalid_idxs fp_of l).
Proof.
  intros n l tasks Hn HP. unfold cli_single_file, run_fillers.
  rewrite fold_fill_tasks.
  rewrite (fill_any_interleaving n l _ Hn (Permutation_concat_map writes_of _ _ HP)).
  rewrite assemble_full. reflexivity.
Qed.

Theorem single_file_equals_api : forall n l tasks rows inv, (0 < n)%nat ->
  Permutation tasks (ranges_batches n l) ->
  cli_single_file fp_of zero tasks (List.length l) = Some (rows, inv) ->
  (map Some rows, inv) = api_fps_from_smiles fp_of l.
Proof.
  intros n l tasks rows inv Hn HP H.
  rewrite (single_file_any_schedule n l tasks Hn HP) in H. inversion H; subst.
  rewrite api_spec. reflexivity.
Qed.

(* ====================================================================================== *)
(* F. the multi-file command                                                              *)
(* ====================================================================================== *)

Lemma valid_fps_app a b : valid_fps fp_of (a ++ b) = (valid_fps fp_of a ++ valid_fps fp_of b)%list.
Proof.
  induction a as [|s tl IH]; [reflexivity|]. cbn [app valid_fps].
  destruct (fp_of s); rewrite IH; reflexivity.
Qed.

Lemma valid_fps_concat bs :
  List.concat (map (fun b => map Some (valid_fps fp_of b)) bs) =
  map Some (valid_fps fp_of (List.concat bs)).
Proof.
  induction bs as [|b bs IH]; [reflexivity|].
  cbn [map List.concat]. rewrite IH, valid_fps_app, map_app. reflexivity.
Qed.

Lemma valid_fps_batched n l : (0 < n)%nat ->
  List.concat (map (valid_fps fp_of) (batched n l)) = valid_fps fp_of l.
Proof.
  intros Hn. rewrite <- (batched_concat n l Hn) at 2.
  induction (batched n l) as [|b bs IH]; [reflexivity|].
  cbn [map List.concat]. rewrite IH, valid_fps_app. reflexivity.
Qed.


(* whatever the order in which the files are created, the directory read back in name order is
   the concatenation of the batches' valid rows, for ANY list of batches *)
Lemma multi_file_batches stem d (bs : list (list S)) tasks :
  1 <= d -> zlen bs <= 10 ^ d -> Permutation tasks (with_idxs 0 bs) ->
  cli_multi_file fp_of stem (Some d) tasks = map Some (valid_fps fp_of (List.concat bs)).
Proof.
  intros Hd Hb HP. unfold cli_multi_file, merge_parts.
  rewrite (map_ext _ _ (create_file_spec stem (Some d))).
  change (map (fun t : Z * list S => (part_name stem d (fst t), map Some (valid_fps fp_of (snd t)))) tasks)
    with (map (named stem d (fun b => map Some (valid_fps fp_of b))) tasks).
  rewrite sort_by_name_named; auto.
  - rewrite (zsort_unique tasks (with_idxs 0 bs)); auto using with_idxs_sorted.
    rewrite map_map. unfold named. cbn [snd].
    rewrite <- (map_map snd (fun b => map Some (valid_fps fp_of b))).
    rewrite with_idxs_snd. apply valid_fps_concat.
  - intros y Hy. apply (Permutation_in _ HP) in Hy. apply with_idxs_range in Hy. lia.
Qed.

Theorem multi_file_any_schedule : forall stem d n l tasks, (0 < n)%nat -> 1 <= d ->
  Z.of_nat (List.length (batched n l)) <= 10 ^ d ->
  Permutation tasks (with_idxs 0 (batched n l)) ->
  cli_multi_file fp_of stem (Some d) tasks = map Some (valid_fps fp_of l).
Proof.
  intros stem d n l tasks Hn Hd Hb HP.
  rewrite (multi_file_batches stem d (batched n l) tasks Hd Hb HP).
  rewrite batched_concat by auto. reflexivity.
Qed.

(* ====================================================================================== *)
(* G. with the digits the command computes                                                *)
(* ====================================================================================== *)


Theorem multi_file_cli_digits : forall stem l p mx parts npb dg tasks,
  1 <= zlen l ->
  match p with Some x => 1 <= x | None => True end ->
  match mx with Some x => 1 <= x | None => True end ->
  parse_num_per_batch (zlen l) p mx = Some (parts, npb, Some dg) ->
  Permutation tasks (with_idxs 0 (batched (Z.to_nat npb) l)) ->
  cli_multi_file fp_of stem (Some dg) tasks = map Some (valid_fps fp_of l).
Proof.
  intros stem l p mx parts npb dg tasks Hl Hp Hm H HP.
  destruct (parse_num_per_batch_spec _ _ _ _ _ _ Hl Hp Hm H) as (Hparts & Hnpb & Hprod).
  assert (Hdg : dg = Z.of_nat (String.length (str_of_Z parts))).
  { destruct p as [x|], mx as [m|]; cbn in H; inversion H; subst; reflexivity. }
  destruct (str_of_Z_bound parts ltac:(lia)) as [Hb Hl1]. rewrite <- Hdg in Hb.
  apply (multi_file_any_schedule stem dg (Z.to_nat npb) l tasks); auto; try lia.
  assert (Z.of_nat (List.length (batched (Z.to_nat npb) l)) <= parts); [|lia].
  apply batched_count_le; lia.
Qed.

End GenFacts.

(* ====================================================================================== *)
(* H. necessity / non-vacuity                                                             *)
(* ====================================================================================== *)

Definition fp_ex (s : Z) : option Z := if s <? 0 then None else Some s.
Definition l_ex : list Z := [5; -1; 7; -2; 9; 11; -3].

(* three workers, the tasks taken in reverse order *)
Example fill_example :
  cli_single_file fp_ex 0 (rev (ranges_batches 3 l_ex)) (List.length l_ex) =
  Some ([5; 7; 9; 11], [1; 3; 6]).
Proof. vm_compute. reflexivity. Qed.

Example fill_example_api :
  api_fps_from_smiles fp_ex l_ex = (map Some [5; 7; 9; 11], [1; 3; 6]).
Proof. vm_compute. reflexivity. Qed.

(* the second batch travelling with the first batch's range: rows 3..5 are never written (they
   come out as zero rows), rows 0..2 are written twice: row 0 is masked by the second write, the
   invalid mark of row 1 survives the valid second write, row 2 is overwritten *)
Example overlapping_ranges_break :
  cli_single_file fp_ex 0 [((0, 3), [5; -1; 7]); ((0, 3), [-2; 9; 11]); ((6, 7), [-3])]
    (List.length l_ex) = Some ([11; 0; 0; 0], [0; 1; 6]) /\
  Some ([11; 0; 0; 0], [0; 1; 6]) <> Some (valid_fps fp_ex l_ex, invalid_idxs fp_ex l_ex).
Proof. split; [vm_compute; reflexivity|vm_compute; discriminate]. Qed.

(* the multi-file command: the files created in reverse order, read back in name order *)
Example multi_file_example :
  cli_multi_file fp_ex "fps" (Some 1) (rev (with_idxs 0 (batched 3 l_ex))) =
  map Some [5; 7; 9; 11].
Proof. vm_compute. reflexivity. Qed.

(* too few digits: with 11 parts and one digit, part 10 sorts before part 2 *)
Example too_few_digits_break :
  cli_multi_file fp_ex "fps" (Some 1) (with_idxs 0 (batched 1 [0;1;2;3;4;5;6;7;8;9;10])) =
  map Some [0; 1; 10; 2; 3; 4; 5; 6; 7; 8; 9].
Proof. vm_compute. reflexivity. Qed.
