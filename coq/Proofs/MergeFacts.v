(* MergeFacts.v — laws of the merge criteria (Model/Merges.v): acceptance
   versus the threshold, threshold monotonicity, tolerance variants, slack. *)
From BB Require Import Model.Sim Model.Merges.
From Coq Require Import ZArith List Bool Reals Lia Lra.
From Flocq Require Import Core BinarySingleNaN.
From Flocq Require Import IEEE754.PrimFloat.
From BB Require Import Proofs.FloatFacts.
Import ListNotations.
Open Scope Z_scope.

#[local] Existing Instance Hprec.
#[local] Existing Instance Hmax.

Notation pfloat := PrimFloat.float.
Notation bfloat := (binary_float prec emax).

(* ------------------------------------------------------------------ *)
(* Finite / NaN predicates on primitive floats                         *)
(* ------------------------------------------------------------------ *)

Definition is_finite_f (x : pfloat) : bool :=
  match Prim2SF x with S754_zero _ | S754_finite _ _ _ => true | _ => false end.

Lemma is_finite_f_equiv : forall x, is_finite_f x = is_finite (Prim2B x).
Proof.
  intros x. unfold is_finite_f. rewrite <- B2SF_Prim2B.
  destruct (Prim2B x); reflexivity.
Qed.

Lemma is_nan_f_equiv : forall x, is_nan_f x = is_nan (Prim2B x).
Proof.
  intros x. unfold is_nan_f. rewrite eqb_equiv, Beqb_refl, negb_involutive.
  reflexivity.
Qed.

Lemma finite_not_nan : forall x : bfloat, is_finite x = true -> is_nan x = false.
Proof. intros [s|s| |s m e H]; simpl; congruence. Qed.

Lemma is_finite_f_not_nan : forall x, is_finite_f x = true -> is_nan_f x = false.
Proof.
  intros x. rewrite is_finite_f_equiv, is_nan_f_equiv. apply finite_not_nan.
Qed.

(* ------------------------------------------------------------------ *)
(* Extended-real embedding of the non-NaN floats                       *)
(* ------------------------------------------------------------------ *)

Definition M : R := bpow radix2 emax.

Definition ext (x : bfloat) : R :=
  match x with
  | B754_infinity false => M
  | B754_infinity true => (- M)%R
  | _ => B2R x
  end.

Lemma M_pos : (0 < M)%R.
Proof. apply bpow_gt_0. Qed.

Lemma ext_fin : forall x : bfloat, is_finite x = true -> ext x = B2R x.
Proof. intros [s|[|]| |s m e H]; simpl; congruence. Qed.

Lemma B2R_bound : forall x : bfloat, (- M < B2R x < M)%R.
Proof.
  intros x. pose proof (abs_B2R_lt_emax prec emax x) as H.
  apply Rabs_def2 in H. unfold M. lra.
Qed.

Lemma ext_fin_bound : forall x : bfloat, is_finite x = true -> (- M < ext x < M)%R.
Proof. intros x F. rewrite ext_fin by exact F. apply B2R_bound. Qed.

Lemma ext_range : forall x : bfloat, (- M <= ext x <= M)%R.
Proof.
  intros x. pose proof M_pos. pose proof (B2R_bound x).
  destruct x as [s|[|]| |s m e H']; simpl in *; lra.
Qed.

Lemma Bcompare_ext : forall x y : bfloat,
  is_nan x = false -> is_nan y = false ->
  Bcompare x y = Some (Rcompare (ext x) (ext y)).
Proof.
  intros x y Nx Ny.
  destruct (is_finite x) eqn:Fx; destruct (is_finite y) eqn:Fy.
  - rewrite !ext_fin by assumption. apply Bcompare_correct; assumption.
  - pose proof (ext_fin_bound x Fx) as Bx.
    destruct y as [sy|[|]| |sy my ey Hy]; try discriminate;
      destruct x as [sx|sx| |[|] mx ex Hx]; try discriminate;
      cbn [Bcompare B2SF SFcompare]; apply f_equal; symmetry;
      cbn [ext] in *;
      first [ apply Rcompare_Lt; lra | apply Rcompare_Gt; lra ].
  - pose proof (ext_fin_bound y Fy) as By.
    destruct x as [sx|[|]| |sx mx ex Hx]; try discriminate;
      destruct y as [sy|sy| |[|] my ey Hy]; try discriminate;
      cbn [Bcompare B2SF SFcompare]; apply f_equal; symmetry;
      cbn [ext] in *;
      first [ apply Rcompare_Lt; lra | apply Rcompare_Gt; lra ].
  - pose proof M_pos.
    destruct x as [sx|[|]| |sx mx ex Hx]; try discriminate;
      destruct y as [sy|[|]| |sy my ey Hy]; try discriminate;
      cbn [Bcompare B2SF SFcompare ext]; apply f_equal; symmetry;
      first [ apply Rcompare_Lt; lra | apply Rcompare_Gt; lra
            | apply Rcompare_Eq; lra ].
Qed.

Lemma Bcompare_nan_l : forall x y : bfloat, is_nan x = true -> Bcompare x y = None.
Proof. intros [s|s| |s m e H] y; simpl; try congruence. reflexivity. Qed.

Lemma Bcompare_nan_r : forall x y : bfloat, is_nan y = true -> Bcompare x y = None.
Proof.
  intros x [s|s| |s m e H]; simpl; try congruence.
  intros _. destruct x as [s|[|]| |[|] m e H]; reflexivity.
Qed.

(* Boolean specifications of the three primitive comparisons *)
Lemma ltb_ext : forall x y : pfloat,
  PrimFloat.ltb x y =
  negb (is_nan_f x) && negb (is_nan_f y) && Rlt_bool (ext (Prim2B x)) (ext (Prim2B y)).
Proof.
  intros x y. rewrite ltb_equiv, !is_nan_f_equiv.
  change (Bltb (Prim2B x) (Prim2B y)) with
    (match Bcompare (Prim2B x) (Prim2B y) with Some Lt => true | _ => false end).
  destruct (is_nan (Prim2B x)) eqn:Nx; [ rewrite Bcompare_nan_l by exact Nx; reflexivity | ].
  destruct (is_nan (Prim2B y)) eqn:Ny; [ rewrite Bcompare_nan_r by exact Ny; reflexivity | ].
  rewrite Bcompare_ext by assumption. simpl.
  case Rcompare_spec; intro H; case Rlt_bool_spec; intro H'; try reflexivity; lra.
Qed.

Lemma leb_ext : forall x y : pfloat,
  PrimFloat.leb x y =
  negb (is_nan_f x) && negb (is_nan_f y) && Rle_bool (ext (Prim2B x)) (ext (Prim2B y)).
Proof.
  intros x y. rewrite leb_equiv, !is_nan_f_equiv.
  change (Bleb (Prim2B x) (Prim2B y)) with
    (match Bcompare (Prim2B x) (Prim2B y) with Some Lt | Some Eq => true | _ => false end).
  destruct (is_nan (Prim2B x)) eqn:Nx; [ rewrite Bcompare_nan_l by exact Nx; reflexivity | ].
  destruct (is_nan (Prim2B y)) eqn:Ny; [ rewrite Bcompare_nan_r by exact Ny; reflexivity | ].
  rewrite Bcompare_ext by assumption. simpl.
  case Rcompare_spec; intro H; case Rle_bool_spec; intro H'; try reflexivity; lra.
Qed.

Lemma eqb_ext : forall x y : pfloat,
  PrimFloat.eqb x y =
  negb (is_nan_f x) && negb (is_nan_f y) && Req_bool (ext (Prim2B x)) (ext (Prim2B y)).
Proof.
  intros x y. rewrite eqb_equiv, !is_nan_f_equiv.
  change (Beqb (Prim2B x) (Prim2B y)) with
    (match Bcompare (Prim2B x) (Prim2B y) with Some Eq => true | _ => false end).
  destruct (is_nan (Prim2B x)) eqn:Nx; [ rewrite Bcompare_nan_l by exact Nx; reflexivity | ].
  destruct (is_nan (Prim2B y)) eqn:Ny; [ rewrite Bcompare_nan_r by exact Ny; reflexivity | ].
  rewrite Bcompare_ext by assumption. simpl.
  case Rcompare_spec; intro H; case Req_bool_spec; intro H'; try reflexivity; lra.
Qed.

(* ------------------------------------------------------------------ *)
(* Order facts on primitive floats (NaN-aware)                         *)
(* ------------------------------------------------------------------ *)

Ltac fcmp :=
  repeat match goal with
  | |- context [Rlt_bool ?a ?b] => destruct (Rlt_bool_spec a b)
  | |- context [Rle_bool ?a ?b] => destruct (Rle_bool_spec a b)
  | |- context [Req_bool ?a ?b] => destruct (Req_bool_spec a b)
  | H : context [Rlt_bool ?a ?b] |- _ => destruct (Rlt_bool_spec a b)
  | H : context [Rle_bool ?a ?b] |- _ => destruct (Rle_bool_spec a b)
  | H : context [Req_bool ?a ?b] |- _ => destruct (Req_bool_spec a b)
  end;
  simpl in *; try reflexivity; try discriminate; try lra.

Lemma leb_true_inv : forall a b, PrimFloat.leb a b = true ->
  is_nan_f a = false /\ is_nan_f b = false /\ (ext (Prim2B a) <= ext (Prim2B b))%R.
Proof.
  intros a b. rewrite leb_ext.
  destruct (is_nan_f a), (is_nan_f b); simpl; try discriminate.
  destruct (Rle_bool_spec (ext (Prim2B a)) (ext (Prim2B b))); try discriminate. auto.
Qed.

Lemma ltb_true_inv : forall a b, PrimFloat.ltb a b = true ->
  is_nan_f a = false /\ is_nan_f b = false /\ (ext (Prim2B a) < ext (Prim2B b))%R.
Proof.
  intros a b. rewrite ltb_ext.
  destruct (is_nan_f a), (is_nan_f b); simpl; try discriminate.
  destruct (Rlt_bool_spec (ext (Prim2B a)) (ext (Prim2B b))); try discriminate. auto.
Qed.

Lemma leb_intro : forall a b, is_nan_f a = false -> is_nan_f b = false ->
  (ext (Prim2B a) <= ext (Prim2B b))%R -> PrimFloat.leb a b = true.
Proof. intros a b Na Nb H. rewrite leb_ext, Na, Nb. fcmp. Qed.

Lemma ltb_intro : forall a b, is_nan_f a = false -> is_nan_f b = false ->
  (ext (Prim2B a) < ext (Prim2B b))%R -> PrimFloat.ltb a b = true.
Proof. intros a b Na Nb H. rewrite ltb_ext, Na, Nb. fcmp. Qed.

Lemma ltb_false_intro : forall a b,
  (is_nan_f a = false -> is_nan_f b = false -> (ext (Prim2B b) <= ext (Prim2B a))%R) ->
  PrimFloat.ltb a b = false.
Proof.
  intros a b H. rewrite ltb_ext.
  destruct (is_nan_f a), (is_nan_f b); simpl; try reflexivity.
  specialize (H eq_refl eq_refl). fcmp.
Qed.

Lemma ltb_false_inv : forall a b, PrimFloat.ltb a b = false ->
  is_nan_f a = false -> is_nan_f b = false -> (ext (Prim2B b) <= ext (Prim2B a))%R.
Proof.
  intros a b H Na Nb. rewrite ltb_ext, Na, Nb in H. simpl in H. revert H.
  case Rlt_bool_spec; intros H1 H2; [ discriminate | lra ].
Qed.

(* a <= b  implies  not (b < a) *)
Lemma leb_ltb_false : forall a b, PrimFloat.leb a b = true -> PrimFloat.ltb b a = false.
Proof.
  intros a b H. destruct (leb_true_inv _ _ H) as (Na & Nb & Hab).
  apply ltb_false_intro. intros _ _. exact Hab.
Qed.

(* for non-NaN floats, not (a < b) implies b <= a *)
Lemma ltb_false_leb : forall a b, is_nan_f a = false -> is_nan_f b = false ->
  PrimFloat.ltb a b = false -> PrimFloat.leb b a = true.
Proof.
  intros a b Na Nb H. apply leb_intro; try assumption.
  apply ltb_false_inv; assumption.
Qed.

Lemma leb_trans : forall a b c,
  PrimFloat.leb a b = true -> PrimFloat.leb b c = true -> PrimFloat.leb a c = true.
Proof.
  intros a b c H1 H2.
  destruct (leb_true_inv _ _ H1) as (Na & Nb & Hab).
  destruct (leb_true_inv _ _ H2) as (_ & Nc & Hbc).
  apply leb_intro; try assumption. lra.
Qed.

(* lowering the right-hand side of a failed [<] keeps it failed; [x] may be NaN *)
Lemma ltb_false_mono : forall x t t', is_nan_f t = false ->
  PrimFloat.leb t' t = true -> PrimFloat.ltb x t = false -> PrimFloat.ltb x t' = false.
Proof.
  intros x t t' Nt H1 H2.
  destruct (leb_true_inv _ _ H1) as (Nt' & _ & Ht).
  apply ltb_false_intro. intros Nx _.
  pose proof (ltb_false_inv _ _ H2 Nx Nt). lra.
Qed.

Lemma leb_refl : forall a, is_nan_f a = false -> PrimFloat.leb a a = true.
Proof. intros a Na. apply leb_intro; auto. lra. Qed.

Lemma is_nan_f_zero : is_nan_f 0%float = false.
Proof. vm_compute. reflexivity. Qed.

Lemma ext_zero : ext (Prim2B 0%float) = 0%R.
Proof. rewrite Prim2B_zero. reflexivity. Qed.

(* ------------------------------------------------------------------ *)
(* Arithmetic through the extended-real embedding                      *)
(* ------------------------------------------------------------------ *)

Notation R_ a := (B2R (Prim2B a)).
Notation E_ a := (ext (Prim2B a)).

Definition clamp (r : R) : R :=
  if Rlt_bool (Rabs r) M then r else if Rlt_bool r 0 then (- M)%R else M.

Ltac rabs := unfold Rabs in *; repeat destruct Rcase_abs; try lra.

Lemma clamp_small : forall r, (Rabs r < M)%R -> clamp r = r.
Proof. intros r H. unfold clamp. rewrite Rlt_bool_true by exact H. reflexivity. Qed.

Lemma clamp_mono : forall r s, (r <= s)%R -> (clamp r <= clamp s)%R.
Proof.
  intros r s H. pose proof M_pos. unfold clamp.
  repeat case Rlt_bool_spec; intros; rabs.
Qed.

Lemma clamp_0 : clamp 0 = 0%R.
Proof. apply clamp_small. rewrite Rabs_R0. apply M_pos. Qed.

Lemma clamp_nonpos : forall r, (r <= 0)%R -> (clamp r <= 0)%R.
Proof. intros r H. rewrite <- clamp_0. apply clamp_mono. exact H. Qed.

Lemma clamp_nonneg : forall r, (0 <= r)%R -> (0 <= clamp r)%R.
Proof. intros r H. rewrite <- clamp_0. apply clamp_mono. exact H. Qed.

Lemma rnd64_nonneg : forall r, (0 <= r)%R -> (0 <= rnd64 r)%R.
Proof. intros r H. rewrite <- rnd64_0. apply rnd64_le. exact H. Qed.

Lemma rnd64_nonpos : forall r, (r <= 0)%R -> (rnd64 r <= 0)%R.
Proof. intros r H. rewrite <- rnd64_0. apply rnd64_le. exact H. Qed.

Lemma Bsign_B2R : forall x : bfloat,
  (Bsign x = true -> (B2R x <= 0)%R) /\ (Bsign x = false -> (0 <= B2R x)%R).
Proof.
  intros [s|s| |s m e H]; simpl; try (split; intros; lra).
  destruct s; simpl; split; intro; try discriminate.
  - apply Rlt_le, F2R_lt_0. simpl. lia.
  - apply Rlt_le, F2R_gt_0. simpl. lia.
Qed.

Lemma B2SF_inf_inv : forall (x : bfloat) s, B2SF x = S754_infinity s -> x = B754_infinity s.
Proof. intros [s'|s'| |s' m e H] s; simpl; intro E; try discriminate. congruence. Qed.

Lemma Bmult_ext : forall x y : bfloat, is_finite x = true -> is_finite y = true ->
  let r := rnd64 (B2R x * B2R y) in
  is_nan (Bmult mode_NE x y) = false /\
  ext (Bmult mode_NE x y) = clamp r /\
  ((Rabs r < M)%R -> is_finite (Bmult mode_NE x y) = true).
Proof.
  intros x y Fx Fy r.
  generalize (Bmult_correct prec emax Hprec Hmax mode_NE x y).
  fold r. fold M. unfold clamp. case Rlt_bool_spec; intro Hr.
  - intros (HR & HF & _). rewrite Fx, Fy in HF. simpl in HF.
    split; [ apply finite_not_nan; exact HF | ].
    split; [ rewrite ext_fin by exact HF; exact HR | intros _; exact HF ].
  - intro Hov. cbn [binary_overflow overflow_to_inf] in Hov.
    apply B2SF_inf_inv in Hov. rewrite Hov.
    split; [ reflexivity | split; [ | intro; lra ] ].
    pose proof M_pos as HM.
    destruct (Bsign_B2R x) as (Xn & Xp). destruct (Bsign_B2R y) as (Yn & Yp).
    destruct (Bsign x), (Bsign y); cbn [xorb ext].
    + specialize (Xn eq_refl). specialize (Yn eq_refl).
      assert (0 <= r)%R by (apply rnd64_nonneg; nra).
      rewrite Rlt_bool_false by lra. reflexivity.
    + specialize (Xn eq_refl). specialize (Yp eq_refl).
      assert (r <= 0)%R by (apply rnd64_nonpos; nra).
      rewrite Rlt_bool_true; [ reflexivity | rabs ].
    + specialize (Xp eq_refl). specialize (Yn eq_refl).
      assert (r <= 0)%R by (apply rnd64_nonpos; nra).
      rewrite Rlt_bool_true; [ reflexivity | rabs ].
    + specialize (Xp eq_refl). specialize (Yp eq_refl).
      assert (0 <= r)%R by (apply rnd64_nonneg; nra).
      rewrite Rlt_bool_false by lra. reflexivity.
Qed.

Lemma Bminus_ext : forall x y : bfloat, is_finite x = true -> is_finite y = true ->
  let r := rnd64 (B2R x - B2R y) in
  is_nan (Bminus mode_NE x y) = false /\
  ext (Bminus mode_NE x y) = clamp r /\
  ((Rabs r < M)%R -> is_finite (Bminus mode_NE x y) = true).
Proof.
  intros x y Fx Fy r.
  generalize (Bminus_correct prec emax Hprec Hmax mode_NE x y Fx Fy).
  fold r. fold M. unfold clamp. case Rlt_bool_spec; intro Hr.
  - intros (HR & HF & _).
    split; [ apply finite_not_nan; exact HF | ].
    split; [ rewrite ext_fin by exact HF; exact HR | intros _; exact HF ].
  - intros (Hov & Hs). cbn [binary_overflow overflow_to_inf] in Hov.
    apply B2SF_inf_inv in Hov. rewrite Hov.
    split; [ reflexivity | split; [ | intro; lra ] ].
    pose proof M_pos as HM.
    destruct (Bsign_B2R x) as (Xn & Xp). destruct (Bsign_B2R y) as (Yn & Yp).
    destruct (Bsign x), (Bsign y); try discriminate; cbn [ext].
    + specialize (Xn eq_refl). specialize (Yp eq_refl).
      assert (r <= 0)%R by (apply rnd64_nonpos; lra).
      rewrite Rlt_bool_true; [ reflexivity | rabs ].
    + specialize (Xp eq_refl). specialize (Yn eq_refl).
      assert (0 <= r)%R by (apply rnd64_nonneg; lra).
      rewrite Rlt_bool_false by lra. reflexivity.
Qed.

Lemma mul_ext : forall a b : pfloat, is_finite_f a = true -> is_finite_f b = true ->
  let r := rnd64 (R_ a * R_ b) in
  is_nan_f (a * b)%float = false /\ E_ (a * b)%float = clamp r /\
  ((Rabs r < M)%R -> is_finite_f (a * b)%float = true).
Proof.
  intros a b Fa Fb. rewrite is_finite_f_equiv in Fa, Fb.
  rewrite is_nan_f_equiv, is_finite_f_equiv, mul_equiv.
  apply Bmult_ext; assumption.
Qed.

Lemma sub_ext : forall a b : pfloat, is_finite_f a = true -> is_finite_f b = true ->
  let r := rnd64 (R_ a - R_ b) in
  is_nan_f (a - b)%float = false /\ E_ (a - b)%float = clamp r /\
  ((Rabs r < M)%R -> is_finite_f (a - b)%float = true).
Proof.
  intros a b Fa Fb. rewrite is_finite_f_equiv in Fa, Fb.
  rewrite is_nan_f_equiv, is_finite_f_equiv, sub_equiv.
  apply Bminus_ext; assumption.
Qed.

Lemma E_fin : forall a, is_finite_f a = true -> E_ a = R_ a.
Proof. intros a F. apply ext_fin. rewrite <- is_finite_f_equiv. exact F. Qed.

(* Python's max(p, 0.0) *)
Lemma py_max0_spec : forall p, is_nan_f p = false ->
  is_nan_f (py_max_f p 0) = false /\ E_ (py_max_f p 0) = Rmax (E_ p) 0.
Proof.
  intros p Np. unfold py_max_f. destruct (PrimFloat.ltb p 0) eqn:E.
  - destruct (ltb_true_inv _ _ E) as (_ & _ & H). rewrite ext_zero in H.
    split; [ exact is_nan_f_zero | ]. rewrite ext_zero, Rmax_right by lra. reflexivity.
  - pose proof (ltb_false_inv _ _ E Np is_nan_f_zero) as H. rewrite ext_zero in H.
    split; [ exact Np | ]. rewrite Rmax_left by lra. reflexivity.
Qed.

Lemma py_max0_nan : forall p, is_nan_f p = true -> is_nan_f (py_max_f p 0) = true.
Proof.
  intros p Np. unfold py_max_f. rewrite ltb_ext, Np. exact Np.
Qed.

(* ------------------------------------------------------------------ *)
(* Constants, conversions                                              *)
(* ------------------------------------------------------------------ *)

Lemma const_spec : forall (c : pfloat) s m e, Prim2SF c = S754_finite s m e ->
  is_finite_f c = true /\ R_ c = F2R (Float radix2 (cond_Zopp s (Zpos m)) e).
Proof.
  intros c s m e E. split.
  - unfold is_finite_f. rewrite E. reflexivity.
  - unfold Prim2B. rewrite B2R_SF2B, E. reflexivity.
Qed.

Lemma bpow_lt_M : forall k, (k < 1024)%Z -> (bpow radix2 k < M)%R.
Proof. intros k Hk. unfold M. apply bpow_lt. exact Hk. Qed.

Lemma rnd64_bpow : forall k, (-1074 <= k)%Z -> rnd64 (bpow radix2 k) = bpow radix2 k.
Proof.
  intros k Hk. apply round_generic; [ typeclasses eauto | ].
  change fexp64 with (FLT_exp (-1074) 53).
  apply generic_format_FLT_bpow; [ exact Hprec | exact Hk ].
Qed.

Lemma rnd64_opp : forall r, rnd64 (- r) = (- rnd64 r)%R.
Proof. intros r. apply round_NE_opp. Qed.

Lemma rnd64_abs_le_bpow : forall r k, (-1074 <= k)%Z ->
  (Rabs r <= bpow radix2 k)%R -> (Rabs (rnd64 r) <= bpow radix2 k)%R.
Proof.
  intros r k Hk H. apply Rabs_le. apply Rabs_le_inv in H.
  split.
  - rewrite <- (rnd64_bpow k Hk), <- rnd64_opp. apply rnd64_le. lra.
  - rewrite <- (rnd64_bpow k Hk). apply rnd64_le. lra.
Qed.

Lemma rnd64_B2R : forall x : bfloat, rnd64 (B2R x) = B2R x.
Proof.
  intros x. apply round_generic; [ typeclasses eauto | apply generic_format_B2R ].
Qed.

Lemma two_spec : is_finite_f 2%float = true /\ R_ 2%float = 2%R.
Proof.
  destruct (const_spec 2%float false 4503599627370496 (-51)) as (F & R);
    [ vm_compute; reflexivity | ].
  split; [ exact F | ]. rewrite R. unfold F2R. simpl. lra.
Qed.

Lemma tol_decay_spec :
  is_finite_f tol_decay = true /\ (0 < R_ tol_decay < 1)%R.
Proof.
  destruct (const_spec tol_decay false 4611686018427388 (-62)) as (F & R);
    [ vm_compute; reflexivity | ].
  split; [ exact F | ]. rewrite R. unfold F2R. simpl. lra.
Qed.

Lemma opp_spec_f : forall a, is_finite_f a = true ->
  is_finite_f (- a)%float = true /\ R_ (- a)%float = (- R_ a)%R.
Proof.
  intros a F. rewrite is_finite_f_equiv in *. rewrite opp_equiv.
  rewrite is_finite_Bopp, B2R_Bopp. split; [ exact F | reflexivity ].
Qed.

Lemma of_uint63_fin : forall i,
  is_finite_f (of_uint63 i) = true /\ (0 <= R_ (of_uint63 i) <= bpow radix2 63)%R.
Proof.
  intros i. rewrite is_finite_f_equiv, of_int63_equiv.
  generalize (binary_normalize_correct prec emax Hprec Hmax mode_NE (Uint63.to_Z i) 0 false).
  cbv zeta. rewrite F2R_int.
  pose proof (Uint63.to_Z_bounded i) as Hb. change wB with (2 ^ 63) in Hb.
  assert (H0 : (0 <= IZR (Uint63.to_Z i))%R) by (apply IZR_le; lia).
  assert (H1 : (IZR (Uint63.to_Z i) <= bpow radix2 63)%R).
  { change (bpow radix2 63) with (IZR (2 ^ 63)). apply IZR_le. lia. }
  assert (R0 : (0 <= rnd64 (IZR (Uint63.to_Z i)))%R) by (apply rnd64_nonneg; exact H0).
  assert (R1 : (rnd64 (IZR (Uint63.to_Z i)) <= bpow radix2 63)%R).
  { rewrite <- (rnd64_bpow 63) by lia. apply rnd64_le. exact H1. }
  rewrite Rlt_bool_true.
  - intros (HR & HF & _). rewrite HR. split; [ exact HF | split; assumption ].
  - rewrite Rabs_pos_eq by exact R0.
    apply Rle_lt_trans with (1 := R1). apply bpow_lt. reflexivity.
Qed.

Lemma Z2f_fin : forall z, 0 <= z ->
  is_finite_f (Z2f z) = true /\ (0 <= R_ (Z2f z) <= bpow radix2 64)%R.
Proof.
  intros z Hz. unfold Z2f.
  destruct (z <? 0) eqn:E0; [ apply Z.ltb_lt in E0; lia | ].
  destruct (z <? 9223372036854775808).
  - destruct (of_uint63_fin (Uint63.of_Z z)) as (F & R0 & R1).
    split; [ exact F | split; [ exact R0 | ] ].
    apply Rle_trans with (1 := R1). apply bpow_le. lia.
  - set (i := Uint63.of_Z _).
    destruct (of_uint63_fin i) as (F & R0 & R1).
    destruct two_spec as (F2 & R2).
    destruct (mul_ext (of_uint63 i) 2%float F F2) as (_ & HE & HF).
    rewrite R2 in HE, HF.
    assert (B0 : (0 <= rnd64 (R_ (of_uint63 i) * 2))%R) by (apply rnd64_nonneg; lra).
    assert (B1 : (rnd64 (R_ (of_uint63 i) * 2) <= bpow radix2 64)%R).
    { rewrite <- (rnd64_bpow 64) by lia. apply rnd64_le.
      change (bpow radix2 64) with (bpow radix2 (63 + 1)). rewrite bpow_plus.
      change (bpow radix2 1) with 2%R. lra. }
    assert (BM : (Rabs (rnd64 (R_ (of_uint63 i) * 2)) < M)%R).
    { rewrite Rabs_pos_eq by exact B0. apply Rle_lt_trans with (1 := B1).
      apply bpow_lt_M. lia. }
    specialize (HF BM). split; [ exact HF | ].
    rewrite <- E_fin by exact HF. rewrite HE, clamp_small by exact BM. split; assumption.
Qed.

Lemma Zs2f_fin : forall z,
  is_finite_f (Zs2f z) = true /\ (Rabs (R_ (Zs2f z)) <= bpow radix2 64)%R.
Proof.
  intros z. unfold Zs2f. destruct (z <? 0) eqn:E.
  - apply Z.ltb_lt in E. destruct (Z2f_fin (- z)) as (F & R0 & R1); [ lia | ].
    destruct (opp_spec_f _ F) as (F' & R'). split; [ exact F' | ].
    rewrite R', Rabs_Ropp, Rabs_pos_eq by exact R0. exact R1.
  - apply Z.ltb_ge in E. destruct (Z2f_fin z E) as (F & R0 & R1).
    split; [ exact F | ]. rewrite Rabs_pos_eq by exact R0. exact R1.
Qed.

(* the argument of exp in [slack]:  - decay * n *)
Definition earg (n : Z) : pfloat := (- tol_decay * Zs2f n)%float.

Lemma earg_fin : forall n,
  is_finite_f (earg n) = true /\ R_ (earg n) = rnd64 (- R_ tol_decay * R_ (Zs2f n)).
Proof.
  intros n. unfold earg.
  destruct tol_decay_spec as (Fd & Rd0 & Rd1).
  destruct (opp_spec_f _ Fd) as (Fd' & Rd').
  destruct (Zs2f_fin n) as (Fn & Rn).
  destruct (mul_ext _ _ Fd' Fn) as (_ & HE & HF). rewrite Rd' in HE, HF.
  assert (BM : (Rabs (rnd64 (- R_ tol_decay * R_ (Zs2f n))) < M)%R).
  { apply Rle_lt_trans with (bpow radix2 64); [ | apply bpow_lt_M; lia ].
    apply rnd64_abs_le_bpow; [ lia | ].
    rewrite Rabs_mult, Rabs_Ropp, (Rabs_pos_eq (R_ tol_decay)) by lra.
    pose proof (Rabs_pos (R_ (Zs2f n))). nra. }
  specialize (HF BM). split; [ exact HF | ].
  rewrite <- E_fin by exact HF. rewrite HE. apply clamp_small. exact BM.
Qed.

Lemma earg_anti : forall n m, 0 <= m <= n -> n < 2 ^ 53 ->
  PrimFloat.leb (earg n) (earg m) = true.
Proof.
  intros n m Hm Hn.
  destruct (earg_fin n) as (Fn & Rn). destruct (earg_fin m) as (Fm & Rm).
  apply leb_intro; try (apply is_finite_f_not_nan; assumption).
  rewrite !E_fin by assumption. rewrite Rn, Rm. apply rnd64_le.
  unfold Zs2f.
  destruct (n <? 0) eqn:E1; [ apply Z.ltb_lt in E1; lia | ].
  destruct (m <? 0) eqn:E2; [ apply Z.ltb_lt in E2; lia | ].
  destruct (Z2f_spec n) as (_ & Zn & _); [ lia | ].
  destruct (Z2f_spec m) as (_ & Zm & _); [ lia | ].
  rewrite Zn, Zm.
  destruct tol_decay_spec as (_ & Rd0 & _).
  assert (IZR m <= IZR n)%R by (apply IZR_le; lia). nra.
Qed.

Lemma Bmult_pos_inf : forall (T : bfloat) s, is_finite T = true -> (0 < B2R T)%R ->
  Bmult mode_NE T (B754_infinity s) = B754_infinity s.
Proof.
  intros [sT|sT| |[|] m e H] s F HT; simpl in *; try discriminate; try lra.
  - exfalso. assert (F2R (Float radix2 (Z.neg m) e) < 0)%R by (apply F2R_lt_0; simpl; lia). lra.
  - destruct s; reflexivity.
Qed.

Lemma inf_cases : forall x : bfloat, is_nan x = false -> is_finite x = false ->
  exists s, x = B754_infinity s.
Proof. intros [s|s| |s m e H]; simpl; try discriminate. intros _ _. exists s. reflexivity. Qed.

Lemma leb0_R : forall t, is_finite_f t = true -> PrimFloat.leb 0 t = true -> (0 <= R_ t)%R.
Proof.
  intros t F H. destruct (leb_true_inv _ _ H) as (_ & _ & H').
  rewrite ext_zero, E_fin in H' by exact F. exact H'.
Qed.

Lemma ltb0_R : forall t, is_finite_f t = true -> PrimFloat.ltb 0 t = true -> (0 < R_ t)%R.
Proof.
  intros t F H. destruct (ltb_true_inv _ _ H) as (_ & _ & H').
  rewrite ext_zero, E_fin in H' by exact F. exact H'.
Qed.

Lemma leb_R : forall a b, is_finite_f a = true -> is_finite_f b = true ->
  PrimFloat.leb a b = true -> (R_ a <= R_ b)%R.
Proof.
  intros a b Fa Fb H. destruct (leb_true_inv _ _ H) as (_ & _ & H').
  rewrite !E_fin in H' by assumption. exact H'.
Qed.

(* t >= 0 finite, x <= 0: the product is <= 0 (or -0), never NaN, provided
   the 0 * inf case is excluded *)
Lemma mul_nonpos : forall t x, is_finite_f t = true -> PrimFloat.leb 0 t = true ->
  is_nan_f x = false -> (E_ x <= 0)%R ->
  (PrimFloat.ltb 0 t = true \/ is_finite_f x = true) ->
  is_nan_f (t * x)%float = false /\ (E_ (t * x)%float <= 0)%R.
Proof.
  intros t x Ft Ht Nx Hx Hor.
  pose proof (leb0_R t Ft Ht) as Rt.
  destruct (is_finite_f x) eqn:Fx.
  - destruct (mul_ext t x Ft Fx) as (N & HE & _). split; [ exact N | ].
    rewrite HE. apply clamp_nonpos, rnd64_nonpos.
    rewrite E_fin in Hx by exact Fx. nra.
  - destruct Hor as [Hpos | ?]; [ | discriminate ].
    pose proof (ltb0_R t Ft Hpos) as Rt'.
    rewrite is_finite_f_equiv in Ft, Fx. rewrite is_nan_f_equiv in Nx.
    destruct (inf_cases _ Nx Fx) as (s & Es).
    rewrite is_nan_f_equiv, mul_equiv. rewrite Es in *.
    rewrite Bmult_pos_inf by assumption.
    split; [ reflexivity | exact Hx ].
Qed.

Lemma py_max0_zero : forall p, is_nan_f p = false -> (E_ p <= 0)%R ->
  PrimFloat.eqb (py_max_f p 0) 0 = true.
Proof.
  intros p Np Hp. destruct (py_max0_spec p Np) as (N & HE).
  rewrite eqb_ext, N, is_nan_f_zero, HE, ext_zero, Rmax_right by exact Hp.
  simpl. apply Req_bool_true. reflexivity.
Qed.


(* ------------------------------------------------------------------ *)
(* The acceptance test                                                  *)
(* ------------------------------------------------------------------ *)

Inductive family := FDiam | FRad.
Definition stat (f : family) (ls : list Z) (n : Z) : pfloat :=
  match f with FDiam => isim_f ls n | FRad => radius_compl_f ls n end.
Definition base_accept (f : family) (thr : pfloat) (new_ls : list Z) (new_n : Z) : bool :=
  fge (stat f new_ls new_n) thr.
Definition crit_family (c : crit) : family :=
  match c with CRadius | CTolRadius _ _ _ => FRad | _ => FDiam end.

Section Laws.
Variable fexp : pfloat -> pfloat.
Hypothesis fexp_finite : forall x, is_finite_f x = true -> is_finite_f (fexp x) = true.
Hypothesis fexp_mono : forall x y,
  PrimFloat.leb x y = true -> PrimFloat.leb (fexp x) (fexp y) = true.

(* 1 *)
Lemma accept_never tol d o thr a b c' e f g :
  accept fexp (CNever tol d o) thr a b c' e f g = false.
Proof. reflexivity. Qed.

(* 2 *)
Lemma accept_radius_def thr nl nn ol ml on mn :
  accept fexp CRadius thr nl nn ol ml on mn = base_accept FRad thr nl nn.
Proof. reflexivity. Qed.

Lemma accept_diameter_def thr nl nn ol ml on mn :
  accept fexp CDiameter thr nl nn ol ml on mn = base_accept FDiam thr nl nn.
Proof. reflexivity. Qed.

(* every accepting criterion has passed the threshold test [not (stat < thr)] *)
Lemma accept_first_test c thr nl nn ol ml on mn :
  accept fexp c thr nl nn ol ml on mn = true ->
  flt (stat (crit_family c) nl nn) thr = false.
Proof.
  unfold flt.
  destruct c as [ | |tol d o|tol d o|tol|tol d o]; cbn [accept crit_family stat]; intro H.
  - apply leb_ltb_false. exact H.
  - apply leb_ltb_false. exact H.
  - unfold flt in H. destruct (PrimFloat.ltb (isim_f nl nn) thr); [ discriminate | reflexivity ].
  - unfold flt in H.
    destruct (PrimFloat.ltb (radius_compl_f nl nn) thr); [ discriminate | reflexivity ].
  - unfold flt in H. destruct (PrimFloat.ltb (isim_f nl nn) thr); [ discriminate | reflexivity ].
  - discriminate.
Qed.

(* 3 *)
Lemma accept_not_below c thr nl nn ol ml on mn :
  accept fexp c thr nl nn ol ml on mn = true ->
  let f := match c with CRadius | CTolRadius _ _ _ => FRad | _ => FDiam end in
  flt (stat f nl nn) thr = false.
Proof. intros H f. exact (accept_first_test c thr nl nn ol ml on mn H). Qed.

Lemma accept_stat_ge c thr nl nn ol ml on mn :
  accept fexp c thr nl nn ol ml on mn = true ->
  let f := match c with CRadius | CTolRadius _ _ _ => FRad | _ => FDiam end in
  is_nan_f (stat f nl nn) = false -> is_nan_f thr = false ->
  fge (stat f nl nn) thr = true.
Proof.
  intros H f Ns Nt. unfold fge. apply ltb_false_leb; try assumption.
  exact (accept_first_test c thr nl nn ol ml on mn H).
Qed.

(* 4 *)
Lemma accept_thr_mono c t t' nl nn ol ml on mn :
  is_nan_f t = false -> is_nan_f t' = false -> PrimFloat.leb t' t = true ->
  accept fexp c t nl nn ol ml on mn = true ->
  accept fexp c t' nl nn ol ml on mn = true.
Proof.
  intros Nt Nt' Hle.
  destruct c as [ | |tol d o|tol d o|tol|tol d o]; cbn [accept]; unfold fge, flt.
  - intro H. exact (leb_trans _ _ _ Hle H).
  - intro H. exact (leb_trans _ _ _ Hle H).
  - destruct (PrimFloat.ltb (isim_f nl nn) t) eqn:E; [ discriminate | ].
    rewrite (ltb_false_mono _ _ _ Nt Hle E). auto.
  - destruct (PrimFloat.ltb (radius_compl_f nl nn) t) eqn:E; [ discriminate | ].
    rewrite (ltb_false_mono _ _ _ Nt Hle E). auto.
  - destruct (PrimFloat.ltb (isim_f nl nn) t) eqn:E; [ discriminate | ].
    rewrite (ltb_false_mono _ _ _ Nt Hle E). auto.
  - auto.
Qed.

(* 5 *)
Lemma accept_tol_singleton_diam tol d o thr nl nn ol ml mn :
  accept fexp (CTolDiameter tol d o) thr nl nn ol ml 1 mn = negb (flt (isim_f nl nn) thr).
Proof. cbn [accept]. destruct (flt (isim_f nl nn) thr); reflexivity. Qed.

Lemma accept_tol_singleton_rad tol d o thr nl nn ol ml mn :
  accept fexp (CTolRadius tol d o) thr nl nn ol ml 1 mn =
  negb (flt (radius_compl_f nl nn) thr).
Proof. cbn [accept]. destruct (flt (radius_compl_f nl nn) thr); reflexivity. Qed.

Lemma accept_tol_general_diam tol d o thr nl nn ol ml on mn :
  on <> 1 ->
  accept fexp (CTolDiameter tol d o) thr nl nn ol ml on mn =
  negb (flt (isim_f nl nn) thr) &&
  fge (isim_f nl nn) (isim_f ol on - slack fexp tol d o on)%float.
Proof.
  intro Hon. cbn [accept].
  destruct (on =? 1) eqn:E; [ apply Z.eqb_eq in E; contradiction | ].
  destruct (flt (isim_f nl nn) thr); reflexivity.
Qed.

Lemma accept_tol_general_rad tol d o thr nl nn ol ml on mn :
  on <> 1 ->
  accept fexp (CTolRadius tol d o) thr nl nn ol ml on mn =
  negb (flt (radius_compl_f nl nn) thr) &&
  fge (radius_compl_f nl nn) (radius_compl_f ol on - slack fexp tol d o on)%float.
Proof.
  intro Hon. cbn [accept].
  destruct (on =? 1) eqn:E; [ apply Z.eqb_eq in E; contradiction | ].
  destruct (flt (radius_compl_f nl nn) thr); reflexivity.
Qed.

(* 6 *)
Lemma accept_legacy tol thr nl nn ol ml on mn :
  accept fexp (CTolLegacy tol) thr nl nn ol ml on mn =
  negb (flt (isim_f nl nn) thr) &&
  ((on =? 1) || negb (mn =? 1) ||
   fge ((isim_f nl nn * Zs2f nn - isim_f ol on * Zs2f (on - 1)) / 2)%float
       (isim_f ol on - tol)%float).
Proof.
  cbn [accept].
  destruct (flt (isim_f nl nn) thr); [ reflexivity | ].
  destruct ((on =? 1) || negb (mn =? 1)); reflexivity.
Qed.

(* 8 *)
Lemma accept_deterministic c thr a b c' d e f :
  forall r1 r2, r1 = accept fexp c thr a b c' d e f ->
                r2 = accept fexp c thr a b c' d e f -> r1 = r2.
Proof. intros r1 r2 H1 H2. congruence. Qed.

(* ------------------------------------------------------------------ *)
(* 7. Slack laws                                                        *)
(* ------------------------------------------------------------------ *)

(* 7a, for arbitrary decay/offset *)
Lemma slack_not_neg_gen tol d o n :
  PrimFloat.ltb (slack fexp tol d o n) 0 = false.
Proof.
  unfold slack, py_max_f.
  destruct (PrimFloat.ltb (tol * (fexp (- d * Zs2f n) - o)) 0) eqn:E;
    [ apply ltb_zero_zero | exact E ].
Qed.

Lemma slack_nonneg_gen tol d o n :
  is_nan_f (slack fexp tol d o n) = false ->
  PrimFloat.leb 0 (slack fexp tol d o n) = true.
Proof.
  intro N. apply ltb_false_leb; [ exact N | exact is_nan_f_zero | apply slack_not_neg_gen ].
Qed.

Lemma slack_not_neg tol n :
  PrimFloat.ltb (slack fexp tol tol_decay (tol_offset fexp) n) 0 = false.
Proof. apply slack_not_neg_gen. Qed.

Lemma slack_nonneg tol n :
  is_nan_f (slack fexp tol tol_decay (tol_offset fexp) n) = false ->
  PrimFloat.leb 0 (slack fexp tol tol_decay (tol_offset fexp) n) = true.
Proof. apply slack_nonneg_gen. Qed.

(* the factor  exp(-decay*n) - offset  of the slack *)
Definition sdiff (n : Z) : pfloat :=
  (fexp (- tol_decay * Zs2f n) - tol_offset fexp)%float.

Lemma slack_unfold tol n :
  slack fexp tol tol_decay (tol_offset fexp) n = py_max_f (tol * sdiff n) 0.
Proof. reflexivity. Qed.

Lemma tol_offset_earg : tol_offset fexp = fexp (earg 1000).
Proof. reflexivity. Qed.

Lemma sdiff_spec n :
  let r := rnd64 (R_ (fexp (earg n)) - R_ (fexp (earg 1000))) in
  is_finite_f (fexp (earg n)) = true /\ is_finite_f (fexp (earg 1000)) = true /\
  is_nan_f (sdiff n) = false /\ E_ (sdiff n) = clamp r /\
  ((Rabs r < M)%R -> is_finite_f (sdiff n) = true).
Proof.
  intro r. unfold sdiff. rewrite tol_offset_earg. fold (earg n).
  assert (Fe : is_finite_f (fexp (earg n)) = true)
    by (apply fexp_finite, earg_fin).
  assert (Fo : is_finite_f (fexp (earg 1000)) = true)
    by (apply fexp_finite, earg_fin).
  split; [ exact Fe | split; [ exact Fo | ] ].
  apply sub_ext; assumption.
Qed.

Lemma sdiff_not_nan n : is_nan_f (sdiff n) = false.
Proof. apply (sdiff_spec n). Qed.

Lemma sdiff_nonpos n : 1000 <= n < 2 ^ 53 -> (E_ (sdiff n) <= 0)%R.
Proof.
  intro Hn. destruct (sdiff_spec n) as (Fe & Fo & _ & HE & _).
  rewrite HE. apply clamp_nonpos, rnd64_nonpos.
  assert (H : PrimFloat.leb (fexp (earg n)) (fexp (earg 1000)) = true).
  { apply fexp_mono, earg_anti; lia. }
  pose proof (leb_R _ _ Fe Fo H). lra.
Qed.

(* if exp is non-negative the difference cannot overflow *)
Lemma sdiff_finite n :
  (forall x, is_finite_f x = true -> PrimFloat.leb 0 (fexp x) = true) ->
  is_finite_f (sdiff n) = true.
Proof.
  intro Hpos. destruct (sdiff_spec n) as (Fe & Fo & _ & _ & HF). apply HF.
  pose proof (leb0_R _ Fe (Hpos _ (proj1 (earg_fin n)))) as He.
  pose proof (leb0_R _ Fo (Hpos _ (proj1 (earg_fin 1000)))) as Ho.
  pose proof (B2R_bound (Prim2B (fexp (earg n)))) as Be.
  pose proof (B2R_bound (Prim2B (fexp (earg 1000)))) as Bo.
  set (e := R_ (fexp (earg n))) in *. set (o := R_ (fexp (earg 1000))) in *.
  assert (L : (- o <= rnd64 (e - o))%R).
  { unfold o at 1. rewrite <- rnd64_B2R, <- rnd64_opp. apply rnd64_le. fold o. lra. }
  assert (U : (rnd64 (e - o) <= e)%R).
  { unfold e at 2. rewrite <- rnd64_B2R. apply rnd64_le. fold e. lra. }
  apply Rabs_def1; lra.
Qed.

(* 7b *)
Lemma slack_zero_large_alt tol n :
  1000 <= n < 2 ^ 53 -> is_finite_f tol = true -> PrimFloat.leb 0 tol = true ->
  (PrimFloat.ltb 0 tol = true \/
   is_finite_f (fexp (- tol_decay * Zs2f n) - tol_offset fexp) = true) ->
  PrimFloat.eqb (slack fexp tol tol_decay (tol_offset fexp) n) 0 = true.
Proof.
  intros Hn Ft Ht Hor. rewrite slack_unfold. fold (sdiff n) in Hor.
  destruct (mul_nonpos tol (sdiff n) Ft Ht (sdiff_not_nan n) (sdiff_nonpos n Hn) Hor)
    as (N & HE).
  apply py_max0_zero; assumption.
Qed.

(* the version asked for as a fallback: the difference is assumed finite *)
Lemma slack_zero_large_partial tol n :
  1000 <= n < 2 ^ 53 -> is_finite_f tol = true -> PrimFloat.leb 0 tol = true ->
  is_finite_f (fexp (- tol_decay * Zs2f n) - tol_offset fexp) = true ->
  PrimFloat.eqb (slack fexp tol tol_decay (tol_offset fexp) n) 0 = true.
Proof. intros Hn Ft Ht HF. apply slack_zero_large_alt; auto. Qed.

Lemma slack_zero_large_pos tol n :
  1000 <= n < 2 ^ 53 -> is_finite_f tol = true -> PrimFloat.ltb 0 tol = true ->
  PrimFloat.eqb (slack fexp tol tol_decay (tol_offset fexp) n) 0 = true.
Proof.
  intros Hn Ft Ht. apply slack_zero_large_alt; auto.
  destruct (ltb_true_inv _ _ Ht) as (N0 & Nt & H).
  apply leb_intro; auto. lra.
Qed.

Lemma slack_zero_large_nonneg_exp tol n :
  (forall x, is_finite_f x = true -> PrimFloat.leb 0 (fexp x) = true) ->
  1000 <= n < 2 ^ 53 -> is_finite_f tol = true -> PrimFloat.leb 0 tol = true ->
  PrimFloat.eqb (slack fexp tol tol_decay (tol_offset fexp) n) 0 = true.
Proof.
  intros Hpos Hn Ft Ht. apply slack_zero_large_alt; auto.
  right. exact (sdiff_finite n Hpos).
Qed.

(* 7c *)
Lemma slack_mono_tol_alt tol tol' n :
  is_finite_f tol = true -> is_finite_f tol' = true ->
  PrimFloat.leb 0 tol = true -> PrimFloat.leb tol tol' = true ->
  (PrimFloat.ltb 0 tol = true \/
   is_finite_f (fexp (- tol_decay * Zs2f n) - tol_offset fexp) = true) ->
  PrimFloat.leb (slack fexp tol tol_decay (tol_offset fexp) n)
                (slack fexp tol' tol_decay (tol_offset fexp) n) = true.
Proof.
  intros Ft Ft' H0 Hle Hor. rewrite !slack_unfold. fold (sdiff n) in Hor.
  pose proof (sdiff_not_nan n) as Nx.
  pose proof (leb0_R _ Ft H0) as Rt.
  pose proof (leb_R _ _ Ft Ft' Hle) as Rtt.
  destruct (is_finite_f (sdiff n)) eqn:Fx.
  - destruct (mul_ext tol (sdiff n) Ft Fx) as (N & HE & _).
    destruct (mul_ext tol' (sdiff n) Ft' Fx) as (N' & HE' & _).
    destruct (py_max0_spec _ N) as (NN & HM).
    destruct (py_max0_spec _ N') as (NN' & HM').
    apply leb_intro; try assumption.
    rewrite HM, HM', HE, HE'.
    set (X := R_ (sdiff n)) in *.
    destruct (Rle_dec 0 X) as [HX | HX].
    + assert (C : (clamp (rnd64 (R_ tol * X)) <= clamp (rnd64 (R_ tol' * X)))%R)
        by (apply clamp_mono, rnd64_le; nra).
      unfold Rmax. repeat destruct Rle_dec; lra.
    + assert (C : (clamp (rnd64 (R_ tol * X)) <= 0)%R)
        by (apply clamp_nonpos, rnd64_nonpos; nra).
      assert (C' : (clamp (rnd64 (R_ tol' * X)) <= 0)%R)
        by (apply clamp_nonpos, rnd64_nonpos; nra).
      rewrite !Rmax_right by assumption. lra.
  - destruct Hor as [Hpos | ?]; [ | discriminate ].
    pose proof (ltb0_R _ Ft Hpos) as Rt'.
    assert (E : (tol * sdiff n)%float = (tol' * sdiff n)%float).
    { apply Prim2B_inj. rewrite !mul_equiv.
      rewrite is_finite_f_equiv in Ft, Ft', Fx. rewrite is_nan_f_equiv in Nx.
      destruct (inf_cases _ Nx Fx) as (s & Es). rewrite Es.
      rewrite !Bmult_pos_inf; auto. lra. }
    rewrite <- E. apply leb_refl.
    apply py_max0_spec.
    rewrite is_nan_f_equiv, mul_equiv.
    rewrite is_finite_f_equiv in Ft, Fx. rewrite is_nan_f_equiv in Nx.
    destruct (inf_cases _ Nx Fx) as (s & Es). rewrite Es.
    rewrite Bmult_pos_inf; auto.
Qed.

Lemma slack_mono_tol_pos tol tol' n :
  is_finite_f tol = true -> is_finite_f tol' = true ->
  PrimFloat.ltb 0 tol = true -> PrimFloat.leb tol tol' = true ->
  PrimFloat.leb (slack fexp tol tol_decay (tol_offset fexp) n)
                (slack fexp tol' tol_decay (tol_offset fexp) n) = true.
Proof.
  intros Ft Ft' Ht Hle. apply slack_mono_tol_alt; auto.
  destruct (ltb_true_inv _ _ Ht) as (N0 & Nt & H).
  apply leb_intro; auto. lra.
Qed.

Lemma slack_mono_tol_nonneg_exp tol tol' n :
  (forall x, is_finite_f x = true -> PrimFloat.leb 0 (fexp x) = true) ->
  is_finite_f tol = true -> is_finite_f tol' = true ->
  PrimFloat.leb 0 tol = true -> PrimFloat.leb tol tol' = true ->
  PrimFloat.leb (slack fexp tol tol_decay (tol_offset fexp) n)
                (slack fexp tol' tol_decay (tol_offset fexp) n) = true.
Proof.
  intros Hpos Ft Ft' H0 Hle. apply slack_mono_tol_alt; auto.
  right. exact (sdiff_finite n Hpos).
Qed.


End Laws.

(* ------------------------------------------------------------------ *)
(* Second section: exp only constrained on finite non-positive floats  *)
(* ------------------------------------------------------------------ *)

Lemma earg_nonpos : forall n, 0 <= n ->
  is_finite_f (earg n) = true /\ PrimFloat.leb (earg n) 0 = true.
Proof.
  intros n Hn. destruct (earg_fin n) as (F & R). split; [ exact F | ].
  apply leb_intro; [ apply is_finite_f_not_nan; exact F | exact is_nan_f_zero | ].
  rewrite ext_zero, E_fin, R by exact F. apply rnd64_nonpos.
  destruct tol_decay_spec as (_ & D0 & _).
  assert (0 <= R_ (Zs2f n))%R.
  { unfold Zs2f. destruct (n <? 0) eqn:E; [ apply Z.ltb_lt in E; lia | ].
    apply (Z2f_fin n Hn). }
  nra.
Qed.

Lemma one_spec_f : is_finite_f 1%float = true /\ R_ 1%float = 1%R.
Proof.
  destruct one_spec as (F & R & _). rewrite is_finite_f_equiv. split; assumption.
Qed.

(* max(t*x, 0) is non-decreasing in t >= 0 for a finite x *)
Lemma py_max0_mul_mono : forall t t' x,
  is_finite_f t = true -> is_finite_f t' = true -> is_finite_f x = true ->
  PrimFloat.leb 0 t = true -> PrimFloat.leb t t' = true ->
  PrimFloat.leb (py_max_f (t * x) 0) (py_max_f (t' * x) 0) = true.
Proof.
  intros t t' x Ft Ft' Fx H0 Hle.
  pose proof (leb0_R _ Ft H0) as Rt.
  pose proof (leb_R _ _ Ft Ft' Hle) as Rtt.
  destruct (mul_ext t x Ft Fx) as (N & HE & _).
  destruct (mul_ext t' x Ft' Fx) as (N' & HE' & _).
  destruct (py_max0_spec _ N) as (NN & HM).
  destruct (py_max0_spec _ N') as (NN' & HM').
  apply leb_intro; try assumption.
  rewrite HM, HM', HE, HE'.
  set (X := R_ x) in *.
  destruct (Rle_dec 0 X) as [HX | HX].
  - assert (C : (clamp (rnd64 (R_ t * X)) <= clamp (rnd64 (R_ t' * X)))%R)
      by (apply clamp_mono, rnd64_le; nra).
    unfold Rmax. repeat destruct Rle_dec; lra.
  - assert (C : (clamp (rnd64 (R_ t * X)) <= 0)%R)
      by (apply clamp_nonpos, rnd64_nonpos; nra).
    assert (C' : (clamp (rnd64 (R_ t' * X)) <= 0)%R)
      by (apply clamp_nonpos, rnd64_nonpos; nra).
    rewrite !Rmax_right by assumption. lra.
Qed.

Section LawsNonPos.
Variable fexp : pfloat -> pfloat.
Hypothesis fexp_unit : forall x, is_finite_f x = true -> PrimFloat.leb x 0 = true ->
  is_finite_f (fexp x) = true /\ PrimFloat.leb 0 (fexp x) = true /\
  PrimFloat.leb (fexp x) 1 = true.
Hypothesis fexp_mono_np : forall x y, is_finite_f x = true -> is_finite_f y = true ->
  PrimFloat.leb x y = true -> PrimFloat.leb y 0 = true ->
  PrimFloat.leb (fexp x) (fexp y) = true.

Lemma fexp_earg_unit n : 0 <= n ->
  is_finite_f (fexp (earg n)) = true /\ (0 <= R_ (fexp (earg n)) <= 1)%R.
Proof.
  intro Hn. destruct (earg_nonpos n Hn) as (F & L).
  destruct (fexp_unit _ F L) as (Fe & L0 & L1). split; [ exact Fe | ].
  destruct one_spec_f as (F1 & R1).
  pose proof (leb0_R _ Fe L0). pose proof (leb_R _ _ Fe F1 L1). lra.
Qed.

(* the factor exp(-decay*n) - offset is a finite float of magnitude <= 1 *)
Lemma sdiff_np n : 0 <= n ->
  is_finite_f (sdiff fexp n) = true /\
  R_ (sdiff fexp n) = rnd64 (R_ (fexp (earg n)) - R_ (fexp (earg 1000))).
Proof.
  intro Hn. unfold sdiff. rewrite tol_offset_earg. fold (earg n).
  destruct (fexp_earg_unit n Hn) as (Fe & Re).
  destruct (fexp_earg_unit 1000) as (Fo & Ro); [ lia | ].
  destruct (sub_ext _ _ Fe Fo) as (_ & HE & HF).
  assert (BM : (Rabs (rnd64 (R_ (fexp (earg n)) - R_ (fexp (earg 1000)))) < M)%R).
  { apply Rle_lt_trans with (bpow radix2 0); [ | apply bpow_lt_M; lia ].
    apply rnd64_abs_le_bpow; [ lia | ]. simpl. apply Rabs_le. lra. }
  specialize (HF BM). split; [ exact HF | ].
  rewrite <- E_fin by exact HF. rewrite HE. apply clamp_small. exact BM.
Qed.

Lemma slack_zero_large_np tol n :
  1000 <= n < 2 ^ 53 -> is_finite_f tol = true -> PrimFloat.leb 0 tol = true ->
  PrimFloat.eqb (slack fexp tol tol_decay (tol_offset fexp) n) 0 = true.
Proof.
  intros Hn Ft Ht. rewrite slack_unfold.
  destruct (sdiff_np n) as (Fx & Rx); [ lia | ].
  destruct (fexp_earg_unit n) as (Fe & _); [ lia | ].
  destruct (fexp_earg_unit 1000) as (Fo & _); [ lia | ].
  assert (Hx : (E_ (sdiff fexp n) <= 0)%R).
  { rewrite E_fin, Rx by exact Fx. apply rnd64_nonpos.
    assert (H : PrimFloat.leb (fexp (earg n)) (fexp (earg 1000)) = true).
    { apply fexp_mono_np; try apply earg_nonpos; try lia. apply earg_anti; lia. }
    pose proof (leb_R _ _ Fe Fo H). lra. }
  destruct (mul_nonpos tol (sdiff fexp n) Ft Ht (is_finite_f_not_nan _ Fx) Hx
              (or_intror Fx)) as (N & HE).
  apply py_max0_zero; assumption.
Qed.

Lemma slack_mono_tol_np tol tol' n :
  0 <= n -> is_finite_f tol = true -> is_finite_f tol' = true ->
  PrimFloat.leb 0 tol = true -> PrimFloat.leb tol tol' = true ->
  PrimFloat.leb (slack fexp tol tol_decay (tol_offset fexp) n)
                (slack fexp tol' tol_decay (tol_offset fexp) n) = true.
Proof.
  intros Hn Ft Ft' H0 Hle. rewrite !slack_unfold.
  destruct (sdiff_np n Hn) as (Fx & _).
  apply py_max0_mul_mono; assumption.
Qed.

Lemma slack_finite_np tol n :
  0 <= n -> is_finite_f tol = true -> PrimFloat.leb 0 tol = true ->
  is_nan_f (slack fexp tol tol_decay (tol_offset fexp) n) = false /\
  PrimFloat.leb 0 (slack fexp tol tol_decay (tol_offset fexp) n) = true.
Proof.
  intros Hn Ft Ht.
  assert (N : is_nan_f (slack fexp tol tol_decay (tol_offset fexp) n) = false).
  { rewrite slack_unfold. destruct (sdiff_np n Hn) as (Fx & _).
    destruct (mul_ext tol (sdiff fexp n) Ft Fx) as (Np & _).
    apply py_max0_spec. exact Np. }
  split; [ exact N | apply slack_nonneg_gen; exact N ].
Qed.

End LawsNonPos.

(* ------------------------------------------------------------------ *)
(* The statements 7b / 7c as literally requested are false             *)
(* ------------------------------------------------------------------ *)

(* With only [fexp_finite] and [fexp_mono] the difference
   [fexp (-decay*n) - offset] of two finite values may overflow to an infinity
   (nothing says exp is non-negative or small).  Take the step function
   [fexp_bad] below, n = 2000: the difference is  -MAX - MAX = -inf.
   - 7b: tol = 0 gives  0 * -inf = NaN, so slack = max(NaN, 0.0) = NaN and
     [eqb NaN 0 = false].
   - 7c: tol = 0, tol' = 1 gives slack tol = NaN and slack tol' = max(-inf,0) = 0:
     [leb NaN 0 = false] and the right-hand slack is not NaN.
   The [_alt] versions above add the premise  [0 < tol  \/  the difference is
   finite]; the [_nonneg_exp] versions derive the latter from  exp >= 0. *)

Definition fmax : pfloat := 0x1.fffffffffffffp1023%float.
(* a finite-valued monotone step function jumping from -MAX to +MAX at -decay*1000 *)
Definition fexp_bad (x : pfloat) : pfloat :=
  if PrimFloat.ltb x (earg 1000) then (- fmax)%float else fmax.

Lemma fexp_bad_finite : forall x, is_finite_f x = true -> is_finite_f (fexp_bad x) = true.
Proof.
  intros x _. unfold fexp_bad. destruct (PrimFloat.ltb x (earg 1000)); vm_compute; reflexivity.
Qed.

Lemma fexp_bad_mono : forall x y,
  PrimFloat.leb x y = true -> PrimFloat.leb (fexp_bad x) (fexp_bad y) = true.
Proof.
  intros x y H. unfold fexp_bad.
  destruct (PrimFloat.ltb x (earg 1000)) eqn:Ex; destruct (PrimFloat.ltb y (earg 1000)) eqn:Ey;
    try (vm_compute; reflexivity).
  exfalso.
  destruct (leb_true_inv _ _ H) as (Nx & Ny & Hxy).
  destruct (ltb_true_inv _ _ Ey) as (_ & Nc & Hyc).
  pose proof (ltb_false_inv _ _ Ex Nx Nc). lra.
Qed.

Lemma slack_zero_large_false :
  exists fexp : pfloat -> pfloat,
    (forall x, is_finite_f x = true -> is_finite_f (fexp x) = true) /\
    (forall x y, PrimFloat.leb x y = true -> PrimFloat.leb (fexp x) (fexp y) = true) /\
    exists tol n, 1000 <= n < 2 ^ 53 /\ is_finite_f tol = true /\
      PrimFloat.leb 0 tol = true /\
      PrimFloat.eqb (slack fexp tol tol_decay (tol_offset fexp) n) 0 = false.
Proof.
  exists fexp_bad. split; [ exact fexp_bad_finite | split; [ exact fexp_bad_mono | ] ].
  exists 0%float, 2000. split; [ lia | ].
  split; [ vm_compute; reflexivity | ].
  split; vm_compute; reflexivity.
Qed.

Lemma slack_mono_tol_false :
  exists fexp : pfloat -> pfloat,
    (forall x, is_finite_f x = true -> is_finite_f (fexp x) = true) /\
    (forall x y, PrimFloat.leb x y = true -> PrimFloat.leb (fexp x) (fexp y) = true) /\
    exists tol tol' n, is_finite_f tol = true /\ is_finite_f tol' = true /\
      PrimFloat.leb 0 tol = true /\ PrimFloat.leb tol tol' = true /\
      PrimFloat.leb (slack fexp tol tol_decay (tol_offset fexp) n)
                    (slack fexp tol' tol_decay (tol_offset fexp) n) = false /\
      is_nan_f (slack fexp tol' tol_decay (tol_offset fexp) n) = false.
Proof.
  exists fexp_bad. split; [ exact fexp_bad_finite | split; [ exact fexp_bad_mono | ] ].
  exists 0%float, 1%float, 2000.
  repeat split; vm_compute; reflexivity.
Qed.

Print Assumptions accept_never.
Print Assumptions accept_radius_def.
Print Assumptions accept_diameter_def.
Print Assumptions accept_not_below.
Print Assumptions accept_stat_ge.
Print Assumptions accept_thr_mono.
Print Assumptions accept_tol_singleton_diam.
Print Assumptions accept_tol_singleton_rad.
Print Assumptions accept_tol_general_diam.
Print Assumptions accept_tol_general_rad.
Print Assumptions accept_legacy.
Print Assumptions accept_deterministic.
Print Assumptions slack_nonneg.
Print Assumptions slack_not_neg.
Print Assumptions slack_zero_large_alt.
Print Assumptions slack_zero_large_partial.
Print Assumptions slack_zero_large_pos.
Print Assumptions slack_zero_large_nonneg_exp.
Print Assumptions slack_mono_tol_alt.
Print Assumptions slack_mono_tol_pos.
Print Assumptions slack_mono_tol_nonneg_exp.
Print Assumptions slack_zero_large_false.
Print Assumptions slack_mono_tol_false.
Print Assumptions slack_zero_large_np.
Print Assumptions slack_mono_tol_np.
Print Assumptions slack_finite_np.
