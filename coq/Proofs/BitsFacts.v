(* BitsFacts.v — packbits/unpackbits round trip, popcount paths, packed Tanimoto. *)
From BB Require Import Model.Sim.
Require Import Lia ZifyBool ZifyNat.
Open Scope Z_scope.

Ltac Zify.zify_post_hook ::= Z.to_euclidean_division_equations.

(* ------------------------------------------------------------------ *)
(* generic list helpers                                                 *)
(* ------------------------------------------------------------------ *)

Lemma firstn_repeat_min : forall (A : Type) (x : A) k n,
  firstn k (repeat x n) = repeat x (Nat.min k n).
Proof.
  induction k as [|k IH]; intros n; [reflexivity|].
  destruct n as [|n]; [reflexivity|].
  cbn [repeat firstn Nat.min]. now rewrite IH.
Qed.

Lemma map2_length_eq : forall (A B C : Type) (f : A -> B -> C) a b,
  length a = length b -> length (map2 f a b) = length a.
Proof.
  induction a as [|x a IH]; intros [|y b] H; try discriminate; [reflexivity|].
  cbn [map2 length]. f_equal. apply IH. now injection H.
Qed.

Lemma map2_app : forall (A B C : Type) (f : A -> B -> C) a b c d,
  length a = length b ->
  map2 f (a ++ c) (b ++ d) = map2 f a b ++ map2 f c d.
Proof.
  induction a as [|x a IH]; intros [|y b] c d H; try discriminate; [reflexivity|].
  cbn [map2 app]. f_equal. apply IH. now injection H.
Qed.

Lemma firstn_map2 : forall (A B C : Type) (f : A -> B -> C) n a b,
  firstn n (map2 f a b) = map2 f (firstn n a) (firstn n b).
Proof.
  induction n as [|n IH]; intros a b; [reflexivity|].
  destruct a as [|x a]; [reflexivity|].
  destruct b as [|y b]; [reflexivity|].
  cbn [map2 firstn]. now rewrite IH.
Qed.

Lemma skipn_map2 : forall (A B C : Type) (f : A -> B -> C) n a b,
  skipn n (map2 f a b) = map2 f (skipn n a) (skipn n b).
Proof.
  induction n as [|n IH]; intros a b; [reflexivity|].
  destruct a as [|x a]; [reflexivity|].
  destruct b as [|y b].
  - cbn [map2 skipn]. now destruct (skipn n a).
  - cbn [map2 skipn]. apply IH.
Qed.

Lemma Forall_firstn : forall (A : Type) (P : A -> Prop) n l,
  Forall P l -> Forall P (firstn n l).
Proof.
  intros A P n l H. rewrite <- (firstn_skipn n l) in H.
  apply Forall_app in H. tauto.
Qed.

Lemma Forall_skipn : forall (A : Type) (P : A -> Prop) n l,
  Forall P l -> Forall P (skipn n l).
Proof.
  intros A P n l H. rewrite <- (firstn_skipn n l) in H.
  apply Forall_app in H. tauto.
Qed.

(* ------------------------------------------------------------------ *)
(* zsum                                                                 *)
(* ------------------------------------------------------------------ *)

Lemma zsum_acc : forall l a, fold_left Z.add l a = a + zsum l.
Proof.
  unfold zsum. induction l as [|x l IH]; intros a; cbn [fold_left]; [lia|].
  rewrite (IH (a + x)), (IH (0 + x)). lia.
Qed.

Lemma zsum_cons : forall x l, zsum (x :: l) = x + zsum l.
Proof. intros. unfold zsum at 1. cbn [fold_left]. rewrite zsum_acc. lia. Qed.

Lemma zsum_app : forall a b, zsum (a ++ b) = zsum a + zsum b.
Proof.
  induction a as [|x a IH]; intros b; cbn [app].
  - unfold zsum at 2. cbn [fold_left]. lia.
  - rewrite !zsum_cons, IH. lia.
Qed.

(* ------------------------------------------------------------------ *)
(* 10. card                                                             *)
(* ------------------------------------------------------------------ *)

Lemma card_app : forall a b, card (a ++ b) = card a + card b.
Proof. induction a as [|x a IH]; intros b; cbn [card app]; [|rewrite IH]; lia. Qed.

Lemma card_repeat_false : forall n, card (repeat false n) = 0.
Proof. induction n as [|n IH]; cbn [repeat card b2z]; lia. Qed.

Lemma card_bounds : forall a, 0 <= card a <= Z.of_nat (length a).
Proof.
  induction a as [|x a IH]; cbn [card length]; [lia|].
  destruct x; cbn [b2z]; lia.
Qed.

Lemma andv_length : forall a b, length a = length b -> length (andv a b) = length a.
Proof. intros. now apply map2_length_eq. Qed.

Lemma card_andv_le : forall a b,
  card (andv a b) <= card a /\ card (andv a b) <= card b.
Proof.
  unfold andv. induction a as [|x a IH]; intros [|y b]; cbn [map2 card].
  - lia.
  - pose proof (card_bounds b). destruct y; cbn [b2z]; lia.
  - pose proof (card_bounds a). destruct x; cbn [b2z]; lia.
  - specialize (IH b). destruct x, y; cbn [andb b2z]; lia.
Qed.

Lemma card_andv_comm : forall a b, card (andv a b) = card (andv b a).
Proof.
  unfold andv. induction a as [|x a IH]; intros [|y b]; cbn [map2 card]; try reflexivity.
  rewrite (IH b), Bool.andb_comm. reflexivity.
Qed.

(* 12 *)
Lemma card_incl_excl : forall a b, length a = length b ->
  card (map2 orb a b) = card a + card b - card (andv a b).
Proof.
  unfold andv. induction a as [|x a IH]; intros [|y b] H; try discriminate;
    cbn [map2 card]; [lia|].
  injection H as H. specialize (IH b H).
  destruct x, y; cbn [orb andb b2z]; lia.
Qed.

(* ------------------------------------------------------------------ *)
(* 1. bits_val / byte_bits                                              *)
(* ------------------------------------------------------------------ *)

Lemma bits_val_acc : forall l acc,
  fold_left (fun acc b => 2 * acc + b2z b) l acc
  = acc * 2 ^ Z.of_nat (length l) + bits_val l.
Proof.
  unfold bits_val. induction l as [|x l IH]; intros acc; cbn [fold_left length].
  - change (2 ^ Z.of_nat 0) with 1. lia.
  - rewrite (IH (2 * acc + b2z x)), (IH (2 * 0 + b2z x)).
    rewrite Nat2Z.inj_succ, Z.pow_succ_r by lia. ring.
Qed.

Lemma bits_val_cons : forall x l,
  bits_val (x :: l) = b2z x * 2 ^ Z.of_nat (length l) + bits_val l.
Proof.
  intros. unfold bits_val at 1. cbn [fold_left]. rewrite bits_val_acc. ring.
Qed.

Lemma bits_val_range_gen : forall l, 0 <= bits_val l < 2 ^ Z.of_nat (length l).
Proof.
  induction l as [|x l IH].
  - cbv. split; [discriminate|reflexivity].
  - rewrite bits_val_cons. cbn [length]. rewrite Nat2Z.inj_succ, Z.pow_succ_r by lia.
    set (P := 2 ^ Z.of_nat (length l)) in *.
    destruct x; cbn [b2z]; lia.
Qed.

Lemma bits_val_range : forall l, (length l <= 8)%nat -> 0 <= bits_val l < 256.
Proof.
  intros l H. pose proof (bits_val_range_gen l) as R.
  assert (2 ^ Z.of_nat (length l) <= 2 ^ 8) by (apply Z.pow_le_mono_r; lia).
  change (2 ^ 8) with 256 in *. lia.
Qed.

Lemma byte_bits_of_byte : forall l, length l = 8%nat -> byte_bits (bits_val l) = l.
Proof.
  intros l H.
  do 8 (destruct l as [|? l]; [discriminate H|]).
  destruct l; [|discriminate H].
  repeat match goal with b : bool |- _ => destruct b end; reflexivity.
Qed.

(* ------------------------------------------------------------------ *)
(* pack / unpack                                                        *)
(* ------------------------------------------------------------------ *)

Lemma pack_aux_nil : forall f, pack_aux f [] = [].
Proof. destruct f; reflexivity. Qed.

Lemma pack_aux_cons : forall f x t,
  pack_aux (S f) (x :: t) = byte_of (x :: t) :: pack_aux f (skipn 8 (x :: t)).
Proof. reflexivity. Qed.

Lemma byte_chunk_length : forall l : fpv,
  length (firstn 8 (l ++ repeat false 8)) = 8%nat.
Proof. intros. rewrite firstn_length, app_length, repeat_length. lia. Qed.

Lemma byte_of_range : forall l, 0 <= byte_of l < 256.
Proof.
  intros. unfold byte_of. apply bits_val_range. rewrite byte_chunk_length. lia.
Qed.

Lemma byte_bits_byte_of : forall l,
  byte_bits (byte_of l) = firstn 8 (l ++ repeat false 8).
Proof. intros. unfold byte_of. apply byte_bits_of_byte, byte_chunk_length. Qed.

(* 3 *)
Lemma pack_aux_length : forall f l, (length l <= f)%nat ->
  length (pack_aux f l) = Nat.div (length l + 7) 8.
Proof.
  induction f as [|f IH]; intros l H.
  - destruct l; [reflexivity|cbn [length] in H; lia].
  - destruct l as [|x t]; [reflexivity|].
    rewrite pack_aux_cons. set (l := x :: t) in *.
    cbn [length]. rewrite IH by (rewrite skipn_length; lia).
    rewrite skipn_length.
    assert (1 <= length l)%nat by (subst l; cbn [length]; lia).
    lia.
Qed.

Lemma pack_length : forall bits, length (pack bits) = Nat.div (length bits + 7) 8.
Proof. intros. unfold pack. apply pack_aux_length. lia. Qed.

(* 4 *)
Lemma pack_aux_range : forall f l, Forall (fun b => 0 <= b < 256) (pack_aux f l).
Proof.
  induction f as [|f IH]; intros l; [constructor|].
  destruct l as [|x t]; [constructor|].
  rewrite pack_aux_cons. constructor; [apply byte_of_range|apply IH].
Qed.

Lemma pack_bytes_range : forall bits, Forall (fun b => 0 <= b < 256) (pack bits).
Proof. intros. apply pack_aux_range. Qed.

(* 5 *)
Lemma unpack_all_pack_aux : forall f l, (length l <= f)%nat ->
  unpack_all (pack_aux f l)
  = l ++ repeat false (8 * length (pack_aux f l) - length l).
Proof.
  induction f as [|f IH]; intros l H.
  - destruct l; [reflexivity|cbn [length] in H; lia].
  - destruct l as [|x t]; [reflexivity|].
    rewrite pack_aux_cons. set (l := x :: t) in *.
    assert (Hl : (1 <= length l)%nat) by (subst l; cbn [length]; lia).
    clearbody l.
    cbn [unpack_all flat_map length]. fold (unpack_all (pack_aux f (skipn 8 l))).
    rewrite byte_bits_byte_of.
    destruct (Nat.le_gt_cases 8 (length l)) as [Hge|Hlt].
    + rewrite IH by (rewrite skipn_length; lia).
      rewrite firstn_app.
      replace (8 - length l)%nat with 0%nat by lia.
      rewrite firstn_O, app_nil_r.
      rewrite app_assoc, firstn_skipn. f_equal. f_equal.
      rewrite skipn_length. lia.
    + rewrite (skipn_all2 l) by lia. rewrite pack_aux_nil.
      cbn [unpack_all flat_map length]. rewrite app_nil_r.
      rewrite firstn_app, (firstn_all2 l) by lia.
      rewrite firstn_repeat_min. f_equal. f_equal. lia.
Qed.

Lemma unpack_all_pack : forall bits,
  unpack_all (pack bits) = bits ++ repeat false (8 * length (pack bits) - length bits).
Proof. intros. unfold pack. apply unpack_all_pack_aux. lia. Qed.

(* 2 *)
Lemma unpack_pack : forall bits : fpv,
  unpack (Some (Z.of_nat (length bits))) (pack bits) = bits.
Proof.
  intros bits. unfold unpack. rewrite Nat2Z.id.
  rewrite unpack_all_pack.
  rewrite firstn_app, firstn_all, Nat.sub_diag, firstn_O.
  rewrite app_nil_r, app_length.
  replace (length bits - (length bits + _))%nat with 0%nat by lia.
  cbn [repeat]. apply app_nil_r.
Qed.

(* ------------------------------------------------------------------ *)
(* popcount                                                             *)
(* ------------------------------------------------------------------ *)

Lemma popc_byte_sweep :
  forallb (fun n => popc (Z.of_nat n) =? card (byte_bits (Z.of_nat n))) (seq 0 256) = true.
Proof. vm_compute. reflexivity. Qed.

(* 6 *)
Lemma popc_byte_bits : forall b, 0 <= b < 256 -> popc b = card (byte_bits b).
Proof.
  intros b Hb.
  pose proof (proj1 (forallb_forall _ _) popc_byte_sweep (Z.to_nat b)) as H.
  cbv beta in H. rewrite Z2Nat.id in H by lia.
  apply Z.eqb_eq, H, in_seq. lia.
Qed.

(* 7 *)
Lemma popcount_bytes_card : forall bs, Forall (fun b => 0 <= b < 256) bs ->
  popcount_bytes bs = card (unpack_all bs).
Proof.
  unfold popcount_bytes, unpack_all.
  induction 1 as [|b bs Hb _ IH]; [reflexivity|].
  cbn [map flat_map]. rewrite zsum_cons, card_app, IH, popc_byte_bits by exact Hb.
  reflexivity.
Qed.

Lemma popc_nonneg_arg : forall z r, 0 <= z -> r = 0 \/ r = 1 ->
  popc (2 * z + r) = r + popc z.
Proof.
  intros z r Hz [-> | ->]; destruct z as [|p|p]; try lia; reflexivity.
Qed.

Lemma popc_shift : forall (k : nat) b w,
  0 <= b < 2 ^ Z.of_nat k -> 0 <= w ->
  popc (b + 2 ^ Z.of_nat k * w) = popc b + popc w.
Proof.
  induction k as [|k IH]; intros b w Hb Hw.
  - change (2 ^ Z.of_nat 0) with 1 in *. assert (b = 0) by lia. subst b.
    replace (0 + 1 * w) with w by lia. reflexivity.
  - rewrite Nat2Z.inj_succ, Z.pow_succ_r in * by lia.
    set (P := 2 ^ Z.of_nat k) in *.
    assert (HP : 0 < P) by (apply Z.pow_pos_nonneg; lia).
    pose proof (Z.div_mod b 2 ltac:(lia)) as E.
    pose proof (Z.mod_pos_bound b 2 ltac:(lia)) as Hr.
    set (b' := b / 2) in *. set (r := b mod 2) in *.
    clearbody b' r P.
    replace (b + 2 * P * w) with (2 * (b' + P * w) + r) by lia.
    rewrite popc_nonneg_arg; [|nia|lia].
    rewrite IH by lia. rewrite E. rewrite popc_nonneg_arg by lia. lia.
Qed.

Lemma popc_256 : forall b w, 0 <= b < 256 -> 0 <= w ->
  popc (b + 256 * w) = popc b + popc w.
Proof. intros b w Hb Hw. exact (popc_shift 8 b w Hb Hw). Qed.

Lemma word_of_nonneg : forall l, Forall (fun b => 0 <= b < 256) l -> 0 <= word_of l.
Proof.
  unfold word_of. induction 1 as [|b l Hb _ IH]; cbn [fold_right]; lia.
Qed.

Lemma popc_word_of : forall l, Forall (fun b => 0 <= b < 256) l ->
  popc (word_of l) = popcount_bytes l.
Proof.
  unfold popcount_bytes. induction 1 as [|b l Hb Hl IH]; [reflexivity|].
  cbn [map]. rewrite zsum_cons, <- IH.
  change (word_of (b :: l)) with (b + 256 * word_of l).
  apply popc_256; [exact Hb|now apply word_of_nonneg].
Qed.

Lemma popcount_bytes_split : forall n l,
  popcount_bytes l = popcount_bytes (firstn n l) + popcount_bytes (skipn n l).
Proof.
  intros n l. unfold popcount_bytes.
  rewrite <- zsum_app, <- map_app, firstn_skipn. reflexivity.
Qed.

Lemma words_aux_nil : forall f, words_aux f [] = [].
Proof. destruct f; reflexivity. Qed.

Lemma words_aux_cons : forall f x t,
  words_aux (S f) (x :: t)
  = word_of (firstn 8 (x :: t)) :: words_aux f (skipn 8 (x :: t)).
Proof. reflexivity. Qed.

Lemma popcount_words_aux : forall f l,
  Forall (fun b => 0 <= b < 256) l -> (length l <= f)%nat ->
  zsum (map popc (words_aux f l)) = popcount_bytes l.
Proof.
  induction f as [|f IH]; intros l Hr H.
  - destruct l; [reflexivity|cbn [length] in H; lia].
  - destruct l as [|x t]; [reflexivity|].
    rewrite words_aux_cons. set (l := x :: t) in *.
    assert (Hl : (1 <= length l)%nat) by (subst l; cbn [length]; lia).
    clearbody l.
    cbn [map]. rewrite zsum_cons.
    rewrite popc_word_of by now apply Forall_firstn.
    rewrite IH; [|now apply Forall_skipn|rewrite skipn_length; lia].
    symmetry. apply popcount_bytes_split.
Qed.

(* the uint64-view path equals the byte path for every byte count *)
Lemma popcount_words_bytes_gen : forall bs, Forall (fun b => 0 <= b < 256) bs ->
  popcount_words bs = popcount_bytes bs.
Proof. intros bs H. unfold popcount_words. apply popcount_words_aux; [exact H|lia]. Qed.

(* 8 *)
Lemma popcount_words_bytes : forall bs, Forall (fun b => 0 <= b < 256) bs ->
  (length bs mod 8 = 0)%nat -> popcount_words bs = popcount_bytes bs.
Proof. intros bs H _. now apply popcount_words_bytes_gen. Qed.

Lemma wrap32_small : forall x, 0 <= x < 2 ^ 32 -> wrap W32 x = x.
Proof. intros x H. unfold wrap, wbits. apply Z.mod_small. exact H. Qed.

(* 9 *)
Lemma popcount_pack : forall bits, Z.of_nat (length bits) < 2 ^ 31 ->
  popcount (pack bits) = card bits.
Proof.
  intros bits H. unfold popcount.
  assert (E : (if zlen (pack bits) mod 8 =? 0
               then popcount_words (pack bits) else popcount_bytes (pack bits))
              = card bits).
  { rewrite popcount_words_bytes_gen by apply pack_bytes_range.
    assert (E : popcount_bytes (pack bits) = card bits).
    { rewrite popcount_bytes_card by apply pack_bytes_range.
      rewrite unpack_all_pack, card_app, card_repeat_false. lia. }
    rewrite E. now destruct (_ =? _). }
  rewrite E. apply wrap32_small.
  pose proof (card_bounds bits).
  change (2 ^ 31) with 2147483648 in H. change (2 ^ 32) with 4294967296. lia.
Qed.

(* ------------------------------------------------------------------ *)
(* 11. bytewise AND                                                     *)
(* ------------------------------------------------------------------ *)

Lemma testbit_2a_b_succ : forall a x m, 0 <= m ->
  Z.testbit (2 * a + b2z x) (Z.succ m) = Z.testbit a m.
Proof.
  intros a x m Hm. destruct x; cbn [b2z].
  - now apply Z.testbit_odd_succ.
  - rewrite Z.add_0_r. now apply Z.testbit_even_succ.
Qed.

Lemma testbit_2a_b : forall a x n, 0 <= n ->
  Z.testbit (2 * a + b2z x) n = if n =? 0 then x else Z.testbit a (n - 1).
Proof.
  intros a x n Hn. destruct (Z.eqb_spec n 0) as [->|Hne].
  - destruct x; cbn [b2z].
    + apply Z.testbit_odd_0.
    + rewrite Z.add_0_r. apply Z.testbit_even_0.
  - rewrite <- (testbit_2a_b_succ a x (n - 1)) by lia. f_equal. lia.
Qed.

Lemma land_step : forall a1 a2 x y,
  Z.land (2 * a1 + b2z x) (2 * a2 + b2z y) = 2 * Z.land a1 a2 + b2z (x && y).
Proof.
  intros. apply Z.bits_inj'. intros n Hn.
  rewrite Z.land_spec, !testbit_2a_b by lia.
  destruct (n =? 0); [reflexivity|]. symmetry. apply Z.land_spec.
Qed.

Lemma fold_bits_land : forall l1 l2 a1 a2, length l1 = length l2 ->
  Z.land (fold_left (fun acc b => 2 * acc + b2z b) l1 a1)
         (fold_left (fun acc b => 2 * acc + b2z b) l2 a2)
  = fold_left (fun acc b => 2 * acc + b2z b) (map2 andb l1 l2) (Z.land a1 a2).
Proof.
  induction l1 as [|x l1 IH]; intros [|y l2] a1 a2 H; try discriminate; [reflexivity|].
  cbn [fold_left map2]. rewrite IH by now injection H. now rewrite land_step.
Qed.

Lemma bits_val_land : forall l1 l2, length l1 = length l2 ->
  Z.land (bits_val l1) (bits_val l2) = bits_val (map2 andb l1 l2).
Proof. intros. unfold bits_val. now rewrite fold_bits_land. Qed.

Lemma byte_of_land : forall a b, length a = length b ->
  Z.land (byte_of a) (byte_of b) = byte_of (andv a b).
Proof.
  intros a b H. unfold byte_of, andv.
  rewrite bits_val_land by now rewrite !byte_chunk_length.
  f_equal. rewrite <- firstn_map2, map2_app by exact H. reflexivity.
Qed.

Lemma andv_cons : forall x a y b, andv (x :: a) (y :: b) = (x && y) :: andv a b.
Proof. reflexivity. Qed.

Lemma and_bytes_pack_aux : forall f a b, length a = length b ->
  and_bytes (pack_aux f a) (pack_aux f b) = pack_aux f (andv a b).
Proof.
  unfold and_bytes.
  induction f as [|f IH]; intros a b H; [reflexivity|].
  destruct a as [|x a], b as [|y b]; try discriminate; [reflexivity|].
  rewrite andv_cons, !pack_aux_cons, <- andv_cons.
  cbn [map2]. rewrite byte_of_land by exact H. f_equal.
  unfold andv. rewrite skipn_map2. apply IH.
  rewrite !skipn_length. now rewrite H.
Qed.

Lemma and_bytes_pack : forall a b, length a = length b ->
  and_bytes (pack a) (pack b) = pack (andv a b).
Proof.
  intros a b H. unfold pack. rewrite andv_length by exact H.
  rewrite <- H. now apply and_bytes_pack_aux.
Qed.

(* ------------------------------------------------------------------ *)
(* 13, 14. packed Tanimoto                                              *)
(* ------------------------------------------------------------------ *)

Lemma tanimoto_u32_f : forall i ca cb,
  0 <= i <= ca -> i <= cb -> ca + cb < 2 ^ 32 ->
  tanimoto_u32 i ca cb = tanimoto_f i ca cb.
Proof.
  intros i ca cb Hi Hb Hs. unfold tanimoto_u32, tanimoto_f.
  rewrite (wrap32_small (ca + cb)) by lia.
  rewrite wrap32_small by lia. reflexivity.
Qed.

Lemma sim_packed_pack : forall a b, length a = length b ->
  Z.of_nat (length a) < 2 ^ 30 ->
  sim_packed (pack a) (pack b) = sim a b.
Proof.
  intros a b H Hn.
  change (2 ^ 30) with 1073741824 in Hn.
  assert (Ha : Z.of_nat (length a) < 2 ^ 31) by (change (2 ^ 31) with 2147483648; lia).
  assert (Hb : Z.of_nat (length b) < 2 ^ 31) by (rewrite <- H; exact Ha).
  assert (Hab : Z.of_nat (length (andv a b)) < 2 ^ 31) by (rewrite andv_length; assumption).
  unfold sim_packed, sim_packed_precalc, sim.
  rewrite and_bytes_pack by exact H.
  rewrite !popcount_pack by assumption.
  pose proof (card_andv_le a b). pose proof (card_bounds a). pose proof (card_bounds b).
  pose proof (card_bounds (andv a b)).
  apply tanimoto_u32_f; lia.
Qed.

Lemma sim_sym : forall a b, sim a b = sim b a.
Proof.
  intros. unfold sim, tanimoto_f. rewrite (card_andv_comm a b), (Z.add_comm (card a)). reflexivity.
Qed.

Lemma sim_packed_sym : forall a b, length a = length b ->
  Z.of_nat (length a) < 2 ^ 30 ->
  sim_packed (pack a) (pack b) = sim_packed (pack b) (pack a).
Proof.
  intros a b H Hn.
  rewrite sim_packed_pack by assumption.
  rewrite sim_packed_pack by (try rewrite <- H; auto).
  apply sim_sym.
Qed.

Print Assumptions byte_bits_of_byte.
Print Assumptions bits_val_range.
Print Assumptions unpack_pack.
Print Assumptions pack_length.
Print Assumptions pack_bytes_range.
Print Assumptions unpack_all_pack.
Print Assumptions popc_byte_bits.
Print Assumptions popcount_bytes_card.
Print Assumptions popcount_words_bytes.
Print Assumptions popcount_pack.
Print Assumptions card_app.
Print Assumptions card_repeat_false.
Print Assumptions card_bounds.
Print Assumptions and_bytes_pack.
Print Assumptions card_incl_excl.
Print Assumptions sim_packed_pack.
Print Assumptions sim_packed_sym.
