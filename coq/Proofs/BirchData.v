(* BirchData.v — property C02: the per-bit sums stored in every reported cluster are the
   column-wise sums of exactly its members' fingerprints, for a ghost data map
   [D : Z -> fpv] (label |-> fingerprint).  Same pattern as [cnt_ok] in BirchInv /
   BirchRebuild: a predicate on every LEAF sub-cluster, preserved by insertion (rule
   induction over [Ins]) and lifted through fit / refine / recluster / step / run. *)
From BB Require Import Model.Birch Proofs.ListFacts Proofs.TreeDefs Proofs.TreeRel
     Proofs.TreeShape Proofs.TreeBlocks Proofs.TreeChain Proofs.TreeSums Proofs.TreeBal
     Proofs.BirchDefs Proofs.SimMax Proofs.BirchInv Proofs.BirchRebuild.
From Coq Require Import Lia Permutation.
Open Scope Z_scope.

(* ================= 1. column sums ================= *)
(* [map2] truncates uniformly, so the additivity of [colsum] holds for arbitrary rows;
   the row-length hypotheses of the requested statement are not needed. *)
Definition cstep (acc : list Z) (f : fpv) : list Z := vadd acc (map b2z f).

Lemma colsum_cstep nf rows : colsum nf rows = fold_left cstep rows (repeat 0 nf).
Proof. reflexivity. Qed.

Lemma vadd_zeros_r n x : (length x <= n)%nat -> vadd x (repeat 0 n) = x.
Proof.
  unfold vadd. revert n. induction x as [|a x IH]; intros n H; [destruct n; reflexivity|].
  destruct n as [|n]; [cbn [length] in H; lia|].
  cbn [repeat map2]. rewrite IH by (cbn [length] in H; lia). f_equal. lia.
Qed.

Lemma fold_cstep_length rows : forall acc,
  (length (fold_left cstep rows acc) <= length acc)%nat.
Proof.
  induction rows as [|r rows IH]; intros acc; cbn [fold_left]; [lia|].
  etransitivity; [apply IH|]. unfold cstep. rewrite vadd_length. lia.
Qed.

Lemma fold_cstep_acc n rows : forall acc, (length acc <= n)%nat ->
  fold_left cstep rows acc = vadd acc (fold_left cstep rows (repeat 0 n)).
Proof.
  induction rows as [|r rows IH]; intros acc H; cbn [fold_left].
  - symmetry. apply vadd_zeros_r. exact H.
  - rewrite (IH (cstep acc r)), (IH (cstep (repeat 0 n) r)).
    + unfold cstep. rewrite (vadd_assoc acc). f_equal.
      rewrite vadd_assoc. f_equal. symmetry. apply vadd_zeros_r. exact H.
    + unfold cstep. rewrite vadd_length, repeat_length. lia.
    + unfold cstep. rewrite vadd_length. lia.
Qed.

Lemma colsum_length_le nf rows : (length (colsum nf rows) <= nf)%nat.
Proof.
  rewrite colsum_cstep. etransitivity; [apply fold_cstep_length|]. rewrite repeat_length. lia.
Qed.

Lemma colsum_app_gen nf a b : colsum nf (a ++ b) = vadd (colsum nf a) (colsum nf b).
Proof.
  rewrite !colsum_cstep, fold_left_app. apply fold_cstep_acc.
  rewrite <- colsum_cstep. apply colsum_length_le.
Qed.

(* the statement as requested *)
Lemma colsum_app nf a b :
  (forall r, In r a -> length r = nf) -> (forall r, In r b -> length r = nf) ->
  colsum nf (a ++ b) = vadd (colsum nf a) (colsum nf b).
Proof. intros _ _. apply colsum_app_gen. Qed.

Lemma colsum_single nf (fp : fpv) : length fp = nf -> colsum nf [fp] = map b2z fp.
Proof.
  intros H. rewrite colsum_cstep. cbn [fold_left]. unfold cstep.
  apply vadd_0_l. now rewrite map_length.
Qed.

Lemma colsum_nil nf : colsum nf [] = repeat 0 nf.
Proof. reflexivity. Qed.

(* ================= 2. the invariant on one sub-cluster ================= *)
Definition data_ok (D : Z -> fpv) (nf : nat) (s : sub) : Prop :=
  sls s = colsum nf (map D (sids s)).

Lemma singleton_data D nf (fp : fpv) l :
  length fp = nf -> D l = fp -> data_ok D nf (singleton fp l).
Proof.
  intros Hl HD. unfold data_ok, singleton. cbn [sls sids map]. rewrite HD.
  symmetry. apply colsum_single. exact Hl.
Qed.

Section Merge.
Variable fexp : float -> float.
Variable c : crit.
Variable thr : float.

(* no length condition on [D] is needed *)
Lemma merge_data_gen D nf s t m :
  length (sls s) = length (sls t) -> sub_exact s -> sub_exact t -> sn s + sn t < 2^64 ->
  data_ok D nf s -> data_ok D nf t ->
  merge_sub fexp c thr s t = Some m -> data_ok D nf m.
Proof.
  intros Hl Es Et Hb Ds Dt Hm.
  destruct (merge_sub_exact fexp c thr s t m Hl Es Et Hb Hm) as (_ & _ & M3 & M4).
  unfold data_ok in *. rewrite M3, M4, map_app, colsum_app_gen, <- Ds, <- Dt. reflexivity.
Qed.

(* the statement as requested *)
Lemma merge_data D nf s t m :
  (forall i, length (D i) = nf) -> length (sls s) = nf -> length (sls t) = nf ->
  sub_exact s -> sub_exact t -> sn s + sn t < 2^64 ->
  data_ok D nf s -> data_ok D nf t ->
  merge_sub fexp c thr s t = Some m -> data_ok D nf m.
Proof.
  intros _ L1 L2. apply merge_data_gen. congruence.
Qed.
End Merge.

(* the same for the in-place update of a tracking entry (not needed for leaves) *)
Lemma upd_data D nf s t :
  sub_exact s -> sub_exact t -> sn s + sn t < 2^64 ->
  data_ok D nf s -> data_ok D nf t -> data_ok D nf (upd_sub s t).
Proof.
  intros Es Et Hb Ds Dt.
  destruct (upd_sub_exact0 s t (sub_exact_0 _ Es) (sub_exact_0 _ Et) Hb) as (_ & _ & M3 & M4).
  unfold data_ok in *. rewrite M3, M4, map_app, colsum_app_gen, <- Ds, <- Dt. reflexivity.
Qed.

(* ================= 3. insertion preserves a predicate on leaf sub-clusters ================= *)
(* Generic form of [Ins_cnt_mut]: leaf sub-clusters are only ever replaced by an accepted
   merge, appended, or permuted by a split.  Any predicate [P] stable under accepted merges
   is therefore preserved on [lsubs]. *)
Section LeafPred.
Variable fexp : float -> float.
Variable nf : nat.
Variable c : crit.
Variable thr : float.
Hypothesis Hsim : forall a b : fpv,
    length a = nf -> length b = nf -> (sim a a <? sim a b)%float = false.
Variable P : sub -> Prop.
Hypothesis HPm : forall s t m,
    length (sls s) = length (sls t) -> sub_exact s -> sub_exact t -> sn s + sn t < 2^64 ->
    P s -> P t -> merge_sub fexp c thr s t = Some m -> P m.

Lemma Ins_leafP_mut :
  (forall nd s ax nd' sp ax',
      Ins fexp nf c thr nd s ax nd' sp ax' ->
      shape nf nd -> sub_len nf s -> sums_ok nf nd -> sub_exact s ->
      tot_n (lsubs nd) + sn s < 2^64 ->
      Forall P (lsubs nd) -> P s -> Forall P (lsubs nd')) /\
  (forall es k s cache ax es' cache' ax',
      InsE fexp nf c thr es k s cache ax es' cache' ax' ->
      shape_e nf es -> cache = map scent (ents_subs es) -> (k < ents_len es)%nat ->
      sub_len nf s -> sums_ok_e nf es -> sub_exact s ->
      tot_n (lsubs_e es) + sn s < 2^64 ->
      Forall P (lsubs_e es) -> P s -> Forall P (lsubs_e es')).
Proof.
  apply Ins_mutind.
  - (* leaf empty *)
    intros id bf cache s ax _ _ _ _ _ _ Cs. cbn [lsubs]. constructor; [exact Cs|constructor].
  - (* leaf merge *)
    intros id bf es cache s ax m Hne Hm (Hbf & Hc & Hes) Hs Hok He Hb HC Cs.
    cbn [sums_ok lsubs] in *. subst cache.
    assert (Hr : (route (map scent es) s < length es)%nat).
    { rewrite <- (map_length scent). apply (route_lt). destruct es; [congruence|discriminate]. }
    destruct (upd_split (route (map scent es) s) m s es Hr) as (l1 & l2 & E1 & E2 & _).
    rewrite E2. clear E2 Hr Hne. revert Hm E1.
    generalize (nth (route (map scent es) s) es s). intros x Hm E1. subst es.
    apply Forall_app in Hes. destruct Hes as [L1 L2x].
    inversion L2x as [|? ? Lx L2]; subst.
    apply Forall_app in Hok. destruct Hok as [O1 O2x].
    inversion O2x as [|? ? Ox O2]; subst.
    apply Forall_app in HC. destruct HC as [C1 C2x].
    inversion C2x as [|? ? Cx C2]; subst.
    rewrite tot_n_app, tot_n_cons in Hb.
    pose proof (tot_n_nonneg _ O1) as N1. pose proof (tot_n_nonneg _ O2) as N2.
    assert (Hb' : sn x + sn s < 2^64) by lia.
    assert (Hlen : length (sls x) = length (sls s)).
    { destruct Lx as [Lx _]. destruct Hs as [Hs _]. congruence. }
    apply Forall_app. split; [exact C1|]. constructor; [|exact C2].
    exact (HPm x s m Hlen Ox He Hb' Cx Cs Hm).
  - (* leaf append *)
    intros id bf es cache s ax Hne Hm _ _ _ _ _ HC Cs. cbn [lsubs] in *.
    apply Forall_app. split; [exact HC|]. constructor; [exact Cs|constructor].
  - (* inner *)
    intros bf es cache s ax es' cache' ax' _ IH (Hbf & Hc & Hne & Hes) Hs Hok He Hb HC Cs.
    change (shape_e nf es) in Hes. cbn [sums_ok lsubs] in *.
    apply (IH Hes Hc); auto.
    assert (Hcn : cache <> []).
    { subst cache. destruct es; [congruence|discriminate]. }
    pose proof (route_lt cache s Hcn) as Hr.
    subst cache. rewrite map_length, ents_subs_length in Hr. exact Hr.
  - (* nil *)
    intros k s cache ax _ _ Hk. cbn in Hk. lia.
  - (* skip *)
    intros e ch tl k s cache ax tl' ctl' ax' HI IH (Le & Hch & Htl) Hc Hk Hs Hok He Hb HC Cs.
    change (shape_e nf tl) in Htl. change (shape nf ch) in Hch.
    destruct Hok as (O1 & O2 & O3 & O4 & O5 & O6).
    cbn [ents_subs map] in Hc. subst cache. cbn [List.tl firstn] in *.
    cbn [lsubs_e] in *. cbn [ents_len] in Hk.
    pose proof (tot_n_nonneg _ (sums_lsubs nf _ O5)) as N1.
    rewrite tot_n_app in Hb.
    apply Forall_app in HC. destruct HC as [C1 C2].
    apply Forall_app. split; [exact C1|].
    apply (IH Htl eq_refl ltac:(lia) Hs O6 He ltac:(lia) C2 Cs).
  - (* split *)
    intros e ch tl s cache ax ch' ax1 t1 n1 t2 n2 ax2 HI IH Hsp (Le & Hch & Htl) Hc Hk Hs Hok He Hb HC Cs.
    change (shape_e nf tl) in Htl. change (shape nf ch) in Hch.
    destruct Hok as (O1 & O2 & O3 & O4 & O5 & O6).
    cbn [lsubs_e] in *.
    pose proof (tot_n_nonneg _ (sums_lsubs_e nf _ O6)) as N2.
    rewrite tot_n_app in Hb.
    apply Forall_app in HC. destruct HC as [C1 C2].
    pose proof (IH Hch Hs O5 He ltac:(lia) C1 Cs) as I0.
    destruct (Ins_sums fexp nf c thr Hsim _ _ _ _ _ _ HI Hch Hs O5 He ltac:(lia)) as (I1 & I2 & _).
    pose proof (Ins_shape fexp nf c thr Hsim _ _ _ _ _ _ HI Hch Hs) as Sch'.
    pose proof (shape_entries_pos _ _ _ _ _ _ _ _ _ _ HI eq_refl Sch') as H2.
    assert (Hb2 : tot_n (lsubs ch') < 2^64) by lia.
    destruct (split_sums_full fexp nf thr Hsim _ _ _ _ _ _ _ Sch' I1 H2 Hb2 Hsp)
      as (_ & _ & _ & _ & PP).
    rewrite lsubs_e_app1.
    apply (Forall_perm _ (lsubs ch' ++ lsubs_e tl)).
    + rewrite <- PP. rewrite <- !app_assoc. apply Permutation_app_head, Permutation_app_comm.
    + apply Forall_app. split; assumption.
  - (* nosplit *)
    intros e ch tl s cache ax ch' ax1 HI IH (Le & Hch & Htl) Hc Hk Hs Hok He Hb HC Cs.
    change (shape_e nf tl) in Htl. change (shape nf ch) in Hch.
    destruct Hok as (O1 & O2 & O3 & O4 & O5 & O6).
    cbn [lsubs_e] in *.
    pose proof (tot_n_nonneg _ (sums_lsubs_e nf _ O6)) as N2.
    rewrite tot_n_app in Hb.
    apply Forall_app in HC. destruct HC as [C1 C2].
    apply Forall_app. split; [|exact C2].
    apply (IH Hch Hs O5 He ltac:(lia) C1 Cs).
Qed.

Lemma insert_root_leafP bf root s ax root' ax' :
  1 <= bf -> shape nf root -> sums_ok nf root -> Forall P (lsubs root) ->
  sub_len nf s -> sub_exact s -> P s ->
  tot_n (lsubs root) + sn s < 2^64 ->
  insert_root fexp nf c thr bf root s ax = (root', ax') ->
  Forall P (lsubs root').
Proof.
  intros Hbf Hr Hok HC Hs He Cs Hb. unfold insert_root.
  destruct (insert fexp nf c thr root s ax) as [[r sp] ax1] eqn:Hi.
  apply insert_Ins in Hi.
  pose proof (Ins_shape fexp nf c thr Hsim _ _ _ _ _ _ Hi Hr Hs) as Hr'.
  pose proof (proj1 Ins_leafP_mut _ _ _ _ _ _ Hi Hr Hs Hok He Hb HC Cs) as I0.
  destruct (Ins_sums fexp nf c thr Hsim _ _ _ _ _ _ Hi Hr Hs Hok He Hb) as (I1 & I2 & _).
  destruct sp.
  - pose proof (shape_entries_pos _ _ _ _ _ _ _ _ _ _ Hi eq_refl Hr') as H2.
    destruct (split_node nf r ax1) as [[[t1 n1] [t2 n2]] ax2] eqn:Hsp.
    assert (Hb2 : tot_n (lsubs r) < 2^64) by lia.
    destruct (split_sums_full fexp nf thr Hsim _ _ _ _ _ _ _ Hr' I1 H2 Hb2 Hsp)
      as (_ & _ & _ & _ & PP).
    intros E. inversion E; subst root' ax'. cbn [lsubs lsubs_e]. rewrite app_nil_r.
    apply (Forall_perm _ (lsubs r)); [symmetry; exact PP|exact I0].
  - intros E. inversion E; subst root' ax'. exact I0.
Qed.
End LeafPred.

(* instance: the data invariant *)
Section TreeData.
Variable fexp : float -> float.
Variable nf : nat.
Variable c : crit.
Variable thr : float.
Hypothesis Hsim : forall a b : fpv,
    length a = nf -> length b = nf -> (sim a a <? sim a b)%float = false.
Variable D : Z -> fpv.

Lemma Ins_data nd s ax nd' sp ax' :
  Ins fexp nf c thr nd s ax nd' sp ax' ->
  shape nf nd -> sub_len nf s -> sums_ok nf nd -> sub_exact s ->
  tot_n (lsubs nd) + sn s < 2^64 ->
  Forall (data_ok D nf) (lsubs nd) -> data_ok D nf s -> Forall (data_ok D nf) (lsubs nd').
Proof.
  apply (proj1 (Ins_leafP_mut fexp nf c thr Hsim (data_ok D nf)
                  (merge_data_gen fexp c thr D nf))).
Qed.

Lemma insert_root_data bf root s ax root' ax' :
  1 <= bf -> shape nf root -> sums_ok nf root -> Forall (data_ok D nf) (lsubs root) ->
  sub_len nf s -> sub_exact s -> data_ok D nf s ->
  tot_n (lsubs root) + sn s < 2^64 ->
  insert_root fexp nf c thr bf root s ax = (root', ax') ->
  Forall (data_ok D nf) (lsubs root').
Proof.
  apply (insert_root_leafP fexp nf c thr Hsim (data_ok D nf)
           (merge_data_gen fexp c thr D nf)).
Qed.
End TreeData.

(* ================= 4. estimator level ================= *)
Definition leaves_data (D : Z -> fpv) (st : state) : Prop :=
  match root st with Some r => Forall (data_ok D (nfeat st)) (lsubs r) | None => True end.

(* documented use: the rows given to fit are what D says about their labels; the X given to
   refine is the fitted data *)
Definition op_data (D : Z -> fpv) (st : state) (o : op) : Prop :=
  match o with
  | OFit rows None =>
      forall k fp, nth_error rows k = Some (Some fp) -> D (nfit st + Z.of_nat k) = fp
  | OFit _ (Some _) => False
  | ORefine X im _ => forall i, In i (mem_ids st) -> py_nth X (i - im) = Some (D i)
  | OReset => True      (* D may be anything afterwards; see leaves_data on an empty state *)
  | _ => True
  end.

(* The length side-condition on [D].  It turns out NOT to be needed ([colsum_app_gen] holds
   for arbitrary rows, and the rows that enter the tree have the right length by [op_wf]);
   the [_strong] statements below omit it, the requested statements carry it unused. *)
Definition data_lengths (D : Z -> fpv) (st : state) (o : op) : Prop :=
  forall i, In i (mem_ids st) -> length (D i) = nfeat st.

Lemma leaves_data_none D st : root st = None -> leaves_data D st.
Proof. intros H. unfold leaves_data. now rewrite H. Qed.

Lemma leaves_data_same D st st1 :
  root st1 = root st -> nfeat st1 = nfeat st -> leaves_data D st -> leaves_data D st1.
Proof. intros E1 E2. unfold leaves_data. now rewrite E1, E2. Qed.

Section WithExp.
Variable fexp : float -> float.
Variable D : Z -> fpv.

(* ---------- one insertion ---------- *)
Lemma insert_st_data st cf s dn r :
  st_inv st -> root st = Some r -> 2 <= c_bf cf ->
  sub_len (nfeat st) s -> sub_exact s -> nfit st + sn s < 2 ^ 64 ->
  leaves_data D st -> data_ok D (nfeat st) s ->
  leaves_data D (insert_st fexp cf st s dn).
Proof.
  intros Hinv Hr Hbf Ls Es Hb HL Ds. unfold leaves_data in HL |- *. unfold insert_st.
  rewrite Hr in HL |- *.
  destruct Hinv as (Hc & Hinv). rewrite Hr in Hinv.
  destruct Hinv as (Hnf & (Hsh & _ & Hsu & _) & Hn & Hn0).
  destruct (insert_root fexp (nfeat st) (c_crit cf) (c_thr cf) (c_bf cf) r s (sax st))
    as [r' ax'] eqn:Hi.
  cbn [root nfeat]. rewrite Hn in Hb.
  pose proof (sim_max_nf (nfeat st) Hnf) as Hsim.
  assert (Hbf1 : 1 <= c_bf cf) by lia.
  exact (insert_root_data fexp (nfeat st) _ _ Hsim D _ _ _ _ _ _ Hbf1 Hsh Hsu HL Ls Es Ds Hb Hi).
Qed.

(* ---------- fit ---------- *)
Lemma fit_rows_data cf rows : forall st labs,
  st_inv st -> root st <> None -> 2 <= c_bf cf ->
  Forall (row_ok (nfeat st)) rows -> nfit st + zlen rows < 2 ^ 64 ->
  leaves_data D st ->
  (forall k fp l, nth_error rows k = Some (Some fp) -> nth_error labs k = Some l -> D l = fp) ->
  leaves_data D (fst (fit_rows fexp cf st rows labs)).
Proof.
  induction rows as [|row rows IH]; intros st labs Hinv Hr Hbf Hrows Hb HL HD.
  - cbn [fit_rows fst]. exact HL.
  - inversion Hrows as [|? ? Hrow Hrows']; subst.
    rewrite zlen_cons in Hb. pose proof (zlen_nonneg rows) as Hz.
    destruct row as [fp|]; destruct labs as [|l labs]; cbn [fit_rows fst]; try exact HL.
    destruct (root st) as [r|] eqn:Er; [|congruence].
    cbn [row_ok] in Hrow.
    destruct (singleton_good (nfeat st) fp l Hrow) as (G1 & G2 & G3).
    destruct (insert_st_inv fexp st cf (singleton fp l) 1 r Hinv Er Hbf G1 G2 G3 eq_refl ltac:(lia))
      as (I1 & I2 & I3 & I4 & I5 & I6 & I7).
    assert (Ds : data_ok D (nfeat st) (singleton fp l)).
    { apply singleton_data; [exact Hrow|]. apply (HD O); reflexivity. }
    assert (Hb1 : nfit st + sn (singleton fp l) < 2 ^ 64) by (cbn [singleton sn]; lia).
    pose proof (insert_st_data st cf (singleton fp l) 1 r Hinv Er Hbf G1 G2 Hb1 HL Ds) as HL1.
    remember (insert_st fexp cf st (singleton fp l) 1) as st1 eqn:Est1.
    rewrite <- I3 in Hrows'.
    apply (IH st1 labs I1 I5 Hbf Hrows' ltac:(lia) HL1).
    intros k fp' l' H1 H2. apply (HD (S k)); assumption.
Qed.

Lemma nth_error_zseq n : forall s k l, nth_error (zseq s n) k = Some l -> l = s + Z.of_nat k.
Proof.
  induction n as [|n IH]; intros s k l H; destruct k as [|k]; cbn [zseq nth_error] in H;
    try discriminate.
  - injection H as <-. lia.
  - apply IH in H. lia.
Qed.

Lemma do_fit_data st rows :
  st_inv st -> nf_ok st -> op_wf st (OFit rows None) ->
  leaves_data D st -> op_data D st (OFit rows None) ->
  leaves_data D (fst (do_fit fexp st rows None)).
Proof.
  intros Hinv Hnf (_ & Hrows & Hb) HL HD. cbn [op_data] in HD. unfold do_fit.
  destruct rows as [|r0 rows]; [cbn [fst]; exact HL|].
  destruct (released st) eqn:Erel; [cbn [fst]; exact HL|].
  unfold is_init.
  destruct (root st) as [r|] eqn:Er.
  - assert (Hr : root st <> None) by congruence.
    apply (fit_rows_data (cfg st) (r0 :: rows) st _ Hinv Hr (proj1 Hinv) Hrows Hb HL).
    intros k fp l H1 H2. apply nth_error_zseq in H2. subst l. apply HD, H1.
  - destruct r0 as [fp|].
    + destruct Hrows as (Hrows & Hfp).
      pose proof (initialize_inv st (length fp) Hinv Er Hfp) as I1.
      remember (initialize st (length fp)) as st1 eqn:Est1.
      assert (E1 : nfit st1 = nfit st) by (subst st1; reflexivity).
      assert (E2 : nfeat st1 = length fp) by (subst st1; reflexivity).
      assert (E3 : root st1 <> None) by (subst st1; discriminate).
      assert (E5 : cfg st1 = cfg st) by (subst st1; reflexivity).
      assert (HL1 : leaves_data D st1) by (subst st1; unfold leaves_data; cbn; constructor).
      rewrite <- E2 in Hrows. rewrite <- E1 in Hb.
      assert (Hbf1 : 2 <= c_bf (cfg st1)) by (rewrite E5; exact (proj1 Hinv)).
      apply (fit_rows_data (cfg st1) (Some fp :: rows) st1 _ I1 E3 Hbf1 Hrows Hb HL1).
      intros k fp' l H1 H2. apply nth_error_zseq in H2. subst l. rewrite E1. apply HD, H1.
    + cbn [length zseq fit_rows fst]. unfold leaves_data, initialize. cbn. constructor.
Qed.

(* ---------- re-inserting buffers ---------- *)
Lemma fit_bufs_data cf nf w g : forall st,
  st_inv st -> root st <> None -> nfeat st = nf -> 2 <= c_bf cf ->
  Forall (fun b => good_sub nf b /\ sw b = w) g ->
  nfit st + tot_n g < 2 ^ 64 ->
  leaves_data D st -> Forall (data_ok D nf) g ->
  leaves_data D (fst (fit_bufs fexp cf st w g)).
Proof.
  induction g as [|b g IH]; intros st Hinv Hr Hnf Hbf Hg Hb HL HD.
  - cbn [fit_bufs fst]. exact HL.
  - pose proof (Forall_inv Hg) as ((G1 & G2 & G3) & Gw). pose proof (Forall_inv_tail Hg) as Hg'.
    pose proof (Forall_inv HD) as Db. pose proof (Forall_inv_tail HD) as HD'.
    subst w.
    rewrite tot_n_cons in Hb.
    assert (Hex : Forall sub_exact g).
    { eapply Forall_impl; [|exact Hg']. cbv beta. intros a ((_ & Hq & _) & _). exact Hq. }
    pose proof (tot_n_nonneg g Hex) as Hg0.
    cbn [fit_bufs]. pose proof G3 as G3'. unfold cnt_ok in G3'.
    rewrite <- G3', Z.eqb_refl, sub_of_buffer_id by exact G2.
    destruct (root st) as [r|] eqn:Er; [|congruence].
    rewrite <- Hnf in G1, Db.
    destruct (insert_st_inv fexp st cf b (sn b) r Hinv Er Hbf G1 G2 G3 eq_refl ltac:(lia))
      as (I1 & I2 & I3 & I4 & I5 & I6 & I7).
    pose proof (insert_st_data st cf b (sn b) r Hinv Er Hbf G1 G2 ltac:(lia) HL Db) as HL1.
    remember (insert_st fexp cf st b (sn b)) as st1 eqn:Est1.
    apply (IH st1 I1 I5 ltac:(congruence) Hbf Hg' ltac:(lia) HL1 HD').
Qed.

Lemma do_fit_buffers_data nf w g st :
  st_inv st -> released st = false -> init_for nf st -> Z.of_nat nf < 2 ^ 52 ->
  g <> [] -> Forall (fun b => good_sub nf b /\ sw b = w) g ->
  nfit st + tot_n g < 2 ^ 64 ->
  leaves_data D st -> Forall (data_ok D nf) g ->
  leaves_data D (fst (do_fit_buffers fexp st w g)).
Proof.
  intros Hinv Hrel Hinit Hnf Hne Hg Hb HL HD.
  destruct g as [|b0 g]; [congruence|]. unfold do_fit_buffers. rewrite Hrel. unfold is_init.
  destruct (root st) as [r|] eqn:Er.
  - destruct Hinit as [Hi|(_ & Hi)]; [rewrite Er in Hi; discriminate|].
    assert (Hr : root st <> None) by congruence.
    exact (fit_bufs_data (cfg st) nf w (b0 :: g) st Hinv Hr Hi (proj1 Hinv) Hg Hb HL HD).
  - pose proof (Forall_inv Hg) as (((L0 & _) & _) & _).
    rewrite L0.
    pose proof (initialize_inv st nf Hinv Er Hnf) as I1.
    remember (initialize st nf) as st1 eqn:Est1.
    assert (E1 : nfit st1 = nfit st) by (subst st1; reflexivity).
    assert (E2 : nfeat st1 = nf) by (subst st1; reflexivity).
    assert (E3 : root st1 <> None) by (subst st1; discriminate).
    assert (E5 : cfg st1 = cfg st) by (subst st1; reflexivity).
    assert (HL1 : leaves_data D st1) by (subst st1; unfold leaves_data; cbn; constructor).
    assert (Hbf1 : 2 <= c_bf (cfg st1)) by (rewrite E5; exact (proj1 Hinv)).
    rewrite <- E1 in Hb.
    exact (fit_bufs_data (cfg st1) nf w (b0 :: g) st1 I1 E3 E2 Hbf1 Hg Hb HL1 HD).
Qed.

Lemma fit_groups_data nf gs : forall st,
  st_inv st -> released st = false -> init_for nf st -> Z.of_nat nf < 2 ^ 52 ->
  groups_ok nf gs -> nfit st + tot_n (gsubs gs) < 2 ^ 64 ->
  leaves_data D st -> Forall (data_ok D nf) (gsubs gs) ->
  leaves_data D (fst (fit_groups fexp st gs)).
Proof.
  induction gs as [|[w g] gs IH]; intros st Hinv Hrel Hinit Hnf Hgs Hb HL HD.
  - cbn [fit_groups fst]. exact HL.
  - pose proof (Forall_inv Hgs) as (Hne & Hg). pose proof (Forall_inv_tail Hgs) as Hgs'.
    cbn [fst snd] in Hne, Hg.
    pose proof (groups_ok_exact nf gs Hgs') as Hex.
    pose proof (tot_n_nonneg _ Hex) as H0.
    unfold gsubs in Hb, HD. cbn [map snd concat] in Hb, HD. fold (gsubs gs) in Hb, HD.
    rewrite tot_n_app in Hb. apply Forall_app in HD. destruct HD as [HD1 HD2].
    destruct (do_fit_buffers_inv fexp nf w g st Hinv Hrel Hinit Hnf Hne Hg ltac:(lia))
      as (st1 & F & J1 & J2 & J3 & J4 & J5 & J6 & J7 & J8 & J9).
    pose proof (do_fit_buffers_data nf w g st Hinv Hrel Hinit Hnf Hne Hg ltac:(lia) HL HD1) as HL1.
    rewrite F in HL1. cbn [fst] in HL1.
    assert (Hinit1 : init_for nf st1) by (right; split; assumption).
    cbn [fit_groups]. rewrite F.
    apply (IH st1 J1 J4 Hinit1 Hnf Hgs' ltac:(lia) HL1 HD2).
Qed.

(* ---------- the leaves as read by the API ---------- *)
Lemma sorted_leaves_data st :
  st_inv st -> leaves_data D st -> Forall (data_ok D (nfeat st)) (sorted_leaves st).
Proof.
  intros Hinv HL. unfold leaves_data in HL. destruct (root st) as [r|] eqn:Er.
  - apply (Forall_perm _ (lsubs r)); [|exact HL].
    symmetry. apply sorted_leaves_perm; assumption.
  - rewrite sorted_leaves_none by exact Er. constructor.
Qed.

(* ---------- rebuilding a tree from (a rearrangement of) leaf sub-clusters ---------- *)
Lemma rebuild_data st st1 gs :
  st_inv st -> nf_ok st ->
  st_inv st1 -> root st1 = None -> released st1 = false ->
  groups_ok (nfeat st) gs -> tot_n (gsubs gs) = nfit st ->
  Forall (data_ok D (nfeat st)) (gsubs gs) ->
  leaves_data D (fst (fit_groups fexp st1 gs)).
Proof.
  intros Hinv Hnf Hinv1 Hr1 Hrel1 Hgs Htot HD.
  assert (Hn1 : nfit st1 = 0).
  { destruct Hinv1 as (_ & H). rewrite Hr1 in H. tauto. }
  assert (Hb : nfit st1 + tot_n (gsubs gs) < 2 ^ 64).
  { rewrite Hn1, Htot. destruct Hinv as (_ & H). destruct (root st); [lia|].
    destruct H as (-> & _). lia. }
  exact (fit_groups_data (nfeat st) gs st1 Hinv1 Hrel1 (or_introl Hr1) Hnf Hgs Hb
           (leaves_data_none D st1 Hr1) HD).
Qed.

Lemma rebuild_leaves_data st t bfs' :
  st_inv st -> nf_ok st -> Permutation bfs' (sorted_leaves st) -> leaves_data D st ->
  leaves_data D (fst (fit_groups fexp (set_thr (reset_st st) t) (prepare_groups bfs'))).
Proof.
  intros Hinv Hnf HP HL.
  destruct (reset_thr_inv st t Hinv) as (R1 & R2 & R3 & R4 & _).
  pose proof (prepare_groups_perm bfs') as PG.
  assert (PG' : Permutation (gsubs (prepare_groups bfs')) (sorted_leaves st))
    by (etransitivity; eassumption).
  apply (rebuild_data st _ _ Hinv Hnf R1 R2 R3).
  - apply groups_wf_ok; [apply prepare_groups_wf|].
    apply (Forall_perm _ (sorted_leaves st)); [symmetry; exact PG'|].
    apply sorted_leaves_good, Hinv.
  - rewrite (tot_n_perm _ _ PG'). apply sorted_leaves_tot, Hinv.
  - apply (Forall_perm _ (sorted_leaves st)); [symmetry; exact PG'|].
    apply sorted_leaves_data; assumption.
Qed.

(* ---------- recluster ---------- *)
Lemma recluster_loop_data iters : forall st extra perms se before,
  st_inv st -> nf_ok st -> numbered st -> perms_fit fexp iters st extra perms se before ->
  leaves_data D st ->
  leaves_data D (fst (recluster_loop fexp iters st extra perms se before)).
Proof.
  induction iters as [|k IH]; intros st extra perms se before Hinv Hnf Hnum Hpf HL.
  - cbn [recluster_loop fst]. exact HL.
  - cbn [recluster_loop perms_fit] in *.
    destruct (se && ((count_singletons (sorted_leaves st) =? 0)
                     || (count_singletons (sorted_leaves st) =? before))).
    + cbn [fst]. exact HL.
    + destruct perms as [|p ps].
      * destruct (rebuild_leaves fexp st (c_thr (cfg st) + extra)%float (sorted_leaves st)
                                 Hinv Hnf Hnum (Permutation_refl _))
          as (st2 & F & K1 & K2 & K3 & K4 & K5).
        pose proof (rebuild_leaves_data st (c_thr (cfg st) + extra)%float (sorted_leaves st)
                      Hinv Hnf (Permutation_refl _) HL) as HL2.
        rewrite F in HL2 |- *. cbn [fst] in HL2.
        apply (IH st2 extra [] se (count_singletons (sorted_leaves st)) K1 K2 K3
                  (perms_fit_nil _ _ _ _ _ _) HL2).
      * destruct Hpf as (Hp & Hpf).
        destruct (rebuild_leaves fexp st (c_thr (cfg st) + extra)%float
                                 (permute (sorted_leaves st) p)
                                 Hinv Hnf Hnum (permute_perm _ _ Hp))
          as (st2 & F & K1 & K2 & K3 & K4 & K5).
        pose proof (rebuild_leaves_data st (c_thr (cfg st) + extra)%float
                      (permute (sorted_leaves st) p) Hinv Hnf (permute_perm _ _ Hp) HL) as HL2.
        rewrite F in Hpf, HL2 |- *. cbn [fst] in HL2.
        apply (IH st2 extra ps se (count_singletons (sorted_leaves st)) K1 K2 K3 Hpf HL2).
Qed.

Lemma do_recluster_data st iters extra perms se :
  st_inv st -> numbered st -> recluster_perms_ok fexp st iters extra perms se ->
  leaves_data D st ->
  leaves_data D (fst (do_recluster fexp st iters extra perms se)).
Proof.
  intros Hinv Hnum Hpf HL. unfold do_recluster, is_init.
  destruct (root st) as [r|] eqn:Er; cbn [negb fst]; [|exact HL].
  assert (Hnf : nf_ok st) by (apply st_inv_nf_ok; [exact Hinv|congruence]).
  exact (recluster_loop_data iters st extra perms se 0 Hinv Hnf Hnum Hpf HL).
Qed.

(* ---------- refine ---------- *)
Lemma explode_data nf (X : list fpv) im ids : forall r,
  Forall (fun fp : fpv => length fp = nf) X -> explode X im ids = Some r ->
  (forall i, In i ids -> py_nth X (i - im) = Some (D i)) ->
  Forall (data_ok D nf) r.
Proof.
  intros r HX. revert r. induction ids as [|i ids IH]; intros r H HD; cbn [explode] in H.
  - injection H as <-. constructor.
  - destruct (py_nth X (i - im)) as [fp|] eqn:E; [|discriminate H].
    destruct (explode X im ids) as [r'|]; [|discriminate H].
    injection H as <-.
    constructor; [|apply IH; [reflexivity|intros j Hj; apply HD; now right]].
    rewrite (HD i (or_introl eq_refl)) in E. injection E as E.
    pose proof (py_nth_In _ _ _ (HD i (or_introl eq_refl))) as Hin.
    rewrite Forall_forall in HX. specialize (HX _ Hin).
    change (data_ok D nf (singleton fp i)). apply singleton_data; congruence.
Qed.

Lemma explode_all_data nf (X : list fpv) im bfs : forall singles,
  Forall (fun fp : fpv => length fp = nf) X ->
  explode_all X im bfs = Some singles ->
  (forall i, In i (concat (map sids bfs)) -> py_nth X (i - im) = Some (D i)) ->
  Forall (data_ok D nf) singles.
Proof.
  intros singles HX. revert singles.
  induction bfs as [|b bfs IH]; intros singles H HD; cbn [explode_all] in H.
  - injection H as <-. constructor.
  - destruct (explode X im (sids b)) as [a|] eqn:E; [|discriminate H].
    destruct (explode_all X im bfs) as [r|]; [|discriminate H].
    injection H as <-. cbn [map concat] in HD.
    apply Forall_app. split.
    + apply (explode_data nf X im (sids b) a HX E).
      intros i Hi. apply HD, in_or_app. now left.
    + apply (IH r eq_refl). intros i Hi. apply HD, in_or_app. now right.
Qed.

Lemma refine_core_data st1 (X : list fpv) im nl gs :
  st_inv st1 -> root st1 <> None ->
  Forall (fun fp : fpv => length fp = nfeat st1) X ->
  refine_groups st1 X im nl = Some gs ->
  leaves_data D st1 ->
  (forall i, In i (mem_ids st1) -> py_nth X (i - im) = Some (D i)) ->
  leaves_data D (fst (fit_groups fexp (reset_st st1) gs)).
Proof.
  intros Hinv Hr HX Hrg HL HDX.
  pose proof (st_inv_nf_ok st1 Hinv Hr) as Hnf.
  destruct (reset_inv st1 Hinv) as (R1 & R2 & R3 & R4 & _).
  pose proof (sorted_leaves_good st1 Hinv) as Hgood.
  pose proof (sorted_leaves_tot st1 Hinv) as Htot.
  pose proof (sorted_leaves_ids st1 Hinv) as Hids.
  pose proof (sorted_leaves_data st1 Hinv HL) as Hdat.
  unfold refine_groups in Hrg.
  destruct (nl =? 0) eqn:E0.
  - injection Hrg as <-.
    pose proof (prepare_groups_perm (sorted_leaves st1)) as PG.
    apply (rebuild_data st1 _ _ Hinv Hnf R1 R2 R3).
    + apply groups_wf_ok; [apply prepare_groups_wf|].
      apply (Forall_perm _ (sorted_leaves st1)); [symmetry; exact PG|exact Hgood].
    + rewrite (tot_n_perm _ _ PG). exact Htot.
    + apply (Forall_perm _ (sorted_leaves st1)); [symmetry; exact PG|exact Hdat].
  - destruct (nl <? 1); [discriminate|].
    remember (Z.to_nat nl) as k eqn:Ek.
    remember (sorted_leaves st1) as bfs eqn:Ebfs.
    destruct (firstn k bfs) as [|l0 lt] eqn:El; [discriminate|]. rewrite <- El in Hrg.
    destruct (explode_all X im (firstn k bfs)) as [singles|] eqn:Ex; [|discriminate].
    injection Hrg as <-.
    destruct (firstn_skipn_Forall _ k bfs Hgood) as (G1 & G2).
    destruct (firstn_skipn_Forall _ k bfs Hdat) as (_ & Dd2).
    assert (HC : Forall cnt_ok (firstn k bfs)).
    { eapply Forall_impl; [|exact G1]. cbv beta. intros a (_ & _ & Hq). exact Hq. }
    destruct (explode_all_spec (nfeat st1) X im _ singles HX HC Ex) as (S1 & S2 & S3).
    assert (SW : Forall (fun b => sw b = W8) singles).
    { eapply Forall_impl; [|exact S1]. cbv beta. tauto. }
    assert (SG : Forall (good_sub (nfeat st1)) singles).
    { eapply Forall_impl; [|exact S1]. cbv beta. tauto. }
    assert (SD : Forall (data_ok D (nfeat st1)) singles).
    { apply (explode_all_data (nfeat st1) X im _ singles HX Ex).
      intros i Hi. apply HDX. apply (Permutation_in _ Hids).
      rewrite <- (firstn_skipn k bfs), map_app, concat_app. apply in_or_app. now left. }
    pose proof (prepare_groups_perm (skipn k bfs)) as PG.
    pose proof (fold_group_add_perm (fun _ => W8) singles (prepare_groups (skipn k bfs))) as PF.
    cbv beta in PF.
    assert (PP : Permutation
                   (gsubs (fold_left (fun gs b => group_add W8 b gs) singles
                                     (prepare_groups (skipn k bfs))))
                   (skipn k bfs ++ singles)).
    { etransitivity; [exact PF|]. apply Permutation_app_tail. exact PG. }
    apply (rebuild_data st1 _ _ Hinv Hnf R1 R2 R3).
    + apply groups_wf_ok.
      * apply (fold_group_add_wf (fun _ => W8)); [exact SW|apply prepare_groups_wf].
      * apply (Forall_perm _ (skipn k bfs ++ singles)); [symmetry; exact PP|].
        apply Forall_app. split; assumption.
    + rewrite (tot_n_perm _ _ PP), tot_n_app, S3, <- Htot.
      rewrite <- (firstn_skipn k bfs) at 3. rewrite tot_n_app. lia.
    + apply (Forall_perm _ (skipn k bfs ++ singles)); [symmetry; exact PP|].
      apply Forall_app. split; assumption.
Qed.

Lemma do_refine_data st X im nl :
  st_inv st -> op_wf st (ORefine X im nl) ->
  leaves_data D st -> op_data D st (ORefine X im nl) ->
  leaves_data D (fst (do_refine fexp st X im nl)).
Proof.
  intros Hinv HX HL HD. cbn [op_wf] in HX. cbn [op_data] in HD. unfold do_refine, is_init.
  destruct (root st) as [r|] eqn:Er; cbn [negb]; [|cbn [fst]; exact HL].
  destruct (delete_internal_spec st Hinv) as (D1 & D2 & D3 & D4 & D5 & D6 & D7).
  destruct (delete_internal st) as [st1 o] eqn:Ed. cbn [fst snd] in *.
  destruct (same_tree_views st st1 D3 D4 D5) as (V1 & V2 & V3 & V4).
  assert (HL1 : leaves_data D st1) by (apply (leaves_data_same D st st1 D3 D6 HL)).
  destruct o; [|exact HL1].
  destruct (refine_groups st1 X im nl) as [gs|] eqn:Eg; [|exact HL1].
  assert (Hr1 : root st1 <> None) by (rewrite D3, Er; discriminate).
  rewrite <- D6 in HX. rewrite <- V3 in HD.
  exact (refine_core_data st1 X im nl gs D1 Hr1 HX Eg HL1 HD).
Qed.

(* ================= 5. all operations, all histories ================= *)
(* strong form: no length side-condition on [D] *)
Lemma step_data_strong st o :
  st_inv st -> nf_ok st -> numbered st -> op_wf st o -> op_perms_ok fexp st o ->
  leaves_data D st -> op_data D st o ->
  leaves_data D (fst (step fexp st o)).
Proof.
  intros Hinv Hnf Hnum Hwf Hp HL HD.
  destruct o as [rows labels|X im nl|it ex ps se|c t b| |]; cbn [step].
  - pose proof Hwf as (-> & _). exact (do_fit_data st rows Hinv Hnf Hwf HL HD).
  - exact (do_refine_data st X im nl Hinv Hwf HL HD).
  - exact (do_recluster_data st it ex ps se Hinv Hnum Hp HL).
  - cbn [fst]. apply (leaves_data_same D st); [reflexivity|reflexivity|exact HL].
  - destruct (delete_internal_spec st Hinv) as (_ & _ & D3 & _ & _ & D6 & _).
    exact (leaves_data_same D st _ D3 D6 HL).
  - cbn [fst]. apply leaves_data_none. reflexivity.
Qed.

(* the statement as requested *)
Lemma step_data st o :
  st_inv st -> nf_ok st -> numbered st -> op_wf st o -> op_perms_ok fexp st o ->
  leaves_data D st -> data_lengths D st o -> op_data D st o ->
  leaves_data D (fst (step fexp st o)).
Proof. intros Hinv Hnf Hnum Hwf Hp HL _ HD. now apply step_data_strong. Qed.

Fixpoint ops_data_strong (st : state) (ops : list op) : Prop :=
  match ops with
  | [] => True
  | o :: tl => op_data D st o /\ ops_data_strong (fst (step fexp st o)) tl
  end.

Fixpoint ops_data (st : state) (ops : list op) : Prop :=
  match ops with
  | [] => True
  | o :: tl => data_lengths D st o /\ op_data D st o /\ ops_data (fst (step fexp st o)) tl
  end.

Lemma ops_data_weaken ops : forall st, ops_data st ops -> ops_data_strong st ops.
Proof.
  induction ops as [|o ops IH]; intros st H; cbn [ops_data ops_data_strong] in *; [exact I|].
  destruct H as (_ & H1 & H2). split; [exact H1|apply IH, H2].
Qed.

Lemma run_from_data ops : forall st,
  st_inv st -> nf_ok st -> numbered st -> ops_wf fexp st ops -> ops_perms_ok fexp st ops ->
  leaves_data D st -> ops_data_strong st ops ->
  leaves_data D (run_from fexp st ops).
Proof.
  induction ops as [|o ops IH]; intros st Hinv Hnf Hnum Hwf Hp HL HD.
  - exact HL.
  - destruct Hwf as (W1 & W2). destruct Hp as (P1 & P2). destruct HD as (E1 & E2).
    destruct (step_inv_alt fexp st o Hinv Hnf Hnum W1 P1) as (A & B & C).
    pose proof (step_data_strong st o Hinv Hnf Hnum W1 P1 HL E1) as HL'.
    exact (IH _ A B C W2 P2 HL' E2).
Qed.

Theorem run_data_strong cfg0 ops :
  2 <= c_bf cfg0 -> ops_wf fexp (init cfg0) ops -> ops_perms_ok fexp (init cfg0) ops ->
  ops_data_strong (init cfg0) ops ->
  leaves_data D (run fexp cfg0 ops).
Proof.
  intros H Hwf Hp HD. destruct (init_inv cfg0 H) as (A & B & C).
  exact (run_from_data ops (init cfg0) A B C Hwf Hp (leaves_data_none D (init cfg0) eq_refl) HD).
Qed.

(* the statement as requested *)
Theorem run_data cfg0 ops :
  2 <= c_bf cfg0 -> ops_wf fexp (init cfg0) ops -> ops_perms_ok fexp (init cfg0) ops ->
  ops_data (init cfg0) ops ->
  leaves_data D (run fexp cfg0 ops).
Proof.
  intros H Hwf Hp HD. apply run_data_strong; auto. apply ops_data_weaken, HD.
Qed.

End WithExp.

(* ================= 6. what the user sees ================= *)
Theorem reported_sums D st :
  st_inv st -> leaves_data D st ->
  Forall (fun s => sls s = colsum (nfeat st) (map D (sids s)) /\
                   sn s = zlen (sids s) /\
                   scent s = centroid_fpv (sls s) (sn s) /\
                   sw s = minw (sn s)) (sorted_leaves st).
Proof.
  intros Hinv HL.
  pose proof (sorted_leaves_good st Hinv) as G.
  pose proof (sorted_leaves_data D st Hinv HL) as Dd.
  rewrite Forall_forall in *. intros s Hs.
  destruct (G s Hs) as (_ & (_ & _ & Ew & Ec) & Cn).
  exact (conj (Dd s Hs) (conj Cn (conj Ec Ew))).
Qed.

(* end-to-end: over every well-formed history, every reported cluster stores the column sums
   of exactly its members' fingerprints *)
Theorem run_reported_sums fexp D cfg0 ops :
  2 <= c_bf cfg0 -> ops_wf fexp (init cfg0) ops -> ops_perms_ok fexp (init cfg0) ops ->
  ops_data_strong fexp D (init cfg0) ops ->
  let st := run fexp cfg0 ops in
  Forall (fun s => sls s = colsum (nfeat st) (map D (sids s)) /\
                   sn s = zlen (sids s) /\
                   scent s = centroid_fpv (sls s) (sn s) /\
                   sw s = minw (sn s)) (sorted_leaves st).
Proof.
  intros H Hwf Hp HD. cbv zeta. apply reported_sums.
  - exact (proj1 (run_inv fexp cfg0 ops H Hwf Hp)).
  - exact (run_data_strong fexp D cfg0 ops H Hwf Hp HD).
Qed.

Print Assumptions colsum_app.
Print Assumptions colsum_app_gen.
Print Assumptions colsum_single.
Print Assumptions merge_data.
Print Assumptions merge_data_gen.
Print Assumptions Ins_leafP_mut.
Print Assumptions insert_root_data.
Print Assumptions step_data.
Print Assumptions step_data_strong.
Print Assumptions run_data.
Print Assumptions run_data_strong.
Print Assumptions reported_sums.
Print Assumptions run_reported_sums.
