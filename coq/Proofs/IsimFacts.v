(* IsimFacts.v — iSIM Tanimoto (isim_f), complementary similarity, radius.
   Integer identities, no-wrap regime, exact regime through the Flocq bridge,
   two-fingerprint case, order invariance. *)
From BB Require Import Model.Sim.
From Coq Require Import ZArith List Bool Reals Lia Lra Permutation.
From Flocq Require Import Core BinarySingleNaN.
From Flocq Require Import IEEE754.PrimFloat.
From BB Require Import Proofs.FloatFacts.
Import ListNotations.
Open Scope Z_scope.

#[local] Existing Instance Hprec.
#[local] Existing Instance Hmax.

Definition pairs11 (ks : list Z) : Z := zsum (map (fun k => k * (k - 1) / 2) ks).     (* sum_q C(k_q,2) *)
Definition pairs10 (ks : list Z) (n : Z) : Z := zsum (map (fun k => k * (n - k)) ks). (* sum_q k_q (n-k_q) *)
Definition counts_ok (ks : list Z) (n : Z) : Prop := Forall (fun k => 0 <= k <= n) ks.

(* ------------------------------------------------------------------ *)
(* zsum / zdot unfolding                                               *)
(* ------------------------------------------------------------------ *)

Lemma zsum_acc' : forall l a, fold_left Z.add l a = a + zsum l.
Proof.
  unfold zsum. induction l as [|x l IH]; intros a; cbn [fold_left]; [lia|].
  rewrite (IH (a + x)), (IH (0 + x)). lia.
Qed.

Lemma zsum_nil : zsum [] = 0.
Proof. reflexivity. Qed.

Lemma zsum_cons' : forall x l, zsum (x :: l) = x + zsum l.
Proof. intros. unfold zsum at 1. cbn [fold_left]. rewrite zsum_acc'. lia. Qed.

Lemma zdot_cons : forall x a y b, zdot (x :: a) (y :: b) = x * y + zdot a b.
Proof. reflexivity. Qed.

Lemma zdot_self_sum : forall l, zdot l l = zsum (map (fun k => k * k) l).
Proof.
  induction l as [|x l IH]; [reflexivity|].
  cbn [map]. rewrite zdot_cons, zsum_cons', IH. reflexivity.
Qed.

Lemma pairs11_cons : forall k ks, pairs11 (k :: ks) = k * (k - 1) / 2 + pairs11 ks.
Proof. intros. unfold pairs11. cbn [map]. apply zsum_cons'. Qed.

Lemma pairs10_cons : forall k ks n, pairs10 (k :: ks) n = k * (n - k) + pairs10 ks n.
Proof. intros. unfold pairs10. cbn [map]. apply zsum_cons'. Qed.

(* ------------------------------------------------------------------ *)
(* 1. Integer identities                                               *)
(* ------------------------------------------------------------------ *)

Lemma choose2_even : forall k, 2 * (k * (k - 1) / 2) = k * (k - 1).
Proof.
  intros k. destruct (Z.Even_or_Odd k) as [[m Hm] | [m Hm]].
  - replace (k * (k - 1)) with ((m * (k - 1)) * 2) by (rewrite Hm; ring).
    rewrite Z.div_mul by lia. ring.
  - replace (k * (k - 1)) with ((k * m) * 2) by (rewrite Hm; ring).
    rewrite Z.div_mul by lia. ring.
Qed.

Lemma isim_num_id ks : zdot ks ks - zsum ks = 2 * pairs11 ks.
Proof.
  induction ks as [|k ks IH].
  - reflexivity.
  - rewrite zdot_cons, zsum_cons', pairs11_cons.
    rewrite Z.mul_add_distr_l, choose2_even, <- IH. ring.
Qed.

Lemma isim_den_id0 ks n : n * zsum ks - zdot ks ks = pairs10 ks n.
Proof.
  induction ks as [|k ks IH].
  - change (zsum []) with 0. change (zdot [] []) with 0. change (pairs10 [] n) with 0. ring.
  - rewrite zdot_cons, zsum_cons', pairs10_cons, <- IH. ring.
Qed.

Lemma isim_den_id ks n :
  pairs11 ks + n * zsum ks - zdot ks ks = pairs11 ks + pairs10 ks n.
Proof. rewrite <- isim_den_id0. ring. Qed.

(* ------------------------------------------------------------------ *)
(* 2. No wrap-around                                                   *)
(* ------------------------------------------------------------------ *)

Lemma counts_ok_cons : forall k ks n, counts_ok (k :: ks) n -> 0 <= k <= n /\ counts_ok ks n.
Proof. intros k ks n H. inversion H; subst. split; assumption. Qed.

(* 0 <= zsum <= zdot <= n*zsum, and every element is bounded by the sum *)
Lemma counts_bounds : forall ks n, counts_ok ks n ->
  0 <= zsum ks /\ zsum ks <= zdot ks ks /\ zdot ks ks <= n * zsum ks /\
  Forall (fun k => 0 <= k <= zsum ks) ks.
Proof.
  induction ks as [|k ks IH]; intros n H.
  - change (zsum []) with 0. change (zdot [] []) with 0.
    repeat split; try lia. constructor.
  - apply counts_ok_cons in H. destruct H as (Hk & H).
    destruct (IH n H) as (H0 & H1 & H2 & H3).
    rewrite zdot_cons, zsum_cons'.
    remember (zsum ks) as S. remember (zdot ks ks) as Q.
    repeat split; try nia.
    constructor; [lia|].
    eapply Forall_impl; [|exact H3]. cbv beta. intros a Ha. lia.
Qed.

Lemma pairs11_nonneg : forall ks n, counts_ok ks n -> 0 <= pairs11 ks.
Proof.
  intros ks n H. pose proof (isim_num_id ks) as E.
  destruct (counts_bounds ks n H) as (_ & H1 & _). lia.
Qed.

Lemma pairs10_nonneg : forall ks n, counts_ok ks n -> 0 <= pairs10 ks n.
Proof.
  intros ks n H. pose proof (isim_den_id0 ks n) as E.
  destruct (counts_bounds ks n H) as (_ & _ & H2 & _). lia.
Qed.

Lemma wrap64_small : forall x, 0 <= x < 2 ^ 64 -> wrap64 x = x.
Proof. intros x H. unfold wrap64. apply Z.mod_small. exact H. Qed.

Lemma map_wrap64_small : forall ks, Forall (fun k => 0 <= k < 2 ^ 64) ks -> map wrap64 ks = ks.
Proof.
  induction 1 as [|k ks Hk _ IH]; [reflexivity|].
  cbn [map]. rewrite IH, wrap64_small by exact Hk. reflexivity.
Qed.

Lemma isim_nowrap ks n : 2 <= n -> counts_ok ks n -> n * zsum ks < 2^63 ->
  map wrap64 ks = ks /\ wrap64 (zsum ks) = zsum ks /\
  wrap64 (zdot ks ks) = zdot ks ks /\
  wrap64 (zdot ks ks - zsum ks) = zdot ks ks - zsum ks /\
  wrap64 (n * zsum ks) = n * zsum ks.
Proof.
  intros Hn Hok Hb.
  destruct (counts_bounds ks n Hok) as (H0 & H1 & H2 & H3).
  remember (zsum ks) as S. remember (zdot ks ks) as Q.
  assert (P63 : 2 ^ 63 < 2 ^ 64) by reflexivity.
  remember (2 ^ 63) as B. remember (2 ^ 64) as B'.
  assert (HS : S <= n * S) by nia.
  split; [| repeat split; apply wrap64_small; subst B'; lia ].
  apply map_wrap64_small.
  eapply Forall_impl; [|exact H3]. cbv beta. intros a Ha. subst B'. lia.
Qed.

(* ------------------------------------------------------------------ *)
(* 3. All-zero                                                         *)
(* ------------------------------------------------------------------ *)

Lemma isim_zero ks n : 2 <= n -> counts_ok ks n -> zsum ks = 0 -> isim_f ks n = 1%float.
Proof.
  intros Hn Hok Hz.
  destruct (isim_nowrap ks n Hn Hok) as (E1 & E2 & _).
  { rewrite Hz, Z.mul_0_r. reflexivity. }
  unfold isim_f.
  destruct (n <? 2) eqn:E; [ apply Z.ltb_lt in E; lia | ].
  cbv zeta. rewrite E1, E2, Hz. reflexivity.
Qed.

(* ------------------------------------------------------------------ *)
(* Exact float arithmetic on small integers                            *)
(* ------------------------------------------------------------------ *)

Lemma Z2f_two : Z2f 2 = 2%float.
Proof. vm_compute. reflexivity. Qed.

Lemma Z2f_half : forall m, 0 <= m < 2 ^ 52 -> (Z2f (2 * m) / 2)%float = Z2f m.
Proof.
  intros m Hm. rewrite <- Z2f_two.
  assert (P : 2 ^ 53 = 2 * 2 ^ 52) by reflexivity.
  remember (2 ^ 52) as B. remember (2 ^ 53) as B'.
  destruct (div_spec_int (2 * m) 2) as (F & R & S); [ subst B'; lia | subst B'; lia | ].
  destruct (Z2f_spec m) as (Fm & Rm & Sm); [ subst B'; lia | ].
  apply prim_eq; try congruence.
  rewrite R, Rm.
  replace (IZR (2 * m) / IZR 2)%R with (IZR m).
  - apply rnd64_int. subst B' B. lia.
  - rewrite mult_IZR. field.
Qed.

Lemma Z2f_add : forall x y, 0 <= x -> 0 <= y -> x + y < 2 ^ 53 ->
  (Z2f x + Z2f y)%float = Z2f (x + y).
Proof.
  intros x y Hx Hy Hs.
  destruct (Z2f_spec x) as (Fx & Rx & Sx); [ lia | ].
  destruct (Z2f_spec y) as (Fy & Ry & Sy); [ lia | ].
  destruct (Z2f_spec (x + y)) as (Fs & Rs & Ss); [ lia | ].
  generalize (Bplus_correct prec emax Hprec Hmax mode_NE
                (Prim2B (Z2f x)) (Prim2B (Z2f y)) Fx Fy).
  rewrite <- add_equiv. rewrite Rx, Ry, <- plus_IZR.
  rewrite rnd64_int by lia.
  rewrite Rlt_bool_true by (apply IZR_lt_emax; lia).
  intros (HR & HF & HS).
  apply prim_eq; try congruence.
  rewrite HS, Ss, Sx, Sy.
  destruct (Rcompare_spec (IZR (x + y)) 0) as [H | H | H]; auto.
  apply lt_IZR in H. lia.
Qed.

Lemma Z2f_sub : forall x y, 0 <= y <= x -> x < 2 ^ 53 ->
  (Z2f x - Z2f y)%float = Z2f (x - y).
Proof.
  intros x y Hy Hx.
  destruct (Z2f_spec x) as (Fx & Rx & Sx); [ lia | ].
  destruct (Z2f_spec y) as (Fy & Ry & Sy); [ lia | ].
  destruct (Z2f_spec (x - y)) as (Fs & Rs & Ss); [ lia | ].
  generalize (Bminus_correct prec emax Hprec Hmax mode_NE
                (Prim2B (Z2f x)) (Prim2B (Z2f y)) Fx Fy).
  rewrite <- sub_equiv. rewrite Rx, Ry, <- minus_IZR.
  rewrite rnd64_int by lia.
  rewrite Rlt_bool_true by (apply IZR_lt_emax; lia).
  intros (HR & HF & HS).
  apply prim_eq; try congruence.
  rewrite HS, Ss, Sx, Sy.
  destruct (Rcompare_spec (IZR (x - y)) 0) as [H | H | H]; auto.
  apply lt_IZR in H. lia.
Qed.

(* ------------------------------------------------------------------ *)
(* 4. Exact regime                                                     *)
(* ------------------------------------------------------------------ *)

Lemma pairs_pos : forall ks n, 2 <= n -> counts_ok ks n -> 0 < zsum ks ->
  0 < pairs11 ks + pairs10 ks n.
Proof.
  induction ks as [|k ks IH]; intros n Hn Hok Hs.
  - change (zsum []) with 0 in Hs. lia.
  - apply counts_ok_cons in Hok. destruct Hok as (Hk & Hok).
    rewrite pairs11_cons, pairs10_cons.
    pose proof (pairs11_nonneg ks n Hok) as P1.
    pose proof (pairs10_nonneg ks n Hok) as P0.
    pose proof (choose2_even k) as E.
    remember (k * (k - 1) / 2) as c.
    rewrite zsum_cons' in Hs.
    destruct (Z.eq_dec k 0) as [K0 | K0].
    + subst k. specialize (IH n Hn Hok ltac:(lia)). lia.
    + assert (0 <= k * (n - k)) by nia.
      assert (0 <= 2 * c) by nia.
      destruct (Z.eq_dec k n) as [Kn | Kn].
      * assert (2 <= 2 * c) by nia. lia.
      * assert (1 <= k * (n - k)) by nia. lia.
Qed.

(* the float value is literally the quotient of the two exact integer counts *)
Lemma isim_quot ks n : 2 <= n -> counts_ok ks n -> 0 < zsum ks -> n * zsum ks < 2^52 ->
  isim_f ks n = (Z2f (pairs11 ks) / Z2f (pairs11 ks + pairs10 ks n))%float /\
  0 <= pairs11 ks < 2^51 /\
  0 < pairs11 ks + pairs10 ks n < 2^52.
Proof.
  intros Hn Hok Hs Hb.
  assert (P1 : 2 ^ 52 < 2 ^ 63) by reflexivity.
  assert (P2 : 2 ^ 52 = 2 * 2 ^ 51) by reflexivity.
  assert (P3 : 2 ^ 53 = 2 * 2 ^ 52) by reflexivity.
  destruct (isim_nowrap ks n Hn Hok) as (E1 & E2 & E3 & E4 & E5); [ lia | ].
  destruct (counts_bounds ks n Hok) as (H0 & H1 & H2 & _).
  pose proof (isim_num_id ks) as Enum.
  pose proof (isim_den_id ks n) as Eden.
  pose proof (pairs_pos ks n Hn Hok Hs) as Dpos.
  pose proof (pairs10_nonneg ks n Hok) as P0.
  unfold isim_f.
  destruct (n <? 2) eqn:E; [ apply Z.ltb_lt in E; lia | ].
  cbv zeta. rewrite E1, E2, E3, E4, E5.
  destruct (zsum ks =? 0) eqn:Ez; [ apply Z.eqb_eq in Ez; lia | ].
  rewrite Enum.
  remember (pairs11 ks) as A. remember (pairs10 ks n) as C.
  remember (zsum ks) as S. remember (zdot ks ks) as Q.
  remember (2 ^ 51) as B51. remember (2 ^ 52) as B52. remember (2 ^ 53) as B53.
  remember (2 ^ 63) as B63.
  assert (HA : 0 <= A < B51) by lia.
  rewrite Z2f_half by (subst B52; lia).
  rewrite Z2f_add by (subst B53; lia).
  rewrite Z2f_sub by (subst B53; lia).
  rewrite Eden.
  split; [ reflexivity | ]. lia.
Qed.

Lemma isim_exact ks n : 2 <= n -> counts_ok ks n -> 0 < zsum ks -> n * zsum ks < 2^52 ->
  0 < pairs11 ks + pairs10 ks n /\
  is_finite (Prim2B (isim_f ks n)) = true /\
  B2R (Prim2B (isim_f ks n)) =
    rnd64 (IZR (pairs11 ks) / IZR (pairs11 ks + pairs10 ks n))%R.
Proof.
  intros Hn Hok Hs Hb.
  destruct (isim_quot ks n Hn Hok Hs Hb) as (E & HA & HD).
  assert (P2 : 2 ^ 51 < 2 ^ 53) by reflexivity.
  assert (P3 : 2 ^ 52 < 2 ^ 53) by reflexivity.
  remember (2 ^ 51) as B51. remember (2 ^ 52) as B52.
  destruct (div_spec_int (pairs11 ks) (pairs11 ks + pairs10 ks n)) as (F & R & _);
    [ lia | lia | ].
  rewrite E. split; [ lia | split; [ exact F | exact R ] ].
Qed.

(* ------------------------------------------------------------------ *)
(* 6. Order invariance                                                 *)
(* ------------------------------------------------------------------ *)

Lemma zsum_perm : forall l l', Permutation l l' -> zsum l = zsum l'.
Proof.
  induction 1 as [| x l l' _ IH | x y l | l l' l'' _ IH1 _ IH2].
  - reflexivity.
  - rewrite !zsum_cons', IH. reflexivity.
  - rewrite !zsum_cons'. lia.
  - congruence.
Qed.

Lemma zdot_self_perm : forall l l', Permutation l l' -> zdot l l = zdot l' l'.
Proof.
  intros l l' H. rewrite !zdot_self_sum. apply zsum_perm. apply Permutation_map. exact H.
Qed.

Lemma isim_perm_cols ks ks' n : Permutation ks ks' -> isim_f ks n = isim_f ks' n.
Proof.
  intros H. unfold isim_f.
  assert (Hw : Permutation (map wrap64 ks) (map wrap64 ks')) by (apply Permutation_map; exact H).
  rewrite (zsum_perm _ _ Hw), (zdot_self_perm _ _ Hw). reflexivity.
Qed.

Definition colstep (acc : list Z) (f : fpv) : list Z := map2 Z.add acc (map b2z f).

Lemma colsum_fold : forall nf rows, colsum nf rows = fold_left colstep rows (repeat 0 nf).
Proof. reflexivity. Qed.

Lemma map2_add_swap : forall acc a b : list Z,
  map2 Z.add (map2 Z.add acc a) b = map2 Z.add (map2 Z.add acc b) a.
Proof.
  induction acc as [|x acc IH]; intros [|y a] [|z b]; cbn [map2]; try reflexivity.
  rewrite IH. f_equal. lia.
Qed.

Lemma colstep_swap : forall acc r1 r2,
  colstep (colstep acc r1) r2 = colstep (colstep acc r2) r1.
Proof. intros. unfold colstep. apply map2_add_swap. Qed.

Lemma fold_colstep_perm : forall rows rows', Permutation rows rows' ->
  forall acc, fold_left colstep rows acc = fold_left colstep rows' acc.
Proof.
  induction 1 as [| x l l' _ IH | x y l | l l' l'' _ IH1 _ IH2]; intros acc.
  - reflexivity.
  - cbn [fold_left]. apply IH.
  - cbn [fold_left]. rewrite colstep_swap. reflexivity.
  - rewrite IH1. apply IH2.
Qed.

(* holds for arbitrary rows: map2 truncates uniformly *)
Lemma colsum_perm_gen nf rows rows' :
  Permutation rows rows' -> colsum nf rows' = colsum nf rows.
Proof. intros H. rewrite !colsum_fold. symmetry. apply fold_colstep_perm. exact H. Qed.

Lemma colsum_perm_rows nf rows rows' :
  (forall r, In r rows -> length r = nf) -> Permutation rows rows' ->
  colsum nf rows' = colsum nf rows.
Proof. intros _ H. apply colsum_perm_gen. exact H. Qed.

(* ------------------------------------------------------------------ *)
(* colsum structure                                                    *)
(* ------------------------------------------------------------------ *)

Lemma map2_len_eq : forall (A B C : Type) (f : A -> B -> C) a b,
  length a = length b -> length (map2 f a b) = length a.
Proof.
  induction a as [|x a IH]; intros [|y b] H; try discriminate; [reflexivity|].
  cbn [map2 length]. f_equal. apply IH. now injection H.
Qed.

Lemma fold_colstep_length : forall nf rows acc,
  (forall r, In r rows -> length r = nf) -> length acc = nf ->
  length (fold_left colstep rows acc) = nf.
Proof.
  induction rows as [|r rows IH]; intros acc Hr Ha; [exact Ha|].
  cbn [fold_left]. apply IH.
  - intros r' Hin. apply Hr. right. exact Hin.
  - unfold colstep. rewrite map2_len_eq; [exact Ha|].
    rewrite map_length, Ha. symmetry. apply Hr. left. reflexivity.
Qed.

Lemma colsum_length : forall nf rows, (forall r, In r rows -> length r = nf) ->
  length (colsum nf rows) = nf.
Proof.
  intros nf rows H. rewrite colsum_fold. apply fold_colstep_length; [exact H|].
  apply repeat_length.
Qed.

Lemma colsum_snoc : forall nf rows r,
  colsum nf (rows ++ [r]) = map2 Z.add (colsum nf rows) (map b2z r).
Proof. intros. rewrite !colsum_fold, fold_left_app. reflexivity. Qed.

Lemma map2_add_sub : forall a b : list Z, length a = length b ->
  map2 Z.sub (map2 Z.add a b) b = a.
Proof.
  induction a as [|x a IH]; intros [|y b] H; try discriminate; [reflexivity|].
  cbn [map2]. rewrite IH by now injection H. f_equal. lia.
Qed.

Lemma map2_add_zero : forall (b : list Z), map2 Z.add (repeat 0 (length b)) b = b.
Proof. induction b as [|y b IH]; [reflexivity|]. cbn [length repeat map2]. rewrite IH. reflexivity. Qed.

(* ------------------------------------------------------------------ *)
(* 7. Complementary similarity                                         *)
(* ------------------------------------------------------------------ *)

Lemma rows_split : forall (A : Type) (d : A) i (rows : list A), (i < length rows)%nat ->
  rows = firstn i rows ++ nth i rows d :: skipn (S i) rows.
Proof.
  intros A d. induction i as [|i IH]; intros [|r rows] H; cbn [length] in H; try lia.
  - reflexivity.
  - cbn [firstn nth skipn app]. f_equal. apply IH. lia.
Qed.

Lemma nth_map_lt : forall (A B : Type) (f : A -> B) l i d d',
  (i < length l)%nat -> nth i (map f l) d = f (nth i l d').
Proof.
  intros A B f. induction l as [|x l IH]; intros i d d' H; cbn [length] in H; [lia|].
  destruct i as [|i]; [reflexivity|]. cbn [map nth]. apply IH. lia.
Qed.

Lemma compl_isim_unfold nf rows : 2 <= zlen rows - 1 ->
  compl_isim nf rows =
  map (fun r => isim_f (map2 Z.sub (colsum nf rows) (map b2z r)) (zlen rows - 1)) rows.
Proof.
  intros H. unfold compl_isim. cbv zeta.
  destruct (zlen rows - 1 <? 2) eqn:E; [ apply Z.ltb_lt in E; lia | reflexivity ].
Qed.

Lemma compl_isim_spec nf rows i :
  (forall r, In r rows -> length r = nf) -> (3 <= length rows)%nat -> (i < length rows)%nat ->
  nth i (compl_isim nf rows) 0%float =
  isim_f (colsum nf (firstn i rows ++ skipn (S i) rows)) (Z.of_nat (length rows) - 1).
Proof.
  intros Hr H3 Hi.
  rewrite compl_isim_unfold by (unfold zlen, fpv; lia).
  rewrite (nth_map_lt _ _ _ rows i 0%float [] Hi).
  unfold zlen. f_equal.
  pose proof (rows_split (list bool) [] i rows Hi) as Esplit.
  set (ri := nth i rows []) in *.
  set (others := firstn i rows ++ skipn (S i) rows).
  assert (Hperm : Permutation rows (others ++ [ri])).
  { rewrite Esplit at 1. unfold others. rewrite <- app_assoc.
    apply Permutation_app_head. apply Permutation_cons_append. }
  rewrite <- (colsum_perm_gen nf rows (others ++ [ri]) Hperm).
  rewrite colsum_snoc.
  apply map2_add_sub.
  rewrite map_length, colsum_length.
  - symmetry. apply Hr. unfold ri. apply nth_In. exact Hi.
  - intros r Hin. apply Hr. unfold others in Hin.
    apply in_app_or in Hin. destruct Hin as [Hin | Hin].
    + rewrite <- (firstn_skipn i rows). apply in_or_app. left. exact Hin.
    + rewrite <- (firstn_skipn (S i) rows). apply in_or_app. right. exact Hin.
Qed.

(* ------------------------------------------------------------------ *)
(* 5. Two fingerprints                                                 *)
(* ------------------------------------------------------------------ *)

Definition two_cols (x y : fpv) : list Z := map2 Z.add (map b2z x) (map b2z y).

Lemma colsum_two : forall nf x y, length x = nf -> length y = nf ->
  colsum nf [x; y] = two_cols x y.
Proof.
  intros nf x y Hx Hy. unfold colsum. cbn [fold_left].
  rewrite <- Hx, <- (map_length b2z x), map2_add_zero. reflexivity.
Qed.

Lemma two_cols_cons : forall a x b y,
  two_cols (a :: x) (b :: y) = (b2z a + b2z b) :: two_cols x y.
Proof. reflexivity. Qed.

Lemma bit_choose2 : forall a b : bool,
  (b2z a + b2z b) * (b2z a + b2z b - 1) / 2 = b2z (a && b).
Proof. intros [|] [|]; reflexivity. Qed.

Lemma bit_split : forall a b : bool,
  (b2z a + b2z b) * (2 - (b2z a + b2z b)) = b2z (a || b) - b2z (a && b).
Proof. intros [|] [|]; reflexivity. Qed.

Lemma two_cols_facts : forall x y, length x = length y ->
  counts_ok (two_cols x y) 2 /\
  zsum (two_cols x y) = card x + card y /\
  pairs11 (two_cols x y) = card (andv x y) /\
  pairs10 (two_cols x y) 2 = card (map2 orb x y) - card (andv x y).
Proof.
  unfold andv.
  induction x as [|a x IH]; intros [|b y] H; try discriminate.
  - repeat split. constructor.
  - injection H as H. destruct (IH y H) as (I1 & I2 & I3 & I4).
    rewrite two_cols_cons, zsum_cons', pairs11_cons, pairs10_cons.
    rewrite bit_choose2, bit_split, I2, I3, I4.
    cbn [map2 card].
    repeat split; try lia.
    constructor; [ destruct a, b; cbn [b2z]; lia | exact I1 ].
Qed.

Lemma isim_two nf x y : length x = nf -> length y = nf -> Z.of_nat nf < 2^50 ->
  0 < card (map2 orb x y) -> isim_f (colsum nf [x; y]) 2 = sim x y.
Proof.
  intros Hx Hy Hnf Hpos.
  rewrite (colsum_two nf x y Hx Hy).
  assert (Hxy : length x = length y) by congruence.
  destruct (two_cols_facts x y Hxy) as (Hok & Hs & H11 & H10).
  pose proof (BB.Proofs.FloatFacts.card_range x) as Cx.
  pose proof (BB.Proofs.FloatFacts.card_range y) as Cy.
  pose proof (card_andv_le_l x y) as Al.
  pose proof (card_andv_le_r x y) as Ar.
  pose proof (card_andv_nonneg x y) as A0.
  assert (Hie : card (map2 orb x y) = card x + card y - card (andv x y)).
  { clear - Hxy. unfold andv. revert y Hxy.
    induction x as [|a x IH]; intros [|b y] H; try discriminate;
      cbn [map2 card]; [lia|].
    injection H as H. specialize (IH y H).
    destruct a, b; cbn [orb andb b2z]; lia. }
  assert (P : 2 ^ 52 = 4 * 2 ^ 50) by reflexivity.
  remember (2 ^ 50) as B50. remember (2 ^ 52) as B52.
  destruct (isim_quot (two_cols x y) 2) as (E & _ & _).
  - lia.
  - exact Hok.
  - rewrite Hs. lia.
  - rewrite Hs, <- HeqB52. rewrite Hx, Hy in *. lia.
  - rewrite E, H11, H10. unfold sim, tanimoto_f.
    rewrite Z.max_l by lia.
    replace (card (andv x y) + (card (map2 orb x y) - card (andv x y)))
      with (card x + card y - card (andv x y)) by lia.
    reflexivity.
Qed.

(* ------------------------------------------------------------------ *)
(* 8. Radius                                                           *)
(* ------------------------------------------------------------------ *)

Lemma radius_compl_unfold ls n :
  radius_compl_f ls n =
  ((isim_f (map2 (fun a b => wrap64 (wrap64 a + wrap64 b)) ls (centroid_vals ls n)) (n+1)
      * Zs2f (n+1) - isim_f ls n * Zs2f (n-1)) / 2)%float.
Proof. reflexivity. Qed.

Print Assumptions isim_num_id.
Print Assumptions isim_den_id.
Print Assumptions isim_nowrap.
Print Assumptions isim_zero.
Print Assumptions isim_quot.
Print Assumptions isim_exact.
Print Assumptions isim_two.
Print Assumptions isim_perm_cols.
Print Assumptions colsum_perm_rows.
Print Assumptions compl_isim_spec.
Print Assumptions radius_compl_unfold.
