(* GenTieReset.v — BitBirch.reset of the source (Gen/GReset.v, regenerated on every run) writes none of
   the attributes the merge configuration lives in, and clears the root and the fitted-fingerprint
   counter: the source-side counterpart of Model/Birch.v's `reset_st st = init (cfg st)` (C17). *)
From Coq Require Import String List Bool.
From BB Require Import Gen.GReset.
Import ListNotations.
Open Scope string_scope.

Definition mem (a : string) (l : list string) : bool := existsb (String.eqb a) l.
Lemma mem_In a l : mem a l = true <-> In a l.
Proof.
  unfold mem. rewrite existsb_exists. split.
  - intros (x & Hx & E). apply String.eqb_eq in E. subst. exact Hx.
  - intros H. exists a. split; [exact H | apply String.eqb_refl].
Qed.

(* reset() writes no attribute that set_merge() writes *)
Lemma reset_spares_config : forall a, In a reset_writes -> ~ In a config_attrs.
Proof.
  assert (H : forallb (fun a => negb (mem a config_attrs)) reset_writes = true) by (vm_compute; reflexivity).
  rewrite forallb_forall in H. intros a Ha Hc. specialize (H a Ha).
  apply mem_In in Hc. rewrite Hc in H. discriminate.
Qed.

(* the configuration of the source lives exactly in the three fields of Model's `config` record
   (c_crit, c_thr, c_bf) *)
Lemma config_attrs_are_the_model_fields :
  forall a, In a config_attrs <-> In a ["_merge_accept_fn"; "threshold"; "branching_factor"].
Proof.
  intros a. rewrite <- !mem_In.
  assert (H : forallb (fun a => mem a ["_merge_accept_fn"; "threshold"; "branching_factor"]) config_attrs = true
              /\ forallb (fun a => mem a config_attrs) ["_merge_accept_fn"; "threshold"; "branching_factor"] = true)
    by (vm_compute; split; reflexivity).
  destruct H as [H1 H2]. rewrite forallb_forall in H1, H2. rewrite !mem_In. split; intros H.
  - apply mem_In. apply H1. exact H.
  - apply mem_In. apply H2. exact H.
Qed.

(* reset() unconditionally drops the tree and zeroes the counter *)
Lemma reset_clears_data :
  In ("_root", "None") reset_clears /\ In ("_num_fitted_fps", "0") reset_clears.
Proof.
  assert (H : existsb (fun p => String.eqb (fst p) "_root" && String.eqb (snd p) "None") reset_clears = true /\
              existsb (fun p => String.eqb (fst p) "_num_fitted_fps" && String.eqb (snd p) "0") reset_clears = true)
    by (vm_compute; split; reflexivity).
  destruct H as [H1 H2]. rewrite existsb_exists in H1, H2.
  destruct H1 as ([a1 b1] & I1 & E1), H2 as ([a2 b2] & I2 & E2). cbn [fst snd] in *.
  apply andb_true_iff in E1, E2. destruct E1 as [E1a E1b], E2 as [E2a E2b].
  apply String.eqb_eq in E1a, E1b, E2a, E2b. subst. split; assumption.
Qed.
