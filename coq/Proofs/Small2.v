(* Small2.v — four small complements.
   A (C04): any number of consecutive fit calls = one fit call on the concatenation; rows have
            to be well-formed in every chunk BUT THE LAST.
   (B, the C15 case table, lives in Proofs/CliTable.v.)
   C (C01): a fit stops exactly at the first bad row.
   D (C03): "last grown" reading of the bound for caller-supplied labels (no [numbered]). *)
From BB Require Import Model.Birch Proofs.ListFacts Proofs.TreeDefs Proofs.TreeRel
     Proofs.TreeShape Proofs.TreeBlocks Proofs.TreeChain Proofs.TreeSums Proofs.TreeBal
     Proofs.BirchDefs Proofs.SimMax Proofs.BirchInv Proofs.BirchRebuild Proofs.BirchBound
     Proofs.BirchBoundG Proofs.BirchLabels Proofs.FitChunks.
From Coq Require Import Lia Permutation.
Open Scope Z_scope.

Section WithExp.
Variable fexp : float -> float.

(* ====================================================================== *)
(* A — n cuts                                                              *)
(* ====================================================================== *)
Definition wf_rows (c : list (option fpv)) : Prop := Forall (fun r => r <> None) c.

(* the sequence of calls fit(c1); fit(c2); ...; fit(cn): final state and the outcome of the
   LAST call (the earlier ones are Ok under the hypotheses below) *)
Fixpoint fit_seq (st : state) (chunks : list (list (option fpv))) : state * outcome :=
  match chunks with
  | [] => (st, Ok)
  | c :: cs =>
      match cs with
      | [] => do_fit fexp st c None
      | _ :: _ => fit_seq (fst (do_fit fexp st c None)) cs
      end
  end.

Lemma removelast_cons2 {A} (x y : A) l : removelast (x :: y :: l) = x :: removelast (y :: l).
Proof. reflexivity. Qed.

Lemma fit_seq_head chunks : forall st xs,
  released st = false -> xs <> [] -> Forall (fun c => c <> []) chunks ->
  Forall wf_rows (removelast (xs :: chunks)) ->
  fit_seq st (xs :: chunks) = do_fit fexp st (xs ++ concat chunks) None.
Proof.
  induction chunks as [|c cs IH]; intros st xs Hrel Hx Hne Hwf.
  - cbn [fit_seq concat]. rewrite app_nil_r. reflexivity.
  - rewrite removelast_cons2 in Hwf.
    pose proof (Forall_inv Hwf) as Wx. pose proof (Forall_inv_tail Hwf) as Wt.
    pose proof (Forall_inv Hne) as Hc. pose proof (Forall_inv_tail Hne) as Hne'.
    pose proof (do_fit_chunks_eq fexp st xs c Hrel Hx Hc Wx) as E.
    assert (E1 : fit_seq st (xs :: c :: cs) = fit_seq st ((xs ++ c) :: cs)).
    { change (fit_seq st (xs :: c :: cs)) with (fit_seq (fst (do_fit fexp st xs None)) (c :: cs)).
      destruct cs as [|c2 cs]; cbn [fit_seq]; rewrite E; reflexivity. }
    rewrite E1. cbn [concat]. rewrite app_assoc.
    apply IH; [exact Hrel| |exact Hne'|].
    + destruct xs; [congruence|discriminate].
    + destruct cs as [|c2 cs]; [constructor|].
      rewrite removelast_cons2 in Wt |- *.
      constructor; [|exact (Forall_inv_tail Wt)].
      apply Forall_app. split; [exact Wx|exact (Forall_inv Wt)].
Qed.

(* state-level n-cut form: final state AND outcome *)
Theorem do_fit_many_chunks st chunks :
  released st = false -> chunks <> [] -> Forall (fun c => c <> []) chunks ->
  Forall wf_rows (removelast chunks) ->
  fit_seq st chunks = do_fit fexp st (concat chunks) None.
Proof.
  intros Hrel Hne Hc Hwf. destruct chunks as [|xs chunks]; [congruence|].
  cbn [concat]. apply fit_seq_head; [exact Hrel|exact (Forall_inv Hc)|exact (Forall_inv_tail Hc)|exact Hwf].
Qed.

(* [fit_seq] is what the operation sequence computes *)
Lemma fit_seq_run_from chunks : forall st,
  fst (fit_seq st chunks) = run_from fexp st (map (fun c => OFit c None) chunks).
Proof.
  induction chunks as [|c cs IH]; intros st; [reflexivity|].
  destruct cs as [|c2 cs]; [reflexivity|].
  change (fit_seq st (c :: c2 :: cs)) with (fit_seq (fst (do_fit fexp st c None)) (c2 :: cs)).
  rewrite IH. reflexivity.
Qed.

Theorem fold_many_chunks st chunks tl :
  released st = false -> chunks <> [] -> Forall (fun c => c <> []) chunks ->
  Forall wf_rows (removelast chunks) ->
  run_from fexp st (map (fun c => OFit c None) chunks ++ tl) =
  run_from fexp st (OFit (concat chunks) None :: tl).
Proof.
  intros Hrel Hne Hc Hwf. unfold run_from at 1. rewrite fold_left_app.
  change (fold_left (fun st o => fst (step fexp st o)) (map (fun c => OFit c None) chunks) st)
    with (run_from fexp st (map (fun c => OFit c None) chunks)).
  rewrite <- fit_seq_run_from, (do_fit_many_chunks st chunks Hrel Hne Hc Hwf). reflexivity.
Qed.

(* C04, n cuts, from the initial state.  Only the chunks before the last one have to consist
   of well-formed rows: a bad row in the last chunk stops both computations at the same row. *)
Theorem run_many_chunks_butlast cfg0 chunks tl :
  chunks <> [] -> Forall (fun c => c <> []) chunks ->
  Forall (Forall (fun r => r <> None)) (removelast chunks) ->
  run fexp cfg0 (map (fun c => OFit c None) chunks ++ tl) =
  run fexp cfg0 (OFit (concat chunks) None :: tl).
Proof. intros Hne Hc Hwf. apply (fold_many_chunks (init cfg0) chunks tl eq_refl Hne Hc Hwf). Qed.

(* the form with all rows well-formed *)
Corollary run_many_chunks_all cfg0 chunks tl :
  chunks <> [] -> Forall (fun c => c <> []) chunks ->
  Forall (Forall (fun r => r <> None)) chunks ->
  run fexp cfg0 (map (fun c => OFit c None) chunks ++ tl) =
  run fexp cfg0 (OFit (concat chunks) None :: tl).
Proof.
  intros Hne Hc Hwf. apply run_many_chunks_butlast; [exact Hne|exact Hc|].
  apply Forall_forall. intros c Hin. rewrite Forall_forall in Hwf. apply Hwf.
  clear -Hin. induction chunks as [|a [|b l] IH]; cbn in Hin; [tauto|tauto|].
  destruct Hin as [->|Hin]; [left; reflexivity|right; apply IH, Hin].
Qed.

(* the hypothesis on the earlier chunks cannot be dropped: a bad row in the first chunk stops
   the first call only, the second call still inserts its rows *)
Lemma chunks_need_wf cfg0 :
  exists xs ys : list (option fpv), xs <> [] /\ ys <> [] /\
    nfit (run fexp cfg0 [OFit xs None; OFit ys None]) = 1 /\
    nfit (run fexp cfg0 [OFit (xs ++ ys) None]) = 0.
Proof.
  exists [None], [Some []].
  split; [discriminate|split; [discriminate|split; vm_compute; reflexivity]].
Qed.

(* ====================================================================== *)
(* C — a fit stops exactly at the first bad row                            *)
(* ====================================================================== *)
(* number of leading good rows = index of the first bad row (or the length) *)
Fixpoint first_bad (rows : list (option fpv)) : nat :=
  match rows with
  | Some _ :: tl => S (first_bad tl)
  | _ => O
  end.

Lemma first_bad_le rows : (first_bad rows <= length rows)%nat.
Proof. induction rows as [|[fp|] rows IH]; cbn [first_bad length]; lia. Qed.

Lemma first_bad_prefix_good rows : Forall (fun r => r <> None) (firstn (first_bad rows) rows).
Proof.
  induction rows as [|[fp|] rows IH]; cbn [first_bad firstn]; constructor; [discriminate|exact IH].
Qed.

Lemma first_bad_all rows :
  first_bad rows = length rows <-> Forall (fun r => r <> None) rows.
Proof.
  induction rows as [|[fp|] rows IH]; cbn [first_bad length].
  - split; [constructor|reflexivity].
  - split.
    + intros E. constructor; [discriminate|]. apply IH. lia.
    + intros F. f_equal. apply IH. exact (Forall_inv_tail F).
  - split; [discriminate|]. intros F. exfalso. exact (Forall_inv F eq_refl).
Qed.

(* the row at the index [first_bad rows], when there is one, is a bad row *)
Lemma first_bad_nth rows :
  (first_bad rows < length rows)%nat -> nth_error rows (first_bad rows) = Some None.
Proof.
  induction rows as [|[fp|] rows IH]; cbn [first_bad length nth_error]; intros Hl.
  - lia.
  - apply IH. lia.
  - reflexivity.
Qed.

(* the loop = the loop on the good prefix; Ok iff there was no bad row.  Purely structural:
   no invariant is needed.  With fewer labels than rows the loop would stop silently at the
   end of the labels, hence [length rows <= length labs]. *)
Lemma fit_rows_first_bad cf rows : forall st labs,
  (length rows <= length labs)%nat ->
  fit_rows fexp cf st rows labs =
  (fst (fit_rows fexp cf st (firstn (first_bad rows) rows) (firstn (first_bad rows) labs)),
   if Nat.eqb (first_bad rows) (length rows) then Ok else Err).
Proof.
  induction rows as [|[fp|] rows IH]; intros st labs Hl.
  - reflexivity.
  - destruct labs as [|l labs]; [cbn [length] in Hl; lia|].
    cbn [first_bad firstn fit_rows length Nat.eqb]. apply IH. cbn [length] in Hl. lia.
  - destruct labs as [|l labs]; [cbn [length] in Hl; lia|]. reflexivity.
Qed.

(* insertion itself never fails in the model once the tree is initialised ([insert_st] is
   total); the count bound [nfit st + first_bad rows < 2^64] (implied by the bound of [op_wf])
   is what the invariant lemmas need to exclude the uint64 overflow of the counts. *)
Theorem fit_rows_stops_at_first_bad_gen cf rows st labs st' out :
  st_inv st -> root st <> None -> 2 <= c_bf cf ->
  Forall (row_ok (nfeat st)) (firstn (first_bad rows) rows) ->
  nfit st + Z.of_nat (first_bad rows) < 2 ^ 64 ->
  (length rows <= length labs)%nat ->
  fit_rows fexp cf st rows labs = (st', out) ->
  st_inv st' /\ cfg st' = cfg st /\ nfeat st' = nfeat st /\ released st' = released st /\
  root st' <> None /\
  nfit st' = nfit st + Z.of_nat (first_bad rows) /\
  Permutation (mem_ids st') (mem_ids st ++ firstn (first_bad rows) labs) /\
  (out = Ok <-> first_bad rows = length rows) /\
  (out = Err <-> nth_error rows (first_bad rows) = Some None).
Proof.
  intros Hinv Hr Hbf Hrows Hb Hl Hf.
  rewrite (fit_rows_first_bad cf rows st labs Hl) in Hf.
  set (k := first_bad rows) in *.
  pose proof (first_bad_le rows) as Hk. fold k in Hk.
  assert (Lr : length (firstn k rows) = k) by (apply firstn_length_le; exact Hk).
  assert (Ll : length (firstn k labs) = k) by (apply firstn_length_le; lia).
  destruct (fit_rows fexp cf st (firstn k rows) (firstn k labs)) as [st1 out1] eqn:Hf1.
  cbn [fst] in Hf. injection Hf as <- <-.
  assert (Hb1 : nfit st + zlen (firstn k rows) < 2 ^ 64) by (unfold zlen; rewrite Lr; exact Hb).
  destruct (fit_rows_inv fexp cf (firstn k rows) st (firstn k labs) Hinv Hr Hbf Hrows Hb1
              st1 out1 Hf1) as (J1 & J2 & J3 & J4 & J5 & _ & k0 & K1 & K2 & K3 & K4 & K5).
  destruct (K5 (first_bad_prefix_good rows) ltac:(congruence)) as (E0 & _).
  rewrite Lr in E0. subst k0.
  rewrite firstn_firstn, Nat.min_id in K4.
  refine (conj J1 (conj J2 (conj J3 (conj J4 (conj J5 (conj K3 (conj K4 (conj _ _)))))))).
  - destruct (Nat.eqb_spec k (length rows)) as [E|E]; split; intros; congruence.
  - destruct (Nat.eqb_spec k (length rows)) as [E|E].
    + split; [discriminate|]. intros Hn. exfalso.
      assert (Hlt : (k < length rows)%nat) by (apply nth_error_Some; congruence). lia.
    + split; [intros _|reflexivity]. apply first_bad_nth. fold k. lia.
Qed.

(* with the very hypotheses of [fit_rows_inv] *)
Theorem fit_rows_stops_at_first_bad cf rows st labs :
  st_inv st -> root st <> None -> 2 <= c_bf cf ->
  Forall (row_ok (nfeat st)) rows -> nfit st + zlen rows < 2 ^ 64 ->
  (length rows <= length labs)%nat ->
  let (st', out) := fit_rows fexp cf st rows labs in
  nfit st' = nfit st + Z.of_nat (first_bad rows) /\
  Permutation (mem_ids st') (mem_ids st ++ firstn (first_bad rows) labs) /\
  (out = Ok <-> first_bad rows = length rows).
Proof.
  intros Hinv Hr Hbf Hrows Hb Hl.
  destruct (fit_rows fexp cf st rows labs) as [st' out] eqn:Hf.
  pose proof (first_bad_le rows) as Hk.
  assert (Hrows' : Forall (row_ok (nfeat st)) (firstn (first_bad rows) rows)).
  { rewrite <- (firstn_skipn (first_bad rows) rows) in Hrows.
    apply Forall_app in Hrows. exact (proj1 Hrows). }
  assert (Hb' : nfit st + Z.of_nat (first_bad rows) < 2 ^ 64) by (unfold zlen in Hb; lia).
  destruct (fit_rows_stops_at_first_bad_gen cf rows st labs st' out Hinv Hr Hbf Hrows' Hb' Hl Hf)
    as (_ & _ & _ & _ & _ & A & B & C & _).
  auto.
Qed.

(* without labels to spare the statement is false: the loop also stops, with Ok, when the
   labels run out *)
Lemma fit_rows_short_labels cf st (fp : fpv) :
  fit_rows fexp cf st [Some fp; None] [] = (st, Ok) /\ first_bad [Some fp; None] = 1%nat.
Proof. split; reflexivity. Qed.

(* the same at the level of one fit call, default or caller-supplied labels *)
Theorem do_fit_stops_at_first_bad st rows labels st' out :
  st_inv st -> nf_ok st -> op_wf_l st (OFit rows labels) ->
  released st = false -> rows <> [] ->
  do_fit fexp st rows labels = (st', out) ->
  st_inv st' /\
  nfit st' = nfit st + Z.of_nat (first_bad rows) /\
  Permutation (mem_ids st') (mem_ids st ++ firstn (first_bad rows) (fit_labels st rows labels)) /\
  (out = Ok <-> first_bad rows = length rows).
Proof.
  intros Hinv Hnf (Hlab & Hrows & Hb) Hrel Hne Hf.
  pose proof (fit_labels_length st rows labels Hlab) as Hlen.
  unfold do_fit in Hf.
  destruct rows as [|r0 rows]; [congruence|]. rewrite Hrel in Hf. cbv zeta in Hf.
  rewrite (fit_labels_do_fit st r0 rows labels) in Hf.
  remember (fit_labels st (r0 :: rows) labels) as labs eqn:Elabs.
  assert (Hl : (length (r0 :: rows) <= length labs)%nat) by lia.
  pose proof (first_bad_le (r0 :: rows)) as Hk.
  assert (Hpre : forall nf, Forall (row_ok nf) (r0 :: rows) ->
             Forall (row_ok nf) (firstn (first_bad (r0 :: rows)) (r0 :: rows))).
  { intros nf F. rewrite <- (firstn_skipn (first_bad (r0 :: rows)) (r0 :: rows)) in F.
    apply Forall_app in F. exact (proj1 F). }
  unfold is_init in Hf.
  destruct (root st) as [r|] eqn:Er.
  - assert (Hr : root st <> None) by congruence.
    destruct (fit_rows_stops_at_first_bad_gen (cfg st) (r0 :: rows) st labs st' out Hinv Hr
                (proj1 Hinv) (Hpre _ Hrows) ltac:(unfold zlen in Hb; lia) Hl Hf)
      as (A & _ & _ & _ & _ & B & C & D & _).
    auto.
  - pose proof Hinv as (Hbf & Hinv'). rewrite Er in Hinv'. destruct Hinv' as (Hn0 & _).
    assert (Em : mem_ids st = []) by (unfold mem_ids; rewrite Er; reflexivity).
    destruct r0 as [fp|].
    + destruct Hrows as (Hrows & Hfp).
      pose proof (initialize_inv st (length fp) Hinv Er Hfp) as I1.
      remember (initialize st (length fp)) as st1 eqn:Est1.
      assert (E1 : nfit st1 = nfit st) by (subst st1; reflexivity).
      assert (E2 : nfeat st1 = length fp) by (subst st1; reflexivity).
      assert (E3 : root st1 <> None) by (subst st1; discriminate).
      assert (E4 : mem_ids st1 = []) by (subst st1; reflexivity).
      assert (E5 : cfg st1 = cfg st) by (subst st1; reflexivity).
      rewrite <- E2 in Hrows. rewrite <- E1 in Hb.
      assert (Hbf1 : 2 <= c_bf (cfg st1)) by (rewrite E5; exact Hbf).
      destruct (fit_rows_stops_at_first_bad_gen (cfg st1) (Some fp :: rows) st1 labs st' out I1 E3
                  Hbf1 (Hpre _ Hrows) ltac:(unfold zlen in Hb; lia) Hl Hf)
        as (A & _ & _ & _ & _ & B & C & D & _).
      rewrite E1 in B. rewrite E4 in C. rewrite Em. auto.
    + pose proof (initialize_inv st (nfeat st) Hinv Er Hnf) as I1.
      destruct labs as [|l0 labs]; [cbn [length] in Hl; lia|].
      cbn [fit_rows] in Hf. injection Hf as <- <-.
      cbn [first_bad firstn length]. rewrite app_nil_r, Z.add_0_r, Em.
      refine (conj I1 (conj eq_refl (conj (Permutation_refl _) _))).
      split; discriminate.
Qed.

(* ====================================================================== *)
(* D — C03 ("last grown") for caller-supplied labels                       *)
(* ====================================================================== *)
(* In BirchBoundG.v [numbered] enters in two places only: [recluster_loop_gb] calls
   [rebuild_leaves] (which carries [numbered] along), and [step_grown] / [run_from_last_grown]
   get the invariant of the next state from [step_inv_alt].  Nothing in the bound itself
   depends on the labels.  Here the two are replaced by [rebuild_leaves_l] and
   [step_labels_inv] of BirchLabels.v; the generic lemmas [*_gb] are reused as they are. *)
Section GL.
Variable B : sub -> Prop.
Hypothesis B_single : forall s, sn s <= 1 -> B s.

Lemma do_fit_gb_l H st rows labels :
  st_inv st -> nf_ok st -> op_wf_l st (OFit rows labels) ->
  In (cfg_pair st) H -> gleaves B H st ->
  gleaves B H (fst (do_fit fexp st rows labels)).
Proof.
  intros Hinv Hnf (_ & Hrows & Hb) Hin HL. unfold do_fit.
  destruct rows as [|r0 rows]; [exact HL|].
  destruct (released st) eqn:Erel; [exact HL|].
  cbv zeta. unfold is_init.
  destruct (root st) as [r|] eqn:Er.
  - assert (Hr : root st <> None) by congruence.
    exact (fit_rows_gb fexp B B_single H (cfg st) (r0 :: rows) st _ Hinv Hr (proj1 Hinv)
             Hrows Hb Hin HL).
  - destruct r0 as [fp|].
    + destruct Hrows as (Hrows & Hfp).
      pose proof (initialize_inv st (length fp) Hinv Er Hfp) as I1.
      pose proof (initialize_gb B H st (length fp)) as HL1.
      remember (initialize st (length fp)) as st1 eqn:Est1.
      assert (E1 : nfit st1 = nfit st) by (subst st1; reflexivity).
      assert (E2 : nfeat st1 = length fp) by (subst st1; reflexivity).
      assert (E3 : root st1 <> None) by (subst st1; discriminate).
      assert (E5 : cfg st1 = cfg st) by (subst st1; reflexivity).
      rewrite <- E2 in Hrows. rewrite <- E1 in Hb.
      assert (Hbf1 : 2 <= c_bf (cfg st1)) by (rewrite E5; exact (proj1 Hinv)).
      assert (Hin1 : In (c_crit (cfg st1), c_thr (cfg st1)) H) by (rewrite E5; exact Hin).
      exact (fit_rows_gb fexp B B_single H (cfg st1) (Some fp :: rows) st1 _ I1 E3 Hbf1
               Hrows Hb Hin1 HL1).
    + match goal with |- context [fit_rows _ _ _ _ ?l] => generalize l end.
      intros labs. destruct labs; cbn [fit_rows fst]; apply initialize_gb.
Qed.

Lemma recluster_loop_gb_l H iters : forall st extra perms se before,
  st_inv st -> nf_ok st -> perms_fit fexp iters st extra perms se before ->
  gleaves B H st ->
  incl (rec_pairs iters (c_crit (cfg st)) (c_thr (cfg st)) extra) H ->
  gleaves B H (fst (recluster_loop fexp iters st extra perms se before)).
Proof.
  induction iters as [|k IH]; intros st extra perms se before Hinv Hnf Hpf HL Hin.
  - cbn [recluster_loop fst]. exact HL.
  - cbn [recluster_loop perms_fit rec_pairs] in *.
    destruct (se && ((count_singletons (sorted_leaves st) =? 0)
                     || (count_singletons (sorted_leaves st) =? before))).
    + cbn [fst]. exact HL.
    + assert (Hin0 : In (c_crit (cfg st), (c_thr (cfg st) + extra)%float) H)
        by (apply Hin; left; reflexivity).
      assert (Hin' : incl (rec_pairs k (c_crit (cfg st)) (c_thr (cfg st) + extra)%float extra) H)
        by (intros x Hx; apply Hin; right; exact Hx).
      destruct perms as [|p ps].
      * destruct (rebuild_leaves_l fexp st (c_thr (cfg st) + extra)%float (sorted_leaves st)
                                   Hinv Hnf (Permutation_refl _))
          as (st2 & F & K1 & K2 & _).
        pose proof (rebuild_gleaves fexp B H st (c_thr (cfg st) + extra)%float (sorted_leaves st)
                      Hinv Hnf (Permutation_refl _) HL Hin0) as HL2.
        pose proof (fit_groups_cfg fexp (prepare_groups (sorted_leaves st))
                      (set_thr (reset_st st) (c_thr (cfg st) + extra)%float)) as Ec.
        rewrite F in HL2, Ec |- *. cbn [fst] in HL2, Ec.
        apply (IH st2 extra [] se (count_singletons (sorted_leaves st)) K1 K2
                  (perms_fit_nil fexp _ _ _ _ _) HL2).
        rewrite Ec. unfold set_thr. cbn [cfg c_crit c_thr]. exact Hin'.
      * destruct Hpf as (Hp & Hpf).
        destruct (rebuild_leaves_l fexp st (c_thr (cfg st) + extra)%float
                                   (permute (sorted_leaves st) p)
                                   Hinv Hnf (permute_perm _ _ Hp))
          as (st2 & F & K1 & K2 & _).
        pose proof (rebuild_gleaves fexp B H st (c_thr (cfg st) + extra)%float
                      (permute (sorted_leaves st) p)
                      Hinv Hnf (permute_perm _ _ Hp) HL Hin0) as HL2.
        pose proof (fit_groups_cfg fexp (prepare_groups (permute (sorted_leaves st) p))
                      (set_thr (reset_st st) (c_thr (cfg st) + extra)%float)) as Ec.
        rewrite F in Hpf, HL2, Ec |- *. cbn [fst] in HL2, Ec.
        apply (IH st2 extra ps se (count_singletons (sorted_leaves st)) K1 K2 Hpf HL2).
        rewrite Ec. unfold set_thr. cbn [cfg c_crit c_thr]. exact Hin'.
Qed.

Lemma do_recluster_gb_l H st iters extra perms se :
  st_inv st -> recluster_perms_ok fexp st iters extra perms se ->
  gleaves B H st ->
  incl (rec_pairs iters (c_crit (cfg st)) (c_thr (cfg st)) extra) H ->
  gleaves B H (fst (do_recluster fexp st iters extra perms se)).
Proof.
  intros Hinv Hpf HL Hin. unfold do_recluster, is_init.
  destruct (root st) as [r|] eqn:Er; cbn [negb fst]; [|exact HL].
  assert (Hnf : nf_ok st) by (apply st_inv_nf_ok; [exact Hinv|congruence]).
  exact (recluster_loop_gb_l H iters st extra perms se 0 Hinv Hnf Hpf HL Hin).
Qed.

Lemma step_gb_l H st o :
  st_inv st -> nf_ok st -> op_wf_l st o -> op_perms_ok fexp st o ->
  gleaves B H st -> incl (op_pairs st o) H ->
  gleaves B H (fst (step fexp st o)).
Proof.
  intros Hinv Hnf Hwf Hp HL Hin.
  destruct o as [rows labels|X im nl|it ex ps se|c t b| |]; cbn [step op_pairs] in *.
  - apply (do_fit_gb_l H st rows labels Hinv Hnf Hwf); [|exact HL]. apply Hin. left. reflexivity.
  - apply (do_refine_gb fexp B B_single H st X im nl Hinv Hwf); [|exact HL].
    apply Hin. left. reflexivity.
  - exact (do_recluster_gb_l H st it ex ps se Hinv Hp HL Hin).
  - cbn [fst]. exact HL.
  - destruct (delete_internal_spec st Hinv) as (_ & _ & D3 & _).
    unfold gleaves in HL |- *. rewrite D3. exact HL.
  - cbn [fst]. exact I.
Qed.
End GL.

(* the invariant of the next state without [numbered] *)
Lemma step_inv_l st o :
  st_inv st -> nf_ok st -> op_wf_l st o -> op_perms_ok fexp st o ->
  st_inv (fst (step fexp st o)) /\ nf_ok (fst (step fexp st o)).
Proof.
  intros Hinv Hnf Hwf Hp.
  destruct (step_labels_inv fexp st o (mem_ids st) Hinv Hnf (Permutation_refl _) Hwf Hp)
    as (A & B & _).
  split; assumption.
Qed.

(* TARGET 1: one step *)
Theorem step_grown_l st o :
  st_inv st -> nf_ok st -> op_wf_l st o -> op_perms_ok fexp st o ->
  Forall (grown_ok (sorted_leaves st) (op_pairs st o)) (sorted_leaves (fst (step fexp st o))).
Proof.
  intros Hinv Hnf Hwf Hp.
  pose (old := sorted_leaves st).
  assert (HL : gleaves (kept old) (op_pairs st o) st).
  { unfold gleaves. destruct (root st) as [r|] eqn:Er; [|exact I].
    apply Forall_forall. intros s Hs. left. right. exists s. split; [|apply same_cluster_refl].
    unfold old. apply (Permutation_in s (Permutation_sym (sorted_leaves_perm st r Hinv Er))).
    exact Hs. }
  pose proof (step_gb_l (kept old) (kept_single old) (op_pairs st o) st o Hinv Hnf Hwf Hp HL
                (incl_refl _)) as HL1.
  destruct (step_inv_l st o Hinv Hnf Hwf Hp) as (Hinv1 & _).
  eapply Forall_impl; [|exact (reported_gb (kept old) _ _ Hinv1 HL1)].
  intros s. apply gbound_kept_grown.
Qed.

Corollary step_grown_lsubs_l st o r r' :
  st_inv st -> nf_ok st -> op_wf_l st o -> op_perms_ok fexp st o ->
  root st = Some r -> root (fst (step fexp st o)) = Some r' ->
  Forall (grown_ok (lsubs r) (op_pairs st o)) (lsubs r').
Proof.
  intros Hinv Hnf Hwf Hp Er Er'.
  destruct (step_inv_l st o Hinv Hnf Hwf Hp) as (Hinv1 & _).
  pose proof (step_grown_l st o Hinv Hnf Hwf Hp) as HG.
  apply (Forall_perm _ _ _ (sorted_leaves_perm _ r' Hinv1 Er')) in HG.
  eapply Forall_impl; [|exact HG]. cbv beta.
  intros s [Hs|[(s0 & Hin & Hsc)|Hm]]; [left; exact Hs| |right; right; exact Hm].
  right. left. exists s0. split; [|exact Hsc].
  exact (Permutation_in s0 (sorted_leaves_perm st r Hinv Er) Hin).
Qed.

(* the plain reading of C03 for caller-supplied labels follows *)
Corollary step_reported_bound_l H st o :
  st_inv st -> nf_ok st -> op_wf_l st o -> op_perms_ok fexp st o ->
  Forall (bound_ok H) (sorted_leaves st) -> incl (op_pairs st o) H ->
  Forall (bound_ok H) (sorted_leaves (fst (step fexp st o))).
Proof.
  intros Hinv Hnf Hwf Hp Hold Hincl.
  eapply Forall_impl; [|exact (step_grown_l st o Hinv Hnf Hwf Hp)]. cbv beta.
  intros s Hg. exact (grown_bound_ok _ _ H s Hg Hold Hincl).
Qed.

(* TARGET 2: traces *)
Theorem run_from_last_grown_l ops : forall st,
  st_inv st -> nf_ok st -> ops_wf_l fexp st ops -> ops_perms_ok fexp st ops ->
  Forall (last_grown fexp st ops) (sorted_leaves (run_from fexp st ops)).
Proof.
  induction ops as [|o ops IH]; intros st Hinv Hnf Hwf Hp.
  - apply Forall_forall. intros s Hs. right. left. intros post1 post2 E.
    symmetry in E. apply app_eq_nil in E. destruct E as (-> & _).
    exists s. split; [exact Hs|apply same_cluster_refl].
  - destruct Hwf as (W1 & W2). destruct Hp as (P1 & P2).
    destruct (step_inv_l st o Hinv Hnf W1 P1) as (A & A').
    pose proof (step_grown_l st o Hinv Hnf W1 P1) as HG. rewrite Forall_forall in HG.
    rewrite run_from_cons.
    eapply Forall_impl; [|exact (IH _ A A' W2 P2)]. cbv beta.
    intros s [Hs|[Hu|(pre & o' & post & c & t & E & Hin & Hm & Hu)]].
    + left. exact Hs.
    + destruct (Hu [] ops eq_refl) as (s2 & Hin2 & Hsc2). cbn in Hin2.
      destruct (HG s2 Hin2) as [Hs2|[(s0 & Hin0 & Hsc0)|(c & t & Hin & Hm)]].
      * left. destruct Hsc2 as (_ & _ & <-). exact Hs2.
      * right. left. apply (unchanged_cons fexp st o ops s s0 Hin0); [|exact Hu].
        exact (same_cluster_trans _ _ _ Hsc0 Hsc2).
      * right. right. exists [], o, ops, c, t.
        refine (conj eq_refl (conj Hin (conj (meets_same c t s2 s Hsc2 Hm) Hu))).
    + right. right. exists (o :: pre), o', post, c, t. rewrite run_from_cons.
      refine (conj _ (conj Hin (conj Hm Hu))). cbn [app]. rewrite E. reflexivity.
Qed.

Theorem run_last_grown_l cfg0 ops :
  2 <= c_bf cfg0 -> ops_wf_l fexp (init cfg0) ops -> ops_perms_ok fexp (init cfg0) ops ->
  Forall (fun s =>
    sn s <= 1 \/
    exists pre o post st_k c t,
      ops = pre ++ o :: post /\ st_k = run fexp cfg0 pre /\
      In (c, t) (op_pairs st_k o) /\ meets c t s /\
      (exists s1, In s1 (sorted_leaves (fst (step fexp st_k o))) /\ same_cluster s1 s) /\
      (forall post1 post2, post = post1 ++ post2 ->
         exists s2, In s2 (sorted_leaves (run fexp cfg0 (pre ++ o :: post1))) /\
                    same_cluster s2 s))
    (sorted_leaves (run fexp cfg0 ops)).
Proof.
  intros Hbf Hwf Hp. destruct (init_inv cfg0 Hbf) as (A & A' & _).
  rewrite run_run_from.
  eapply Forall_impl; [|exact (run_from_last_grown_l ops (init cfg0) A A' Hwf Hp)]. cbv beta.
  intros s [Hs|[Hu|(pre & o & post & c & t & E & Hin & Hm & Hu)]].
  - left. exact Hs.
  - exfalso. destruct (Hu [] ops eq_refl) as (s2 & Hin2 & _). cbn [run_from fold_left] in Hin2.
    rewrite sorted_leaves_init in Hin2. exact Hin2.
  - right. exists pre, o, post, (run fexp cfg0 pre), c, t.
    refine (conj E (conj eq_refl (conj Hin (conj Hm (conj _ _))))).
    + exact (Hu [] post eq_refl).
    + intros post1 post2 E2. rewrite run_run_from, run_from_app, run_from_cons.
      exact (Hu post1 post2 E2).
Qed.

(* consistency: the default-numbering theorems are instances *)
Corollary step_grown_from_l st o :
  st_inv st -> nf_ok st -> op_wf st o -> op_perms_ok fexp st o ->
  Forall (grown_ok (sorted_leaves st) (op_pairs st o)) (sorted_leaves (fst (step fexp st o))).
Proof. intros Hinv Hnf Hwf. apply step_grown_l; auto. apply op_wf_op_wf_l, Hwf. Qed.

End WithExp.

(* non-vacuity of D: the history of BirchLabels.v with caller-supplied, non-contiguous labels
   (two fits, then a re-clustering with a shuffle) satisfies the hypotheses *)
Example last_grown_l_nonvacuous :
  Forall (fun s =>
    sn s <= 1 \/
    exists pre o post st_k c t,
      lx_ops = pre ++ o :: post /\ st_k = run lx_fexp lx_cfg pre /\
      In (c, t) (op_pairs st_k o) /\ meets c t s /\
      (exists s1, In s1 (sorted_leaves (fst (step lx_fexp st_k o))) /\ same_cluster s1 s) /\
      (forall post1 post2, post = post1 ++ post2 ->
         exists s2, In s2 (sorted_leaves (run lx_fexp lx_cfg (pre ++ o :: post1))) /\
                    same_cluster s2 s))
    (sorted_leaves (run lx_fexp lx_cfg lx_ops)).
Proof.
  destruct labels_nonvacuous as (H1 & H2 & H3 & _).
  exact (run_last_grown_l lx_fexp lx_cfg lx_ops H1 H2 H3).
Qed.
