(* MrTasks.v — property C05, per-task part: what one task of the multi-round workflow reads
   and writes.  A stored (buffer file, index file) pair is seen as a list of sub-clusters;
   "good" = every row is a legal buffer, "aligned" = row k is the exact summary of member
   list k relative to the global data map G.  Same pattern as [cnt_ok] / [data_ok]: the
   estimator-level lemmas of BirchInv / BirchRebuild / BirchData are re-used as they are. *)
From Coq Require Import String.
From BB Require Import Model.Multiround Proofs.ListFacts Proofs.TreeDefs Proofs.TreeRel
     Proofs.TreeShape Proofs.TreeBlocks Proofs.TreeChain Proofs.TreeSums Proofs.TreeBal
     Proofs.BirchDefs Proofs.SimMax Proofs.BirchInv Proofs.BirchRebuild Proofs.BirchData
     Proofs.ConfigFacts.
From Coq Require Import Lia Permutation.
Open Scope Z_scope.

(* ================= definitions ================= *)
(* a stored (buffer file, index file) pair, seen as sub-clusters *)
Definition good_pair (nf : nat) (b i : content) : Prop :=
  exists w g, pair_subs b i = Some (w, g) /\ g <> [] /\ Forall (good_sub nf) g /\
              Forall (fun s => sw s = w) g.
Definition pair_ids (b i : content) : list Z :=
  match i with CIdxs l => List.concat l | _ => [] end.
(* "each buffer is paired with its own member list" *)
Definition pair_aligned (G : Z -> fpv) (nf : nat) (b i : content) : Prop :=
  match b, i with
  | CBufs w rows, CIdxs ids => List.length rows = List.length ids /\
      Forall2 (fun r l => snd r = zlen l /\ fst r = colsum nf (map G l)) rows ids
  | _, _ => False end.

(* ================= P1: write / read round trip ================= *)
Lemma save_read_roundtrip (r : Z) (label : string) nf w g :
  g <> [] -> Forall (good_sub nf) g -> Forall (fun s => sw s = w) g ->
  pair_subs (CBufs w (map (fun s => (sls s, sn s)) g)) (CIdxs (map sids g)) = Some (w, g).
Proof.
  intros _ Hg Hw. unfold pair_subs. do 2 f_equal.
  induction g as [|s g IH]; cbn [map map2]; [reflexivity|].
  pose proof (Forall_inv Hg) as (_ & (_ & _ & _ & Ec) & _).
  pose proof (Forall_inv Hw) as Ew. cbn [fst snd].
  rewrite IH by (eapply Forall_inv_tail; eassumption). f_equal.
  destruct s as [w0 n ls ce ids]. cbn [sw sn sls scent sids] in *. now rewrite <- Ec, Ew.
Qed.

(* ================= small list facts ================= *)
Lemma tot_n_cnt g : Forall cnt_ok g -> tot_n g = zlen (concat (map sids g)).
Proof.
  induction 1 as [|s g Hs _ IH]; [reflexivity|].
  rewrite tot_n_cons. cbn [map concat]. unfold zlen in *. rewrite app_length, IH.
  unfold cnt_ok, zlen in Hs. lia.
Qed.

Lemma ins_asc_z_perm x l : Permutation (ins_asc_z x l) (x :: l).
Proof.
  induction l as [|y l IH]; cbn [ins_asc_z]; [reflexivity|].
  destruct (x <=? y); [reflexivity|].
  etransitivity; [apply perm_skip, IH|]. apply perm_swap.
Qed.
Lemma sort_asc_z_perm l : Permutation (sort_asc_z l) l.
Proof.
  unfold sort_asc_z. induction l as [|x l IH]; cbn [fold_right]; [reflexivity|].
  etransitivity; [apply ins_asc_z_perm|]. now constructor.
Qed.

(* the dtype groups carry pairwise different widths *)
Lemma width_eqb_refl w : width_eqb w w = true.
Proof. destruct w; reflexivity. Qed.
Lemma width_eqb_neq a b : width_eqb a b = false -> a <> b.
Proof. intros H ->. now rewrite width_eqb_refl in H. Qed.

Lemma group_add_fst w x gs :
  map fst (group_add w x gs) = if existsb (width_eqb w) (map fst gs) then map fst gs
                               else (map fst gs ++ [w])%list.
Proof.
  induction gs as [|[w' l] tl IH]; cbn [group_add map fst existsb app]; [reflexivity|].
  destruct (width_eqb w w'); cbn [orb map fst]; [reflexivity|].
  rewrite IH. now destruct (existsb (width_eqb w) (map fst tl)).
Qed.

Lemma group_add_nodup w x gs : NoDup (map fst gs) -> NoDup (map fst (group_add w x gs)).
Proof.
  intros H. rewrite group_add_fst.
  destruct (existsb (width_eqb w) (map fst gs)) eqn:E; [exact H|].
  apply NoDup_rev in H. rewrite <- (rev_involutive (_ ++ _)). apply NoDup_rev.
  rewrite rev_app_distr. cbn [rev app]. constructor; [|exact H].
  rewrite <- in_rev. intros Hin.
  assert (existsb (width_eqb w) (map fst gs) = true).
  { apply existsb_exists. exists w. split; [exact Hin|apply width_eqb_refl]. }
  congruence.
Qed.

Lemma fold_group_add_nodup (f : Tree.sub -> width) l : forall gs,
  NoDup (map fst gs) -> NoDup (map fst (fold_left (fun gs b => group_add (f b) b gs) l gs)).
Proof.
  induction l as [|x l IH]; intros gs H; cbn [fold_left]; [exact H|].
  apply IH, group_add_nodup, H.
Qed.

Lemma prepare_groups_nodup bfs : NoDup (map fst (prepare_groups bfs)).
Proof. unfold prepare_groups. apply (fold_group_add_nodup sw). constructor. Qed.

(* ================= the per-task guarantees ================= *)
Section Tasks.
Variable fexp : float -> float.
Variable G : Z -> fpv.
Variable nf : nat.
Hypothesis Hnf : Z.of_nat nf < 2 ^ 52.

Definition ok_pair (p : content * content) : Prop :=
  good_pair nf (fst p) (snd p) /\ pair_aligned G nf (fst p) (snd p).
Definition ids_of (ps : list (content * content)) : list Z :=
  concat (map (fun p => pair_ids (fst p) (snd p)) ps).

(* ---------- reading pairs ---------- *)
Lemma ok_pair_subs b i :
  ok_pair (b, i) ->
  exists w g, pair_subs b i = Some (w, g) /\ g <> [] /\
    Forall (fun s => good_sub nf s /\ sw s = w) g /\ Forall (data_ok G nf) g /\
    concat (map sids g) = pair_ids b i.
Proof.
  intros ((w & g & Hp & Hne & Hg & Hw) & Ha). cbn [fst snd] in *.
  exists w, g. refine (conj Hp (conj Hne (conj _ _))).
  { rewrite Forall_forall in *. intros s Hs. split; auto. }
  destruct b as [w' rows| | | |]; try discriminate Hp.
  destruct i as [|ids| | |]; try discriminate Hp.
  cbn [pair_subs] in Hp. injection Hp as <- <-. cbn [pair_aligned pair_ids] in *.
  destruct Ha as (_ & Ha). clear Hne Hg Hw.
  induction Ha as [|r l rows ids (H1 & H2) _ IH]; cbn [map2 map concat]; [split; [constructor|reflexivity]|].
  destruct IH as (I1 & I2). split.
  - constructor; [|exact I1]. unfold data_ok. cbn [sls sids]. exact H2.
  - cbn [sids]. now rewrite I2.
Qed.

Lemma pairs_groups pairs :
  Forall ok_pair pairs ->
  exists gs, Forall2 (fun p wg => pair_subs (fst p) (snd p) = Some wg) pairs gs /\
    groups_ok nf gs /\ Forall (data_ok G nf) (gsubs gs) /\
    concat (map sids (gsubs gs)) = ids_of pairs.
Proof.
  induction 1 as [|[b i] pairs Hp _ (gs & F & Gk & Gd & Gi)].
  - exists []. refine (conj (Forall2_nil _) (conj (Forall_nil _) (conj (Forall_nil _) eq_refl))).
  - destruct (ok_pair_subs b i Hp) as (w & g & P1 & P2 & P3 & P4 & P5).
    exists ((w, g) :: gs). refine (conj _ (conj _ (conj _ _))).
    + constructor; [exact P1|exact F].
    + constructor; [cbn [fst snd]; split; assumption|exact Gk].
    + unfold gsubs. cbn [map snd concat]. apply Forall_app. split; assumption.
    + unfold gsubs, ids_of in *. cbn [map snd concat fst]. rewrite map_app, concat_app, Gi, P5.
      reflexivity.
Qed.

Lemma fit_pairs_groups pairs gs : forall st,
  Forall2 (fun p wg => pair_subs (fst p) (snd p) = Some wg) pairs gs ->
  fit_pairs fexp st pairs = fit_groups fexp st gs.
Proof.
  intros st F. revert st. induction F as [|[b i] [w g] pairs gs H _ IH]; intros st; [reflexivity|].
  cbn [fit_pairs fit_groups fst snd] in *. rewrite H.
  destruct (do_fit_buffers fexp st w g) as [st' []]; [apply IH|reflexivity].
Qed.

Lemma groups_ok_cnt gs : groups_ok nf gs -> Forall cnt_ok (gsubs gs).
Proof.
  unfold gsubs. induction 1 as [|[w g] gs (_ & Hg) _ IH]; cbn [map snd concat]; [constructor|].
  apply Forall_app. split; [|exact IH].
  eapply Forall_impl; [|exact Hg]. cbv beta. intros a ((_ & _ & Hq) & _). exact Hq.
Qed.

(* inserting good, aligned pairs: the estimator invariants and the data invariant hold, and
   the members are the old ones plus the ids of the pairs *)
Lemma fit_pairs_spec pairs st :
  st_inv st -> released st = false -> init_for nf st ->
  Forall ok_pair pairs -> nfit st + zlen (ids_of pairs) < 2 ^ 64 ->
  leaves_data G st ->
  exists st', fit_pairs fexp st pairs = (st', Ok) /\
    st_inv st' /\ cfg st' = cfg st /\ released st' = false /\ init_for nf st' /\
    nfit st' = nfit st + zlen (ids_of pairs) /\
    Permutation (mem_ids st') (mem_ids st ++ ids_of pairs) /\
    leaves_data G st'.
Proof.
  intros Hinv Hrel Hinit Hp Hb HL.
  destruct (pairs_groups pairs Hp) as (gs & F & Gk & Gd & Gi).
  rewrite (fit_pairs_groups pairs gs st F).
  assert (Ht : tot_n (gsubs gs) = zlen (ids_of pairs)).
  { rewrite <- Gi. apply tot_n_cnt, groups_ok_cnt, Gk. }
  rewrite <- Ht in Hb.
  destruct (fit_groups_inv fexp nf gs st Hinv Hrel Hinit Hnf Gk Hb)
    as (st' & F' & K1 & K2 & K3 & K4 & K5 & K6 & K7 & _).
  pose proof (fit_groups_data fexp G nf gs st Hinv Hrel Hinit Hnf Gk Hb HL Gd) as HL'.
  rewrite F' in HL'. cbn [fst] in HL'.
  exists st'. rewrite Gi in K7. rewrite Ht in K6. auto 10.
Qed.

(* ---------- writing groups ---------- *)
Definition group_pair (wg : width * list Tree.sub) : content * content :=
  (CBufs (fst wg) (map (fun s => (sls s, sn s)) (snd wg)), CIdxs (map sids (snd wg))).
Definition out_pairs (gs : list (width * list Tree.sub)) : list (content * content) :=
  map group_pair gs.

Lemma save_groups_eq r label gs :
  save_groups r label gs =
  flat_map (fun wg => [(bufs_name r label (fst wg), fst (group_pair wg));
                       (idxs_name r label (fst wg), snd (group_pair wg))]) gs.
Proof.
  unfold save_groups. induction gs as [|[w l] gs IH]; cbn [flat_map]; [reflexivity|].
  now rewrite IH.
Qed.

(* groups that may be written: distinct non-empty dtype groups of good sub-clusters that
   summarise exactly their members *)
Definition gs_ok (gs : list (width * list Tree.sub)) : Prop :=
  groups_wf gs /\ NoDup (map fst gs) /\ Forall (good_sub nf) (gsubs gs) /\
  Forall (data_ok G nf) (gsubs gs).

Lemma out_pairs_ok gs :
  groups_wf gs -> Forall (good_sub nf) (gsubs gs) -> Forall (data_ok G nf) (gsubs gs) ->
  Forall ok_pair (out_pairs gs) /\ ids_of (out_pairs gs) = concat (map sids (gsubs gs)).
Proof.
  unfold groups_wf, gsubs, out_pairs, ids_of.
  induction 1 as [|[w g] gs (Hne & Hw) _ IH]; cbn [map snd concat fst]; intros Hg Hd.
  - split; [constructor|reflexivity].
  - apply Forall_app in Hg. destruct Hg as [G1 G2]. apply Forall_app in Hd. destruct Hd as [D1 D2].
    destruct (IH G2 D2) as (I1 & I2). cbn [fst snd] in *. split.
    + constructor; [|exact I1]. unfold ok_pair, group_pair. cbn [fst snd]. split.
      * exists w, g. refine (conj _ (conj Hne (conj G1 Hw))).
        apply (save_read_roundtrip 0 EmptyString nf); assumption.
      * cbn [pair_aligned]. rewrite !map_length. split; [reflexivity|].
        clear Hne Hw I1 I2 IH. induction g as [|s g IHg]; cbn [map]; constructor.
        -- cbn [fst snd]. pose proof (Forall_inv G1) as (_ & _ & Hc). pose proof (Forall_inv D1) as Hd.
           split; [exact Hc|exact Hd].
        -- apply IHg; eapply Forall_inv_tail; eassumption.
    + rewrite map_app, concat_app, I2. reflexivity.
Qed.

(* what a task hands over: its writes are the file pairs of some dtype groups (pairwise
   different widths), every pair is good and aligned, and the ids written are [ids] *)
Definition task_out (r : Z) (label : string) (ws : list (string * content)) (ids : list Z) : Prop :=
  exists gs, ws = save_groups r label gs /\ NoDup (map fst gs) /\
    Forall ok_pair (out_pairs gs) /\ Permutation (ids_of (out_pairs gs)) ids.

Lemma gs_ok_out r label gs ids :
  gs_ok gs -> Permutation (concat (map sids (gsubs gs))) ids ->
  task_out r label (save_groups r label gs) ids.
Proof.
  intros (W & N & Gg & Gd) P. exists gs. destruct (out_pairs_ok gs W Gg Gd) as (O1 & O2).
  refine (conj eq_refl (conj N (conj O1 _))). now rewrite O2.
Qed.

(* ---------- the leaves of a tree, grouped ---------- *)
Lemma sorted_leaves_good_nf st :
  st_inv st -> init_for nf st -> Forall (good_sub nf) (sorted_leaves st).
Proof.
  intros Hinv [Hr|(_ & <-)]; [|apply sorted_leaves_good, Hinv].
  rewrite sorted_leaves_none by exact Hr. constructor.
Qed.
Lemma sorted_leaves_data_nf st :
  st_inv st -> init_for nf st -> leaves_data G st -> Forall (data_ok G nf) (sorted_leaves st).
Proof.
  intros Hinv [Hr|(_ & <-)] HL; [|apply sorted_leaves_data; assumption].
  rewrite sorted_leaves_none by exact Hr. constructor.
Qed.

Lemma perm_gs_ok_parts gs l :
  groups_wf gs -> NoDup (map fst gs) -> Permutation (gsubs gs) l ->
  Forall (good_sub nf) l -> Forall (data_ok G nf) l -> gs_ok gs.
Proof.
  intros W N P Hg Hd.
  refine (conj W (conj N (conj _ _))); (eapply Forall_perm; [symmetry; exact P|assumption]).
Qed.

Lemma leaf_groups_gs_ok st :
  st_inv st -> init_for nf st -> leaves_data G st ->
  gs_ok (prepare_groups (sorted_leaves st)) /\
  Permutation (concat (map sids (gsubs (prepare_groups (sorted_leaves st))))) (mem_ids st).
Proof.
  intros Hinv Hinit HL. pose proof (prepare_groups_perm (sorted_leaves st)) as PG. split.
  - apply (perm_gs_ok_parts _ (sorted_leaves st));
      [apply prepare_groups_wf|apply prepare_groups_nodup|exact PG| |].
    + apply sorted_leaves_good_nf; assumption.
    + apply sorted_leaves_data_nf; assumption.
  - etransitivity; [apply concat_perm, Permutation_map; exact PG|].
    apply sorted_leaves_ids, Hinv.
Qed.

Lemma delete_internal_views st :
  st_inv st ->
  let st1 := fst (delete_internal st) in
  st_inv st1 /\ cfg st1 = cfg st /\ nfit st1 = nfit st /\ nfeat st1 = nfeat st /\
  root st1 = root st /\
  sorted_leaves st1 = sorted_leaves st /\ mem_ids st1 = mem_ids st /\
  (init_for nf st -> init_for nf st1) /\ (leaves_data G st -> leaves_data G st1).
Proof.
  intros Hinv. cbv zeta.
  destruct (delete_internal_spec st Hinv) as (D1 & D2 & D3 & D4 & D5 & D6 & _).
  destruct (same_tree_views st _ D3 D4 D5) as (V1 & _ & V3 & _).
  refine (conj D1 (conj D2 (conj D5 (conj D6 (conj D3 (conj V1 (conj V3 (conj _ _)))))))).
  - unfold init_for. rewrite D3, D6. tauto.
  - apply leaves_data_same; assumption.
Qed.

Lemma leaf_groups_out st r label :
  st_inv st -> init_for nf st -> leaves_data G st ->
  task_out r label (save_groups r label (leaf_groups (fst (delete_internal st)))) (mem_ids st).
Proof.
  intros Hinv Hinit HL.
  destruct (delete_internal_views st Hinv) as (_ & _ & _ & _ & _ & V1 & _).
  unfold leaf_groups. rewrite V1.
  destruct (leaf_groups_gs_ok st Hinv Hinit HL) as (A & B).
  apply gs_ok_out; assumption.
Qed.

(* ---------- splitting some clusters into singletons ---------- *)
Lemma regroup_spec singles rest :
  Forall (fun b => good_sub nf b /\ sw b = W8) singles -> Forall (data_ok G nf) singles ->
  Forall (good_sub nf) rest -> Forall (data_ok G nf) rest ->
  let gs := fold_left (fun gs b => group_add W8 b gs) singles (prepare_groups rest) in
  gs_ok gs /\ Permutation (gsubs gs) (rest ++ singles).
Proof.
  intros S1 SD RG RD. cbv zeta.
  assert (SW : Forall (fun b => sw b = W8) singles).
  { eapply Forall_impl; [|exact S1]. cbv beta. tauto. }
  assert (SG : Forall (good_sub nf) singles).
  { eapply Forall_impl; [|exact S1]. cbv beta. tauto. }
  pose proof (prepare_groups_perm rest) as PG.
  pose proof (fold_group_add_perm (fun _ => W8) singles (prepare_groups rest)) as PF.
  cbv beta in PF.
  assert (PP : Permutation
                 (gsubs (fold_left (fun gs b => group_add W8 b gs) singles (prepare_groups rest)))
                 (rest ++ singles)).
  { etransitivity; [exact PF|]. apply Permutation_app_tail. exact PG. }
  split; [|exact PP].
  apply (perm_gs_ok_parts _ (rest ++ singles)); [| |exact PP| |].
  - apply (fold_group_add_wf (fun _ => W8)); [exact SW|apply prepare_groups_wf].
  - apply (fold_group_add_nodup (fun _ => W8)), prepare_groups_nodup.
  - apply Forall_app. split; assumption.
  - apply Forall_app. split; assumption.
Qed.

Lemma refine_groups_spec st (X : list fpv) im nl gs :
  st_inv st -> init_for nf st -> leaves_data G st ->
  Forall (fun fp : fpv => List.length fp = nf) X ->
  (forall i, In i (mem_ids st) -> py_nth X (i - im) = Some (G i)) ->
  refine_groups st X im nl = Some gs ->
  gs_ok gs /\ Permutation (concat (map sids (gsubs gs))) (mem_ids st).
Proof.
  intros Hinv Hinit HL HX HDX Hrg.
  pose proof (sorted_leaves_good_nf st Hinv Hinit) as Hgood.
  pose proof (sorted_leaves_data_nf st Hinv Hinit HL) as Hdat.
  pose proof (sorted_leaves_ids st Hinv) as Hids.
  unfold refine_groups in Hrg.
  destruct (nl =? 0).
  { injection Hrg as <-. apply leaf_groups_gs_ok; assumption. }
  destruct (nl <? 1); [discriminate|].
  remember (Z.to_nat nl) as k eqn:Ek.
  remember (sorted_leaves st) as bfs eqn:Ebfs.
  destruct (firstn k bfs) as [|l0 lt] eqn:El; [discriminate|]. rewrite <- El in Hrg.
  destruct (explode_all X im (firstn k bfs)) as [singles|] eqn:Ex; [|discriminate].
  injection Hrg as <-.
  destruct (firstn_skipn_Forall _ k bfs Hgood) as (G1 & G2).
  destruct (firstn_skipn_Forall _ k bfs Hdat) as (_ & Dd2).
  assert (HC : Forall cnt_ok (firstn k bfs)).
  { eapply Forall_impl; [|exact G1]. cbv beta. intros a (_ & _ & Hq). exact Hq. }
  destruct (explode_all_spec nf X im _ singles HX HC Ex) as (S1 & S2 & S3).
  assert (SD : Forall (data_ok G nf) singles).
  { apply (explode_all_data G nf X im _ singles HX Ex).
    intros i Hi. apply HDX. apply (Permutation_in _ Hids).
    rewrite <- (firstn_skipn k bfs), map_app, concat_app. apply in_or_app. now left. }
  destruct (regroup_spec singles (skipn k bfs) S1 SD G2 Dd2) as (A & PP).
  split; [exact A|].
  etransitivity; [apply concat_perm, Permutation_map; exact PP|].
  rewrite map_app, concat_app, S2.
  etransitivity; [apply Permutation_app_comm|].
  rewrite <- concat_app, <- map_app, firstn_skipn. exact Hids.
Qed.

Lemma refine_groups_seq_spec st (X : list fpv) gs :
  st_inv st -> init_for nf st -> leaves_data G st ->
  Forall (fun fp : fpv => List.length fp = nf) X ->
  (forall i, In i (mem_ids st) -> py_nth X (i - 0) = Some (G i)) ->
  refine_groups_seq st X = Some gs ->
  gs_ok gs /\ Permutation (concat (map sids (gsubs gs))) (mem_ids st).
Proof.
  intros Hinv Hinit HL HX HDX Hrg.
  pose proof (sorted_leaves_good_nf st Hinv Hinit) as Hgood.
  pose proof (sorted_leaves_data_nf st Hinv Hinit HL) as Hdat.
  pose proof (sorted_leaves_ids st Hinv) as Hids.
  unfold refine_groups_seq in Hrg.
  destruct (sorted_leaves st) as [|big rest] eqn:Ebfs; [discriminate|].
  destruct (explode X 0 (sort_asc_z (sids big))) as [singles|] eqn:Ex; [|discriminate].
  injection Hrg as <-.
  pose proof (sort_asc_z_perm (sids big)) as PS.
  destruct (explode_spec nf X 0 _ singles HX Ex) as (S1 & S2 & _).
  assert (SD : Forall (data_ok G nf) singles).
  { apply (explode_data G nf X 0 _ singles HX Ex).
    intros i Hi. apply HDX. apply (Permutation_in _ Hids).
    cbn [map concat]. apply in_or_app. left. apply (Permutation_in _ PS). exact Hi. }
  destruct (regroup_spec singles rest S1 SD (Forall_inv_tail Hgood) (Forall_inv_tail Hdat))
    as (A & PP).
  split; [exact A|].
  etransitivity; [apply concat_perm, Permutation_map; exact PP|].
  rewrite map_app, concat_app, S2.
  etransitivity; [apply Permutation_app_comm|].
  etransitivity; [apply Permutation_app_tail; exact PS|].
  exact Hids.
Qed.


(* ---------- configuration plumbing ---------- *)
Lemma ctor_name_bf thr bf n tol cf :
  ctor fexp None thr bf (AName n) tol = Some cf -> c_bf cf = bf.
Proof.
  unfold ctor. destruct (get_merge_accept_fn fexp n (opt_tol tol)); intros E; inversion E.
  reflexivity.
Qed.

Lemma task_out_perm r label ws ids ids' :
  Permutation ids ids' -> task_out r label ws ids -> task_out r label ws ids'.
Proof.
  intros P (gs & A & B & C & D). exists gs. refine (conj A (conj B (conj C _))).
  etransitivity; eassumption.
Qed.

Lemma init_facts cf :
  2 <= c_bf cf ->
  st_inv (init cf) /\ released (init cf) = false /\ init_for nf (init cf) /\
  leaves_data G (init cf) /\ nfit (init cf) = 0 /\ mem_ids (init cf) = [].
Proof.
  intros H. destruct (init_inv cf H) as (A & _ & _).
  refine (conj A (conj eq_refl (conj (or_introl eq_refl) (conj _ (conj eq_refl eq_refl))))).
  apply leaves_data_none. reflexivity.
Qed.

(* ================= P2 (c): the final task ================= *)
Lemma final_task_ok c pairs ws :
  2 <= m_bf c -> Forall ok_pair pairs -> zlen (ids_of pairs) < 2 ^ 64 ->
  final_task fexp c pairs = Some ws ->
  exists cl cs,
    ws = ((if m_save_centroids c
           then [("cluster-centroids-packed.pkl"%string, CCentroids cs)] else []) ++
          [("clusters.pkl"%string, CClusters cl)])%list /\
    Permutation (concat cl) (ids_of pairs) /\
    List.length cs = List.length cl /\
    Forall2 (fun cen ids => cen = centroid_fpv (colsum nf (map G ids)) (zlen ids)) cs cl.
Proof.
  intros Hbf Hp Hb. unfold final_task.
  destruct (tree_cfg fexp c _) as [cf|] eqn:Ecf; [|discriminate].
  unfold tree_cfg in Ecf. apply ctor_name_bf in Ecf.
  destruct (init_facts cf ltac:(lia)) as (I1 & I2 & I3 & I4 & I5 & I6).
  destruct (fit_pairs_spec pairs (init cf) I1 I2 I3 Hp ltac:(rewrite I5; lia) I4)
    as (st & F & K1 & K2 & K3 & K4 & K5 & K6 & K7).
  rewrite F. destruct (is_init st) eqn:Ei; [|discriminate].
  destruct (delete_internal_views st K1) as (_ & _ & _ & _ & _ & V1 & _).
  unfold clusters, centroids. rewrite V1. intros Hws.
  exists (map sids (sorted_leaves st)), (map scent (sorted_leaves st)).
  refine (conj _ (conj _ (conj _ _))).
  - destruct (m_save_centroids c); injection Hws as <-; reflexivity.
  - etransitivity; [apply sorted_leaves_ids, K1|]. rewrite I6 in K6. exact K6.
  - now rewrite !map_length.
  - assert (En : nfeat st = nf).
    { unfold is_init in Ei. destruct K4 as [K4|(_ & K4)]; [|exact K4].
      rewrite K4 in Ei. discriminate. }
    pose proof (reported_sums G st K1 K7) as R. rewrite En in R.
    clear V1 Hws.
    induction R as [|s l (R1 & R2 & R3 & _) _ IH]; cbn [map]; [constructor|].
    constructor; [|exact IH]. now rewrite R3, R1, R2.
Qed.

(* ================= P2 (b): a tree-merging task ================= *)
Lemma merging_task_ok c r label pairs (all_rows : list fpv) ws :
  2 <= m_bf c -> Forall ok_pair pairs -> zlen (ids_of pairs) < 2 ^ 64 ->
  (m_split_after c = true ->
   Forall (fun fp : fpv => List.length fp = nf) all_rows /\
   forall i, In i (ids_of pairs) ->
     0 <= i < zlen all_rows /\ nth_error all_rows (Z.to_nat i) = Some (G i)) ->
  merging_task fexp c r label pairs all_rows = Some ws ->
  task_out r label ws (ids_of pairs).
Proof.
  intros Hbf Hp Hb HX. unfold merging_task.
  destruct (tree_cfg fexp c _) as [cf|] eqn:Ecf; [|discriminate].
  unfold tree_cfg in Ecf. apply ctor_name_bf in Ecf.
  destruct (init_facts cf ltac:(lia)) as (I1 & I2 & I3 & I4 & I5 & I6).
  destruct (fit_pairs_spec pairs (init cf) I1 I2 I3 Hp ltac:(rewrite I5; lia) I4)
    as (st & F & K1 & K2 & K3 & K4 & K5 & K6 & K7).
  rewrite F. rewrite I6 in K6. cbn [app] in K6.
  destruct (m_split_after c) eqn:Es.
  - destruct (delete_internal_views st K1) as (V1 & _ & _ & _ & _ & _ & V7 & V8 & V9).
    destruct (refine_groups_seq _ all_rows) as [gs|] eqn:Er; [|discriminate].
    intros E. injection E as <-.
    destruct (HX eq_refl) as (HX1 & HX2).
    destruct (refine_groups_seq_spec _ all_rows gs V1 (V8 K4) (V9 K7) HX1) with (2 := Er)
      as (A & B).
    + intros i Hi. rewrite V7 in Hi. apply (Permutation_in _ K6) in Hi.
      destruct (HX2 i Hi) as ((H0 & H1) & H2). rewrite Z.sub_0_r. unfold py_nth.
      destruct (Z.leb_spec 0 i); [|lia]. destruct (Z.ltb_spec i (zlen all_rows)); [|lia].
      exact H2.
    + apply gs_ok_out; [exact A|]. rewrite V7 in B. etransitivity; eassumption.
  - intros E. injection E as <-.
    apply (task_out_perm _ _ _ (mem_ids st)); [exact K6|].
    apply leaf_groups_out; assumption.
Qed.

(* ================= P2 (a): an initial task ================= *)
Lemma do_fit_init cf (fp0 : fpv) rows' labs :
  do_fit fexp (init cf) (map Some (fp0 :: rows')) (Some labs) =
  fit_rows fexp cf (initialize (init cf) (List.length fp0)) (map Some (fp0 :: rows')) labs.
Proof. reflexivity. Qed.

Lemma initial_task_ok c label (rows : list fpv) start ws :
  2 <= m_bf c -> Forall (fun fp : fpv => List.length fp = nf) rows -> zlen rows < 2 ^ 64 ->
  (forall k fp, nth_error rows k = Some fp -> G (start + Z.of_nat k) = fp) ->
  initial_task fexp c label rows start = Some ws ->
  rows <> [] /\ task_out 1 label ws (zseq start (List.length rows)).
Proof.
  intros Hbf Hrows Hb HG. unfold initial_task.
  destruct (ctor fexp None _ _ _ None) as [cf|] eqn:Ecf; [|discriminate].
  apply ctor_name_bf in Ecf.
  destruct (init_facts cf ltac:(lia)) as (I1 & I2 & I3 & I4 & I5 & I6).
  destruct rows as [|fp0 rows']; [cbn; discriminate|].
  intros H. split; [discriminate|]. revert H.
  rewrite do_fit_init.
  assert (Hfp0 : List.length fp0 = nf) by exact (Forall_inv Hrows).
  remember (fp0 :: rows') as rows eqn:Erows.
  rewrite Hfp0.
  pose proof (initialize_inv (init cf) nf I1 eq_refl Hnf) as J1.
  remember (initialize (init cf) nf) as st0 eqn:Est0.
  assert (E1 : nfit st0 = 0) by (subst st0; reflexivity).
  assert (E2 : nfeat st0 = nf) by (subst st0; reflexivity).
  assert (E3 : root st0 <> None) by (subst st0; discriminate).
  assert (E4 : mem_ids st0 = []) by (subst st0; reflexivity).
  assert (E5 : cfg st0 = cf) by (subst st0; reflexivity).
  assert (E6 : released st0 = false) by (subst st0; reflexivity).
  assert (HL0 : leaves_data G st0) by (subst st0; unfold leaves_data; cbn; constructor).
  assert (Hro : Forall (row_ok (nfeat st0)) (map Some rows)).
  { rewrite E2. apply Forall_forall. intros x Hx. apply in_map_iff in Hx.
    destruct Hx as (fp & <- & Hfp). cbn [row_ok]. rewrite Forall_forall in Hrows. auto. }
  assert (Hbz : nfit st0 + zlen (map Some rows) < 2 ^ 64).
  { rewrite E1. unfold zlen in *. rewrite map_length. lia. }
  assert (Hbf0 : 2 <= c_bf cf) by lia.
  destruct (fit_rows fexp cf st0 (map Some rows) (zseq start (List.length rows)))
    as [st out] eqn:Hf.
  destruct (fit_rows_inv fexp cf (map Some rows) st0 _ J1 E3 Hbf0 Hro Hbz st out Hf)
    as (K1 & K2 & K3 & K4 & K5 & _ & k & L1 & L2 & L3 & L4 & L5).
  pose proof (fit_rows_data fexp G cf (map Some rows) st0
                (zseq start (List.length rows)) J1 E3 Hbf0 Hro Hbz HL0) as HLs.
  rewrite Hf in HLs. cbn [fst] in HLs.
  assert (HL : leaves_data G st).
  { apply HLs. intros j fp l H1 H2. apply nth_error_zseq in H2. subst l.
    rewrite nth_error_map in H1. destruct (nth_error rows j) as [fp'|] eqn:En; [|discriminate].
    cbn in H1. injection H1 as <-. apply HG, En. }
  destruct L5 as (-> & ->).
  { apply Forall_forall. intros x Hx. apply in_map_iff in Hx. destruct Hx as (? & <- & _).
    discriminate. }
  { now rewrite zseq_length, map_length. }
  rewrite map_length in L4. rewrite E4 in L4. cbn [app] in L4.
  rewrite <- (zseq_length start (List.length rows)) in L4 at 1. rewrite firstn_all in L4.
  assert (Hinit : init_for nf st) by (right; split; [exact K5|congruence]).
  assert (Hcfg : cfg st = cf) by congruence.
  assert (Hnfit : nfit st = zlen rows).
  { rewrite L3, E1, map_length. reflexivity. }
  destruct (delete_internal_views st K1) as (V1 & V2 & V3 & V4 & V5 & V6 & V7 & V8 & V9).
  remember (fst (delete_internal st)) as st1 eqn:Est1.
  assert (HDX : forall i, In i (mem_ids st1) -> py_nth rows (i - start) = Some (G i)).
  { intros i Hi. rewrite V7 in Hi. apply (Permutation_in _ L4) in Hi. apply In_zseq in Hi.
    unfold py_nth. destruct (Z.leb_spec 0 (i - start)); [|lia].
    destruct (Z.ltb_spec (i - start) (zlen rows)); [|unfold zlen in *; lia]. cbn [andb].
    destruct (nth_error rows (Z.to_nat (i - start))) as [fp|] eqn:En.
    - f_equal. symmetry. replace i with (start + Z.of_nat (Z.to_nat (i - start))) by lia.
      apply HG, En.
    - apply nth_error_None in En. lia. }
  destruct (m_refine c).
  - (* RFull *)
    destruct (refine_groups st1 rows start 1) as [gs|] eqn:Er; [|discriminate].
    destruct (refine_groups_spec st1 rows start 1 gs V1 (V8 Hinit) (V9 HL) Hrows HDX Er)
      as ((W & N & Gg & Gd) & B).
    destruct (set_merge fexp None _ _ _ _ None) as [cf2|] eqn:Es; [|discriminate].
    apply set_merge_frame in Es. destruct Es as (_ & Es & _). specialize (Es eq_refl).
    cbn [reset_st cfg] in Es.
    match goal with |- context [fit_groups fexp ?S gs] => remember S as st3 eqn:Est3 end.
    cbn [reset_st root sax nfit released nfeat] in Est3.
    assert (T1 : st_inv st3).
    { subst st3. unfold st_inv. cbn [cfg root nfit released]. split; [|auto].
      rewrite Es, V2, Hcfg. lia. }
    assert (T2 : released st3 = false) by (subst st3; reflexivity).
    assert (T3 : init_for nf st3) by (subst st3; left; reflexivity).
    assert (T4 : nfit st3 = 0) by (subst st3; reflexivity).
    assert (T5 : mem_ids st3 = []) by (subst st3; reflexivity).
    assert (T6 : leaves_data G st3) by (subst st3; apply leaves_data_none; reflexivity).
    pose proof (groups_wf_ok nf gs W Gg) as Gk.
    assert (Ht : tot_n (gsubs gs) = zlen rows).
    { rewrite (tot_n_cnt _ (groups_ok_cnt gs Gk)). unfold zlen.
      rewrite (Permutation_length B), V7, (Permutation_length L4), zseq_length. reflexivity. }
    assert (Hb3 : nfit st3 + tot_n (gsubs gs) < 2 ^ 64) by (rewrite T4, Ht; lia).
    destruct (fit_groups_inv fexp nf gs st3 T1 T2 T3 Hnf Gk Hb3)
      as (st4 & F4 & M1 & M2 & M3 & M4 & M5 & M6 & M7 & _).
    pose proof (fit_groups_data fexp G nf gs st3 T1 T2 T3 Hnf Gk Hb3 T6 Gd) as HL4.
    rewrite F4 in HL4 |- *. cbn [fst] in HL4. cbv beta iota. intros E. injection E as <-.
    apply (task_out_perm _ _ _ (mem_ids st4)); [|apply leaf_groups_out; assumption].
    etransitivity; [exact M7|]. rewrite T5. cbn [app].
    etransitivity; [exact B|]. rewrite V7. exact L4.
  - (* RSplit *)
    destruct (refine_groups st1 rows start 1) as [gs|] eqn:Er; [|discriminate].
    destruct (refine_groups_spec st1 rows start 1 gs V1 (V8 Hinit) (V9 HL) Hrows HDX Er)
      as (A & B).
    intros E. injection E as <-. apply gs_ok_out; [exact A|].
    etransitivity; [exact B|]. rewrite V7. exact L4.
  - (* RNone *)
    intros E. injection E as <-. subst st1.
    apply (task_out_perm _ _ _ (mem_ids st)); [exact L4|].
    apply leaf_groups_out; assumption.
Qed.

End Tasks.

