(* GenTieMrDel.v — the deletion plan (start-of-run purge, final cleanup) and the publication plan of
   the final round, regenerated from bblean/multiround.py into Gen/GMrDel.v on every run, are those
   of the workflow model (is_purged, is_round_file, final_task).  Used by C14 only. *)
From BB Require Import Model.Multiround Gen.NumpySem Gen.GMrDel Proofs.GenTieMr.
From BB Require Import Proofs.MrStrings.
From Coq Require Import String Ascii Bool Lia List.
Import ListNotations.
Open Scope Z_scope.
Open Scope string_scope.

(* T2 *)
Lemma tie_cleanup : forall n,
  is_round_file n = existsb (fun g => glob_match g n) GMrDel.cleanup_globs.
Proof.
  intros n. unfold is_round_file, GMrDel.cleanup_globs. cbn [existsb].
  rewrite glob_round_npy, glob_round_pkl.
  rewrite (has_suffix_str_suffix ".npy" n), (has_suffix_str_suffix ".pkl" n).
  destruct (String.prefix "round-" n), (str_suffix ".npy" n), (str_suffix ".pkl" n); reflexivity.
Qed.

(* T1 *)
Lemma tie_purge : forall n,
  is_purged n = (existsb (fun g => glob_match g n) GMrDel.purge_globs
                 || existsb (String.eqb n) GMrDel.purge_names)%bool.
Proof.
  intros n. unfold is_purged. rewrite tie_cleanup.
  unfold GMrDel.cleanup_globs, GMrDel.purge_globs, GMrDel.purge_names. cbn [existsb].
  rewrite glob_pkl_tmp, (has_suffix_str_suffix ".pkl.tmp" n).
  destruct (glob_match "round-*.npy" n), (glob_match "round-*.pkl" n),
    (str_suffix ".pkl.tmp" n), (String.eqb n "clusters.pkl"),
    (String.eqb n "cluster-centroids-packed.pkl"), (String.eqb n "bitbirch.pkl"); reflexivity.
Qed.

(* ------------------------------------------------------------------------------------------
   The publication plan of the final round (Gen/GMrDel.final_publish, regenerated from
   _FinalTreeMergingRound.__call__): every write goes to a "*.pkl.tmp" name (purged by the next
   run), the names that become visible are exactly the writes of the model's final task, in the
   same order, and the LAST action is the rename onto clusters.pkl.
   ------------------------------------------------------------------------------------------ *)
Definition pub_dsts (l : list GMrDel.pub_action) : list string :=
  flat_map (fun a => match a with GMrDel.PR _ d => [d] | GMrDel.PW _ => [] end) l.
Definition pub_ok (l : list GMrDel.pub_action) : bool :=
  forallb (fun a => match a with
                    | GMrDel.PW n => str_suffix ".pkl.tmp" n
                    | GMrDel.PR s d => str_suffix ".pkl.tmp" s && existsb (fun b => match b with GMrDel.PW n => String.eqb n s | _ => false end) l
                    end) l
  && match rev l with GMrDel.PR _ d :: _ => String.eqb d "clusters.pkl" | _ => false end.

Lemma tie_publish_ok : forall sc, pub_ok (GMrDel.final_publish sc) = true.
Proof. intros [|]; vm_compute; reflexivity. Qed.

Lemma tie_publish_names fexp c pairs ws :
  final_task fexp c pairs = Some ws -> map fst ws = pub_dsts (GMrDel.final_publish (m_save_centroids c)).
Proof.
  unfold final_task. destruct (tree_cfg fexp c _) as [cf|]; [|discriminate].
  destruct (fit_pairs fexp (init cf) pairs) as [st []]; try discriminate.
  destruct (is_init st); [|discriminate].
  destruct (m_save_centroids c); intros H; injection H as <-; reflexivity.
Qed.
