(* MrRerun.v — property C14: a multi-round run started in a directory holding arbitrary
   leftovers (any crash point of any earlier run, any configuration) computes exactly what a
   run in a fresh directory computes; cleanup leaves no round files; the final cluster file
   is the last write of a run. *)
From BB Require Import Model.Multiround.
From Coq Require Import String Ascii List Sorted Lia Bool.
Import ListNotations.
Open Scope Z_scope.

(* ================================================================================ *)
(* 1. str_ltb is a strict total order                                               *)
(* ================================================================================ *)
Lemma nat_of_ascii_inj x y : nat_of_ascii x = nat_of_ascii y -> x = y.
Proof.
  intro H. rewrite <- (ascii_nat_embedding x), <- (ascii_nat_embedding y), H. reflexivity.
Qed.

Lemma str_ltb_irrefl a : str_ltb a a = false.
Proof.
  induction a as [|x a IH]; cbn [str_ltb]; auto.
  rewrite Nat.ltb_irrefl. exact IH.
Qed.

Lemma str_ltb_trans a : forall b c, str_ltb a b = true -> str_ltb b c = true -> str_ltb a c = true.
Proof.
  induction a as [|x a IH]; intros [|y b] [|z c]; cbn [str_ltb]; try congruence.
  destruct (Nat.ltb_spec (nat_of_ascii x) (nat_of_ascii y));
  destruct (Nat.ltb_spec (nat_of_ascii y) (nat_of_ascii x));
  destruct (Nat.ltb_spec (nat_of_ascii y) (nat_of_ascii z));
  destruct (Nat.ltb_spec (nat_of_ascii z) (nat_of_ascii y));
  destruct (Nat.ltb_spec (nat_of_ascii x) (nat_of_ascii z));
  destruct (Nat.ltb_spec (nat_of_ascii z) (nat_of_ascii x));
  try congruence; try lia.
  apply IH.
Qed.

Lemma str_ltb_total a : forall b, str_ltb a b = false -> str_ltb b a = false -> a = b.
Proof.
  induction a as [|x a IH]; intros [|y b]; cbn [str_ltb]; try congruence.
  destruct (Nat.ltb_spec (nat_of_ascii x) (nat_of_ascii y));
  destruct (Nat.ltb_spec (nat_of_ascii y) (nat_of_ascii x)); try congruence; try lia.
  intros H1 H2. f_equal.
  - apply nat_of_ascii_inj. lia.
  - apply IH; assumption.
Qed.

Lemma str_ltb_asym a b : str_ltb a b = true -> str_ltb b a = false.
Proof.
  intro H. destruct (str_ltb b a) eqn:E; auto.
  pose proof (str_ltb_trans _ _ _ H E) as H1. rewrite str_ltb_irrefl in H1. discriminate.
Qed.

(* trichotomy, phrased with String.eqb *)
Lemma str_ltb_trichotomy a b :
  (str_ltb a b = true /\ String.eqb a b = false /\ str_ltb b a = false) \/
  (str_ltb a b = false /\ String.eqb a b = true /\ str_ltb b a = false) \/
  (str_ltb a b = false /\ String.eqb a b = false /\ str_ltb b a = true).
Proof.
  destruct (str_ltb a b) eqn:E1.
  - left. refine (conj eq_refl (conj _ (str_ltb_asym _ _ E1))).
    destruct (String.eqb_spec a b); auto. subst. rewrite str_ltb_irrefl in E1. discriminate.
  - right. destruct (str_ltb b a) eqn:E2.
    + right. refine (conj eq_refl (conj _ eq_refl)).
      destruct (String.eqb_spec a b); auto. subst. rewrite str_ltb_irrefl in E2. discriminate.
    + left. rewrite (str_ltb_total _ _ E1 E2). rewrite String.eqb_refl. auto.
Qed.

(* ================================================================================ *)
(* 2. directory algebra                                                             *)
(* ================================================================================ *)
Definition name_lt (a b : string * content) : Prop := str_ltb (fst a) (fst b) = true.
(* sorted strictly by [str_ltb] *)
Definition dir_wf (d : dir) : Prop := StronglySorted name_lt d.

Lemma name_lt_trans : Relations_1.Transitive name_lt.
Proof. intros a b c. unfold name_lt. apply str_ltb_trans. Qed.

(* the locally-sorted formulation is equivalent *)
Lemma dir_wf_Sorted d : dir_wf d <-> Sorted name_lt d.
Proof.
  split; [apply StronglySorted_Sorted | apply Sorted_StronglySorted, name_lt_trans].
Qed.

Lemma dir_wf_nil : dir_wf [].
Proof. constructor. Qed.

Lemma dir_get_put d n c m :
  dir_get (dir_put d n c) m = if String.eqb m n then Some c else dir_get d m.
Proof.
  induction d as [|[k x] tl IH]; cbn [dir_put dir_get].
  - rewrite (String.eqb_sym n m). reflexivity.
  - destruct (String.eqb_spec k n) as [->|Hkn].
    + cbn [dir_get]. rewrite (String.eqb_sym n m). destruct (String.eqb m n); reflexivity.
    + destruct (str_ltb n k).
      * cbn [dir_get]. rewrite (String.eqb_sym n m). destruct (String.eqb m n); reflexivity.
      * cbn [dir_get]. rewrite IH.
        destruct (String.eqb_spec k m) as [->|Hkm]; auto.
        destruct (String.eqb_spec m n); congruence.
Qed.

Lemma dir_get_remove d p n :
  dir_get (dir_remove d p) n = if p n then None else dir_get d n.
Proof.
  unfold dir_remove. induction d as [|[k x] tl IH]; cbn [filter dir_get fst].
  - destruct (p n); reflexivity.
  - destruct (p k) eqn:Epk; cbn [negb dir_get].
    + rewrite IH. destruct (String.eqb_spec k n) as [->|]; auto. rewrite Epk. reflexivity.
    + rewrite IH. destruct (String.eqb_spec k n) as [->|]; auto. rewrite Epk. reflexivity.
Qed.

Lemma dir_get_In d n c : dir_get d n = Some c -> In (n, c) d.
Proof.
  induction d as [|[k x] tl IH]; cbn [dir_get]; try discriminate.
  destruct (String.eqb_spec k n) as [->|].
  - intros [= ->]. left. reflexivity.
  - intro H. right. auto.
Qed.

Lemma dir_get_names d n : In n (dir_names d) <-> dir_get d n <> None.
Proof.
  unfold dir_names. induction d as [|[k x] tl IH]; cbn [dir_get map In fst].
  - split; [tauto | congruence].
  - destruct (String.eqb_spec k n) as [->|Hn].
    + split; [discriminate | auto].
    + rewrite <- IH. split; [intros [?|?]; [congruence | auto] | auto].
Qed.

Lemma dir_get_None_lt k tl n :
  Forall (name_lt (k, n)) tl -> dir_get tl k = None.
Proof.
  intro H. destruct (dir_get tl k) eqn:E; auto.
  apply dir_get_In in E. rewrite Forall_forall in H. apply H in E.
  unfold name_lt in E. cbn in E. rewrite str_ltb_irrefl in E. discriminate.
Qed.

Lemma dir_put_In d n c e : In e (dir_put d n c) -> e = (n, c) \/ In e d.
Proof.
  induction d as [|[k x] tl IH]; cbn [dir_put].
  - intros [<-|[]]. auto.
  - destruct (String.eqb k n).
    + intros [<-|H]; auto. right. right. auto.
    + destruct (str_ltb n k).
      * intros [<-|H]; auto.
      * intros [<-|H]; [right; left; reflexivity|].
        apply IH in H. destruct H; auto. right. right. auto.
Qed.

Lemma dir_put_wf d n c : dir_wf d -> dir_wf (dir_put d n c).
Proof.
  unfold dir_wf. induction 1 as [|[k x] tl Hs IH Hf]; cbn [dir_put].
  - constructor; constructor.
  - destruct (str_ltb_trichotomy n k) as [(H1 & H2 & H3)|[(H1 & H2 & H3)|(H1 & H2 & H3)]];
      rewrite (String.eqb_sym k n), H2.
    + rewrite H1. constructor; [constructor; assumption|].
      constructor; [exact H1|].
      eapply Forall_impl; [|exact Hf]. intros a Ha. unfold name_lt in *. cbn [fst] in *.
      eapply str_ltb_trans; eassumption.
    + apply String.eqb_eq in H2. subst k. constructor; auto.
    + rewrite H1. constructor; auto.
      rewrite Forall_forall. intros e He. apply dir_put_In in He. destruct He as [->|He].
      * exact H3.
      * rewrite Forall_forall in Hf. auto.
Qed.

Lemma dir_remove_wf d p : dir_wf d -> dir_wf (dir_remove d p).
Proof.
  unfold dir_wf, dir_remove. induction 1 as [|a tl Hs IH Hf]; cbn [filter].
  - constructor.
  - destruct (negb (p (fst a))); auto. constructor; auto.
    rewrite Forall_forall in *. intros e He. apply filter_In in He. apply Hf, He.
Qed.

(* two well-formed directories with the same lookups are equal *)
Lemma dir_ext d : forall e, dir_wf d -> dir_wf e -> (forall n, dir_get d n = dir_get e n) -> d = e.
Proof.
  induction d as [|[k x] tl IH]; intros [|[k' x'] tl'] Hd He H.
  - reflexivity.
  - specialize (H k'). cbn [dir_get] in H. rewrite String.eqb_refl in H. discriminate.
  - specialize (H k). cbn [dir_get] in H. rewrite String.eqb_refl in H. discriminate.
  - apply StronglySorted_inv in Hd, He. destruct Hd as [Hd Hfd], He as [He Hfe].
    assert (Hk : k = k').
    { destruct (String.eqb_spec k k') as [|Hne]; auto. exfalso.
      pose proof (H k) as H1. pose proof (H k') as H2. cbn [dir_get] in H1, H2.
      rewrite String.eqb_refl in H1, H2.
      destruct (String.eqb_spec k' k) as [|_]; [congruence|].
      destruct (String.eqb_spec k k') as [|_]; [congruence|].
      symmetry in H1. apply dir_get_In in H1, H2.
      rewrite Forall_forall in Hfd, Hfe. apply Hfe in H1. apply Hfd in H2.
      unfold name_lt in H1, H2. cbn [fst] in H1, H2.
      rewrite (str_ltb_asym _ _ H1) in H2. discriminate. }
    subst k'. pose proof (H k) as H1. cbn [dir_get] in H1. rewrite String.eqb_refl in H1.
    injection H1 as ->. f_equal. apply IH; auto.
    intro n. specialize (H n). cbn [dir_get] in H.
    destruct (String.eqb_spec k n) as [E|]; auto. subst n.
    rewrite (dir_get_None_lt _ _ _ Hfd), (dir_get_None_lt _ _ _ Hfe). reflexivity.
Qed.

(* dir_puts *)
Lemma dir_puts_app d a b : dir_puts d (a ++ b) = dir_puts (dir_puts d a) b.
Proof. unfold dir_puts. apply fold_left_app. Qed.

Lemma dir_puts_wf ws : forall d, dir_wf d -> dir_wf (dir_puts d ws).
Proof.
  induction ws as [|[n c] ws IH]; intros d H; cbn; auto.
  apply IH, dir_put_wf, H.
Qed.

Lemma dir_get_puts_other ws m : forall d,
  Forall (fun e => fst e <> m) ws -> dir_get (dir_puts d ws) m = dir_get d m.
Proof.
  induction ws as [|[n c] ws IH]; intros d H; cbn [dir_puts fold_left]; auto.
  inversion H; subst. cbn [fst snd] in *.
  change (dir_get (dir_puts (dir_put d n c) ws) m = dir_get d m).
  rewrite IH by assumption. rewrite dir_get_put.
  destruct (String.eqb_spec m n); congruence.
Qed.

(* lookups after a batch of writes depend only on the lookups before *)
Lemma dir_get_puts_cong ws m : forall d e,
  dir_get d m = dir_get e m -> dir_get (dir_puts d ws) m = dir_get (dir_puts e ws) m.
Proof.
  induction ws as [|[n c] ws IH]; intros d e H; cbn [dir_puts fold_left]; auto.
  apply IH. rewrite !dir_get_put. cbn [fst snd]. rewrite H. reflexivity.
Qed.

(* writing a well-formed directory on top of another one *)
Lemma dir_get_puts_wf ws n : forall d, dir_wf ws ->
  dir_get (dir_puts d ws) n = match dir_get ws n with Some c => Some c | None => dir_get d n end.
Proof.
  induction ws as [|[k x] ws IH]; intros d H; cbn [dir_puts fold_left dir_get]; auto.
  apply StronglySorted_inv in H. destruct H as [Hs Hf].
  change (dir_get (dir_puts (dir_put d k x) ws) n =
          match (if String.eqb k n then Some x else dir_get ws n) with
          | Some c => Some c | None => dir_get d n end).
  rewrite IH by assumption. rewrite dir_get_put. cbn [fst snd].
  destruct (String.eqb_spec k n) as [<-|Hkn].
  - rewrite (dir_get_None_lt _ _ _ Hf). rewrite String.eqb_refl. reflexivity.
  - destruct (String.eqb_spec n k); [congruence|]. reflexivity.
Qed.

(* ================================================================================ *)
(* 3. names and globs (R1)                                                          *)
(* ================================================================================ *)
Lemma prefix_nil n : prefix "" n = true.
Proof. destruct n; reflexivity. Qed.

Lemma prefix_app a : forall b, prefix a (a ++ b)%string = true.
Proof.
  induction a as [|x a IH]; intro b; cbn [append].
  - apply prefix_nil.
  - cbn [prefix]. destruct (ascii_dec x x); [apply IH | congruence].
Qed.

Lemma prefix_app_l a : forall b n, prefix (a ++ b)%string n = true -> prefix a n = true.
Proof.
  induction a as [|x a IH]; intros b n; cbn [append].
  - intros _. apply prefix_nil.
  - destruct n as [|y n]; cbn [prefix]; auto.
    destruct (ascii_dec x y); auto. apply IH.
Qed.

Lemma has_suffix_refl s : has_suffix s s = true.
Proof. destruct s; cbn [has_suffix]; rewrite String.eqb_refl; reflexivity. Qed.

Lemma has_suffix_app suf a : forall b, has_suffix suf b = true -> has_suffix suf (a ++ b)%string = true.
Proof.
  induction a as [|x a IH]; intros b H; cbn [append]; auto.
  cbn [has_suffix]. destruct (String.eqb suf (String x (a ++ b))); auto.
Qed.

Lemma bufs_name_round_file r l w : is_round_file (bufs_name r l w) = true.
Proof.
  unfold is_round_file, bufs_name. rewrite prefix_app. cbn [andb].
  apply orb_true_iff. left. do 4 apply has_suffix_app. reflexivity.
Qed.

Lemma idxs_name_round_file r l w : is_round_file (idxs_name r l w) = true.
Proof.
  unfold is_round_file, idxs_name. rewrite prefix_app. cbn [andb].
  apply orb_true_iff. right. do 4 apply has_suffix_app. reflexivity.
Qed.

Lemma round_file_purged n : is_round_file n = true -> is_purged n = true.
Proof. intro H. unfold is_purged. rewrite H. reflexivity. Qed.

Lemma bufs_glob_round_file r n : is_bufs_of r n = true -> is_round_file n = true.
Proof.
  unfold is_bufs_of, is_round_file. intro H. apply andb_true_iff in H. destruct H as [H1 H2].
  apply prefix_app_l in H1. rewrite H1, H2. reflexivity.
Qed.

Lemma idxs_glob_round_file r n : is_idxs_of r n = true -> is_round_file n = true.
Proof.
  unfold is_idxs_of, is_round_file. intro H. apply andb_true_iff in H. destruct H as [H1 H2].
  apply prefix_app_l in H1. rewrite H1, H2. apply andb_true_iff. split; auto. apply orb_true_r.
Qed.

(* R1 *)
Lemma globs_are_purged r n :
  is_bufs_of r n = true \/ is_idxs_of r n = true -> is_purged n = true.
Proof.
  intros [H|H]; apply round_file_purged;
    [eapply bufs_glob_round_file | eapply idxs_glob_round_file]; eassumption.
Qed.

Lemma globs_are_round_files r n :
  is_bufs_of r n = true \/ is_idxs_of r n = true -> is_round_file n = true.
Proof.
  intros [H|H]; [eapply bufs_glob_round_file | eapply idxs_glob_round_file]; eassumption.
Qed.

Lemma final_names_purged :
  is_purged "clusters.pkl" = true /\ is_purged "cluster-centroids-packed.pkl" = true.
Proof. split; reflexivity. Qed.

Lemma final_names_not_round_files :
  is_round_file "clusters.pkl" = false /\ is_round_file "cluster-centroids-packed.pkl" = false.
Proof. split; reflexivity. Qed.

(* every file written by the workflow is named by a name the matching glob finds *)
Lemma bufs_name_glob r l w : is_bufs_of r (bufs_name r l w) = true.
Proof.
  unfold is_bufs_of, bufs_name.
  replace ("round-" ++ str_of_Z r ++ "-bufs" ++ file_suffix l w ++ ".npy")%string
    with (("round-" ++ str_of_Z r ++ "-bufs") ++ file_suffix l w ++ ".npy")%string.
  - rewrite prefix_app. cbn [andb].
    change (has_suffix ".npy" (("round-" ++ str_of_Z r ++ "-bufs") ++ file_suffix l w ++ ".npy")%string = true).
    do 2 apply has_suffix_app. reflexivity.
  - cbn [append]. f_equal. f_equal. f_equal. f_equal. f_equal. f_equal.
    induction (str_of_Z r); cbn [append]; congruence.
Qed.

(* ================================================================================ *)
(* 4. agreement on the names the workflow looks at                                  *)
(* ================================================================================ *)
Definition agree (d e : dir) : Prop := forall n, is_purged n = true -> dir_get d n = dir_get e n.

Lemma agree_refl d : agree d d.
Proof. intros n _. reflexivity. Qed.

Lemma agree_sym d e : agree d e -> agree e d.
Proof. intros H n Hn. symmetry. auto. Qed.

Lemma agree_puts d e ws : agree d e -> agree (dir_puts d ws) (dir_puts e ws).
Proof. intros H n Hn. apply dir_get_puts_cong. auto. Qed.

Definition keep_purged (d : dir) : dir := dir_remove d (fun n => negb (is_purged n)).

Lemma keep_purged_eq d e : dir_wf d -> dir_wf e -> agree d e -> keep_purged d = keep_purged e.
Proof.
  intros Hd He H. apply dir_ext; try (apply dir_remove_wf; assumption).
  intro n. unfold keep_purged. rewrite !dir_get_remove.
  destruct (is_purged n) eqn:E; cbn [negb]; auto.
Qed.

Lemma filter_keep_purged p d :
  (forall n, p n = true -> is_purged n = true) ->
  filter p (dir_names (keep_purged d)) = filter p (dir_names d).
Proof.
  intro Hp. unfold keep_purged, dir_remove, dir_names.
  induction d as [|[k x] tl IH]; cbn [filter map fst]; auto.
  destruct (is_purged k) eqn:Ek; cbn [negb map fst filter].
  - rewrite IH. reflexivity.
  - rewrite IH. destruct (p k) eqn:Epk; auto. apply Hp in Epk. congruence.
Qed.

Lemma filter_names_agree p d e :
  (forall n, p n = true -> is_purged n = true) ->
  dir_wf d -> dir_wf e -> agree d e ->
  filter p (dir_names d) = filter p (dir_names e).
Proof.
  intros Hp Hd He H.
  rewrite <- (filter_keep_purged p d Hp), <- (filter_keep_purged p e Hp).
  rewrite (keep_purged_eq d e); auto.
Qed.

(* ================================================================================ *)
(* 5. every stage only depends on the purged names                                  *)
(* ================================================================================ *)
(* lists of glob-matching name pairs *)
Definition gp (ps : list (string * string)) : Prop :=
  Forall (fun p => is_purged (fst p) = true /\ is_purged (snd p) = true) ps.

Lemma prev_pairs_gp d r : gp (prev_pairs d r).
Proof.
  unfold gp, prev_pairs. rewrite Forall_forall. intros [a b] H.
  pose proof (in_combine_l _ _ _ _ H) as Ha. pose proof (in_combine_r _ _ _ _ H) as Hb.
  apply filter_In in Ha, Hb. cbn [fst snd].
  split; eapply globs_are_purged; [left; apply Ha | right; apply Hb].
Qed.

Lemma prev_pairs_agree d e r :
  dir_wf d -> dir_wf e -> agree d e -> prev_pairs d r = prev_pairs e r.
Proof.
  intros Hd He H. unfold prev_pairs.
  rewrite (filter_names_agree (is_bufs_of r) d e), (filter_names_agree (is_idxs_of r) d e); auto.
  - intros n Hn. eapply globs_are_purged. right. exact Hn.
  - intros n Hn. eapply globs_are_purged. left. exact Hn.
Qed.

Lemma name_bits_agree d e n : agree d e -> is_purged n = true -> name_bits d n = name_bits e n.
Proof. intros H Hn. unfold name_bits. rewrite (H n Hn). reflexivity. Qed.

Lemma Forall_ins_bits (P : string * string -> Prop) d x l :
  P x -> Forall P l -> Forall P (ins_bits d x l).
Proof.
  intros Hx. induction 1 as [|y l Hy Hl IH]; cbn [ins_bits].
  - constructor; auto.
  - destruct (name_bits d (fst y) <=? name_bits d (fst x)); repeat constructor; auto.
Qed.

Lemma Forall_sort_batch (P : string * string -> Prop) d l :
  Forall P l -> Forall P (sort_batch d l).
Proof.
  unfold sort_batch. induction 1; cbn [fold_right]; [constructor|].
  apply Forall_ins_bits; auto.
Qed.

Lemma ins_bits_agree d e x l :
  agree d e -> is_purged (fst x) = true -> gp l -> ins_bits d x l = ins_bits e x l.
Proof.
  intros H Hx. induction 1 as [|y l [Hy _] Hl IH]; cbn [ins_bits]; auto.
  rewrite (name_bits_agree d e _ H Hy), (name_bits_agree d e _ H Hx), IH. reflexivity.
Qed.

Lemma sort_batch_agree d e l : agree d e -> gp l -> sort_batch d l = sort_batch e l.
Proof.
  intros H. unfold sort_batch. induction 1 as [|x l [Hx Hx'] Hl IH]; cbn [fold_right]; auto.
  rewrite IH. apply ins_bits_agree; auto.
  apply (Forall_sort_batch _ e l Hl).
Qed.

Lemma read_pairs_agree d e ps : agree d e -> gp ps -> read_pairs d ps = read_pairs e ps.
Proof.
  intros H. unfold read_pairs. induction 1 as [|x l [Hx Hx'] Hl IH]; cbn [flat_map]; auto.
  rewrite IH, (H _ Hx), (H _ Hx'). reflexivity.
Qed.

Lemma Forall_batched_fuel {A} (P : A -> Prop) n fuel : forall l,
  Forall P l -> Forall (Forall P) (batched_fuel fuel n l).
Proof.
  induction fuel as [|f IH]; intros l H; cbn [batched_fuel]; [constructor|].
  destruct l as [|a l]; [constructor|].
  rewrite <- (firstn_skipn n (a :: l)) in H. apply Forall_app in H. destruct H as [H1 H2].
  constructor; auto.
Qed.

Lemma Forall_batched {A} (P : A -> Prop) n l : Forall P l -> Forall (Forall P) (batched n l).
Proof. apply Forall_batched_fuel. Qed.

Lemma Forall_with_idxs {A} (Q : list A -> Prop) bs : forall i,
  Forall Q bs -> Forall (fun p => Q (snd p)) (with_idxs i bs).
Proof.
  induction bs as [|b bs IH]; intros i H; cbn [with_idxs]; [constructor|].
  inversion H; subst. constructor; auto.
Qed.

Lemma batches_agree d e r bin :
  dir_wf d -> dir_wf e -> agree d e -> batches d r bin = batches e r bin.
Proof.
  intros Hd He H. unfold batches. rewrite (prev_pairs_agree d e r Hd He H).
  apply map_ext_in. intros [i b] Hin. cbn [fst snd]. f_equal.
  apply sort_batch_agree; auto.
  pose proof (Forall_with_idxs gp _ 0 (Forall_batched _ bin _ (prev_pairs_gp e r))) as HF.
  rewrite Forall_forall in HF. apply (HF _ Hin).
Qed.

Lemma batches_gp d r bin : Forall (fun b => gp (snd b)) (batches d r bin).
Proof.
  unfold batches. apply Forall_map.
  pose proof (Forall_with_idxs gp _ 0 (Forall_batched _ bin _ (prev_pairs_gp d r))) as HF.
  eapply Forall_impl; [|exact HF]. intros [i b] Hb. cbn [fst snd] in *.
  apply Forall_sort_batch. exact Hb.
Qed.

Section WithExp.
Variable fexp : float -> float.

Lemma merging_tasks_agree c d e r rows :
  dir_wf d -> dir_wf e -> agree d e ->
  merging_tasks fexp c d r rows = merging_tasks fexp c e r rows.
Proof.
  intros Hd He H. unfold merging_tasks. rewrite (batches_agree d e _ _ Hd He H).
  apply map_ext_in. intros b Hb. f_equal.
  apply read_pairs_agree; auto.
  pose proof (batches_gp e (r - 1) (m_bin c)) as HF. rewrite Forall_forall in HF. auto.
Qed.

(* ================================================================================ *)
(* 6. the ordered list of writes of a run                                           *)
(* ================================================================================ *)
Definition writes := list (string * content).

(* all writes of a round, in serial order; None if some task fails *)
Definition tasks_writes (ts : list task_result) : option writes :=
  fold_right (fun t acc => match t, acc with
                           | Some w, Some a => Some (w ++ a)
                           | _, _ => None end) (Some []) ts.

Fixpoint mid_writes (c : mr_cfg) (rows : list fpv) (k : nat) (r : Z) (d : dir) : option writes :=
  match k with
  | O => Some []
  | S k' =>
      match tasks_writes (merging_tasks fexp c d r rows) with
      | None => None
      | Some w =>
          match mid_writes c rows k' (r + 1) (dir_puts d w) with
          | None => None
          | Some w' => Some (w ++ w')
          end
      end
  end.

(* the writes of a run whose (already purged) start directory is [d1] *)
Definition writes_from (d1 : dir) (c : mr_cfg) (files : list (list fpv)) : option writes :=
  match tasks_writes (initial_tasks fexp c files) with
  | None => None
  | Some w1 =>
      let d2 := dir_puts d1 w1 in
      match mid_writes c (List.concat files) (m_rounds c) 2 d2 with
      | None => None
      | Some w2 =>
          let d3 := dir_puts d2 w2 in
          match final_task fexp c (read_pairs d3 (prev_pairs d3 (2 + Z.of_nat (m_rounds c) - 1))) with
          | None => None
          | Some w3 => Some (w1 ++ w2 ++ w3)
          end
      end
  end.

(* R4: all writes of a run from the empty directory *)
Definition mr_writes (c : mr_cfg) (files : list (list fpv)) : option writes :=
  writes_from [] c files.

Lemma run_tasks_fail ts :
  fold_left (fun (acc : option dir) (t : task_result) =>
               match acc, t with Some d', Some ws => Some (dir_puts d' ws) | _, _ => None end)
            ts None = None.
Proof. induction ts as [|t ts IH]; cbn [fold_left]; auto. Qed.

Lemma run_tasks_writes ts : forall d,
  run_tasks d ts = option_map (dir_puts d) (tasks_writes ts).
Proof.
  induction ts as [|t ts IH]; intro d.
  - reflexivity.
  - unfold run_tasks. cbn [fold_left tasks_writes fold_right]. destruct t as [w|].
    + change (run_tasks (dir_puts d w) ts =
              option_map (dir_puts d) match tasks_writes ts with
                                      | Some a => Some (w ++ a) | None => None end).
      rewrite IH. destruct (tasks_writes ts); cbn [option_map]; auto.
      rewrite dir_puts_app. reflexivity.
    + rewrite run_tasks_fail. reflexivity.
Qed.

Lemma mid_rounds_writes c rows k : forall r d,
  mid_rounds fexp c rows k r d = option_map (dir_puts d) (mid_writes c rows k r d).
Proof.
  induction k as [|k IH]; intros r d; cbn [mid_rounds mid_writes].
  - reflexivity.
  - rewrite run_tasks_writes. destruct (tasks_writes _) as [w|]; cbn [option_map]; auto.
    rewrite IH. destruct (mid_writes _ _ _ _ _) as [w'|]; cbn [option_map]; auto.
    rewrite dir_puts_app. reflexivity.
Qed.

Definition finish (c : mr_cfg) (d : dir) : dir :=
  if m_cleanup c then dir_remove d is_round_file else d.

Lemma run_multiround_writes c files d0 :
  run_multiround fexp c files d0 =
  option_map (fun ws => finish c (dir_puts (dir_remove d0 is_purged) ws))
             (writes_from (dir_remove d0 is_purged) c files).
Proof.
  unfold run_multiround, writes_from. cbv zeta.
  rewrite run_tasks_writes. destruct (tasks_writes _) as [w1|]; cbn [option_map]; auto.
  rewrite mid_rounds_writes. destruct (mid_writes _ _ _ _ _) as [w2|]; cbn [option_map]; auto.
  destruct (final_task _ _ _) as [w3|]; cbn [option_map]; auto.
  rewrite !dir_puts_app. reflexivity.
Qed.

(* the writes do not depend on leftovers *)
Lemma mid_writes_agree c rows k : forall r d e,
  dir_wf d -> dir_wf e -> agree d e -> mid_writes c rows k r d = mid_writes c rows k r e.
Proof.
  induction k as [|k IH]; intros r d e Hd He H; cbn [mid_writes]; auto.
  rewrite (merging_tasks_agree c d e r rows Hd He H).
  destruct (tasks_writes _) as [w|]; auto.
  rewrite (IH (r + 1) (dir_puts d w) (dir_puts e w)); auto using dir_puts_wf, agree_puts.
Qed.

Lemma writes_from_agree c files d e :
  dir_wf d -> dir_wf e -> agree d e -> writes_from d c files = writes_from e c files.
Proof.
  intros Hd He H. unfold writes_from. cbv zeta.
  destruct (tasks_writes _) as [w1|]; auto.
  assert (H2 : agree (dir_puts d w1) (dir_puts e w1)) by (apply agree_puts; auto).
  assert (Hd2 : dir_wf (dir_puts d w1)) by (apply dir_puts_wf; auto).
  assert (He2 : dir_wf (dir_puts e w1)) by (apply dir_puts_wf; auto).
  rewrite (mid_writes_agree c _ _ _ _ _ Hd2 He2 H2).
  destruct (mid_writes _ _ _ _ _) as [w2|]; auto.
  assert (H3 : agree (dir_puts (dir_puts d w1) w2) (dir_puts (dir_puts e w1) w2))
    by (apply agree_puts; auto).
  assert (Hd3 : dir_wf (dir_puts (dir_puts d w1) w2)) by (apply dir_puts_wf; auto).
  assert (He3 : dir_wf (dir_puts (dir_puts e w1) w2)) by (apply dir_puts_wf; auto).
  rewrite (prev_pairs_agree _ _ _ Hd3 He3 H3).
  rewrite (read_pairs_agree _ _ _ H3 (prev_pairs_gp _ _)). reflexivity.
Qed.

Lemma purged_agree_nil d0 : agree (dir_remove d0 is_purged) [].
Proof. intros n Hn. rewrite dir_get_remove, Hn. reflexivity. Qed.

Lemma writes_from_purged c files d0 :
  dir_wf d0 -> writes_from (dir_remove d0 is_purged) c files = mr_writes c files.
Proof.
  intro H. apply writes_from_agree; auto using dir_remove_wf, dir_wf_nil, purged_agree_nil.
Qed.

(* R4, equation *)
Theorem run_multiround_mr_writes c files d0 :
  dir_wf d0 -> m_cleanup c = false ->
  run_multiround fexp c files d0 =
  option_map (dir_puts (dir_remove d0 is_purged)) (mr_writes c files).
Proof.
  intros H Hc. rewrite run_multiround_writes, writes_from_purged by assumption.
  unfold finish. rewrite Hc. reflexivity.
Qed.

(* general form, cleanup or not *)
Theorem run_multiround_mr_writes_gen c files d0 :
  dir_wf d0 ->
  run_multiround fexp c files d0 =
  option_map (fun ws => finish c (dir_puts (dir_remove d0 is_purged) ws)) (mr_writes c files).
Proof.
  intros H. rewrite run_multiround_writes, writes_from_purged by assumption. reflexivity.
Qed.

(* ================================================================================ *)
(* 7. the names of the writes                                                       *)
(* ================================================================================ *)
Definition rf_writes (ws : writes) : Prop := Forall (fun e => is_round_file (fst e) = true) ws.
(* what the final task returns: the centroids first (if requested), the clusters last *)
Definition final_shape (ws : writes) : Prop :=
  exists y, ws = [("clusters.pkl"%string, y)] \/
            exists x, ws = [("cluster-centroids-packed.pkl"%string, x); ("clusters.pkl"%string, y)].

Lemma save_groups_rf r l gs : rf_writes (save_groups r l gs).
Proof.
  unfold rf_writes, save_groups. induction gs as [|[w g] gs IH]; cbn [flat_map app].
  - constructor.
  - constructor; [apply bufs_name_round_file|].
    constructor; [apply idxs_name_round_file|]. exact IH.
Qed.

Ltac break_match :=
  match goal with
  | |- context [match ?x with _ => _ end] => destruct x eqn:?
  end.

Lemma initial_task_rf c l rows s ws : initial_task fexp c l rows s = Some ws -> rf_writes ws.
Proof.
  unfold initial_task.
  repeat break_match; try discriminate; intros [= <-]; apply save_groups_rf.
Qed.

Lemma merging_task_rf c r l pairs rows ws :
  merging_task fexp c r l pairs rows = Some ws -> rf_writes ws.
Proof.
  unfold merging_task.
  repeat break_match; try discriminate; intros [= <-]; apply save_groups_rf.
Qed.

Lemma final_task_shape c pairs ws : final_task fexp c pairs = Some ws -> final_shape ws.
Proof.
  unfold final_task, final_shape. cbv zeta.
  repeat break_match; try discriminate; intros [= <-]; eexists; [right; eexists|left]; reflexivity.
Qed.

Definition tasks_rf (ts : list task_result) : Prop :=
  Forall (fun t => forall w, t = Some w -> rf_writes w) ts.

Lemma initial_tasks_rf c files : tasks_rf (initial_tasks fexp c files).
Proof.
  unfold tasks_rf, initial_tasks. apply Forall_map. rewrite Forall_forall.
  intros [[l rows] s] _ w. apply initial_task_rf.
Qed.

Lemma merging_tasks_rf c d r rows : tasks_rf (merging_tasks fexp c d r rows).
Proof.
  unfold tasks_rf, merging_tasks. apply Forall_map. rewrite Forall_forall.
  intros b _ w. apply merging_task_rf.
Qed.

Lemma tasks_writes_rf ts : tasks_rf ts -> forall ws, tasks_writes ts = Some ws -> rf_writes ws.
Proof.
  induction 1 as [|t ts Ht Hts IH]; cbn [tasks_writes fold_right]; intros ws.
  - intros [= <-]. constructor.
  - destruct t as [w|]; [|discriminate].
    change (match tasks_writes ts with Some a => Some (w ++ a) | None => None end = Some ws
            -> rf_writes ws).
    destruct (tasks_writes ts) as [a|]; [|discriminate]. intros [= <-].
    apply Forall_app. split; [apply Ht; reflexivity | apply IH; reflexivity].
Qed.

Lemma mid_writes_rf c rows k : forall r d ws, mid_writes c rows k r d = Some ws -> rf_writes ws.
Proof.
  induction k as [|k IH]; intros r d ws; cbn [mid_writes].
  - intros [= <-]. constructor.
  - destruct (tasks_writes _) as [w|] eqn:Ew; [|discriminate].
    destruct (mid_writes _ _ _ _ _) as [w'|] eqn:Ew'; [|discriminate]. intros [= <-].
    apply Forall_app. split.
    + eapply tasks_writes_rf; [apply merging_tasks_rf | exact Ew].
    + eapply IH. exact Ew'.
Qed.

(* the intermediate writes are round files, then comes the final task *)
Lemma writes_from_shape d1 c files ws :
  writes_from d1 c files = Some ws ->
  exists w12 w3, ws = w12 ++ w3 /\ rf_writes w12 /\ final_shape w3.
Proof.
  unfold writes_from. cbv zeta.
  destruct (tasks_writes _) as [w1|] eqn:E1; [|discriminate].
  destruct (mid_writes _ _ _ _ _) as [w2|] eqn:E2; [|discriminate].
  destruct (final_task _ _ _) as [w3|] eqn:E3; [|discriminate]. intros [= <-].
  exists (w1 ++ w2), w3. rewrite app_assoc. refine (conj eq_refl (conj _ _)).
  - apply Forall_app. split.
    + eapply tasks_writes_rf; [apply initial_tasks_rf | exact E1].
    + eapply mid_writes_rf. exact E2.
  - eapply final_task_shape. exact E3.
Qed.

Lemma final_shape_purged w3 : final_shape w3 -> Forall (fun e => is_purged (fst e) = true) w3.
Proof.
  intros [y [->|[x ->]]]; repeat constructor.
Qed.

Lemma writes_from_purged_names d1 c files ws :
  writes_from d1 c files = Some ws -> Forall (fun e => is_purged (fst e) = true) ws.
Proof.
  intro H. apply writes_from_shape in H. destruct H as (w12 & w3 & -> & H12 & H3).
  apply Forall_app. split.
  - eapply Forall_impl; [|exact H12]. intros e. apply round_file_purged.
  - apply final_shape_purged, H3.
Qed.

(* ================================================================================ *)
(* 8. R2: leftovers are never consumed; R3: cleanup                                 *)
(* ================================================================================ *)
Lemma not_purged_not_round n : is_purged n = false -> is_round_file n = false.
Proof.
  intro H. destruct (is_round_file n) eqn:E; auto.
  rewrite (round_file_purged n E) in H. discriminate.
Qed.

Lemma finish_get c d n :
  dir_get (finish c d) n = if m_cleanup c && is_round_file n then None else dir_get d n.
Proof.
  unfold finish. destruct (m_cleanup c); cbn [andb]; auto. apply dir_get_remove.
Qed.

Lemma finish_wf c d : dir_wf d -> dir_wf (finish c d).
Proof. unfold finish. destruct (m_cleanup c); auto using dir_remove_wf. Qed.

Lemma dir_remove_nil p : dir_remove [] p = [].
Proof. reflexivity. Qed.

(* the result of a run with writes [ws], name by name *)
Lemma result_get c d0 ws n :
  Forall (fun e => is_purged (fst e) = true) ws ->
  dir_get (finish c (dir_puts (dir_remove d0 is_purged) ws)) n =
  if is_purged n then dir_get (finish c (dir_puts [] ws)) n else dir_get d0 n.
Proof.
  intro Hws. rewrite !finish_get. destruct (is_purged n) eqn:En.
  - destruct (m_cleanup c && is_round_file n); auto.
    apply dir_get_puts_cong. rewrite dir_get_remove, En. reflexivity.
  - rewrite (not_purged_not_round n En), andb_false_r.
    rewrite dir_get_puts_other.
    + rewrite dir_get_remove, En. reflexivity.
    + eapply Forall_impl; [|exact Hws]. intros e He Heq. cbv beta in He. congruence.
Qed.

(* R2, main theorem: d0 is arbitrary — any crash point of any earlier run *)
Theorem rerun_equals_fresh c files d0 :
  dir_wf d0 ->
  match run_multiround fexp c files d0, run_multiround fexp c files [] with
  | Some d, Some e =>
      dir_get d "clusters.pkl" = dir_get e "clusters.pkl" /\
      dir_get d "cluster-centroids-packed.pkl" = dir_get e "cluster-centroids-packed.pkl" /\
      (forall n, is_purged n = true -> dir_get d n = dir_get e n) /\
      (forall n, is_purged n = false -> dir_get d n = dir_get d0 n)
  | None, None => True
  | _, _ => False
  end.
Proof.
  intro H.
  rewrite (run_multiround_mr_writes_gen c files d0 H),
          (run_multiround_mr_writes_gen c files [] dir_wf_nil), dir_remove_nil.
  destruct (mr_writes c files) as [ws|] eqn:E; cbn [option_map]; auto.
  pose proof (writes_from_purged_names _ _ _ _ E) as Hws.
  assert (Hp : forall n, is_purged n = true ->
     dir_get (finish c (dir_puts (dir_remove d0 is_purged) ws)) n =
     dir_get (finish c (dir_puts [] ws)) n).
  { intros n Hn. rewrite result_get, Hn by assumption. reflexivity. }
  refine (conj (Hp "clusters.pkl"%string eq_refl)
            (conj (Hp "cluster-centroids-packed.pkl"%string eq_refl) (conj Hp _))).
  intros n Hn. rewrite result_get, Hn by assumption. reflexivity.
Qed.

(* "fails from d0 iff fails from the empty directory" *)
Corollary rerun_fails_iff c files d0 :
  dir_wf d0 ->
  (run_multiround fexp c files d0 = None <-> run_multiround fexp c files [] = None).
Proof.
  intro H. pose proof (rerun_equals_fresh c files d0 H) as R.
  destruct (run_multiround fexp c files d0), (run_multiround fexp c files []);
    try contradiction; split; auto; discriminate.
Qed.

(* a fresh run only ever holds names the workflow owns *)
Lemma fresh_run_names c files e n :
  run_multiround fexp c files [] = Some e -> is_purged n = false -> dir_get e n = None.
Proof.
  intros He Hn. pose proof (rerun_equals_fresh c files [] dir_wf_nil) as R.
  rewrite He in R. destruct R as (_ & _ & _ & R). rewrite (R n Hn). reflexivity.
Qed.

(* union formulation *)
Definition junk (d : dir) : Prop := forall n, In n (dir_names d) -> is_purged n = false.
Definition dir_union (d j : dir) : dir := dir_puts d j.

Lemma dir_union_wf d j : dir_wf d -> dir_wf (dir_union d j).
Proof. apply dir_puts_wf. Qed.

Lemma junk_remove d0 : junk (dir_remove d0 is_purged).
Proof.
  intros n Hn. apply dir_get_names in Hn. rewrite dir_get_remove in Hn.
  destruct (is_purged n); congruence.
Qed.

Lemma junk_agree d j : junk j -> agree (dir_union d j) d.
Proof.
  intros Hj n Hn. unfold dir_union. apply dir_get_puts_other.
  rewrite Forall_forall. intros [k x] Hin Heq. cbn [fst] in Heq. subst k.
  rewrite (Hj n) in Hn; [discriminate|]. unfold dir_names. apply in_map_iff.
  exists (n, x). auto.
Qed.

Theorem rerun_frame c files d0 :
  dir_wf d0 ->
  run_multiround fexp c files d0 =
  option_map (fun d => dir_union d (dir_remove d0 is_purged)) (run_multiround fexp c files []).
Proof.
  intro H.
  rewrite (run_multiround_mr_writes_gen c files d0 H),
          (run_multiround_mr_writes_gen c files [] dir_wf_nil), dir_remove_nil.
  destruct (mr_writes c files) as [ws|] eqn:E; cbn [option_map]; auto. f_equal.
  pose proof (writes_from_purged_names _ _ _ _ E) as Hws.
  apply dir_ext.
  - apply finish_wf, dir_puts_wf, dir_remove_wf, H.
  - apply dir_union_wf, finish_wf, dir_puts_wf, dir_wf_nil.
  - intro n. unfold dir_union.
    rewrite (dir_get_puts_wf _ n _ (dir_remove_wf d0 is_purged H)).
    rewrite (result_get c d0 ws n Hws), dir_get_remove.
    destruct (is_purged n) eqn:En; auto.
    destruct (dir_get d0 n) eqn:Ed; auto.
    pose proof (result_get c [] ws n Hws) as R. rewrite En, dir_remove_nil in R.
    rewrite R. reflexivity.
Qed.

(* every stage ignores junk *)
Lemma prev_pairs_junk d j r :
  dir_wf d -> junk j -> prev_pairs (dir_union d j) r = prev_pairs d r.
Proof. intros Hd Hj. apply prev_pairs_agree; auto using dir_union_wf, junk_agree. Qed.

Lemma read_pairs_junk d j ps :
  junk j -> gp ps -> read_pairs (dir_union d j) ps = read_pairs d ps.
Proof. intros Hj Hps. apply read_pairs_agree; auto using junk_agree. Qed.

Lemma sort_batch_junk d j ps :
  junk j -> gp ps -> sort_batch (dir_union d j) ps = sort_batch d ps.
Proof. intros Hj Hps. apply sort_batch_agree; auto using junk_agree. Qed.

Lemma batches_junk d j r bin :
  dir_wf d -> junk j -> batches (dir_union d j) r bin = batches d r bin.
Proof. intros Hd Hj. apply batches_agree; auto using dir_union_wf, junk_agree. Qed.

Lemma merging_tasks_junk c d j r rows :
  dir_wf d -> junk j ->
  merging_tasks fexp c (dir_union d j) r rows = merging_tasks fexp c d r rows.
Proof. intros Hd Hj. apply merging_tasks_agree; auto using dir_union_wf, junk_agree. Qed.

Lemma mid_writes_junk c rows k r d j :
  dir_wf d -> junk j -> mid_writes c rows k r (dir_union d j) = mid_writes c rows k r d.
Proof. intros Hd Hj. apply mid_writes_agree; auto using dir_union_wf, junk_agree. Qed.

Lemma writes_from_junk c files d j :
  dir_wf d -> junk j -> writes_from (dir_union d j) c files = writes_from d c files.
Proof. intros Hd Hj. apply writes_from_agree; auto using dir_union_wf, junk_agree. Qed.

(* R3: cleanup (no hypothesis on d0) *)
Theorem cleanup_leaves_no_round_files c files d0 d :
  m_cleanup c = true -> run_multiround fexp c files d0 = Some d ->
  forall n, is_round_file n = true -> dir_get d n = None.
Proof.
  intros Hc Hr n Hn. rewrite run_multiround_writes in Hr.
  destruct (writes_from _ _ _) as [ws|]; [|discriminate]. cbn [option_map] in Hr.
  injection Hr as <-. rewrite finish_get, Hc, Hn. reflexivity.
Qed.


(* ================================================================================ *)
(* 9. R4: no partial final file                                                     *)
(* ================================================================================ *)
Lemma Forall_firstn' {A} (P : A -> Prop) k l : Forall P l -> Forall P (firstn k l).
Proof.
  intro H. rewrite <- (firstn_skipn k l) in H. apply Forall_app in H. tauto.
Qed.

Lemma rf_not_clusters (e : string * content) : is_round_file (fst e) = true -> fst e <> "clusters.pkl"%string.
Proof. intros H Heq. rewrite Heq in H. vm_compute in H. discriminate. Qed.

Lemma rf_not_centroids (e : string * content) :
  is_round_file (fst e) = true -> fst e <> "cluster-centroids-packed.pkl"%string.
Proof. intros H Heq. rewrite Heq in H. vm_compute in H. discriminate. Qed.

(* "clusters.pkl" is the LAST write and no earlier write has that name *)
Lemma writes_from_last d1 c files ws :
  writes_from d1 c files = Some ws ->
  exists pre y, ws = pre ++ [("clusters.pkl"%string, y)] /\
                Forall (fun e => fst e <> "clusters.pkl"%string) pre.
Proof.
  intro H. apply writes_from_shape in H. destruct H as (w12 & w3 & -> & H12 & H3).
  assert (H12' : Forall (fun e : string * content => fst e <> "clusters.pkl"%string) w12).
  { eapply Forall_impl; [|exact H12]. intros e. apply rf_not_clusters. }
  destruct H3 as [y [->|[x ->]]].
  - exists w12, y. auto.
  - exists (w12 ++ [("cluster-centroids-packed.pkl"%string, x)]), y.
    rewrite <- app_assoc. split; [reflexivity|].
    apply Forall_app. split; auto. constructor; [|constructor]. cbn [fst]. discriminate.
Qed.

Lemma no_partial_final_gen d1 c files ws k :
  writes_from d1 c files = Some ws ->
  forall d, dir_get d "clusters.pkl" = None ->
  dir_get (dir_puts d (firstn k ws)) "clusters.pkl" = None \/ (List.length ws <= k)%nat.
Proof.
  intros H d Hd. destruct (le_lt_dec (List.length ws) k) as [Hk|Hk]; [right; exact Hk | left].
  apply writes_from_last in H. destruct H as (pre & y & -> & Hpre).
  rewrite app_length in Hk. cbn [List.length] in Hk.
  rewrite firstn_app. replace (k - List.length pre)%nat with 0%nat by lia.
  cbn [firstn]. rewrite app_nil_r.
  rewrite dir_get_puts_other; auto. apply Forall_firstn', Hpre.
Qed.

(* The statement as requested, [... = None \/ k = length ws], is false for k > length ws
   (then [firstn k ws = ws], the run is complete and the file is there); the true statement
   has [length ws <= k]. *)
Theorem no_partial_final_alt c files d0 ws k :
  mr_writes c files = Some ws -> dir_wf d0 ->
  let d := dir_puts (dir_remove d0 is_purged) (firstn k ws) in
  dir_get d "clusters.pkl" = None \/ (List.length ws <= k)%nat.
Proof.
  intros H _. cbv zeta. eapply no_partial_final_gen; [exact H|].
  rewrite dir_get_remove. reflexivity.
Qed.

(* ... which is the requested statement for every k that is a number of completed writes *)
Corollary no_partial_final_le c files d0 ws k :
  mr_writes c files = Some ws -> dir_wf d0 -> (k <= List.length ws)%nat ->
  let d := dir_puts (dir_remove d0 is_purged) (firstn k ws) in
  dir_get d "clusters.pkl" = None \/ k = List.length ws.
Proof.
  intros H Hd Hk. destruct (no_partial_final_alt c files d0 ws k H Hd) as [E|E]; [left|right]; auto.
  lia.
Qed.

(* conversely the complete run does produce it *)
Lemma complete_run_has_final c files ws d :
  mr_writes c files = Some ws -> exists y, dir_get (dir_puts d ws) "clusters.pkl" = Some y.
Proof.
  intro H. apply writes_from_last in H. destruct H as (pre & y & -> & _).
  exists y. rewrite dir_puts_app. cbn [dir_puts fold_left fst snd].
  rewrite dir_get_put, String.eqb_refl. reflexivity.
Qed.

(* ---- failing runs: the writes performed before the failure ---- *)
Fixpoint tasks_writes_partial (ts : list task_result) : writes :=
  match ts with
  | [] => []
  | Some w :: tl => w ++ tasks_writes_partial tl
  | None :: _ => []
  end.

Fixpoint mid_writes_partial (c : mr_cfg) (rows : list fpv) (k : nat) (r : Z) (d : dir) : writes :=
  match k with
  | O => []
  | S k' =>
      match tasks_writes (merging_tasks fexp c d r rows) with
      | None => tasks_writes_partial (merging_tasks fexp c d r rows)
      | Some w => w ++ mid_writes_partial c rows k' (r + 1) (dir_puts d w)
      end
  end.

Definition writes_partial_from (d1 : dir) (c : mr_cfg) (files : list (list fpv)) : writes :=
  match tasks_writes (initial_tasks fexp c files) with
  | None => tasks_writes_partial (initial_tasks fexp c files)
  | Some w1 =>
      let d2 := dir_puts d1 w1 in
      match mid_writes c (List.concat files) (m_rounds c) 2 d2 with
      | None => w1 ++ mid_writes_partial c (List.concat files) (m_rounds c) 2 d2
      | Some w2 =>
          let d3 := dir_puts d2 w2 in
          match final_task fexp c (read_pairs d3 (prev_pairs d3 (2 + Z.of_nat (m_rounds c) - 1))) with
          | None => w1 ++ w2
          | Some w3 => w1 ++ w2 ++ w3
          end
      end
  end.

(* the writes done (in serial order) by a run from the empty directory, whether it succeeds or
   fails: the tasks of a round that come before the first failing task have written *)
Definition mr_writes_partial (c : mr_cfg) (files : list (list fpv)) : writes :=
  writes_partial_from [] c files.

Lemma tasks_writes_partial_complete ts : forall w,
  tasks_writes ts = Some w -> tasks_writes_partial ts = w.
Proof.
  induction ts as [|t ts IH]; cbn [tasks_writes fold_right tasks_writes_partial]; intro w.
  - intros [= <-]. reflexivity.
  - destruct t as [w0|]; [|discriminate].
    change (match tasks_writes ts with Some a => Some (w0 ++ a) | None => None end = Some w
            -> w0 ++ tasks_writes_partial ts = w).
    destruct (tasks_writes ts) as [a|]; [|discriminate]. intros [= <-].
    rewrite (IH a eq_refl). reflexivity.
Qed.

Lemma mid_writes_partial_complete c rows k : forall r d w,
  mid_writes c rows k r d = Some w -> mid_writes_partial c rows k r d = w.
Proof.
  induction k as [|k IH]; intros r d w; cbn [mid_writes mid_writes_partial].
  - intros [= <-]. reflexivity.
  - destruct (tasks_writes _) as [w0|]; [|discriminate].
    destruct (mid_writes _ _ _ _ _) as [w'|] eqn:E; [|discriminate]. intros [= <-].
    rewrite (IH _ _ _ E). reflexivity.
Qed.

Lemma writes_partial_complete d1 c files ws :
  writes_from d1 c files = Some ws -> writes_partial_from d1 c files = ws.
Proof.
  unfold writes_from, writes_partial_from. cbv zeta.
  destruct (tasks_writes _) as [w1|]; [|discriminate].
  destruct (mid_writes _ _ _ _ _) as [w2|]; [|discriminate].
  destruct (final_task _ _ _) as [w3|]; [|discriminate]. intros [= <-]. reflexivity.
Qed.

Lemma tasks_writes_partial_rf ts : tasks_rf ts -> rf_writes (tasks_writes_partial ts).
Proof.
  induction 1 as [|t ts Ht Hts IH]; cbn [tasks_writes_partial]; [constructor|].
  destruct t as [w|]; [|constructor]. apply Forall_app.
  split; [apply Ht; reflexivity | exact IH].
Qed.

Lemma mid_writes_partial_rf c rows k : forall r d, rf_writes (mid_writes_partial c rows k r d).
Proof.
  induction k as [|k IH]; intros r d; cbn [mid_writes_partial]; [constructor|].
  destruct (tasks_writes _) as [w|] eqn:E.
  - apply Forall_app. split; [|apply IH].
    eapply tasks_writes_rf; [apply merging_tasks_rf | exact E].
  - apply tasks_writes_partial_rf, merging_tasks_rf.
Qed.

(* a failing run has only written round files *)
Lemma writes_partial_failed_rf d1 c files :
  writes_from d1 c files = None -> rf_writes (writes_partial_from d1 c files).
Proof.
  unfold writes_from, writes_partial_from. cbv zeta.
  destruct (tasks_writes _) as [w1|] eqn:E1.
  - assert (H1 : rf_writes w1) by (eapply tasks_writes_rf; [apply initial_tasks_rf | exact E1]).
    destruct (mid_writes _ _ _ _ _) as [w2|] eqn:E2.
    + destruct (final_task _ _ _) as [w3|]; [discriminate|]. intros _.
      apply Forall_app. split; auto. eapply mid_writes_rf. exact E2.
    + intros _. apply Forall_app. split; auto. apply mid_writes_partial_rf.
  - intros _. apply tasks_writes_partial_rf, initial_tasks_rf.
Qed.

(* the partial writes do not depend on leftovers either *)
Lemma mid_writes_partial_agree c rows k : forall r d e,
  dir_wf d -> dir_wf e -> agree d e ->
  mid_writes_partial c rows k r d = mid_writes_partial c rows k r e.
Proof.
  induction k as [|k IH]; intros r d e Hd He H; cbn [mid_writes_partial]; auto.
  rewrite (merging_tasks_agree c d e r rows Hd He H).
  destruct (tasks_writes _) as [w|]; auto.
  rewrite (IH (r + 1) (dir_puts d w) (dir_puts e w)); auto using dir_puts_wf, agree_puts.
Qed.

Lemma writes_partial_from_agree c files d e :
  dir_wf d -> dir_wf e -> agree d e ->
  writes_partial_from d c files = writes_partial_from e c files.
Proof.
  intros Hd He H. unfold writes_partial_from. cbv zeta.
  destruct (tasks_writes _) as [w1|]; auto.
  assert (H2 : agree (dir_puts d w1) (dir_puts e w1)) by (apply agree_puts; auto).
  assert (Hd2 : dir_wf (dir_puts d w1)) by (apply dir_puts_wf; auto).
  assert (He2 : dir_wf (dir_puts e w1)) by (apply dir_puts_wf; auto).
  rewrite (mid_writes_agree c _ _ _ _ _ Hd2 He2 H2).
  rewrite (mid_writes_partial_agree c _ _ _ _ _ Hd2 He2 H2).
  destruct (mid_writes _ _ _ _ _) as [w2|]; auto.
  assert (H3 : agree (dir_puts (dir_puts d w1) w2) (dir_puts (dir_puts e w1) w2))
    by (apply agree_puts; auto).
  assert (Hd3 : dir_wf (dir_puts (dir_puts d w1) w2)) by (apply dir_puts_wf; auto).
  assert (He3 : dir_wf (dir_puts (dir_puts e w1) w2)) by (apply dir_puts_wf; auto).
  rewrite (prev_pairs_agree _ _ _ Hd3 He3 H3).
  rewrite (read_pairs_agree _ _ _ H3 (prev_pairs_gp _ _)). reflexivity.
Qed.

Lemma writes_partial_from_purged c files d0 :
  dir_wf d0 -> writes_partial_from (dir_remove d0 is_purged) c files = mr_writes_partial c files.
Proof.
  intro H. apply writes_partial_from_agree; auto using dir_remove_wf, dir_wf_nil, purged_agree_nil.
Qed.

Lemma mr_writes_partial_complete c files ws :
  mr_writes c files = Some ws -> mr_writes_partial c files = ws.
Proof. apply writes_partial_complete. Qed.

Lemma run_fails_iff_writes c files d0 :
  dir_wf d0 -> (run_multiround fexp c files d0 = None <-> mr_writes c files = None).
Proof.
  intro H. rewrite (run_multiround_mr_writes_gen c files d0 H).
  destruct (mr_writes c files); cbn [option_map]; split; auto; discriminate.
Qed.

(* R4, failing runs: whatever the crash/failure point, and after any number [k] of the file
   actions the failing run performed, the directory holds no final file (the purge removed the
   old ones and the run only wrote round files) *)
Theorem failed_run_no_final c files d0 k :
  dir_wf d0 -> run_multiround fexp c files d0 = None ->
  let d := dir_puts (dir_remove d0 is_purged) (firstn k (mr_writes_partial c files)) in
  dir_get d "clusters.pkl" = None /\ dir_get d "cluster-centroids-packed.pkl" = None.
Proof.
  intros H Hr. apply (run_fails_iff_writes c files d0 H) in Hr. cbv zeta.
  pose proof (writes_partial_failed_rf [] c files Hr) as Hrf.
  fold (mr_writes_partial c files) in Hrf.
  apply (Forall_firstn' _ k) in Hrf.
  split; (rewrite dir_get_puts_other; [rewrite dir_get_remove; reflexivity|]);
    (eapply Forall_impl; [|exact Hrf]); intro e; [apply rf_not_clusters | apply rf_not_centroids].
Qed.

(* ... and after ANY sub-collection of them, in any order: with several worker processes the file
   actions done when one of them fails are not a prefix of the sequential order *)
Theorem failed_run_no_final_subset c files d0 ws' :
  dir_wf d0 -> run_multiround fexp c files d0 = None ->
  incl ws' (mr_writes_partial c files) ->
  let d := dir_puts (dir_remove d0 is_purged) ws' in
  dir_get d "clusters.pkl" = None /\ dir_get d "cluster-centroids-packed.pkl" = None.
Proof.
  intros H Hr Hi. apply (run_fails_iff_writes c files d0 H) in Hr. cbv zeta.
  pose proof (writes_partial_failed_rf [] c files Hr) as Hrf.
  fold (mr_writes_partial c files) in Hrf.
  assert (Hrf' : rf_writes ws').
  { unfold rf_writes in *. apply Forall_forall. intros e He. rewrite Forall_forall in Hrf. apply Hrf, Hi, He. }
  split; (rewrite dir_get_puts_other; [rewrite dir_get_remove; reflexivity|]);
    (eapply Forall_impl; [|exact Hrf']); intro e; [apply rf_not_clusters | apply rf_not_centroids].
Qed.

(* in particular for all of them *)
Corollary failed_run_no_final_all c files d0 :
  dir_wf d0 -> run_multiround fexp c files d0 = None ->
  let d := dir_puts (dir_remove d0 is_purged) (mr_writes_partial c files) in
  dir_get d "clusters.pkl" = None /\ dir_get d "cluster-centroids-packed.pkl" = None.
Proof.
  intros H Hr. pose proof (failed_run_no_final c files d0 (List.length (mr_writes_partial c files)) H Hr) as R.
  rewrite firstn_all in R. exact R.
Qed.

End WithExp.

(* ================================================================================ *)
(* 10. decimal rendering: characterisation, injectivity, no sign                    *)
(* ================================================================================ *)
From Coq Require Import ZArith Wf_Z.

Definition dstr (d : Z) : string := String (digit_of d) EmptyString.

Lemma append_assoc (a b c : string) : ((a ++ b) ++ c = a ++ (b ++ c))%string.
Proof. induction a as [|x a IH]; cbn [append]; congruence. Qed.

Lemma append_nil_r (a : string) : (a ++ "")%string = a.
Proof. induction a as [|x a IH]; cbn [append]; congruence. Qed.

(* the accumulator is just appended *)
Lemma pos_fuel_acc fuel : forall z acc,
  str_of_pos_fuel fuel z acc = (str_of_pos_fuel fuel z "" ++ acc)%string.
Proof.
  induction fuel as [|f IH]; intros z acc; cbn [str_of_pos_fuel].
  - reflexivity.
  - destruct (z <? 10).
    + reflexivity.
    + rewrite (IH (z / 10) (String (digit_of (z mod 10)) acc)).
      rewrite (IH (z / 10) (String (digit_of (z mod 10)) "")).
      rewrite append_assoc. reflexivity.
Qed.

Lemma pow10_S f : 10 ^ Z.of_nat (S f) = 10 * 10 ^ Z.of_nat f.
Proof. rewrite Nat2Z.inj_succ, Z.pow_succ_r by lia. reflexivity. Qed.

Lemma pos_fuel_S f z acc :
  str_of_pos_fuel (S f) z acc =
  if z <? 10 then String (digit_of z) acc
  else str_of_pos_fuel f (z / 10) (String (digit_of (z mod 10)) acc).
Proof. reflexivity. Qed.

(* any sufficient fuel gives the same string *)
Lemma pos_fuel_indep f1 : forall f2 z,
  0 <= z < 10 ^ Z.of_nat (S f1) -> z < 10 ^ Z.of_nat (S f2) ->
  str_of_pos_fuel (S f1) z "" = str_of_pos_fuel (S f2) z "".
Proof.
  induction f1 as [|f1 IH]; intros f2 z H1 H2.
  - change (10 ^ Z.of_nat 1) with 10 in H1.
    rewrite (pos_fuel_S 0 z), (pos_fuel_S f2 z).
    destruct (Z.ltb_spec z 10); [reflexivity | lia].
  - rewrite (pos_fuel_S (S f1) z), (pos_fuel_S f2 z).
    destruct (Z.ltb_spec z 10) as [Hz|Hz]; [reflexivity|].
    destruct f2 as [|f2]; [change (10 ^ Z.of_nat 1) with 10 in H2; lia|].
    rewrite (pos_fuel_acc (S f1)), (pos_fuel_acc (S f2)). f_equal.
    rewrite pow10_S in H1, H2.
    apply IH.
    + split; [apply Z.div_pos; lia | apply Z.div_lt_upper_bound; lia].
    + apply Z.div_lt_upper_bound; lia.
Qed.

Lemma str_of_Z_fuel_bound z : 0 <= z -> z < 10 ^ Z.of_nat (S (S (Z.to_nat (Z.log2 z)))).
Proof.
  intro Hz. rewrite !Nat2Z.inj_succ, Z2Nat.id by apply Z.log2_nonneg.
  destruct (Z.eq_dec z 0) as [->|Hn].
  - cbn. lia.
  - pose proof (Z.log2_spec z ltac:(lia)) as [_ H].
    pose proof (Z.log2_nonneg z) as Hl.
    eapply Z.lt_le_trans; [exact H|].
    eapply Z.le_trans; [apply (Z.pow_le_mono_l 2 10); lia|].
    apply Z.pow_le_mono_r; lia.
Qed.

Lemma str_of_Z_fuel f z :
  0 <= z < 10 ^ Z.of_nat (S f) -> str_of_Z z = str_of_pos_fuel (S f) z "".
Proof.
  intros [H0 H1]. unfold str_of_Z. destruct (Z.ltb_spec z 0); [lia|].
  replace (Z.to_nat (Z.log2 z) + 2)%nat with (S (S (Z.to_nat (Z.log2 z)))) by lia.
  apply pos_fuel_indep; auto. split; auto. apply str_of_Z_fuel_bound, H0.
Qed.

(* clean characterisation *)
Lemma str_of_Z_small z : 0 <= z < 10 -> str_of_Z z = dstr z.
Proof.
  intro H. rewrite (str_of_Z_fuel 0) by (change (10 ^ Z.of_nat 1) with 10; lia).
  rewrite pos_fuel_S. destruct (Z.ltb_spec z 10); [reflexivity | lia].
Qed.

Lemma str_of_Z_step z : 10 <= z -> str_of_Z z = (str_of_Z (z / 10) ++ dstr (z mod 10))%string.
Proof.
  intro H.
  pose proof (str_of_Z_fuel_bound z ltac:(lia)) as Hb.
  rewrite (str_of_Z_fuel (S (Z.to_nat (Z.log2 z))) z) by lia.
  rewrite pos_fuel_S. destruct (Z.ltb_spec z 10); [lia|].
  rewrite pos_fuel_acc. f_equal. symmetry. apply str_of_Z_fuel.
  rewrite pow10_S in Hb.
  split; [apply Z.div_pos; lia | apply Z.div_lt_upper_bound; lia].
Qed.

(* strings of digits *)
Fixpoint str_all (P : ascii -> Prop) (s : string) : Prop :=
  match s with EmptyString => True | String c tl => P c /\ str_all P tl end.

Lemma str_all_app P a : forall b, str_all P (a ++ b)%string <-> str_all P a /\ str_all P b.
Proof.
  induction a as [|x a IH]; intro b; cbn [append str_all]; [tauto|].
  rewrite IH. tauto.
Qed.

Definition is_digit (c : ascii) : Prop := (48 <= nat_of_ascii c <= 57)%nat.

Lemma digit_of_nat d : 0 <= d < 10 -> nat_of_ascii (digit_of d) = (48 + Z.to_nat d)%nat.
Proof. intro H. unfold digit_of. apply nat_ascii_embedding. lia. Qed.

Lemma digit_of_is_digit d : 0 <= d < 10 -> is_digit (digit_of d).
Proof. intro H. unfold is_digit. rewrite digit_of_nat by assumption. lia. Qed.

Lemma digit_of_inj a b : 0 <= a < 10 -> 0 <= b < 10 -> digit_of a = digit_of b -> a = b.
Proof.
  intros Ha Hb H. apply (f_equal nat_of_ascii) in H. rewrite !digit_of_nat in H by assumption. lia.
Qed.

Lemma str_of_Z_digits : forall z, 0 <= z -> str_all is_digit (str_of_Z z).
Proof.
  apply (Zlt_0_ind (fun z => str_all is_digit (str_of_Z z))). intros z IH Hz.
  destruct (Z_lt_le_dec z 10) as [H|H].
  - rewrite str_of_Z_small by lia. cbn [dstr str_all]. split; auto. apply digit_of_is_digit. lia.
  - rewrite str_of_Z_step by assumption. apply str_all_app. split.
    + apply IH. split; [apply Z.div_pos; lia | apply Z.div_lt; lia].
    + cbn [dstr str_all]. split; auto. apply digit_of_is_digit. apply Z.mod_pos_bound. lia.
Qed.

(* never contains "-" *)
Lemma str_of_Z_no_dash z : 0 <= z -> str_all (fun c => c <> "-"%char) (str_of_Z z).
Proof.
  intro H. pose proof (str_of_Z_digits z H) as D. revert D.
  generalize (str_of_Z z). induction s as [|c s IH]; cbn [str_all]; auto.
  intros [Hc Hs]. split; auto. intros ->. unfold is_digit in Hc. cbn in Hc. lia.
Qed.

Lemma str_of_Z_nonempty z : 0 <= z -> str_of_Z z <> ""%string.
Proof.
  intro H. destruct (Z_lt_le_dec z 10).
  - rewrite str_of_Z_small by lia. discriminate.
  - rewrite str_of_Z_step by assumption. destruct (str_of_Z (z / 10)); discriminate.
Qed.

Lemma append_inj_last a : forall b x y,
  (a ++ String x "" = b ++ String y "")%string -> a = b /\ x = y.
Proof.
  induction a as [|k a IH]; intros [|k' b] x y; cbn [append].
  - intros [= ->]. auto.
  - intros [= -> H]. destruct b; discriminate.
  - intros [= -> H]. destruct a; discriminate.
  - intros [= -> H]. apply IH in H. destruct H as [-> ->]. auto.
Qed.

(* injectivity on non-negative integers *)
Lemma str_of_Z_inj : forall a, 0 <= a -> forall b, 0 <= b -> str_of_Z a = str_of_Z b -> a = b.
Proof.
  apply (Zlt_0_ind (fun a => forall b, 0 <= b -> str_of_Z a = str_of_Z b -> a = b)).
  intros a IH Ha b Hb H.
  destruct (Z_lt_le_dec a 10) as [Ha10|Ha10]; destruct (Z_lt_le_dec b 10) as [Hb10|Hb10].
  - rewrite !str_of_Z_small in H by lia. injection H as H. apply digit_of_inj; auto; lia.
  - rewrite str_of_Z_small in H by lia. rewrite (str_of_Z_step b) in H by assumption.
    exfalso. pose proof (str_of_Z_nonempty (b / 10) ltac:(apply Z.div_pos; lia)) as N.
    unfold dstr in H. destruct (str_of_Z (b / 10)) as [|k [|k' s]]; cbn [append] in H;
      [congruence | discriminate | discriminate].
  - rewrite (str_of_Z_small b) in H by lia. rewrite (str_of_Z_step a) in H by assumption.
    exfalso. pose proof (str_of_Z_nonempty (a / 10) ltac:(apply Z.div_pos; lia)) as N.
    unfold dstr in H. destruct (str_of_Z (a / 10)) as [|k [|k' s]]; cbn [append] in H;
      [congruence | discriminate | discriminate].
  - rewrite (str_of_Z_step a), (str_of_Z_step b) in H by assumption.
    apply append_inj_last in H. destruct H as [H1 H2].
    apply IH in H1; [| split; [apply Z.div_pos; lia | apply Z.div_lt; lia] | apply Z.div_pos; lia].
    apply digit_of_inj in H2; try (apply Z.mod_pos_bound; lia).
    rewrite (Z.div_mod a 10), (Z.div_mod b 10) by lia. rewrite H1, H2. reflexivity.
Qed.

(* ================================================================================ *)
(* 11. the glob of round r only matches the files written for round r               *)
(* ================================================================================ *)
Lemma prefix_app_same a : forall x y, prefix (a ++ x)%string (a ++ y)%string = prefix x y.
Proof.
  induction a as [|k a IH]; intros x y; cbn [append]; auto.
  cbn [prefix]. destruct (ascii_dec k k); [apply IH | congruence].
Qed.

Lemma prefix_sep c a : forall a' x y,
  str_all (fun k => k <> c) a -> str_all (fun k => k <> c) a' ->
  prefix (a ++ String c x)%string (a' ++ String c y)%string = true ->
  a = a' /\ prefix x y = true.
Proof.
  induction a as [|k a IH]; intros [|k' a'] x y Ha Ha'; cbn [append prefix str_all] in *.
  - destruct (ascii_dec c c); [auto | congruence].
  - destruct (ascii_dec c k'); [|discriminate]. subst k'. tauto.
  - destruct (ascii_dec k c); [|discriminate]. subst k. tauto.
  - destruct (ascii_dec k k'); [|discriminate]. subst k'. intro H.
    destruct (IH a' x y) as [-> Hp]; tauto.
Qed.

Lemma bufs_glob_round r r' l w :
  0 <= r -> 0 <= r' -> is_bufs_of r (bufs_name r' l w) = true -> r = r'.
Proof.
  intros Hr Hr' H. unfold is_bufs_of, bufs_name in H. apply andb_true_iff in H.
  destruct H as [H _]. rewrite prefix_app_same in H.
  apply prefix_sep in H; try (apply str_of_Z_no_dash; assumption).
  destruct H as [H _]. apply str_of_Z_inj in H; auto.
Qed.

Lemma idxs_glob_round r r' l w :
  0 <= r -> 0 <= r' -> is_idxs_of r (idxs_name r' l w) = true -> r = r'.
Proof.
  intros Hr Hr' H. unfold is_idxs_of, idxs_name in H. apply andb_true_iff in H.
  destruct H as [H _]. rewrite prefix_app_same in H.
  apply prefix_sep in H; try (apply str_of_Z_no_dash; assumption).
  destruct H as [H _]. apply str_of_Z_inj in H; auto.
Qed.

Lemma bufs_glob_not_idxs r r' l w :
  0 <= r -> 0 <= r' -> is_bufs_of r (idxs_name r' l w) = false.
Proof.
  intros Hr Hr'. destruct (is_bufs_of r (idxs_name r' l w)) eqn:H; auto. exfalso.
  unfold is_bufs_of, idxs_name in H. apply andb_true_iff in H.
  destruct H as [H _]. rewrite prefix_app_same in H.
  apply prefix_sep in H; try (apply str_of_Z_no_dash; assumption).
  destruct H as [_ H]. cbn in H. discriminate.
Qed.

Lemma idxs_glob_not_bufs r r' l w :
  0 <= r -> 0 <= r' -> is_idxs_of r (bufs_name r' l w) = false.
Proof.
  intros Hr Hr'. destruct (is_idxs_of r (bufs_name r' l w)) eqn:H; auto. exfalso.
  unfold is_idxs_of, bufs_name in H. apply andb_true_iff in H.
  destruct H as [H _]. rewrite prefix_app_same in H.
  apply prefix_sep in H; try (apply str_of_Z_no_dash; assumption).
  destruct H as [_ H]. cbn in H. discriminate.
Qed.

Lemma filter_names_put p d n c :
  p n = false -> filter p (dir_names (dir_put d n c)) = filter p (dir_names d).
Proof.
  intro Hp. unfold dir_names. induction d as [|[k x] tl IH]; cbn [dir_put map filter fst].
  - rewrite Hp. reflexivity.
  - destruct (String.eqb_spec k n) as [->|Hkn].
    + cbn [map filter fst]. reflexivity.
    + destruct (str_ltb n k); cbn [map filter fst].
      * rewrite Hp. reflexivity.
      * rewrite IH. reflexivity.
Qed.

Lemma filter_names_puts p ws : forall d,
  Forall (fun e => p (fst e) = false) ws ->
  filter p (dir_names (dir_puts d ws)) = filter p (dir_names d).
Proof.
  induction ws as [|[n c] ws IH]; intros d H; cbn [dir_puts fold_left]; auto.
  inversion H; subst. cbn [fst snd] in *.
  change (filter p (dir_names (dir_puts (dir_put d n c) ws)) = filter p (dir_names d)).
  rewrite IH by assumption. apply filter_names_put. assumption.
Qed.

(* the files a task writes for round r' are invisible to the glob of any other round *)
Lemma prev_pairs_other_round d r r' l gs :
  0 <= r -> 0 <= r' -> r <> r' ->
  prev_pairs (dir_puts d (save_groups r' l gs)) r = prev_pairs d r.
Proof.
  intros Hr Hr' Hne. unfold prev_pairs.
  rewrite (filter_names_puts (is_bufs_of r)), (filter_names_puts (is_idxs_of r)); auto.
  - unfold save_groups. induction gs as [|[w g] gs IH]; cbn [flat_map app]; constructor.
    + cbn [fst]. apply idxs_glob_not_bufs; assumption.
    + constructor; auto. cbn [fst].
      destruct (is_idxs_of r (idxs_name r' l w)) eqn:E; auto.
      apply idxs_glob_round in E; auto. contradiction.
  - unfold save_groups. induction gs as [|[w g] gs IH]; cbn [flat_map app]; constructor.
    + cbn [fst]. destruct (is_bufs_of r (bufs_name r' l w)) eqn:E; auto.
      apply bufs_glob_round in E; auto. contradiction.
    + constructor; auto. cbn [fst]. apply bufs_glob_not_idxs; assumption.
Qed.

(* ================================================================================ *)
