(* GenTieMerges.v — the generated definitions (Gen/GMerges.v, regenerated from /repo on every run) are the
   hand model.  Every theorem about the model is thereby re-checked against what the source
   says now. *)
From BB Require Import Model.Merges Gen.NumpySem Gen.GSim Gen.GMerges Proofs.GenTieSim.
From Coq Require Import Lia.
Open Scope Z_scope.

Section Merges.
Variable fexp : float -> float.

Lemma tie_tol_init tol :
  GMerges.tol_init fexp tol 1000 tol_decay true = (tol, tol_decay, tol_offset fexp).
Proof. reflexivity. Qed.

(* the six criteria: the hand model's [accept] is the generated __call__ of each class *)
Lemma tie_accept c thr nl nn ol ml on mn :
  accept fexp c thr nl nn ol ml on mn =
  match c with
  | CRadius => GMerges.radius_call thr nl nn ol ml on mn
  | CDiameter => GMerges.diameter_call thr nl nn ol ml on mn
  | CTolDiameter t d o => GMerges.tol_diameter_call fexp t d o thr nl nn ol ml on mn
  | CTolRadius t d o => GMerges.tol_radius_call fexp t d o thr nl nn ol ml on mn
  | CTolLegacy t => GMerges.tol_legacy_call t thr nl nn ol ml on mn
  | CNever _ _ _ => GMerges.never_call thr nl nn ol ml on mn
  end.
Proof.
  destruct c; cbn [accept];
    unfold GMerges.radius_call, GMerges.diameter_call, GMerges.tol_diameter_call,
           GMerges.tol_radius_call, GMerges.tol_legacy_call, GMerges.never_call;
    rewrite ?tie_radius_compl; try reflexivity.
Qed.
End Merges.

